(* driver.ml — runs the extracted models on a case file; one canonical observation per line. *)
open Model
open Conv

let run_xxh (c : case) : string =
  match c.kind with
  | "xxh1" ->
    let d = get_bytes c "data" in
    Printf.sprintf "sum=%s ref=%s" (z_to_dec (checksum_zero d)) (z_to_dec (xxh32_ref d))
  | "xxhs" ->
    let chunks = List.map bytes_of_hex (get_list c "chunks") in
    let st = List.fold_left xwrite xzero chunks in
    (* running digests: the model's Sum32 after every write, and the reference digest of every prefix
       (C13_stream: they coincide; the implementation must give the reference's) *)
    let _, run, refs = List.fold_left (fun (s, acc, racc) ch ->
        let s' = xwrite s ch in
        let pre = (match racc with [] -> ch | (p, _) :: _ -> p @ ch) in
        (s', z_to_dec (xsum32_g false s') :: acc, (pre, z_to_dec (xxh32_ref pre)) :: racc)) (xzero, [], []) chunks in
    Printf.sprintf "sum=%s ref=%s sums=%s ref_sums=%s" (z_to_dec (xsum32_g false st)) (z_to_dec (xxh32_ref (List.concat chunks)))
      (String.concat "," (List.rev run)) (String.concat "," (List.rev_map snd refs))
  | "xxhi" ->
    (* injected state, then writes, then Sum32; also the resulting state *)
    let v = List.map z_of_dec (get_list c "v") in
    let st0 = (match v with [a;b;c';d] ->
      { xv = (((a, b), c'), d); xtotal = get_z c "total"; xbuf = get_bytes c "buf" }
      | _ -> failwith "xxhi: v") in
    let chunks = List.map bytes_of_hex (get_list c "chunks") in
    let st = List.fold_left xwrite st0 chunks in
    let (((a, b), c'), d) = st.xv in
    Printf.sprintf "sum=%s v=%s,%s,%s,%s total=%s buf=%s" (z_to_dec (xsum32_g false st))
      (z_to_dec a) (z_to_dec b) (z_to_dec c') (z_to_dec d) (z_to_dec st.xtotal) (hex_of_bytes st.xbuf)
  | "xxhbig" -> "big=1"   (* decided by the implementation-side oracle; see harness/xxh.go *)
  | k -> failwith ("unknown kind " ^ k)

(* ---- block decoders ---- *)
let fill_dst n fa fb = List.init n (fun i -> byte_tab.((i * fa + fb) land 255))
let rec take n l = if n <= 0 then [] else match l with [] -> [] | x :: r -> x :: take (n-1) r
let show_dres pfx = function
  | DErr -> Printf.sprintf "%sres=err" pfx
  | DOk (n, dst) -> Printf.sprintf "%sres=ok %sn=%s %sdst=%s" pfx pfx (z_to_dec n) pfx (hex_of_bytes dst)
let run_dec (c : case) : string =
  let src = get_bytes c "src" and dict = get_bytes c "dict" in
  let dstlen = get_int c "dstlen" in
  let dst0 = fill_dst dstlen (get_int c "fa") (get_int c "fb") in
  let spec = (match spec_decode_x src dict (z_of_int dstlen) with
    | None -> "ref_res=err"
    | Some out -> Printf.sprintf "ref_res=ok ref_n=%d ref_out=%s" (List.length out) (hex_of_bytes out)) in
  let a = show_dres "a_" (decode_asm src dst0 dict) in
  let p = show_dres "p_" (decode_portable src dst0 dict) in
  (* on small inputs the clean quadratic specification is run as well *)
  let slow = if List.length src <= 300 && dstlen <= 2000 && List.length dict <= 300 then
      (match spec_decode src dict (z_of_int dstlen), spec_decode_x src dict (z_of_int dstlen) with
       | None, None -> " oracle_specx=ok"
       | Some a, Some b when a = b -> " oracle_specx=ok"
       | _ -> " oracle_specx=fail:sdecx-differs-from-sdec")
    else "" in
  String.concat " " [spec; a; p] ^ slow

(* ---- block compressors ---- *)
let run_cmp (c : case) : string =
  let src = get_bytes c "src" in
  let dstlen = z_of_int (get_int c "dstlen") in
  let k = get_int c "stale" in
  let stale h = z_of_int (((int_of_z h) * (2 * k + 1) + 12345) land 65535) in
  let r = (if get c "algo" = "fast" then compress_fast_list src stale dstlen
           else compress_hc_list src (z_of_int (get_int c "depth")) dstlen) in
  let m = (match r with
    | CPanic -> "res=panic" | CHang -> "res=hang" | CErr -> "res=err" | CZero -> "res=zero"
    | COk b -> Printf.sprintf "res=ok n=%d block=%s" (List.length b) (hex_of_bytes b)) in
  (* independent validation of the IMPLEMENTATION's block: strict format and meaning *)
  let ib = get_bytes c "iblock" in
  let o = if ib = [] then "" else begin
    let strict_v = (match parse_block (nat_of_int (List.length ib + 1)) ib [] with
      | None -> "fail:not-a-block-ending-in-literals"
      | Some p -> if strict p then "ok" else "fail:strict-rules") in
    let dec_v = (match spec_decode_x ib [] (z_of_int (List.length src)) with
      | Some out when out = src -> "ok"
      | Some _ -> "fail:spec-decodes-to-other-bytes"
      | None -> "fail:spec-rejects") in
    Printf.sprintf " oracle_strict=%s oracle_specdec=%s" strict_v dec_v end in
  m ^ o

let dispatch (c : case) : string =
  if c.kind = "lz4c" then Frames.run_lz4c c else
  if c.kind = "pipe" then Frames.run_pipe c else
  if c.kind = "rpipe" then Frames.run_rpipe c else
  if c.kind = "hdr" then Frames.run_hdr c else
  if c.kind = "hdrm" then Frames.run_hdrm c else
  if c.kind = "ws" then Frames.run_ws c else
  if c.kind = "rs" then Frames.run_rs c else
  if c.kind = "cr" then Frames.run_cr c else
  if c.kind = "cmp" then run_cmp c else
  if c.kind = "legbig" then "" (* implementation-side oracle only: a 2.3 GiB legacy stream *) else
  if c.kind = "cmpbig" then "" (* implementation-side oracles only: sources of several megabytes *) else
  if c.kind = "decbig" then "" (* implementation-side oracle only: literal runs and matches of a megabyte and more, expected output known by construction *) else
  if c.kind = "dec" then run_dec c else
  if String.length c.kind >= 3 && String.sub c.kind 0 3 = "xxh" then run_xxh c
  else failwith ("unknown kind " ^ c.kind)

let () =
  let ic = if Array.length Sys.argv > 1 then open_in Sys.argv.(1) else stdin in
  (try while true do
    let line = input_line ic in
    if String.length line > 0 && line.[0] <> '#' then begin
      let c = parse_line line in
      let out = (try dispatch c with
        | Stack_overflow -> "MODEL-ERROR stack-overflow"
        | Failure m -> "MODEL-ERROR " ^ m) in
      print_string c.id; print_char ' '; print_string out; print_newline ()
    end
  done with End_of_file -> ())
