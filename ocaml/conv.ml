(* conv.ml — conversions between OCaml natives and the extracted inductives; line protocol. *)
open Model

let rec pos_of_int n =
  if n = 1 then XH
  else if n land 1 = 0 then XO (pos_of_int (n lsr 1))
  else XI (pos_of_int (n lsr 1))
let z_of_int n = if n = 0 then Z0 else if n > 0 then Zpos (pos_of_int n) else Zneg (pos_of_int (-n))
let rec int_of_pos = function XH -> 1 | XO p -> 2 * int_of_pos p | XI p -> 2 * int_of_pos p + 1
let int_of_z = function Z0 -> 0 | Zpos p -> int_of_pos p | Zneg p -> - (int_of_pos p)
let rec nat_of_int n = if n <= 0 then O else S (nat_of_int (n - 1))
let nat_of_int n = (* tail recursive *)
  let rec go acc n = if n <= 0 then acc else go (S acc) (n - 1) in go O n
let int_of_nat n = let rec go acc = function O -> acc | S k -> go (acc + 1) k in go 0 n

let z10 = z_of_int 10
let zbillion = z_of_int 1_000_000_000
let z_of_dec (s : string) : z =
  let neg = String.length s > 0 && s.[0] = '-' in
  let acc = ref Z0 in
  String.iteri (fun i c -> if not (i = 0 && neg) then
    acc := Z.add (Z.mul !acc z10) (z_of_int (Char.code c - 48))) s;
  if neg then Z.sub Z0 !acc else !acc
let rec z_to_dec (x : z) : string =
  match x with
  | Zneg p -> "-" ^ z_to_dec (Zpos p)
  | _ -> if Z.ltb x zbillion then string_of_int (int_of_z x)
         else z_to_dec (Z.div x zbillion) ^ Printf.sprintf "%09d" (int_of_z (Z.modulo x zbillion))

let byte_tab = Array.init 256 z_of_int
let hexval c = match c with
  | '0'..'9' -> Char.code c - 48 | 'a'..'f' -> Char.code c - 87 | 'A'..'F' -> Char.code c - 55
  | _ -> failwith "bad hex"
let bytes_of_hex (s : string) : z list =
  if s = "-" then [] else begin
    let n = String.length s / 2 in
    let r = ref [] in
    for i = n - 1 downto 0 do
      r := byte_tab.(hexval s.[2*i] * 16 + hexval s.[2*i+1]) :: !r
    done; !r end
let hex_of_bytes (l : z list) : string =
  if l = [] then "-" else begin
    let b = Buffer.create 64 in
    List.iter (fun z -> Buffer.add_string b (Printf.sprintf "%02x" (int_of_z z))) l;
    Buffer.contents b end

(* a case line: "<id> <kind> k=v k=v ..." *)
type case = { id : string; kind : string; f : (string * string) list }
let parse_line (s : string) : case =
  match String.split_on_char ' ' (String.trim s) with
  | id :: kind :: rest ->
    let f = List.filter_map (fun kv ->
      match String.index_opt kv '=' with
      | Some i -> Some (String.sub kv 0 i, String.sub kv (i+1) (String.length kv - i - 1))
      | None -> None) rest in
    { id; kind; f }
  | _ -> failwith ("bad line: " ^ s)
let get c k = try List.assoc k c.f with Not_found -> failwith ("case " ^ c.id ^ ": missing " ^ k)
let get_opt c k = List.assoc_opt k c.f
let get_int c k = int_of_string (get c k)
let get_z c k = z_of_dec (get c k)
let get_bytes c k = bytes_of_hex (get c k)
let get_list c k = let s = get c k in if s = "" then [] else String.split_on_char ',' s
