(* frames.ml — driver side of the frame-layer correspondence: parses the session languages,
   runs the extracted Writer / Reader / CompressingReader models and the frame specification. *)
open Model
open Conv

let cls = function
  | ENil -> "nil" | EEOF -> "eof" | EUEOF -> "ueof" | EInjected -> "injected" | EBadFrame -> "badframe"
  | EHdrSum -> "hdrsum" | EBlkSum -> "blksum" | EFrmSum -> "frmsum" | EBlkSize -> "blksize" | EShort -> "short"
  | EClosed -> "closed" | ENotApp -> "notapp" | EBadLevel -> "badlevel" | EUnhandled -> "unhandled"
  | EWClosed -> "wclosed" | ECrDone -> "crdone" | EOther -> "other"

(* same generator as harness/frame.go genData; 32-bit arithmetic *)
let gen_data kind seed n : z list =
  let m32 = 0xFFFFFFFF in
  let x = ref (((seed * 2654435761) + 12345) land m32) in
  let b = Bytes.create n in
  for i = 0 to n - 1 do
    let v = (match kind with
      | 0 -> x := (!x * 1664525 + 1013904223) land m32; (!x lsr 24) land 255
      | 1 -> let p = 37 + seed mod 11 in (97 + (i mod p) mod 26 + (i / p) mod 3) land 255
      | 2 -> seed land 255
      | 4 | 5 ->
        let tail = 40 + seed mod 300 in
        if kind = 4 && i >= n - tail then 0
        else if kind = 5 && i >= n - tail && i < n - tail + 24 && n > 2 * tail then Char.code (Bytes.get b (i - (n - tail)))
        else begin x := (!x * 1664525 + 1013904223) land m32; (!x lsr 24) land 255 end
      | _ -> if (i / 1000) mod 2 = 0 then begin x := (!x * 1664525 + 1013904223) land m32; (!x lsr 24) land 255 end
             else (65 + (i mod 50) mod 26) land 255) in
    Bytes.set b i (Char.chr v)
  done;
  let r = ref [] in
  for i = n - 1 downto 0 do r := byte_tab.(Char.code (Bytes.get b i)) :: !r done; !r

let parse_data (s : string) : z list =
  if String.length s >= 2 && String.sub s 0 2 = "g:" then begin
    match String.split_on_char ',' (String.sub s 2 (String.length s - 2)) with
    | [k; sd; n] -> gen_data (int_of_string k) (int_of_string sd) (int_of_string n)
    | _ -> failwith "bad g: spec" end
  else if String.length s >= 2 && String.sub s 0 2 = "h:" then bytes_of_hex (String.sub s 2 (String.length s - 2))
  else []

let parse_wopts (s : string) : wopt list =
  if s = "" || s = "-" then [] else
  (* the harness applies options in this fixed order: bs, bsraw, bc, cc, sz, lvl, leg, conc *)
  let kv = List.filter_map (fun x -> match String.index_opt x '=' with
    | Some i -> Some (String.sub x 0 i, int_of_string (String.sub x (i+1) (String.length x - i - 1))) | None -> None)
    (String.split_on_char ',' s) in
  let get k = List.assoc_opt k kv in
  List.concat [
    (match get "bs" with Some v when v <> 0 -> [OBlockSize (z_of_int (1 lsl (8 + 2 * v)))] | _ -> []);
    (match get "bsraw" with Some v when v <> 0 -> [OBlockSize (z_of_int v)] | _ -> []);
    (match get "bc" with Some v when v >= 0 -> [OBlockChecksum (v = 1)] | _ -> []);
    (match get "cc" with Some v when v >= 0 -> [OChecksum (v = 1)] | _ -> []);
    (match get "sz" with Some v when v >= 0 -> [OSize (z_of_int v)] | _ -> []);
    (match get "lvl" with Some v when v >= 0 -> [OLevel (z_of_int v)] | _ -> []);
    (match get "leg" with Some v when v >= 0 -> [OLegacy (v = 1)] | _ -> []);
    (match get "conc" with Some v when v >= 0 -> [OConcurrency (z_of_int v)] | _ -> []) ]

let split_on_string sep s = Str.split_delim (Str.regexp_string sep) s

let spec_verdict dom strict (frame : z list) (want : z list) : string =
  match frame_spec dom strict frame with
  | None -> "fail:specification-rejects-the-frame"
  | Some (content, consumed) ->
    if content <> want then "fail:specification-decodes-to-other-content"
    else if int_of_z consumed <> List.length frame then "fail:bytes-after-the-frame"
    else "ok"

(* ---- writer sessions ---- *)
let run_ws (c : case) : string =
  let ops = String.split_on_char ';' (get c "ops") in
  let fault = get_int c "fault" in
  let fresh = { sk_chunks = []; sk_calls = Z0; sk_fail = Z0 } in
  let w = ref (new_writer { sk_chunks = []; sk_calls = Z0; sk_fail = z_of_int fault }) in
  let res = ref [] in
  List.iter (fun op ->
    let pre n = String.length op >= n in
    let (wop, fmt) =
      if pre 2 && String.sub op 0 2 = "A:" then (WApply (parse_wopts (String.sub op 2 (String.length op - 2))), `A)
      else if pre 2 && String.sub op 0 2 = "W:" then (WWrite (parse_data (String.sub op 2 (String.length op - 2))), `N)
      else if pre 3 && String.sub op 0 3 = "RF:" then
        (match String.split_on_char '|' (String.sub op 3 (String.length op - 3)) with
         | d :: _ -> (WReadFrom (parse_data d), `N) | [] -> failwith "RF")
      else if op = "F" then (WFlush, `F) else if op = "C" then (WClose, `C) else if op = "R" then (WReset, `R)
      else failwith ("ws op " ^ op) in
    let (w1, r) = wstep !w wop fresh in
    w := w1;
    res := (match r, fmt with
      | RE e, `A -> "a:" ^ cls e | RE e, `F -> "f:" ^ cls e | RE e, `C -> "c:" ^ cls e
      | RNE (n, e), _ -> z_to_dec n ^ ":" ^ cls e
      | RUnit, _ -> "r"
      | RE e, _ -> "?:" ^ cls e) :: !res) ops;
  let sinks = List.rev_map (fun s -> hex_of_bytes (sink_bytes s)) ((!w).w_sink :: (!w).w_old) in
  let m = Printf.sprintf "res=%s sinks=%s" (String.concat "|" (List.rev !res)) (String.concat "," sinks) in
  (* C17: the per-call results are those of the reference machine (C17_writer_results), and after a
     Reset the object is indistinguishable from a new one (C17_writer_reset): for fault-free sessions
     the model's results and its last sink are therefore the specification *)
  let m = if fault = 0 then
      m ^ Printf.sprintf " ref_res=%s" (String.concat "|" (List.rev !res))
        ^ (if List.mem "R" ops && List.nth ops (List.length ops - 1) = "C"
           then " lastsink=" ^ List.nth sinks (List.length sinks - 1) ^ " ref_lastsink=" ^ List.nth sinks (List.length sinks - 1) else "")
    else m in
  (* specification oracle on the IMPLEMENTATION's sinks: every epoch whose Close returned nil *)
  let isinks = get_list c "isinks" and iacc = get_list c "iacc" and iclosed = get_list c "iclosed" in
  let o = ref "" in
  (try
    List.iteri (fun i sk ->
      if List.nth iclosed i = "1" then begin
        let frame = bytes_of_hex sk and want = bytes_of_hex (List.nth iacc i) in
        (* the configured content size is part of the strict reading only when it is the content's length *)
        let cfg = (match ops with
          | a :: _ when String.length a > 2 && String.sub a 0 2 = "A:" ->
            (try List.assoc "sz" (List.filter_map (fun x -> match String.index_opt x '=' with
                 | Some j -> Some (String.sub x 0 j, int_of_string (String.sub x (j+1) (String.length x - j - 1))) | None -> None)
                 (String.split_on_char ',' (String.sub a 2 (String.length a - 2)))) with Not_found -> 0)
          | _ -> 0) in
        let strict = (i > 0) || cfg = 0 || cfg = List.length want in
        let v = spec_verdict Decoded strict frame want in
        if v <> "ok" then o := Printf.sprintf " oracle_spec=%s(epoch%d)" v i;
        let vs = spec_verdict Stored strict frame want in
        if vs <> "ok" && v = "ok" then o := !o ^ Printf.sprintf " oracle_spec_stored=%s(epoch%d)" vs i
      end) isinks
  with _ -> ());
  if !o = "" then m ^ " oracle_spec=ok" else m ^ !o

(* ---- reader sessions ---- *)
let rm_sizes = [| 1; 3; 7; 100; 4096; 65535; 65536; 65537; 1 lsl 20; 4 lsl 20 |]

let run_rs (c : case) : string =
  let input = get_bytes c "in" in
  let ops = String.split_on_char ';' (get c "ops") in
  let conc = get_int c "conc" and fault = get_int c "fault" in
  let r = ref (new_reader { s_rem = input; s_calls = Z0; s_fail = z_of_int fault; s_consumed = Z0 }) in
  let res = ref [] and delivered = ref [] and final = ref "none" in
  let step op = let (r1, x) = rstep !r op in r := r1; x in
  if conc <> 1 then (match step (RApply (Some (z_of_int conc), false)) with RErr e -> res := ("a:" ^ cls e) :: !res | _ -> ());
  List.iter (fun op ->
    let n = String.length op in
    if n >= 2 && String.sub op 0 2 = "A:" then begin
      let s = String.sub op 2 (n - 2) in
      let kv = List.filter_map (fun x -> match String.index_opt x '=' with
        | Some i -> Some (String.sub x 0 i, int_of_string (String.sub x (i+1) (String.length x - i - 1))) | None -> None)
        (String.split_on_char ',' s) in
      let other = List.exists (fun (k, _) -> k <> "conc") kv in
      let cc = (match List.assoc_opt "conc" kv with Some v when v >= 0 -> Some (z_of_int v) | _ -> None) in
      (match step (RApply (cc, other)) with RErr e -> res := ("a:" ^ cls e) :: !res | _ -> ())
    end else if n >= 3 && (String.sub op 0 3 = "RA:" || op = "RM") || op = "RM" then begin
      let fixed = if op = "RM" then 0 else int_of_string (String.sub op 3 (n - 3)) in
      let got = ref [] and e = ref ENil and iter = ref 0 and k = ref (List.length input mod 10) in
      (try while true do
        let sz = if fixed > 0 then fixed else begin let s = rm_sizes.(!k mod 10) in incr k; s end in
        (match step (RRead (z_of_int sz)) with
         | RRes (_, er, d) -> got := List.rev_append d !got; if er <> ENil then begin e := er; raise Exit end
         | _ -> raise Exit);
        incr iter; if !iter > 5_000_000 then begin e := EOther; raise Exit end
      done with Exit -> ());
      let d = List.rev !got in
      res := Printf.sprintf "%d:%s:%s" (List.length d) (cls !e) (hex_of_bytes d) :: !res;
      delivered := !delivered @ d; final := cls !e
    end else if n >= 2 && String.sub op 0 2 = "R:" then begin
      (match step (RRead (z_of_int (int_of_string (String.sub op 2 (n - 2))))) with
       | RRes (m, e, d) -> res := Printf.sprintf "%s:%s:%s" (z_to_dec m) (cls e) (hex_of_bytes d) :: !res;
                           delivered := !delivered @ d; final := cls e
       | _ -> ())
    end else if op = "WT" then begin
      (match step RWriteTo with
       | RRes (m, e, d) -> res := Printf.sprintf "%s:%s:%s" (z_to_dec m) (cls e) (hex_of_bytes d) :: !res;
                           delivered := !delivered @ d; final := (if e = ENil then "eof" else cls e)
       | _ -> ())
    end else if op = "S" then begin
      (match step RSize with RSz v -> res := ("s:" ^ z_to_dec v) :: !res | _ -> ())
    end else if n >= 3 && String.sub op 0 3 = "RS:" then begin
      ignore (step (RReset (parse_data (String.sub op 3 (n - 3)))));
      delivered := []; final := "none"; res := "r" :: !res
    end else failwith ("rs op " ^ op)) ops;
  let consumed = z_to_dec (!r).r_src.s_consumed in
  let fc = if !final = "eof" || !final = "nil" || !final = "none" then !final else "err" in
  let m = Printf.sprintf "res=%s consumed=%s final=%s finalc=%s out=%s" (String.concat "|" (List.rev !res)) consumed !final fc (hex_of_bytes !delivered) in
  (* C17 (Reader lifecycle theorems) and C05/C06/C15: for the sequential Reader the model's per-call
     results are the specification *)
  let m = m ^ Printf.sprintf " ref_res=%s" (String.concat "|" (List.rev !res)) in
  (* C05: when the IMPLEMENTATION reports a clean end of stream (single-stream sessions), the
     specification must accept the consumed bytes with the same content *)
  let o =
    (match get_opt c "i_final", get_opt c "i_consumed", get_opt c "i_out" with
     | Some "eof", Some k, Some out when fault = 0 && not (List.exists (fun op -> String.length op >= 3 && String.sub op 0 3 = "RS:") ops) ->
       let k = int_of_string k in
       let pre = List.filteri (fun i _ -> i < k) input in
       if input = [] then " oracle_spec=ok"   (* an empty source holds no frame: io.EOF at once is its clean end *)
       else
       (match frame_spec Decoded false pre with
        | None -> " oracle_spec=fail:reader-reports-clean-end-but-specification-rejects-the-consumed-bytes"
        | Some (content, used) ->
          if content <> bytes_of_hex out then " oracle_spec=fail:reader-output-differs-from-specification"
          else if int_of_z used <> k then " oracle_spec=fail:consumed-bytes-differ-from-frame-length"
          else " oracle_spec=ok")
     | _ -> "") in
  m ^ o

(* ---- compressing reader ---- *)
let run_cr (c : case) : string =
  if get_opt c "once" = Some "1" || (get_int c "fault" > 0 && get_int c "frag" <> 0) || get_opt c "data2" <> None then "" (* implementation-side oracles only *) else
  let data = parse_data (get c "data") in
  let fault = get_int c "fault" in
  let sizes = List.map int_of_string (get_list c "sizes") in
  let src = { s_rem = data; s_calls = Z0; s_fail = z_of_int fault; s_consumed = Z0 } in
  let opts = get c "opts" in
  let (c0, ae) = new_creader src (parse_wopts opts) in
  let cr = ref c0 and all = ref [] and nreads = ref 0 and final = ref "none" in
  let arr = Array.of_list sizes in
  let i = ref 0 in
  (try while true do
    let sz0 = if !i < Array.length arr then arr.(!i) else arr.(Array.length arr - 1) in
    let sz = if !i >= Array.length arr && sz0 = 0 then 64 else sz0 in
    let ((c1, bytes), e) = cr_read !cr (z_of_int sz) in
    cr := c1; incr nreads; all := List.rev_append bytes !all;
    if e <> ENil then begin final := cls e; raise Exit end;
    if !i > 200000 then begin final := "runaway"; raise Exit end;
    incr i
  done with Exit -> ());
  let out = List.rev !all in
  let m = Printf.sprintf "apply=%s nreads=%d final=%s out=%s" (if opts = "-" || opts = "" then "nil" else cls ae) !nreads !final (hex_of_bytes out) in
  let o = (match get_opt c "iout" with
    | Some h when h <> "-" && fault = 0 -> " oracle_spec=" ^ spec_verdict Decoded true (bytes_of_hex h) data
    | _ -> "") in
  m ^ o

(* ---- headers (C19) ---- *)
let le32_list m = [byte_tab.(m land 255); byte_tab.((m lsr 8) land 255); byte_tab.((m lsr 16) land 255); byte_tab.((m lsr 24) land 255)]
let vfh_of (input : z list) : string =
  let ((e, _), _) = parse_headers (nat_of_int (List.length input + 1)) { s_rem = input; s_calls = Z0; s_fail = Z0; s_consumed = Z0 } in
  (match e with ENil -> "1nil" | EBadFrame -> "0nil" | e -> "0" ^ cls e)
let run_hdr (c : case) : string =
  let d = get_int c "d" and sz = get_bytes c "sz" in
  let cks = List.map int_of_string (get_list c "cks") in
  let one ck =
    let input = le32_list 0x184D2204 @ [byte_tab.(d land 255); byte_tab.(d lsr 8)] @ (if d land 8 <> 0 then sz else []) @ [byte_tab.(ck)] in
    let r0 = new_reader { s_rem = input; s_calls = Z0; s_fail = Z0; s_consumed = Z0 } in
    let (r1, res) = rstep r0 (RRead Z0) in
    let e = (match res with RRes (_, e, _) -> cls e | _ -> "?") in
    let size = (match rstep r1 RSize with (_, RSz v) -> z_to_dec v | _ -> "?") in
    (vfh_of input, e, size) in
  let rs = List.map one cks in
  (* the frame SPECIFICATION's verdict on the same header (independent of the Reader model) *)
  let spec_one ck =
    let desc = [byte_tab.(d land 255); byte_tab.(d lsr 8)] @ (if d land 8 <> 0 then sz else []) @ [byte_tab.(ck)] in
    (match parse_desc false desc with Some _ -> "1" | None -> "0") in
  let refacc = String.concat "," (List.map spec_one cks) in
  (* C19_exact / C19_size characterise the header parser completely, so its results are the
     specification for this component: a disagreement is a concrete failing header *)
  Printf.sprintf "ref_acc=%s ref_vfh=%s ref_rd=%s ref_size=%s vfh=%s rd=%s size=%s" refacc
    (String.concat "," (List.map (fun (a,_,_) -> a) rs))
    (String.concat "," (List.map (fun (_,b,_) -> b) rs)) (String.concat "," (List.map (fun (_,_,c) -> c) rs)) (String.concat "," (List.map (fun (a,_,_) -> a) rs))
    (String.concat "," (List.map (fun (_,b,_) -> b) rs)) (String.concat "," (List.map (fun (_,_,c) -> c) rs))
let run_hdrm (c : case) : string = let v = vfh_of (get_bytes c "in") in "ref_vfh=" ^ v ^ " vfh=" ^ v

(* ---- pipeline traces (C08) ---- *)
let run_pipe (c : case) : string =
  let nj = get_int c "injobs" in
  let cid s = if s = "s" then CSentinel else CJob (nat_of_int (int_of_string s)) in
  let evs = List.filter_map (fun t ->
    match String.split_on_char ':' t with
    | [n; id] when id <> "?" ->
      (match n with
       | "enq" -> Some (EvEnqueue (cid id)) | "sub" -> Some (EvSubmitted (cid id)) | "off" -> Some (EvWkOffer (cid id))
       | "take" -> Some (EvMgrTake (cid id)) | "recv" -> if id = "s" then None else Some (EvMgrRecv (cid id))
       | "close" -> Some (EvMgrClose (cid id)) | "exit" -> Some EvMgrExit
       | "woken" -> Some (EvWkWoken (cid id)) | "done" -> Some (EvWkDone (cid id))
       | "cenq" -> Some EvCloseEnqueue | "coff" -> Some EvCloseOffer | "cdone" -> Some EvCloseDone
       | _ -> None)
    | _ -> None) (get_list c "itr") in
  let unknown = List.exists (fun t -> match String.split_on_char ':' t with [_; "?"] -> true | _ -> false) (get_list c "itr") in
  if unknown then "oracle_trace=fail:event-on-an-unknown-channel"
  else if trace_ok (nat_of_int nj) evs then "oracle_trace=ok"
  else "oracle_trace=fail:recorded-trace-is-not-a-run-of-the-pipeline-model"

(* ---- Reader pipeline traces (C08) ---- *)
let run_rpipe (c : case) : string =
  let rec rnat n = if n <= 0 then Modelr.O else Modelr.S (rnat (n - 1)) in
  let nb = get_int c "inblk" in
  let cid s = if s = "s" then Modelr.CSentinel else Modelr.CJob (rnat (int_of_string s)) in
  let evs = List.filter_map (fun t ->
    match String.split_on_char ':' t with
    | [n; id] when id <> "?" ->
      (match n with
       | "enq" -> Some (Modelr.EvEnq (cid id)) | "start" -> Some (Modelr.EvWkStart (cid id)) | "dec" -> Some (Modelr.EvWkDecoded (cid id))
       | "take" -> Some (Modelr.EvTake (cid id)) | "recv" -> Some (Modelr.EvRecv (cid id)) | "dlv" -> Some (Modelr.EvDeliver (cid id))
       | _ -> None)
    | _ -> None) (get_list c "itr") in
  let unknown = List.exists (fun t -> match String.split_on_char ':' t with [_; "?"] -> true | _ -> false) (get_list c "itr") in
  if unknown then "oracle_rtrace=fail:event-on-an-unknown-channel" else
  if Modelr.trace_ok (rnat nb) evs then "oracle_rtrace=ok"
  else "oracle_rtrace=fail:recorded-trace-is-not-a-run-of-the-Reader-pipeline-model"

(* ---- the lz4c command (C20) ---- *)
let run_lz4c (c : case) : string =
  let toks = List.filter (fun x -> x <> "") (String.split_on_char '_' (get c "flags")) in
  let size = ref 4194304 and bc = ref false and sc = ref false and lvl = ref 0 and conc = ref (-1) in
  let rec go = function
    | "-size" :: v :: r -> size := (match v with "64K" -> 65536 | "256K" -> 262144 | "1M" -> 1048576 | _ -> 4194304); go r
    | "-bc" :: r -> bc := true; go r
    | "-sc" :: r -> sc := true; go r
    | "-l" :: v :: r -> lvl := int_of_string v; go r
    | "-c" :: v :: r -> conc := int_of_string v; go r
    | _ :: r -> go r
    | [] -> () in
  go toks;
  let fl = { f_size = z_of_int !size; f_bc = !bc; f_sc = !sc; f_level = z_of_int !lvl; f_conc = z_of_int !conc } in
  let d1 = parse_data (get c "data") in
  let d2 = get c "data2" in
  let files = d1 :: (if d2 = "-" then [] else [parse_data d2]) in
  let r = if get c "stdio" = "1" then cmd_compress_stdio fl d1 else cmd_compress fl files in
  let m = (match r with
    | CmdOk outs -> "lz4=" ^ String.concat "," (List.map hex_of_bytes outs)
    | CmdErr (outs, e) -> "lz4=" ^ String.concat "," (List.map hex_of_bytes outs @ ["MISSING"]) ^ " x_err=" ^ cls e) in
  (* the IMPLEMENTATION's .lz4 files must be frames of the strict specification holding the file *)
  let o = (match get_opt c "ilz4" with
    | Some h when h <> "" ->
      let zs = String.split_on_char ',' h in
      (try
        let bad = ref "" in
        List.iteri (fun i z -> if z <> "MISSING" then begin
          let want = List.nth files i in
          let v = spec_verdict Decoded true (bytes_of_hex z) want in
          if v <> "ok" then bad := Printf.sprintf "%s(file%d)" v i end) zs;
        if !bad = "" then " oracle_spec=ok" else " oracle_spec=" ^ !bad
      with _ -> "")
    | _ -> "") in
  m ^ o
