(* GenDecodeBodyCorollaries.v — the property theorems C03 / C04 restated for the TRANSLATED portable
   decoder (GenDecodeBody.lz4block_decodeBlock), by composing GenDecodeBodyProofs.decodeBlock_refines
   with the theorems about the model (BlockTheorems: portable_safe, portable_exact, portable_wellformed). *)
From Coq Require Import ZArith List Lia Bool Arith.
From LZ4V Require Import Base GoT GenDecodeBody BlockFormat BlockFormatProofs BlockExec DecodePortable
  BlockTheoremsSpec BlockTheorems GenDecodeBodyProofs.
Import ListNotations.
Open Scope Z_scope.

(* running the translated function on fresh, non-aliased arguments with arbitrary spare capacity,
   from an arbitrary prior state *)
Definition run_decodeBlock (fuel : nat) (dst0 dst_spare src src_spare dict dict_spare : list Z) (s0 : state)
  : outcome state :=
  lz4block_decodeBlock fuel (init_lz4block_decodeBlock_fresh dst0 dst_spare src src_spare dict dict_spare s0).

Definition sized (src dst0 dict : list Z) : Prop := len src < 2^62 /\ len dst0 < 2^62 /\ len dict < 2^62.

(* C03 for the translated code (cf. PropC03.C03_portable / C03_total_portable): on arbitrary byte input it
   returns — no escaping panic, no hang —, the result is hasError (-2) or a count within the destination,
   the destination array keeps its length, nothing is written beyond len(dst), src and dict are not written *)
Theorem C03_translated : forall src dst0 dict src_spare dst_spare dict_spare s0 fuel,
  bytes src -> sized src dst0 dict -> (length src + 65 <= fuel)%nat ->
  exists s', run_decodeBlock fuel dst0 dst_spare src src_spare dict dict_spare s0 = Ret s'
    /\ (decodeBlock_ret s' = -2 \/ 0 <= decodeBlock_ret s' <= len dst0)
    /\ length (mem_decodeBlock_dst s') = length (dst0 ++ dst_spare)
    /\ skipn (length dst0) (mem_decodeBlock_dst s') = dst_spare
    /\ mem_decodeBlock_src s' = src ++ src_spare /\ mem_decodeBlock_dict s' = dict ++ dict_spare.
Proof.
  intros src dst0 dict src_spare dst_spare dict_spare s0 fuel Hb (Hs & Hd & Hk) Hf.
  destruct (decodeBlock_refines_fuel src dst0 dict src_spare dst_spare dict_spare s0 fuel Hb Hs Hd Hk Hf)
    as (s' & Hrun & Hres & Hlen & Hsp & Hsrc & Hdict).
  exists s'. split; [exact Hrun|]. split; [|split; [rewrite app_length; exact Hlen|split; [exact Hsp|split; [exact Hsrc|exact Hdict]]]].
  destruct (decode_portable src dst0 dict) as [n d|] eqn:E; [|left; exact Hres].
  destruct Hres as (Hn & _). right. rewrite Hn. exact (proj1 (portable_safe src dst0 dict n d Hb E)).
Qed.

Corollary C03_translated_no_panic_no_hang : forall src dst0 dict src_spare dst_spare dict_spare s0 fuel,
  bytes src -> sized src dst0 dict -> (length src + 65 <= fuel)%nat ->
  (forall s, run_decodeBlock fuel dst0 dst_spare src src_spare dict dict_spare s0 <> Pan s) /\
  run_decodeBlock fuel dst0 dst_spare src src_spare dict dict_spare s0 <> Hang.
Proof.
  intros src dst0 dict src_spare dst_spare dict_spare s0 fuel Hb Hsz Hf.
  destruct (C03_translated src dst0 dict src_spare dst_spare dict_spare s0 fuel Hb Hsz Hf) as (s' & Hrun & _).
  rewrite Hrun. split; [intros s|]; discriminate.
Qed.

(* C04 for the translated code (cf. PropC04.C04_portable): the result is exactly what the block format
   defines for this source, dictionary and destination length — error iff the format rejects, otherwise
   the count and the bytes *)
Theorem C04_translated : forall src dst0 dict src_spare dst_spare dict_spare s0 fuel,
  bytes src -> sized src dst0 dict -> (length src + 65 <= fuel)%nat ->
  exists s', run_decodeBlock fuel dst0 dst_spare src src_spare dict dict_spare s0 = Ret s'
    /\ match spec_decode src dict (len dst0) with
       | Some out => decodeBlock_ret s' = len out /\ firstn (length out) (mem_decodeBlock_dst s') = out
       | None => decodeBlock_ret s' = -2
       end.
Proof.
  intros src dst0 dict src_spare dst_spare dict_spare s0 fuel Hb (Hs & Hd & Hk) Hf.
  destruct (decodeBlock_refines_fuel src dst0 dict src_spare dst_spare dict_spare s0 fuel Hb Hs Hd Hk Hf)
    as (s' & Hrun & Hres & _).
  exists s'. split; [exact Hrun|].
  pose proof (portable_exact src dst0 dict Hb) as Hex.
  destruct (decode_portable src dst0 dict) as [n d|] eqn:E;
    destruct (spec_decode src dict (len dst0)) as [out|]; cbn [obs obs_spec] in Hex; try discriminate.
  - destruct Hres as (Hn & Hd'). injection Hex as Hno Hfo.
    pose proof (portable_safe src dst0 dict n d Hb E) as (Hnr & _).
    split; [congruence|].
    assert (Hlo : length out = Z.to_nat n) by (rewrite Hno; unfold len; lia).
    rewrite Hlo. rewrite <- Hfo. rewrite <- Hd', firstn_firstn. f_equal. unfold len in Hnr. lia.
  - exact Hres.
Qed.

(* C04, well-formed blocks (cf. PropC04.C04_wellformed_portable): every well-formed block whose decoded
   size fits the destination is decoded to the bytes the format defines *)
Theorem C04_wellformed_translated : forall p dict dst0 r src_spare dst_spare dict_spare s0 fuel,
  wf_parse p -> expand_parse (rev dict) (len dst0) [] p = Some r ->
  sized (encode p) dst0 dict -> (length (encode p) + 65 <= fuel)%nat ->
  exists s', run_decodeBlock fuel dst0 dst_spare (encode p) src_spare dict dict_spare s0 = Ret s'
    /\ decodeBlock_ret s' = len r /\ firstn (length r) (mem_decodeBlock_dst s') = rev r.
Proof.
  intros p dict dst0 r src_spare dst_spare dict_spare s0 fuel Hwf Hexp (Hs & Hd & Hk) Hf.
  pose proof (encode_bytes p Hwf) as Hb.
  destruct (decodeBlock_refines_fuel (encode p) dst0 dict src_spare dst_spare dict_spare s0 fuel Hb Hs Hd Hk Hf)
    as (s' & Hrun & Hres & _).
  exists s'. split; [exact Hrun|].
  destruct (portable_wellformed p dict dst0 r Hwf Hexp) as (d & Hdec & Hfd).
  rewrite Hdec in Hres. destruct Hres as (Hn & Hd'). split; [exact Hn|].
  pose proof (portable_safe (encode p) dst0 dict (len r) d Hb Hdec) as (Hnr & _).
  rewrite <- Hfd, <- Hd', firstn_firstn. f_equal. unfold len in Hnr. lia.
Qed.

Print Assumptions C03_translated.
Print Assumptions C04_translated.
Print Assumptions C04_wellformed_translated.

(* C12 for the translated code: the ASSEMBLY decoder model and the TRANSLATED portable decoder are
   observationally equivalent — same success-or-error outcome, same length, same decoded bytes — even from
   destinations with different prior contents *)
From LZ4V Require Import DecodeAsm.
Theorem C12_translated : forall src dstA dstB dict src_spare dst_spare dict_spare s0 fuel,
  bytes src -> sized src dstB dict -> length dstA = length dstB -> (length src + 65 <= fuel)%nat ->
  exists s', run_decodeBlock fuel dstB dst_spare src src_spare dict dict_spare s0 = Ret s'
    /\ match obs (decode_asm src dstA dict) with
       | Some (n, out) => decodeBlock_ret s' = n /\ firstn (Z.to_nat n) (mem_decodeBlock_dst s') = out
       | None => decodeBlock_ret s' = -2
       end.
Proof.
  intros src dstA dstB dict src_spare dst_spare dict_spare s0 fuel Hb (Hs & Hd & Hk) Hlen Hf.
  destruct (decodeBlock_refines_fuel src dstB dict src_spare dst_spare dict_spare s0 fuel Hb Hs Hd Hk Hf)
    as (s' & Hrun & Hres & _).
  exists s'. split; [exact Hrun|].
  rewrite (decoders_equiv src dstA dstB dict Hb Hlen).
  destruct (decode_portable src dstB dict) as [n d|] eqn:E; cbn [obs]; [|exact Hres].
  destruct Hres as (Hn & Hd'). split; [exact Hn|].
  pose proof (portable_safe src dstB dict n d Hb E) as (Hnr & _).
  rewrite <- Hd', firstn_firstn. f_equal. unfold len in Hnr. lia.
Qed.
Print Assumptions C12_translated.
