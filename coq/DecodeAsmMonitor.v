(* DecodeAsmMonitor.v — the memory accesses of the wide moves of the amd64 assembly block decoder
   made explicit, and proved in bounds.

   DecodeAsm.dec_a performs the wide moves with [firstn] and [overwrite], which silently truncate
   when a list is too short, whereas the real instructions would read or write outside the
   buffers.  Here every wide move goes through a CHECKED primitive: a load of n bytes requires n
   cells in the region it reads, a store of n bytes requires n cells in the remaining destination;
   a failed check is the distinguished result MFault.  Three facts:

     asm_monitor_erase      when the monitored decoder does not fault it is the unmonitored one;
     asm_never_faults       on byte input the monitored decoder never faults;
     asm_monitored_refines  hence the monitored decoder refines the block-format specification.

   Checks inserted (everything else is a copy of DecodeAsm.v):
     shortcut   16-byte load from the source, 16-byte store at the write position;
                the unguarded 2-byte load of the offset (the model's "unreachable" branch);
                the 8+8+2-byte match move: 8 <= offset <= di (load address inside dst, and the
                three moves do produce the periodic continuation), 18-byte store fits
                (then the loads, which end at di - offset + 18 <= di + 10, end inside dst too);
     literals   3x16 = 48-byte load from the source and 48-byte store, or the exact ll-byte
                load and store of memmove;
     matches    the exact copies (memmove / byte loop) write m bytes: m <= len rest;
                the interior 16-byte load from dst[di-offset, di-offset+16): 0 < offset <= di and
                the part of it that lies at or beyond di is inside dst; the 16-byte store fits.
   Reads of the dictionary and of the history by the exact copies are [copy_fast]'s, which is
   total and fails (err_short_dict) beyond the dictionary: copy_fast_in_bounds. *)
From LZ4V Require Import Base GenBlock BlockFormat BlockFormatProofs BlockExec DecodePortable
  DecodeAsm DecodeAsmProofs.
From Coq Require Import ZifyBool.

Inductive mres := MOk (n : Z) (dst : list Z) | MErr | MFault.

(* ------------------------------------------------------------------ *)
(* checked primitives                                                   *)
(* ------------------------------------------------------------------ *)

(* a load of n bytes from the front of a region *)
Definition ld (n : nat) (l : list Z) : option (list Z) :=
  if (n <=? length l)%nat then Some (firstn n l) else None.

(* a store of |src| bytes at the write position *)
Definition st (src rest : list Z) : option (list Z) :=
  if (length src <=? length rest)%nat then Some (overwrite src rest) else None.

(* a load of n bytes from dst[di-offset, di-offset+n): min(offset,n) bytes of history, the others
   from the cells at and after the write position *)
Definition ld_win (n : Z) (rout rest : list Z) (offset : Z) : option (list Z) :=
  if (0 <? offset) && (offset <=? len rout) && (n - Z.min offset n <=? len rest)
  then Some (window n rout rest offset) else None.

(* the 8+8+2-byte match move: loads at distance offset behind the write position, stores at the
   write position; with 8 <= offset the 18 bytes stored are the periodic continuation *)
Definition mv18 (rout rest : list Z) (offset : Z) : option (list Z) :=
  if (8 <=? offset) && (offset <=? len rout) && (18 <=? len rest) then
    let P := rrev (firstn (Z.to_nat offset) rout) in st (cyc 18 P P) rest
  else None.

(* ------------------------------------------------------------------ *)
(* the monitored decoder                                                *)
(* ------------------------------------------------------------------ *)

Inductive mstep := SOk (s rout rest : list Z) (di : Z) | SErr | SFault.

Section Decode.
Variable rdict : list Z.
Variable klen : Z.
Variable dstlen : Z.

Definition match_am (s rout rest : list Z) (di mnib offset : Z) : mstep :=
  match read_len mnib s with
  | None => SErr
  | Some (ml, s') =>
    let m := ml + lz4block_minMatch in
    if dstlen <? di + m then SErr
    else if (di <=? offset) || (offset <=? m) then
      match copy_fast m rdict rout klen di offset with
      | None => SErr
      | Some rout' =>
        if m <=? len rest then SOk s' rout' (skipn (Z.to_nat m) rest) (di + m) else SFault
      end
    else
      if (m <=? 16) && (16 <=? dstlen - di) then
        match ld_win 16 rout rest offset with
        | None => SFault
        | Some w =>
          match st w rest with
          | None => SFault
          | Some rest1 =>
            match take_rev rest1 m rout with
            | None => SErr
            | Some (rout', rest') => SOk s' rout' rest' (di + m)
            end
          end
        end
      else
        match copy_fast m rdict rout klen di offset with
        | None => SErr
        | Some rout' =>
          if m <=? len rest then SOk s' rout' (skipn (Z.to_nat m) rest) (di + m) else SFault
        end
  end.

Fixpoint dec_am (fuel : nat) (s rout rest : list Z) (di : Z) : mres :=
  match fuel with O => MErr | S f =>
  match s with
  | [] => MOk di (rev_append rout rest)
  | tok :: s1 =>
    let lit := tok / 16 in
    let mnib := tok mod 16 in
    if negb (lit =? 15) && (di + 32 <? dstlen) && longer_than 16 s1 then
      match ld 16 s1 with
      | None => MFault
      | Some w =>
      match st w rest with
      | None => MFault
      | Some rest1 =>
      match take_rev rest1 lit rout with
      | None => MErr
      | Some (rout2, rest2) =>
        let di2 := di + lit in
        match skipn (Z.to_nat lit) s1 with
        | o1 :: o2 :: s3 =>
          let offset := o1 + 256 * o2 in
          if offset =? 0 then MErr
          else if (mnib =? 15) || (offset <? 8) || (di2 <? offset) then
            match match_am s3 rout2 rest2 di2 mnib offset with
            | SErr => MErr
            | SFault => MFault
            | SOk s4 rout3 rest3 di3 => dec_am f s4 rout3 rest3 di3
            end
          else
            match mv18 rout2 rest2 offset with
            | None => MFault
            | Some rest2' =>
              match take_rev rest2' (mnib + lz4block_minMatch) rout2 with
              | None => MErr
              | Some (rout3, rest3) => dec_am f s3 rout3 rest3 (di2 + mnib + lz4block_minMatch)
              end
            end
        | _ => MFault                        (* the 2-byte load of the offset is not guarded *)
        end
      end end end
    else
      match (if lit =? 15 then read_ext s1 15 else Some (lit, s1)) with
      | None => MErr
      | Some (ll, s2) =>
        if dstlen <? di + ll then MErr else
        let wide := (ll <=? 48) && (48 <=? dstlen - di) && longer_than 47 s2 in
        match take_rev s2 ll [] with
        | None => MErr
        | Some (_, s3) =>
          match ld (if wide then 48%nat else Z.to_nat ll) s2 with
          | None => MFault
          | Some w =>
          match st w rest with
          | None => MFault
          | Some rest1 =>
          match take_rev rest1 ll rout with
          | None => MErr
          | Some (rout2, rest2) =>
            let di2 := di + ll in
            match s3 with
            | [] => if mnib =? 0 then MOk di2 (rev_append rout2 rest2) else MErr
            | [_] => MErr
            | o1 :: o2 :: s4 =>
              let offset := o1 + 256 * o2 in
              if offset =? 0 then MErr else
              match match_am s4 rout2 rest2 di2 mnib offset with
              | SErr => MErr
              | SFault => MFault
              | SOk s5 rout3 rest3 di3 => dec_am f s5 rout3 rest3 di3
              end
            end
          end end end
        end
      end
  end end.
End Decode.

Definition decode_asm_m (src dst0 dict : list Z) : mres :=
  match src with
  | [] => MErr
  | _ => dec_am (rrev dict) (len dict) (len dst0) (S (length src)) src [] dst0 0
  end.

(* ------------------------------------------------------------------ *)
(* runs                                                                 *)
(* ------------------------------------------------------------------ *)

Definition inj (d : dres) : mres := match d with DOk n l => MOk n l | DErr => MErr end.

Fixpoint iota (n : nat) (a : Z) : list Z := match n with O => [] | S k => a :: iota k (a + 1) end.

Definition blk1 : list Z :=
  encode ([mkseq (iota 5 1) 3 7; mkseq (iota 20 10) 20 4; mkseq [] 9 12; mkseq (iota 3 40) 30 100;
           mkseq (iota 2 50) 2 5; mkseq [] 17 9; mkseq (iota 60 100) 12 17; mkseq (iota 13 1) 16 14;
           mkseq (iota 14 1) 8 18; mkseq [] 1 40],
          iota 7 200).
Definition blk2 : list Z :=            (* reaches into a dictionary *)
  encode ([mkseq (iota 2 1) 6 9; mkseq (iota 40 10) 50 30; mkseq [] 45 4], iota 5 7).
Definition blk3 : list Z :=            (* short matches and short literal runs near the end *)
  encode ([mkseq (iota 14 1) 14 4; mkseq [] 8 5; mkseq (iota 1 9) 9 16; mkseq (iota 47 1) 33 16;
           mkseq (iota 48 1) 48 15], iota 12 1).

Definition agree (src dst0 dict : list Z) : bool :=
  match decode_asm_m src dst0 dict, decode_asm src dst0 dict with
  | MOk n d, DOk n' d' => (n =? n') && (if list_eq_dec Z.eq_dec d d' then true else false)
  | MErr, DErr => true
  | _, _ => false
  end.

(* every destination size from 0 to 420 (too small, exact, with slack) and every truncation of
   the block: the monitored decoder agrees with the model and, in particular, never faults *)
Definition sweep (src dict : list Z) : bool :=
  forallb (fun k => agree src (repeat 170 k) dict) (List.seq 0 421) &&
  forallb (fun j => agree (firstn j src) (repeat 170 400) dict) (List.seq 0 (S (length src))).

Eval vm_compute in (decode_asm_m blk1 (repeat 0 400) []).
Eval vm_compute in (sweep blk1 [], sweep blk2 (iota 60 1), sweep blk2 (iota 30 1), sweep blk3 []).

(* ------------------------------------------------------------------ *)
(* the checked primitives, when they succeed, are the unchecked ones    *)
(* ------------------------------------------------------------------ *)

Lemma ld_some n l w : ld n l = Some w -> w = firstn n l.
Proof. unfold ld. destruct (n <=? length l)%nat; congruence. Qed.

Lemma st_some s r r' : st s r = Some r' -> r' = overwrite s r.
Proof. unfold st. destruct (length s <=? length r)%nat; congruence. Qed.

Lemma ld_win_some n rout rest o w : ld_win n rout rest o = Some w -> w = window n rout rest o.
Proof. unfold ld_win. destruct (_ && _); congruence. Qed.

Lemma mv18_some rout rest o r' : mv18 rout rest o = Some r' ->
  r' = overwrite (let P := rrev (firstn (Z.to_nat o) rout) in cyc 18 P P) rest.
Proof. unfold mv18. destruct (_ && _); [apply st_some|discriminate]. Qed.

Lemma ld_ok n l : (n <= length l)%nat -> ld n l = Some (firstn n l).
Proof. intros H. unfold ld. replace (n <=? length l)%nat with true by lia. reflexivity. Qed.

Lemma st_ok s r : (length s <= length r)%nat -> st s r = Some (overwrite s r).
Proof. intros H. unfold st. replace (length s <=? length r)%nat with true by lia. reflexivity. Qed.

Lemma firstn_if {A} (b : bool) (n k : nat) (l : list A) :
  firstn (if b then n else k) l = if b then firstn n l else firstn k l.
Proof. destruct b; reflexivity. Qed.

(* the exact copies read the history and the dictionary only: a successful copy_fast lies inside
   the produced output followed by the dictionary *)
Lemma copy_fast_in_bounds m rdict rout klen dlen o r :
  copy_fast m rdict rout klen dlen o = Some r -> 0 < o <= dlen + klen.
Proof.
  unfold copy_fast. destruct (o <=? 0) eqn:E0; [discriminate|].
  destruct (dlen + klen <? o) eqn:E1; [discriminate|]. lia.
Qed.

(* ------------------------------------------------------------------ *)
(* erasure                                                              *)
(* ------------------------------------------------------------------ *)

Section Erase.
Variable rdict : list Z.
Variables klen dstlen : Z.

Definition injs (o : option (list Z * list Z * list Z * Z)) : mstep :=
  match o with None => SErr | Some (s, rout, rest, di) => SOk s rout rest di end.

Lemma match_am_erase s rout rest di mnib offset :
  match_am rdict klen dstlen s rout rest di mnib offset <> SFault ->
  match_am rdict klen dstlen s rout rest di mnib offset =
    injs (match_a rdict klen dstlen s rout rest di mnib offset).
Proof.
  unfold match_am, match_a.
  destruct (read_len mnib s) as [[ml s']|]; [|reflexivity].
  cbv zeta.
  destruct (dstlen <? di + (ml + lz4block_minMatch)); [reflexivity|].
  assert (Hexact :
    match copy_fast (ml + lz4block_minMatch) rdict rout klen di offset with
    | None => SErr
    | Some rout' =>
      if ml + lz4block_minMatch <=? len rest
      then SOk s' rout' (skipn (Z.to_nat (ml + lz4block_minMatch)) rest) (di + (ml + lz4block_minMatch))
      else SFault
    end <> SFault ->
    match copy_fast (ml + lz4block_minMatch) rdict rout klen di offset with
    | None => SErr
    | Some rout' =>
      if ml + lz4block_minMatch <=? len rest
      then SOk s' rout' (skipn (Z.to_nat (ml + lz4block_minMatch)) rest) (di + (ml + lz4block_minMatch))
      else SFault
    end =
    injs match copy_fast (ml + lz4block_minMatch) rdict rout klen di offset with
         | None => None
         | Some rout' =>
           Some (s', rout', skipn (Z.to_nat (ml + lz4block_minMatch)) rest, di + (ml + lz4block_minMatch))
         end).
  { destruct (copy_fast (ml + lz4block_minMatch) rdict rout klen di offset); [|reflexivity].
    destruct (ml + lz4block_minMatch <=? len rest); [reflexivity|congruence]. }
  destruct ((di <=? offset) || (offset <=? ml + lz4block_minMatch)); [exact Hexact|].
  destruct ((ml + lz4block_minMatch <=? 16) && (16 <=? dstlen - di)); [|exact Hexact].
  clear Hexact.
  destruct (ld_win 16 rout rest offset) as [w|] eqn:E1; [|congruence].
  apply ld_win_some in E1. subst w.
  destruct (st (window 16 rout rest offset) rest) as [rest1|] eqn:E2; [|congruence].
  apply st_some in E2. subst rest1.
  destruct (take_rev (overwrite (window 16 rout rest offset) rest) (ml + lz4block_minMatch) rout)
    as [[rout' rest']|]; reflexivity.
Qed.

Definition EraseAt (f : nat) : Prop := forall s rout rest di,
  dec_am rdict klen dstlen f s rout rest di <> MFault ->
  dec_am rdict klen dstlen f s rout rest di = inj (dec_a rdict klen dstlen f s rout rest di).

Lemma tail_erase f : EraseAt f -> forall s rout rest di mnib offset,
  match match_am rdict klen dstlen s rout rest di mnib offset with
  | SErr => MErr
  | SFault => MFault
  | SOk s4 rout3 rest3 di3 => dec_am rdict klen dstlen f s4 rout3 rest3 di3
  end <> MFault ->
  match match_am rdict klen dstlen s rout rest di mnib offset with
  | SErr => MErr
  | SFault => MFault
  | SOk s4 rout3 rest3 di3 => dec_am rdict klen dstlen f s4 rout3 rest3 di3
  end =
  inj match match_a rdict klen dstlen s rout rest di mnib offset with
      | None => DErr
      | Some (s4, rout3, rest3, di3) => dec_a rdict klen dstlen f s4 rout3 rest3 di3
      end.
Proof.
  intros IH s rout rest di mnib offset.
  pose proof (match_am_erase s rout rest di mnib offset) as HE.
  destruct (match_am rdict klen dstlen s rout rest di mnib offset) as [s4 rout3 rest3 di3| |];
    intros H; [| |congruence]; specialize (HE ltac:(discriminate));
    destruct (match_a rdict klen dstlen s rout rest di mnib offset) as [[[[a b] c] d]|];
    cbn [injs] in HE; try discriminate.
  - inversion HE; subst. apply IH. exact H.
  - reflexivity.
Qed.

Lemma erase_step f : EraseAt f -> EraseAt (S f).
Proof.
  intros IH s rout rest di.
  destruct s as [|tok s1]; [reflexivity|].
  cbn [dec_am dec_a]. cbv zeta.
  destruct (negb (tok / 16 =? 15) && (di + 32 <? dstlen) && longer_than 16 s1).
  - destruct (ld 16 s1) as [w|] eqn:E1; [|congruence].
    apply ld_some in E1. subst w.
    destruct (st (firstn 16 s1) rest) as [rest1|] eqn:E2; [|congruence].
    apply st_some in E2. subst rest1.
    destruct (take_rev (overwrite (firstn 16 s1) rest) (tok / 16) rout) as [[rout2 rest2]|];
      [|reflexivity].
    destruct (skipn (Z.to_nat (tok / 16)) s1) as [|o1 [|o2 s3]]; [congruence|congruence|].
    destruct (o1 + 256 * o2 =? 0); [reflexivity|].
    destruct ((tok mod 16 =? 15) || (o1 + 256 * o2 <? 8) || (di + tok / 16 <? o1 + 256 * o2)).
    + apply tail_erase. exact IH.
    + destruct (mv18 rout2 rest2 (o1 + 256 * o2)) as [rest2'|] eqn:E3; [|congruence].
      apply mv18_some in E3. cbv zeta in E3. subst rest2'.
      destruct (take_rev _ (tok mod 16 + lz4block_minMatch) rout2) as [[rout3 rest3]|];
        [apply IH|reflexivity].
  - destruct (if tok / 16 =? 15 then read_ext s1 15 else Some (tok / 16, s1)) as [[ll s2]|];
      [|reflexivity].
    destruct (dstlen <? di + ll); [reflexivity|].
    destruct (take_rev s2 ll []) as [[x s3]|]; [|reflexivity].
    destruct (ld _ s2) as [w|] eqn:E1; [|congruence].
    apply ld_some in E1. rewrite firstn_if in E1. subst w.
    destruct (st _ rest) as [rest1|] eqn:E2; [|congruence].
    apply st_some in E2. subst rest1.
    destruct (take_rev _ ll rout) as [[rout2 rest2]|]; [|reflexivity].
    destruct s3 as [|o1 [|o2 s4]]; [destruct (tok mod 16 =? 0); reflexivity|reflexivity|].
    destruct (o1 + 256 * o2 =? 0); [reflexivity|].
    apply tail_erase. exact IH.
Qed.

Lemma erase : forall f, EraseAt f.
Proof.
  induction f as [|f IH]; [|apply erase_step; exact IH].
  intros s rout rest di _. reflexivity.
Qed.

End Erase.

Theorem asm_monitor_erase : forall src dst0 dict, decode_asm_m src dst0 dict <> MFault ->
  match decode_asm_m src dst0 dict with
  | MOk n d => decode_asm src dst0 dict = DOk n d
  | MErr => decode_asm src dst0 dict = DErr
  | MFault => False
  end.
Proof.
  intros src dst0 dict H.
  assert (E : decode_asm_m src dst0 dict = inj (decode_asm src dst0 dict)).
  { unfold decode_asm_m, decode_asm in *. destruct src as [|tok s1]; [reflexivity|].
    apply erase. exact H. }
  rewrite E in *. destruct (decode_asm src dst0 dict); cbn [inj] in *; reflexivity.
Qed.

(* ------------------------------------------------------------------ *)
(* no check ever fails                                                  *)
(* ------------------------------------------------------------------ *)

Lemma window16_length rout rest o :
  0 < o -> o <= len rout -> 16 - Z.min o 16 <= len rest -> length (window 16 rout rest o) = 16%nat.
Proof. intros Ho Hl Hr. unfold window. lens. Qed.

Section NoFault.
Variable rdict : list Z.
Variables klen dstlen : Z.
Hypothesis Hklen : klen = len rdict.

Definition NF (f : nat) : Prop := forall s rout rest di, bytes s -> Inv dstlen rout rest di ->
  dec_am rdict klen dstlen f s rout rest di <> MFault.

Lemma match_tail_nf f : NF f -> forall s3 rout2 rest2 di2 mnib offset,
  bytes s3 -> Inv dstlen rout2 rest2 di2 -> 0 <= mnib -> 0 < offset ->
  match match_am rdict klen dstlen s3 rout2 rest2 di2 mnib offset with
  | SErr => MErr
  | SFault => MFault
  | SOk s4 rout3 rest3 di3 => dec_am rdict klen dstlen f s4 rout3 rest3 di3
  end <> MFault.
Proof.
  intros IH s3 rout2 rest2 di2 mnib offset Hb [Hdi Hlen] Hmn Hoff.
  unfold match_am, lz4block_minMatch.
  destruct (read_len mnib s3) as [[ml s4]|] eqn:Erl; [|discriminate].
  destruct (read_len_ok _ _ _ _ Hb Hmn Erl) as [Hml Hb4].
  cbv zeta.
  destruct (dstlen <? di2 + (ml + 4)) eqn:E1; [discriminate|].
  assert (Hexact :
    match
      match copy_fast (ml + 4) rdict rout2 klen di2 offset with
      | None => SErr
      | Some rout' =>
        if ml + 4 <=? len rest2
        then SOk s4 rout' (skipn (Z.to_nat (ml + 4)) rest2) (di2 + (ml + 4)) else SFault
      end
    with
    | SErr => MErr
    | SFault => MFault
    | SOk s5 rout3 rest3 di3 => dec_am rdict klen dstlen f s5 rout3 rest3 di3
    end <> MFault).
  { destruct (copy_fast (ml + 4) rdict rout2 klen di2 offset) as [rout'|] eqn:Ecf; [|discriminate].
    replace (ml + 4 <=? len rest2) with true by lia.
    apply IH; [exact Hb4|]. subst di2.
    pose proof (copy_fast_len rdict rout2 klen (ml + 4) offset rout' Hklen ltac:(lia) Ecf) as Hl'.
    split; [lia|]. rewrite Hl'. lens. }
  destruct ((di2 <=? offset) || (offset <=? ml + 4)) eqn:E2; [exact Hexact|].
  destruct ((ml + 4 <=? 16) && (16 <=? dstlen - di2)) eqn:E3; [|exact Hexact].
  clear Hexact. subst di2.
  (* the interior 16-byte move: load and store in bounds *)
  unfold ld_win.
  replace ((0 <? offset) && (offset <=? len rout2) && (16 - Z.min offset 16 <=? len rest2))
    with true by lia.
  rewrite st_ok by (rewrite window16_length; lens).
  destruct (interior_ok rout2 rest2 (ml + 4) offset) as (rest' & Htr & Hlr); try lia.
  rewrite Htr.
  apply IH; [exact Hb4|]. split; lens.
Qed.

Lemma nf_step f : NF f -> NF (S f).
Proof.
  intros IH s rout rest di Hb [Hdi Hlen].
  pose proof (klen_nonneg rdict klen Hklen) as Hk0.
  destruct s as [|tok s1]; [discriminate|].
  inversion Hb as [|? ? Htok Hb1]. subst x l.
  unfold is_byte in Htok.
  assert (Hlit : 0 <= tok / 16 <= 15) by (Z.div_mod_to_equations; lia).
  assert (Hmn : 0 <= tok mod 16 <= 15) by (Z.div_mod_to_equations; lia).
  cbn [dec_am]. cbv zeta.
  set (lit := tok / 16) in *. set (mnib := tok mod 16) in *.
  clearbody lit mnib.
  destruct (negb (lit =? 15) && (di + 32 <? dstlen) && longer_than 16 s1) eqn:Esc.
  - (* shortcut *)
    rewrite longer_than_spec in Esc.
    assert (Hl15 : lit <> 15) by lia.
    assert (Hroom : di + 32 < dstlen) by lia.
    assert (Hs1 : (16 < length s1)%nat) by lia.
    (* the 16-byte load from the source and the 16-byte store *)
    rewrite ld_ok by lia.
    rewrite st_ok by lens.
    rewrite (take_rev_ok (overwrite (firstn 16 s1) rest) lit rout) by lens.
    rewrite firstn_overwrite_firstn by lens.
    set (rout2 := rev_append (firstn (Z.to_nat lit) s1) rout).
    set (rest2 := skipn (Z.to_nat lit) (overwrite (firstn 16 s1) rest)).
    assert (Hinv2 : Inv dstlen rout2 rest2 (di + lit)) by (subst rout2 rest2; split; lens).
    assert (Hrest2 : 18 < len rest2) by (subst rest2; lens).
    pose proof (bytes_skipn (Z.to_nat lit) s1 Hb1) as Hbs.
    (* the 2-byte load of the offset *)
    destruct (skipn (Z.to_nat lit) s1) as [|o1 [|o2 s3]] eqn:Esk;
      [exfalso; apply (f_equal (@length Z)) in Esk; lens
      |exfalso; apply (f_equal (@length Z)) in Esk; lens|].
    destruct (bytes_cons2 _ _ _ Hbs) as [Hoff0 Hb3].
    set (offset := o1 + 256 * o2) in *. clearbody offset.
    destruct (offset =? 0) eqn:E0; [discriminate|].
    destruct ((mnib =? 15) || (offset <? 8) || (di + lit <? offset)) eqn:Em.
    + apply match_tail_nf; [exact IH|exact Hb3|exact Hinv2|lia|lia].
    + (* the 8+8+2-byte move *)
      destruct Hinv2 as [Hdi2 Hlen2].
      unfold mv18.
      replace ((8 <=? offset) && (offset <=? len rout2) && (18 <=? len rest2)) with true by lia.
      cbv zeta.
      assert (HP : rrev (firstn (Z.to_nat offset) rout2) <> []).
      { intros E. apply (f_equal (@length Z)) in E. lens. }
      rewrite st_ok by (rewrite cyc_length by exact HP; lens).
      unfold lz4block_minMatch.
      destruct (short_match_ok rdict klen rout2 rest2 (mnib + 4) offset)
        as (rout3 & rest3 & Htr & Hcf & Hl3); try lia.
      cbv zeta in Htr. rewrite Htr.
      apply IH; [exact Hb3|].
      pose proof (copy_fast_len rdict rout2 klen (mnib + 4) offset rout3 Hklen ltac:(lia) Hcf).
      split; lia.
  - (* general path *)
    clear Esc.
    change (if lit =? 15 then read_ext s1 15 else Some (lit, s1)) with (read_len lit s1).
    destruct (read_len lit s1) as [[ll s2]|] eqn:Erl; [|discriminate].
    destruct (read_len_ok lit s1 ll s2 Hb1 ltac:(lia) Erl) as [Hll Hb2].
    destruct (dstlen <? di + ll) eqn:Ecap; [discriminate|].
    destruct (Z_lt_le_dec (len s2) ll) as [Hshort|Hfit].
    { rewrite take_rev_short by assumption. discriminate. }
    rewrite (take_rev_ok s2 ll []) by lia.
    set (n := if (ll <=? 48) && (48 <=? dstlen - di) && longer_than 47 s2
              then 48%nat else Z.to_nat ll).
    assert (Hn : (Z.to_nat ll <= n)%nat /\ (n <= length s2)%nat /\ (n <= length rest)%nat).
    { subst n. destruct ((ll <=? 48) && (48 <=? dstlen - di) && longer_than 47 s2) eqn:Ew.
      - rewrite longer_than_spec in Ew. lens.
      - lens. }
    destruct Hn as (Hn1 & Hn2 & Hn3).
    (* the 48-byte (or exact) load from the source and store *)
    rewrite ld_ok by exact Hn2.
    rewrite st_ok by lens.
    rewrite (take_rev_ok (overwrite (firstn n s2) rest) ll rout) by lens.
    set (rout2 := rev_append (firstn (Z.to_nat ll) (overwrite (firstn n s2) rest)) rout).
    set (rest2 := skipn (Z.to_nat ll) (overwrite (firstn n s2) rest)).
    assert (Hinv2 : Inv dstlen rout2 rest2 (di + ll)) by (subst rout2 rest2; split; lens).
    pose proof (bytes_skipn (Z.to_nat ll) s2 Hb2) as Hbs.
    destruct (skipn (Z.to_nat ll) s2) as [|o1 [|o2 s4]] eqn:Esk.
    + destruct (mnib =? 0); discriminate.
    + discriminate.
    + destruct (bytes_cons2 _ _ _ Hbs) as [Hoff0 Hb4].
      set (offset := o1 + 256 * o2) in *. clearbody offset.
      destruct (offset =? 0) eqn:E0; [discriminate|].
      apply match_tail_nf; [exact IH|exact Hb4|exact Hinv2|lia|lia].
Qed.

Lemma nf : forall f, NF f.
Proof.
  induction f as [|f IH]; [|apply nf_step; exact IH].
  intros s rout rest di _ _. discriminate.
Qed.

End NoFault.

Theorem asm_never_faults : forall src dst0 dict, bytes src -> decode_asm_m src dst0 dict <> MFault.
Proof.
  intros src dst0 dict Hb. unfold decode_asm_m.
  destruct src as [|tok s1]; [discriminate|].
  apply nf; [lens|exact Hb|split; lens].
Qed.

Corollary asm_monitored_refines : forall src dst0 dict, bytes src ->
  match decode_asm_m src dst0 dict, spec_decode_x src dict (len dst0) with
  | MOk n dst', Some out => n = len out /\ firstn (length out) dst' = out /\ length dst' = length dst0
  | MErr, None => True
  | _, _ => False
  end.
Proof.
  intros src dst0 dict Hb.
  pose proof (asm_never_faults src dst0 dict Hb) as Hnf.
  pose proof (asm_monitor_erase src dst0 dict Hnf) as He.
  pose proof (asm_refines_spec src dst0 dict Hb) as Hr.
  destruct (decode_asm_m src dst0 dict) as [n d| |]; [| |contradiction];
    rewrite He in Hr; exact Hr.
Qed.

Print Assumptions asm_monitor_erase.
Print Assumptions asm_never_faults.
Print Assumptions asm_monitored_refines.
