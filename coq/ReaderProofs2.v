(* ReaderProofs2.v — further Reader theorems (statements: ReaderSpec2.v, Lifecycle.v):
   round trip (C02), life cycle (C17 reader side), truncation (C06), source faults (C15). *)
From Coq Require Import ZifyBool.
From LZ4V Require Import Base GenBlock GenStream GenLz4 XXH32 XXH32Proofs BlockFormat BlockExec BlockExecProofs
  FrameSpec FrameImpl Writer Reader HeaderProofs FrameTheoremsSpec ReaderProofs Lifecycle ReaderSpec2.
From LZ4V Require BlockFormatProofs BlockTheorems BlockTheoremsSpec WriterProofs FrameEncodeProofs FrameEncodeItems.

Ltac Zify.zify_post_hook ::= Z.div_mod_to_equations.

Local Opaque checksum_zero xsum32 xwrite xxh32_ref spec_decode_x.

(* ====================================================================== *)
(* 1. strict acceptance implies non-strict acceptance (current format)    *)
(* ====================================================================== *)

Lemma parse_desc_strict l r : parse_desc true l = Some r -> parse_desc false l = Some r.
Proof.
  destruct l as [|flg [|bd r0]]; try discriminate. unfold parse_desc. cbn [andb].
  destruct (_ || _); [discriminate|]. trivial.
Qed.

Lemma spec_blocks_strict dom d : forall f l c r,
  spec_blocks f dom true d l c = Some r -> spec_blocks f dom false d l c = Some r.
Proof.
  induction f as [|f IH]; intros l c r H; [discriminate|].
  rewrite FrameEncodeProofs.spec_blocks_S in *. destruct (u32le l) as [[w r0]|]; [|discriminate].
  destruct (w =? 0); [exact H|]. cbv zeta in *.
  destruct (fd_max d <? _); [discriminate|]. cbn [andb] in *.
  destruct (w mod 2147483648 =? 0); [discriminate|].
  destruct (splitn _ r0 []) as [[stored r1]|]; [|discriminate].
  destruct (if 2147483648 <=? w then _ else _) as [dec|]; [|discriminate].
  destruct (if fd_bc d then _ else _) as [r2|]; [|discriminate].
  apply IH. exact H.
Qed.

Lemma frame_spec_fuel_strict dom : forall n l r,
  frame_spec_fuel n dom true l = Some r -> first_magic n l <> Some MAGIC_LEGACY ->
  frame_spec_fuel n dom false l = Some r.
Proof.
  induction n as [|n IH]; intros l r H Hfm; [discriminate|].
  rewrite FrameEncodeProofs.frame_spec_fuel_S in *. cbn [first_magic] in Hfm.
  destruct (u32le l) as [[m r0]|]; [|discriminate].
  destruct ((SKIP_LO <=? m) && (m <=? SKIP_HI)).
  { destruct (u32le r0) as [[k r1]|]; [|discriminate].
    destruct (splitn k r1 []) as [[x r2]|]; [|discriminate]. apply IH; assumption. }
  destruct (m =? MAGIC_LEGACY) eqn:El; [exfalso; apply Hfm; f_equal; lia|].
  destruct (m =? MAGIC); [|discriminate].
  destruct (parse_desc true r0) as [[d r1]|] eqn:Epd; [|discriminate].
  rewrite (parse_desc_strict _ _ Epd).
  destruct (spec_blocks _ dom true d r1 []) as [[content r2]|] eqn:Esb; [|discriminate].
  rewrite (spec_blocks_strict _ _ _ _ _ _ Esb).
  destruct (if fd_cc d then _ else _) as [r3|]; [|discriminate].
  cbn [andb] in *. destruct (match fd_size d with Some _ => _ | None => _ end); [discriminate|exact H].
Qed.

Lemma first_magic_modern tl : first_magic (S (length (le32_bytes MAGIC ++ tl))) (le32_bytes MAGIC ++ tl) = Some MAGIC.
Proof. cbn [first_magic]. rewrite u32le_le32_bytes by (unfold MAGIC; lia). reflexivity. Qed.

Lemma not_legacy_modern tl : not_legacy (le32_bytes MAGIC ++ tl).
Proof. unfold not_legacy. rewrite first_magic_modern. discriminate. Qed.

Lemma frame_spec_strict dom tl r :
  frame_spec dom true (le32_bytes MAGIC ++ tl) = Some r -> frame_spec dom false (le32_bytes MAGIC ++ tl) = Some r.
Proof.
  unfold frame_spec. intros H.
  destruct (frame_spec_fuel _ dom true _) as [[c rest]|] eqn:E; [|discriminate].
  rewrite (frame_spec_fuel_strict dom _ _ _ E); [exact H|]. rewrite first_magic_modern. discriminate.
Qed.

(* ====================================================================== *)
(* 2. what a Writer session emits is a list of bytes                      *)
(* ====================================================================== *)

Lemma bytes_le32 x : bytes (le32_bytes x).
Proof. unfold le32_bytes. repeat constructor; unfold is_byte; lia. Qed.
Lemma bytes_le64 x : bytes (le64_bytes x).
Proof. unfold le64_bytes. apply bytes_app. split; apply bytes_le32. Qed.

Lemma header_bytes_modern o : fo_legacy o = false -> exists tl, header_bytes o = le32_bytes MAGIC ++ tl /\ bytes tl.
Proof.
  intros Hl. unfold header_bytes, magic_of. rewrite Hl. eexists. split; [reflexivity|].
  apply bytes_app. split; [apply bytes_app; split|].
  - repeat constructor; unfold is_byte; lia.
  - destruct (lz4stream_DescriptorFlags_Size _); [apply bytes_le64|constructor].
  - repeat constructor; unfold is_byte; lia.
Qed.

Lemma bytes_block_writes o c : fo_legacy o = false -> bytes c ->
  (fo_level o = lz4block_Fast \/ 0 < fo_level o <= 131072) -> bytes (concat (block_writes o c)).
Proof.
  intros Hl Hb Hlev. rewrite FrameEncodeProofs.block_writes_modern by exact Hl.
  apply bytes_app. split; [apply bytes_le32|]. apply bytes_app. split.
  - unfold FrameEncodeProofs.bw_payload.
    pose proof (FrameEncodeProofs.compress_level_contract (fo_level o) Hlev c (len c) Hb) as Hc.
    destruct (compress_level (fo_level o) c (len c)) as [| | | |b]; try exact Hb.
    destruct Hc as (p & _ & -> & Hwf & _). apply BlockTheorems.encode_bytes. exact Hwf.
  - destruct (lz4stream_DescriptorFlags_BlockChecksum _); [apply bytes_le32|constructor].
Qed.

Lemma bytes_blocks o : fo_legacy o = false -> (fo_level o = lz4block_Fast \/ 0 < fo_level o <= 131072) ->
  forall cs, Forall bytes cs -> bytes (concat (flat_map (block_writes o) cs)).
Proof.
  intros Hl Hlev. induction cs as [|c cs IH]; intros H; [constructor|].
  inversion H as [|? ? Hc Hcs]; subst. cbn [flat_map]. rewrite concat_app. apply bytes_app. split.
  - apply bytes_block_writes; assumption.
  - apply IH. exact Hcs.
Qed.

Lemma frame_of_items_shape os o items : opts_after os = Some o -> modern o ->
  Forall (fun i => match i with IWrite d => bytes d | IFlush => True end) items ->
  exists tl, frame_of_items o items = le32_bytes MAGIC ++ tl /\ bytes tl.
Proof.
  intros Hopt Hmod Hit. unfold modern in Hmod.
  destruct (FrameEncodeProofs.opts_after_inv os o Hopt) as ((Hf & Hres) & Hflag & Hlv & Hval).
  pose proof (FrameEncodeProofs.valid_level_range _ Hlv) as Hlev.
  destruct (header_bytes_modern o Hmod) as (tl & Hh & Hbt).
  unfold frame_of_items. rewrite Hh. rewrite <- app_assoc. eexists. split; [reflexivity|].
  apply bytes_app. split; [exact Hbt|]. apply bytes_app. split.
  - apply bytes_blocks; [exact Hmod|exact Hlev|].
    assert (Hok : FrameEncodeProofs.opts_ok (mkfo (fo_flags o) 0 (fo_level o) (fo_legacy o))).
    { repeat split; cbn [fo_flags fo_level fo_legacy fo_csize]; try assumption; lia. }
    pose proof (FrameEncodeProofs.bsz_of_range _ Hok) as Hbsz.
    assert (Hbz : bsz_of (mkfo (fo_flags o) 0 (fo_level o) (fo_legacy o)) = bsz_of o) by reflexivity.
    rewrite Hbz in Hbsz.
    assert (Hg : Forall (FrameEncodeProofs.good_chunk (bsz_of o)) (blocks_of (bsz_of o) items [])).
    { apply FrameEncodeItems.blocks_of_good; [lia|exact Hit|constructor|rewrite len_nil; lia]. }
    rewrite Forall_forall in *. intros c Hc. apply (Hg c Hc).
  - rewrite FrameEncodeProofs.close_writes_modern by exact Hmod. apply bytes_app. split.
    + repeat constructor; unfold is_byte; lia.
    + unfold FrameEncodeProofs.cc_tail. destruct (lz4stream_DescriptorFlags_ContentChecksum _); [apply bytes_le32|constructor].
Qed.

(* ====================================================================== *)
(* 3. round trip (C02)                                                    *)
(* ====================================================================== *)

Theorem roundtrip : roundtrip_stmt.
Proof.
  intros os o items n Hopt Hmod Hit Hcs Hlen Hn w f.
  pose proof (FrameEncodeItems.sessions_meet_spec os o items Hopt Hmod Hit Hcs Hlen) as Hs.
  pose proof (WriterProofs.writer_session os items o Hopt Hit) as Hw.
  subst f w. destruct (run_writer (new_writer s0) (WApply os :: map item_op items ++ [WClose]) s0) as [w res].
  cbn [fst]. destruct Hs as (_ & Hspec). destruct Hw as (_ & Hsink & _).
  destruct (frame_of_items_shape os o items Hopt Hmod Hit) as (tl & Hshape & Hbt).
  rewrite Hsink in *. rewrite Hshape in *.
  assert (Hb : bytes (le32_bytes MAGIC ++ tl)) by (apply bytes_app; split; [apply bytes_le32|exact Hbt]).
  apply frame_spec_strict in Hspec.
  destruct (reader_complete_fixed _ _ _ Hb (not_legacy_modern tl) Hlen Hspec) as (r' & Hr & Hc & Hst).
  split.
  - exists r'. split; [exact Hr|]. split; [exact Hst|exact Hc].
  - apply (reader_read_eq_writeto _ n _ _ _ _ Hb Hn Hr). discriminate.
Qed.

(* ====================================================================== *)
(* 4. life cycle, reader side (C17)                                       *)
(* ====================================================================== *)

Lemma r_close_facts r r2 e : r_close r = (r2, e) -> r_state r2 = r_state r /\ e <> EEOF.
Proof.
  unfold r_close. destruct (_ || _); [intros H; injection H as <- <-; split; [reflexivity|discriminate]|].
  destruct (read_u32 (r_src r)) as [[c e0] s1].
  destruct e0; intros H; injection H as <- <-; (split; [reflexivity|]); try discriminate.
  destruct (c =? _); discriminate.
Qed.

Lemma writeto_loop_state : forall f r out r' out' e,
  r_writeto_loop f r out = (r', out', e) -> r_state r' = r_state r /\ e <> EEOF.
Proof.
  induction f as [|f IH]; intros r out r' out' e H.
  { cbn [r_writeto_loop] in H. injection H as <- _ <-. split; [reflexivity|discriminate]. }
  rewrite r_writeto_loop_S in H. destruct (r_read_block r) as [[r1 e1] d] eqn:Erb.
  destruct (r_read_block_fields _ _ _ _ Erb) as (Hst & _).
  destruct e1; try (injection H as <- _ <-; split; [exact Hst|discriminate]).
  - apply IH in H. destruct H as [H1 H2]. split; [congruence|exact H2].
  - destruct (r_close r1) as [r2 e2] eqn:Ec. injection H as <- _ <-.
    destruct (r_close_facts _ _ _ Ec) as [H1 H2]. split; [congruence|exact H2].
Qed.

Lemma writeto_clean_closed input r' n out :
  rstep (new_reader (src_of input)) RWriteTo = (r', RRes n ENil out) -> r_state r' = lz4_closedState.
Proof.
  intros H. rewrite rstep_writeto_new in H.
  destruct (parse_headers (S (length input)) (src_of input)) as [[e s1] [[m fl] cs]].
  destruct e; try (injection H as _ _ He _; discriminate He).
  destruct (r_writeto_loop _ _ _) as [[r1' out1] e'] eqn:El. injection H as <- _ -> _.
  apply writeto_loop_state in El. destruct El as [Hst _].
  unfold rst_next. cbn [rset_state r_state]. rewrite Hst. reflexivity.
Qed.

Lemma closed_read r k : r_state r = lz4_closedState ->
  rstep r (RRead k) = (fst (rstep r (RRead k)), RRes 0 EEOF []) /\ r_src (fst (rstep r (RRead k))) = r_src r
  /\ r_state (fst (rstep r (RRead k))) = lz4_closedState.
Proof.
  intros H. unfold rstep. rewrite H.
  change (lz4_closedState =? lz4_readState) with false. change (lz4_closedState =? lz4_closedState) with true.
  cbv iota. cbn [fst]. unfold rst_check. rewrite H. change (lz4_closedState =? lz4_errorState) with false.
  cbv iota. cbn [rset_state r_src r_state]. repeat split; try reflexivity; exact H.
Qed.

Theorem reader_ended : reader_ended_stmt.
Proof.
  intros input r' n out op Hb H. pose proof (writeto_clean_closed _ _ _ _ H) as Hst.
  destruct op; try exact I.
  - apply closed_read. exact Hst.
  - unfold rstep. rewrite Hst. reflexivity.
Qed.

Lemma read_loop_state : forall f r want out r' out' e, r_state r = lz4_readState ->
  r_read_loop f r want out = (r', out', e) ->
  (e = ENil -> r_state r' = lz4_readState) /\ (e = EEOF -> r_state r' = lz4_closedState).
Proof.
  induction f as [|f IH]; intros r want out r' out' e Hst H.
  { cbn [r_read_loop] in H. injection H as _ _ <-. split; intros; discriminate. }
  rewrite r_read_loop_S in H. destruct (want <=? 0).
  { injection H as <- _ <-. split; [intros; exact Hst|intros; discriminate]. }
  destruct (r_data r) as [|z dl].
  - destruct (r_read_block r) as [[r1 e1] d] eqn:Erb.
    destruct (r_read_block_fields _ _ _ _ Erb) as (Hst1 & _). rewrite Hst in Hst1.
    destruct e1; try (injection H as _ _ <-; split; intros; discriminate).
    + destruct (take_upto want d []) as [now later]. apply IH in H; [exact H|exact Hst1].
    + destruct (r_close r1) as [r2 e2] eqn:Ec. destruct (r_close_facts _ _ _ Ec) as [H1 H2].
      rewrite Hst1 in H1. injection H as <- _ <-.
      destruct e2; try (split; intros; discriminate); try (exfalso; apply H2; reflexivity).
      split; [intros; discriminate|]. intros _. unfold rst_next. cbn [rset_state rset_data r_state]. rewrite H1. reflexivity.
  - destruct (take_upto want (z :: dl) []) as [now later]. apply IH in H; [exact H|exact Hst].
Qed.

Lemma rst_check_state r e : r_state r <> lz4_errorState ->
  (e = ENil \/ e = EEOF) -> r_state (rst_check r e) = r_state r.
Proof.
  intros Hs He. unfold rst_check. destruct (r_state r =? lz4_errorState) eqn:E; [lia|].
  destruct He as [-> | ->]; reflexivity.
Qed.

Lemma read_step_state r n r1 m e d : r_state r = lz4_readState -> rstep r (RRead n) = (r1, RRes m e d) ->
  (e = ENil -> r_state r1 = lz4_readState) /\ (e = EEOF -> r_state r1 = lz4_closedState).
Proof.
  intros Hst H. rewrite rstep_read_state3 in H by exact Hst.
  destruct (r_read_loop _ r n []) as [[r1' out] e'] eqn:El. injection H as <- _ <- _.
  destruct (read_loop_state _ _ _ _ _ _ _ Hst El) as [HA HB]. split; intros ->.
  - rewrite rst_check_nil. apply HA. reflexivity.
  - rewrite rst_check_state; [apply HB; reflexivity| |right; reflexivity].
    rewrite (HB eq_refl). discriminate.
Qed.

Definition ended (r : reader) : Prop :=
  r_state r = lz4_closedState \/ (r_state r = lz4_errorState /\ r_serr r = EEOF).

Lemma read_until_ended n : forall fuel r acc r' out, r_state r = lz4_readState ->
  read_until fuel r n acc = (r', out, EEOF) -> ended r'.
Proof.
  induction fuel as [|fuel IH]; intros r acc r' out Hst H; [discriminate|].
  rewrite read_until_S in H. destruct (rstep r (RRead n)) as [r1 res] eqn:Es.
  destruct res as [m e d|e|z|]; try discriminate.
  destruct (read_step_state _ _ _ _ _ _ Hst Es) as [HA HB].
  destruct e; try discriminate.
  - apply (IH _ _ _ _ (HA eq_refl) H).
  - injection H as <- _. left. apply HB. reflexivity.
Qed.

Lemma ended_read r k : ended r ->
  rstep r (RRead k) = (fst (rstep r (RRead k)), RRes 0 EEOF []) /\ r_src (fst (rstep r (RRead k))) = r_src r.
Proof.
  intros [H|[H1 H2]].
  - destruct (closed_read r k H) as (A & B & _). split; assumption.
  - unfold rstep. rewrite H1. change (lz4_errorState =? lz4_readState) with false.
    change (lz4_errorState =? lz4_closedState) with false. change (lz4_errorState =? lz4_errorState) with true.
    cbv iota. cbn [fst]. rewrite H2. split; reflexivity.
Qed.

Theorem reader_ended_read : reader_ended_read_stmt.
Proof.
  intros input n r' fuel out Hb Hn H k. apply ended_read.
  destruct fuel as [|fuel]; [discriminate|].
  rewrite read_until_S in H. rewrite rstep_read_new in H.
  destruct (parse_headers (S (length input)) (src_of input)) as [[e s1] [[m fl] cs]].
  assert (Hcase : e = ENil \/ e = EEOF \/ (e <> ENil /\ e <> EEOF)).
  { destruct e; try (left; reflexivity); try (right; left; reflexivity); right; right; split; discriminate. }
  destruct Hcase as [->|[->|[Hn1 Hn2]]].
  - destruct (r_read_loop _ _ n []) as [[r1' out1] e'] eqn:El.
    assert (Hst0 : r_state (reader_after_init s1 m fl cs) = lz4_readState) by reflexivity.
    destruct (read_loop_state _ _ _ _ _ _ _ Hst0 El) as [HA HB].
    destruct e'; try discriminate.
    + rewrite rst_check_nil in H. apply (read_until_ended n _ _ _ _ _ (HA eq_refl) H).
    + injection H as <- _. left. rewrite rst_check_state; [apply HB; reflexivity| |right; reflexivity].
      rewrite (HB eq_refl). discriminate.
  - injection H as <- _. right. split; reflexivity.
  - exfalso. destruct e; try (apply Hn1; reflexivity); try (apply Hn2; reflexivity); discriminate.
Qed.

(* ---- Reset ---- *)
(* equal up to the stale fields flags and cum, in a state where they are not read *)
Definition rsim (a b : reader) : Prop :=
  r_state a = r_state b /\ r_serr a = r_serr b /\ r_num a = r_num b /\ r_src a = r_src b /\
  r_magic a = r_magic b /\ r_csize a = r_csize b /\ r_content a = r_content b /\ r_data a = r_data b /\
  r_dict a = r_dict b /\ ((r_state a = lz4_newState /\ r_magic a = 0) \/ r_state a = lz4_errorState).

Lemma step_sim a b op : a = b \/ rsim a b ->
  snd (rstep a op) = snd (rstep b op) /\ (fst (rstep a op) = fst (rstep b op) \/ rsim (fst (rstep a op)) (fst (rstep b op))).
Proof.
  intros [->|H]; [split; [reflexivity|left; reflexivity]|].
  destruct a as [st se nu src mg fa cs ct da di ca]. destruct b as [st' se' nu' src' mg' fb cs' ct' da' di' cb].
  unfold rsim in H. cbn [r_state r_serr r_num r_src r_magic r_csize r_content r_data r_dict] in H.
  destruct H as (<- & <- & <- & <- & <- & <- & <- & <- & <- & Hst).
  destruct Hst as [[-> ->]| ->].
  - (* new *)
    destruct op as [conc other|n| | |data].
    + unfold rstep. cbn [r_state]. change (lz4_newState =? lz4_newState) with true. cbv iota.
      destruct other.
      * split; [reflexivity|right]. unfold rst_check. cbn [r_state]. change (lz4_newState =? lz4_errorState) with false.
        cbv iota. unfold rsim. cbn. repeat split; try reflexivity. right; reflexivity.
      * destruct conc; (split; [reflexivity|right]); unfold rsim; cbn; repeat split; try reflexivity; left; split; reflexivity.
    + unfold rstep, r_init. cbn [r_state r_magic r_src r_flags r_csize r_num r_serr r_content r_data r_dict r_cum].
      change (lz4_newState =? lz4_readState) with false.
      change (lz4_newState =? lz4_closedState) with false. change (lz4_newState =? lz4_errorState) with false.
      change (lz4_newState =? lz4_newState) with true. change (0 <? 0) with false. cbv beta iota.
      destruct (parse_headers _ src) as [[e s1] [[m fl] cs']].
      destruct e; try (split; [reflexivity|left; reflexivity]);
        (split; [reflexivity|right]; unfold rst_next, rsim; cbn; repeat split; try reflexivity; right; reflexivity).
    + unfold rstep, r_init. cbn [r_state r_magic r_src r_flags r_csize r_num r_serr r_content r_data r_dict r_cum].
      change (lz4_newState =? lz4_closedState) with false. change (lz4_newState =? lz4_errorState) with false.
      change (lz4_newState =? lz4_newState) with true. change (0 <? 0) with false. cbv beta iota.
      destruct (parse_headers _ src) as [[e s1] [[m fl] cs']].
      destruct e; try (split; [reflexivity|left; reflexivity]);
        (split; [reflexivity|right]; unfold rst_next, rsim; cbn; repeat split; try reflexivity; right; reflexivity).
    + unfold rstep. cbn [r_state fst snd]. change (lz4_newState =? lz4_readState) with false.
      change (lz4_newState =? lz4_closedState) with false. cbn [orb andb].
      split; [reflexivity|right]. unfold rsim; cbn; repeat split; try reflexivity; left; split; reflexivity.
    + split; [reflexivity|right]. unfold rstep, rsim; cbn; repeat split; try reflexivity; left; split; reflexivity.
  - (* error *)
    destruct op as [conc other|n| | |data]; unfold rstep; cbn [r_state fst snd r_serr];
      change (lz4_errorState =? lz4_newState) with false; change (lz4_errorState =? lz4_readState) with false;
      change (lz4_errorState =? lz4_closedState) with false; change (lz4_errorState =? lz4_errorState) with true;
      cbv iota; cbn [orb andb fst snd]; (split; [reflexivity|right]); unfold rsim; cbn; repeat split; try reflexivity;
      try (right; reflexivity); left; split; reflexivity.
Qed.

Lemma run_sim : forall ops a b, a = b \/ rsim a b -> snd (run_reader a ops) = snd (run_reader b ops).
Proof.
  induction ops as [|op ops IH]; intros a b H; [reflexivity|].
  cbn [run_reader]. destruct (step_sim a b op H) as [H1 H2].
  destruct (rstep a op) as [a1 ra]. destruct (rstep b op) as [b1 rb]. cbn [fst snd] in *.
  specialize (IH a1 b1 H2).
  destruct (run_reader a1 ops) as [a2 rsa]. destruct (run_reader b1 ops) as [b2 rsb]. cbn [snd] in *.
  congruence.
Qed.

Theorem reader_reset : reader_reset_stmt.
Proof.
  intros input ops data ops' Hb r fresh. apply run_sim. right.
  subst fresh r. unfold rstep, rsim. cbn. repeat split; try reflexivity. left; split; reflexivity.
Qed.

(* ====================================================================== *)
(* 5. two runs of the Reader over related sources                         *)
(* ====================================================================== *)
(* [R] relates the sources of the two runs; [B] is the class of errors at which the first run may
   break off (its source being shorter, or failing).  Until then both runs do the same. *)

Lemma rstep_writeto_new_gen s : rstep (new_reader s) RWriteTo =
  let '(e, s1, (m, fl, cs)) := parse_headers (S (length (s_rem s))) s in
  match e with
  | ENil =>
    let '(r1', out, e') := r_writeto_loop (S (length (s_rem s))) (reader_after_init s1 m fl cs) [] in
    (rst_next r1' e', RRes (len out) e' out)
  | _ => (rst_next (mkr lz4_newState ENil 1 s1 m (if m =? lz4stream_frameMagic then fl else 0) cs [] [] [] 0) e,
          RRes 0 e [])
  end.
Proof.
  unfold rstep, new_reader, r_init. cbn [r_state r_magic r_src r_flags r_csize r_num r_serr r_content r_data r_dict r_cum].
  change (lz4_newState =? lz4_closedState) with false. change (lz4_newState =? lz4_errorState) with false.
  change (lz4_newState =? lz4_newState) with true. change (0 <? 0) with false. cbv beta iota.
  destruct (parse_headers (S (length (s_rem s))) s) as [[e s1] [[m fl] cs]].
  destruct e; reflexivity.
Qed.

Lemma is_prefix_refl (a : list Z) : is_prefix a a.
Proof. exists []. symmetry. apply app_nil_r. Qed.
Lemma is_prefix_trans (a b c : list Z) : is_prefix a b -> is_prefix b c -> is_prefix a c.
Proof. intros (x & ->) (y & ->). exists (x ++ y). rewrite app_assoc. reflexivity. Qed.
Lemma is_prefix_app (a b : list Z) : is_prefix a (a ++ b).
Proof. exists b. reflexivity. Qed.

Lemma writeto_loop_prefix : forall f r out r' out' e, r_writeto_loop f r out = (r', out', e) -> is_prefix out out'.
Proof.
  induction f as [|f IH]; intros r out r' out' e H.
  { cbn [r_writeto_loop] in H. injection H as _ <- _. apply is_prefix_refl. }
  rewrite r_writeto_loop_S in H. destruct (r_read_block r) as [[r1 e1] d].
  destruct e1; try (injection H as _ <- _; apply is_prefix_refl).
  - apply IH in H. eapply is_prefix_trans; [apply is_prefix_app|exact H].
  - destruct (r_close r1) as [r2 e2]. injection H as _ <- _. apply is_prefix_refl.
Qed.

Lemma skip_legacy_err f s x e : e <> ENil -> skip_legacy_magic f s x e = (x, e, s).
Proof. intros H. destruct f; [reflexivity|]. cbn [skip_legacy_magic]. destruct e; try reflexivity. contradiction. Qed.

Local Transparent r_accept.
Lemma r_accept_rset r s0 sx s d : r_accept (rset_src r s0) s d = rset_src (r_accept r sx d) s.
Proof. reflexivity. Qed.
Local Opaque r_accept.

Lemma read_desc_magic s m e s3 m' fl cs : read_desc s m = (e, s3, (m', fl, cs)) -> m' = m.
Proof.
  unfold read_desc. destruct (read_full s 3) as [[b3 e3] s2].
  destruct e3; try (intros H; injection H as _ _ <- _ _; reflexivity).
  destruct (lz4stream_DescriptorFlags_Size _).
  - destruct (read_full s2 8) as [[b8 e8] s3'].
    destruct e8; try (intros H; injection H as _ _ <- _ _; reflexivity).
    cbv zeta. destruct (_ =? _); [destruct (lz4block_BlockSizeIndex_IsValid _)|]; intros H; injection H as _ _ <- _ _; reflexivity.
  - cbv zeta. destruct (_ =? _); [destruct (lz4block_BlockSizeIndex_IsValid _)|]; intros H; injection H as _ _ <- _ _; reflexivity.
Qed.

Section Sim.
Variable R : source -> source -> Prop.
Variable B : ecls -> Prop.
Variable L : Prop.   (* legacy frames allowed: then both sources have the same length *)
Hypothesis H_rf : forall s s' n g e s1 g' e' s1', R s s' ->
  read_full s n = (g, e, s1) -> read_full s' n = (g', e', s1') -> B e \/ (g = g' /\ e = e' /\ R s1 s1').
Hypothesis H_un : forall e, B e -> B (unexpected e).
Hypothesis H_nil : ~ B ENil.
Hypothesis H_skip : forall s s' skip got rest got' rest', R s s' ->
  take_upto skip (s_rem s) [] = (got, rest) -> take_upto skip (s_rem s') [] = (got', rest') ->
  (len got <> skip /\ B EUEOF) \/
  (len got = len got' /\ R (mksrc rest (s_calls s + 1) (s_fail s) (s_consumed s + len got))
                           (mksrc rest' (s_calls s' + 1) (s_fail s') (s_consumed s' + len got'))).
Hypothesis H_len : L -> forall s s', R s s' -> length (s_rem s) = length (s_rem s').
Hypothesis H_eofL : L -> ~ B EEOF.

Definition Rr (r r' : reader) : Prop := r' = rset_src r (r_src r') /\ R (r_src r) (r_src r').

Lemma B_not_nil e : B e -> e <> ENil.
Proof. intros H ->. exact (H_nil H). Qed.

Lemma sim_u32 s s' x e s1 x' e' s1' : R s s' ->
  read_u32 s = (x, e, s1) -> read_u32 s' = (x', e', s1') -> B e \/ (x = x' /\ e = e' /\ R s1 s1').
Proof.
  intros HR H H'. unfold read_u32 in *.
  destruct (read_full s 4) as [[b e0] s0] eqn:E. destruct (read_full s' 4) as [[b' e0'] s0'] eqn:E'.
  injection H as <- <- <-. injection H' as <- <- <-.
  destruct (H_rf _ _ _ _ _ _ _ _ _ HR E E') as [HB|(-> & -> & HR1)]; [left; exact HB|right].
  repeat split; assumption.
Qed.

Lemma sim_skip_legacy : forall f s s' x e x1 e1 s1 x1' e1' s1', R s s' ->
  skip_legacy_magic f s x e = (x1, e1, s1) -> skip_legacy_magic f s' x e = (x1', e1', s1') ->
  B e1 \/ (x1 = x1' /\ e1 = e1' /\ R s1 s1').
Proof.
  induction f as [|f IH]; intros s s' x e x1 e1 s1 x1' e1' s1' HR H H'; cbn [skip_legacy_magic] in *.
  { injection H as <- <- <-. injection H' as <- <- <-. right. repeat split; assumption. }
  destruct e; try (injection H as <- <- <-; injection H' as <- <- <-; right; repeat split; assumption).
  destruct (x =? lz4stream_frameMagicLegacy).
  2:{ injection H as <- <- <-; injection H' as <- <- <-; right; repeat split; assumption. }
  destruct (read_u32 s) as [[x2 e2] s2] eqn:E. destruct (read_u32 s') as [[x2' e2'] s2'] eqn:E'.
  destruct (sim_u32 _ _ _ _ _ _ _ _ HR E E') as [HB|(-> & -> & HR2)].
  - rewrite skip_legacy_err in H by (apply B_not_nil; exact HB). injection H as <- <- <-. left. exact HB.
  - exact (IH _ _ _ _ _ _ _ _ _ _ HR2 H H').
Qed.

Lemma sim_read_block r s' r1 e d r1' e' d' : R (r_src r) s' -> (is_legacy r = false \/ L) ->
  r_read_block r = (r1, e, d) -> r_read_block (rset_src r s') = (r1', e', d') ->
  (B e /\ d = [] /\ (is_legacy r = false -> e <> EEOF)) \/ (e = e' /\ d = d' /\ Rr r1 r1').
Proof.
  intros HR HL H H'. rewrite r_read_block_eq in H, H'. cbv zeta in H, H'.
  change (is_legacy (rset_src r s')) with (is_legacy r) in H'.
  change (r_src (rset_src r s')) with s' in H'.
  change (r_cum (rset_src r s')) with (r_cum r) in H'.
  change (r_bsz (rset_src r s')) with (r_bsz r) in H'.
  change (r_flags (rset_src r s')) with (r_flags r) in H'.
  change (r_dict (rset_src r s')) with (r_dict r) in H'.
  destruct (read_u32 (r_src r)) as [[x0 e0] s0] eqn:E0. destruct (read_u32 s') as [[x0' e0'] s0'] eqn:E0'.
  assert (Hbrk : forall e1 (s1 : source), B e1 -> B (if is_legacy r then e1 else unexpected e1)).
  { intros e1 _ HB. destruct (is_legacy r); [exact HB|apply H_un; exact HB]. }
  (* first word (and repeated legacy magics) *)
  assert (Hfirst : forall x e1 s1 x' e1' s1',
            (if is_legacy r then skip_legacy_magic (S (length (s_rem (r_src r)))) s0 x0 e0 else (x0, e0, s0)) = (x, e1, s1) ->
            (if is_legacy r then skip_legacy_magic (S (length (s_rem s'))) s0' x0' e0' else (x0', e0', s0')) = (x', e1', s1') ->
            B e1 \/ (x = x' /\ e1 = e1' /\ R s1 s1')).
  { intros x e1 s1 x' e1' s1' Hs Hs'.
    destruct (sim_u32 _ _ _ _ _ _ _ _ HR E0 E0') as [HB|(-> & -> & HR0)].
    - left. destruct (is_legacy r).
      + rewrite skip_legacy_err in Hs by (apply B_not_nil; exact HB). injection Hs as _ <- _. exact HB.
      + injection Hs as _ <- _. exact HB.
    - destruct (is_legacy r) eqn:El.
      + destruct HL as [HL|HL]; [discriminate|]. rewrite <- (H_len HL _ _ HR) in Hs'.
        exact (sim_skip_legacy _ _ _ _ _ _ _ _ _ _ _ HR0 Hs Hs').
      + injection Hs as <- <- <-. injection Hs' as <- <- <-. right. repeat split; assumption. }
  destruct (if is_legacy r then skip_legacy_magic _ s0 x0 e0 else _) as [[x e1] s1].
  destruct (if is_legacy r then skip_legacy_magic _ s0' x0' e0' else _) as [[x' e1'] s1'].
  destruct (Hfirst _ _ _ _ _ _ eq_refl eq_refl) as [HB|(<- & <- & HR1)]; clear Hfirst.
  { pose proof (B_not_nil _ HB) as Hne. pose proof (Hbrk _ s1 HB) as HB'.
    destruct e1; try contradiction; injection H as _ <- <-; left; (split; [exact HB'|split; [reflexivity|]]);
      intros ->; discriminate. }
  destruct e1; try (injection H as <- <- <-; injection H' as <- <- <-; right; split; [reflexivity|split; [reflexivity|split; [reflexivity|exact HR1]]]).
  destruct (if is_legacy r then x =? r_cum r else x =? 0).
  { injection H as <- <- <-; injection H' as <- <- <-. right. split; [reflexivity|split; [reflexivity|split; [reflexivity|exact HR1]]]. }
  destruct (r_bsz r <? _).
  { injection H as <- <- <-; injection H' as <- <- <-. right. split; [reflexivity|split; [reflexivity|split; [reflexivity|exact HR1]]]. }
  destruct (read_full s1 _) as [[stored e2] s2] eqn:E2. destruct (read_full s1' _) as [[stored' e2'] s2'] eqn:E2'.
  destruct (H_rf _ _ _ _ _ _ _ _ _ HR1 E2 E2') as [HB|(<- & <- & HR2)].
  { pose proof (B_not_nil _ HB) as Hne. pose proof (H_un _ HB) as HB'.
    destruct e2; try contradiction; injection H as _ <- <-; left; (split; [exact HB'|split; [reflexivity|]]);
      intros _; discriminate. }
  destruct e2; try (injection H as <- <- <-; injection H' as <- <- <-; right; split; [reflexivity|split; [reflexivity|split; [reflexivity|exact HR2]]]).
  assert (Hck : forall c e3 s3 c' e3' s3',
            (if lz4stream_DescriptorFlags_BlockChecksum (r_flags r) then read_u32 s2 else (0, ENil, s2)) = (c, e3, s3) ->
            (if lz4stream_DescriptorFlags_BlockChecksum (r_flags r) then read_u32 s2' else (0, ENil, s2')) = (c', e3', s3') ->
            B e3 \/ (c = c' /\ e3 = e3' /\ R s3 s3')).
  { intros c e3 s3 c' e3' s3' Hc Hc'. destruct (lz4stream_DescriptorFlags_BlockChecksum (r_flags r)).
    - exact (sim_u32 _ _ _ _ _ _ _ _ HR2 Hc Hc').
    - injection Hc as <- <- <-. injection Hc' as <- <- <-. right. repeat split; try reflexivity. exact HR2. }
  destruct (if lz4stream_DescriptorFlags_BlockChecksum (r_flags r) then read_u32 s2 else _) as [[c e3] s3].
  destruct (if lz4stream_DescriptorFlags_BlockChecksum (r_flags r) then read_u32 s2' else _) as [[c' e3'] s3'].
  destruct (Hck _ _ _ _ _ _ eq_refl eq_refl) as [HB|(<- & <- & HR3)]; clear Hck.
  { pose proof (B_not_nil _ HB) as Hne. pose proof (H_un _ HB) as HB'.
    destruct e3; try contradiction; injection H as _ <- <-; left; (split; [exact HB'|split; [reflexivity|]]);
      intros _; discriminate. }
  destruct e3; try (injection H as <- <- <-; injection H' as <- <- <-; right; split; [reflexivity|split; [reflexivity|split; [reflexivity|exact HR3]]]).
  destruct (if lz4stream_DataBlockSize_Uncompressed x then _ else _) as [dd|].
  2:{ injection H as <- <- <-; injection H' as <- <- <-. right. split; [reflexivity|split; [reflexivity|split; [reflexivity|exact HR3]]]. }
  destruct (_ && _).
  { injection H as <- <- <-; injection H' as <- <- <-. right. split; [reflexivity|split; [reflexivity|split; [reflexivity|exact HR3]]]. }
  injection H as <- <- <-; injection H' as <- <- <-. right. split; [reflexivity|split; [reflexivity|]].
  split; [rewrite (r_accept_rset r s' s3 s3' dd); reflexivity|]. rewrite (r_accept_rset r s' s3 s3' dd), r_accept_src. exact HR3.
Qed.

Lemma sim_close r s' r2 e r2' e' : R (r_src r) s' ->
  r_close r = (r2, e) -> r_close (rset_src r s') = (r2', e') -> B e \/ (e = e' /\ Rr r2 r2').
Proof.
  intros HR H H'. unfold r_close in *.
  change (is_legacy (rset_src r s')) with (is_legacy r) in H'.
  change (r_flags (rset_src r s')) with (r_flags r) in H'.
  change (r_content (rset_src r s')) with (r_content r) in H'.
  change (r_src (rset_src r s')) with s' in H'.
  destruct (_ || _).
  { injection H as <- <-. injection H' as <- <-. right. split; [reflexivity|]. split; [reflexivity|exact HR]. }
  destruct (read_u32 (r_src r)) as [[c e0] s1] eqn:E. destruct (read_u32 s') as [[c' e0'] s1'] eqn:E'.
  destruct (sim_u32 _ _ _ _ _ _ _ _ HR E E') as [HB|(<- & <- & HR1)].
  { pose proof (B_not_nil _ HB) as Hne. pose proof (H_un _ HB) as HB'.
    destruct e0; try contradiction; injection H as _ <-; left; exact HB'. }
  destruct e0; injection H as <- <-; injection H' as <- <-; right; (split; [reflexivity|split; [reflexivity|exact HR1]]).
Qed.

Lemma Rr_inv r r' : Rr r r' -> exists s', r' = rset_src r s' /\ R (r_src r) s'.
Proof. intros [H1 H2]. exists (r_src r'). split; assumption. Qed.

Lemma sim_loop : forall f f' r s' out rW outW e rW' outW' e', R (r_src r) s' -> (is_legacy r = false \/ L) ->
  r_writeto_loop f r out = (rW, outW, e) -> r_writeto_loop f' (rset_src r s') out = (rW', outW', e') ->
  (f = f' \/ (e <> EOther /\ e' <> EOther)) ->
  (B e /\ is_prefix outW outW') \/ (e = e' /\ outW = outW' /\ Rr rW rW').
Proof.
  induction f as [|f IH]; intros f' r s' out rW outW e rW' outW' e' HR HL H H' Hf.
  { cbn [r_writeto_loop] in H. injection H as <- <- <-.
    destruct Hf as [<-|[Hx _]]; [|exfalso; apply Hx; reflexivity].
    cbn [r_writeto_loop] in H'. injection H' as <- <- <-. right. repeat split; try reflexivity. exact HR. }
  destruct f' as [|f'].
  { cbn [r_writeto_loop] in H'. injection H' as <- <- <-.
    destruct Hf as [Hx|[_ Hx]]; [discriminate|exfalso; apply Hx; reflexivity]. }
  assert (Hf' : f = f' \/ (e <> EOther /\ e' <> EOther)) by (destruct Hf as [Hx|Hx]; [left; congruence|right; exact Hx]).
  pose proof (writeto_loop_prefix _ _ _ _ _ _ H') as Hpre'.
  rewrite r_writeto_loop_S in H, H'.
  destruct (r_read_block r) as [[r1 e1] d] eqn:Erb. destruct (r_read_block (rset_src r s')) as [[r1' e1'] d'] eqn:Erb'.
  destruct (r_read_block_fields _ _ _ _ Erb) as (_ & _ & _ & Hmag & _).
  destruct (sim_read_block _ _ _ _ _ _ _ _ HR HL Erb Erb') as [(HB & -> & Hneof)|(<- & <- & HRr)].
  - pose proof (B_not_nil _ HB) as Hne.
    assert (Hneof' : e1 <> EEOF).
    { intros ->. destruct (is_legacy r) eqn:El; [|apply Hneof; reflexivity].
      destruct HL as [HL|HL]; [discriminate|]. exact (H_eofL HL HB). }
    assert (HW : (rW, outW, e) = (r1, out, e1)).
    { destruct e1; try contradiction; symmetry; exact H. }
    injection HW as _ -> ->. left. split; [exact HB|exact Hpre'].
  - destruct (Rr_inv _ _ HRr) as (s1' & -> & HR1).
    assert (HL1 : is_legacy r1 = false \/ L).
    { destruct HL as [HL|HL]; [left|right; exact HL]. unfold is_legacy in *. rewrite Hmag. exact HL. }
    destruct e1; try (injection H as <- <- <-; injection H' as <- <- <-; right; split; [reflexivity|split; [reflexivity|exact HRr]]).
    + exact (IH _ _ _ _ _ _ _ _ _ _ HR1 HL1 H H' Hf').
    + destruct (r_close r1) as [r2 e2] eqn:Ec. destruct (r_close (rset_src r1 s1')) as [r2' e2'] eqn:Ec'.
      injection H as <- <- <-. injection H' as <- <- <-.
      destruct (sim_close _ _ _ _ _ _ HR1 Ec Ec') as [HB|(<- & HR2)].
      * left. split; [exact HB|apply is_prefix_refl].
      * right. split; [reflexivity|split; [reflexivity|exact HR2]].
Qed.

Lemma sim_desc s s' m e s3 x e' s3' x' : R s s' ->
  read_desc s m = (e, s3, x) -> read_desc s' m = (e', s3', x') -> B e \/ (e = e' /\ x = x' /\ R s3 s3').
Proof.
  intros HR H H'. unfold read_desc in *.
  destruct (read_full s 3) as [[b3 e3] s2] eqn:E3. destruct (read_full s' 3) as [[b3' e3'] s2'] eqn:E3'.
  destruct (H_rf _ _ _ _ _ _ _ _ _ HR E3 E3') as [HB|(<- & <- & HR2)].
  { pose proof (B_not_nil _ HB) as Hne. pose proof (H_un _ HB) as HB'.
    destruct e3; try contradiction; injection H as <- _ _; left; exact HB'. }
  destruct e3; try (injection H as <- <- <-; injection H' as <- <- <-; right; repeat split; try reflexivity; exact HR2).
  destruct (lz4stream_DescriptorFlags_Size _).
  - destruct (read_full s2 8) as [[b8 e8] s4] eqn:E8. destruct (read_full s2' 8) as [[b8' e8'] s4'] eqn:E8'.
    destruct (H_rf _ _ _ _ _ _ _ _ _ HR2 E8 E8') as [HB|(<- & <- & HR4)].
    { pose proof (B_not_nil _ HB) as Hne. pose proof (H_un _ HB) as HB'.
      destruct e8; try contradiction; injection H as <- _ _; left; exact HB'. }
    destruct e8; try (injection H as <- <- <-; injection H' as <- <- <-; right; repeat split; try reflexivity; exact HR4).
    cbv zeta in *. destruct (_ =? _); [destruct (lz4block_BlockSizeIndex_IsValid _)|];
      injection H as <- <- <-; injection H' as <- <- <-; right; repeat split; try reflexivity; exact HR4.
  - cbv zeta in *. destruct (_ =? _); [destruct (lz4block_BlockSizeIndex_IsValid _)|];
      injection H as <- <- <-; injection H' as <- <- <-; right; repeat split; try reflexivity; exact HR2.
Qed.

Lemma sim_hdr : forall n n' s s' e s1 x e' s1' x', R s s' ->
  parse_headers n s = (e, s1, x) -> parse_headers n' s' = (e', s1', x') ->
  (n = n' \/ (e <> EOther /\ e' <> EOther)) ->
  B e \/ (e = e' /\ x = x' /\ R s1 s1').
Proof.
  induction n as [|n IH]; intros n' s s' e s1 x e' s1' x' HR H H' Hf.
  { cbn [parse_headers] in H. injection H as <- <- <-.
    destruct Hf as [<-|[Hx _]]; [|exfalso; apply Hx; reflexivity].
    cbn [parse_headers] in H'. injection H' as <- <- <-. right. repeat split; try reflexivity. exact HR. }
  destruct n' as [|n'].
  { cbn [parse_headers] in H'. injection H' as <- <- <-.
    destruct Hf as [Hx|[_ Hx]]; [discriminate|exfalso; apply Hx; reflexivity]. }
  assert (Hf' : n = n' \/ (e <> EOther /\ e' <> EOther)) by (destruct Hf as [Hx|Hx]; [left; congruence|right; exact Hx]).
  rewrite parse_headers_S' in H, H'.
  destruct (read_u32 s) as [[m e0] s0] eqn:E0. destruct (read_u32 s') as [[m' e0'] s0'] eqn:E0'.
  destruct (sim_u32 _ _ _ _ _ _ _ _ HR E0 E0') as [HB|(<- & <- & HR0)].
  { pose proof (B_not_nil _ HB) as Hne.
    destruct e0; try contradiction; injection H as <- _ _; left; exact HB. }
  destruct e0; try (injection H as <- <- <-; injection H' as <- <- <-; right; repeat split; try reflexivity; exact HR0).
  destruct (_ || _).
  { destruct (m =? lz4stream_frameMagicLegacy).
    - injection H as <- <- <-; injection H' as <- <- <-; right; repeat split; try reflexivity; exact HR0.
    - exact (sim_desc _ _ _ _ _ _ _ _ _ HR0 H H'). }
  destruct (_ =? _).
  2:{ injection H as <- <- <-; injection H' as <- <- <-; right; repeat split; try reflexivity; exact HR0. }
  destruct (read_u32 s0) as [[skip e2] s2] eqn:E2. destruct (read_u32 s0') as [[skip' e2'] s2'] eqn:E2'.
  destruct (sim_u32 _ _ _ _ _ _ _ _ HR0 E2 E2') as [HB|(<- & <- & HR2)].
  { pose proof (B_not_nil _ HB) as Hne. pose proof (H_un _ HB) as HB'.
    destruct e2; try contradiction; injection H as <- _ _; left; exact HB'. }
  destruct e2; try (injection H as <- <- <-; injection H' as <- <- <-; right; repeat split; try reflexivity; exact HR2).
  destruct (take_upto skip (s_rem s2) []) as [got rest] eqn:Et. destruct (take_upto skip (s_rem s2') []) as [got' rest'] eqn:Et'.
  destruct (H_skip _ _ _ _ _ _ _ HR2 Et Et') as [[Hlen HB]|[Hlen HR3]].
  - destruct (len got =? skip) eqn:Eg; [lia|]. injection H as <- _ _. left. exact HB.
  - rewrite <- Hlen in H', HR3. cbv zeta in H, H'. destruct (len got =? skip).
    + exact (IH _ _ _ _ _ _ _ _ _ HR3 H H' Hf').
    + injection H as <- <- <-; injection H' as <- <- <-; right; repeat split; try reflexivity; exact HR3.
Qed.

Lemma sim_writeto s s' r n e out r' n' e' out' : R s s' ->
  (L \/ forall e1 s1 m fl cs, parse_headers (S (length (s_rem s'))) s' = (e1, s1, (m, fl, cs)) -> m <> lz4stream_frameMagicLegacy) ->
  (length (s_rem s) = length (s_rem s') \/ (e <> EOther /\ e' <> EOther)) ->
  rstep (new_reader s) RWriteTo = (r, RRes n e out) -> rstep (new_reader s') RWriteTo = (r', RRes n' e' out') ->
  (B e /\ is_prefix out out') \/ (e = e' /\ out = out' /\ R (r_src r) (r_src r')).
Proof.
  intros HR HLm Hf H H'. rewrite rstep_writeto_new_gen in H, H'.
  destruct (parse_headers _ s) as [[eh s1] [[m fl] cs]] eqn:Eh.
  destruct (parse_headers _ s') as [[eh' s1'] [[m' fl'] cs']] eqn:Eh'.
  assert (HLm' : L \/ m' <> lz4stream_frameMagicLegacy).
  { destruct HLm as [HL|Hm]; [left; exact HL|right; exact (Hm _ _ _ _ _ eq_refl)]. }
  assert (Hfh : S (length (s_rem s)) = S (length (s_rem s')) \/ (eh <> EOther /\ eh' <> EOther)).
  { destruct Hf as [Hx|[Hx Hx']]; [left; congruence|right]. split.
    - destruct eh; try discriminate. injection H as _ _ <- _. exact Hx.
    - destruct eh'; try discriminate. injection H' as _ _ <- _. exact Hx'. }
  destruct (sim_hdr _ _ _ _ _ _ _ _ _ _ HR Eh Eh' Hfh) as [HB|(<- & Hx & HR1)].
  { pose proof (B_not_nil _ HB) as Hne.
    destruct eh; try contradiction; injection H as _ _ <- <-; left; (split; [exact HB|exists out'; reflexivity]). }
  injection Hx as <- <- <-.
  destruct eh; try (injection H as <- _ <- <-; injection H' as <- _ <- <-; right; repeat split; try reflexivity; exact HR1).
  destruct (r_writeto_loop _ (reader_after_init s1 m fl cs) []) as [[rW outW] eW] eqn:El.
  destruct (r_writeto_loop _ (reader_after_init s1' m fl cs) []) as [[rW' outW'] eW'] eqn:El'.
  injection H as <- _ <- <-. injection H' as <- _ <- <-.
  assert (HLl : is_legacy (reader_after_init s1 m fl cs) = false \/ L).
  { destruct HLm' as [HL|Hm]; [right; exact HL|left]. unfold is_legacy. cbn [reader_after_init r_magic]. lia. }
  assert (Hfl : S (length (s_rem s)) = S (length (s_rem s')) \/ (eW <> EOther /\ eW' <> EOther)).
  { destruct Hf as [Hx|Hx]; [left; congruence|right; exact Hx]. }
  change (reader_after_init s1' m fl cs) with (rset_src (reader_after_init s1 m fl cs) s1') in El'.
  destruct (sim_loop _ _ (reader_after_init s1 m fl cs) s1' _ _ _ _ _ _ _ HR1 HLl El El' Hfl) as [[HB Hp]|(<- & <- & HRr)].
  - left. split; assumption.
  - right. split; [reflexivity|]. split; [reflexivity|]. destruct HRr as [_ HRr]. destruct eW; exact HRr.
Qed.
End Sim.

(* ====================================================================== *)
(* 6. a source failing at its k-th call (C15)                             *)
(* ====================================================================== *)

Definition Rfault (k : Z) (s s' : source) : Prop :=
  s_rem s = s_rem s' /\ s_calls s = s_calls s' /\ s_consumed s = s_consumed s' /\ s_fail s = k /\ s_fail s' = 0.
Definition Bfault (e : ecls) : Prop := e = EInjected.

Lemma fault_rf k : 0 < k -> forall s s' n g e s1 g' e' s1', Rfault k s s' ->
  read_full s n = (g, e, s1) -> read_full s' n = (g', e', s1') ->
  Bfault e \/ (g = g' /\ e = e' /\ Rfault k s1 s1').
Proof.
  intros Hk s s' n g e s1 g' e' s1' HR H H'.
  destruct s as [l c fk cons]. destruct s' as [l' c' f0 cons']. unfold Rfault in HR. cbn [s_rem s_calls s_consumed s_fail] in HR.
  destruct HR as (<- & <- & <- & -> & ->). unfold read_full in *. cbn [s_rem s_calls s_consumed s_fail] in *.
  destruct (n <=? 0).
  { injection H as <- <- <-. injection H' as <- <- <-. right. repeat split; reflexivity. }
  change (0 <? 0) with false in H'. cbn [andb] in H'.
  destruct (0 <? k) eqn:E0; [|lia]. cbn [andb] in H.
  destruct (k <=? c + 1); [injection H as _ <- _; left; reflexivity|].
  destruct l as [|x l].
  { injection H as <- <- <-. injection H' as <- <- <-. right. repeat split; reflexivity. }
  destruct (take_upto n (x :: l) []) as [got rest].
  destruct (len got =? n).
  { injection H as <- <- <-. injection H' as <- <- <-. right. repeat split; reflexivity. }
  destruct (k <=? c + 1 + 1); [injection H as _ <- _; left; reflexivity|].
  injection H as <- <- <-. injection H' as <- <- <-. right. repeat split; reflexivity.
Qed.

Theorem source_fault2 : source_fault2_stmt.
Proof.
  intros input k r' n e out r0 n0 e0 out0 Hb Hk H H0.
  assert (HR : Rfault k (mksrc input 0 k 0) (src_of input)) by (repeat split; reflexivity).
  pose proof (sim_writeto (Rfault k) Bfault True (fault_rf k Hk)) as Hsim.
  specialize (Hsim ltac:(intros e1 ->; reflexivity) ltac:(intros Hx; discriminate Hx)).
  assert (Hskip : forall s s' skip got rest got' rest', Rfault k s s' ->
    take_upto skip (s_rem s) [] = (got, rest) -> take_upto skip (s_rem s') [] = (got', rest') ->
    (len got <> skip /\ Bfault EUEOF) \/
    (len got = len got' /\ Rfault k (mksrc rest (s_calls s + 1) (s_fail s) (s_consumed s + len got))
                                   (mksrc rest' (s_calls s' + 1) (s_fail s') (s_consumed s' + len got')))).
  { intros s s' skip got rest got' rest' (H1 & H2 & H3 & H4 & H5) Ht Ht'. rewrite <- H1 in Ht'. rewrite Ht in Ht'.
    injection Ht' as <- <-. right. split; [reflexivity|]. unfold Rfault. cbn [s_rem s_calls s_consumed s_fail].
    repeat split; try assumption; congruence. }
  specialize (Hsim Hskip ltac:(intros _ s s' (H1 & _); rewrite H1; reflexivity) ltac:(intros _ Hx; discriminate Hx)).
  destruct (Hsim _ _ _ _ _ _ _ _ _ _ HR (or_introl I) (or_introl eq_refl) H H0) as [[HB Hp]|(-> & -> & _)].
  - split; [exact Hp|left; exact HB].
  - split; [apply is_prefix_refl|right; split; reflexivity].
Qed.

(* ====================================================================== *)
(* 7. truncated frames (C06)                                              *)
(* ====================================================================== *)

Definition Rtrunc (x : list Z) (K : Z) (s s' : source) : Prop :=
  oksrc s /\ oksrc s' /\ s_rem s' = s_rem s ++ x /\ s_consumed s' = s_consumed s /\ s_consumed s + len (s_rem s) = K.
Definition Btrunc (e : ecls) : Prop := e = EEOF \/ e = EUEOF.

Lemma splitn_app_ext n l x a b : splitn n l [] = Some (a, b) -> splitn n (l ++ x) [] = Some (a, b ++ x).
Proof.
  intros H. apply splitn_some in H. destruct H as (-> & Hla & _). rewrite splitn_spec.
  rewrite !len_app. pose proof (len_nonneg b). pose proof (len_nonneg x).
  destruct (_ <? n) eqn:E; [lia|]. cbn [rrev rev_append app].
  destruct (Z_le_gt_dec n 0) as [Hn|Hn].
  - replace (Z.to_nat n) with 0%nat by lia. cbn [firstn skipn].
    assert (a = []) by (apply len_zero_nil; lia). subst a. reflexivity.
  - replace n with (len a) by lia. rewrite <- app_assoc.
    rewrite BlockFormatProofs.firstn_len_app, BlockFormatProofs.skipn_len_app. reflexivity.
Qed.

Lemma trunc_rf x K : forall s s' n g e s1 g' e' s1', Rtrunc x K s s' ->
  read_full s n = (g, e, s1) -> read_full s' n = (g', e', s1') ->
  Btrunc e \/ (g = g' /\ e = e' /\ Rtrunc x K s1 s1').
Proof.
  intros s s' n g e s1 g' e' s1' (Hok & Hok' & Hrem & Hc & HK) H H'.
  destruct (Z_le_gt_dec n 0) as [Hn|Hn].
  { unfold read_full in H, H'. destruct (n <=? 0) eqn:E; [|lia].
    injection H as <- <- <-. injection H' as <- <- <-. right. repeat split; try reflexivity; assumption. }
  pose proof (read_full_spec s n Hok ltac:(lia)) as Hs. pose proof (read_full_spec s' n Hok' ltac:(lia)) as Hs'.
  destruct (splitn n (s_rem s) []) as [[a b]|] eqn:Esp.
  - rewrite Hrem, (splitn_app_ext _ _ x _ _ Esp) in Hs'.
    destruct Hs as (t & Hr & Hrt & Hokt & Hct & Hla). destruct Hs' as (t' & Hr' & Hrt' & Hokt' & Hct' & _).
    rewrite Hr in H. rewrite Hr' in H'. injection H as <- <- <-. injection H' as <- <- <-.
    right. split; [reflexivity|]. split; [reflexivity|]. unfold Rtrunc.
    split; [assumption|]. split; [assumption|]. split; [rewrite Hrt, Hrt'; reflexivity|]. split; [lia|].
    apply splitn_some in Esp. destruct Esp as (Hl & _). rewrite Hl, len_app in HK. rewrite Hrt. lia.
  - destruct Hs as (g0 & e0 & t & Hr & He0 & _). rewrite Hr in H. injection H as _ <- _. left. exact He0.
Qed.

Lemma trunc_skip x K : forall s s' skip got rest got' rest', Rtrunc x K s s' ->
  take_upto skip (s_rem s) [] = (got, rest) -> take_upto skip (s_rem s') [] = (got', rest') ->
  (len got <> skip /\ Btrunc EUEOF) \/
  (len got = len got' /\ Rtrunc x K (mksrc rest (s_calls s + 1) (s_fail s) (s_consumed s + len got))
                                    (mksrc rest' (s_calls s' + 1) (s_fail s') (s_consumed s' + len got'))).
Proof.
  intros s s' skip got rest got' rest' (Hok & Hok' & Hrem & Hc & HK) Ht Ht'.
  rewrite take_upto_spec in Ht, Ht'. cbn [rrev rev_append app] in Ht, Ht'.
  injection Ht as <- <-. injection Ht' as <- <-.
  destruct (Z.eq_dec (len (firstn (Z.to_nat skip) (s_rem s))) skip) as [Heq|Hne]; [right|left; split; [exact Hne|right; reflexivity]].
  assert (Hle : (Z.to_nat skip <= length (s_rem s))%nat).
  { unfold len in Heq. rewrite firstn_length in Heq. lia. }
  rewrite Hrem. rewrite firstn_app, skipn_app.
  replace (Z.to_nat skip - length (s_rem s))%nat with 0%nat by lia. cbn [firstn skipn]. rewrite app_nil_r.
  split; [reflexivity|]. unfold Rtrunc, oksrc in *. cbn [s_rem s_calls s_consumed s_fail].
  split; [assumption|]. split; [assumption|]. split; [reflexivity|]. split; [lia|].
  rewrite <- (firstn_skipn (Z.to_nat skip) (s_rem s)), len_app in HK. lia.
Qed.

Lemma read_desc_not_eof s m e s3 x : read_desc s m = (e, s3, x) -> e <> EEOF.
Proof.
  unfold read_desc. destruct (read_full s 3) as [[b3 e3] s2].
  destruct e3; try (intros H; injection H as <- _ _; discriminate).
  destruct (lz4stream_DescriptorFlags_Size _).
  - destruct (read_full s2 8) as [[b8 e8] s3'].
    destruct e8; try (intros H; injection H as <- _ _; discriminate).
    cbv zeta. destruct (_ =? _); [destruct (lz4block_BlockSizeIndex_IsValid _)|]; intros H; injection H as <- _ _; discriminate.
  - cbv zeta. destruct (_ =? _); [destruct (lz4block_BlockSizeIndex_IsValid _)|]; intros H; injection H as <- _ _; discriminate.
Qed.

Lemma modern_headers tl n e s1 m fl cs :
  parse_headers (S n) (src_of (le32_bytes MAGIC ++ tl)) = (e, s1, (m, fl, cs)) -> m = MAGIC /\ e <> EEOF.
Proof.
  rewrite parse_headers_S'. unfold src_of. rewrite read_u32_word by (unfold MAGIC; lia). cbv beta iota.
  change (MAGIC =? lz4stream_frameMagic) with true. change (MAGIC =? lz4stream_frameMagicLegacy) with false.
  cbn [orb]. cbv iota. intros H. split; [exact (read_desc_magic _ _ _ _ _ _ _ H)|exact (read_desc_not_eof _ _ _ _ _ H)].
Qed.

Lemma truncated_not_eeof tl k r' m out : (1 <= k)%nat ->
  rstep (new_reader (src_of (firstn k (le32_bytes MAGIC ++ tl)))) RWriteTo = (r', RRes m EEOF out) -> False.
Proof.
  intros Hk H. destruct k as [|[|[|[|k]]]]; [lia| | | |].
  1-3: vm_compute in H; discriminate H.
  change (firstn (S (S (S (S k)))) (le32_bytes MAGIC ++ tl)) with (le32_bytes MAGIC ++ firstn k tl) in H.
  rewrite rstep_writeto_new in H.
  destruct (parse_headers _ _) as [[e s1] [[m0 fl] cs]] eqn:Eh.
  destruct (modern_headers _ _ _ _ _ _ _ Eh) as [_ Hne].
  destruct e; try (injection H as _ _ He _; discriminate He); [|apply Hne; reflexivity].
  destruct (r_writeto_loop _ _ _) as [[rW outW] eW] eqn:El. injection H as _ _ -> _.
  apply writeto_loop_state in El. destruct El as [_ Hx]. apply Hx. reflexivity.
Qed.

Theorem truncation2 : truncation2_stmt.
Proof.
  intros os o items k r' m e out Hopt Hmod Hit Hcs Hlen f Hk H.
  destruct (frame_of_items_shape os o items Hopt Hmod Hit) as (tl & Hshape & Hbt).
  pose proof (FrameEncodeItems.encode_spec_items os o items Hopt Hmod Hit Hcs Hlen) as Hspec.
  fold f in Hshape, Hspec.
  assert (Hb : bytes f) by (rewrite Hshape; apply bytes_app; split; [apply bytes_le32|exact Hbt]).
  rewrite Hshape in Hspec at 1. apply frame_spec_strict in Hspec. rewrite <- Hshape in Hspec.
  assert (Hnl : not_legacy f) by (rewrite Hshape; apply not_legacy_modern).
  destruct (reader_complete_fixed _ _ _ Hb Hnl Hlen Hspec) as (r0 & Hr0 & Hc0 & _).
  set (p := firstn k f) in *. set (x := skipn k f).
  assert (Hpx : f = p ++ x) by (symmetry; apply firstn_skipn).
  assert (Hlp : len p = Z.of_nat k) by (unfold len, p; rewrite firstn_length; lia).
  assert (Hbp : bytes p) by (apply bytes_firstn; exact Hb).
  assert (HR : Rtrunc x (len p) (src_of p) (src_of f)).
  { unfold Rtrunc, oksrc, src_of. cbn [s_rem s_fail s_consumed]. repeat split; try reflexivity. exact Hpx. }
  assert (Hne : e <> EOther) by exact (reader_total p RWriteTo _ _ Hbp H).
  pose proof (sim_writeto (Rtrunc x (len p)) Btrunc False (trunc_rf x (len p))) as Hsim.
  specialize (Hsim ltac:(intros e1 [-> | ->]; right; reflexivity) ltac:(intros [Hx|Hx]; discriminate Hx)
                   (trunc_skip x (len p)) ltac:(intros []) ltac:(intros [])).
  assert (HLm : False \/ forall e1 s1 m1 fl cs, parse_headers (S (length (s_rem (src_of f)))) (src_of f) = (e1, s1, (m1, fl, cs)) ->
                          m1 <> lz4stream_frameMagicLegacy).
  { right. intros e1 s1 m1 fl cs Hh. rewrite Hshape in Hh. apply modern_headers in Hh. destruct Hh as [-> _]. discriminate. }
  assert (Hf : length (s_rem (src_of p)) = length (s_rem (src_of f)) \/ (e <> EOther /\ ENil <> EOther)).
  { right. split; [exact Hne|discriminate]. }
  destruct (Hsim _ _ _ _ _ _ _ _ _ _ HR HLm Hf H Hr0) as [[HB Hp]|(-> & -> & HRf)].
  - split; [destruct HB as [-> | ->]; discriminate|]. split; [|exact Hp].
    intros ->. unfold p in H. rewrite Hshape in H. apply (truncated_not_eeof tl k _ _ _ ltac:(lia) H).
  - exfalso. destruct HRf as (_ & _ & _ & Hcc & HK). pose proof (len_nonneg (s_rem (r_src r'))).
    assert (len f = Z.of_nat (length f)) by reflexivity. lia.
Qed.

Print Assumptions roundtrip.
Print Assumptions reader_ended.
Print Assumptions reader_ended_read.
Print Assumptions reader_reset.
Print Assumptions truncation2.
Print Assumptions source_fault2.
Check (roundtrip : roundtrip_stmt).
Check (reader_ended : reader_ended_stmt).
Check (reader_ended_read : reader_ended_read_stmt).
Check (reader_reset : reader_reset_stmt).
Check (truncation2 : truncation2_stmt).
Check (source_fault2 : source_fault2_stmt).
