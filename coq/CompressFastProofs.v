(* CompressFastProofs.v — proofs of the fast block compressor statements of CompressSpec.v:
   fast_sound, fast_small_only, fast_nohang (any table) and fast_nopanic, fast_state_indep
   (the concrete table of CompressFastTable.v). *)
From Coq Require Import ZArith List Lia Bool ZifyBool FMapPositive.
From LZ4V Require Import Base GenBlock BlockFormat BlockFormatProofs CompressFast CompressFastTable CompressSpec.
Import ListNotations.
Open Scope Z_scope.

Ltac dlia := Z.div_mod_to_equations; lia.

(* ------------------------------------------------------------------------------------------ *)
(* source slices                                                                              *)
(* ------------------------------------------------------------------------------------------ *)
Section Slices.
Variable get : Z -> Z.

Lemma sub_from_length a k : length (sub_from get a k) = k.
Proof. revert a; induction k as [|k IH]; intros a; cbn [sub_from length]; [reflexivity|now rewrite IH]. Qed.

Lemma sub_from_app a k1 k2 :
  sub_from get a (k1 + k2) = sub_from get a k1 ++ sub_from get (a + Z.of_nat k1) k2.
Proof.
  revert a; induction k1 as [|k1 IH]; intros a.
  - cbn [Nat.add sub_from app]. f_equal. lia.
  - cbn [Nat.add sub_from app]. rewrite IH. do 3 f_equal. lia.
Qed.

Lemma len_sub a l : 0 <= l -> len (sub get a l) = l.
Proof. intros Hl. unfold len, sub. rewrite sub_from_length. lia. Qed.

Lemma sub_nil a : sub get a 0 = [].
Proof. reflexivity. Qed.

Lemma sub_app a l1 l2 : 0 <= l1 -> 0 <= l2 ->
  sub get a (l1 + l2) = sub get a l1 ++ sub get (a + l1) l2.
Proof.
  intros H1 H2. unfold sub. rewrite Z2Nat.inj_add by lia. rewrite sub_from_app.
  rewrite Z2Nat.id by lia. reflexivity.
Qed.

Lemma sub_one a : sub get a 1 = [get a].
Proof. reflexivity. Qed.

Lemma sub_snoc a l : 0 <= l -> sub get a (l + 1) = sub get a l ++ [get (a + l)].
Proof. intros Hl. rewrite sub_app by lia. rewrite sub_one. reflexivity. Qed.

Lemma rev_sub_succ q : 0 <= q -> rev (sub get 0 (q + 1)) = get q :: rev (sub get 0 q).
Proof. intros Hq. rewrite sub_snoc by lia. rewrite rev_app_distr. reflexivity. Qed.

Lemma sub_from_bytes n a k : bytes_fn get n -> 0 <= a -> a + Z.of_nat k <= n ->
  bytes (sub_from get a k).
Proof.
  intros Hb. revert a; induction k as [|k IH]; intros a Ha Hk; cbn [sub_from].
  - constructor.
  - constructor; [apply Hb; lia|]. apply IH; lia.
Qed.

Lemma bytes_sub n a l : bytes_fn get n -> 0 <= a -> a + l <= n -> bytes (sub get a l).
Proof.
  intros Hb Ha Hl. unfold sub.
  destruct (Z_lt_le_dec l 0) as [Hneg|Hpos].
  - replace (Z.to_nat l) with O by lia. constructor.
  - apply (sub_from_bytes n); [assumption|lia|lia].
Qed.

(* the reversed prefix, indexed from the most recent byte *)
Lemma nth_error_rev_prefix q : forall j, (j < q)%nat ->
  nth_error (rev (sub_from get 0 q)) j = Some (get (Z.of_nat q - 1 - Z.of_nat j)).
Proof.
  induction q as [|q IH]; intros j Hj; [lia|].
  replace (S q) with (q + 1)%nat by lia. rewrite sub_from_app. rewrite rev_app_distr.
  cbn [sub_from rev app]. destruct j as [|j].
  - cbn [nth_error]. do 2 f_equal. lia.
  - cbn [nth_error]. rewrite IH by lia. do 2 f_equal. lia.
Qed.

Lemma byte_at_prefix q o : 1 <= o <= q ->
  byte_at [] (rev (sub get 0 q)) o = Some (get (q - o)).
Proof.
  intros Ho. unfold byte_at.
  destruct (o <=? 0) eqn:E0; [lia|].
  unfold len. rewrite rev_length. unfold sub. rewrite sub_from_length.
  destruct (o <=? Z.of_nat (Z.to_nat q)) eqn:E1; [|lia].
  rewrite nth_error_rev_prefix by lia. do 2 f_equal. lia.
Qed.

(* a match whose bytes repeat at distance o is what copy_match reproduces *)
Lemma copy_match_prefix o : forall (L : nat) q, 1 <= o <= q ->
  (forall k, 0 <= k < Z.of_nat L -> get (q + k) = get (q + k - o)) ->
  copy_match L [] (rev (sub get 0 q)) o = Some (rev (sub get 0 (q + Z.of_nat L))).
Proof.
  induction L as [|L IH]; intros q Ho Heq.
  - cbn [copy_match]. do 3 f_equal. lia.
  - cbn [copy_match]. rewrite byte_at_prefix by lia.
    pose proof (Heq 0 ltac:(lia)) as H0. replace (q + 0 - o) with (q - o) in H0 by lia.
    replace (q + 0) with q in H0 by lia. rewrite <- H0.
    rewrite <- rev_sub_succ by lia. rewrite IH.
    + do 3 f_equal. lia.
    + lia.
    + intros k Hk. specialize (Heq (k + 1) ltac:(lia)).
      replace (q + 1 + k) with (q + (k + 1)) by lia. exact Heq.
Qed.

(* literals appended to a reversed prefix *)
Lemma rev_append_prefix a l : 0 <= a -> 0 <= l ->
  rev_append (sub get a l) (rev (sub get 0 a)) = rev (sub get 0 (a + l)).
Proof.
  intros Ha Hl. rewrite rev_append_rev. rewrite <- rev_app_distr.
  rewrite (sub_app 0 a l) by lia. reflexivity.
Qed.

End Slices.

(* ------------------------------------------------------------------------------------------ *)
(* sequences appended at the end                                                              *)
(* ------------------------------------------------------------------------------------------ *)
Definition sumlen (ss : list seq) : Z := fold_right (fun s a => len (lits s) + mlen s + a) 0 ss.

Lemma sumlen_app a b : sumlen (a ++ b) = sumlen a + sumlen b.
Proof. unfold sumlen. induction a as [|s a IH]; cbn [app fold_right]; lia. Qed.

Lemma sumlen_one s : sumlen [s] = len (lits s) + mlen s.
Proof. cbn [sumlen fold_right]. lia. Qed.

Lemma total_len_sumlen ss last : total_len (ss, last) = sumlen ss + len last.
Proof. reflexivity. Qed.

Lemma expand_app rd cap : forall a r b,
  expand rd cap r (a ++ b) =
  match expand rd cap r a with None => None | Some r' => expand rd cap r' b end.
Proof.
  induction a as [|s a IH]; intros r b; cbn [app expand]; [reflexivity|].
  destruct (exec_seq rd cap r s) as [r1|]; [apply IH|reflexivity].
Qed.

Lemma strict_offsets_app : forall a o b,
  strict_offsets o (a ++ b) = strict_offsets o a && strict_offsets (o + sumlen a) b.
Proof.
  induction a as [|s a IH]; intros o b.
  - cbn [app strict_offsets sumlen fold_right andb]. f_equal. lia.
  - cbn [app strict_offsets]. rewrite IH. cbn [sumlen fold_right]. fold (sumlen a).
    replace (o + len (lits s) + mlen s + sumlen a) with (o + (len (lits s) + mlen s + sumlen a)) by lia.
    rewrite !andb_assoc. reflexivity.
Qed.

Lemma last_match_start_snoc : forall a pos s,
  last_match_start pos (a ++ [s]) = pos + sumlen a + len (lits s).
Proof.
  induction a as [|x a IH]; intros pos s.
  - cbn [app last_match_start sumlen fold_right]. lia.
  - destruct a as [|y a].
    + cbn [app last_match_start sumlen fold_right]. lia.
    + change ((x :: y :: a) ++ [s]) with (x :: ((y :: a) ++ [s])).
      change (last_match_start pos (x :: (y :: a) ++ [s]))
        with (last_match_start (pos + len (lits x) + mlen x) ((y :: a) ++ [s])).
      rewrite IH. cbn [sumlen fold_right]. lia.
Qed.

Lemma rev_append_nil {A} (l : list A) : rev_append l [] = rev l.
Proof. rewrite rev_append_rev. apply app_nil_r. Qed.

Lemma seq_size_pos s : 1 <= seq_size s.
Proof.
  unfold seq_size, enc_seq. rewrite len_cons.
  match goal with |- 1 <= 1 + len ?l => pose proof (len_nonneg l) end. lia.
Qed.

Lemma len_flat_map_cons s ss : len (flat_map enc_seq (s :: ss)) = seq_size s + len (flat_map enc_seq ss).
Proof. cbn [flat_map]. rewrite len_app. reflexivity. Qed.

Lemma ser_seqs_some dstlen : forall ss di di',
  ser_seqs dstlen di ss = Some di' -> di' = di + len (flat_map enc_seq ss).
Proof.
  induction ss as [|s ss IH]; intros di di' H.
  - cbn [ser_seqs] in H. injection H as <-. cbn [flat_map]. rewrite len_nil. lia.
  - cbn [ser_seqs] in H. destruct (dstlen <? di + seq_size s) eqn:E; [discriminate|].
    apply IH in H. rewrite len_flat_map_cons. lia.
Qed.

Lemma ser_seqs_none dstlen : forall ss di,
  ser_seqs dstlen di ss = None -> dstlen < di + len (flat_map enc_seq ss).
Proof.
  induction ss as [|s ss IH]; intros di H.
  - cbn [ser_seqs] in H. discriminate.
  - cbn [ser_seqs] in H. rewrite len_flat_map_cons.
    pose proof (len_nonneg (flat_map enc_seq ss)).
    destruct (dstlen <? di + seq_size s) eqn:E; [lia|].
    apply IH in H. lia.
Qed.

Lemma len_encode ss last :
  len (encode (ss, last)) = len (flat_map enc_seq ss) + (1 + len (extl (len last)) + len last).
Proof.
  unfold encode, enc_last. cbn [fst snd]. rewrite len_app, len_cons, len_app. lia.
Qed.

(* ------------------------------------------------------------------------------------------ *)
(* words                                                                                       *)
(* ------------------------------------------------------------------------------------------ *)
Lemma le32_inj a b c d a' b' c' d' :
  0 <= a < 256 -> 0 <= b < 256 -> 0 <= c < 256 -> 0 <= d < 256 ->
  0 <= a' < 256 -> 0 <= b' < 256 -> 0 <= c' < 256 -> 0 <= d' < 256 ->
  le32 a b c d = le32 a' b' c' d' -> a = a' /\ b = b' /\ c = c' /\ d = d'.
Proof. unfold le32. intros. lia. Qed.

Lemma words_of_load64 a0 a1 a2 a3 a4 a5 a6 a7 :
  0 <= a0 < 256 -> 0 <= a1 < 256 -> 0 <= a2 < 256 -> 0 <= a3 < 256 ->
  0 <= a4 < 256 -> 0 <= a5 < 256 -> 0 <= a6 < 256 -> 0 <= a7 < 256 ->
  let m := le32 a0 a1 a2 a3 + 4294967296 * le32 a4 a5 a6 a7 in
  m mod 4294967296 = le32 a0 a1 a2 a3 /\
  Z.shiftr m 8 mod 4294967296 = le32 a1 a2 a3 a4 /\
  Z.shiftr m 16 mod 4294967296 = le32 a2 a3 a4 a5.
Proof.
  intros. subst m. rewrite !Z.shiftr_div_pow2 by lia.
  change (2 ^ 8) with 256. change (2 ^ 16) with 65536. unfold le32.
  repeat split; dlia.
Qed.

(* ------------------------------------------------------------------------------------------ *)
(* the match finder, one iteration at a time                                                  *)
(* ------------------------------------------------------------------------------------------ *)
Section Finder.
Variable get : Z -> Z.
Variable n : Z.

Lemma eq_run_spec : forall k a b,
  0 <= eq_run get k a b <= Z.of_nat k /\
  forall j, 0 <= j < eq_run get k a b -> get (a + j) = get (b + j).
Proof.
  induction k as [|k IH]; intros a b; cbn [eq_run].
  - split; [lia|]. intros j Hj. lia.
  - destruct (get a =? get b) eqn:E.
    + destruct (IH (a + 1) (b + 1)) as [Hr Hj]. split; [lia|].
      intros j Hjr. destruct (Z.eq_dec j 0) as [-> | Hnz].
      * rewrite !Z.add_0_r. lia.
      * specialize (Hj (j - 1) ltac:(lia)).
        replace (a + 1 + (j - 1)) with (a + j) in Hj by lia.
        replace (b + 1 + (j - 1)) with (b + j) in Hj by lia. exact Hj.
    + split; [lia|]. intros j Hj. lia.
Qed.

Lemma fwd_spec o : forall f s,
  s <= fwd get n f s o /\ (fwd get n f s o <= s \/ fwd get n f s o <= sn n) /\
  forall k, s <= k < fwd get n f s o -> get k = get (k - o).
Proof.
  induction f as [|f IH]; intros s; cbn [fwd].
  - split; [lia|]. split; [lia|]. intros k Hk. lia.
  - destruct (s + 8 <=? sn n) eqn:E8.
    + destruct (eq_run_spec 8 s (s - o)) as [Hr Hj].
      change (Z.of_nat 8) with 8 in Hr.
      destruct (eq_run get 8 s (s - o) =? 8) eqn:Ek.
      * destruct (IH (s + 8)) as (H1 & H2 & H3).
        split; [lia|]. split; [lia|].
        intros k Hk. destruct (Z_lt_le_dec k (s + 8)) as [Hlt|Hge].
        -- specialize (Hj (k - s) ltac:(lia)).
           replace (s + (k - s)) with k in Hj by lia.
           replace (s - o + (k - s)) with (k - o) in Hj by lia. exact Hj.
        -- apply H3. lia.
      * split; [lia|]. split; [lia|].
        intros k Hk. specialize (Hj (k - s) ltac:(lia)).
        replace (s + (k - s)) with k in Hj by lia.
        replace (s - o + (k - s)) with (k - o) in Hj by lia. exact Hj.
    + split; [lia|]. split; [lia|]. intros k Hk. lia.
Qed.

Lemma bwd_spec : forall fuel si tOff lLen,
  0 <= bwd get fuel si tOff lLen /\
  (0 <= lLen -> bwd get fuel si tOff lLen <= lLen) /\
  (-1 <= tOff -> bwd get fuel si tOff lLen <= tOff + 1) /\
  forall k, 1 <= k <= bwd get fuel si tOff lLen -> get (si - k) = get (tOff + 1 - k).
Proof.
  induction fuel as [|fuel IH]; intros si tOff lLen; cbn [bwd].
  - split; [lia|]. split; [lia|]. split; [lia|]. intros k Hk. lia.
  - destruct ((0 <? lLen) && (0 <=? tOff) && (get (si - 1) =? get tOff)) eqn:E.
    + destruct (IH (si - 1) (tOff - 1) (lLen - 1)) as (H0 & H1 & H2 & H3).
      split; [lia|]. split; [lia|]. split; [lia|].
      intros k Hk. destruct (Z.eq_dec k 1) as [-> | Hne].
      * replace (tOff + 1 - 1) with tOff by lia. lia.
      * specialize (H3 (k - 1) ltac:(lia)).
        replace (si - 1 - (k - 1)) with (si - k) in H3 by lia.
        replace (tOff - 1 + 1 - (k - 1)) with (tOff + 1 - k) in H3 by lia. exact H3.
    + split; [lia|]. split; [lia|]. split; [lia|]. intros k Hk. lia.
Qed.

Lemma accept_true p r w : accept get p r w = Some true ->
  0 < p - r < 65536 /\ 0 <= r /\ w = load32 get r.
Proof.
  unfold accept. change lz4block_winSize with 65536.
  destruct ((p - r <=? 0) || (65536 <=? p - r)) eqn:E1; [discriminate|].
  destruct (r <? 0) eqn:E2; [discriminate|].
  intros H. injection H as H. lia.
Qed.

Lemma accept_none p r w : accept get p r w = None -> 0 < p - r < 65536 /\ r < 0.
Proof.
  unfold accept. change lz4block_winSize with 65536.
  destruct ((p - r <=? 0) || (65536 <=? p - r)) eqn:E1; [discriminate|].
  destruct (r <? 0) eqn:E2; [|discriminate].
  intros _. lia.
Qed.

Lemma load32_eq p r : bytes_fn get n -> 0 <= p -> p + 4 <= n -> 0 <= r -> r + 4 <= n ->
  load32 get p = load32 get r -> forall k, 0 <= k < 4 -> get (p + k) = get (r + k).
Proof.
  intros Hb Hp Hpn Hr Hrn H k Hk. unfold load32 in H.
  apply le32_inj in H; try (apply Hb; lia).
  destruct H as (H0 & H1 & H2 & H3).
  assert (Hc : k = 0 \/ k = 1 \/ k = 2 \/ k = 3) by lia.
  destruct Hc as [-> | [-> | [-> | ->]]]; rewrite ?Z.add_0_r; assumption.
Qed.

Lemma load64_words si : bytes_fn get n -> 0 <= si -> si + 8 <= n ->
  load64 get si mod 4294967296 = load32 get si /\
  Z.shiftr (load64 get si) 8 mod 4294967296 = load32 get (si + 1) /\
  Z.shiftr (load64 get si) 16 mod 4294967296 = load32 get (si + 2).
Proof.
  intros Hb Hs Hn.
  pose proof (words_of_load64 (get si) (get (si + 1)) (get (si + 2)) (get (si + 3))
                (get (si + 4)) (get (si + 5)) (get (si + 6)) (get (si + 7))
                ltac:(apply Hb; lia) ltac:(apply Hb; lia) ltac:(apply Hb; lia) ltac:(apply Hb; lia)
                ltac:(apply Hb; lia) ltac:(apply Hb; lia) ltac:(apply Hb; lia) ltac:(apply Hb; lia)) as H.
  cbv zeta in H. unfold load64, load32.
  replace (si + 4 + 1) with (si + 5) by lia. replace (si + 4 + 2) with (si + 6) by lia.
  replace (si + 4 + 3) with (si + 7) by lia.
  replace (si + 1 + 1) with (si + 2) by lia. replace (si + 1 + 2) with (si + 3) by lia.
  replace (si + 1 + 3) with (si + 4) by lia.
  replace (si + 2 + 1) with (si + 3) by lia. replace (si + 2 + 2) with (si + 4) by lia.
  replace (si + 2 + 3) with (si + 5) by lia.
  exact H.
Qed.

Variable T : Type.
Variable tget : T -> Z -> Z -> Z.
Variable tput : T -> Z -> Z -> T.

Inductive step := SPanic | SFound (p r : Z) (tb : T) | SSkip (si' : Z) (tb : T).

(* one iteration's decision: panic, a confirmed candidate, or the skip *)
Definition pstep (si anchor : Z) (tb : T) : step :=
  let m := load64 get si in
  let h := lz4block_blockHash m in
  let h2 := lz4block_blockHash (Z.shiftr m 8) in
  let ref := tget tb h si in
  let ref2 := tget tb h2 (si + 1) in
  let tb := tput (tput tb h si) h2 (si + 1) in
  match accept get si ref (m mod 4294967296) with
  | None => SPanic
  | Some true => SFound si ref tb
  | Some false =>
    let h3 := lz4block_blockHash (Z.shiftr m 16) in
    let ref3 := tget tb h3 (si + 2) in
    match accept get (si + 1) ref2 (Z.shiftr m 8 mod 4294967296) with
    | None => SPanic
    | Some true => SFound (si + 1) ref2 tb
    | Some false =>
      let tb := tput tb h3 (si + 2) in
      match accept get (si + 2) ref3 (Z.shiftr m 16 mod 4294967296) with
      | None => SPanic
      | Some true => SFound (si + 2) ref3 tb
      | Some false => SSkip (si + 2 + 2 + Z.shiftr (si + 2 - anchor) adaptSkipLog) tb
      end
    end
  end.

(* the sequence emitted for a confirmed candidate at p with reference r, and where it ends *)
Definition fseq (f : nat) (anchor p r : Z) : seq * Z :=
  let offset := p - r in
  let lLen := p - anchor in
  let b := bwd get (Z.to_nat lLen) p (p - offset - 1) lLen in
  let mstart := p - b in
  let send := fwd get n f (p + lz4block_minMatch) offset in
  (mkseq (sub get anchor (mstart - anchor)) offset (send - mstart), send).

Lemma ploop_S f si anchor tb acc :
  ploop get n T tget tput (S f) si anchor tb acc =
  if sn n <=? si then POk (rev_append acc []) anchor else
  match pstep si anchor tb with
  | SPanic => PPanic
  | SFound p r tb' =>
    let s := fst (fseq f anchor p r) in
    let send := snd (fseq f anchor p r) in
    if sn n <=? send then POk (rev_append (s :: acc) []) send
    else ploop get n T tget tput f send send
           (tput tb' (lz4block_blockHash (load64 get (send - 2))) (send - 2)) (s :: acc)
  | SSkip si' tb' => ploop get n T tget tput f si' anchor tb' acc
  end.
Proof.
  cbn [ploop]. destruct (sn n <=? si); [reflexivity|].
  unfold pstep, fseq. cbv zeta. cbn [fst snd].
  destruct (accept get si _ _) as [[|]|]; [reflexivity| |reflexivity].
  destruct (accept get (si + 1) _ _) as [[|]|]; [reflexivity| |reflexivity].
  destruct (accept get (si + 2) _ _) as [[|]|]; reflexivity.
Qed.

(* where a step can lead *)
Lemma pstep_found si anchor tb p r tb' : pstep si anchor tb = SFound p r tb' ->
  si <= p <= si + 2 /\ exists w, accept get p r w = Some true /\
  (w = load64 get si mod 4294967296 /\ p = si \/
   w = Z.shiftr (load64 get si) 8 mod 4294967296 /\ p = si + 1 \/
   w = Z.shiftr (load64 get si) 16 mod 4294967296 /\ p = si + 2).
Proof.
  unfold pstep. cbv zeta.
  destruct (accept get si _ _) as [[|]|] eqn:E1.
  - intros H. injection H as <- <- _. split; [lia|]. eexists. split; [exact E1|]. left. split; reflexivity.
  - destruct (accept get (si + 1) _ _) as [[|]|] eqn:E2.
    + intros H. injection H as <- <- _. split; [lia|]. eexists. split; [exact E2|]. right; left. split; reflexivity.
    + destruct (accept get (si + 2) _ _) as [[|]|] eqn:E3.
      * intros H. injection H as <- <- _. split; [lia|]. eexists. split; [exact E3|]. right; right. split; reflexivity.
      * discriminate.
      * discriminate.
    + discriminate.
  - discriminate.
Qed.

Lemma pstep_skip si anchor tb si' tb' : anchor <= si -> pstep si anchor tb = SSkip si' tb' ->
  si + 4 <= si'.
Proof.
  intros Ha. unfold pstep. cbv zeta.
  destruct (accept get si _ _) as [[|]|]; try discriminate.
  destruct (accept get (si + 1) _ _) as [[|]|]; try discriminate.
  destruct (accept get (si + 2) _ _) as [[|]|]; try discriminate.
  intros H. injection H as <- _.
  pose proof (proj2 (Z.shiftr_nonneg (si + 2 - anchor) adaptSkipLog) ltac:(lia)). lia.
Qed.

(* a confirmed candidate really is a 4-byte repetition inside the source *)
Lemma pstep_found_bytes si anchor tb p r tb' : bytes_fn get n -> 0 <= si -> si < sn n ->
  pstep si anchor tb = SFound p r tb' ->
  si <= p <= si + 2 /\ 0 <= r /\ 0 < p - r < 65536 /\
  forall k, 0 <= k < 4 -> get (p + k) = get (r + k).
Proof.
  intros Hb Hs Hsn H. apply pstep_found in H. destruct H as (Hp & w & Hacc & Hw).
  unfold sn, lz4block_mfLimit in Hsn.
  apply accept_true in Hacc. destruct Hacc as (Ho & Hr & Hwr).
  destruct (load64_words si Hb ltac:(lia) ltac:(lia)) as (W0 & W1 & W2).
  split; [exact Hp|]. split; [exact Hr|]. split; [exact Ho|].
  apply load32_eq; try assumption; try lia.
  destruct Hw as [[-> ->] | [[-> ->] | [-> ->]]]; congruence.
Qed.

(* the emitted sequence *)
Lemma fseq_spec f anchor p r : 0 <= anchor <= p -> 0 <= r -> 0 < p - r -> p <= sn n + 1 ->
  (forall k, 0 <= k < 4 -> get (p + k) = get (r + k)) ->
  exists ms send, fseq f anchor p r = (mkseq (sub get anchor (ms - anchor)) (p - r) (send - ms), send) /\
    anchor <= ms <= p /\ p - r <= ms /\ p + 4 <= send /\ send + 9 <= n /\
    forall k, 0 <= k < send - ms -> get (ms + k) = get (ms + k - (p - r)).
Proof.
  intros Ha Hr Ho Hp H4. unfold fseq. cbv zeta. change lz4block_minMatch with 4.
  set (o := p - r).
  destruct (bwd_spec (Z.to_nat (p - anchor)) p (p - o - 1) (p - anchor)) as (B0 & B1 & B2 & B3).
  set (b := bwd get (Z.to_nat (p - anchor)) p (p - o - 1) (p - anchor)) in *.
  destruct (fwd_spec o f (p + 4)) as (F1 & F2 & F3).
  set (send := fwd get n f (p + 4) o) in *.
  exists (p - b), send. split; [reflexivity|].
  specialize (B1 ltac:(lia)). specialize (B2 ltac:(lia)).
  unfold sn, lz4block_mfLimit in *.
  split; [lia|]. split; [lia|]. split; [lia|]. split; [lia|].
  intros k Hk.
  destruct (Z_lt_le_dec (p - b + k) p) as [Hlt|Hge].
  - specialize (B3 (b - k) ltac:(lia)).
    replace (p - (b - k)) with (p - b + k) in B3 by lia.
    replace (p - o - 1 + 1 - (b - k)) with (p - b + k - o) in B3 by lia. exact B3.
  - destruct (Z_lt_le_dec (p - b + k) (p + 4)) as [Hlt4|Hge4].
    + specialize (H4 (k - b) ltac:(lia)).
      replace (p + (k - b)) with (p - b + k) in H4 by lia.
      replace (r + (k - b)) with (p - b + k - o) in H4 by lia. exact H4.
    + apply F3. lia.
Qed.

End Finder.

(* ------------------------------------------------------------------------------------------ *)
(* soundness: the loop invariant                                                              *)
(* ------------------------------------------------------------------------------------------ *)
Section Sound.
Variable get : Z -> Z.
Variable n : Z.
Hypothesis Hn : 0 <= n.
Hypothesis Hb : bytes_fn get n.

(* the sequences emitted so far decode to src[0..a) and are strictly valid *)
Record okseqs (ss : list seq) (a : Z) : Prop := mk_ok {
  ok_wf : Forall wf_seq ss;
  ok_exp : expand [] n [] ss = Some (rev (sub get 0 a));
  ok_so : strict_offsets 0 ss = true;
  ok_sum : sumlen ss = a;
  ok_lms : ss <> [] -> last_match_start 0 ss + 12 <= n;
  ok_a : 0 <= a <= n }.

Lemma ok_nil : okseqs [] 0.
Proof.
  constructor; try reflexivity; [constructor| |lia]. intros H; congruence.
Qed.

Lemma ok_snoc ss a ms o L : okseqs ss a -> a <= ms -> 1 <= o <= 65535 -> o <= ms -> 4 <= L ->
  ms + L <= n -> ms + 12 <= n ->
  (forall k, 0 <= k < L -> get (ms + k) = get (ms + k - o)) ->
  okseqs (ss ++ [mkseq (sub get a (ms - a)) o L]) (ms + L).
Proof.
  intros [Hwf Hexp Hso Hsum Hlms Ha] Hams Ho Hom HL HmsL Hms12 Heq.
  assert (Hlen : len (sub get a (ms - a)) = ms - a) by (apply len_sub; lia).
  constructor.
  - apply Forall_app. split; [exact Hwf|]. constructor; [|constructor].
    unfold wf_seq. cbn [lits off mlen]. split; [|lia].
    apply (bytes_sub get n); [exact Hb|lia|lia].
  - rewrite expand_app, Hexp. cbn [expand]. unfold exec_seq. cbn [lits off mlen].
    rewrite rev_append_prefix by lia. replace (a + (ms - a)) with ms by lia.
    assert (Hl1 : len (rev (sub get 0 ms)) = ms).
    { unfold len. rewrite rev_length. fold (len (sub get 0 ms)). apply len_sub. lia. }
    rewrite Hl1. destruct (n <? ms) eqn:E1; [lia|].
    rewrite copy_match_prefix.
    + rewrite Z2Nat.id by lia.
      assert (Hl2 : len (rev (sub get 0 (ms + L))) = ms + L).
      { unfold len. rewrite rev_length. fold (len (sub get 0 (ms + L))). apply len_sub. lia. }
      rewrite Hl2. destruct (n <? ms + L) eqn:E2; [lia|]. reflexivity.
    + lia.
    + intros k Hk. apply Heq. lia.
  - rewrite strict_offsets_app, Hso. cbn [andb strict_offsets lits off mlen].
    rewrite Hsum, Hlen. lia.
  - rewrite sumlen_app, sumlen_one, Hsum. cbn [lits mlen]. rewrite Hlen. lia.
  - intros _. rewrite last_match_start_snoc. cbn [lits]. rewrite Hsum, Hlen. lia.
  - lia.
Qed.

Variable T : Type.
Variable tget : T -> Z -> Z -> Z.
Variable tput : T -> Z -> Z -> T.

Lemma ploop_sound : forall fuel si anchor tb acc ss a,
  okseqs (rev acc) anchor -> anchor <= si -> anchor + 5 <= n ->
  ploop get n T tget tput fuel si anchor tb acc = POk ss a ->
  okseqs ss a /\ a + 5 <= n.
Proof.
  induction fuel as [|f IH]; intros si anchor tb acc ss a Hok Has Ha5 H.
  - cbn [ploop] in H. discriminate.
  - rewrite ploop_S in H.
    destruct (sn n <=? si) eqn:Esn.
    + rewrite rev_append_nil in H. injection H as <- <-. split; assumption.
    + pose proof (ok_a _ _ Hok) as Ha0.
      destruct (pstep get T tget tput si anchor tb) as [|p r tb'|si' tb'] eqn:Est.
      * discriminate.
      * apply pstep_found_bytes with (n := n) in Est; [|exact Hb|lia|lia].
        destruct Est as (Hp & Hr & Ho & H4).
        destruct (fseq_spec get n f anchor p r ltac:(lia) Hr ltac:(lia) ltac:(lia) H4)
          as (ms & send & Hf & Hms & Homs & Hsend & Hsend9 & Heq).
        rewrite Hf in H. cbn [fst snd] in H. cbv zeta in H.
        assert (Hok' : okseqs (rev (mkseq (sub get anchor (ms - anchor)) (p - r) (send - ms) :: acc)) send).
        { cbn [rev]. replace send with (ms + (send - ms)) at 2 by lia.
          apply ok_snoc; try assumption; lia. }
        destruct (sn n <=? send) eqn:Esn2.
        -- rewrite rev_append_nil in H. injection H as <- <-. split; [exact Hok'|lia].
        -- eapply IH; [exact Hok'| | |exact H]; lia.
      * apply pstep_skip in Est; [|lia].
        eapply IH; [exact Hok| |exact Ha5|exact H]. lia.
Qed.

Lemma parse_fast_sound tb0 ss a :
  parse_fast get n T tget tput tb0 = POk ss a ->
  okseqs ss a /\ (ss <> [] -> a + 5 <= n).
Proof.
  unfold parse_fast. destruct (sn n <=? 0) eqn:E.
  - intros H. injection H as <- <-. split; [apply ok_nil|]. intros H; congruence.
  - intros H. apply ploop_sound in H.
    + destruct H as [H1 H2]. split; [exact H1|]. intros _. exact H2.
    + cbn [rev]. apply ok_nil.
    + lia.
    + unfold sn, lz4block_mfLimit in E. lia.
Qed.

(* from the invariant to the block-format statement *)
Lemma ok_parse ss a : okseqs ss a -> (ss <> [] -> a + 5 <= n) ->
  let p := (ss, sub get a (n - a)) in
  wf_parse p /\ strict p = true /\ total_len p = n /\
  expand_parse [] n [] p = Some (rev (sub get 0 n)).
Proof.
  intros [Hwf Hexp Hso Hsum Hlms Ha] Ha5. cbv zeta.
  assert (Hlen : len (sub get a (n - a)) = n - a) by (apply len_sub; lia).
  split; [|split; [|split]].
  - split; cbn [fst snd]; [exact Hwf|]. apply (bytes_sub get n); [exact Hb|lia|lia].
  - unfold strict. cbn [fst snd]. rewrite Hso. cbn [andb].
    destruct ss as [|s ss']; [reflexivity|].
    rewrite total_len_sumlen, Hsum, Hlen.
    specialize (Hlms ltac:(congruence)). specialize (Ha5 ltac:(congruence)). lia.
  - rewrite total_len_sumlen, Hsum, Hlen. lia.
  - unfold expand_parse. cbn [fst snd]. rewrite Hexp.
    rewrite rev_append_prefix by lia. replace (a + (n - a)) with n by lia. cbv zeta.
    assert (Hl : len (rev (sub get 0 n)) = n).
    { unfold len. rewrite rev_length. fold (len (sub get 0 n)). apply len_sub. lia. }
    rewrite Hl. destruct (n <? n) eqn:E; [lia|]. reflexivity.
Qed.

Lemma finish_fast_ok dstlen ss a last b : len last = n - a ->
  finish_fast n dstlen ss a last = COk b ->
  b = encode (ss, last) /\ 0 < len b <= dstlen.
Proof.
  intros Hlast. unfold finish_fast.
  destruct (ser_seqs dstlen 0 ss) as [di|] eqn:Eser; [|discriminate].
  apply ser_seqs_some in Eser.
  destruct ((dstlen <? lz4block_CompressBlockBound n) && (a =? 0)); [discriminate|].
  destruct (dstlen <=? di); [discriminate|].
  destruct (dstlen <? di + (1 + len (extl (n - a)))); [discriminate|].
  destruct ((dstlen <? lz4block_CompressBlockBound n) && (a <=? di + (1 + len (extl (n - a))))); [discriminate|].
  destruct (dstlen <? di + (1 + len (extl (n - a))) + (n - a)) eqn:E; [discriminate|].
  intros H. injection H as <-. split; [reflexivity|].
  rewrite len_encode, Hlast.
  pose proof (len_nonneg (flat_map enc_seq ss)). pose proof (len_nonneg (extl (n - a))).
  pose proof (len_nonneg last). lia.
Qed.

Theorem compress_fast_sound tb0 dstlen b :
  compress_fast get n T tget tput tb0 dstlen = COk b -> good_block (sub get 0 n) b dstlen.
Proof.
  unfold compress_fast.
  destruct (parse_fast get n T tget tput tb0) as [| |ss a] eqn:Ep; try discriminate.
  intros H. apply parse_fast_sound in Ep. destruct Ep as [Hok Ha5].
  pose proof (ok_a _ _ Hok) as Ha.
  apply finish_fast_ok in H; [|apply len_sub; lia].
  destruct H as [-> Hlen].
  destruct (ok_parse ss a Hok Ha5) as (Hwf & Hstrict & Htot & Hexp).
  exists (ss, sub get a (n - a)).
  rewrite (len_sub get 0 n Hn).
  split; [reflexivity|]. split; [exact Hwf|]. split; [exact Hstrict|].
  split; [exact Htot|]. split; [exact Hexp|]. exact Hlen.
Qed.

(* ---- a refusal only happens below the bound ---- *)
Lemma finish_fast_small dstlen ss a last : len last = n - a -> 0 <= n - a ->
  len (encode (ss, last)) <= lz4block_CompressBlockBound n ->
  finish_fast n dstlen ss a last = CZero \/ finish_fast n dstlen ss a last = CErr ->
  dstlen < lz4block_CompressBlockBound n.
Proof.
  intros Hlast Hna. rewrite len_encode, Hlast. unfold finish_fast.
  generalize (lz4block_CompressBlockBound n) as B. intros B HB.
  pose proof (len_nonneg (flat_map enc_seq ss)) as Hf0.
  pose proof (len_nonneg (extl (n - a))) as He0.
  destruct (ser_seqs dstlen 0 ss) as [di|] eqn:Eser.
  - apply ser_seqs_some in Eser.
    destruct (dstlen <? B) eqn:EB; [lia|]. cbn [andb].
    destruct (dstlen <=? di) eqn:E1; [lia|].
    destruct (dstlen <? di + (1 + len (extl (n - a)))) eqn:E2; [lia|].
    destruct (dstlen <? di + (1 + len (extl (n - a))) + (n - a)) eqn:E3; [lia|].
    intros [H|H]; discriminate.
  - apply ser_seqs_none in Eser. lia.
Qed.

Theorem compress_fast_small (Hbound : encode_bound_stmt) tb0 dstlen :
  compress_fast get n T tget tput tb0 dstlen = CZero \/
  compress_fast get n T tget tput tb0 dstlen = CErr ->
  dstlen < lz4block_CompressBlockBound n.
Proof.
  unfold compress_fast.
  destruct (parse_fast get n T tget tput tb0) as [| |ss a] eqn:Ep;
    [intros [H|H]; discriminate|intros [H|H]; discriminate|].
  apply parse_fast_sound in Ep. destruct Ep as [Hok Ha5].
  pose proof (ok_a _ _ Hok) as Ha.
  destruct (ok_parse ss a Hok Ha5) as (Hwf & _ & Htot & _).
  apply finish_fast_small; [apply len_sub; lia|lia|].
  specialize (Hbound _ Hwf). rewrite Htot in Hbound.
  unfold lz4block_CompressBlockBound. rewrite Z.quot_div_nonneg by lia. exact Hbound.
Qed.

End Sound.

(* ------------------------------------------------------------------------------------------ *)
(* termination: si strictly increases                                                         *)
(* ------------------------------------------------------------------------------------------ *)
Section NoHang.
Variable get : Z -> Z.
Variable n : Z.
Variable T : Type.
Variable tget : T -> Z -> Z -> Z.
Variable tput : T -> Z -> Z -> T.

Lemma fseq_send_ge f anchor p r : p + 4 <= snd (fseq get n f anchor p r).
Proof.
  unfold fseq. cbv zeta. cbn [snd]. change lz4block_minMatch with 4.
  destruct (fwd_spec get n (p - r) f (p + 4)) as (H & _). exact H.
Qed.

Lemma ploop_nohang : forall fuel si anchor tb acc, anchor <= si ->
  1 <= Z.of_nat fuel -> sn n - si + 1 <= Z.of_nat fuel ->
  ploop get n T tget tput fuel si anchor tb acc <> PHang.
Proof.
  induction fuel as [|f IH]; intros si anchor tb acc Has Hf1 Hf; [lia|].
  rewrite ploop_S.
  destruct (sn n <=? si) eqn:Esn; [discriminate|].
  destruct (pstep get T tget tput si anchor tb) as [|p r tb'|si' tb'] eqn:Est.
  - discriminate.
  - apply pstep_found in Est. destruct Est as (Hp & _).
    pose proof (fseq_send_ge f anchor p r) as Hs. cbv zeta.
    destruct (sn n <=? snd (fseq get n f anchor p r)) eqn:Esn2; [discriminate|].
    apply IH; lia.
  - apply pstep_skip in Est; [|lia]. apply IH; lia.
Qed.

Theorem compress_fast_nohang tb0 dstlen : 0 <= n ->
  compress_fast get n T tget tput tb0 dstlen <> CHang.
Proof.
  intros Hn. unfold compress_fast.
  destruct (parse_fast get n T tget tput tb0) as [| |ss a] eqn:Ep.
  - discriminate.
  - exfalso. unfold parse_fast in Ep. destruct (sn n <=? 0) eqn:E; [discriminate|].
    revert Ep. apply ploop_nohang; unfold sn, lz4block_mfLimit in *; lia.
  - unfold finish_fast.
    destruct (ser_seqs dstlen 0 ss); [|discriminate].
    repeat match goal with |- (if ?c then _ else _) <> _ => destruct c; try discriminate end.
Qed.

End NoHang.

(* ------------------------------------------------------------------------------------------ *)
(* two runs over related tables                                                               *)
(* ------------------------------------------------------------------------------------------ *)
Section Related.
Variable get : Z -> Z.
Variable n : Z.
Variable T : Type.
Variable tget : T -> Z -> Z -> Z.
Variable tput : T -> Z -> Z -> T.
Variable R : T -> T -> Prop.
Hypothesis Hget : forall t1 t2, R t1 t2 -> forall h s, tget t1 h s = tget t2 h s.
Hypothesis Hput : forall t1 t2 h s, R t1 t2 -> R (tput t1 h s) (tput t2 h s).

Definition step_rel (s1 s2 : step T) : Prop :=
  match s1, s2 with
  | SPanic _, SPanic _ => True
  | SFound _ p r a, SFound _ p' r' b => p = p' /\ r = r' /\ R a b
  | SSkip _ s a, SSkip _ s' b => s = s' /\ R a b
  | _, _ => False
  end.

Lemma pstep_rel si anchor t1 t2 : R t1 t2 ->
  step_rel (pstep get T tget tput si anchor t1) (pstep get T tget tput si anchor t2).
Proof.
  intros HR. unfold pstep. cbv zeta.
  set (m := load64 get si).
  set (h := lz4block_blockHash m).
  set (h2 := lz4block_blockHash (Z.shiftr m 8)).
  set (h3 := lz4block_blockHash (Z.shiftr m 16)).
  assert (HR2 : R (tput (tput t1 h si) h2 (si + 1)) (tput (tput t2 h si) h2 (si + 1)))
    by (apply Hput, Hput, HR).
  assert (HR3 : R (tput (tput (tput t1 h si) h2 (si + 1)) h3 (si + 2))
                  (tput (tput (tput t2 h si) h2 (si + 1)) h3 (si + 2)))
    by (apply Hput, HR2).
  pose proof (Hget _ _ HR) as G1. pose proof (Hget _ _ HR2) as G2.
  rewrite !G1, !G2.
  destruct (accept get si _ _) as [[|]|]; cbn [step_rel]; [auto| |exact I].
  destruct (accept get (si + 1) _ _) as [[|]|]; cbn [step_rel]; [auto| |exact I].
  destruct (accept get (si + 2) _ _) as [[|]|]; cbn [step_rel]; [auto|auto|exact I].
Qed.

Lemma ploop_rel : forall fuel si anchor t1 t2 acc, R t1 t2 ->
  ploop get n T tget tput fuel si anchor t1 acc = ploop get n T tget tput fuel si anchor t2 acc.
Proof.
  induction fuel as [|f IH]; intros si anchor t1 t2 acc HR; [reflexivity|].
  rewrite !ploop_S.
  destruct (sn n <=? si); [reflexivity|].
  pose proof (pstep_rel si anchor t1 t2 HR) as Hs.
  destruct (pstep get T tget tput si anchor t1) as [|p r a|s a];
    destruct (pstep get T tget tput si anchor t2) as [|p' r' b|s' b]; cbn [step_rel] in Hs;
    try contradiction.
  - reflexivity.
  - destruct Hs as (<- & <- & HR'). cbv zeta.
    destruct (sn n <=? snd (fseq get n f anchor p r)); [reflexivity|].
    apply IH. apply Hput, HR'.
  - destruct Hs as (<- & HR'). apply IH, HR'.
Qed.

End Related.

(* ------------------------------------------------------------------------------------------ *)
(* the concrete table                                                                          *)
(* ------------------------------------------------------------------------------------------ *)
Lemma pm_mem_add_find (k k' : positive) (v : Z) (u : PositiveMap.t unit) (m : PositiveMap.t Z) :
  (forall j, PositiveMap.mem j u = true -> PositiveMap.find j m <> None) ->
  PositiveMap.mem k' (PositiveMap.add k tt u) = true ->
  PositiveMap.find k' (PositiveMap.add k v m) <> None.
Proof.
  intros H Hm. destruct (Pos.eq_dec k' k) as [->|Hne].
  - rewrite PositiveMap.gss. discriminate.
  - rewrite PositiveMap.gso by exact Hne. apply H.
    rewrite PositiveMap.mem_find in *. rewrite PositiveMap.gso in Hm by exact Hne. exact Hm.
Qed.

(* same entries and bitmap, possibly different stale contents; every in-use slot has been written *)
Definition tb_rel (t1 t2 : ftable) : Prop :=
  vals t1 = vals t2 /\ used t1 = used t2 /\
  forall k, PositiveMap.mem k (used t1) = true -> PositiveMap.find k (vals t1) <> None.

Lemma ft_get_rel t1 t2 : tb_rel t1 t2 -> forall h s, ft_get t1 h s = ft_get t2 h s.
Proof.
  intros (Hv & Hu & Hinv) h s. unfold ft_get. cbv zeta. rewrite <- Hv, <- Hu.
  destruct (PositiveMap.mem (fkey h) (used t1)) eqn:Em; [|reflexivity].
  specialize (Hinv _ Em).
  destruct (PositiveMap.find (fkey h) (vals t1)) as [v|]; [reflexivity|congruence].
Qed.

Lemma ft_put_rel t1 t2 h s : tb_rel t1 t2 -> tb_rel (ft_put t1 h s) (ft_put t2 h s).
Proof.
  intros (Hv & Hu & Hinv). unfold ft_put, tb_rel. cbv zeta. cbn [vals used].
  rewrite Hv, Hu. split; [reflexivity|]. split; [reflexivity|].
  intros k Hk. rewrite <- Hv. rewrite <- Hu in Hk.
  eapply pm_mem_add_find; [exact Hinv|exact Hk].
Qed.

Lemma ft_reset_rel st1 st2 : tb_rel (ft_reset st1) (ft_reset st2).
Proof.
  unfold tb_rel, ft_reset. cbn [vals used]. split; [reflexivity|]. split; [reflexivity|].
  intros k Hk. rewrite PositiveMap.mem_find, PositiveMap.gempty in Hk. discriminate.
Qed.

Theorem fast_state_indep : fast_state_indep_stmt.
Proof.
  intros src st1 st2 dstlen. unfold compress_fast_list. cbv zeta.
  unfold compress_fast, parse_fast.
  destruct (sn (len src) <=? 0); [reflexivity|].
  rewrite (ploop_rel _ _ ftable ft_get ft_put tb_rel ft_get_rel
             (fun t1 t2 h s H => ft_put_rel t1 t2 h s H) _ _ _
             (ft_reset st1) (ft_reset st2) _ (ft_reset_rel st1 st2)).
  reflexivity.
Qed.

(* ---- memory safety of src[ref:] : every entry in use is an earlier position mod 65536 ---- *)
Definition tb_inv (lim : Z) (tb : ftable) : Prop :=
  (forall k, PositiveMap.mem k (used tb) = true -> PositiveMap.find k (vals tb) <> None) /\
  forall k v, PositiveMap.find k (vals tb) = Some v -> exists p, 0 <= p < lim /\ v = p mod 65536.

Lemma tb_inv_mono lim lim' tb : lim <= lim' -> tb_inv lim tb -> tb_inv lim' tb.
Proof.
  intros Hl (H1 & H2). split; [exact H1|].
  intros k v Hk. destruct (H2 k v Hk) as (p & Hp & Hv). exists p. split; [lia|exact Hv].
Qed.

Lemma ft_put_inv lim lim' tb h s : lim <= lim' -> 0 <= s < lim' -> tb_inv lim tb ->
  tb_inv lim' (ft_put tb h s).
Proof.
  intros Hl Hs (H1 & H2). unfold ft_put, tb_inv. cbv zeta. cbn [vals used]. split.
  - intros k Hk. eapply pm_mem_add_find; [exact H1|exact Hk].
  - intros k v Hk. destruct (Pos.eq_dec k (fkey h)) as [->|Hne].
    + rewrite PositiveMap.gss in Hk. injection Hk as <-. exists s. split; [lia|reflexivity].
    + rewrite PositiveMap.gso in Hk by exact Hne.
      destruct (H2 k v Hk) as (p & Hp & Hv). exists p. split; [lia|exact Hv].
Qed.

Lemma ft_reset_inv st : tb_inv 0 (ft_reset st).
Proof.
  unfold tb_inv, ft_reset. cbn [vals used]. split.
  - intros k Hk. rewrite PositiveMap.mem_find, PositiveMap.gempty in Hk. discriminate.
  - intros k v Hk. rewrite PositiveMap.gempty in Hk. discriminate.
Qed.

Lemma ldiff_winMask q : Z.ldiff q lz4block_winMask = q / 65536 * 65536.
Proof.
  change lz4block_winMask with (Z.ones 16). rewrite Z.ldiff_ones_r by lia.
  rewrite Z.shiftl_mul_pow2, Z.shiftr_div_pow2 by lia. reflexivity.
Qed.

(* a reference taken from the table is never negative when its offset is inside the window *)
Lemma ft_get_safe lim tb h q : tb_inv lim tb -> 0 <= q -> lim <= q ->
  ~ (0 < q - ft_get tb h q < 65536 /\ ft_get tb h q < 0).
Proof.
  intros (H1 & H2) Hq Hl. unfold ft_get. cbv zeta. rewrite ldiff_winMask.
  change lz4block_winSize with 65536.
  set (i0 := if PositiveMap.mem (fkey h) (used tb)
             then match PositiveMap.find (fkey h) (vals tb) with
                  | Some v => v
                  | None => stale tb (Z.land h (lz4block_htSize - 1)) mod 65536
                  end
             else 0).
  assert (Hi0 : i0 = 0 \/ exists p, 0 <= p < q /\ i0 = p mod 65536).
  { subst i0. destruct (PositiveMap.mem (fkey h) (used tb)) eqn:Em; [|left; reflexivity].
    specialize (H1 _ Em).
    destruct (PositiveMap.find (fkey h) (vals tb)) as [v|] eqn:Ef; [|congruence].
    right. destruct (H2 _ _ Ef) as (p & Hp & Hv). exists p. split; [lia|exact Hv]. }
  clearbody i0.
  destruct Hi0 as [->|(p & Hp & ->)].
  - destruct (q <=? 0 + q / 65536 * 65536) eqn:E; dlia.
  - destruct (q <=? p mod 65536 + q / 65536 * 65536) eqn:E; dlia.
Qed.

Section NoPanic.
Variable get : Z -> Z.
Variable n : Z.

Lemma pstep_nopanic si anchor tb : 0 <= si -> tb_inv si tb ->
  match pstep get ftable ft_get ft_put si anchor tb with
  | SPanic _ => False
  | SFound _ p r tb' => tb_inv (si + 3) tb'
  | SSkip _ si' tb' => tb_inv (si + 3) tb'
  end.
Proof.
  intros Hs Hinv. unfold pstep. cbv zeta.
  set (m := load64 get si).
  set (h := lz4block_blockHash m).
  set (h2 := lz4block_blockHash (Z.shiftr m 8)).
  set (h3 := lz4block_blockHash (Z.shiftr m 16)).
  assert (Hinv2 : tb_inv (si + 2) (ft_put (ft_put tb h si) h2 (si + 1))).
  { apply (ft_put_inv (si + 1)); [lia|lia|]. apply (ft_put_inv si); [lia|lia|exact Hinv]. }
  assert (Hinv3 : tb_inv (si + 3) (ft_put (ft_put (ft_put tb h si) h2 (si + 1)) h3 (si + 2))).
  { apply (ft_put_inv (si + 2)); [lia|lia|exact Hinv2]. }
  destruct (accept get si _ _) as [[|]|] eqn:E1.
  - apply (tb_inv_mono (si + 2)); [lia|exact Hinv2].
  - destruct (accept get (si + 1) _ _) as [[|]|] eqn:E2.
    + apply (tb_inv_mono (si + 2)); [lia|exact Hinv2].
    + destruct (accept get (si + 2) _ _) as [[|]|] eqn:E3.
      * exact Hinv3.
      * exact Hinv3.
      * apply accept_none in E3. revert E3. apply (ft_get_safe (si + 2)); [exact Hinv2|lia|lia].
    + apply accept_none in E2. revert E2. apply (ft_get_safe si); [exact Hinv|lia|lia].
  - apply accept_none in E1. revert E1. apply (ft_get_safe si); [exact Hinv|lia|lia].
Qed.

Lemma ploop_nopanic : forall fuel si anchor tb acc, 0 <= si -> anchor <= si -> tb_inv si tb ->
  ploop get n ftable ft_get ft_put fuel si anchor tb acc <> PPanic.
Proof.
  induction fuel as [|f IH]; intros si anchor tb acc Hs Ha Hinv; [discriminate|].
  rewrite ploop_S.
  destruct (sn n <=? si); [discriminate|].
  pose proof (pstep_nopanic si anchor tb Hs Hinv) as Hst.
  destruct (pstep get ftable ft_get ft_put si anchor tb) as [|p r tb'|si' tb'] eqn:Est.
  - contradiction.
  - apply pstep_found in Est. destruct Est as (Hp & _).
    pose proof (fseq_send_ge get n f anchor p r) as Hsend. cbv zeta.
    destruct (sn n <=? snd (fseq get n f anchor p r)); [discriminate|].
    apply IH; [lia|lia|]. apply (ft_put_inv (si + 3)); [lia|lia|exact Hst].
  - apply pstep_skip in Est; [|lia].
    apply IH; [lia|lia|]. apply (tb_inv_mono (si + 3)); [lia|exact Hst].
Qed.

End NoPanic.

Theorem fast_nopanic : fast_nopanic_stmt.
Proof.
  intros src st dstlen _. unfold compress_fast_list. cbv zeta. unfold compress_fast.
  match goal with |- match ?p with _ => _ end <> _ => destruct p as [| |ss a] eqn:Ep end.
  - exfalso. unfold parse_fast in Ep. destruct (sn (len src) <=? 0); [discriminate|].
    revert Ep. apply ploop_nopanic; [lia|lia|apply ft_reset_inv].
  - discriminate.
  - unfold finish_fast.
    destruct (ser_seqs dstlen 0 ss); [|discriminate].
    repeat match goal with |- (if ?c then _ else _) <> _ => destruct c; try discriminate end.
Qed.

(* ------------------------------------------------------------------------------------------ *)
(* the statements of CompressSpec.v, any table                                                *)
(* ------------------------------------------------------------------------------------------ *)
Section WithBound.
Hypothesis encode_bound : encode_bound_stmt.

Theorem fast_sound : fast_sound_stmt.
Proof.
  intros get n T tget tput tb0 dstlen b Hn Hb H.
  exact (compress_fast_sound get n Hn Hb T tget tput tb0 dstlen b H).
Qed.

Theorem fast_small_only : fast_small_only_stmt.
Proof.
  intros get n T tget tput tb0 dstlen Hn Hb H.
  exact (compress_fast_small get n Hn Hb T tget tput encode_bound tb0 dstlen H).
Qed.

Theorem fast_nohang : fast_nohang_stmt.
Proof.
  intros get n T tget tput tb0 dstlen Hn.
  exact (compress_fast_nohang get n T tget tput tb0 dstlen Hn).
Qed.

End WithBound.
