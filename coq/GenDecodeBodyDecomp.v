(* GenDecodeBodyDecomp.v — names for the pieces of the generated body of lz4block_decodeBlock
   (GenDecodeBody.v).  Produced by /tmp/agPD/gen_decomp.py by cutting the text of GenDecodeBody.v at
   fixed line numbers; nothing here is trusted: decodeBlock_decomp (by reflexivity) checks that the
   pieces reassemble to the generated function, so a change of the generated file that moves the
   cuts makes this file fail to compile.
     p_tok k      token byte, si++, lLen                       (continuation-passing)
     p_lits       the literal part: shortcut 1 (p_sc, with shortcut 2 = p_sc2 / p_sc2b inside),
                  length-extension loop (p_litloop), bounds-checked copy (p_litcopy)
     p_match      from `mLen := b & 0xF` to the end of the loop body: m_A (end-of-block tests, offset),
                  m_loop (match-length extension), m_dict (dictionary part), m_exp (expanded := ...),
                  m_dbl (doubling copy: m_dbl_body / m_dbl_post), m_fin (final copy)
     p_body, p_main (the loop), p_inner (what recover_with protects), p_all *)
From Coq Require Import ZArith List Lia Bool Arith.
From LZ4V Require Import GoT GenDecodeBody.
Import ListNotations.
Open Scope Z_scope.
Open Scope got_scope.

Definition p_tok (k : stmt) : stmt :=
      guard (fun s => sl_idx_ok (decodeBlock_src s) (decodeBlock_si s)) (
      upd (fun s => (set_decodeBlock_b (sget (decodeBlock_src s) (decodeBlock_si s) s) s))) ;;
      (* decode_other.go:31: si++ *)
      upd (fun s => (set_decodeBlock_si (wu64 ((decodeBlock_si s) + 1)) s)) ;;
      (* decode_other.go:34: if lLen := b >> 4; lLen > 0 { *)
      upd (fun s => (set_decodeBlock_lLen (Z.shiftr (decodeBlock_b s) 4) s)) ;;
 k.

Definition p_sc2b : stmt :=
                  guard (fun s => (sl_slice_ok (decodeBlock_dst s) (decodeBlock_di s) (s_len (decodeBlock_dst s)) (s_cap (decodeBlock_dst s)) && sl_slice_ok (decodeBlock_dst s) (decodeBlock_i s) (decodeBlock_end s) (s_cap (decodeBlock_dst s)))) (
                  upd (fun s => (scopy (sl_slice (decodeBlock_dst s) (decodeBlock_di s) (s_len (decodeBlock_dst s)) (s_cap (decodeBlock_dst s))) (sl_slice (decodeBlock_dst s) (decodeBlock_i s) (decodeBlock_end s) (s_cap (decodeBlock_dst s))) s))) ;;
                  (* decode_other.go:55: si += 2 *)
                  upd (fun s => (set_decodeBlock_si (wu64 ((decodeBlock_si s) + 2)) s)) ;;
                  (* decode_other.go:56: di += mLen *)
                  upd (fun s => (set_decodeBlock_di (wu64 ((decodeBlock_di s) + (decodeBlock_mLen s))) s)) ;;
                  (* decode_other.go:57: continue *)
                  cont.

Definition p_sc2 (fuel : nat) : stmt :=
              upd (fun s => (set_decodeBlock_mLen (wu64 ((decodeBlock_mLen s) + 4)) s)) ;;
              (* decode_other.go:49: if offset := u16(src[si:]); mLen <= offset && offset < di { *)
              guard (fun s => sl_slice_ok (decodeBlock_src s) (decodeBlock_si s) (s_len (decodeBlock_src s)) (s_cap (decodeBlock_src s))) (
              upd (fun s => set_u16_p (sl_slice (decodeBlock_src s) (decodeBlock_si s) (s_len (decodeBlock_src s)) (s_cap (decodeBlock_src s))) s)) ;;
              call (lz4block_u16 fuel) ;;
              upd (fun s => (set_decodeBlock_offset (u16_ret0 s) s)) ;;
 ite (fun s => (((decodeBlock_mLen s) <=? (decodeBlock_offset s)) && ((decodeBlock_offset s) <? (decodeBlock_di s)))) (
                 upd (fun s => (set_decodeBlock_i (wu64 ((decodeBlock_di s) - (decodeBlock_offset s))) s)) ;;
                (* decode_other.go:53: if end := i + 18; end <= uint(len(dst)) && di+mLen <= uint(len(dst)) { *)
                upd (fun s => (set_decodeBlock_end (wu64 ((decodeBlock_i s) + 18)) s)) ;;
 ite (fun s => (((decodeBlock_end s) <=? (wu64 (s_len (decodeBlock_dst s)))) && ((wu64 ((decodeBlock_di s) + (decodeBlock_mLen s))) <=? (wu64 (s_len (decodeBlock_dst s)))))) p_sc2b skip) skip.

Definition p_sc (fuel : nat) : stmt :=
            guard (fun s => (sl_slice_ok (decodeBlock_dst s) (decodeBlock_di s) (s_len (decodeBlock_dst s)) (s_cap (decodeBlock_dst s)) && sl_slice_ok (decodeBlock_src s) (decodeBlock_si s) (wu64 ((decodeBlock_si s) + 16)) (s_cap (decodeBlock_src s)))) (
            upd (fun s => (scopy (sl_slice (decodeBlock_dst s) (decodeBlock_di s) (s_len (decodeBlock_dst s)) (s_cap (decodeBlock_dst s))) (sl_slice (decodeBlock_src s) (decodeBlock_si s) (wu64 ((decodeBlock_si s) + 16)) (s_cap (decodeBlock_src s))) s))) ;;
            (* decode_other.go:42: si += lLen *)
            upd (fun s => (set_decodeBlock_si (wu64 ((decodeBlock_si s) + (decodeBlock_lLen s))) s)) ;;
            (* decode_other.go:43: di += lLen *)
            upd (fun s => (set_decodeBlock_di (wu64 ((decodeBlock_di s) + (decodeBlock_lLen s))) s)) ;;
            (* decode_other.go:44: if mLen := b & 0xF; mLen < 0xF { *)
            upd (fun s => (set_decodeBlock_mLen (Z.land (decodeBlock_b s) 15) s)) ;;
 ite (fun s => ((decodeBlock_mLen s) <? 15)) (p_sc2 fuel) skip.

Definition p_litloop_body : stmt :=
                guard (fun s => sl_idx_ok (decodeBlock_src s) (decodeBlock_si s)) (
                upd (fun s => (set_decodeBlock_x (sget (decodeBlock_src s) (decodeBlock_si s) s) s))) ;;
                (* decode_other.go:64: if lLen += x; int(lLen) < 0 { *)
                upd (fun s => (set_decodeBlock_lLen (wu64 ((decodeBlock_lLen s) + (decodeBlock_x s))) s)) ;;
                ite (fun s => ((wi64 (decodeBlock_lLen s)) <? 0)) (
                  (* decode_other.go:65: return hasError *)
                  ret_with (fun s => set_decodeBlock_ret (-2) s)) skip ;;
                (* decode_other.go:67: si++ *)
                upd (fun s => (set_decodeBlock_si (wu64 ((decodeBlock_si s) + 1)) s)) ;;
                (* decode_other.go:68: if x != 0xFF { *)
                ite (fun s => (negb ((decodeBlock_x s) =? 255))) (
                  (* decode_other.go:69: break *)
                  brk) skip.

Definition p_litloop (fuel : nat) : stmt :=
loop fuel (fun _ => true) p_litloop_body skip.

Definition p_litcopy : stmt :=
              guard (fun s => (sl_slice_ok (decodeBlock_dst s) (decodeBlock_di s) (wu64 ((decodeBlock_di s) + (decodeBlock_lLen s))) (s_cap (decodeBlock_dst s)) && sl_slice_ok (decodeBlock_src s) (decodeBlock_si s) (wu64 ((decodeBlock_si s) + (decodeBlock_lLen s))) (s_cap (decodeBlock_src s)))) (
              upd (fun s => (scopy (sl_slice (decodeBlock_dst s) (decodeBlock_di s) (wu64 ((decodeBlock_di s) + (decodeBlock_lLen s))) (s_cap (decodeBlock_dst s))) (sl_slice (decodeBlock_src s) (decodeBlock_si s) (wu64 ((decodeBlock_si s) + (decodeBlock_lLen s))) (s_cap (decodeBlock_src s))) s))) ;;
              (* decode_other.go:75: si += lLen *)
              upd (fun s => (set_decodeBlock_si (wu64 ((decodeBlock_si s) + (decodeBlock_lLen s))) s)) ;;
              (* decode_other.go:76: di += lLen *)
              upd (fun s => (set_decodeBlock_di (wu64 ((decodeBlock_di s) + (decodeBlock_lLen s))) s)).

Definition p_lits (fuel : nat) : stmt :=
ite (fun s => (0 <? (decodeBlock_lLen s))) (catch_brk (ite (fun s => (((decodeBlock_lLen s) <? 15) && ((wu64 ((decodeBlock_si s) + 16)) <? (wu64 (s_len (decodeBlock_src s)))))) (p_sc fuel) (ite (fun s => ((decodeBlock_lLen s) =? 15)) (p_litloop fuel ;; p_litcopy) p_litcopy))) skip.

Definition m_A (fuel : nat) (k : stmt) : stmt :=
      upd (fun s => (set_decodeBlock_mLen_1 (Z.land (decodeBlock_b s) 15) s)) ;;
      (* decode_other.go:81: if si == uint(len(src)) && mLen == 0 { *)
      ite (fun s => (((decodeBlock_si s) =? (wu64 (s_len (decodeBlock_src s)))) && ((decodeBlock_mLen_1 s) =? 0))) (
        (* decode_other.go:82: break *)
        brk) (
        (* decode_other.go:83: } else if si >= uint(len(src)) { *)
        ite (fun s => ((wu64 (s_len (decodeBlock_src s))) <=? (decodeBlock_si s))) (
          (* decode_other.go:84: return hasError *)
          ret_with (fun s => set_decodeBlock_ret (-2) s)) skip) ;;
      (* decode_other.go:87: offset := u16(src[si:]) *)
      guard (fun s => sl_slice_ok (decodeBlock_src s) (decodeBlock_si s) (s_len (decodeBlock_src s)) (s_cap (decodeBlock_src s))) (
      upd (fun s => set_u16_p (sl_slice (decodeBlock_src s) (decodeBlock_si s) (s_len (decodeBlock_src s)) (s_cap (decodeBlock_src s))) s)) ;;
      call (lz4block_u16 fuel) ;;
      upd (fun s => (set_decodeBlock_offset_1 (u16_ret0 s) s)) ;;
      (* decode_other.go:88: if offset == 0 { *)
      ite (fun s => ((decodeBlock_offset_1 s) =? 0)) (
        (* decode_other.go:89: return hasError *)
        ret_with (fun s => set_decodeBlock_ret (-2) s)) skip ;;
      (* decode_other.go:91: si += 2 *)
      upd (fun s => (set_decodeBlock_si (wu64 ((decodeBlock_si s) + 2)) s)) ;;
      (* decode_other.go:94: mLen += minMatch *)
      upd (fun s => (set_decodeBlock_mLen_1 (wu64 ((decodeBlock_mLen_1 s) + 4)) s)) ;;
 k.

Definition m_loop_body : stmt :=
          guard (fun s => sl_idx_ok (decodeBlock_src s) (decodeBlock_si s)) (
          upd (fun s => (set_decodeBlock_x_1 (sget (decodeBlock_src s) (decodeBlock_si s) s) s))) ;;
          (* decode_other.go:98: if mLen += x; int(mLen) < 0 { *)
          upd (fun s => (set_decodeBlock_mLen_1 (wu64 ((decodeBlock_mLen_1 s) + (decodeBlock_x_1 s))) s)) ;;
          ite (fun s => ((wi64 (decodeBlock_mLen_1 s)) <? 0)) (
            (* decode_other.go:99: return hasError *)
            ret_with (fun s => set_decodeBlock_ret (-2) s)) skip ;;
          (* decode_other.go:101: si++ *)
          upd (fun s => (set_decodeBlock_si (wu64 ((decodeBlock_si s) + 1)) s)) ;;
          (* decode_other.go:102: if x != 0xFF { *)
          ite (fun s => (negb ((decodeBlock_x_1 s) =? 255))) (
            (* decode_other.go:103: break *)
            brk) skip.

Definition m_loop (fuel : nat) : stmt :=
ite (fun s => ((decodeBlock_mLen_1 s) =? 19)) (loop fuel (fun _ => true) m_loop_body skip) skip.

Definition m_dict : stmt :=
      ite (fun s => ((decodeBlock_di s) <? (decodeBlock_offset_1 s))) (
        (* decode_other.go:112: fromDict := dict[uint(len(dict))+di-offset:] *)
        guard (fun s => sl_slice_ok (decodeBlock_dict s) (wu64 ((wu64 ((wu64 (s_len (decodeBlock_dict s))) + (decodeBlock_di s))) - (decodeBlock_offset_1 s))) (s_len (decodeBlock_dict s)) (s_cap (decodeBlock_dict s))) (
        upd (fun s => (set_decodeBlock_fromDict (sl_slice (decodeBlock_dict s) (wu64 ((wu64 ((wu64 (s_len (decodeBlock_dict s))) + (decodeBlock_di s))) - (decodeBlock_offset_1 s))) (s_len (decodeBlock_dict s)) (s_cap (decodeBlock_dict s))) s))) ;;
        (* decode_other.go:113: n := uint(copy(dst[di:di+mLen], fromDict)) *)
        guard (fun s => sl_slice_ok (decodeBlock_dst s) (decodeBlock_di s) (wu64 ((decodeBlock_di s) + (decodeBlock_mLen_1 s))) (s_cap (decodeBlock_dst s))) (
        upd (fun s => (set_decodeBlock_n (wu64 (sl_copy_n (sl_slice (decodeBlock_dst s) (decodeBlock_di s) (wu64 ((decodeBlock_di s) + (decodeBlock_mLen_1 s))) (s_cap (decodeBlock_dst s))) (decodeBlock_fromDict s))) (scopy (sl_slice (decodeBlock_dst s) (decodeBlock_di s) (wu64 ((decodeBlock_di s) + (decodeBlock_mLen_1 s))) (s_cap (decodeBlock_dst s))) (decodeBlock_fromDict s) s)))) ;;
        (* decode_other.go:114: di += n *)
        upd (fun s => (set_decodeBlock_di (wu64 ((decodeBlock_di s) + (decodeBlock_n s))) s)) ;;
        (* decode_other.go:115: if mLen -= n; mLen == 0 { *)
        upd (fun s => (set_decodeBlock_mLen_1 (wu64 ((decodeBlock_mLen_1 s) - (decodeBlock_n s))) s)) ;;
        ite (fun s => ((decodeBlock_mLen_1 s) =? 0)) (
          (* decode_other.go:116: continue *)
          cont) skip) skip.

Definition m_exp (k : stmt) : stmt :=
      guard (fun s => sl_slice_ok (decodeBlock_dst s) (wu64 ((decodeBlock_di s) - (decodeBlock_offset_1 s))) (s_len (decodeBlock_dst s)) (s_cap (decodeBlock_dst s))) (
      upd (fun s => (set_decodeBlock_expanded (sl_slice (decodeBlock_dst s) (wu64 ((decodeBlock_di s) - (decodeBlock_offset_1 s))) (s_len (decodeBlock_dst s)) (s_cap (decodeBlock_dst s))) s))) ;;
 k.

Definition m_dbl_body : stmt :=
          guard (fun s => (sl_slice_ok (decodeBlock_expanded s) (decodeBlock_n_1 s) (s_len (decodeBlock_expanded s)) (s_cap (decodeBlock_expanded s)) && sl_slice_ok (decodeBlock_expanded s) 0 (decodeBlock_n_1 s) (s_cap (decodeBlock_expanded s)))) (
          upd (fun s => (scopy (sl_slice (decodeBlock_expanded s) (decodeBlock_n_1 s) (s_len (decodeBlock_expanded s)) (s_cap (decodeBlock_expanded s))) (sl_slice (decodeBlock_expanded s) 0 (decodeBlock_n_1 s) (s_cap (decodeBlock_expanded s))) s))).

Definition m_dbl_post : stmt :=
          upd (fun s => (set_decodeBlock_n_1 (wu64 ((decodeBlock_n_1 s) * 2)) s)).

Definition m_dbl (fuel : nat) : stmt :=
ite (fun s => ((decodeBlock_offset_1 s) <? (decodeBlock_mLen_1 s))) (
        guard (fun s => negb ((decodeBlock_offset_1 s) =? 0)) (
        upd (fun s => (set_decodeBlock_bytesToCopy (wu64 ((decodeBlock_offset_1 s) * (Z.div (decodeBlock_mLen_1 s) (decodeBlock_offset_1 s)))) s))) ;;
        (* decode_other.go:127: for n := offset; n <= bytesToCopy+offset; n *= 2 { *)
        upd (fun s => (set_decodeBlock_n_1 (decodeBlock_offset_1 s) s)) ;;
 loop fuel (fun s => ((decodeBlock_n_1 s) <=? (wu64 ((decodeBlock_bytesToCopy s) + (decodeBlock_offset_1 s))))) m_dbl_body m_dbl_post ;;
        upd (fun s => (set_decodeBlock_di (wu64 ((decodeBlock_di s) + (decodeBlock_bytesToCopy s))) s)) ;;
        (* decode_other.go:131: mLen -= bytesToCopy *)
        upd (fun s => (set_decodeBlock_mLen_1 (wu64 ((decodeBlock_mLen_1 s) - (decodeBlock_bytesToCopy s))) s))) skip.

Definition m_fin : stmt :=
      guard (fun s => (sl_slice_ok (decodeBlock_dst s) (decodeBlock_di s) (wu64 ((decodeBlock_di s) + (decodeBlock_mLen_1 s))) (s_cap (decodeBlock_dst s)) && sl_slice_ok (decodeBlock_expanded s) 0 (decodeBlock_mLen_1 s) (s_cap (decodeBlock_expanded s)))) (
      upd (fun s => (set_decodeBlock_di (wu64 ((decodeBlock_di s) + (wu64 (sl_copy_n (sl_slice (decodeBlock_dst s) (decodeBlock_di s) (wu64 ((decodeBlock_di s) + (decodeBlock_mLen_1 s))) (s_cap (decodeBlock_dst s))) (sl_slice (decodeBlock_expanded s) 0 (decodeBlock_mLen_1 s) (s_cap (decodeBlock_expanded s))))))) (scopy (sl_slice (decodeBlock_dst s) (decodeBlock_di s) (wu64 ((decodeBlock_di s) + (decodeBlock_mLen_1 s))) (s_cap (decodeBlock_dst s))) (sl_slice (decodeBlock_expanded s) 0 (decodeBlock_mLen_1 s) (s_cap (decodeBlock_expanded s))) s)))).

Definition p_match (fuel : nat) : stmt :=
m_A fuel (m_loop fuel ;; m_dict ;; m_exp (m_dbl fuel ;; m_fin)).

Definition p_body (fuel : nat) : stmt :=
p_tok (p_lits fuel ;; p_match fuel).

Definition p_main (fuel : nat) : stmt :=
loop fuel (fun s => ((decodeBlock_si s) <? (wu64 (s_len (decodeBlock_src s))))) (p_body fuel) skip.

Definition p_inner (fuel : nat) : stmt :=
    upd (fun s => (set_decodeBlock_di 0 (set_decodeBlock_si 0 s))) ;;
 p_main fuel ;;
    ret_with (fun s => set_decodeBlock_ret (wi64 (decodeBlock_di s)) s).

Definition p_all (fuel : nat) : stmt :=
  guard (fun s => sl_slice_ok (decodeBlock_dst s) 0 (s_len (decodeBlock_dst s)) (s_len (decodeBlock_dst s))) (
  upd (fun s => (set_decodeBlock_dst (sl_slice (decodeBlock_dst s) 0 (s_len (decodeBlock_dst s)) (s_len (decodeBlock_dst s))) s))) ;;
  (* decode_other.go:13: src = src[:len(src):len(src)] *)
  guard (fun s => sl_slice_ok (decodeBlock_src s) 0 (s_len (decodeBlock_src s)) (s_len (decodeBlock_src s))) (
  upd (fun s => (set_decodeBlock_src (sl_slice (decodeBlock_src s) 0 (s_len (decodeBlock_src s)) (s_len (decodeBlock_src s))) s))) ;;
  (* decode_other.go:17: if len(src) == 0 { *)
  ite (fun s => ((s_len (decodeBlock_src s)) =? 0)) (
    (* decode_other.go:18: return hasError *)
    ret_with (fun s => set_decodeBlock_ret (-2) s)) skip ;;
 recover_with (fun s => set_decodeBlock_ret (-2) s) (p_inner fuel).

Lemma decodeBlock_decomp fuel : lz4block_decodeBlock fuel = p_all fuel.
Proof. reflexivity. Qed.
