(* PipeRProofs.v — proofs of the statements of PipeRSpec.v about the Reader pipeline LTS.

   All seven statements of PipeRSpec.v are proved as stated (pr_checker against the trace checker of
   PipeR.v with `before_if` for deliver/take-next and the `happened` guard on the sentinel
   conjuncts).  Method: an inductive invariant `Inv s c n` over reachable states with two ghosts
   (c = number of job channels the collector is through with, n = number of blocks the reading
   goroutine enqueued before it went for the sentinel), `step_inv`; each theorem is derived from
   the invariant; `measure` for termination; the history predicate `Q` (the set of recorded events
   is a function `hap` of the state) for the trace checker.

   The two earlier forms of the checker were false; the runs are kept here as
   `unguarded_sentinel_conjunct_false` and `strict_deliver_take_conjunct_false`.
   `pr_checker_deliver` records the sharper facts: a block at or after the first undecodable one
   is never delivered, and below it the strict order deliver j < take (j+1) holds. *)
From LZ4V Require Import Base PipeR PipeRSpec.
Local Open Scope nat_scope.

(* ------------------------------------------------------------------ *)
(* generic helpers                                                     *)
(* ------------------------------------------------------------------ *)
Lemma upd_length {A} (l : list A) i x : length (upd l i x) = length l.
Proof.
  revert i; induction l as [|h t IH]; intros [|i]; cbn [upd length]; auto.
Qed.
Lemma nth_upd_same {A} (l : list A) i x d : i < length l -> nth i (upd l i x) d = x.
Proof.
  revert i; induction l as [|h t IH]; intros [|i] Hi; cbn [upd nth length] in *; try lia; auto.
  apply IH; lia.
Qed.
Lemma nth_upd_other {A} (l : list A) i j x d : j <> i -> nth j (upd l i x) d = nth j l d.
Proof.
  revert i j; induction l as [|h t IH]; intros [|i] [|j] Hne; cbn [upd nth]; auto; try lia.
Qed.
Lemma upd_overflow {A} (l : list A) i x : length l <= i -> upd l i x = l.
Proof.
  revert i; induction l as [|h t IH]; intros [|i] Hi; cbn [upd length] in *; auto; try lia.
  f_equal; apply IH; lia.
Qed.
Lemma nth_repeat' {A} (x : A) n j : nth j (repeat x n) x = x.
Proof. revert j; induction n as [|n IH]; intros [|j]; cbn; auto. Qed.

Lemma seq_snoc' a b : a <= b -> seq a (S b - a) = seq a (b - a) ++ [b].
Proof.
  intros H. replace (S b - a) with (S (b - a)) by lia. rewrite seq_S. do 2 f_equal. lia.
Qed.

Lemma cid_eqb_eq a b : cid_eqb a b = true <-> a = b.
Proof.
  destruct a as [i|], b as [j|]; cbn; try (split; congruence).
  rewrite Nat.eqb_eq. split; congruence.
Qed.
Lemma ev_eqb_eq a b : ev_eqb a b = true <-> a = b.
Proof.
  destruct a, b; cbn; try (split; congruence); rewrite cid_eqb_eq; split; congruence.
Qed.
Lemma existsb_ev_In e l : existsb (ev_eqb e) l = true <-> In e l.
Proof.
  rewrite existsb_exists. split.
  - intros [x [Hx He]]. apply ev_eqb_eq in He. subst; auto.
  - intros H. exists e. split; auto. apply ev_eqb_eq; auto.
Qed.

Lemma index_of_app f l r i :
  index_of f (l ++ r) i = match index_of f l i with Some k => Some k | None => index_of f r (i + length l) end.
Proof.
  revert i; induction l as [|x l IH]; intros i; cbn [app index_of length].
  - f_equal; lia.
  - destruct (f x); auto. rewrite IH. replace (S i + length l) with (i + S (length l)) by lia. auto.
Qed.
Lemma index_of_bound f l i k : index_of f l i = Some k -> i <= k < i + length l.
Proof.
  revert i; induction l as [|x l IH]; intros i; cbn [index_of length]; try discriminate.
  destruct (f x).
  - intros H; inversion H; lia.
  - intros H; apply IH in H; lia.
Qed.
Lemma index_of_none_In a l i : index_of (ev_eqb a) l i = None -> ~ In a l.
Proof.
  revert i; induction l as [|x l IH]; intros i; cbn [index_of]; auto.
  destruct (ev_eqb a x) eqn:E; try discriminate.
  intros H [Hx|Hx]; [subst; rewrite (proj2 (ev_eqb_eq a a) eq_refl) in E; discriminate|].
  eapply IH; eauto.
Qed.
Lemma index_of_In_some a l i : In a l -> exists k, index_of (ev_eqb a) l i = Some k.
Proof.
  revert i; induction l as [|x l IH]; intros i; cbn [index_of In]; [contradiction|].
  intros [Hx|Hx].
  - subst. rewrite (proj2 (ev_eqb_eq a a) eq_refl). eauto.
  - destruct (ev_eqb a x); eauto.
Qed.

Lemma before_snoc l a b e :
  before l a b = true -> (b = e -> In a l) -> before (l ++ [e]) a b = true.
Proof.
  unfold before, pos. intros Hb Hin. rewrite !index_of_app. cbn [index_of].
  destruct (index_of (ev_eqb a) l 0) as [i|] eqn:Ea.
  - destruct (index_of (ev_eqb b) l 0) as [k|] eqn:Eb; auto.
    destruct (ev_eqb b e); auto.
    apply index_of_bound in Ea. apply Nat.ltb_lt. lia.
  - destruct (index_of (ev_eqb b) l 0) as [k|] eqn:Eb; try discriminate.
    destruct (ev_eqb b e) eqn:E.
    + apply ev_eqb_eq in E. apply Hin in E. apply index_of_none_In in Ea. contradiction.
    + destruct (ev_eqb a e); auto.
Qed.
Lemma before_nil a b : before [] a b = true.
Proof. reflexivity. Qed.
Lemma before_notin l a b : ~ In b l -> before l a b = true.
Proof.
  intros Hb. unfold before, pos.
  destruct (index_of (ev_eqb b) l 0) as [k|] eqn:Eb.
  - exfalso. apply Hb. clear Hb. revert Eb. generalize 0.
    induction l as [|x l IH]; intros i; cbn [index_of]; try discriminate.
    destruct (ev_eqb b x) eqn:E.
    + apply ev_eqb_eq in E. subst. left; auto.
    + intros H. right. eapply IH; eauto.
  - destruct (index_of (ev_eqb a) l 0); auto.
Qed.

Lemma NoDup_b_snoc l e : NoDup_b l = true -> ~ In e l -> NoDup_b (l ++ [e]) = true.
Proof.
  induction l as [|x l IH]; intros Hn Hni; [reflexivity|]; cbn [app NoDup_b existsb] in *.
  apply andb_true_iff in Hn. destruct Hn as [Hx Hn].
  apply andb_true_iff; split.
  - rewrite existsb_app. cbn [existsb]. apply negb_true_iff in Hx. rewrite Hx. cbn.
    destruct (ev_eqb x e) eqn:E; auto. apply ev_eqb_eq in E. subst. exfalso; apply Hni; left; auto.
  - apply IH; auto. intros Hx'; apply Hni; right; auto.
Qed.

(* ---- pr_noleak_enabled: a worker in WkSent can always run its deferred release ---- *)
Theorem pr_noleak_enabled : pr_noleak_enabled_stmt.
Proof.
  intros num nblk bad s j Hw. do 2 eexists. eapply S_wk_exit; eauto.
Qed.

(* ------------------------------------------------------------------ *)
Section Proofs.
Variable num nblk : nat.
Variable bad : nat -> bool.
Hypothesis Hnum : 1 <= num.

Notation step := (PipeR.step num nblk bad).
Notation run := (PipeR.run num nblk bad).
Notation reachable := (PipeR.reachable num nblk bad).
Notation init := (PipeR.init nblk).

Definition fb : nat := first_bad bad 0 nblk.

Lemma ff_bounds k n : k <= first_bad bad k n <= k + n.
Proof.
  revert k; induction n as [|n IH]; intros k; cbn [first_bad]; try lia.
  destruct (bad k); try lia. specialize (IH (S k)). lia.
Qed.
Lemma ff_before k n i : k <= i < first_bad bad k n -> bad i = false.
Proof.
  revert k; induction n as [|n IH]; intros k; cbn [first_bad]; try lia.
  destruct (bad k) eqn:E; try lia. intros H.
  destruct (Nat.eq_dec i k); [subst; auto|]. apply (IH (S k)). lia.
Qed.
Lemma ff_at k n : first_bad bad k n < k + n -> bad (first_bad bad k n) = true.
Proof.
  revert k; induction n as [|n IH]; intros k; cbn [first_bad]; try lia.
  destruct (bad k) eqn:E; auto. intros H. apply IH. lia.
Qed.
Lemma fb_le : fb <= nblk.
Proof. pose proof (ff_bounds 0 nblk). unfold fb. lia. Qed.
Lemma fb_good i : i < fb -> bad i = false.
Proof. intros H. apply (ff_before 0 nblk). fold fb. lia. Qed.
Lemma fb_bad : fb < nblk -> bad fb = true.
Proof. intros H. apply (ff_at 0 nblk). fold fb. lia. Qed.
Lemma bad_fb_le j : bad j = true -> fb <= j.
Proof.
  intros Hb. destruct (le_lt_dec fb j); auto. rewrite fb_good in Hb by auto. discriminate.
Qed.
Lemma good_fb_ne j : bad j = false -> j < nblk -> fb <> j.
Proof. intros Hb Hj E. subst j. rewrite fb_bad in Hb by auto. discriminate. Qed.

(* ---- numeric abstractions of the control states ---- *)
Definition rank (w : wk) : nat :=
  match w with WkNone => 0 | WkStart => 1 | WkRun => 2 | WkOffer => 3 | WkFail => 4 | WkFailClose => 5 | WkSent => 6 | WkDone => 7 end.
Definition orank (o : owner) : nat :=
  match o with OwNone => 0 | OwWorker => 1 | OwCollector => 2 | OwConsumer => 3 | OwPool => 4 | OwDropped => 5 end.
(* ghost n: number of blocks the reading goroutine enqueued before it went for the sentinel *)
Definition sub (r : rdst) (n : nat) : nat :=
  match r with RdCheck j | RdRead j | RdRecheck j | RdEnq j => j | RdSpawn j => S j | _ => n end.
Definition spw (r : rdst) (n : nat) : nat :=
  match r with RdCheck j | RdRead j | RdRecheck j | RdEnq j | RdSpawn j => j | _ => n end.
Definition evq (r : rdst) (n : nat) : nat :=
  match r with RdCheck j | RdRead j | RdRecheck j => j | RdEnq j | RdSpawn j => S j | _ => n end.
Definition rphase (r : rdst) : nat :=
  match r with RdSentEnq => 1 | RdSentOffer => 2 | RdSentWait => 3 | RdLatch => 4 | RdCloseData => 5 | RdDone => 6 | _ => 0 end.
(* ghost c: number of job channels the collector is through with *)
Definition tkn (m : clst) (c : nat) : nat :=
  match m with ClTaken (CJob _) | ClGot _ | ClDeliver _ | ClClose _ => S c | _ => c end.
Definition rcv (m : clst) (c : nat) : nat :=
  match m with ClGot _ | ClDeliver _ | ClClose _ => S c | _ => c end.
Definition hsh (m : clst) (c : nat) : nat :=
  Nat.min (match m with ClDeliver _ | ClClose _ => S c | _ => c end) fb.
Definition dl (m : clst) (c : nat) : nat :=
  Nat.min (match m with ClClose _ => S c | _ => c end) fb.
Definition cphase (m : clst) : nat :=
  match m with ClTaken CSentinel => 1 | ClGotSent => 2 | ClDone => 3 | _ => 0 end.
Definition crn (x : cost) : nat := match x with CoRecv => 1 | CoDone => 0 end.
Definition popt (d : nat) : option nat := match d with O => None | S k => Some k end.

Definition rd_ok (r : rdst) (l : option errv) (n : nat) : Prop :=
  match r with
  | RdCheck j | RdRead j => j <= nblk
  | RdRecheck j | RdEnq j | RdSpawn j => j < nblk
  | _ => n <= nblk /\ (l <> None \/ n = nblk)
  end.
Definition col_ok (r : rdst) (m : clst) (c n : nat) : Prop :=
  match m with
  | ClIdle => rphase r <= 2
  | ClTaken (CJob j) => j = c /\ c < sub r n /\ rphase r <= 2
  | ClGot j => j = c /\ c < spw r n /\ rphase r <= 2 /\ bad c = false
  | ClDeliver j | ClClose j => j = c /\ c < spw r n /\ rphase r <= 2 /\ bad c = false /\ c < fb
  | ClTaken CSentinel => rphase r = 2 /\ c = n
  | ClGotSent => rphase r = 3 /\ c = n
  | ClDone => 3 <= rphase r /\ c = n
  end.
Definition sentq (r : rdst) (m : clst) : list cid :=
  match r, m with RdSentOffer, ClTaken CSentinel => [] | RdSentOffer, _ => [CSentinel] | _, _ => [] end.
Definition wk_ok (sp rc : nat) (b : bool) (j : nat) (w : wk) : Prop :=
  (sp <= j -> rank w = 0) /\ (j < sp -> 1 <= rank w) /\ (j < rc -> 6 <= rank w) /\
  (b = false -> rank w <> 4 /\ rank w <> 5) /\ (b = true -> rank w <> 3) /\
  (b = false -> rc <= j -> rank w <= 3).
Definition own_ok (d c cr : nat) (b : bool) (j : nat) (w : wk) (o : owner) : Prop :=
  (b = true -> orank o = 0) /\
  (b = false ->
     (rank w <= 2 -> orank o = 0) /\ (rank w = 3 -> orank o = 1) /\
     (6 <= rank w ->
        (j < d -> (S j = d /\ cr = 1 -> orank o = 3) /\ (~ (S j = d /\ cr = 1) -> orank o = 4)) /\
        (d <= j -> j < c -> orank o = 5) /\ (d <= j -> c <= j -> orank o = 2))).
Definition latch_ok (l : option errv) (r : rdst) (n : nat) : Prop :=
  match l with
  | None => True
  | Some (ErrBlock j) => j < spw r n /\ bad j = true
  | Some ErrSrc => 5 <= rphase r /\ n = nblk /\ fb = nblk
  end.

Record Inv (s : st) (c n : nat) : Prop := mkInv {
  I_lenw : length (wks s) = nblk;
  I_leno : length (own s) = nblk;
  I_rd : rd_ok (rdr s) (latch s) n;
  I_col : col_ok (rdr s) (col s) c n;
  I_tk : tkn (col s) c <= sub (rdr s) n;
  I_q : queue s = map CJob (seq (tkn (col s) c) (sub (rdr s) n - tkn (col s) c)) ++ sentq (rdr s) (col s);
  I_wk : forall j, wk_ok (spw (rdr s) n) (rcv (col s) c) (bad j) j (nth j (wks s) WkNone);
  I_skip : (skip s = true -> fb < c) /\ (skip s = false -> c <= fb);
  I_cl1 : forall j, existsb (cid_eqb (CJob j)) (closedc s) = true ->
            j < c \/ (bad j = true /\ 6 <= rank (nth j (wks s) WkNone));
  I_cl2 : forall j, bad j = true -> 6 <= rank (nth j (wks s) WkNone) ->
            existsb (cid_eqb (CJob j)) (closedc s) = true;
  I_cls : existsb (cid_eqb CSentinel) (closedc s) = true <-> col s = ClDone;
  I_latch : latch_ok (latch s) (rdr s) n;
  I_latched : forall j, bad j = true -> 5 <= rank (nth j (wks s) WkNone) -> latch s <> None;
  I_rl : 5 <= rphase (rdr s) -> latch s <> None;
  I_del : delivered s = seq 0 (dl (col s) c);
  I_dc : dataclosed s = (6 <=? rphase (rdr s));
  I_cons : match cons s with
           | CoDone => rphase (rdr s) = 6 /\ result s = latch s /\ held s = None
           | CoRecv => held s = popt (dl (col s) c) /\ result s = None
           end;
  I_own : forall j, j < nblk ->
            own_ok (dl (col s) c) c (crn (cons s)) (bad j) j (nth j (wks s) WkNone) (nth j (own s) OwNone)
}.

Lemma Inv_init : Inv init 0 0.
Proof.
  constructor; unfold PipeR.init;
    cbn [rdr queue wks col skip closedc latch delivered dataclosed cons result held own
         rd_ok col_ok tkn rcv dl sub spw rphase sentq latch_ok crn popt Nat.min Nat.leb].
  - apply repeat_length.
  - apply repeat_length.
  - lia.
  - lia.
  - lia.
  - reflexivity.
  - intros j. rewrite nth_repeat'. unfold wk_ok; cbn [rank]. repeat split; intros; try lia.
  - split; [discriminate|lia].
  - intros j; cbn. discriminate.
  - intros j _. rewrite nth_repeat'. cbn [rank]. lia.
  - cbn. split; discriminate.
  - exact I.
  - intros j _. rewrite nth_repeat'. cbn [rank]. lia.
  - lia.
  - reflexivity.
  - reflexivity.
  - split; reflexivity.
  - intros j Hj. rewrite !nth_repeat'. unfold own_ok; cbn [rank orank]. repeat split; intros; try lia.
Qed.

Definition nextc (s s' : st) (c : nat) : nat :=
  match col s, col s' with
  | ClTaken (CJob _), ClIdle | ClGot _, ClIdle | ClClose _, ClIdle => S c
  | _, _ => c
  end.
Definition nextn (s s' : st) (n : nat) : nat :=
  match rdr s' with
  | RdSentEnq => match rdr s with RdCheck j | RdRead j | RdRecheck j => j | _ => n end
  | _ => n
  end.
Lemma nextc_same s s' c : col s' = col s -> nextc s s' c = c.
Proof. unfold nextc. intros ->. destruct (col s) as [|[|]| | | | |]; reflexivity. Qed.
Lemma nextn_same s s' n : rdr s' = rdr s -> nextn s s' n = n.
Proof. unfold nextn. intros ->. destruct (rdr s); reflexivity. Qed.

Lemma nth_rank_lt (w : list wk) j : rank (nth j w WkNone) <> 0 -> j < length w.
Proof.
  intros H. destruct (lt_dec j (length w)); auto.
  rewrite nth_overflow in H by lia. cbn in H. lia.
Qed.
Lemma latch_or_ne l e : latch_or l e <> None.
Proof. destruct l; cbn; discriminate. Qed.
Lemma latch_or_some l e : l <> None -> latch_or l e = l.
Proof. destruct l; cbn; congruence. Qed.

Ltac simp :=
  unfold dl, hsh in *;
  cbn [rdr queue wks col skip closedc latch delivered dataclosed cons result held own
       rd_ok col_ok tkn rcv dl hsh sub spw evq rphase cphase sentq latch_ok crn popt Nat.leb] in *.

Ltac prep s HI :=
  destruct s as [r qu w m sk cc la de dc co re he ow];
  destruct HI as [Hlw Hlo Hrd Hcol Htk Hq Hwk Hsk Hcl1 Hcl2 Hcls Hla Hlad Hrl Hde Hdc Hco Hown];
  unfold wk_of, own_of, set_rdr, set_wk, set_col, is_closed in *;
  cbn [rdr queue wks col skip closedc latch delivered dataclosed cons result held own] in *;
  try subst r; try subst m; try subst la; try subst sk; try subst co;
  unfold nextc, nextn; simp.

Ltac colgoal := match goal with |- col_ok _ ?m _ _ => destruct m as [|[?|]|?|?|?| |]; simp; intuition lia end.
Ltac cogoal := match goal with |- match ?co with CoRecv => _ | CoDone => _ end => destruct co; simp; intuition (try congruence; try lia) end.
Ltac auto0 := constructor; simp; try assumption; try reflexivity; try lia; try colgoal; try cogoal.

Ltac fwd :=
  repeat match goal with
  | H : _ /\ _ |- _ => destruct H
  | H : ?P -> ?Q |- _ =>
      let HP := fresh in assert (HP : P) by (first [reflexivity | assumption | lia]); specialize (H HP); clear HP
  | H : true = false -> _ |- _ => clear H
  | H : false = true -> _ |- _ => clear H
  end.
Ltac fin := fwd; intuition (try discriminate; try congruence; try lia).

Ltac perj0 j Hw Hwk Hcl1 Hcl2 Hlad Hown Hq Hde :=
  let j0 := fresh "i" in intros j0;
  pose proof (Hwk j0) as Hwk0; pose proof (Hcl1 j0) as Hcl10; pose proof (Hcl2 j0) as Hcl20;
  pose proof (Hlad j0) as Hlad0;
  try (let Hlt := fresh "Hlt" in intros Hlt; pose proof (Hown j0 Hlt) as Hown0);
  clear Hwk Hcl1 Hcl2 Hlad Hown Hq Hde;
  destruct (Nat.eq_dec j0 j) as [Heq|Hne];
  [ subst j0; rewrite ?nth_upd_same in * by lia; rewrite ?Hw in *; cbn [existsb cid_eqb] in *;
    rewrite ?Nat.eqb_refl in *; destruct (bad j) eqn:Eb
  | rewrite ?nth_upd_other in * by exact Hne; cbn [existsb cid_eqb] in *;
    rewrite ?(proj2 (Nat.eqb_neq j0 j) Hne) in *; destruct (bad j0) eqn:Eb ];
  unfold wk_ok, own_ok in *; cbn [rank orank orb] in *;
  first [ lia
        | (let Hc := fresh in intros Hc; try apply Hcl10 in Hc; lia)
        | (intros; first [reflexivity | apply Hcl20; [assumption | lia]])
        | (intros; first [apply latch_or_ne | apply Hlad0; [assumption | lia] | discriminate])
        | fin ].

Ltac cascade Hcl10 Hcl20 Hlad0 :=
  first [ lia
        | (let Hc := fresh in intros Hc; try apply Hcl10 in Hc; lia)
        | (intros; first [reflexivity | apply Hcl20; [assumption | lia]])
        | (intros; first [apply latch_or_ne | apply Hlad0; [assumption | lia] | discriminate])
        | fin ].
(* per-index goal, distinguished index j whose badness Hb is known *)
Ltac peri0 j Hb Hwk Hcl1 Hcl2 Hlad Hown Hq Hde :=
  let j0 := fresh "i" in intros j0;
  pose proof (Hwk j0) as Hwk0; pose proof (Hcl1 j0) as Hcl10; pose proof (Hcl2 j0) as Hcl20;
  pose proof (Hlad j0) as Hlad0;
  try (let Hlt := fresh "Hlt" in intros Hlt; pose proof (Hown j0 Hlt) as Hown0);
  clear Hwk Hcl1 Hcl2 Hlad Hown Hq Hde;
  destruct (Nat.eq_dec j0 j) as [Heq|Hne];
  [ subst j0; rewrite ?nth_upd_same in * by lia; cbn [existsb cid_eqb] in *;
    rewrite ?Nat.eqb_refl in *; rewrite ?Hb in *
  | rewrite ?nth_upd_other in * by exact Hne; cbn [existsb cid_eqb] in *;
    rewrite ?(proj2 (Nat.eqb_neq j0 j) Hne) in *; destruct (bad j0) eqn:Eb ];
  unfold wk_ok, own_ok in *; cbn [rank orank orb] in *; cascade Hcl10 Hcl20 Hlad0.

Lemma nth_upd_case {A} (l : list A) i j x d :
  j < length l -> nth i (upd l j x) d = if Nat.eq_dec i j then x else nth i l d.
Proof.
  intros Hj. destruct (Nat.eq_dec i j) as [->|Hne]; [apply nth_upd_same; auto | apply nth_upd_other; auto].
Qed.
Ltac ownfin i Hgi :=
  let Eb := fresh "Eb" in
  destruct (bad i) eqn:Eb; unfold wk_ok, own_ok in *; cbn [rank orank] in *; try lia;
  try (rewrite Hgi in Eb by lia; discriminate).

Ltac wk_len0 j H Hlw :=
  assert (Hj : j < nblk) by (rewrite <- Hlw; apply nth_rank_lt; rewrite H; cbn; lia).

Lemma rd_bounds r la n : rd_ok r la n -> sub r n <= nblk /\ spw r n <= nblk.
Proof. destruct r; cbn; lia. Qed.
Lemma rank0 w : rank w = 0 -> w = WkNone.
Proof. destruct w; cbn; intros; auto; lia. Qed.
Lemma sentq_job r m : cphase m = 0 -> sentq r m = sentq r ClIdle.
Proof. destruct r; cbn; auto. destruct m as [|[|]| | | | |]; cbn; auto; lia. Qed.

Ltac latchgoal Hla :=
  match goal with |- latch_ok ?la _ _ => destruct la as [[?|]|]; simp; try exact I; try assumption; intuition lia end.
Ltac clsgoal Hcls :=
  split; [let Hx := fresh in intros Hx; apply Hcls in Hx; discriminate | discriminate].

Lemma step_inv s c n e s' : Inv s c n -> step s e s' -> Inv s' (nextc s s' c) (nextn s s' n).
Proof.
  intros HI Hs. inversion Hs; subst; clear Hs;
    rewrite ?nextc_same, ?nextn_same by reflexivity; prep s HI.
  - (* check_ok *) auto0.
  - (* check_err *) auto0.
    + split; [lia | left; discriminate].
    + destruct e0; simp; [assumption | lia].
  - (* read_ok *) auto0.
  - (* read_end *) auto0. latchgoal Hla.
  - (* recheck_ok *) auto0.
  - (* recheck_err *) auto0.
    + split; [lia | left; discriminate].
    + destruct e0; simp; [assumption | lia].
  - (* enqueue *) auto0.
    rewrite Hq, !app_nil_r, seq_snoc' by lia. rewrite map_app. reflexivity.
  - (* spawn *)
    assert (Hj : j < nblk) by exact Hrd.
    assert (Hw : nth j w WkNone = WkNone).
    { apply rank0. pose proof (Hwk j) as Hwj. unfold wk_ok in Hwj. lia. }
    auto0; try (rewrite upd_length; assumption); try (perj0 j Hw Hwk Hcl1 Hcl2 Hlad Hown Hq Hde; fail).
    latchgoal Hla.
  - (* wk_start *) wk_len0 j H Hlw. auto0; try (rewrite upd_length; assumption); try (perj0 j H Hwk Hcl1 Hcl2 Hlad Hown Hq Hde; fail).
  - (* wk_decode_ok *) wk_len0 j H Hlw. auto0; try (rewrite upd_length; assumption); try (perj0 j H Hwk Hcl1 Hcl2 Hlad Hown Hq Hde; fail).
  - (* wk_decode_bad *) wk_len0 j H Hlw. auto0; try (rewrite upd_length; assumption); try (perj0 j H Hwk Hcl1 Hcl2 Hlad Hown Hq Hde; fail).
  - (* wk_latch *) wk_len0 j H Hlw.
    assert (Hjb : j < spw r n /\ bad j = true).
    { pose proof (Hwk j) as Hwj. rewrite H in Hwj. unfold wk_ok in Hwj. cbn [rank] in Hwj.
      destruct (bad j); split; first [reflexivity | lia]. }
    constructor; simp; try assumption; try reflexivity; try lia;
      try (rewrite upd_length; assumption); try (perj0 j H Hwk Hcl1 Hcl2 Hlad Hown Hq Hde; fail).
    + destruct r; simp; try assumption; (split; [tauto | left; apply latch_or_ne]).
    + destruct la as [e0|]; cbn [latch_or]; [exact Hla|]. exact Hjb.
    + intros _. apply latch_or_ne.
    + destruct co; simp; [exact Hco|].
      destruct Hco as [Hr6 [Hre Hhe]]. rewrite latch_or_some by (apply Hrl; lia). auto.
  - (* wk_close *) wk_len0 j H Hlw. auto0; try (rewrite upd_length; assumption); try (perj0 j H Hwk Hcl1 Hcl2 Hlad Hown Hq Hde; fail).
  - (* wk_exit *) wk_len0 j H Hlw. auto0; try (rewrite upd_length; assumption); try (perj0 j H Hwk Hcl1 Hcl2 Hlad Hown Hq Hde; fail).
  - (* take *)
    rewrite H0 in Hq. clear H0.
    destruct (sub r n - c) as [|k] eqn:Ek; cbn [seq map app] in Hq.
    + destruct r; cbn [sentq] in Hq; try discriminate. inversion Hq; subst; try clear Hq. simp.
      auto0; [rewrite Ek; reflexivity | clsgoal Hcls].
    + inversion Hq; subst; try clear Hq. simp.
      auto0.
      * replace (sub r n - S c) with k by lia. rewrite (sentq_job r (ClTaken (CJob c))) by reflexivity. reflexivity.
      * clsgoal Hcls.
  - (* recv *)
    wk_len0 j H0 Hlw. destruct Hcol as [-> [Hcs Hrp]].
    assert (Hjb : c < spw r n /\ bad c = false).
    { pose proof (Hwk c) as Hwj. rewrite H0 in Hwj. unfold wk_ok in Hwj. cbn [rank] in Hwj.
      destruct (bad c); split; first [reflexivity | lia]. }
    auto0; try (rewrite upd_length; assumption); try (perj0 c H0 Hwk Hcl1 Hcl2 Hlad Hown Hq Hde; fail).
    + intuition lia.
    + clsgoal Hcls.
  - (* recv_closed *)
    destruct Hcol as [-> [Hcs Hrp]].
    assert (Hcb : bad c = true /\ 6 <= rank (nth c w WkNone)).
    { destruct (Hcl1 c H0) as [Hx|Hx]; [lia|exact Hx]. }
    destruct Hcb as [Hcb Hcr]. pose proof (bad_fb_le c Hcb) as Hfc.
    assert (Hmin : Nat.min (S c) fb = Nat.min c fb) by lia.
    constructor; simp; rewrite ?Hmin; try assumption; try reflexivity; try lia;
      try (peri0 c Hcb Hwk Hcl1 Hcl2 Hlad Hown Hq Hde; fail).
    clsgoal Hcls.
  - (* skip *)
    destruct Hcol as [-> [Hcs [Hrp Hcb]]]. destruct Hsk as [Hsk _]. specialize (Hsk eq_refl).
    assert (Hj : c < nblk) by (pose proof (rd_bounds _ _ _ Hrd); lia).
    assert (Hmin : Nat.min (S c) fb = Nat.min c fb) by lia.
    constructor; simp; rewrite ?Hmin; try assumption; try reflexivity; try lia;
      try (rewrite upd_length; assumption);
      try (peri0 c Hcb Hwk Hcl1 Hcl2 Hlad Hown Hq Hde; fail).
    clsgoal Hcls.
  - (* hash *)
    destruct Hcol as [-> [Hcs [Hrp Hcb]]].
    pose proof (rd_bounds _ _ _ Hrd) as [_ Hsb].
    assert (Hcf : c < fb).
    { pose proof (good_fb_ne c Hcb). destruct Hsk as [_ Hsk]. specialize (Hsk eq_refl). lia. }
    auto0; [intuition lia | clsgoal Hcls].
  - (* deliver *)
    destruct Hcol as [-> [Hcs [Hrp [Hcb Hcf]]]].
    assert (Hj : c < nblk) by (pose proof (rd_bounds _ _ _ Hrd); lia).
    assert (Hmin1 : Nat.min (S c) fb = S c) by lia.
    assert (Hmin2 : Nat.min c fb = c) by lia.
    simp. rewrite ?Hmin1, ?Hmin2 in *. destruct Hco as [-> Hre].
    constructor; simp; rewrite ?Hmin1, ?Hmin2; try assumption; try reflexivity; try lia.
    + rewrite upd_length. destruct c; cbn [popt release]; rewrite ?upd_length; assumption.
    + intuition lia.
    + clsgoal Hcls.
    + rewrite Hde, seq_S. reflexivity.
    + split; [reflexivity | assumption].
    + intros i Hi. pose proof (Hown i Hi) as Hown0. pose proof (Hwk i) as Hwk0.
      assert (Hgi : i < fb -> bad i = false) by apply fb_good.
      clear Hwk Hcl1 Hcl2 Hlad Hown Hq Hde.
      destruct c as [|c']; cbn [popt release].
      * rewrite nth_upd_case by lia. destruct (Nat.eq_dec i 0) as [Heq|Hne]; ownfin i Hgi.
      * rewrite nth_upd_case by (rewrite upd_length; lia). destruct (Nat.eq_dec i (S c')) as [Heq|Hne];
          [|rewrite nth_upd_case by lia; destruct (Nat.eq_dec i c') as [Heq'|Hne']]; ownfin i Hgi.
  - (* col_close *)
    destruct Hcol as [-> [Hcs [Hrp [Hcb Hcf]]]].
    constructor; simp; try assumption; try reflexivity; try lia;
      try (peri0 c Hcb Hwk Hcl1 Hcl2 Hlad Hown Hq Hde; fail).
    + destruct sk; split; try discriminate; intros _; destruct Hsk as [Hs1 Hs2];
        first [specialize (Hs1 eq_refl) | specialize (Hs2 eq_refl)]; lia.
    + cbn [existsb cid_eqb orb]. clsgoal Hcls.
  - (* sent_enq *)
    auto0; [|latchgoal Hla].
    rewrite Hq, app_nil_r. destruct m as [|[?|]|?|?|?| |]; simp; try reflexivity; lia.
  - (* sent_recv *) auto0; [clsgoal Hcls | latchgoal Hla].
  - (* col_exit *) auto0. cbn. tauto.
  - (* sent_done *) apply Hcls in H0. subst m. auto0. latchgoal Hla.
  - (* latch *)
    assert (Hm : m = ClDone /\ c = n).
    { destruct m as [|[?|]|?|?|?| |]; simp; try (exfalso; lia). split; [reflexivity|lia]. }
    destruct Hm as [-> ->]. simp.
    constructor; simp; try assumption; try reflexivity; try lia;
      try (intros; apply latch_or_ne).
    + split; [tauto | left; apply latch_or_ne].
    + destruct la as [[j0|]|]; cbn [latch_or]; simp; [assumption | exfalso; lia |].
      assert (Hn : n = nblk) by (destruct Hrd as [_ [Hx|Hx]]; [congruence|exact Hx]).
      split; [lia|]. split; [exact Hn|].
      destruct (lt_dec fb nblk) as [Hlt|Hge]; [exfalso | pose proof fb_le; lia].
      pose proof (fb_bad Hlt) as Hb. pose proof (Hwk fb) as Hwf. unfold wk_ok in Hwf.
      apply (Hlad fb Hb); [lia | reflexivity].
    + destruct co; simp; [exact Hco | exfalso; lia].
  - (* close_data *) auto0; [latchgoal Hla | intros _; apply Hrl; lia].
  - (* co_end *)
    rewrite H0 in Hdc.
    assert (Hr : r = RdDone) by (destruct r; simp; try discriminate; reflexivity). subst r. simp.
    assert (Hm : m = ClDone /\ c = n).
    { destruct m as [|[?|]|?|?|?| |]; simp; try (exfalso; lia). split; [reflexivity|lia]. }
    destruct Hm as [-> ->]. simp. destruct Hco as [-> Hre].
    constructor; simp; try assumption; try reflexivity; try lia.
    + destruct (Nat.min n fb); cbn [popt release]; rewrite ?upd_length; assumption.
    + auto.
    + intros i Hi. pose proof (Hown i Hi) as Hown0. pose proof (Hwk i) as Hwk0.
      assert (Hgi : i < fb -> bad i = false) by apply fb_good.
      clear Hwk Hcl1 Hcl2 Hlad Hown Hq Hde.
      destruct (Nat.min n fb) as [|k] eqn:Em; cbn [popt release].
      * ownfin i Hgi.
      * rewrite nth_upd_case by lia. destruct (Nat.eq_dec i k) as [Heq|Hne]; ownfin i Hgi.
Qed.

(* ---- runs, from the left ---- *)
Definition optl (e : option event) : list event := match e with Some ev => [ev] | None => [] end.

Lemma run_inv_gen (Q : list event -> st -> Prop) :
  (forall pre s e s', Q pre s -> step s e s' -> Q (pre ++ optl e) s') ->
  forall s es s2, run s es s2 -> forall pre, Q pre s -> Q (pre ++ es) s2.
Proof.
  intros HQ s es s2 Hr. induction Hr as [s|s e s1 es s2 Hs Hr IH]; intros pre Hpre.
  - rewrite app_nil_r; auto.
  - specialize (IH (pre ++ optl e) (HQ _ _ _ _ Hpre Hs)).
    destruct e; cbn [optl] in IH; rewrite <- app_assoc in IH; exact IH.
Qed.

Lemma reach_inv s : reachable s -> exists c n, Inv s c n.
Proof.
  intros [es Hr].
  refine (run_inv_gen (fun _ s => exists c n, Inv s c n) _ _ _ _ Hr [] _).
  - intros _ s0 e s' [c [n HI]] Hs. do 2 eexists. eapply step_inv; eauto.
  - exists 0, 0. apply Inv_init.
Qed.

Lemma rank_inj_facts w :
  (rank w = 0 -> w = WkNone) /\ (rank w = 3 -> w = WkOffer) /\ (rank w = 6 -> w = WkSent) /\ (rank w = 7 -> w = WkDone).
Proof. destruct w; cbn; repeat split; intros; auto; lia. Qed.
Lemma rank_le7 w : rank w <= 7.
Proof. destruct w; cbn; lia. Qed.

Lemma col_done r m c n : col_ok r m c n -> 4 <= rphase r -> m = ClDone /\ c = n.
Proof.
  intros H Hr. destruct m as [|[?|]|?|?|?| |]; cbn [col_ok] in H; try (exfalso; lia). split; [reflexivity|lia].
Qed.
Lemma rphase6 r : rphase r = 6 -> r = RdDone.
Proof. destruct r; cbn; intros; auto; lia. Qed.

(* ---- 1. order and completeness ---- *)
Lemma order_inv s c n : Inv s c n ->
  exists k, delivered s = seq 0 k /\ k <= fb /\
    (returned s -> k = fb /\
       (if Nat.eqb k nblk then result s = Some ErrSrc
        else exists j, result s = Some (ErrBlock j) /\ j < nblk /\ bad j = true)).
Proof.
  intros HI. exists (dl (col s) c).
  split; [apply (I_del _ _ _ HI)|]. split; [unfold dl; lia|].
  unfold returned. intros Hr.
  pose proof (I_cons _ _ _ HI) as Hco. rewrite Hr in Hco. destruct Hco as [Hr6 [Hre _]].
  destruct (col_done _ _ _ _ (I_col _ _ _ HI)) as [Hm Hc]; [lia|].
  pose proof (I_rd _ _ _ HI) as Hrd. pose proof (I_latch _ _ _ HI) as Hla.
  pose proof (I_rl _ _ _ HI) as Hrl. rewrite (rphase6 _ Hr6) in *.
  cbn [rd_ok rphase spw] in *. rewrite Hm, Hre. unfold dl. subst c.
  pose proof fb_le as Hfb.
  destruct (latch s) as [[j|]|]; cbn [latch_ok spw rphase] in Hla.
  - destruct Hla as [Hj Hb]. pose proof (bad_fb_le j Hb).
    split; [lia|]. destruct (Nat.eqb_spec (Nat.min n fb) nblk); [lia|].
    exists j. repeat split; auto. lia.
  - destruct Hla as [_ [Hn Hf]]. split; [lia|].
    destruct (Nat.eqb_spec (Nat.min n fb) nblk); [reflexivity|lia].
  - exfalso. apply Hrl; [lia|reflexivity].
Qed.

(* ---- 2. buffer ownership ---- *)
Lemma owner_inv s c n j : Inv s c n -> j < nblk ->
  ((col s = ClGot j \/ col s = ClDeliver j) -> own_of s j = OwCollector /\ (wk_of s j = WkSent \/ wk_of s j = WkDone)) /\
  (own_of s j = OwPool -> In j (delivered s) /\ held s <> Some j /\ col s <> ClGot j /\ col s <> ClDeliver j) /\
  (own_of s j = OwConsumer -> held s = Some j /\ col s <> ClGot j /\ col s <> ClDeliver j) /\
  (own_of s j = OwWorker -> wk_of s j = WkOffer).
Proof.
  intros HI Hj. prep s HI.
  pose proof (Hwk j) as Hwj. specialize (Hown j Hj).
  pose proof (rank_inj_facts (nth j w WkNone)) as [R0 [R3 [R6 R7]]].
  pose proof (rank_le7 (nth j w WkNone)) as Rle.
  unfold wk_ok, own_ok in *.
  assert (Hheld : forall k, he = Some k -> co = CoRecv /\ S k = Nat.min match m with ClClose _ => S c | _ => c end fb).
  { intros k Hk. destruct co; [|destruct Hco as [_ [_ Hx]]; congruence].
    destruct Hco as [Hx _]. rewrite Hx in Hk. destruct (Nat.min _ fb); cbn [popt] in Hk; inversion Hk. auto. }
  split; [|split; [|split]].
  - intros Hm.
    assert (Hm' : j = c /\ bad j = false /\ rcv m c = S c /\ Nat.min match m with ClClose _ => S c | _ => c end fb <= c).
    { destruct Hm as [-> | ->]; simp; intuition (subst; auto; lia). }
    destruct Hm' as [-> [Hb [Hrc Hd]]]. rewrite Hrc, Hb in *.
    assert (Hr : 6 <= rank (nth c w WkNone)) by lia.
    split.
    + destruct (nth c ow OwNone); cbn [orank] in *; auto; lia.
    + assert (rank (nth c w WkNone) = 6 \/ rank (nth c w WkNone) = 7) as [E|E] by lia; auto.
  - intros Ho. rewrite Ho in Hown. cbn [orank] in Hown.
    destruct (bad j); [lia|].
    assert (Hjd : j < Nat.min match m with ClClose _ => S c | _ => c end fb /\
                  ~ (S j = Nat.min match m with ClClose _ => S c | _ => c end fb /\ crn co = 1)).
    { destruct (le_lt_dec (rank (nth j w WkNone)) 2); [lia|].
      destruct (Nat.eq_dec (rank (nth j w WkNone)) 3); [lia|].
      assert (6 <= rank (nth j w WkNone)) by lia. lia. }
    destruct Hjd as [Hjd Hnc].
    split; [rewrite Hde; apply in_seq; lia|]. split.
    + intros Hh. destruct (Hheld j Hh) as [-> Hx]. cbn [crn] in Hnc. lia.
    + split; intros ->; simp; lia.
  - intros Ho. rewrite Ho in Hown. cbn [orank] in Hown.
    destruct (bad j); [lia|].
    assert (Hjd : S j = Nat.min match m with ClClose _ => S c | _ => c end fb /\ crn co = 1).
    { destruct (le_lt_dec (rank (nth j w WkNone)) 2); [lia|].
      destruct (Nat.eq_dec (rank (nth j w WkNone)) 3); [lia|].
      assert (6 <= rank (nth j w WkNone)) by lia. lia. }
    destruct Hjd as [Hjd Hcr].
    split.
    + destruct co; cbn [crn] in Hcr; [|lia]. destruct Hco as [-> _]. rewrite <- Hjd. reflexivity.
    + split; intros ->; simp; lia.
  - intros Ho. rewrite Ho in Hown. cbn [orank] in Hown.
    apply R3. destruct (bad j); [lia|].
    destruct (le_lt_dec (rank (nth j w WkNone)) 2); [lia|].
    destruct (Nat.eq_dec (rank (nth j w WkNone)) 3); [auto|].
    assert (6 <= rank (nth j w WkNone)) by lia. lia.
Qed.

(* ---- 3. deadlock freedom ---- *)
Lemma all_or_ex (w : list wk) k :
  (forall j, j < k -> rank (nth j w WkNone) = 0 \/ rank (nth j w WkNone) = 7) \/
  (exists j, j < k /\ rank (nth j w WkNone) <> 0 /\ rank (nth j w WkNone) <> 7).
Proof.
  induction k as [|k [IH|[j [Hj Hr]]]].
  - left; intros; lia.
  - destruct (Nat.eq_dec (rank (nth k w WkNone)) 0) as [E|E];
      [|destruct (Nat.eq_dec (rank (nth k w WkNone)) 7) as [E'|E']].
    + left. intros j Hj. destruct (Nat.eq_dec j k); [subst; auto|apply IH; lia].
    + left. intros j Hj. destruct (Nat.eq_dec j k); [subst; auto|apply IH; lia].
    + right. exists k. auto.
  - right. exists j. split; auto.
Qed.

Lemma progress_inv s c n : Inv s c n -> final nblk s \/ exists e s', step s e s'.
Proof.
  intros HI. unfold final. prep s HI.
  destruct m as [|[j|]|j|j|j| |]; simp.
  - (* idle *)
    right. destruct qu as [|c0 q].
    + destruct r; simp.
      * destruct la as [e0|].
        -- do 2 eexists. eapply S_check_err with (j := j); cbn; eauto.
        -- do 2 eexists. eapply S_check_ok with (j := j); cbn; eauto.
      * destruct (lt_dec j nblk).
        -- do 2 eexists. eapply S_read_ok with (j := j); cbn; eauto.
        -- do 2 eexists. eapply S_read_end with (j := j); cbn; eauto; try lia.
      * destruct la as [e0|].
        -- do 2 eexists. eapply S_recheck_err with (j := j); cbn; eauto.
        -- do 2 eexists. eapply S_recheck_ok with (j := j); cbn; eauto.
      * do 2 eexists. eapply S_enqueue with (j := j); cbn; auto; try lia.
      * do 2 eexists. eapply S_spawn with (j := j); cbn; auto.
      * do 2 eexists. eapply S_sent_enq; cbn; auto; try lia.
      * symmetry in Hq. apply app_eq_nil in Hq. destruct Hq; discriminate.
      * lia.
      * lia.
      * lia.
      * lia.
    + do 2 eexists. eapply S_take; cbn; eauto.
  - (* taken job *)
    right. destruct Hcol as [-> [Hc Hp]].
    pose proof (Hwk c) as Hwc. unfold wk_ok in Hwc.
    destruct (nth c w WkNone) eqn:E; cbn [rank] in Hwc.
    + assert (r = RdSpawn c) by (destruct r; cbn [sub spw rphase] in *; try lia; f_equal; lia).
      subst r. do 2 eexists. eapply S_spawn with (j := c); cbn; auto.
    + do 2 eexists. eapply S_wk_start with (j := c); unfold wk_of; cbn; auto.
    + destruct (bad c) eqn:Eb.
      * do 2 eexists. eapply S_wk_decode_bad with (j := c); unfold wk_of; cbn; auto.
      * do 2 eexists. eapply S_wk_decode_ok with (j := c); unfold wk_of; cbn; auto.
    + do 2 eexists. eapply S_recv with (j := c); unfold wk_of; cbn; auto.
    + do 2 eexists. eapply S_wk_latch with (j := c); unfold wk_of; cbn; auto.
    + do 2 eexists. eapply S_wk_close with (j := c); unfold wk_of; cbn; auto.
    + destruct (bad c) eqn:Eb; [|lia].
      do 2 eexists. eapply S_recv_closed with (j := c); unfold is_closed; cbn; auto.
      apply Hcl2; auto. rewrite E. cbn; lia.
    + destruct (bad c) eqn:Eb; [|lia].
      do 2 eexists. eapply S_recv_closed with (j := c); unfold is_closed; cbn; auto.
      apply Hcl2; auto. rewrite E. cbn; lia.
  - (* taken sentinel *)
    right. destruct r; simp; try lia.
    do 2 eexists. eapply S_sent_recv; cbn; auto.
  - right. destruct sk.
    + do 2 eexists. eapply S_skip with (j := j); cbn; auto.
    + do 2 eexists. eapply S_hash with (j := j); cbn; auto.
  - right. assert (Hd : dc = false) by (rewrite Hdc; destruct r; simp; try reflexivity; lia).
    destruct co; [|exfalso; lia].
    do 2 eexists. eapply S_deliver with (j := j); cbn; auto.
  - right. do 2 eexists. eapply S_col_close with (j := j); cbn; auto.
  - right. do 2 eexists. eapply S_col_exit; cbn; auto.
  - (* collector done *)
    destruct Hcol as [Hp ->].
    destruct r; simp; try lia.
    + right. do 2 eexists. eapply S_sent_done; unfold is_closed; cbn; auto. apply Hcls; auto.
    + right. do 2 eexists. eapply S_latch; cbn; auto.
    + right. do 2 eexists. eapply S_close_data; cbn; auto.
    + destruct co.
      * right. do 2 eexists. eapply S_co_end; cbn; auto.
      * rewrite Nat.sub_diag in Hq. cbn in Hq.
        destruct (all_or_ex w nblk) as [Hall|[j [Hj [Hr0 Hr7]]]].
        -- left. repeat split; auto. intros j Hj. unfold wk_of; cbn.
           destruct (Hall j Hj) as [E|E]; [left|right]; apply (rank_inj_facts (nth j w WkNone)); auto.
        -- right. pose proof (Hwk j) as Hwj. unfold wk_ok in Hwj.
           pose proof (rank_le7 (nth j w WkNone)).
           assert (E : rank (nth j w WkNone) = 6) by lia.
           apply (rank_inj_facts (nth j w WkNone)) in E.
           do 2 eexists. eapply S_wk_exit with (j := j); unfold wk_of; cbn; auto.
Qed.

(* ---- 4. no leak ---- *)
Lemma noleak_inv s c n : Inv s c n -> returned s ->
  rdr s = RdDone /\ col s = ClDone /\ queue s = [] /\
  forall j, j < nblk -> wk_of s j = WkNone \/ wk_of s j = WkSent \/ wk_of s j = WkDone.
Proof.
  intros HI Hr. unfold returned in Hr. prep s HI.
  destruct Hco as [Hr6 _]. apply rphase6 in Hr6. subst r. simp.
  destruct (col_done _ _ _ _ Hcol) as [-> ->]; [cbn; lia|]. simp.
  rewrite Nat.sub_diag in Hq. cbn in Hq.
  repeat split; auto.
  intros j Hj. pose proof (Hwk j) as Hwj. unfold wk_ok in Hwj.
  pose proof (rank_inj_facts (nth j w WkNone)) as [R0 [R3 [R6 R7]]].
  pose proof (rank_le7 (nth j w WkNone)).
  destruct (le_lt_dec n j); [left; apply R0; lia|].
  assert (rank (nth j w WkNone) = 6 \/ rank (nth j w WkNone) = 7) as [E|E] by lia; auto.
Qed.

(* ---- 5. termination measure ---- *)
Definition pm (r : rdst) : nat :=
  match r with
  | RdCheck j => 12 * (nblk - j) + 25 | RdRead j => 12 * (nblk - j) + 24
  | RdRecheck j => 12 * (nblk - j) + 23 | RdEnq j => 12 * (nblk - j) + 22
  | RdSpawn j => 12 * (nblk - j) + 15
  | RdSentEnq => 12 | RdSentOffer => 5 | RdSentWait => 4 | RdLatch => 3 | RdCloseData => 2 | RdDone => 0
  end.
Definition cm (m : clst) : nat :=
  match m with ClIdle => 0 | ClTaken _ => 5 | ClGot _ => 4 | ClDeliver _ => 3 | ClClose _ => 2 | ClGotSent => 1 | ClDone => 0 end.
Fixpoint wsum (l : list wk) : nat := match l with [] => 0 | w :: r => (7 - rank w) + wsum r end.
Definition measure (s : st) : nat :=
  pm (rdr s) + 6 * length (queue s) + cm (col s) + wsum (wks s) + crn (cons s).

Lemma rank_le7' w : rank w <= 7.
Proof. destruct w; cbn; lia. Qed.
Lemma wsum_upd l j y : j < length l ->
  wsum (upd l j y) + (7 - rank (nth j l WkNone)) = wsum l + (7 - rank y).
Proof.
  revert j; induction l as [|x l IH]; intros [|j] Hj; cbn [length upd wsum nth] in *; try lia.
  specialize (IH j). lia.
Qed.

Lemma measure_decr s c n e s' : Inv s c n -> step s e s' -> measure s' < measure s.
Proof.
  intros HI Hs.
  assert (Hwu : forall j x y, nth j (wks s) WkNone = x -> rank x < rank y ->
                  wsum (upd (wks s) j y) < wsum (wks s) \/ (rank x = 0 /\ length (wks s) <= j)).
  { intros j x y Hx Hlt. destruct (lt_dec j (length (wks s))) as [Hj|Hj]; [left|right].
    - pose proof (wsum_upd (wks s) j y Hj) as Hw. rewrite Hx in Hw.
      pose proof (rank_le7' y). lia.
    - rewrite nth_overflow in Hx by lia. subst x. split; [reflexivity|lia]. }
  inversion Hs; subst; clear Hs; unfold measure, wk_of, set_rdr, set_wk, set_col in *;
    cbn [rdr queue wks col skip closedc latch delivered dataclosed cons result held own] in *;
    repeat match goal with
           | H : rdr _ = _ |- _ => rewrite H
           | H : col _ = _ |- _ => rewrite H
           | H : queue _ = _ |- _ => rewrite H
           | H : cons _ = _ |- _ => rewrite H
           end;
    rewrite ?app_length; cbn [pm cm crn length];
    try match goal with
        | H : nth ?j (wks s) WkNone = ?x |- context [upd (wks s) ?j ?y] =>
            destruct (Hwu j x y H) as [Hw|[Hw _]]; [cbn; lia| |cbn in Hw; discriminate Hw]
        end;
    try lia.
  - (* spawn *)
    pose proof (I_rd _ _ _ HI) as Hrd. rewrite H in Hrd. cbn [rd_ok] in Hrd.
    pose proof (I_wk _ _ _ HI j) as Hwj. rewrite H in Hwj. unfold wk_ok in Hwj. cbn [spw] in Hwj.
    assert (Hw0 : nth j (wks s) WkNone = WkNone) by (apply rank0; lia).
    destruct (Hwu j WkNone WkStart Hw0) as [Hw|[_ Hw]]; [cbn; lia| |].
    + lia.
    + rewrite (I_lenw _ _ _ HI) in Hw. lia.
Qed.

(* ---- 6. the trace checker ---- *)
(* which events have been emitted so far, as a function of the state and the ghosts *)
Definition hap (s : st) (c n : nat) (ev : event) : Prop :=
  match ev with
  | EvEnq (CJob j) => j < evq (rdr s) n
  | EvWkStart (CJob j) => 2 <= rank (wk_of s j)
  | EvWkDecoded (CJob j) => 3 <= rank (wk_of s j)
  | EvTake (CJob j) => j < tkn (col s) c
  | EvTake CSentinel => 1 <= cphase (col s)
  | EvRecv (CJob j) => j < rcv (col s) c
  | EvRecv CSentinel => 2 <= cphase (col s)
  | EvDeliver (CJob j) => j < hsh (col s) c
  | _ => False
  end.

Ltac hs_fin :=
  cbn [rank] in *;
  split;
  [ let Hh := fresh "Hh" in intros Hh; first [ left; lia | right; reflexivity | left; exact Hh | contradiction ]
  | let Hh := fresh "Hh" in intros [Hh|Hh];
    first [ lia | exact Hh | contradiction | discriminate Hh | (inversion Hh; subst; lia) ] ].

Ltac ev_cases ev :=
  destruct ev as [[i|]|[i|]|[i|]|[i|]|[i|]|[i|]].

Ltac hsimp := unfold hap, wk_of; cbn [rdr col wks]; simp.

Lemma step_hap s c n e s' : Inv s c n -> step s e s' ->
  forall ev, hap s' (nextc s s' c) (nextn s s' n) ev <-> hap s c n ev \/ e = Some ev.
Proof.
  intros HI Hs. inversion Hs; subst; clear Hs;
    rewrite ?nextc_same, ?nextn_same by reflexivity; prep s HI.
  - (* check_ok *)
    intros ev; ev_cases ev; hsimp; hs_fin.
  - (* check_err *)
    intros ev; ev_cases ev; hsimp; hs_fin.
  - (* read_ok *)
    intros ev; ev_cases ev; hsimp; hs_fin.
  - (* read_end *)
    intros ev; ev_cases ev; hsimp; hs_fin.
  - (* recheck_ok *)
    intros ev; ev_cases ev; hsimp; try (destruct (Nat.eq_dec i j) as [->|Hne]); hs_fin.
  - (* recheck_err *)
    intros ev; ev_cases ev; hsimp; hs_fin.
  - (* enqueue *)
    intros ev; ev_cases ev; hsimp; hs_fin.
  - (* spawn *)
    assert (Hj : j < length w) by (rewrite Hlw; exact Hrd).
    assert (Hr : rank (nth j w WkNone) = 0).
    { pose proof (Hwk j) as Hwj. unfold wk_ok in Hwj. lia. }
    intros ev; ev_cases ev; hsimp;
      try (destruct (Nat.eq_dec i j) as [->|Hne]; [rewrite ?nth_upd_same by exact Hj | rewrite ?nth_upd_other by exact Hne]); hs_fin.
  - (* wk_start *)
    assert (Hj : j < length w) by (apply nth_rank_lt; rewrite H; cbn; lia).
    assert (Hr : rank (nth j w WkNone) = rank (nth j w WkNone)) by reflexivity. rewrite H in Hr at 2. cbn [rank] in Hr.
    intros ev; ev_cases ev; hsimp;
      try (destruct (Nat.eq_dec i j) as [->|Hne]; [rewrite ?nth_upd_same by exact Hj | rewrite ?nth_upd_other by exact Hne]); hs_fin.
  - (* wk_decode_ok *)
    assert (Hj : j < length w) by (apply nth_rank_lt; rewrite H; cbn; lia).
    assert (Hr : rank (nth j w WkNone) = rank (nth j w WkNone)) by reflexivity. rewrite H in Hr at 2. cbn [rank] in Hr.
    intros ev; ev_cases ev; hsimp;
      try (destruct (Nat.eq_dec i j) as [->|Hne]; [rewrite ?nth_upd_same by exact Hj | rewrite ?nth_upd_other by exact Hne]); hs_fin.
  - (* wk_decode_bad *)
    assert (Hj : j < length w) by (apply nth_rank_lt; rewrite H; cbn; lia).
    assert (Hr : rank (nth j w WkNone) = rank (nth j w WkNone)) by reflexivity. rewrite H in Hr at 2. cbn [rank] in Hr.
    intros ev; ev_cases ev; hsimp;
      try (destruct (Nat.eq_dec i j) as [->|Hne]; [rewrite ?nth_upd_same by exact Hj | rewrite ?nth_upd_other by exact Hne]); hs_fin.
  - (* wk_latch *)
    assert (Hj : j < length w) by (apply nth_rank_lt; rewrite H; cbn; lia).
    assert (Hr : rank (nth j w WkNone) = rank (nth j w WkNone)) by reflexivity. rewrite H in Hr at 2. cbn [rank] in Hr.
    intros ev; ev_cases ev; hsimp;
      try (destruct (Nat.eq_dec i j) as [->|Hne]; [rewrite ?nth_upd_same by exact Hj | rewrite ?nth_upd_other by exact Hne]); hs_fin.
  - (* wk_close *)
    assert (Hj : j < length w) by (apply nth_rank_lt; rewrite H; cbn; lia).
    assert (Hr : rank (nth j w WkNone) = rank (nth j w WkNone)) by reflexivity. rewrite H in Hr at 2. cbn [rank] in Hr.
    intros ev; ev_cases ev; hsimp;
      try (destruct (Nat.eq_dec i j) as [->|Hne]; [rewrite ?nth_upd_same by exact Hj | rewrite ?nth_upd_other by exact Hne]); hs_fin.
  - (* wk_exit *)
    assert (Hj : j < length w) by (apply nth_rank_lt; rewrite H; cbn; lia).
    assert (Hr : rank (nth j w WkNone) = rank (nth j w WkNone)) by reflexivity. rewrite H in Hr at 2. cbn [rank] in Hr.
    intros ev; ev_cases ev; hsimp;
      try (destruct (Nat.eq_dec i j) as [->|Hne]; [rewrite ?nth_upd_same by exact Hj | rewrite ?nth_upd_other by exact Hne]); hs_fin.
  - (* take *)
    rewrite H0 in Hq. clear H0.
    destruct (sub r n - c) as [|k] eqn:Ek; cbn [seq map app] in Hq.
    + destruct r; cbn [sentq] in Hq; try discriminate. inversion Hq; subst; try clear Hq.
      intros ev; ev_cases ev; hsimp; hs_fin.
    + inversion Hq; subst; try clear Hq.
      intros ev; ev_cases ev; hsimp; try (destruct (Nat.eq_dec i c) as [->|Hne]); hs_fin.
  - (* recv *)
    assert (Hj : j < length w) by (apply nth_rank_lt; rewrite H0; cbn; lia).
    assert (Hr : rank (nth j w WkNone) = 3) by (rewrite H0; reflexivity).
    destruct Hcol as [-> [Hcs Hrp]].
    intros ev; ev_cases ev; hsimp;
      try (destruct (Nat.eq_dec i c) as [->|Hne]; [rewrite ?nth_upd_same by exact Hj | rewrite ?nth_upd_other by exact Hne]); hs_fin.
  - (* recv_closed *)
    destruct Hcol as [-> [Hcs Hrp]].
    assert (Hcb : bad c = true /\ 6 <= rank (nth c w WkNone)).
    { destruct (Hcl1 c H0) as [Hx|Hx]; [lia|exact Hx]. }
    destruct Hcb as [Hcb Hcr]. pose proof (bad_fb_le c Hcb) as Hfc.
    intros ev; ev_cases ev; hsimp; try (destruct (Nat.eq_dec i c) as [->|Hne]); hs_fin.
  - (* skip *)
    destruct Hcol as [-> [Hcs [Hrp Hcb]]]. destruct Hsk as [Hsk _]. specialize (Hsk eq_refl).
    intros ev; ev_cases ev; hsimp; try (destruct (Nat.eq_dec i c) as [->|Hne]); hs_fin.
  - (* hash *)
    destruct Hcol as [-> [Hcs [Hrp Hcb]]].
    pose proof (rd_bounds _ _ _ Hrd) as [_ Hsb].
    assert (Hcf : c < fb).
    { pose proof (good_fb_ne c Hcb). destruct Hsk as [_ Hsk]. specialize (Hsk eq_refl). lia. }
    intros ev; ev_cases ev; hsimp; try (destruct (Nat.eq_dec i c) as [->|Hne]); hs_fin.
  - (* deliver *)
    destruct Hcol as [-> [Hcs [Hrp [Hcb Hcf]]]].
    intros ev; ev_cases ev; hsimp; hs_fin.
  - (* col_close *)
    destruct Hcol as [-> [Hcs [Hrp [Hcb Hcf]]]].
    intros ev; ev_cases ev; hsimp; try (destruct (Nat.eq_dec i c) as [->|Hne]); hs_fin.
  - (* sent_enq *)
    intros ev; ev_cases ev; hsimp; hs_fin.
  - (* sent_recv *)
    intros ev; ev_cases ev; hsimp; hs_fin.
  - (* col_exit *)
    intros ev; ev_cases ev; hsimp; hs_fin.
  - (* sent_done *)
    intros ev; ev_cases ev; hsimp; hs_fin.
  - (* latch *)
    intros ev; ev_cases ev; hsimp; hs_fin.
  - (* close_data *)
    intros ev; ev_cases ev; hsimp; hs_fin.
  - (* co_end *)
    intros ev; ev_cases ev; hsimp; hs_fin.
Qed.

(* the ordering constraints checked by trace_ok (C_del_take is the strict form, valid below fb) *)
Inductive constr : event -> event -> Prop :=
  | C_enq_take j : constr (EvEnq (CJob j)) (EvTake (CJob j))
  | C_take_recv j : constr (EvTake (CJob j)) (EvRecv (CJob j))
  | C_recv_del j : constr (EvRecv (CJob j)) (EvDeliver (CJob j))
  | C_enq_start j : constr (EvEnq (CJob j)) (EvWkStart (CJob j))
  | C_start_dec j : constr (EvWkStart (CJob j)) (EvWkDecoded (CJob j))
  | C_dec_del j : constr (EvWkDecoded (CJob j)) (EvDeliver (CJob j))
  | C_enq_enq j : constr (EvEnq (CJob j)) (EvEnq (CJob (S j)))
  | C_recv_take j : constr (EvRecv (CJob j)) (EvTake (CJob (S j)))
  | C_del_take j : j < fb -> constr (EvDeliver (CJob j)) (EvTake (CJob (S j)))
  | C_del_del j : constr (EvDeliver (CJob j)) (EvDeliver (CJob (S j)))
  | C_takeS_recvS : constr (EvTake CSentinel) (EvRecv CSentinel).

Lemma spw_le_evq r n : spw r n <= evq r n.
Proof. destruct r; cbn; lia. Qed.
Lemma sub_le_evq r n : sub r n <= evq r n.
Proof. destruct r; cbn; lia. Qed.

(* the event about to be emitted is new, and everything the checker wants before it has happened *)
Lemma step_pre s c n e s' : Inv s c n -> step s (Some e) s' ->
  ~ hap s c n e /\ (forall a, constr a e -> hap s c n a) /\
  (e = EvTake CSentinel -> forall j, hap s c n (EvEnq (CJob j)) ->
       hap s c n (EvTake (CJob j)) /\ hap s c n (EvRecv (CJob j))) /\
  (forall j, e = EvEnq (CJob j) -> ~ hap s c n (EvTake CSentinel)).
Proof.
  intros HI Hs. inversion Hs; subst; clear Hs; prep s HI.
  - (* recheck_ok *)
    split; [hsimp; lia|]. split; [intros a Hc; inversion Hc; subst; hsimp; lia|].
    split; [discriminate|]. intros j0 _. hsimp.
    destruct m as [|[?|]|?|?|?| |]; simp; lia.
  - (* wk_start *)
    match goal with Hw : nth _ w WkNone = _ |- _ => rename Hw into H end.
    pose proof (Hwk j) as Hwj. rewrite H in Hwj. unfold wk_ok in Hwj. cbn [rank] in Hwj.
    pose proof (spw_le_evq r n).
    split; [hsimp; rewrite H; cbn [rank]; lia|].
    split; [intros a Hc; inversion Hc; subst; hsimp; lia|].
    split; discriminate.
  - (* wk_decode_ok *)
    match goal with Hw : nth _ w WkNone = _ |- _ => rename Hw into H end.
    split; [hsimp; rewrite H; cbn [rank]; lia|].
    split; [intros a Hc; inversion Hc; subst; hsimp; rewrite H; cbn [rank]; lia|].
    split; discriminate.
  - (* wk_decode_bad *)
    match goal with Hw : nth _ w WkNone = _ |- _ => rename Hw into H end.
    split; [hsimp; rewrite H; cbn [rank]; lia|].
    split; [intros a Hc; inversion Hc; subst; hsimp; rewrite H; cbn [rank]; lia|].
    split; discriminate.
  - (* take *)
    match goal with Hx : qu = _ :: _ |- _ => rewrite Hx in Hq; clear Hx end. pose proof (sub_le_evq r n).
    destruct (sub r n - c) as [|k] eqn:Ek; cbn [seq map app] in Hq.
    + destruct r; cbn [sentq] in Hq; try discriminate. inversion Hq; subst; try clear Hq. simp.
      split; [hsimp; lia|]. split; [intros a Hc; inversion Hc|].
      split; [|discriminate]. intros _ j. hsimp. lia.
    + inversion Hq; subst; try clear Hq.
      split; [hsimp; lia|]. split; [intros a Hc; inversion Hc; subst; hsimp; lia|].
      split; discriminate.
  - (* recv *)
    destruct Hcol as [-> [Hcs Hrp]].
    split; [hsimp; lia|]. split; [intros a Hc; inversion Hc; subst; hsimp; lia|].
    split; discriminate.
  - (* recv_closed *)
    destruct Hcol as [-> [Hcs Hrp]].
    split; [hsimp; lia|]. split; [intros a Hc; inversion Hc; subst; hsimp; lia|].
    split; discriminate.
  - (* hash *)
    destruct Hcol as [-> [Hcs [Hrp Hcb]]].
    pose proof (rd_bounds _ _ _ Hrd) as [_ Hsb].
    assert (Hcf : c < fb).
    { pose proof (good_fb_ne c Hcb). destruct Hsk as [_ Hsk]. specialize (Hsk eq_refl). lia. }
    pose proof (Hwk c) as Hwc. unfold wk_ok in Hwc. simp.
    split; [hsimp; lia|]. split; [intros a Hc; inversion Hc; subst; hsimp; lia|].
    split; discriminate.
  - (* sent_recv *)
    split; [hsimp; lia|]. split; [intros a Hc; inversion Hc; subst; hsimp; lia|].
    split; discriminate.
Qed.

Definition Q (es : list event) (s : st) : Prop :=
  exists c n, Inv s c n /\ (forall ev, In ev es <-> hap s c n ev) /\ NoDup_b es = true /\
            (forall a b, constr a b -> before es a b = true) /\
            (forall j, In (EvEnq (CJob j)) es ->
               before es (EvTake (CJob j)) (EvTake CSentinel) = true /\
               before es (EvRecv (CJob j)) (EvTake CSentinel) = true).

Lemma Q_init : Q [] init.
Proof.
  exists 0, 0. split; [apply Inv_init|]. split; [|split; [reflexivity|split; [intros; apply before_nil|intros j []]]].
  intros ev. cbn [In]. split; [contradiction|].
  ev_cases ev; unfold hap, wk_of, PipeR.init; cbn [rdr col wks]; simp;
    rewrite ?nth_repeat'; cbn [rank]; lia.
Qed.

Lemma Q_step pre s e s' : Q pre s -> step s e s' -> Q (pre ++ optl e) s'.
Proof.
  intros [c [n [HI [Hh [Hnd [Hb Hg]]]]]] Hs.
  exists (nextc s s' c), (nextn s s' n). split; [eapply step_inv; eauto|].
  pose proof (step_hap _ _ _ _ _ HI Hs) as Hh'.
  destruct e as [e|]; cbn [optl].
  - destruct (step_pre _ _ _ _ _ HI Hs) as [Hnew [Hpre [Hps Hpe]]].
    split; [|split; [|split]].
    + intros ev. rewrite in_app_iff, Hh', Hh. cbn [In].
      split; (intros [H|H]; [left; auto|right]).
      * destruct H; [subst; auto|contradiction].
      * inversion H; auto.
    + apply NoDup_b_snoc; auto. rewrite Hh. auto.
    + intros a b Hc. apply before_snoc; auto.
      intros ->. apply Hh. apply Hpre. auto.
    + intros j Hin. apply in_app_iff in Hin. destruct Hin as [Hin|[Hin|[]]].
      * destruct (Hg j Hin) as [H1 H2].
        split; apply before_snoc; auto; intros He; symmetry in He;
          apply Hh; apply (Hps He j); apply Hh; exact Hin.
      * subst e.
        assert (Hns : ~ In (EvTake CSentinel) (pre ++ [EvEnq (CJob j)])).
        { intros Hx. apply in_app_iff in Hx. destruct Hx as [Hx|[Hx|[]]]; [|discriminate].
          apply Hh in Hx. exact (Hpe j eq_refl Hx). }
        split; apply before_notin; exact Hns.
  - rewrite app_nil_r. split; [|split]; auto.
    intros ev. rewrite Hh', Hh. split; [auto|]. intros [H|H]; [auto|discriminate].
Qed.

Lemma run_Q es s : run init es s -> Q es s.
Proof.
  intros Hr. exact (run_inv_gen Q Q_step _ _ _ Hr [] Q_init).
Qed.

Lemma index_of_some_In a l i k : index_of (ev_eqb a) l i = Some k -> In a l.
Proof.
  revert i; induction l as [|x l IH]; intros i; cbn [index_of]; try discriminate.
  destruct (ev_eqb a x) eqn:E.
  - apply ev_eqb_eq in E. subst. left; auto.
  - intros H. right. eapply IH; eauto.
Qed.
Lemma before_before_if l a b : before l a b = true -> before_if l a b = true.
Proof. unfold before, before_if. destruct (pos l a), (pos l b); auto. Qed.
Lemma before_if_notin l a b : ~ In a l -> before_if l a b = true.
Proof.
  intros Ha. unfold before_if, pos. destruct (index_of (ev_eqb a) l 0) eqn:E; auto.
  exfalso. apply Ha. eapply index_of_some_In; eauto.
Qed.
Lemma happened_In l a : happened l a = true -> In a l.
Proof.
  unfold happened, pos. destruct (index_of (ev_eqb a) l 0) eqn:E; [|discriminate].
  intros _. eapply index_of_some_In; eauto.
Qed.

Lemma checker_run es s : run init es s -> trace_ok nblk es = true.
Proof.
  intros Hr. destruct (run_Q _ _ Hr) as [c [n [HI [Hh [Hnd [Hb Hg]]]]]].
  unfold trace_ok. rewrite !andb_true_iff. repeat split; auto; try (apply Hb; constructor).
  apply forallb_forall. intros j Hj. apply in_seq in Hj. unfold job_ok.
  rewrite !andb_true_iff. repeat split; try (apply Hb; constructor).
  - destruct (lt_dec j fb) as [Hlt|Hge].
    + apply before_before_if. apply Hb. constructor. exact Hlt.
    + apply before_if_notin. rewrite Hh. unfold hap, hsh. lia.
  - destruct (happened es (EvEnq (CJob j))) eqn:Eh; cbn [negb orb]; [|reflexivity].
    apply happened_In in Eh. destruct (Hg j Eh) as [H1 H2]. rewrite H1, H2. reflexivity.
Qed.

(* sharper facts about delivery events, for the record *)
Lemma deliver_facts es s : run init es s ->
  (forall j, In (EvDeliver (CJob j)) es -> j < fb) /\
  (forall j, j < fb -> before es (EvDeliver (CJob j)) (EvTake (CJob (S j))) = true).
Proof.
  intros Hr. destruct (run_Q _ _ Hr) as [c [n [HI [Hh [Hnd [Hb Hg]]]]]].
  split.
  - intros j Hin. apply Hh in Hin. unfold hap, hsh in Hin. lia.
  - intros j Hj. apply Hb. constructor. exact Hj.
Qed.
End Proofs.

(* ================================================================== *)
(* the theorems of PipeRSpec.v                                          *)
(* ================================================================== *)
Theorem pr_order : pr_order_stmt.
Proof.
  intros num nblk bad s Hnum Hr. apply reach_inv in Hr; [|exact Hnum]. destruct Hr as [c [n HI]].
  exact (order_inv num _ _ Hnum _ _ _ HI).
Qed.

Theorem pr_owner : pr_owner_stmt.
Proof.
  intros num nblk bad s j Hnum Hr Hj. apply reach_inv in Hr; [|exact Hnum]. destruct Hr as [c [n HI]].
  exact (owner_inv num _ _ Hnum _ _ _ _ HI Hj).
Qed.

Theorem pr_progress : pr_progress_stmt.
Proof.
  intros num nblk bad s Hnum Hr. apply reach_inv in Hr; [|exact Hnum]. destruct Hr as [c [n HI]].
  exact (progress_inv num _ _ Hnum _ _ _ HI).
Qed.

Theorem pr_terminates : pr_terminates_stmt.
Proof.
  intros num nblk bad Hnum. exists (measure nblk). intros s e s' Hr Hs.
  apply reach_inv in Hr; [|exact Hnum]. destruct Hr as [c [n HI]].
  exact (measure_decr num _ _ Hnum _ _ _ _ _ HI Hs).
Qed.

Theorem pr_noleak : pr_noleak_stmt.
Proof.
  intros num nblk bad s Hnum Hr Hret. apply reach_inv in Hr; [|exact Hnum]. destruct Hr as [c [n HI]].
  exact (noleak_inv num _ _ Hnum _ _ _ HI Hret).
Qed.

Theorem pr_checker : pr_checker_stmt.
Proof.
  intros num nblk bad s es Hnum Hr. exact (checker_run num _ _ Hnum _ _ Hr).
Qed.

(* sharper than what trace_ok checks: a block at or after the first undecodable one is never
   delivered, and below it the strict order "delivered before the next block is taken" holds *)
Theorem pr_checker_deliver :
  forall num nblk bad s es, (1 <= num)%nat -> run num nblk bad (init nblk) es s ->
  (forall j, In (EvDeliver (CJob j)) es -> j < first_bad bad 0 nblk) /\
  (forall j, j < first_bad bad 0 nblk -> before es (EvDeliver (CJob j)) (EvTake (CJob (S j))) = true).
Proof.
  intros num nblk bad s es Hnum Hr. exact (deliver_facts num _ _ Hnum _ _ Hr).
Qed.

(* ---- why the two repairs of the checker (before_if for deliver/take-next, the `happened`
   guard on the sentinel conjuncts) were necessary: the unguarded conjuncts fail on these runs ---- *)
Lemma R_some num nblk bad s ev s1 es s2 :
  step num nblk bad s (Some ev) s1 -> run num nblk bad s1 es s2 -> run num nblk bad s (ev :: es) s2.
Proof. intros Hs Hr. exact (R_step num nblk bad s (Some ev) s1 es s2 Hs Hr). Qed.
Lemma R_none num nblk bad s s1 es s2 :
  step num nblk bad s None s1 -> run num nblk bad s1 es s2 -> run num nblk bad s es s2.
Proof. intros Hs Hr. exact (R_step num nblk bad s None s1 es s2 Hs Hr). Qed.

Definition bad0 (j : nat) : bool := Nat.eqb j 0.
(* block 0 undecodable, block 1 never enqueued: the sentinel is taken, block 1 never is *)
Definition tr_cex1 : list event :=
  [EvEnq (CJob 0); EvWkStart (CJob 0); EvWkDecoded (CJob 0); EvTake (CJob 0); EvRecv (CJob 0); EvTake CSentinel].
Lemma run_cex1 : exists s, run 1 2 bad0 (init 2) tr_cex1 s.
Proof.
  eexists. unfold tr_cex1.
  eapply R_none; [eapply S_check_ok with (j := 0); reflexivity|cbn].
  eapply R_none; [eapply S_read_ok with (j := 0); [reflexivity|cbn; lia]|cbn].
  eapply R_some; [eapply S_recheck_ok with (j := 0); reflexivity|cbn].
  eapply R_none; [eapply S_enqueue with (j := 0); [reflexivity|cbn; lia]|cbn].
  eapply R_none; [eapply S_spawn with (j := 0); reflexivity|cbn].
  eapply R_some; [eapply S_wk_start with (j := 0); reflexivity|cbn].
  eapply R_some; [eapply S_wk_decode_bad with (j := 0); reflexivity|cbn].
  eapply R_none; [eapply S_wk_latch with (j := 0); reflexivity|cbn].
  eapply R_none; [eapply S_wk_close with (j := 0); reflexivity|cbn].
  eapply R_some; [eapply S_take; reflexivity|cbn].
  eapply R_some; [eapply S_recv_closed with (j := 0); reflexivity|cbn].
  eapply R_none; [eapply S_check_err with (j := 1); reflexivity|cbn].
  eapply R_none; [eapply S_sent_enq; [reflexivity|cbn; lia]|cbn].
  eapply R_some; [eapply S_take; reflexivity|cbn].
  apply R_nil.
Qed.
Theorem unguarded_sentinel_conjunct_false :
  ~ (forall num nblk bad s es j, (1 <= num)%nat -> run num nblk bad (init nblk) es s -> (j < nblk)%nat ->
       before es (EvTake (CJob j)) (EvTake CSentinel) = true).
Proof.
  intros H. destruct run_cex1 as [s Hr].
  specialize (H 1 2 bad0 s tr_cex1 1 (le_n 1) Hr (le_n 2)). discriminate H.
Qed.

(* block 0 undecodable (skipped, never delivered), block 1 is taken afterwards *)
Definition tr_cex2 : list event :=
  [EvEnq (CJob 0); EvTake (CJob 0); EvWkStart (CJob 0); EvWkDecoded (CJob 0); EvEnq (CJob 1);
   EvRecv (CJob 0); EvTake (CJob 1)].
Lemma run_cex2 : exists s, run 1 2 bad0 (init 2) tr_cex2 s.
Proof.
  eexists. unfold tr_cex2.
  eapply R_none; [eapply S_check_ok with (j := 0); reflexivity|cbn].
  eapply R_none; [eapply S_read_ok with (j := 0); [reflexivity|cbn; lia]|cbn].
  eapply R_some; [eapply S_recheck_ok with (j := 0); reflexivity|cbn].
  eapply R_none; [eapply S_enqueue with (j := 0); [reflexivity|cbn; lia]|cbn].
  eapply R_some; [eapply S_take; reflexivity|cbn].
  eapply R_none; [eapply S_spawn with (j := 0); reflexivity|cbn].
  eapply R_some; [eapply S_wk_start with (j := 0); reflexivity|cbn].
  eapply R_some; [eapply S_wk_decode_bad with (j := 0); reflexivity|cbn].
  eapply R_none; [eapply S_check_ok with (j := 1); reflexivity|cbn].
  eapply R_none; [eapply S_read_ok with (j := 1); [reflexivity|cbn; lia]|cbn].
  eapply R_some; [eapply S_recheck_ok with (j := 1); reflexivity|cbn].
  eapply R_none; [eapply S_wk_latch with (j := 0); reflexivity|cbn].
  eapply R_none; [eapply S_wk_close with (j := 0); reflexivity|cbn].
  eapply R_some; [eapply S_recv_closed with (j := 0); reflexivity|cbn].
  eapply R_none; [eapply S_enqueue with (j := 1); [reflexivity|cbn; lia]|cbn].
  eapply R_some; [eapply S_take; reflexivity|cbn].
  apply R_nil.
Qed.
Theorem strict_deliver_take_conjunct_false :
  ~ (forall num nblk bad s es j, (1 <= num)%nat -> run num nblk bad (init nblk) es s -> (j < nblk)%nat ->
       before es (EvDeliver (CJob j)) (EvTake (CJob (S j))) = true).
Proof.
  intros H. destruct run_cex2 as [s Hr].
  specialize (H 1 2 bad0 s tr_cex2 0 (le_n 1) Hr (le_S _ _ (le_n 1))). discriminate H.
Qed.

Print Assumptions pr_order.
Print Assumptions pr_owner.
Print Assumptions pr_progress.
Print Assumptions pr_terminates.
Print Assumptions pr_noleak.
Print Assumptions pr_noleak_enabled.
Print Assumptions pr_checker.
Print Assumptions pr_checker_deliver.
Print Assumptions unguarded_sentinel_conjunct_false.
Print Assumptions strict_deliver_take_conjunct_false.
