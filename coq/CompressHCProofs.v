(* CompressHCProofs.v — proofs about the model of CompressorHC.CompressBlock (CompressHC.v):
   soundness (a COk result is a complete strictly valid block of the whole source that fits),
   CZero/CErr only below CompressBlockBound, no panic, no hang.  No axioms. *)
From Coq Require Import FMapPositive ZifyBool.
From LZ4V Require Import Base GenBlock BlockFormat BlockFormatProofs CompressFast CompressFastTable
  CompressHC CompressHCTop CompressSpec.

Ltac Zify.zify_post_hook ::= Z.div_mod_to_equations.

(* ------------------------------------------------------------------------------------------ *)
(* lists                                                                                       *)
(* ------------------------------------------------------------------------------------------ *)
Lemma len_rev {A} (l : list A) : len (rev l) = len l.
Proof. unfold len. now rewrite rev_length. Qed.

Section SubLemmas.
Variable get : Z -> Z.

Lemma sub_from_length : forall l a, length (sub_from get a l) = l.
Proof.
  induction l as [|l IH]; intros a; cbn [sub_from length]; [reflexivity|]. now rewrite IH.
Qed.

Lemma len_sub a l : 0 <= l -> len (sub get a l) = l.
Proof. intros Hl. unfold len, sub. rewrite sub_from_length. lia. Qed.

Lemma sub_from_app : forall l1 l2 a,
  sub_from get a (l1 + l2) = sub_from get a l1 ++ sub_from get (a + Z.of_nat l1) l2.
Proof.
  induction l1 as [|l1 IH]; intros l2 a.
  - cbn [Nat.add sub_from app]. replace (a + Z.of_nat 0) with a by lia. reflexivity.
  - cbn [Nat.add sub_from app]. f_equal. rewrite IH. f_equal.
    replace (a + 1 + Z.of_nat l1) with (a + Z.of_nat (S l1)) by lia. reflexivity.
Qed.

Lemma sub_app a l1 l2 : 0 <= l1 -> 0 <= l2 ->
  sub get a (l1 + l2) = sub get a l1 ++ sub get (a + l1) l2.
Proof.
  intros H1 H2. unfold sub. rewrite Z2Nat.inj_add by lia. rewrite sub_from_app.
  rewrite Z2Nat.id by lia. reflexivity.
Qed.

Lemma sub_split a b : 0 <= a <= b -> sub get 0 b = sub get 0 a ++ sub get a (b - a).
Proof.
  intros H. replace b with (a + (b - a)) at 1 by lia. rewrite sub_app by lia.
  rewrite Z.add_0_l. reflexivity.
Qed.

Lemma sub_snoc p : 0 <= p -> sub get 0 (p + 1) = sub get 0 p ++ [get p].
Proof. intros. rewrite sub_app by lia. rewrite Z.add_0_l. reflexivity. Qed.

Lemma nth_error_rev_sub_from : forall p i, (i < p)%nat ->
  nth_error (rev (sub_from get 0 p)) i = Some (get (Z.of_nat p - 1 - Z.of_nat i)).
Proof.
  induction p as [|p IH]; intros i Hi; [lia|].
  replace (S p) with (p + 1)%nat by lia. rewrite sub_from_app. cbn [sub_from].
  rewrite rev_app_distr. cbn [rev app].
  destruct i as [|i]; cbn [nth_error].
  - f_equal. f_equal. lia.
  - rewrite IH by lia. f_equal. f_equal. lia.
Qed.

Lemma nth_error_rev_sub p i : 0 <= i < p ->
  nth_error (rev (sub get 0 p)) (Z.to_nat i) = Some (get (p - 1 - i)).
Proof.
  intros H. unfold sub. rewrite nth_error_rev_sub_from by lia. f_equal. f_equal. lia.
Qed.

(* a match whose bytes equal the bytes [o] positions earlier extends the decoded prefix *)
Lemma copy_match_sub : forall L p o, 1 <= o <= p ->
  (forall k, 0 <= k < Z.of_nat L -> get (p + k) = get (p + k - o)) ->
  copy_match L [] (rev (sub get 0 p)) o = Some (rev (sub get 0 (p + Z.of_nat L))).
Proof.
  induction L as [|L IH]; intros p o Ho Heq.
  - cbn [copy_match]. replace (p + Z.of_nat 0) with p by lia. reflexivity.
  - cbn [copy_match]. unfold byte_at. rewrite len_rev, len_sub by lia.
    destruct (o <=? 0) eqn:E0; [lia|]. destruct (o <=? p) eqn:E1; [|lia].
    rewrite nth_error_rev_sub by lia.
    replace (p - 1 - (o - 1)) with (p + 0 - o) by lia. rewrite <- Heq by lia.
    replace (p + 0) with p by lia.
    replace (get p :: rev (sub get 0 p)) with (rev (sub get 0 (p + 1))).
    2:{ rewrite sub_snoc by lia. rewrite rev_app_distr. reflexivity. }
    rewrite IH.
    + f_equal. f_equal. f_equal. lia.
    + lia.
    + intros k Hk. replace (p + 1 + k) with (p + (k + 1)) by lia. apply Heq. lia.
Qed.

Lemma bytes_sub_from n : bytes_fn get n -> forall l a, 0 <= a -> a + Z.of_nat l <= n ->
  bytes (sub_from get a l).
Proof.
  intros Hb. unfold bytes, is_byte.
  induction l as [|l IH]; intros a Ha Hl; cbn [sub_from]; constructor.
  - apply Hb. lia.
  - apply IH; lia.
Qed.

Lemma bytes_sub n a l : bytes_fn get n -> 0 <= a -> 0 <= l -> a + l <= n -> bytes (sub get a l).
Proof. intros Hb Ha Hl Hn. unfold sub. apply (bytes_sub_from n Hb); lia. Qed.
End SubLemmas.

(* ------------------------------------------------------------------------------------------ *)
(* block format: behaviour under appending a sequence                                          *)
(* ------------------------------------------------------------------------------------------ *)
Definition slen (ss : list seq) : Z := fold_right (fun s a => len (lits s) + mlen s + a) 0 ss.

Lemma slen_app a b : slen (a ++ b) = slen a + slen b.
Proof. unfold slen. induction a as [|x a IH]; cbn [app fold_right]; [reflexivity|]. rewrite IH. lia. Qed.

Lemma expand_app rd cap : forall a b r,
  expand rd cap r (a ++ b) =
  match expand rd cap r a with None => None | Some r' => expand rd cap r' b end.
Proof.
  induction a as [|s a IH]; intros b r; cbn [app expand]; [reflexivity|].
  destruct (exec_seq rd cap r s); [apply IH|reflexivity].
Qed.

Lemma strict_offsets_app : forall a b o,
  strict_offsets o (a ++ b) = strict_offsets o a && strict_offsets (o + slen a) b.
Proof.
  induction a as [|s a IH]; intros b o; cbn [app strict_offsets].
  - cbn. f_equal. lia.
  - rewrite IH.
    replace (o + slen (s :: a)) with (o + len (lits s) + mlen s + slen a)
      by (unfold slen; cbn [fold_right]; lia).
    rewrite <- !andb_assoc. reflexivity.
Qed.

Lemma last_match_start_snoc : forall a pos s,
  last_match_start pos (a ++ [s]) = pos + slen a + len (lits s).
Proof.
  induction a as [|x a IH]; intros pos s.
  - cbn. lia.
  - cbn [app last_match_start]. destruct (a ++ [s]) eqn:E.
    + destruct a; discriminate.
    + rewrite <- E. rewrite IH. unfold slen; cbn [fold_right]. lia.
Qed.

Lemma ser_seqs_some dstlen : forall ss di di', ser_seqs dstlen di ss = Some di' ->
  di' = di + len (flat_map enc_seq ss).
Proof.
  induction ss as [|s ss IH]; intros di di' H; cbn [ser_seqs flat_map] in *.
  - injection H as <-. rewrite len_nil. lia.
  - destruct (dstlen <? di + seq_size s) eqn:E; [discriminate|].
    apply IH in H. rewrite len_app. unfold seq_size in *. lia.
Qed.

Lemma ser_seqs_fits dstlen : forall ss di, di + len (flat_map enc_seq ss) <= dstlen ->
  ser_seqs dstlen di ss = Some (di + len (flat_map enc_seq ss)).
Proof.
  induction ss as [|s ss IH]; intros di H; cbn [ser_seqs flat_map] in *.
  - rewrite len_nil. f_equal. lia.
  - rewrite len_app in *. pose proof (len_nonneg (flat_map enc_seq ss)).
    unfold seq_size. destruct (dstlen <? di + len (enc_seq s)) eqn:E; [lia|].
    rewrite IH by lia. f_equal. lia.
Qed.

Lemma len_encode ss last :
  len (encode (ss, last)) = len (flat_map enc_seq ss) + (1 + len (extl (len last)) + len last).
Proof.
  unfold encode, enc_last. cbn [fst snd]. rewrite len_app, len_cons, len_app. lia.
Qed.

(* ------------------------------------------------------------------------------------------ *)
(* tables: every stored value is 0 or a position below the current one                         *)
(* ------------------------------------------------------------------------------------------ *)
Definition tv (si v : Z) : Prop := 0 <= v /\ (0 < v -> v < si).
Definition tinv (si : Z) (m : tbl) : Prop :=
  forall k v, PositiveMap.find k m = Some v -> tv si v.

Lemma tinv_empty si : tinv si (PositiveMap.empty Z).
Proof. intros k v H. rewrite PositiveMap.gempty in H. discriminate. Qed.

Lemma tinv_hfind si m k : tinv si m -> tv si (hfind m k).
Proof.
  intros H. unfold hfind. destruct (PositiveMap.find (Z.to_pos (k + 1)) m) as [v|] eqn:E.
  - eapply H; eassumption.
  - unfold tv; lia.
Qed.

Lemma tinv_hadd si m k v : tinv si m -> tv si v -> tinv si (hadd m k v).
Proof.
  intros H Hv p w. unfold hadd.
  destruct (Pos.eq_dec p (Z.to_pos (k + 1))) as [->|Hne].
  - rewrite PositiveMap.gss. intros [= <-]. exact Hv.
  - rewrite PositiveMap.gso by exact Hne. apply H.
Qed.

Lemma tv_mono si si' v : si <= si' -> tv si v -> tv si' v.
Proof. unfold tv; lia. Qed.

Lemma tinv_mono si si' m : si <= si' -> tinv si m -> tinv si' m.
Proof. intros Hle H k v Hf. eapply tv_mono; [exact Hle|]. eapply H; eassumption. Qed.

(* ------------------------------------------------------------------------------------------ *)
(* the match finder                                                                            *)
(* ------------------------------------------------------------------------------------------ *)
Section HCProofs.
Variable get : Z -> Z.
Variable n : Z.

Lemma eq_run_spec : forall k a b,
  0 <= eq_run get k a b <= Z.of_nat k /\
  forall j, 0 <= j < eq_run get k a b -> get (a + j) = get (b + j).
Proof.
  induction k as [|k IH]; intros a b; cbn [eq_run].
  - split; [lia|]. intros; lia.
  - destruct (get a =? get b) eqn:E.
    + destruct (IH (a + 1) (b + 1)) as [Hr Hj]. split; [lia|]. intros j Hj'.
      destruct (Z.eq_dec j 0) as [->|Hne]; [rewrite !Z.add_0_r; lia|].
      specialize (Hj (j - 1) ltac:(lia)).
      replace (a + j) with (a + 1 + (j - 1)) by lia.
      replace (b + j) with (b + 1 + (j - 1)) by lia. exact Hj.
    + split; [lia|intros; lia].
Qed.

Lemma hc_ml_spec : forall fuel next si ml,
  0 <= ml <= sn n - si + 7 ->
  (forall j, 0 <= j < ml -> get (next + j) = get (si + j)) ->
  ml <= hc_ml get n fuel next si ml <= sn n - si + 7 /\
  forall j, 0 <= j < hc_ml get n fuel next si ml -> get (next + j) = get (si + j).
Proof.
  induction fuel as [|f IH]; intros next si ml Hml Heq; cbn [hc_ml].
  - split; [lia|exact Heq].
  - destruct (ml <? sn n - si) eqn:E1; [|split; [lia|exact Heq]].
    destruct (eq_run_spec 8 (next + ml) (si + ml)) as [Hr Hj].
    assert (Hext : forall j, 0 <= j < ml + eq_run get 8 (next + ml) (si + ml) ->
                             get (next + j) = get (si + j)).
    { intros j Hjj. destruct (Z.lt_ge_cases j ml) as [Hlt|Hge]; [apply Heq; lia|].
      specialize (Hj (j - ml) ltac:(lia)).
      replace (next + j) with (next + ml + (j - ml)) by lia.
      replace (si + j) with (si + ml + (j - ml)) by lia. exact Hj. }
    destruct (eq_run get 8 (next + ml) (si + ml) =? 8) eqn:E2.
    + assert (E8 : eq_run get 8 (next + ml) (si + ml) = 8) by lia.
      rewrite E8 in Hext.
      destruct (IH next si (ml + 8) ltac:(lia) Hext) as [Hb Hq]. split; [lia|exact Hq].
    + split; [lia|exact Hext].
Qed.

(* what the walk hands back: no match, or a genuine match inside the window, ending 7 before n *)
Definition mgood (si mLen offset : Z) : Prop :=
  mLen = 0 \/
  (4 <= mLen /\ si + mLen <= n - 7 /\ 1 <= offset <= 65535 /\ offset <= si /\
   forall j, 0 <= j < mLen -> get (si - offset + j) = get (si + j)).

Lemma walk_spec : forall fuel chainT next try si mLen offset r,
  tinv si chainT -> tv si next -> 0 <= si < sn n -> mgood si mLen offset ->
  walk get n fuel chainT next try si mLen offset = Some r -> mgood si (fst r) (snd r).
Proof.
  induction fuel as [|f IH]; intros chainT next try si mLen offset r HcT Hnext Hsi Hg Hw;
    cbn [walk] in Hw; [discriminate|].
  unfold lz4block_winSize, lz4block_minMatch in Hw.
  destruct ((0 <? try) && (0 <? next) && (si - next <? 65536)) eqn:Ec.
  2:{ injection Hw as <-. exact Hg. }
  pose proof (tinv_hfind si chainT (Z.land next lz4block_winMask) HcT) as Hnxt.
  destruct (get (next + mLen) =? get (si + mLen)) eqn:Eg.
  - remember (hc_ml get n (Z.to_nat ((sn n - si) / 8 + 1)) next si 0) as ml eqn:Eml.
    destruct ((ml <? 4) || (ml <=? mLen)) eqn:Em.
    + eapply IH; eassumption.
    + eapply IH; [exact HcT|exact Hnxt|exact Hsi| |exact Hw].
      right.
      destruct (hc_ml_spec (Z.to_nat ((sn n - si) / 8 + 1)) next si 0) as [Hb Hq].
      * unfold sn, lz4block_mfLimit in *. lia.
      * intros j Hj. lia.
      * rewrite <- Eml in Hb, Hq. unfold tv in Hnext. unfold sn, lz4block_mfLimit in *.
        repeat split; try lia.
        intros j Hj. replace (si - (si - next) + j) with (next + j) by lia. apply Hq. exact Hj.
  - eapply IH; eassumption.
Qed.

Lemma walk_mlen_nonneg : forall fuel chainT next try si mLen offset r, 0 <= mLen ->
  walk get n fuel chainT next try si mLen offset = Some r -> 0 <= fst r.
Proof.
  induction fuel as [|f IH]; intros chainT next try si mLen offset r Hm Hw;
    cbn [walk] in Hw; [discriminate|].
  unfold lz4block_winSize, lz4block_minMatch in Hw.
  destruct ((0 <? try) && (0 <? next) && (si - next <? 65536)) eqn:Ec.
  2:{ injection Hw as <-. exact Hm. }
  destruct (get (next + mLen) =? get (si + mLen)) eqn:Eg.
  - remember (hc_ml get n (Z.to_nat ((sn n - si) / 8 + 1)) next si 0) as ml eqn:Eml.
    destruct ((ml <? 4) || (ml <=? mLen)) eqn:Em.
    + eapply IH; eassumption.
    + eapply IH; [|exact Hw]. lia.
  - eapply IH; eassumption.
Qed.

Lemma walk_fuel : forall fuel chainT next try si mLen offset, 0 <= try < Z.of_nat fuel ->
  walk get n fuel chainT next try si mLen offset <> None.
Proof.
  induction fuel as [|f IH]; intros chainT next try si mLen offset Ht; [lia|].
  cbn [walk].
  destruct ((0 <? try) && (0 <? next) && (si - next <? lz4block_winSize)) eqn:Ec; [|discriminate].
  destruct (get (next + mLen) =? get (si + mLen)).
  - match goal with |- context [if ?c then _ else _] => destruct c end; apply IH; lia.
  - apply IH; lia.
Qed.

Lemma insert_overlap_inv : forall cnt p m hT cT hT' cT' bound,
  0 <= p -> p + Z.of_nat cnt <= bound -> tinv bound hT -> tinv bound cT ->
  insert_overlap get cnt p m hT cT = (hT', cT') -> tinv bound hT' /\ tinv bound cT'.
Proof.
  induction cnt as [|c IH]; intros p m hT cT hT' cT' bound Hp Hb HhT HcT Hi; cbn [insert_overlap] in Hi.
  - injection Hi as <- <-. split; assumption.
  - eapply IH; [| | | |exact Hi]; try lia.
    + apply tinv_hadd; [exact HhT|]. unfold tv; lia.
    + apply tinv_hadd; [exact HcT|]. apply tinv_hfind. exact HhT.
Qed.
End HCProofs.

(* ------------------------------------------------------------------------------------------ *)
(* the main loop                                                                               *)
(* ------------------------------------------------------------------------------------------ *)
Section HCLoop.
Variable get : Z -> Z.
Variable n : Z.
Variable depth0 : Z.
Variable wfuel : nat.
Hypothesis Hbytes : bytes_fn get n.

(* what the parser delivers: sequences decoding to src[0..anchor), strictly valid so far *)
Definition pgood (ss : list seq) (anchor : Z) : Prop :=
  0 <= anchor <= n /\ Forall wf_seq ss /\ slen ss = anchor /\
  expand [] n [] ss = Some (rev (sub get 0 anchor)) /\
  strict_offsets 0 ss = true /\
  (ss <> [] -> anchor + 7 <= n /\ last_match_start 0 ss + 12 <= n).

Definition linv (si anchor : Z) (hashT chainT : tbl) (acc : list seq) : Prop :=
  anchor <= si /\ tinv si hashT /\ tinv si chainT /\ pgood (rev acc) anchor.

Lemma pgood_snoc ss anchor si mLen offset :
  pgood ss anchor -> anchor <= si -> 0 <= si < sn n -> mgood get n si mLen offset -> mLen <> 0 ->
  pgood (ss ++ [mkseq (sub get anchor (si - anchor)) offset mLen]) (si + mLen).
Proof.
  intros (Ha & Hwf & Hsl & Hex & Hst & Hne) Hasi Hsi [Hm0|(Hm4 & Hend & Hoff & Hosi & Heq)] Hmne;
    [contradiction|].
  unfold sn, lz4block_mfLimit in Hsi.
  assert (Hll : len (sub get anchor (si - anchor)) = si - anchor) by (apply len_sub; lia).
  repeat split.
  - lia.
  - lia.
  - apply Forall_app. split; [exact Hwf|]. constructor; [|constructor].
    unfold wf_seq. cbn [lits off mlen]. repeat split; try lia.
    apply (bytes_sub get n _ _ Hbytes); lia.
  - rewrite slen_app. unfold slen at 2. cbn [fold_right lits mlen]. rewrite Hll. lia.
  - rewrite expand_app, Hex. cbn [expand]. unfold exec_seq. cbn [lits off mlen].
    rewrite rev_append_rev, <- rev_app_distr, <- (sub_split get anchor si) by lia.
    rewrite len_rev, len_sub by lia.
    destruct (n <? si) eqn:E1; [lia|].
    rewrite (copy_match_sub get (Z.to_nat mLen) si offset).
    + rewrite Z2Nat.id by lia. rewrite len_rev, len_sub by lia.
      destruct (n <? si + mLen) eqn:E2; [lia|]. reflexivity.
    + lia.
    + intros k Hk. rewrite <- Heq by lia. f_equal. lia.
  - rewrite strict_offsets_app, Hst, Hsl. cbn [strict_offsets lits off mlen andb].
    rewrite Hll. lia.
  - lia.
  - rewrite last_match_start_snoc. cbn [lits]. rewrite Hll, Hsl. lia.
Qed.

Lemma hloop_spec : forall fuel si anchor hashT chainT acc ss a,
  linv si anchor hashT chainT acc ->
  hloop get n depth0 wfuel fuel si anchor hashT chainT acc = POk ss a -> pgood ss a.
Proof.
  induction fuel as [|f IH]; intros si anchor hashT chainT acc ss a (Hasi & HhT & HcT & Hpg) Hl;
    cbn [hloop] in Hl; [discriminate|].
  destruct (sn n <=? si) eqn:Esn.
  { injection Hl as <- <-. rewrite <- rev_alt. exact Hpg. }
  assert (Hsi : 0 <= si < sn n) by (destruct Hpg as (Ha & _); lia).
  remember (lz4block_blockHashHC (load32 get si)) as h eqn:Eh.
  pose proof (tinv_hfind si hashT h HhT) as Hcand.
  destruct (walk get n wfuel chainT (hfind hashT h) (depth depth0) si 0 0) as [[mLen offset]|] eqn:Ew;
    [|discriminate].
  pose proof (walk_spec get n _ _ _ _ _ _ _ _ HcT Hcand Hsi (or_introl eq_refl) Ew) as Hg.
  cbn [fst snd] in Hg.
  assert (HhT1 : tinv (si + 1) (hadd hashT h si)).
  { apply tinv_hadd; [eapply tinv_mono; [|exact HhT]; lia|unfold tv; lia]. }
  assert (HcT1 : tinv (si + 1) (hadd chainT (Z.land si lz4block_winMask) (hfind hashT h))).
  { apply tinv_hadd; [eapply tinv_mono; [|exact HcT]; lia|eapply tv_mono; [|exact Hcand]; lia]. }
  destruct (mLen =? 0) eqn:Em0.
  - eapply IH; [|exact Hl].
    assert (0 <= Z.shiftr (si - anchor) adaptSkipLogHC) by (apply Z.shiftr_nonneg; lia).
    refine (conj _ (conj _ (conj _ _))).
    + lia.
    + eapply tinv_mono; [|exact HhT1]; lia.
    + eapply tinv_mono; [|exact HcT1]; lia.
    + exact Hpg.
  - assert (Hm : 4 <= mLen) by (destruct Hg as [Hg|Hg]; [lia|tauto]).
    match type of Hl with context [insert_overlap ?g ?c ?p ?m ?a ?b] =>
      destruct (insert_overlap g c p m a b) as [hT' cT'] eqn:Eio end.
    eapply IH; [|exact Hl].
    apply insert_overlap_inv with (bound := si + mLen) in Eio.
    + destruct Eio as [H1 H2]. refine (conj _ (conj H1 (conj H2 _))); [lia|].
      cbn [rev]. apply pgood_snoc; try assumption. lia.
    + unfold lz4block_winSize. destruct (si + 1 <? si + mLen - 65536) eqn:Ews; lia.
    + unfold lz4block_winSize. destruct (si + 1 <? si + mLen - 65536) eqn:Ews; lia.
    + eapply tinv_mono; [|exact HhT1]; lia.
    + eapply tinv_mono; [|exact HcT1]; lia.
Qed.

Lemma parse_hc_spec ss a : 0 <= n -> parse_hc get n depth0 wfuel = POk ss a -> pgood ss a.
Proof.
  intros Hn. unfold parse_hc.
  assert (Hnil : pgood [] 0).
  { unfold pgood. repeat split; try lia; try reflexivity; try constructor; congruence. }
  destruct (sn n <=? 0) eqn:E.
  - intros [= <- <-]. exact Hnil.
  - apply hloop_spec. refine (conj _ (conj _ (conj _ _))); try apply tinv_empty; [lia|exact Hnil].
Qed.
End HCLoop.

(* ------------------------------------------------------------------------------------------ *)
(* serialisation and the top-level theorems                                                    *)
(* ------------------------------------------------------------------------------------------ *)
Lemma finish_hc_ok n dstlen ss anchor last b : finish_hc n dstlen ss anchor last = COk b ->
  b = encode (ss, last) /\
  len (flat_map enc_seq ss) + (1 + len (extl (n - anchor))) + (n - anchor) <= dstlen.
Proof.
  unfold finish_hc. intros H.
  destruct (ser_seqs dstlen 0 ss) as [di|] eqn:Es; [|discriminate].
  apply ser_seqs_some in Es.
  destruct ((0 <? sn n) && (dstlen <? lz4block_CompressBlockBound n) && (anchor =? 0)); [discriminate|].
  destruct (dstlen <? di + (1 + len (extl (n - anchor)))) eqn:E1; [discriminate|].
  destruct ((dstlen <? lz4block_CompressBlockBound n) && (anchor <=? di + (1 + len (extl (n - anchor)))));
    [discriminate|].
  destruct (dstlen <? di + (1 + len (extl (n - anchor))) + (n - anchor)) eqn:E2; [discriminate|].
  injection H as <-. split; [reflexivity|lia].
Qed.

Lemma finish_hc_big n dstlen ss anchor last : 0 <= n ->
  len (encode (ss, last)) <= dstlen -> len last = n - anchor ->
  lz4block_CompressBlockBound n <= dstlen ->
  finish_hc n dstlen ss anchor last = COk (encode (ss, last)).
Proof.
  intros Hn Hlen Hlast Hb. unfold finish_hc.
  rewrite len_encode, Hlast in Hlen.
  pose proof (len_nonneg (extl (n - anchor))) as Hx. pose proof (len_nonneg last) as Hl0.
  rewrite ser_seqs_fits by lia. rewrite Z.add_0_l.
  destruct (dstlen <? lz4block_CompressBlockBound n) eqn:Enotc; [lia|].
  rewrite andb_false_r. cbn [andb].
  destruct (dstlen <? len (flat_map enc_seq ss) + (1 + len (extl (n - anchor)))) eqn:E1; [lia|].
  destruct (dstlen <? len (flat_map enc_seq ss) + (1 + len (extl (n - anchor))) + (n - anchor)) eqn:E2;
    [lia|]. reflexivity.
Qed.

(* the parse the compressor emits, with everything the specification asks of it *)
Lemma hc_parse_good get n depth0 wfuel ss anchor : 0 <= n -> bytes_fn get n ->
  parse_hc get n depth0 wfuel = POk ss anchor ->
  let p := (ss, sub get anchor (n - anchor)) in
  0 <= anchor <= n /\ wf_parse p /\ strict p = true /\ total_len p = n /\
  expand_parse [] n [] p = Some (rev (sub get 0 n)).
Proof.
  intros Hn Hb Hp. apply parse_hc_spec in Hp; [|exact Hb|exact Hn].
  destruct Hp as (Ha & Hwf & Hsl & Hex & Hst & Hne).
  assert (Hll : len (sub get anchor (n - anchor)) = n - anchor) by (apply len_sub; lia).
  assert (Htl : total_len (ss, sub get anchor (n - anchor)) = n).
  { change (total_len (ss, sub get anchor (n - anchor)))
      with (slen ss + len (sub get anchor (n - anchor))). lia. }
  cbv zeta. refine (conj Ha (conj _ (conj _ (conj Htl _)))).
  - split; cbn [fst snd]; [exact Hwf|]. apply (bytes_sub get n _ _ Hb); lia.
  - unfold strict. rewrite Htl. cbn [fst snd]. rewrite Hst. cbn [andb].
    destruct ss as [|s ss']; [reflexivity|].
    destruct Hne as [H7 H12]; [discriminate|]. rewrite Hll. lia.
  - unfold expand_parse. cbn [fst snd]. rewrite Hex.
    rewrite rev_append_rev, <- rev_app_distr, <- (sub_split get anchor n) by lia.
    rewrite len_rev, len_sub by lia. rewrite Z.ltb_irrefl. reflexivity.
Qed.

Section WithBound.
Hypothesis encode_bound : encode_bound_stmt.

Theorem hc_sound : hc_sound_stmt.
Proof.
  intros get n depth0 wfuel dstlen b Hn Hb Hd H. unfold compress_hc in H.
  destruct (parse_hc get n depth0 wfuel) as [| |ss anchor] eqn:Ep; try discriminate.
  apply hc_parse_good in Ep; [|exact Hn|exact Hb].
  destruct Ep as (Ha & Hwf & Hst & Htl & Hex).
  apply finish_hc_ok in H. destruct H as [-> Hfit].
  assert (Hll : len (sub get anchor (n - anchor)) = n - anchor) by (apply len_sub; lia).
  unfold good_block. rewrite len_sub by lia.
  exists (ss, sub get anchor (n - anchor)).
  refine (conj eq_refl (conj Hwf (conj Hst (conj Htl (conj Hex _))))).
  rewrite len_encode, Hll.
  pose proof (len_nonneg (flat_map enc_seq ss)). pose proof (len_nonneg (extl (n - anchor))). lia.
Qed.

Theorem hc_small_only : hc_small_only_stmt.
Proof.
  intros get n depth0 wfuel dstlen Hn Hb Hd H.
  destruct (Z.lt_ge_cases dstlen (lz4block_CompressBlockBound n)) as [Hlt|Hge]; [exact Hlt|exfalso].
  unfold compress_hc in H.
  destruct (parse_hc get n depth0 wfuel) as [| |ss anchor] eqn:Ep;
    [destruct H; discriminate|destruct H; discriminate|].
  apply hc_parse_good in Ep; [|exact Hn|exact Hb].
  destruct Ep as (Ha & Hwf & Hst & Htl & Hex).
  pose proof (encode_bound _ Hwf) as Hbd. rewrite Htl in Hbd.
  rewrite finish_hc_big in H.
  - destruct H; discriminate.
  - exact Hn.
  - unfold lz4block_CompressBlockBound in Hge. rewrite Z.quot_div_nonneg in Hge by lia. lia.
  - apply len_sub; lia.
  - exact Hge.
Qed.
End WithBound.

(* ---- no panic ---- *)
Lemma hloop_nopanic get n depth0 wfuel : forall fuel si anchor hashT chainT acc,
  hloop get n depth0 wfuel fuel si anchor hashT chainT acc <> PPanic.
Proof.
  induction fuel as [|f IH]; intros si anchor hashT chainT acc; cbn [hloop]; [discriminate|].
  destruct (sn n <=? si); [discriminate|].
  destruct (walk get n wfuel chainT _ (depth depth0) si 0 0) as [[mLen offset]|]; [|discriminate].
  destruct (mLen =? 0); [apply IH|].
  match goal with |- context [insert_overlap ?g ?c ?p ?m ?a ?b] =>
    destruct (insert_overlap g c p m a b) as [hT' cT'] end.
  apply IH.
Qed.

Theorem hc_nopanic : hc_nopanic_stmt.
Proof.
  intros get n depth0 wfuel dstlen. unfold compress_hc.
  destruct (parse_hc get n depth0 wfuel) as [| |ss anchor] eqn:Ep.
  - exfalso. revert Ep. unfold parse_hc. destruct (sn n <=? 0); [discriminate|]. apply hloop_nopanic.
  - discriminate.
  - unfold finish_hc.
    destruct (ser_seqs dstlen 0 ss) as [di|]; [|discriminate].
    repeat match goal with |- context [if ?c then _ else _] => destruct c; try discriminate end.
Qed.

(* ---- no hang ---- *)
Lemma hloop_nohang get n depth0 wfuel : 0 <= depth depth0 < Z.of_nat wfuel ->
  forall fuel si anchor hashT chainT acc, anchor <= si -> 0 < Z.of_nat fuel -> sn n - si < Z.of_nat fuel ->
  hloop get n depth0 wfuel fuel si anchor hashT chainT acc <> PHang.
Proof.
  intros Hd.
  induction fuel as [|f IH]; intros si anchor hashT chainT acc Hasi Hf0 Hf; cbn [hloop]; [lia|].
  destruct (sn n <=? si) eqn:Esn; [discriminate|].
  destruct (walk get n wfuel chainT (hfind hashT (lz4block_blockHashHC (load32 get si)))
              (depth depth0) si 0 0) as [[mLen offset]|] eqn:Ew.
  2:{ exfalso. revert Ew. apply walk_fuel. exact Hd. }
  apply walk_mlen_nonneg in Ew; [|lia]. cbn [fst] in Ew.
  destruct (mLen =? 0) eqn:Em0.
  - assert (0 <= Z.shiftr (si - anchor) adaptSkipLogHC) by (apply Z.shiftr_nonneg; lia).
    apply IH; lia.
  - match goal with |- context [insert_overlap ?g ?c ?p ?m ?a ?b] =>
      destruct (insert_overlap g c p m a b) as [hT' cT'] end.
    apply IH; lia.
Qed.

Theorem hc_nohang : hc_nohang_stmt.
Proof.
  intros get n depth0 wfuel dstlen Hn Hd Hw. unfold compress_hc.
  destruct (parse_hc get n depth0 wfuel) as [| |ss anchor] eqn:Ep.
  - discriminate.
  - exfalso. revert Ep. unfold parse_hc. destruct (sn n <=? 0); [discriminate|].
    apply hloop_nohang.
    + unfold depth, lz4block_winSize. destruct (depth0 =? 0) eqn:E0; lia.
    + lia.
    + lia.
    + unfold sn, lz4block_mfLimit. lia.
  - unfold finish_hc.
    destruct (ser_seqs dstlen 0 ss) as [di|]; [|discriminate].
    repeat match goal with |- context [if ?c then _ else _] => destruct c; try discriminate end.
Qed.

Print Assumptions hc_sound.
Print Assumptions hc_small_only.
Print Assumptions hc_nopanic.
Print Assumptions hc_nohang.
Check (hc_sound : hc_sound_stmt).
Check (hc_small_only : encode_bound_stmt -> hc_small_only_stmt).
Check (hc_nopanic : hc_nopanic_stmt).
Check (hc_nohang : hc_nohang_stmt).
