(* FrameTheoremsSpec.v — statements of the frame-layer theorems (C02 C05 C06 C07 C09 C14 C15 C16 C18).
   Proofs are in WriterProofs.v / ReaderProofs.v / CReaderProofs.v / FrameEncodeProofs.v. *)
From LZ4V Require Import Base GenBlock GenStream GenLz4 XXH32 BlockFormat BlockExec CompressFast FrameSpec FrameImpl Writer Reader CReader.

Definition s0 : sink := mksink [] 0 0.
Definition src_of (l : list Z) : source := mksrc l 0 0 0.

(* data cut into blocks of bsz bytes (the last one shorter, none empty) *)
Fixpoint chunks (fuel : nat) (bsz : Z) (data : list Z) : list (list Z) :=
  match fuel with O => [] | S f =>
    match data with
    | [] => []
    | _ => if len data <=? bsz then [data]
           else firstn (Z.to_nat bsz) data :: chunks f bsz (skipn (Z.to_nat bsz) data)
    end
  end.
Definition bsz_of (o : fopts) : Z := bsize_of_idx (lz4stream_DescriptorFlags_BlockSizeIndex (initw_flags o)).

(* the frame for options o whose blocks hold the given segments (each segment is what was pending
   at a Flush or at Close; without Flush there is one segment) *)
Definition frame_of_segments (o : fopts) (segs : list (list Z)) : list Z :=
  header_bytes o
  ++ concat (flat_map (block_writes o) (flat_map (fun s => chunks (S (length s)) (bsz_of o) s) segs))
  ++ concat (close_writes o (concat segs)).
Definition frame_encode (o : fopts) (data : list Z) : list Z := frame_of_segments o [data].

(* a session: Apply os, then writes and flushes, then Close *)
Inductive item := IWrite (d : list Z) | IFlush.
Definition item_op (i : item) : wop := match i with IWrite d => WWrite d | IFlush => WFlush end.
Definition item_res (i : item) : wres := match i with IWrite d => RNE (len d) ENil | IFlush => RE ENil end.
(* segments: the data between flushes *)
Fixpoint segs_of (items : list item) (cur : list Z) : list (list Z) :=
  match items with
  | [] => [cur]
  | IWrite d :: r => segs_of r (cur ++ d)
  | IFlush :: r => cur :: segs_of r []
  end.
Definition data_of (items : list item) : list Z := concat (segs_of items []).

(* options as applied to a new Writer *)
Definition opts_after (os : list wopt) : option fopts :=
  let '(w, r) := wstep (new_writer s0) (WApply os) s0 in
  match r with RE ENil => Some (w_opts w) | _ => None end.

(* NOTE on Flush: a Flush cuts a block only where data is pending, i.e. segments are taken modulo
   full blocks already emitted; the precise statement therefore describes blocks through
   [pending_segs]: the sequence of blocks actually emitted *)
Fixpoint blocks_of (bsz : Z) (items : list item) (pend : list Z) : list (list Z) :=
  match items with
  | [] => match pend with [] => [] | _ => [pend] end
  | IFlush :: r => match pend with [] => blocks_of bsz r [] | _ => pend :: blocks_of bsz r [] end
  | IWrite d :: r =>
    let all := pend ++ d in
    let full := chunks (S (length all)) bsz all in
    (* every chunk of exactly bsz bytes is emitted at once; a shorter last chunk stays pending *)
    let emit := filter (fun c => len c =? bsz) full in
    let rest := match rev full with c :: _ => if len c =? bsz then [] else c | [] => [] end in
    emit ++ blocks_of bsz r rest
  end.
Definition frame_of_items (o : fopts) (items : list item) : list Z :=
  header_bytes o ++ concat (flat_map (block_writes o) (blocks_of (bsz_of o) items []))
  ++ concat (close_writes o (data_of items)).

(* W1 (C02/C09/C14 writer side): every operation of a well-formed fault-free session succeeds and
   the sink holds exactly the frame of the emitted blocks *)
Definition writer_session_stmt : Prop :=
  forall os items o, opts_after os = Some o -> Forall (fun i => match i with IWrite d => bytes d | IFlush => True end) items ->
  let '(w, res) := run_writer (new_writer s0) (WApply os :: map item_op items ++ [WClose]) s0 in
  res = RE ENil :: map item_res items ++ [RE ENil] /\
  sink_bytes (w_sink w) = frame_of_items o items /\ w_state w = lz4_closedState.
(* W2 (C14): without Flush the output depends only on the concatenation of the writes *)
Definition writer_chunking_stmt : Prop :=
  forall o ds, frame_of_items o (map IWrite ds) = frame_encode o (concat ds).
(* W3: ReadFrom of a source holding data *)
Definition writer_readfrom_stmt : Prop :=
  forall os o data, opts_after os = Some o -> bytes data ->
  let '(w, res) := run_writer (new_writer s0) [WApply os; WReadFrom data; WClose] s0 in
  res = [RE ENil; RNE (len data) ENil; RE ENil] /\ sink_bytes (w_sink w) = frame_encode o data.
(* W4 (C15): a sink failing at its k-th call is reported by some operation, by Close at the latest,
   and what reached the sink is a prefix of the fault-free output *)
Definition is_prefix (a b : list Z) : Prop := exists c, b = a ++ c.
Definition writer_fault_stmt : Prop :=
  forall os items o k, opts_after os = Some o -> 0 < k ->
  let ops := WApply os :: map item_op items ++ [WClose] in
  let '(w, res) := run_writer (new_writer (mksink [] 0 k)) ops s0 in
  let '(w', _) := run_writer (new_writer s0) ops s0 in
  is_prefix (sink_bytes (w_sink w)) (sink_bytes (w_sink w')) /\
  (k <= sk_calls (w_sink w') -> exists r, In r res /\ (r = RE EInjected \/ exists n, r = RNE n EInjected)).

(* R1 (C05 + completeness): on every byte string, the Reader reports a clean end of stream exactly
   when the (non-strict, decoded-domain) frame specification accepts, with the same content and
   the same number of consumed bytes *)
Definition modern (o : fopts) : Prop := fo_legacy o = false.
Definition reader_sound_stmt : Prop :=
  forall input r' n out, bytes input ->
  rstep (new_reader (src_of input)) RWriteTo = (r', RRes n ENil out) ->
  frame_spec Decoded false input = Some (out, s_consumed (r_src r')) /\ n = len out.
Definition reader_complete_stmt : Prop :=
  forall input out k, bytes input ->
  frame_spec Decoded false input = Some (out, k) ->
  exists r', rstep (new_reader (src_of input)) RWriteTo = (r', RRes (len out) ENil out) /\ s_consumed (r_src r') = k
             /\ r_state r' = lz4_closedState.
(* R2 (C07): totality — the model never runs out of fuel (the only source of EOther): every call returns *)
Definition reader_total_stmt : Prop :=
  forall input op r' res, bytes input -> rstep (new_reader (src_of input)) op = (r', res) ->
  match res with RRes _ e _ => e <> EOther | RErr e => e <> EOther | _ => True end.
(* R3: Read with any positive buffer size delivers the same content as WriteTo *)
Fixpoint read_until (fuel : nat) (r : reader) (n : Z) (acc : list Z) : reader * list Z * ecls :=
  match fuel with O => (r, acc, EOther) | S f =>
    match rstep r (RRead n) with
    | (r1, RRes _ ENil d) => read_until f r1 n (acc ++ d)
    | (r1, RRes _ e d) => (r1, acc ++ d, e)
    | (r1, _) => (r1, acc, EOther)
    end
  end.
Definition reader_read_eq_writeto_stmt : Prop :=
  forall input n r' m e out, bytes input -> 0 < n ->
  rstep (new_reader (src_of input)) RWriteTo = (r', RRes m e out) -> e <> EOther ->
  exists r'', read_until (S (length input) + S (length out)) (new_reader (src_of input)) n [] =
              (r'', out, match e with ENil => EEOF | _ => e end).

(* S1 (C09): what the Writer emits is accepted by the strict specification (block checksums in the
   decoded domain, finding F10) with the input as content, when the configured size is absent or right *)
Definition encode_spec_stmt : Prop :=
  forall o data, modern o -> bytes data -> (fo_csize o = 0 \/ fo_csize o = len data) ->
  lz4block_BlockSizeIndex_IsValid (lz4stream_DescriptorFlags_BlockSizeIndex (fo_flags o)) = true ->
  0 <= fo_flags o < 65536 -> 0 <= fo_csize o < 18446744073709551616 ->
  (fo_level o = lz4block_Fast \/ 0 < fo_level o <= 131072) ->
  frame_spec Decoded true (frame_encode o data) = Some (data, len (frame_encode o data)).

(* T1 (C06): every strict prefix of an emitted frame ends with an error that is not a clean end,
   having delivered a prefix of the content *)
Definition truncation_stmt : Prop :=
  forall o data k r' n e out, modern o -> bytes data ->
  lz4block_BlockSizeIndex_IsValid (lz4stream_DescriptorFlags_BlockSizeIndex (fo_flags o)) = true ->
  0 <= fo_flags o < 65536 -> 0 <= fo_csize o < 18446744073709551616 ->
  (fo_level o = lz4block_Fast \/ 0 < fo_level o <= 131072) ->
  (1 <= k < length (frame_encode o data))%nat ->
  rstep (new_reader (src_of (firstn k (frame_encode o data)))) RWriteTo = (r', RRes n e out) ->
  e <> ENil /\ e <> EEOF /\ is_prefix out data.
(* T2 (C15): a source failing at its k-th call: the injected error (never a clean end) is returned
   unless the stream was already complete, and a prefix of the content has been delivered *)
Definition source_fault_stmt : Prop :=
  forall input k r' n e out r0 n0 e0 out0, bytes input -> 0 < k ->
  rstep (new_reader (mksrc input 0 k 0)) RWriteTo = (r', RRes n e out) ->
  rstep (new_reader (src_of input)) RWriteTo = (r0, RRes n0 e0 out0) ->
  is_prefix out out0 /\ (e = EInjected \/ (e = e0 /\ out = out0)).

(* C1 (C18): the compressing reader, for any sequence of buffer sizes and a fault-free source *)
Definition creader_stmt : Prop :=
  forall os c data sizes, bytes data -> Forall (fun k => 0 <= k) sizes ->
  new_creader (src_of data) os = (c, ENil) ->
  let '(c', rs, out) := run_creader c sizes in
  is_prefix out (frame_encode (c_fo c) data) /\
  Forall2 (fun k r => 0 <= fst r <= k) (firstn (length rs) sizes) rs /\
  (forall i k n e, nth_error sizes i = Some k -> nth_error rs i = Some (n, e) -> 0 < k -> 0 < n \/ e <> ENil) /\
  (forall n, In (n, EEOF) rs -> out = frame_encode (c_fo c) data) /\
  (forall n e, In (n, e) rs -> e = ENil \/ e = EEOF).
(* C2: with enough reads of a positive size the whole frame is delivered and then io.EOF *)
Fixpoint cr_read_all (fuel : nat) (c : creader) (k : Z) (acc : list Z) : list Z * ecls :=
  match fuel with O => (acc, EOther) | S f =>
    let '(c1, b, e) := cr_read c k in
    match e with ENil => cr_read_all f c1 k (acc ++ b) | _ => (acc ++ b, e) end
  end.
Definition creader_complete_stmt : Prop :=
  forall os c data k, bytes data -> 0 < k -> new_creader (src_of data) os = (c, ENil) ->
  cr_read_all (S (S (length (frame_encode (c_fo c) data)))) c k [] = (frame_encode (c_fo c) data, EEOF).
