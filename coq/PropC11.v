(* C11 — Block compressors honour the destination-buffer contract. *)
From LZ4V Require Import Base GenBlock BlockFormat CompressFast CompressFastTable CompressHC CompressHCTop CompressSpec CompressFastProofs CompressHCProofs Bound BlockTheoremsSpec BlockTheorems.
(* never a panic, never a hang; count <= len(dst) (a positive result is a block of length <= dstlen);
   zero/error only below CompressBlockBound; a positive count is a complete block for the whole source *)
Theorem C11_fast : forall st, contract_stmt (fun src dstlen => compress_fast_list src st dstlen).
Proof. exact fast_contract. Qed.
Print Assumptions C11_fast.
Theorem C11_hc : forall depth, 0 <= depth -> contract_stmt (fun src dstlen => compress_hc_list src depth dstlen).
Proof. exact hc_contract. Qed.
Print Assumptions C11_hc.
(* the size bound the contract rests on *)
Theorem C11_bound : forall p, wf_parse p -> len (encode p) <= lz4block_CompressBlockBound (total_len p).
Proof. exact encode_bound_go. Qed.
Print Assumptions C11_bound.
(* the fast compressor's memory safety does not depend on the input being bytes, only on the table
   discipline; stated for the concrete table *)
Theorem C11_fast_nopanic : fast_nopanic_stmt.  Proof. exact fast_nopanic. Qed.
Print Assumptions C11_fast_nopanic.
