(* C11 — Block compressors honour the destination-buffer contract. *)
From LZ4V Require Import Base GenBlock BlockFormat CompressFast CompressFastTable CompressHC CompressHCTop CompressSpec CompressFastProofs CompressHCProofs Bound BlockTheoremsSpec BlockTheorems.
(* never a panic, never a hang; count <= len(dst) (a positive result is a block of length <= dstlen);
   zero/error only below CompressBlockBound; a positive count is a complete block for the whole source *)
Theorem C11_fast : forall st, contract_stmt (fun src dstlen => compress_fast_list src st dstlen).
Proof. exact fast_contract. Qed.
Print Assumptions C11_fast.
Theorem C11_hc : forall depth, 0 <= depth -> contract_stmt (fun src dstlen => compress_hc_list src depth dstlen).
Proof. exact hc_contract. Qed.
Print Assumptions C11_hc.
(* the size bound the contract rests on *)
Theorem C11_bound : forall p, wf_parse p -> len (encode p) <= lz4block_CompressBlockBound (total_len p).
Proof. exact encode_bound_go. Qed.
Print Assumptions C11_bound.
(* the fast compressor's memory safety does not depend on the input being bytes, only on the table
   discipline; stated for the concrete table *)
Theorem C11_fast_nopanic : fast_nopanic_stmt.  Proof. exact fast_nopanic. Qed.
Print Assumptions C11_fast_nopanic.

(* ---- the fast compressor AS TRANSLATED from block.go on this run (GenCompressBody.v) ----
   the translated CompressBlockBound and blockHash are the functions the models are built from, and for
   every source of at most 14 bytes (the `goto lastLiterals` path: no match is possible) the translated
   method agrees with the model for EVERY destination, spare capacity, prior object state and fuel:
   (0, nil) below the bound, else the block `token, literals` written to dst and nothing else. *)
From LZ4V Require Import GoT GenCompressBody GenCompressBodyProofs.
Theorem C11_translated_bound : forall n, - 2 ^ 61 <= n <= 2 ^ 61 ->
  GenCompressBody.lz4block_CompressBlockBound n = GenBlock.lz4block_CompressBlockBound n.
Proof. exact CompressBlockBound_eq. Qed.
Print Assumptions C11_translated_bound.
Theorem C11_translated_short_sources : forall fuel s0 table src src_spare dst dst_spare,
  zlen src <= 14 ->
  agrees (run_model table src dst)
         (lz4block_Compressor_CompressBlock fuel
            (init_lz4block_Compressor_CompressBlock_fresh src src_spare dst dst_spare s0))
         dst dst_spare = true.
Proof. exact short_src_refines. Qed.
Print Assumptions C11_translated_short_sources.

(* the epilogue (label lastLiterals) of the translated method, for ANY state that reaches it: its outcome
   follows exactly the branches of the model's finish_fast after the sequences were written up to di
   ((0, nil) for an incompressible input, (0, ErrInvalidSourceShortBuffer) when token, length bytes or the
   literals do not fit, else n = di + header + literals with dst = the old prefix, the encoded last literals, the
   old tail — tail_post), never a panic, never out of fuel, nothing written beyond len(dst).  The statement
   is about the definition the translator GENERATED for the code after the label. *)
From LZ4V Require Import GenCompressBodyLoop.
Theorem C11_translated_epilogue :
  forall (src ssp : list Z) (dl dsp a : Z) (notc : bool),
    0 <= a <= zlen src -> 0 <= dsp -> zlen src + dl + dsp < 2 ^ 61 ->
  forall (fuel : nat) (s : state) (D : list Z) (di : Z),
    frame src ssp dl dsp s -> m_dst s = D -> zlen D = dl + dsp ->
    f_anchor s = a -> f_di s = di -> f_notc s = notc ->
    0 <= di -> (Z.to_nat dl < fuel)%nat ->
    ret_sat (lz4block_Compressor_CompressBlock_at_lastLiterals fuel s) (tail_post src D dl a di notc).
Proof. exact tail_exec. Qed.
Print Assumptions C11_translated_epilogue.
(* what is left of the equality between the translated method and the model: sources longer than 14 bytes *)
Theorem C11_translated_reduction : refines_long_stmt -> refines_stmt.
Proof. exact refines_partial. Qed.
Print Assumptions C11_translated_reduction.

(* ---- THE WHOLE METHOD: the fast compressor AS TRANSLATED from block.go on this run equals the model ----
   C11_translated_equals_model: for every prior content of the object's table and bitmap, every source,
   every destination (any length, any prior contents, any spare capacity) and enough fuel, the translated
   Compressor.CompressBlock and the model compress_fast_list agree: same count, same error, same bytes written
   (a run-time panic exactly where the model has one, which C11_fast excludes).
   C11_translated_contract: hence the destination contract holds of the translated code itself: it returns
   (never panics, never runs out of fuel); either err = nil and n > 0, n <= len(dst), dst = block ++ untouched
   rest, the block parses back strictly and decodes to exactly the source; or n = 0 with err nil or
   ErrInvalidSourceShortBuffer and len(dst) < CompressBlockBound(len(src)). *)
From LZ4V Require Import GenCompressBodyMain GenCompressBodyCorollaries.
(* refines_stmt (GenCompressBodyProofs.v) is: forall fuel table inUse src src_spare dst dst_spare, under the
   well-formedness hypotheses listed in C11_translated_contract's statement,
   agrees (compress_fast_list src (znth table) (zlen dst)) (the translated method run on these inputs) dst dst_spare = true *)
Theorem C11_translated_equals_model : refines_stmt.
Proof. exact refines_all. Qed.
Print Assumptions C11_translated_equals_model.
Theorem C11_translated_contract : translated_contract_stmt.
Proof. exact translated_contract. Qed.
Print Assumptions C11_translated_contract.
