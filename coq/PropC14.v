(* C14 — Compression is deterministic: output depends only on input and settings. *)
From LZ4V Require Import Base GenBlock BlockFormat CompressFast CompressFastTable CompressHC CompressHCTop CompressSpec CompressFastProofs
  BlockTheoremsSpec BlockTheorems FrameImpl Writer FrameTheoremsSpec WriterProofs PipeW PipeWSpec PipeWProofs.

(* fast compressor: whatever the object's table held before (reset clears only the in-use bitmap),
   the same source and destination size give the same result *)
Theorem C14_fast_state : fast_state_indep_stmt.   Proof. exact fast_state_indep. Qed.
Print Assumptions C14_fast_state.
(* HC compressor: every reachable object (fresh, or used before) behaves as a fresh one *)
Theorem C14_hc_state : forall o src depth dstlen, hc_reachable o ->
  fst (compress_hc_obj o src depth dstlen) = compress_hc_list src depth dstlen /\ hc_reachable (snd (compress_hc_obj o src depth dstlen)).
Proof. exact hc_state_indep. Qed.
Print Assumptions C14_hc_state.
(* frames: without Flush the emitted frame depends only on the concatenation of the writes *)
Theorem C14_chunking : forall os o ds, opts_after os = Some o ->
  frame_of_items o (map IWrite ds) = frame_encode o (concat ds).
Proof. exact writer_chunking_opts. Qed.
Print Assumptions C14_chunking.
(* concurrency: in EVERY interleaving of the pipeline model the blocks reach the sink in submission
   order (so the concurrent sink equals the sequential one: each block is a function of its data) *)
Theorem C14_schedule_order : pw_order_stmt.   Proof. exact pw_order. Qed.
Print Assumptions C14_schedule_order.

(* ---- the fast compressor's table AS TRANSLATED from block.go on this run (GenCompressBody.v) ----
   reset(), get() and put() of the translated code refine the model's table operations under
   table_rel; after reset() the relation holds with EVERY stale content, i.e. nothing a previous call
   (or the pool) left in the 65536 entries is visible until it is overwritten in this call. *)
From LZ4V Require Import GoT GenCompressBody GenCompressBodyProofs.
Theorem C14_translated_reset : forall fuel s st,
  zlen (mem_Compressor_table s) = 65536 ->
  exists s', lz4block_Compressor_reset fuel s = Fall s'
    /\ table_rel (mem_Compressor_table s') (mem_Compressor_inUse s') (ft_reset st).
Proof. exact reset_refines_exec. Qed.
Print Assumptions C14_translated_reset.
Theorem C14_translated_get : forall fuel s tb,
  table_rel (mem_Compressor_table s) (mem_Compressor_inUse s) tb ->
  0 <= Compressor_get_h s -> 0 <= Compressor_get_si s < 2 ^ 62 ->
  exists s', lz4block_Compressor_get fuel s = Ret s'
    /\ Compressor_get_ret0 s' = ft_get tb (Compressor_get_h s) (Compressor_get_si s)
    /\ mem_Compressor_table s' = mem_Compressor_table s
    /\ mem_Compressor_inUse s' = mem_Compressor_inUse s.
Proof. exact get_refines. Qed.
Print Assumptions C14_translated_get.
Theorem C14_translated_put : forall fuel s tb,
  table_rel (mem_Compressor_table s) (mem_Compressor_inUse s) tb -> 0 <= Compressor_put_h s ->
  exists s', lz4block_Compressor_put fuel s = Fall s'
    /\ table_rel (mem_Compressor_table s') (mem_Compressor_inUse s')
                 (ft_put tb (Compressor_put_h s) (Compressor_put_si s)).
Proof. exact put_refines_exec. Qed.
Print Assumptions C14_translated_put.
(* every well-formed pair of arrays is related to an explicit abstraction of itself *)
Theorem C14_translated_abstraction : forall table inUse,
  zlen table = 65536 -> zlen inUse = 2048 ->
  (forall h, 0 <= h < 65536 -> 0 <= znth table h < 65536) ->
  table_rel table inUse (abs_table table inUse).
Proof. exact abs_table_rel. Qed.
Print Assumptions C14_translated_abstraction.

(* the translated method's result does not depend on what the object's table and bitmap held before the call:
   run on ANY well-formed prior contents (table2, inUse2) it agrees with the model run on any other (table1) *)
From LZ4V Require Import GenCompressBodyLoop GenCompressBodyMain GenCompressBodyCorollaries.
Theorem C14_translated_state_independent : translated_state_indep_stmt.
Proof. exact translated_state_indep. Qed.
Print Assumptions C14_translated_state_independent.
