(* C14 — Compression is deterministic: output depends only on input and settings. *)
From LZ4V Require Import Base GenBlock BlockFormat CompressFast CompressFastTable CompressHC CompressHCTop CompressSpec CompressFastProofs
  BlockTheoremsSpec BlockTheorems FrameImpl Writer FrameTheoremsSpec WriterProofs PipeW PipeWSpec PipeWProofs.

(* fast compressor: whatever the object's table held before (reset clears only the in-use bitmap),
   the same source and destination size give the same result *)
Theorem C14_fast_state : fast_state_indep_stmt.   Proof. exact fast_state_indep. Qed.
Print Assumptions C14_fast_state.
(* HC compressor: every reachable object (fresh, or used before) behaves as a fresh one *)
Theorem C14_hc_state : forall o src depth dstlen, hc_reachable o ->
  fst (compress_hc_obj o src depth dstlen) = compress_hc_list src depth dstlen /\ hc_reachable (snd (compress_hc_obj o src depth dstlen)).
Proof. exact hc_state_indep. Qed.
Print Assumptions C14_hc_state.
(* frames: without Flush the emitted frame depends only on the concatenation of the writes *)
Theorem C14_chunking : forall os o ds, opts_after os = Some o ->
  frame_of_items o (map IWrite ds) = frame_encode o (concat ds).
Proof. exact writer_chunking_opts. Qed.
Print Assumptions C14_chunking.
(* concurrency: in EVERY interleaving of the pipeline model the blocks reach the sink in submission
   order (so the concurrent sink equals the sequential one: each block is a function of its data) *)
Theorem C14_schedule_order : pw_order_stmt.   Proof. exact pw_order. Qed.
Print Assumptions C14_schedule_order.
