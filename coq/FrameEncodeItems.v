(* FrameEncodeItems.v — C09 for whole Writer sessions: the frame of the blocks a session of writes
   and flushes emits (frame_of_items) is accepted by the strict frame specification with the
   written data as content; combined with writer_session (WriterProofs.v): what reaches the sink
   meets the specification. *)
From Coq Require Import ZifyBool.
From LZ4V Require Import Base GenBlock GenStream GenLz4 XXH32 BlockFormat BlockExec CompressFast
  FrameSpec FrameImpl Writer Reader CReader FrameTheoremsSpec WriterProofs FrameEncodeProofs.

Ltac Zify.zify_post_hook ::= Z.div_mod_to_equations.

Definition item_bytes (i : item) : Prop := match i with IWrite d => bytes d | IFlush => True end.

(* ---------- every block of a session is non-empty, bytes, at most the block size ---------- *)

Lemma bytes_concat_forall (bs : list (list Z)) : bytes (concat bs) -> Forall bytes bs.
Proof.
  induction bs as [|b bs IH]; intros H; [constructor|].
  cbn [concat] in H. apply bytes_app in H. destruct H as [Hb Hr]. constructor; [exact Hb|exact (IH Hr)].
Qed.

Lemma fullsW_good bsz all : 0 < bsz -> bytes all ->
  Forall (good_chunk bsz) (fst (fullsW bsz all)) /\ bytes (snd (fullsW bsz all)) /\ len (snd (fullsW bsz all)) < bsz.
Proof.
  intros Hb Hby.
  pose proof (fullsW_concat bsz all Hb) as Hc. pose proof (fullsW_full bsz all Hb) as Hfull.
  pose proof (fullsW_rest_small bsz all Hb) as Hr.
  rewrite <- Hc in Hby. apply bytes_app in Hby. destruct Hby as [Hb1 Hb2].
  apply bytes_concat_forall in Hb1.
  split; [|split; assumption].
  rewrite Forall_forall in *. intros c Hin. specialize (Hb1 c Hin). specialize (Hfull c Hin). cbv beta in Hfull.
  repeat split; [exact Hb1| |lia].
  intros ->. rewrite len_nil in Hfull. lia.
Qed.

Lemma tail_block_good bsz r : bytes r -> len r < bsz -> Forall (good_chunk bsz) (tail_block r).
Proof.
  intros Hb Hl. destruct r as [|x r]; [constructor|]. cbn [tail_block].
  constructor; [|constructor]. repeat split; [exact Hb|discriminate|lia].
Qed.

Lemma blocks_of_good bsz : 0 < bsz -> forall items pend, Forall item_bytes items -> bytes pend -> len pend < bsz ->
  Forall (good_chunk bsz) (blocks_of bsz items pend).
Proof.
  intros Hb. induction items as [|[d|] r IH]; intros pend Hit Hp Hl.
  - rewrite blocks_of_nil. apply tail_block_good; assumption.
  - inversion Hit as [|? ? Hd Hr]; subst. cbn [item_bytes] in Hd.
    rewrite blocks_of_write by exact Hb.
    destruct (fullsW_good bsz (pend ++ d) Hb) as (Hg & Hrb & Hrl); [apply bytes_app; split; assumption|].
    apply Forall_app. split; [exact Hg|]. apply IH; assumption.
  - inversion Hit as [|? ? _ Hr]; subst.
    rewrite blocks_of_flush. apply Forall_app. split; [apply tail_block_good; assumption|].
    apply IH; [exact Hr|constructor|rewrite len_nil; exact Hb].
Qed.

Lemma blocks_of_data bsz items : 0 < bsz -> concat (blocks_of bsz items []) = data_of items.
Proof. intros Hb. rewrite blocks_of_concat by exact Hb. rewrite data_of_wdata. reflexivity. Qed.

(* ---------- the frame of a session, general options ---------- *)

Theorem encode_spec_items_gen : forall o items, opts_ok o -> Forall item_bytes items ->
  (lz4stream_DescriptorFlags_Size (fo_flags o) = true -> fo_csize o = len (data_of items)) ->
  (fo_level o = lz4block_Fast \/ 0 < fo_level o <= 131072) -> len (data_of items) < 2 ^ 64 ->
  frame_spec Decoded true (frame_of_items o items) = Some (data_of items, len (frame_of_items o items)).
Proof.
  intros o items Hok Hit Hsize Hlev Hlen.
  pose proof (bsz_of_range o Hok) as Hbsz.
  assert (Hgood : Forall (good_chunk (bsz_of o)) (blocks_of (bsz_of o) items []))
    by (apply blocks_of_good; [lia|exact Hit|constructor|rewrite len_nil; lia]).
  pose proof (blocks_of_data (bsz_of o) items ltac:(lia)) as Hcat.
  pose proof (encode_spec_blocks o (blocks_of (bsz_of o) items []) Hok Hgood) as H.
  cbv zeta in H. rewrite Hcat in H. exact (H Hsize Hlev Hlen).
Qed.

(* when the Size flag is clear the configured size is not used anywhere in the frame *)
Lemma frame_of_items_csize o items : fo_legacy o = false ->
  lz4stream_DescriptorFlags_Size (initw_flags o) = false ->
  frame_of_items o items = frame_of_items (mkfo (fo_flags o) 0 (fo_level o) (fo_legacy o)) items.
Proof.
  intros Hleg Hs.
  unfold frame_of_items, bsz_of, header_bytes, block_writes, close_writes, magic_of.
  unfold initw_flags in *. cbn [fo_flags fo_level fo_legacy fo_csize]. rewrite Hleg in *. rewrite Hs. reflexivity.
Qed.

(* C09 for sessions, options as a Writer holds them after Apply *)
Theorem encode_spec_items : forall os o items, opts_after os = Some o -> modern o ->
  Forall (fun i => match i with IWrite d => bytes d | IFlush => True end) items ->
  (fo_csize o <= 0 \/ fo_csize o = len (data_of items)) -> len (data_of items) < 2 ^ 64 ->
  frame_spec Decoded true (frame_of_items o items) = Some (data_of items, len (frame_of_items o items)).
Proof.
  intros os o items Hopt Hmod Hit Hcsz Hlen.
  destruct (opts_after_inv os o Hopt) as ((Hf & Hres) & Hflag & Hlv & Hval).
  pose proof (valid_level_range _ Hlv) as Hlev.
  destruct (lz4stream_DescriptorFlags_Size (fo_flags o)) eqn:Es.
  - apply encode_spec_items_gen; try assumption.
    + repeat split; try assumption; lia.
    + intros _. lia.
  - assert (Hsi : lz4stream_DescriptorFlags_Size (initw_flags o) = false).
    { rewrite (initw_flags_modern o Hmod).
      destruct (hdr_facts (fo_flags o) Hf Hres Hval) as (_ & _ & _ & _ & _ & _ & _ & _ & _ & _ & Hs).
      rewrite Hs. exact Es. }
    rewrite (frame_of_items_csize o items Hmod Hsi).
    apply encode_spec_items_gen; try assumption.
    + repeat split; cbn [fo_flags fo_level fo_legacy fo_csize]; try assumption; lia.
    + cbn [fo_flags]. rewrite Es. discriminate.
Qed.

(* what a fault-free session Apply os; (Write d | Flush)*; Close leaves in the sink is a frame the
   strict specification (decoded-domain block checksums) accepts, with the written data as content *)
Corollary sessions_meet_spec : forall os o items, opts_after os = Some o -> modern o ->
  Forall (fun i => match i with IWrite d => bytes d | IFlush => True end) items ->
  (fo_csize o <= 0 \/ fo_csize o = len (data_of items)) -> len (data_of items) < 2 ^ 64 ->
  let '(w, res) := run_writer (new_writer s0) (WApply os :: map item_op items ++ [WClose]) s0 in
  res = RE ENil :: map item_res items ++ [RE ENil] /\
  frame_spec Decoded true (sink_bytes (w_sink w)) = Some (data_of items, len (sink_bytes (w_sink w))).
Proof.
  intros os o items Hopt Hmod Hit Hcsz Hlen.
  pose proof (writer_session os items o Hopt Hit) as Hs.
  destruct (run_writer (new_writer s0) (WApply os :: map item_op items ++ [WClose]) s0) as [w res].
  destruct Hs as (Hres & Hsink & _). split; [exact Hres|].
  rewrite Hsink. exact (encode_spec_items os o items Hopt Hmod Hit Hcsz Hlen).
Qed.

Print Assumptions encode_spec_items_gen.
Print Assumptions encode_spec_items.
Print Assumptions sessions_meet_spec.
