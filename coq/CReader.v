(* CReader.v — model of CompressingReader (compressing_reader.go): the four-state Read and the
   overflow writer (ovWriter) that splits the frame writer's output between the caller's buffer
   and an overflow kept for the next calls. *)
From LZ4V Require Import Base GenBlock GenStream GenLz4 XXH32 BlockFormat FrameImpl Writer Reader.

Inductive crstate := CrInitial | CrReading | CrFlushing | CrDone.

Record creader := mkcr {
  c_st : crstate; c_fo : fopts; c_src : source; c_content : list Z;
  c_ov : list Z            (* ov[ovPos:] *)
}.

(* ovWriter.Write into a buffer of capacity k already holding pbuf *)
Definition ov_write (k : Z) (pbuf ov bytes : list Z) : list Z * list Z :=
  let room := k - len pbuf in
  let '(now, later) := take_upto room bytes [] in
  (pbuf ++ now, ov ++ later).
Fixpoint ov_writes (k : Z) (pbuf ov : list Z) (ws : list (list Z)) : list Z * list Z :=
  match ws with
  | [] => (pbuf, ov)
  | w :: r => let '(p1, o1) := ov_write k pbuf ov w in ov_writes k p1 o1 r
  end.

(* the reading loop: blocks are compressed until the caller's buffer is full or the source ends *)
Fixpoint cr_loop (fuel : nat) (c : creader) (k : Z) (pbuf ov : list Z) : creader * list Z * ecls :=
  match fuel with O => (c, [], EOther) | S f =>
  let bs := bsize_of_idx (lz4stream_DescriptorFlags_BlockSizeIndex (initw_flags (c_fo c))) in
  let '(got, e, s1) := read_full (c_src c) bs in
  let add_block (c : creader) (pbuf ov : list Z) :=
    let content := if lz4stream_DescriptorFlags_ContentChecksum (initw_flags (c_fo c)) then c_content c ++ got else c_content c in
    let '(p1, o1) := ov_writes k pbuf ov (block_writes (c_fo c) got) in
    (mkcr (c_st c) (c_fo c) s1 content (c_ov c), p1, o1) in
  match e with
  | ENil =>
    let '(c1, p1, o1) := add_block c pbuf ov in
    if len p1 =? k then (mkcr (c_st c1) (c_fo c1) (c_src c1) (c_content c1) o1, p1, ENil)
    else cr_loop f c1 k p1 o1
  | EEOF | EUEOF =>
    let '(c1, p1, o1) := match got with [] => (mkcr (c_st c) (c_fo c) s1 (c_content c) (c_ov c), pbuf, ov) | _ => add_block c pbuf ov end in
    let '(p2, o2) := ov_writes k p1 o1 (close_writes (c_fo c1) (c_content c1)) in
    (mkcr CrFlushing (c_fo c1) (c_src c1) (c_content c1) o2, p2, ENil)
  | _ => (mkcr CrDone (c_fo c) s1 (c_content c) ov, [], e)
  end end.

(* Read(p) with len(p) = k: bytes returned and error class *)
Definition cr_read (c : creader) (k : Z) : creader * list Z * ecls :=
  (* out.reset(p) *)
  if k <=? len (c_ov c) then
    let '(now, later) := take_upto k (c_ov c) [] in
    (mkcr (c_st c) (c_fo c) (c_src c) (c_content c) later, now, ENil)
  else
    let pbuf := c_ov c in
    let c0 := mkcr (c_st c) (c_fo c) (c_src c) (c_content c) [] in
    let fuel := S (length (s_rem (c_src c))) in
    match c_st c with
    | CrInitial =>
      let '(p1, o1) := ov_write k pbuf [] (header_bytes (c_fo c)) in
      cr_loop fuel (mkcr CrReading (c_fo c) (c_src c) [] []) k p1 o1
    | CrReading => cr_loop fuel c0 k pbuf []
    | CrFlushing =>
      match pbuf with
      | [] => (mkcr CrDone (c_fo c) (c_src c) (c_content c) [], [], EEOF)
      | _ => (c0, pbuf, ENil)
      end
    | CrDone => (c0, [], ECrDone)
    end.

(* NewCompressingReader: Apply(BlockSizeOption(4Mb), ChecksumOption(true)); options as for the Writer *)
Definition new_creader (s : source) (os : list wopt) : creader * ecls :=
  let w0 := mkw lz4_newState ENil (mkfo 0 0 lz4_Fast false) 0 0 [] [] (mksink [] 0 0) [] in
  let fix go (w : writer) (os : list wopt) : writer * ecls :=
    match os with
    | [] => (w, ENil)
    | OLegacy _ :: _ | OConcurrency _ :: _ => (w, ENotApp)   (* these options have no CompressingReader case *)
    | o :: r => let '(w1, e) := apply_opt w o in match e with ENil => go w1 r | _ => (w1, e) end
    end in
  let '(w1, _) := go w0 [OBlockSize lz4_Block4Mb; OChecksum true] in
  (* a second Apply resets the frame (ContentSize := 0) before applying *)
  let fo1 := w_opts w1 in
  let w1' := mkw (w_state w1) (w_serr w1) (mkfo (lz4stream_DescriptorFlags_SizeSet (fo_flags fo1) false) 0 (fo_level fo1) (fo_legacy fo1)) 0 0 [] [] (mksink [] 0 0) [] in
  let '(w2, e) := match os with [] => (w1, ENil) | _ => go w1' os end in
  (mkcr CrInitial (w_opts w2) s [] [], e).

Fixpoint run_creader (c : creader) (sizes : list Z) : creader * list (Z * ecls) * list Z :=
  match sizes with
  | [] => (c, [], [])
  | k :: r =>
    let '(c1, bytes, e) := cr_read c k in
    match e with
    | ENil => let '(c2, rs, all) := run_creader c1 r in (c2, (len bytes, e) :: rs, bytes ++ all)
    | _ => (c1, [(len bytes, e)], bytes)
    end
  end.
