(* C18 — The compressing reader yields one valid frame for any read pattern. *)
From LZ4V Require Import Base GenBlock BlockFormat FrameSpec FrameImpl Writer Reader CReader FrameTheoremsSpec FrameEncodeProofs CReaderProofs.
(* any sequence of buffer sizes: the concatenated output is a prefix of THE frame of the source for the
   applied options; each call returns at most len(p) bytes; progress whenever len(p) > 0; io.EOF only
   once the whole frame has been delivered; no other error from a fault-free source *)
Theorem C18_reads : creader_stmt.             Proof. exact creader. Qed.
Print Assumptions C18_reads.
(* with enough reads of any positive size the whole frame is delivered, then io.EOF *)
Theorem C18_complete : creader_complete_stmt. Proof. exact creader_complete. Qed.
Print Assumptions C18_complete.
(* and that frame is a frame of the strict specification holding exactly the source (C09_frame) *)
Theorem C18_frame_valid : forall os o data, opts_after os = Some o -> modern o -> bytes data ->
  (fo_csize o <= 0 \/ fo_csize o = len data) -> len data < 2 ^ 64 ->
  frame_spec Decoded true (frame_encode o data) = Some (data, len (frame_encode o data)).
Proof. exact encode_spec_opts. Qed.
Print Assumptions C18_frame_valid.
(* a source whose k-th Read call fails, for EVERY k: what was delivered is a prefix of the frame, every
   call returns nil / the injected error / io.EOF after the whole frame, the error is passed through
   by the Read during which the source failed, and the source is never asked again *)
From LZ4V Require Import ReaderSpec2 CReaderFaultSpec CReaderFaultProofs.
Theorem C18_source_fault : creader_fault_stmt.  Proof. exact creader_fault. Qed.
Print Assumptions C18_source_fault.
