(* GenCompressBodyTie.v — GenCompressBodyLoop.v proves its lemmas about the two match-extension loops on
   TRANSCRIBED segments of the generated function (bwd_loop, fwd_loop are definitions written out in that
   file).  This file ties the transcriptions to what the translator generated on THIS run: each segment must
   occur, literally, inside the body of lz4block_Compressor_CompressBlock as regenerated from block.go.
   When the Go source changes a loop, the generated body no longer contains the transcription, lazymatch
   fails, this file does not compile, and the check reports the obligation as no longer discharged.
   (The epilogue lemma tail_exec needs no such tie: it is stated about the generated definition
   lz4block_Compressor_CompressBlock_at_lastLiterals itself.  The sequence-emission lemma emit_exec and the
   probe lemmas are about segments with an open continuation; their tie is the composition proof that is still
   missing, see notes/translator3_report.md.) *)
From LZ4V Require Import Base GoT GenBlock GenCompressBody GenCompressBodyProofs GenCompressBodyLoop.

Lemma transcribed_loops_occur_in_generated_body : forall fuel : nat, True.
Proof.
  intro fuel.
  let body := eval cbv delta [lz4block_Compressor_CompressBlock] beta in (lz4block_Compressor_CompressBlock fuel) in
  let seg := eval cbv delta [bwd_loop] beta in (bwd_loop fuel) in
  lazymatch body with context [seg] => idtac end.
  let body := eval cbv delta [lz4block_Compressor_CompressBlock] beta in (lz4block_Compressor_CompressBlock fuel) in
  let seg := eval cbv delta [fwd_loop] beta in (fwd_loop fuel) in
  lazymatch body with context [seg] => idtac end.
  exact I.
Qed.
