(* C15 — I/O failures are reported faithfully and read fragmentation is irrelevant. *)
From LZ4V Require Import Base GenBlock BlockFormat FrameImpl Writer Reader FrameTheoremsSpec WriterProofs ReaderProofs Lifecycle ReaderSpec2 ReaderProofs2 FragSpec FragProofs.
(* the underlying writer failing from its k-th call on, for EVERY k and every session: what reached
   the sink is a prefix of the fault-free output and the failure is returned by some call, by Close
   at the latest *)
Theorem C15_sink_fault : writer_fault_stmt.   Proof. exact writer_fault. Qed.
Print Assumptions C15_sink_fault.
(* the underlying reader failing at its k-th call, for EVERY k and EVERY input (legacy included): the
   delivered bytes are a prefix of the fault-free output, and the result is the injected error —
   never a clean end — unless the stream had already been read completely *)
Theorem C15_source_fault : source_fault2_stmt.  Proof. exact source_fault2. Qed.
Print Assumptions C15_source_fault.
(* read fragmentation: the Reader obtains every byte through io.ReadFull (Reader.read_full in the
   model); io.ReadFull over a source that fragments its reads by ANY finite plan (single bytes,
   zero-length reads, data returned together with io.EOF) yields the bytes, the error class and the
   remaining stream of the unfragmented read — so every Reader theorem, stated over unfragmented
   sources, holds for every fragmentation *)
Theorem C15_fragmentation_irrelevant : frag_irrelevant_stmt.  Proof. exact frag_irrelevant. Qed.
Print Assumptions C15_fragmentation_irrelevant.
