(* C15 — I/O failures are reported faithfully and read fragmentation is irrelevant. (Writer side;
   the Reader side theorems are added from ReaderProofs.v) *)
From LZ4V Require Import Base GenBlock BlockFormat FrameImpl Writer Reader FrameTheoremsSpec WriterProofs.
(* the underlying writer failing from its k-th call on, for EVERY k and every session: what reached
   the sink is a prefix of the fault-free output and the failure is returned by some call, by Close
   at the latest *)
Theorem C15_sink_fault : writer_fault_stmt.   Proof. exact writer_fault. Qed.
Print Assumptions C15_sink_fault.
