(* C15 — I/O failures are reported faithfully and read fragmentation is irrelevant. *)
From LZ4V Require Import Base GenBlock BlockFormat FrameImpl Writer Reader FrameTheoremsSpec WriterProofs ReaderProofs Lifecycle ReaderSpec2 ReaderProofs2.
(* the underlying writer failing from its k-th call on, for EVERY k and every session: what reached
   the sink is a prefix of the fault-free output and the failure is returned by some call, by Close
   at the latest *)
Theorem C15_sink_fault : writer_fault_stmt.   Proof. exact writer_fault. Qed.
Print Assumptions C15_sink_fault.
(* the underlying reader failing at its k-th call, for EVERY k and EVERY input (legacy included): the
   delivered bytes are a prefix of the fault-free output, and the result is the injected error —
   never a clean end — unless the stream had already been read completely *)
Theorem C15_source_fault : source_fault2_stmt.  Proof. exact source_fault2. Qed.
Print Assumptions C15_source_fault.
