(* LegacyFrameSpecSpec.v — statements of the conformance property (C09) for LEGACY frames:
   "every legacy frame the Writer emits starts with the legacy magic, has no descriptor, and
    consists of blocks each decoding to at most 8 MiB until the stream ends; the independent
    specification decodes it to exactly the bytes written".
   The independent specification is FrameSpec.frame_spec (legacy body: spec_legacy).  It has no
   kernel-trailer rule, so NO unambiguity side condition appears here (the session of
   LegacySpec.lw_items, which the Reader truncates, is decoded in full by the specification:
   legacy_spec_decodes_ambiguous).  Proofs: LegacyFrameSpecProofs.v. *)
From LZ4V Require Import Base GenBlock GenStream GenLz4 XXH32 BlockFormat BlockExec CompressFast FrameSpec FrameImpl
  Writer Reader FrameTheoremsSpec Lifecycle ReaderSpec2 LegacySpec LegacyTruncSpec.

(* ---------------------------------------------------------------------------------------- *)
(* 1. shape: magic, no descriptor, blocks                                                     *)
(* ---------------------------------------------------------------------------------------- *)
(* f = the 4 magic bytes followed by nothing but the blocks, one per chunk of blocks_of; the
   chunks are non-empty, at most 8 MiB, and concatenate to the data written; each block is a size
   word w (not the magic, low 31 bits = stored length <= 8 MiB) and the stored bytes s, which are
   the chunk itself when bit 31 of w is set and otherwise decode to the chunk, by the block-format
   specification in both its forms, with NO dictionary and a capacity of 8 MiB *)
Definition legacy_frame_shape_stmt : Prop :=
  forall os o items, opts_after os = Some o -> fo_legacy o = true -> Forall item_ok items ->
  let f := session_frame_of os items in
  let blocks := blocks_of (bsz_of o) items [] in
  f = [2; 33; 76; 24] ++ concat (flat_map (block_writes o) blocks) /\
  [2; 33; 76; 24] = le32_bytes MAGIC_LEGACY /\
  concat blocks = data_of items /\
  bytes f /\
  Forall (fun c => bytes c /\ c <> [] /\ len c <= 8388608 /\
            exists w s, block_writes o c = [le32_bytes w; s] /\
              0 < w < 4294967296 /\ w <> MAGIC_LEGACY /\ w mod 2147483648 = len s /\ 0 < len s <= 8388608 /\ bytes s /\
              (if 2147483648 <=? w then s = c
               else spec_decode s [] 8388608 = Some c /\ spec_decode_x s [] 8388608 = Some c)) blocks.

(* ---------------------------------------------------------------------------------------- *)
(* 2. the specification decodes every emitted legacy frame to the bytes written               *)
(* ---------------------------------------------------------------------------------------- *)
(* non-strict reading (accepts the library's raw-flagged blocks, finding F17), any checksum
   domain (legacy frames carry no checksum), any content length, no side condition *)
Definition legacy_encode_spec_stmt : Prop :=
  forall os o items dom, opts_after os = Some o -> fo_legacy o = true ->
  Forall (fun i => match i with IWrite d => bytes d | IFlush => True end) items ->
  let f := session_frame_of os items in
  frame_spec dom false f = Some (data_of items, len f).

(* ---------------------------------------------------------------------------------------- *)
(* 3. the strict reading (the legacy format proper: no raw-flagged blocks)                    *)
(* ---------------------------------------------------------------------------------------- *)
Definition stored_compressed (o : fopts) (c : list Z) : bool :=
  match compress_level (fo_level o) c 8388608 with COk _ => true | _ => false end.
(* every chunk of the session compresses into the 8 MiB buffer *)
Definition legacy_all_compressed (o : fopts) (items : list item) : bool :=
  forallb (stored_compressed o) (blocks_of (bsz_of o) items []).

(* a chunk is stored raw only when its worst-case compressed size exceeds 8 MiB, i.e. only for
   chunks of more than 8355700 bytes: no small session has a raw block *)
Definition legacy_raw_only_large_stmt : Prop :=
  forall os o c, opts_after os = Some o -> bytes c ->
  stored_compressed o c = false -> 8388608 < lz4block_CompressBlockBound (len c) /\ 8355700 < len c.

Definition legacy_encode_spec_strict_stmt : Prop :=
  forall os o items dom, opts_after os = Some o -> fo_legacy o = true ->
  Forall (fun i => match i with IWrite d => bytes d | IFlush => True end) items ->
  legacy_all_compressed o items = true ->
  let f := session_frame_of os items in
  frame_spec dom true f = Some (data_of items, len f).

(* in particular when no chunk exceeds 8355700 bytes; e.g. at most that much data in total *)
Definition legacy_encode_spec_strict_small_stmt : Prop :=
  forall os o items dom, opts_after os = Some o -> fo_legacy o = true ->
  Forall (fun i => match i with IWrite d => bytes d | IFlush => True end) items ->
  Forall (fun c => len c <= 8355700) (blocks_of (bsz_of o) items []) ->
  let f := session_frame_of os items in
  frame_spec dom true f = Some (data_of items, len f).
Definition legacy_encode_spec_strict_small_data_stmt : Prop :=
  forall os o items dom, opts_after os = Some o -> fo_legacy o = true ->
  Forall (fun i => match i with IWrite d => bytes d | IFlush => True end) items ->
  len (data_of items) <= 8355700 ->
  let f := session_frame_of os items in
  frame_spec dom true f = Some (data_of items, len f).

(* conversely a raw block makes the strict reading reject the frame.  The strict reading takes the
   whole word 2^31 + n for a stored length; it fails as soon as fewer than 2^31 bytes follow, hence
   the bound on the frame (for longer frames nothing can be said without looking at 2 GiB of data) *)
Definition legacy_strict_rejects_raw_stmt : Prop :=
  forall os o items dom, opts_after os = Some o -> fo_legacy o = true ->
  Forall (fun i => match i with IWrite d => bytes d | IFlush => True end) items ->
  legacy_all_compressed o items = false ->
  let f := session_frame_of os items in
  len f < 2147483648 -> frame_spec dom true f = None.

Definition legacy_strict_iff_stmt : Prop :=
  forall os o items dom, opts_after os = Some o -> fo_legacy o = true ->
  Forall (fun i => match i with IWrite d => bytes d | IFlush => True end) items ->
  let f := session_frame_of os items in
  len f < 2147483648 ->
  (frame_spec dom true f = Some (data_of items, len f) <-> legacy_all_compressed o items = true).

(* ---------------------------------------------------------------------------------------- *)
(* 4. witnesses (vm_compute)                                                                  *)
(* ---------------------------------------------------------------------------------------- *)
(* a raw-flagged block cannot be exhibited on a session by evaluation (it needs > 8355700
   bytes: legacy_raw_only_large); the two readings are separated on a hand-written frame with the
   library's raw flag: magic, word 2^31 + 1, one byte.  Non-strict: content [5]; strict: rejected;
   the Reader accepts it. *)
Definition raw_flag_frame : list Z := [2; 33; 76; 24] ++ le32_bytes (2147483648 + 1) ++ [5].
Definition legacy_raw_flag_witness_stmt : Prop :=
  frame_spec Decoded false raw_flag_frame = Some ([5], 9) /\
  frame_spec Decoded true raw_flag_frame = None /\
  exists r', rstep (new_reader (src_of raw_flag_frame)) RWriteTo = (r', RRes 1 ENil [5]).

(* the session the Reader truncates (Write {1,2}; Flush; Write {3}) is decoded in full by the
   specification, strict or not: the specification has no kernel-trailer rule *)
Definition legacy_spec_decodes_ambiguous_stmt : Prop :=
  legacy_unambiguous (mkfo 28676 0 0 true) lw_items = false /\
  frame_spec Decoded true (session_frame_of lw_os lw_items) = Some ([1; 2; 3], 17) /\
  frame_spec Decoded false (session_frame_of lw_os lw_items) = Some ([1; 2; 3], 17).

(* a one-byte write is compressed (token 0x10 + the byte), not stored raw; empty writes and
   flushes with nothing pending emit no block; the empty session is the 4 magic bytes *)
Definition legacy_small_sessions_stmt : Prop :=
  session_frame_of lw_os [IWrite [7]] = [2; 33; 76; 24; 2; 0; 0; 0; 16; 7] /\
  session_frame_of lw_os [IWrite []; IFlush; IWrite [7]; IWrite []; IFlush; IFlush] = [2; 33; 76; 24; 2; 0; 0; 0; 16; 7] /\
  session_frame_of lw_os [] = [2; 33; 76; 24] /\
  frame_spec Decoded true [2; 33; 76; 24] = Some ([], 4).
