(* BlockFormat.v — the LZ4 block format as a specification: sequences, their meaning (expand),
   the encoder of a parse (encode), and the format read left to right (sdec).
   Nothing here is shaped like the Go or assembly code; constants are the format's own.
   Output is kept REVERSED (most recent byte first): the byte a match copies is then simply
   the (off-1)-th element, which makes overlapping and dictionary-straddling matches uniform. *)
From LZ4V Require Import Base.

(* ---------- lengths: 4-bit nibble, then 255-continued bytes ---------- *)
Definition ext (v : Z) : list Z := repeat 255 (Z.to_nat (v / 255)) ++ [v mod 255].
Definition nib (v : Z) : Z := if v <? 15 then v else 15.
Definition extl (v : Z) : list Z := if v <? 15 then [] else ext (v - 15).

Fixpoint read_ext (src : list Z) (acc : Z) : option (Z * list Z) :=
  match src with
  | [] => None
  | x :: r => if x =? 255 then read_ext r (acc + 255) else Some (acc + x, r)
  end.
Definition read_len (nibble : Z) (src : list Z) : option (Z * list Z) :=
  if nibble =? 15 then read_ext src 15 else Some (nibble, src).

(* ---------- abstract meaning ---------- *)
Record seq := mkseq { lits : list Z; off : Z; mlen : Z }.
Definition parse := (list seq * list Z)%type.   (* sequences, final literals *)

(* the byte at distance o (1 = most recent) in output-so-far, continuing into the dictionary *)
Definition byte_at (rdict rout : list Z) (o : Z) : option Z :=
  if o <=? 0 then None else
  if o <=? len rout then nth_error rout (Z.to_nat (o - 1))
  else nth_error rdict (Z.to_nat (o - 1 - len rout)).

(* a match is copied one byte at a time: each byte may be one this same match produced *)
Fixpoint copy_match (n : nat) (rdict rout : list Z) (o : Z) : option (list Z) :=
  match n with
  | O => Some rout
  | S k => match byte_at rdict rout o with
           | None => None
           | Some b => copy_match k rdict (b :: rout) o
           end
  end.

Definition exec_seq (rdict : list Z) (cap : Z) (rout : list Z) (s : seq) : option (list Z) :=
  let rout1 := rev_append (lits s) rout in
  if cap <? len rout1 then None else
  match copy_match (Z.to_nat (mlen s)) rdict rout1 (off s) with
  | None => None
  | Some r2 => if cap <? len r2 then None else Some r2
  end.

Fixpoint expand (rdict : list Z) (cap : Z) (rout : list Z) (ss : list seq) : option (list Z) :=
  match ss with
  | [] => Some rout
  | s :: tl => match exec_seq rdict cap rout s with None => None | Some r => expand rdict cap r tl end
  end.

Definition expand_parse rdict cap rout (p : parse) : option (list Z) :=
  match expand rdict cap rout (fst p) with
  | None => None
  | Some r => let r' := rev_append (snd p) r in if cap <? len r' then None else Some r'
  end.

(* ---------- encoder of a parse ---------- *)
Definition enc_seq (s : seq) : list Z :=
  (16 * nib (len (lits s)) + nib (mlen s - 4)) :: extl (len (lits s)) ++ lits s
    ++ [off s mod 256; off s / 256] ++ extl (mlen s - 4).
Definition enc_last (l : list Z) : list Z := (16 * nib (len l)) :: extl (len l) ++ l.
Definition encode (p : parse) : list Z := flat_map enc_seq (fst p) ++ enc_last (snd p).

Definition wf_seq (s : seq) : Prop := bytes (lits s) /\ 1 <= off s <= 65535 /\ 4 <= mlen s.
Definition wf_parse (p : parse) : Prop := Forall wf_seq (fst p) /\ bytes (snd p).

(* ---------- the format, read left to right ----------
   None: zero offset; offset before the start of the dictionary; truncated sequence; more
   output than cap; input ending after literals with a non-zero match nibble.
   Some: input ends right after literals with match nibble 0, or right after a match. *)
Fixpoint sdec (fuel : nat) (src rdict rout : list Z) (cap : Z) : option (list Z) :=
  match fuel with O => None | S f =>
  match src with
  | [] => Some rout
  | tok :: r0 =>
    match read_len (tok / 16) r0 with None => None | Some (ll, r1) =>
    if len r1 <? ll then None else
    let rout1 := rev_append (firstn (Z.to_nat ll) r1) rout in
    if cap <? len rout1 then None else
    match skipn (Z.to_nat ll) r1 with
    | [] => if tok mod 16 =? 0 then Some rout1 else None
    | [_] => None
    | o1 :: o2 :: r3 =>
      let o := o1 + 256 * o2 in
      if o =? 0 then None else
      match read_len (tok mod 16) r3 with None => None | Some (ml, r4) =>
      match copy_match (Z.to_nat (ml + 4)) rdict rout1 o with None => None | Some rout2 =>
      if cap <? len rout2 then None else sdec f r4 rdict rout2 cap end end
    end end end end.

(* The block decoding specification used everywhere: decode [src] against dictionary [dict] into
   at most [cap] bytes.  Fuel = |src|+1 always suffices (each round consumes at least one byte). *)
Definition spec_decode (src dict : list Z) (cap : Z) : option (list Z) :=
  match src with
  | [] => None                      (* the decoders reject an empty block; the API wrapper maps it to (0, nil) *)
  | _ => option_map (@rev Z) (sdec (S (length src)) src (rev dict) [] cap)
  end.

(* ---------- strict format: what independent decoders' fast paths rely on ---------- *)
(* every offset stays inside the produced output (no dictionary), final literals >= 5 and the last
   match starts at least 12 bytes before the end whenever there is a match *)
Fixpoint strict_offsets (outlen : Z) (ss : list seq) : bool :=
  match ss with
  | [] => true
  | s :: tl => let o := outlen + len (lits s) in
               (1 <=? off s) && (off s <=? 65535) && (off s <=? o) && (4 <=? mlen s)
               && strict_offsets (o + mlen s) tl
  end.
Definition total_len (p : parse) : Z :=
  fold_right (fun s a => len (lits s) + mlen s + a) 0 (fst p) + len (snd p).
(* start position of the last match *)
Fixpoint last_match_start (pos : Z) (ss : list seq) : Z :=
  match ss with
  | [] => 0
  | [s] => pos + len (lits s)
  | s :: tl => last_match_start (pos + len (lits s) + mlen s) tl
  end.
Definition strict (p : parse) : bool :=
  strict_offsets 0 (fst p) &&
  match fst p with
  | [] => true
  | _ => (5 <=? len (snd p)) && (last_match_start 0 (fst p) + 12 <=? total_len p)
  end.

(* ---------- parser: recover the parse of a block (inverse of encode) ---------- *)
Fixpoint parse_block (fuel : nat) (src : list Z) (acc : list seq) : option parse :=
  match fuel with O => None | S f =>
  match src with
  | [] => None
  | tok :: r0 =>
    match read_len (tok / 16) r0 with None => None | Some (ll, r1) =>
    if len r1 <? ll then None else
    let lit := firstn (Z.to_nat ll) r1 in
    match skipn (Z.to_nat ll) r1 with
    | [] => if tok mod 16 =? 0 then Some (rev acc, lit) else None
    | [_] => None
    | o1 :: o2 :: r3 =>
      match read_len (tok mod 16) r3 with None => None | Some (ml, r4) =>
      parse_block f r4 (mkseq lit (o1 + 256 * o2) (ml + 4) :: acc) end
    end end end end.
