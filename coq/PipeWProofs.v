(* PipeWProofs.v — proofs of the statements of PipeWSpec.v about the Writer pipeline LTS. *)
From LZ4V Require Import Base PipeW PipeWSpec.
Local Open Scope nat_scope.

(* ------------------------------------------------------------------ *)
(* generic helpers                                                     *)
(* ------------------------------------------------------------------ *)
Lemma upd_length {A} (l : list A) i x : length (upd l i x) = length l.
Proof.
  revert i; induction l as [|h t IH]; intros [|i]; cbn [upd length]; auto.
Qed.
Lemma nth_upd_same {A} (l : list A) i x d : i < length l -> nth i (upd l i x) d = x.
Proof.
  revert i; induction l as [|h t IH]; intros [|i] Hi; cbn [upd nth length] in *; try lia; auto.
  apply IH; lia.
Qed.
Lemma nth_upd_other {A} (l : list A) i j x d : j <> i -> nth j (upd l i x) d = nth j l d.
Proof.
  revert i j; induction l as [|h t IH]; intros [|i] [|j] Hne; cbn [upd nth]; auto; try lia.
Qed.
Lemma upd_overflow {A} (l : list A) i x : length l <= i -> upd l i x = l.
Proof.
  revert i; induction l as [|h t IH]; intros [|i] Hi; cbn [upd length] in *; auto; try lia.
  f_equal; apply IH; lia.
Qed.
Lemma nth_repeat' {A} (x : A) n j : nth j (repeat x n) x = x.
Proof. revert j; induction n as [|n IH]; intros [|j]; cbn; auto. Qed.

Lemma seq_snoc' a b : a <= b -> seq a (S b - a) = seq a (b - a) ++ [b].
Proof.
  intros H. replace (S b - a) with (S (b - a)) by lia. rewrite seq_S. do 2 f_equal. lia.
Qed.

Lemma cid_eqb_eq a b : cid_eqb a b = true <-> a = b.
Proof.
  destruct a as [i|], b as [j|]; cbn; try (split; congruence).
  rewrite Nat.eqb_eq. split; congruence.
Qed.
Lemma ev_eqb_eq a b : ev_eqb a b = true <-> a = b.
Proof.
  destruct a, b; cbn; try (split; congruence); rewrite cid_eqb_eq; split; congruence.
Qed.
Lemma existsb_ev_In e l : existsb (ev_eqb e) l = true <-> In e l.
Proof.
  rewrite existsb_exists. split.
  - intros [x [Hx He]]. apply ev_eqb_eq in He. subst; auto.
  - intros H. exists e. split; auto. apply ev_eqb_eq; auto.
Qed.

Lemma index_of_app f l r i :
  index_of f (l ++ r) i = match index_of f l i with Some k => Some k | None => index_of f r (i + length l) end.
Proof.
  revert i; induction l as [|x l IH]; intros i; cbn [app index_of length].
  - f_equal; lia.
  - destruct (f x); auto. rewrite IH. replace (S i + length l) with (i + S (length l)) by lia. auto.
Qed.
Lemma index_of_bound f l i k : index_of f l i = Some k -> i <= k < i + length l.
Proof.
  revert i; induction l as [|x l IH]; intros i; cbn [index_of length]; try discriminate.
  destruct (f x).
  - intros H; inversion H; lia.
  - intros H; apply IH in H; lia.
Qed.
Lemma index_of_none_In a l i : index_of (ev_eqb a) l i = None -> ~ In a l.
Proof.
  revert i; induction l as [|x l IH]; intros i; cbn [index_of]; auto.
  destruct (ev_eqb a x) eqn:E; try discriminate.
  intros H [Hx|Hx]; [subst; rewrite (proj2 (ev_eqb_eq a a) eq_refl) in E; discriminate|].
  eapply IH; eauto.
Qed.

Lemma before_snoc l a b e :
  before l a b = true -> (b = e -> In a l) -> before (l ++ [e]) a b = true.
Proof.
  unfold before, pos. intros Hb Hin. rewrite !index_of_app. cbn [index_of].
  destruct (index_of (ev_eqb a) l 0) as [i|] eqn:Ea.
  - destruct (index_of (ev_eqb b) l 0) as [k|] eqn:Eb; auto.
    destruct (ev_eqb b e); auto.
    apply index_of_bound in Ea. apply Nat.ltb_lt. lia.
  - destruct (index_of (ev_eqb b) l 0) as [k|] eqn:Eb; try discriminate.
    destruct (ev_eqb b e) eqn:E.
    + apply ev_eqb_eq in E. apply Hin in E. apply index_of_none_In in Ea. contradiction.
    + destruct (ev_eqb a e); auto.
Qed.
Lemma before_nil a b : before [] a b = true.
Proof. reflexivity. Qed.

Lemma NoDup_b_snoc l e : NoDup_b l = true -> ~ In e l -> NoDup_b (l ++ [e]) = true.
Proof.
  induction l as [|x l IH]; intros Hn Hni; [reflexivity|]; cbn [app NoDup_b existsb] in *.
  apply andb_true_iff in Hn. destruct Hn as [Hx Hn].
  apply andb_true_iff; split.
  - rewrite existsb_app. cbn [existsb]. apply negb_true_iff in Hx. rewrite Hx. cbn.
    destruct (ev_eqb x e) eqn:E; auto. apply ev_eqb_eq in E. subst. exfalso; apply Hni; left; auto.
  - apply IH; auto. intros Hx'; apply Hni; right; auto.
Qed.

(* ------------------------------------------------------------------ *)
Section Proofs.
Variable num njobs : nat.
Variable fault : nat -> bool.
Hypothesis Hnum : 1 <= num.

Notation step := (PipeW.step num njobs fault).
Notation run := (PipeW.run num njobs fault).
Notation reachable := (PipeW.reachable num njobs fault).
Notation init := (PipeW.init njobs).

Definition ff : nat := first_fault fault 0 njobs.

Lemma ff_bounds k n : k <= first_fault fault k n <= k + n.
Proof.
  revert k; induction n as [|n IH]; intros k; cbn [first_fault]; try lia.
  destruct (fault k); try lia. specialize (IH (S k)). lia.
Qed.
Lemma ff_before k n i : k <= i < first_fault fault k n -> fault i = false.
Proof.
  revert k; induction n as [|n IH]; intros k; cbn [first_fault]; try lia.
  destruct (fault k) eqn:E; try lia. intros H.
  destruct (Nat.eq_dec i k); [subst; auto|]. apply (IH (S k)). lia.
Qed.
Lemma ff_at k n : first_fault fault k n < k + n -> fault (first_fault fault k n) = true.
Proof.
  revert k; induction n as [|n IH]; intros k; cbn [first_fault]; try lia.
  destruct (fault k) eqn:E; auto. intros H. apply IH. lia.
Qed.

(* ---- numeric abstractions of the control states ---- *)
Definition rank (w : wk) : nat :=
  match w with WkNone => 0 | WkStart => 1 | WkOffer => 2 | WkWait => 3 | WkWoken => 4 | WkDone => 5 end.
Definition orank (o : owner) : nat := match o with OwProducer => 0 | OwWorker => 1 | OwPool => 2 end.
(* jobs enqueued / workers spawned so far *)
Definition sub (p : pr) : nat := match p with PrSubmit j => j | PrSubmitted j => S j | _ => njobs end.
Definition spw (p : pr) : nat := match p with PrSubmit j => j | PrSubmitted j => j | _ => njobs end.
Definition pphase (p : pr) : nat :=
  match p with PrSubmit _ | PrSubmitted _ => 0 | PrCloseEnq => 1 | PrCloseOffer => 2 | PrCloseWait => 3 | PrDone => 4 end.
(* c = number of job channels closed; tkn = number of job channels taken; wrt = number of S_write steps *)
Definition tkn (m : mg) (c : nat) : nat :=
  match m with MgTaken (CJob _) | MgGot (CJob _) | MgClosing (CJob _) => S c | _ => c end.
Definition wrt (m : mg) (c : nat) : nat := match m with MgClosing (CJob _) => S c | _ => c end.
Definition gotn (m : mg) : nat := match m with MgGot (CJob _) | MgClosing (CJob _) => 1 | _ => 0 end.
Definition mphase (m : mg) : nat :=
  match m with MgTaken CSentinel => 1 | MgGot CSentinel => 2 | MgExited => 3 | _ => 0 end.
Definition mg_ok (p : pr) (m : mg) (c : nat) : Prop :=
  match m with
  | MgIdle => pphase p <= 2
  | MgTaken (CJob j) => j = c /\ c < sub p /\ pphase p <= 2
  | MgGot (CJob j) | MgClosing (CJob j) => j = c /\ c < spw p /\ pphase p <= 2
  | MgTaken CSentinel => pphase p = 2 /\ c = njobs
  | MgGot CSentinel => pphase p = 3 /\ c = njobs
  | MgClosing CSentinel => False
  | MgExited => 3 <= pphase p /\ c = njobs
  end.
Definition sentq (p : pr) (m : mg) : list cid :=
  match p, m with PrCloseOffer, MgTaken CSentinel => [] | PrCloseOffer, _ => [CSentinel] | _, _ => [] end.
Definition wk_ok (p : pr) (m : mg) (c j : nat) (w : wk) : Prop :=
  (j < c -> 3 <= rank w) /\
  (spw p <= j -> rank w = 0) /\
  (c <= j < spw p -> (j = c /\ gotn m = 1 -> rank w = 3) /\ (~ (j = c /\ gotn m = 1) -> 1 <= rank w <= 2)).
Definition own_ok (p : pr) (j : nat) (w : wk) (o : owner) : Prop :=
  (rank w = 5 -> orank o = 2) /\ (rank w < 5 -> j < sub p -> orank o = 1) /\ (rank w < 5 -> sub p <= j -> orank o = 0).

Record Inv (s : st) (c : nat) : Prop := mkInv {
  I_lenw : length (wks s) = njobs;
  I_leno : length (own s) = njobs;
  I_pr : match prod s with PrSubmit j | PrSubmitted j => j < njobs | _ => True end;
  I_mg : mg_ok (prod s) (mgr s) c;
  I_tk : tkn (mgr s) c <= sub (prod s);
  I_q : queue s = map CJob (seq (tkn (mgr s) c) (sub (prod s) - tkn (mgr s) c)) ++ sentq (prod s) (mgr s);
  I_wk : forall j, wk_ok (prod s) (mgr s) c j (nth j (wks s) WkNone);
  I_cl : forall j, existsb (cid_eqb (CJob j)) (closedc s) = true <-> j < c;
  I_cls : existsb (cid_eqb CSentinel) (closedc s) = true <-> mgr s = MgExited;
  I_sink : sink s = seq 0 (Nat.min (wrt (mgr s) c) ff);
  I_err : err s = (ff <? wrt (mgr s) c);
  I_own : forall j, j < njobs -> own_ok (prod s) j (nth j (wks s) WkNone) (nth j (own s) OwProducer)
}.

Lemma sub_le p : match p with PrSubmit j | PrSubmitted j => j < njobs | _ => True end -> sub p <= njobs.
Proof. destruct p; cbn; lia. Qed.
Lemma spw_le_sub p : spw p <= sub p.
Proof. destruct p; cbn; lia. Qed.

Lemma init_prod : (prod init = PrCloseEnq /\ njobs = 0) \/ (prod init = PrSubmit 0 /\ 0 < njobs).
Proof. unfold PipeW.init. cbn [prod]. destruct njobs eqn:E; [left; auto | right; split; auto; lia]. Qed.

Lemma Inv_init : Inv init 0.
Proof.
  destruct init_prod as [[Hp Hn]|[Hp Hn]];
  (constructor; rewrite ?Hp; unfold PipeW.init; cbn [queue wks mgr closedc sink err own];
   cbn [mg_ok tkn wrt sub spw pphase sentq];
   [ apply repeat_length
   | apply repeat_length
   | try lia; auto
   | lia
   | lia
   | rewrite ?Hn; reflexivity
   | intros j; rewrite nth_repeat'; unfold wk_ok; cbn [rank gotn spw]; lia
   | intros j; cbn; split; [discriminate|lia]
   | cbn; split; discriminate
   | reflexivity
   | symmetry; apply Nat.ltb_ge; lia
   | intros j Hj; rewrite !nth_repeat'; unfold own_ok; cbn [rank orank sub]; lia ]).
Qed.

Definition nextc (e : option event) (c : nat) : nat :=
  match e with Some (EvMgrClose _) => S c | _ => c end.

Lemma nth_rank_lt (w : list wk) j : rank (nth j w WkNone) <> 0 -> j < length w.
Proof.
  intros H. destruct (lt_dec j (length w)); auto.
  rewrite nth_overflow in H by lia. cbn in H. lia.
Qed.

Ltac prep s HI :=
  destruct s as [p qu w m cl sk er ow];
  destruct HI as [Hlw Hlo Hpr Hmg Htk Hq Hwk Hcl Hcls Hsk Her Hown];
  unfold wk_of, set_wk, is_closed in *;
  cbn [prod queue wks mgr closedc sink err own] in *; try subst p; try subst m.

Ltac wk_at Hwk j Hw :=
  let H := fresh "Hwj" in
  pose proof (Hwk j) as H; rewrite Hw in H; unfold wk_ok in H; cbn [rank gotn spw sub] in H.

(* solve the worker-table goal after an update at j to a worker whose old state is known *)
Ltac wk_goal Hwk j Hlt :=
  let i := fresh "i" in
  intros i; destruct (Nat.eq_dec i j) as [->|Hne];
  [ rewrite nth_upd_same by exact Hlt | rewrite nth_upd_other by exact Hne; specialize (Hwk i) ];
  unfold wk_ok in *; cbn [rank gotn spw sub] in *.

Ltac own_goal Hown j Hj Hw :=
  let i := fresh "i" in let Hi := fresh "Hi" in let Hne := fresh "Hne" in
  intros i Hi; specialize (Hown i Hi);
  destruct (Nat.eq_dec i j) as [->|Hne];
  [ rewrite nth_upd_same by exact Hj; rewrite Hw in Hown; unfold own_ok in *; cbn [rank] in *; lia
  | rewrite nth_upd_other by exact Hne; exact Hown ].

Lemma sentq_job p m j : pphase p <= 2 -> mphase m = 0 -> sentq p (MgTaken (CJob j)) = sentq p m /\
   sentq p (MgGot (CJob j)) = sentq p m /\ sentq p (MgClosing (CJob j)) = sentq p m /\ sentq p MgIdle = sentq p m.
Proof.
  destruct p; cbn; auto. destruct m as [|[|]|[|]|[|]|]; cbn; auto; lia.
Qed.

Lemma step_inv s c e s' : Inv s c -> step s e s' -> Inv s' (nextc e c).
Proof.
  intros HI Hs. inversion Hs; subst; clear Hs; prep s HI; cbn [nextc].
  - (* enqueue *)
    constructor; cbn [prod queue wks mgr closedc sink err own]; try assumption; try reflexivity; try lia.
    + rewrite upd_length; auto.
    + destruct m as [|[|]|[|]|[|]|]; cbn in *; lia.
    + cbn [sub] in *. lia.
    + cbn [sub] in *. rewrite Hq. rewrite seq_snoc' by lia. rewrite map_app.
      cbn [sentq]. rewrite !app_nil_r. reflexivity.
    + intros i Hi. destruct (Nat.eq_dec i j) as [->|Hne].
      * rewrite nth_upd_same by lia. specialize (Hwk j). unfold wk_ok, own_ok in *. cbn [spw sub orank] in *. lia.
      * rewrite nth_upd_other by auto. specialize (Hown i Hi). unfold own_ok in *. cbn [sub] in *. lia.
  - (* spawn *)
    assert (Hj : j < length w) by (cbn in Hpr; lia).
    assert (Hsub : sub (if S j <? njobs then PrSubmit (S j) else PrCloseEnq) = S j).
    { destruct (Nat.ltb_spec (S j) njobs); cbn [sub]; cbn in Hpr; lia. }
    assert (Hspw : spw (if S j <? njobs then PrSubmit (S j) else PrCloseEnq) = S j).
    { destruct (Nat.ltb_spec (S j) njobs); cbn [spw]; cbn in Hpr; lia. }
    assert (Hpp : pphase (if S j <? njobs then PrSubmit (S j) else PrCloseEnq) <= 1).
    { destruct (Nat.ltb_spec (S j) njobs); cbn; lia. }
    assert (Hsq : forall m', sentq (if S j <? njobs then PrSubmit (S j) else PrCloseEnq) m' = []).
    { intros m'. destruct (Nat.ltb_spec (S j) njobs); cbn; auto. }
    constructor; cbn [prod queue wks mgr closedc sink err own]; try assumption; try reflexivity; try lia.
    + rewrite upd_length; auto.
    + destruct (Nat.ltb_spec (S j) njobs); auto.
    + pose proof (Hwk j) as Hwj. unfold wk_ok in Hwj. cbn [spw] in Hwj.
      destruct m as [|[|]|[|]|[|]|]; cbn [mg_ok pphase sub spw gotn] in *; rewrite ?Hsub, ?Hspw; try lia.
    + rewrite Hsub. cbn [sub] in Htk. auto.
    + rewrite Hsub, Hsq. rewrite Hq. cbn [sub sentq]. reflexivity.
    + pose proof (Hwk j) as Hwj. unfold wk_ok in Hwj. cbn [spw] in Hwj.
      intros i. destruct (Nat.eq_dec i j) as [->|Hne];
        [ rewrite nth_upd_same by exact Hj | rewrite nth_upd_other by exact Hne; specialize (Hwk i) ];
        unfold wk_ok in *; rewrite Hspw; cbn [rank spw] in *.
      * destruct m as [|[|]|[|]|[|]|]; cbn [mg_ok gotn spw] in *; lia.
      * lia.
    + intros i Hi. specialize (Hown i Hi). unfold own_ok in *. rewrite Hsub. cbn [sub] in Hown.
      destruct (Nat.eq_dec i j) as [->|Hne];
        [ rewrite nth_upd_same by exact Hj | rewrite nth_upd_other by exact Hne ]; auto.
      pose proof (Hwk j) as Hwj. unfold wk_ok in Hwj. cbn [spw] in Hwj. cbn [rank]. lia.
  - (* compress *)
    assert (Hj : j < length w) by (apply nth_rank_lt; rewrite H; cbn; lia).
    wk_at Hwk j H.
    constructor; cbn [prod queue wks mgr closedc sink err own]; try assumption; try reflexivity; try lia.
    + rewrite upd_length; auto.
    + wk_goal Hwk j Hj; lia.
    + own_goal Hown j Hj H.
  - (* take *)
    rewrite H0 in Hq. cbn [tkn mg_ok] in *.
    destruct (sub p - c) as [|k] eqn:Ek; cbn [seq map app] in *.
    + (* the sentinel *)
      destruct p; cbn [sentq pphase sub] in *; try discriminate. inversion Hq; subst; clear Hq.
      assert (c = njobs) by lia. subst c.
      constructor; cbn [prod queue wks mgr closedc sink err own tkn mg_ok wrt sub spw pphase sentq]; try assumption; try reflexivity; try lia.
      * rewrite Nat.sub_diag. reflexivity.
      * split; [intros Hx; apply Hcls in Hx; discriminate | discriminate].
    + inversion Hq; subst; clear Hq.
      constructor; cbn [prod queue wks mgr closedc sink err own tkn mg_ok wrt]; try assumption; try reflexivity; try lia.
      * replace (sub p - S c) with k by lia.
        destruct (sentq_job p MgIdle c Hmg eq_refl) as [-> _]. reflexivity.
      * split; [|discriminate]. intros Hx; apply Hcls in Hx; discriminate.
  - (* recv *)
    assert (Hj : j < length w) by (apply nth_rank_lt; rewrite H0; cbn; lia).
    cbn [mg_ok tkn wrt] in *. destruct Hmg as [-> [Hcs Hpp]].
    wk_at Hwk c H0.
    constructor; cbn [prod queue wks mgr closedc sink err own mg_ok tkn wrt]; try assumption; try reflexivity; try lia.
    + rewrite upd_length; auto.
    + wk_goal Hwk c Hj; lia.
    + split; [|discriminate]. intros Hx; apply Hcls in Hx; discriminate.
    + own_goal Hown c Hj H0.
  - (* write *)
    cbn [mg_ok tkn wrt] in *. destruct Hmg as [-> [Hcs Hpp]].
    pose proof (sub_le _ Hpr) as Hsl. pose proof (spw_le_sub p) as Hss.
    pose proof (ff_bounds 0 njobs) as Hfb. fold ff in Hfb. subst er sk.
    constructor; cbn [prod queue wks mgr closedc sink err own mg_ok tkn wrt]; try assumption; try reflexivity; try lia.
    + split; [|discriminate]. intros Hx; apply Hcls in Hx; discriminate.
    + destruct (Nat.ltb_spec ff c) as [Hlt|Hge]; cbn [orb].
      * replace (Nat.min (S c) ff) with (Nat.min c ff) by lia. auto.
      * destruct (fault c) eqn:Ef.
        -- assert (ff = c).
           { destruct (Nat.eq_dec ff c); auto. rewrite (ff_before 0 njobs c) in Ef; [discriminate|fold ff; lia]. }
           replace (Nat.min (S c) ff) with (Nat.min c ff) by lia. auto.
        -- assert (ff <> c).
           { intros Hfc. pose proof (ff_at 0 njobs) as Hat. fold ff in Hat. rewrite Hfc in Hat. rewrite Hat in Ef; [discriminate|lia]. }
           replace (Nat.min (S c) ff) with (S c) by lia. replace (Nat.min c ff) with c by lia.
           rewrite seq_S. reflexivity.
    + destruct (Nat.ltb_spec ff c) as [Hlt|Hge]; cbn [orb].
      * symmetry. apply Nat.ltb_lt. lia.
      * destruct (fault c) eqn:Ef.
        -- assert (ff = c).
           { destruct (Nat.eq_dec ff c); auto. rewrite (ff_before 0 njobs c) in Ef; [discriminate|fold ff; lia]. }
           symmetry. apply Nat.ltb_lt. lia.
        -- assert (ff <> c).
           { intros Hfc. pose proof (ff_at 0 njobs) as Hat. fold ff in Hat. rewrite Hfc in Hat. rewrite Hat in Ef; [discriminate|lia]. }
           symmetry. apply Nat.ltb_ge. lia.
  - (* close *)
    cbn [mg_ok tkn wrt] in *. destruct Hmg as [-> [Hcs Hpp]].
    constructor; cbn [prod queue wks mgr closedc sink err own mg_ok tkn wrt]; try assumption; try reflexivity; try lia.
    + intros i. specialize (Hwk i). unfold wk_ok in *. cbn [gotn] in *. lia.
    + intros i. cbn [existsb cid_eqb]. rewrite orb_true_iff, Nat.eqb_eq, Hcl. lia.
    + cbn [existsb cid_eqb orb]. split; [|discriminate]. intros Hx; apply Hcls in Hx; discriminate.
  - (* wake *)
    assert (Hj : j < length w) by (apply nth_rank_lt; rewrite H; cbn; lia).
    wk_at Hwk j H. apply Hcl in H0.
    constructor; cbn [prod queue wks mgr closedc sink err own]; try assumption; try reflexivity; try lia.
    + rewrite upd_length; auto.
    + wk_goal Hwk j Hj; lia.
    + own_goal Hown j Hj H.
  - (* release *)
    assert (Hj : j < length w) by (apply nth_rank_lt; rewrite H; cbn; lia).
    wk_at Hwk j H.
    constructor; cbn [prod queue wks mgr closedc sink err own]; try assumption; try reflexivity; try lia.
    + rewrite upd_length; auto.
    + rewrite upd_length; auto.
    + wk_goal Hwk j Hj; lia.
    + intros i Hi. specialize (Hown i Hi).
      destruct (Nat.eq_dec i j) as [->|Hne].
      * rewrite !nth_upd_same by lia. unfold own_ok; cbn [rank orank]. lia.
      * rewrite !nth_upd_other by exact Hne. auto.
  - (* close_enq *)
    constructor; cbn [prod queue wks mgr closedc sink err own]; try assumption; try reflexivity; try lia.
    + destruct m as [|[|]|[|]|[|]|]; cbn in *; lia.
    + rewrite Hq. cbn [sub sentq]. rewrite app_nil_r.
      destruct m as [|[|]|[|]|[|]|]; cbn in *; auto; lia.
  - (* close_offer *)
    cbn [mg_ok tkn wrt pphase sub spw] in *. destruct Hmg as [_ ->].
    constructor; cbn [prod queue wks mgr closedc sink err own mg_ok tkn wrt pphase sub spw]; try assumption; try reflexivity; try lia.
    + split; [|discriminate]. intros Hx; apply Hcls in Hx; discriminate.
  - (* exit *)
    cbn [mg_ok tkn wrt] in *. destruct Hmg as [Hpp ->].
    constructor; cbn [prod queue wks mgr closedc sink err own mg_ok tkn wrt]; try assumption; try reflexivity; try lia.
    + cbn. tauto.
  - (* close_done *)
    apply Hcls in H0. subst m. cbn [mg_ok tkn wrt pphase sub spw] in *.
    constructor; cbn [prod queue wks mgr closedc sink err own mg_ok tkn wrt pphase sub spw]; try assumption; try reflexivity; try lia.
Qed.

(* ---- runs, from the left ---- *)
Definition optl (e : option event) : list event := match e with Some ev => [ev] | None => [] end.

Lemma run_inv_gen (Q : list event -> st -> Prop) :
  (forall pre s e s', Q pre s -> step s e s' -> Q (pre ++ optl e) s') ->
  forall s es s2, run s es s2 -> forall pre, Q pre s -> Q (pre ++ es) s2.
Proof.
  intros HQ s es s2 Hr. induction Hr as [s|s e s1 es s2 Hs Hr IH]; intros pre Hpre.
  - rewrite app_nil_r; auto.
  - specialize (IH (pre ++ optl e) (HQ _ _ _ _ Hpre Hs)).
    destruct e; cbn [optl] in IH; rewrite <- app_assoc in IH; exact IH.
Qed.

Lemma reach_inv s : reachable s -> exists c, Inv s c.
Proof.
  intros [es Hr].
  refine (run_inv_gen (fun _ s => exists c, Inv s c) _ _ _ _ Hr [] _).
  - intros _ s0 e s' [c HI] Hs. eexists. eapply step_inv; eauto.
  - exists 0. apply Inv_init.
Qed.

Lemma rank_inj_facts w :
  (rank w = 0 -> w = WkNone) /\ (rank w = 3 -> w = WkWait) /\ (rank w = 4 -> w = WkWoken) /\ (rank w = 5 -> w = WkDone).
Proof. destruct w; cbn; repeat split; intros; auto; lia. Qed.

Lemma rank_le5 w : rank w <= 5.
Proof. destruct w; cbn; lia. Qed.

(* ---- 1. order ---- *)
Lemma order_inv s c : Inv s c ->
  exists k, sink s = seq 0 k /\ k <= ff /\ (final njobs s -> k = ff /\ err s = negb (Nat.eqb k njobs)).
Proof.
  intros HI. exists (Nat.min (wrt (mgr s) c) ff).
  pose proof (ff_bounds 0 njobs) as Hfb. fold ff in Hfb.
  split; [apply (I_sink _ _ HI)|]. split; [lia|].
  intros [_ [Hm _]]. pose proof (I_mg _ _ HI) as Hmg. pose proof (I_err _ _ HI) as He.
  rewrite Hm in *. cbn [mg_ok wrt] in *. destruct Hmg as [_ ->].
  split; [lia|]. rewrite He. replace (Nat.min njobs ff) with ff by lia.
  destruct (Nat.ltb_spec ff njobs); destruct (Nat.eqb_spec ff njobs); cbn; auto; lia.
Qed.

(* ---- 2. buffer ownership ---- *)
Lemma owner_inv s c j : Inv s c -> j < njobs ->
  (mgr s = MgGot (CJob j) -> wk_of s j = WkWait /\ nth j (own s) OwProducer = OwWorker) /\
  (nth j (own s) OwProducer = OwPool -> wk_of s j = WkDone) /\
  (nth j (own s) OwProducer = OwProducer -> wk_of s j = WkNone).
Proof.
  intros HI Hj. prep s HI.
  pose proof (Hwk j) as Hwj. specialize (Hown j Hj). pose proof (spw_le_sub p) as Hss.
  pose proof (rank_inj_facts (nth j w WkNone)) as [R0 [R3 [R4 R5]]].
  pose proof (rank_le5 (nth j w WkNone)) as Rle.
  unfold wk_ok, own_ok in *.
  split; [|split].
  - intros ->. cbn [mg_ok gotn] in *. destruct Hmg as [-> [Hc Hp]].
    assert (rank (nth c w WkNone) = 3) by lia. split; auto.
    destruct (nth c ow OwProducer); cbn [orank] in *; auto; lia.
  - intros Ho. rewrite Ho in Hown. cbn [orank] in Hown. apply R5. lia.
  - intros Ho. rewrite Ho in Hown. cbn [orank] in Hown. apply R0. lia.
Qed.

(* ---- 3. deadlock freedom ---- *)
Lemma all_or_ex (w : list wk) n :
  (forall j, j < n -> rank (nth j w WkNone) = 5) \/ (exists j, j < n /\ rank (nth j w WkNone) <> 5).
Proof.
  induction n as [|n [IH|[j [Hj Hr]]]].
  - left; intros; lia.
  - destruct (Nat.eq_dec (rank (nth n w WkNone)) 5) as [E|E].
    + left. intros j Hj. destruct (Nat.eq_dec j n); [subst; auto|apply IH; lia].
    + right. exists n. split; auto.
  - right. exists j. split; auto.
Qed.

Lemma progress_inv s c : Inv s c -> final njobs s \/ exists e s', step s e s'.
Proof.
  intros HI. unfold final. prep s HI.
  destruct m as [|[j|]|[j|]|[j|]|]; cbn [mg_ok tkn gotn] in *.
  - (* idle *)
    right. destruct qu as [|c0 q].
    + destruct p; cbn [pphase sentq sub] in *; try lia.
      * do 2 eexists. eapply S_enqueue with (j := j); cbn; auto; lia.
      * do 2 eexists. eapply S_spawn with (j := j); cbn; auto.
      * do 2 eexists. eapply S_close_enq; cbn; auto; lia.
      * symmetry in Hq. apply app_eq_nil in Hq. destruct Hq; discriminate.
    + do 2 eexists. eapply S_take; cbn; eauto.
  - (* taken job *)
    right. destruct Hmg as [-> [Hc Hp]].
    pose proof (Hwk c) as Hwc. unfold wk_ok in Hwc. cbn [gotn] in Hwc.
    destruct (nth c w WkNone) eqn:E; cbn [rank] in Hwc; try lia.
    + assert (p = PrSubmitted c) by (destruct p; cbn [sub spw pphase] in *; try lia; f_equal; lia).
      subst p. do 2 eexists. eapply S_spawn with (j := c); cbn; auto.
    + do 2 eexists. eapply S_compress with (j := c); unfold wk_of; cbn; auto.
    + do 2 eexists. eapply S_recv with (j := c); unfold wk_of; cbn; auto.
  - (* taken sentinel *)
    right. destruct p; cbn [pphase] in *; try lia.
    do 2 eexists. eapply S_close_offer; cbn; auto.
  - right. do 2 eexists. eapply S_write with (j := j); cbn; auto.
  - right. do 2 eexists. eapply S_exit; cbn; auto.
  - right. do 2 eexists. eapply S_close with (j := j); cbn; auto.
  - contradiction.
  - (* exited *)
    destruct Hmg as [Hp ->].
    destruct p; cbn [pphase sub sentq] in *; try lia.
    + right. do 2 eexists. eapply S_close_done; unfold is_closed; cbn; auto. apply Hcls; auto.
    + rewrite Nat.sub_diag in Hq. cbn in Hq.
      destruct (all_or_ex w njobs) as [Hall|[j [Hj Hr]]].
      * left. repeat split; auto. intros j Hj. unfold wk_of; cbn.
        apply (rank_inj_facts (nth j w WkNone)). auto.
      * right. pose proof (Hwk j) as Hwj. unfold wk_ok in Hwj.
        destruct (nth j w WkNone) eqn:E; cbn [rank] in *; try lia.
        -- do 2 eexists. eapply S_wake with (j := j); unfold wk_of, is_closed; cbn; auto. apply Hcl; auto.
        -- do 2 eexists. eapply S_release with (j := j); unfold wk_of; cbn; auto.
Qed.

(* ---- 4. no leak (corrected statement: a worker may still be parked in WkWait on a channel
        that is already closed, i.e. its wake-up is enabled) ---- *)
Lemma noleak_inv s c : Inv s c -> returned s ->
  mgr s = MgExited /\ queue s = [] /\
  forall j, j < njobs -> is_closed s (CJob j) = true /\
    (wk_of s j = WkWoken \/ wk_of s j = WkDone \/ wk_of s j = WkWait).
Proof.
  intros HI Hr. unfold returned in Hr. prep s HI.
  assert (m = MgExited /\ c = njobs) as [-> ->].
  { destruct m as [|[j|]|[j|]|[j|]|]; cbn [mg_ok pphase] in *; try lia; try contradiction. split; auto; lia. }
  cbn [tkn sub sentq] in *. rewrite Nat.sub_diag in Hq.
  split; auto. split; auto.
  intros j Hj. split; [apply Hcl; auto|].
  pose proof (Hwk j) as Hwj. unfold wk_ok in Hwj.
  destruct (nth j w WkNone); cbn [rank] in *; auto; lia.
Qed.

(* ---- 5. termination measure ---- *)
Definition pm (p : pr) : nat :=
  match p with
  | PrSubmit j => 10 * (njobs - j) + 20 | PrSubmitted j => 10 * (njobs - j) + 15
  | PrCloseEnq => 10 | PrCloseOffer => 5 | PrCloseWait => 1 | PrDone => 0
  end.
Definition mm (m : mg) : nat :=
  match m with MgIdle => 0 | MgTaken _ => 3 | MgGot _ => 2 | MgClosing _ => 1 | MgExited => 0 end.
Fixpoint wsum (l : list wk) : nat := match l with [] => 0 | w :: r => (5 - rank w) + wsum r end.
Definition measure (s : st) : nat := pm (prod s) + 4 * length (queue s) + mm (mgr s) + wsum (wks s).

Lemma wsum_upd l j y : j < length l ->
  wsum (upd l j y) + (5 - rank (nth j l WkNone)) = wsum l + (5 - rank y).
Proof.
  revert j; induction l as [|x l IH]; intros [|j] Hj; cbn [length upd wsum nth] in *; try lia.
  specialize (IH j). lia.
Qed.
Lemma wsum_upd_le l j y : wsum (upd l j y) <= wsum l + (5 - rank y).
Proof.
  destruct (lt_dec j (length l)) as [H|H].
  - pose proof (wsum_upd l j y H). lia.
  - rewrite upd_overflow by lia. lia.
Qed.

Lemma measure_decr s e s' : step s e s' -> measure s' < measure s.
Proof.
  intros Hs. inversion Hs; subst; clear Hs; unfold measure, wk_of, set_wk in *;
    cbn [prod queue wks mgr closedc sink err own] in *;
    repeat match goal with H : prod _ = _ |- _ => rewrite H | H : mgr _ = _ |- _ => rewrite H | H : queue _ = _ |- _ => rewrite H end;
    rewrite ?app_length; cbn [pm mm length].
  - lia.
  - pose proof (wsum_upd_le (wks s) j WkStart) as Hw. cbn [rank] in Hw.
    destruct (Nat.ltb_spec (S j) njobs); cbn [pm]; lia.
  - assert (Hj : j < length (wks s)) by (apply nth_rank_lt; rewrite H; cbn; lia).
    pose proof (wsum_upd (wks s) j WkOffer Hj) as Hw. rewrite H in Hw. cbn [rank] in Hw. lia.
  - lia.
  - assert (Hj : j < length (wks s)) by (apply nth_rank_lt; rewrite H0; cbn; lia).
    pose proof (wsum_upd (wks s) j WkWait Hj) as Hw. rewrite H0 in Hw. cbn [rank] in Hw. lia.
  - lia.
  - lia.
  - assert (Hj : j < length (wks s)) by (apply nth_rank_lt; rewrite H; cbn; lia).
    pose proof (wsum_upd (wks s) j WkWoken Hj) as Hw. rewrite H in Hw. cbn [rank] in Hw. lia.
  - assert (Hj : j < length (wks s)) by (apply nth_rank_lt; rewrite H; cbn; lia).
    pose proof (wsum_upd (wks s) j WkDone Hj) as Hw. rewrite H in Hw. cbn [rank] in Hw. lia.
  - lia.
  - lia.
  - lia.
  - lia.
Qed.

(* ---- 6. the trace checker ---- *)
(* which events have been emitted so far, as a function of the state (and the closed count c) *)
Definition hap (s : st) (c : nat) (ev : event) : Prop :=
  match ev with
  | EvEnqueue (CJob j) => j < sub (prod s)
  | EvSubmitted (CJob j) => j < spw (prod s)
  | EvWkOffer (CJob j) => 2 <= rank (wk_of s j)
  | EvMgrTake (CJob j) => j < tkn (mgr s) c
  | EvMgrTake CSentinel => 1 <= mphase (mgr s)
  | EvMgrRecv (CJob j) => 3 <= rank (wk_of s j)
  | EvMgrClose (CJob j) => j < c
  | EvMgrExit => 3 <= mphase (mgr s)
  | EvWkWoken (CJob j) => 4 <= rank (wk_of s j)
  | EvWkDone (CJob j) => 5 <= rank (wk_of s j)
  | EvCloseEnqueue => 2 <= pphase (prod s)
  | EvCloseOffer => 3 <= pphase (prod s)
  | EvCloseDone => 4 <= pphase (prod s)
  | _ => False
  end.

(* the ordering constraints checked by trace_ok *)
Inductive constr : event -> event -> Prop :=
  | C_enq_take j : constr (EvEnqueue (CJob j)) (EvMgrTake (CJob j))
  | C_take_recv j : constr (EvMgrTake (CJob j)) (EvMgrRecv (CJob j))
  | C_offer_recv j : constr (EvWkOffer (CJob j)) (EvMgrRecv (CJob j))
  | C_recv_close j : constr (EvMgrRecv (CJob j)) (EvMgrClose (CJob j))
  | C_close_woken j : constr (EvMgrClose (CJob j)) (EvWkWoken (CJob j))
  | C_woken_done j : constr (EvWkWoken (CJob j)) (EvWkDone (CJob j))
  | C_enq_sub j : constr (EvEnqueue (CJob j)) (EvSubmitted (CJob j))
  | C_close_take j : constr (EvMgrClose (CJob j)) (EvMgrTake (CJob (S j)))
  | C_enq_enq j : constr (EvEnqueue (CJob j)) (EvEnqueue (CJob (S j)))
  | C_close_exit j : j < njobs -> constr (EvMgrClose (CJob j)) EvMgrExit
  | C_enq_cenq j : j < njobs -> constr (EvEnqueue (CJob j)) EvCloseEnqueue
  | C_cenq_coffer : constr EvCloseEnqueue EvCloseOffer
  | C_coffer_exit : constr EvCloseOffer EvMgrExit
  | C_exit_done : constr EvMgrExit EvCloseDone.

Lemma take_cases p m c qu c0 q :
  mg_ok p m c -> tkn m c <= sub p -> m = MgIdle ->
  qu = map CJob (seq (tkn m c) (sub p - tkn m c)) ++ sentq p m -> qu = c0 :: q ->
  (c0 = CSentinel /\ p = PrCloseOffer /\ c = njobs) \/ (c0 = CJob c /\ c < sub p).
Proof.
  intros Hmg Htk -> Hq H0. rewrite H0 in Hq. cbn [tkn mg_ok] in *.
  destruct (sub p - c) as [|k] eqn:Ek; cbn [seq map app] in *.
  - left. destruct p; cbn [sentq pphase sub] in *; try discriminate. inversion Hq. repeat split; auto. lia.
  - right. inversion Hq. split; auto. lia.
Qed.

Ltac hs_fin :=
  cbn [rank] in *;
  split;
  [ let Hh := fresh "Hh" in intros Hh; first [ left; lia | right; reflexivity | left; exact Hh | contradiction ]
  | let Hh := fresh "Hh" in intros [Hh|Hh];
    first [ lia | exact Hh | contradiction | discriminate Hh | (inversion Hh; subst; lia) ] ].

Ltac ev_cases ev :=
  destruct ev as [[i|]|[i|]|[i|]|[i|]|[i|]|[i|]|[i|]| |[i|]|[i|]| | | ].

Lemma step_hap s c e s' : Inv s c -> step s e s' ->
  forall ev, hap s' (nextc e c) ev <-> hap s c ev \/ e = Some ev.
Proof.
  intros HI Hs. inversion Hs; subst; clear Hs; prep s HI; cbn [nextc].
  - (* enqueue *)
    intros ev; ev_cases ev; unfold hap, wk_of; cbn [prod mgr wks sub spw pphase];
      try (destruct (Nat.eq_dec i j) as [->|Hne]); hs_fin.
  - (* spawn *)
    assert (Hj : j < length w) by (cbn in Hpr; lia).
    assert (Hr : rank (nth j w WkNone) = 0).
    { pose proof (Hwk j) as Hwj. unfold wk_ok in Hwj. cbn [spw] in Hwj. lia. }
    cbn in Hpr.
    intros ev; ev_cases ev; unfold hap, wk_of; cbn [prod mgr wks];
      destruct (Nat.ltb_spec (S j) njobs); cbn [sub spw pphase];
      try (destruct (Nat.eq_dec i j) as [->|Hne];
           [ rewrite ?nth_upd_same by exact Hj | rewrite ?nth_upd_other by exact Hne ]); hs_fin.
  - (* compress *)
    assert (Hj : j < length w) by (apply nth_rank_lt; rewrite H; cbn; lia).
    assert (Hr : rank (nth j w WkNone) = 1) by (rewrite H; reflexivity).
    intros ev; ev_cases ev; unfold hap, wk_of; cbn [prod mgr wks];
      try (destruct (Nat.eq_dec i j) as [->|Hne];
           [ rewrite ?nth_upd_same by exact Hj | rewrite ?nth_upd_other by exact Hne ]); hs_fin.
  - (* take *)
    destruct (take_cases _ _ _ _ _ _ Hmg Htk eq_refl Hq H0) as [[-> [-> ->]]|[-> Hc]].
    + intros ev; ev_cases ev; unfold hap, wk_of; cbn [prod mgr wks tkn mphase]; hs_fin.
    + intros ev; ev_cases ev; unfold hap, wk_of; cbn [prod mgr wks tkn mphase];
        try (destruct (Nat.eq_dec i c) as [->|Hne]); hs_fin.
  - (* recv *)
    assert (Hj : j < length w) by (apply nth_rank_lt; rewrite H0; cbn; lia).
    assert (Hr : rank (nth j w WkNone) = 2) by (rewrite H0; reflexivity).
    intros ev; ev_cases ev; unfold hap, wk_of; cbn [prod mgr wks tkn mphase];
      try (destruct (Nat.eq_dec i j) as [->|Hne];
           [ rewrite ?nth_upd_same by exact Hj | rewrite ?nth_upd_other by exact Hne ]); hs_fin.
  - (* write *)
    intros ev; ev_cases ev; unfold hap, wk_of; cbn [prod mgr wks tkn mphase]; hs_fin.
  - (* close *)
    cbn [mg_ok] in Hmg. destruct Hmg as [-> _].
    intros ev; ev_cases ev; unfold hap, wk_of; cbn [prod mgr wks tkn mphase];
      try (destruct (Nat.eq_dec i c) as [->|Hne]); hs_fin.
  - (* wake *)
    assert (Hj : j < length w) by (apply nth_rank_lt; rewrite H; cbn; lia).
    assert (Hr : rank (nth j w WkNone) = 3) by (rewrite H; reflexivity).
    intros ev; ev_cases ev; unfold hap, wk_of; cbn [prod mgr wks];
      try (destruct (Nat.eq_dec i j) as [->|Hne];
           [ rewrite ?nth_upd_same by exact Hj | rewrite ?nth_upd_other by exact Hne ]); hs_fin.
  - (* release *)
    assert (Hj : j < length w) by (apply nth_rank_lt; rewrite H; cbn; lia).
    assert (Hr : rank (nth j w WkNone) = 4) by (rewrite H; reflexivity).
    intros ev; ev_cases ev; unfold hap, wk_of; cbn [prod mgr wks];
      try (destruct (Nat.eq_dec i j) as [->|Hne];
           [ rewrite ?nth_upd_same by exact Hj | rewrite ?nth_upd_other by exact Hne ]); hs_fin.
  - (* close_enq *)
    intros ev; ev_cases ev; unfold hap, wk_of; cbn [prod mgr wks sub spw pphase]; hs_fin.
  - (* close_offer *)
    intros ev; ev_cases ev; unfold hap, wk_of; cbn [prod mgr wks sub spw pphase tkn mphase]; hs_fin.
  - (* exit *)
    intros ev; ev_cases ev; unfold hap, wk_of; cbn [prod mgr wks tkn mphase]; hs_fin.
  - (* close_done *)
    intros ev; ev_cases ev; unfold hap, wk_of; cbn [prod mgr wks sub spw pphase]; hs_fin.
Qed.

(* the event about to be emitted is new, and everything the checker wants before it has happened *)
Ltac rank_hyp :=
  match goal with H : nth ?j ?w WkNone = ?x |- _ =>
    assert (Hr : rank (nth j w WkNone) = rank x) by (rewrite H; reflexivity); cbn [rank] in Hr end.

Lemma step_pre s c e s' : Inv s c -> step s (Some e) s' ->
  ~ hap s c e /\ forall a, constr a e -> hap s c a.
Proof.
  intros HI Hs. inversion Hs; subst; clear Hs; prep s HI.
  - split; [cbn; lia|]. intros a Hc; inversion Hc; subst; cbn; lia.
  - split; [cbn; lia|]. intros a Hc; inversion Hc; subst; cbn; lia.
  - rank_hyp.
    split; [unfold hap, wk_of; cbn [wks]; lia|]. intros a Hc; inversion Hc.
  - match goal with H0 : qu = _ :: _ |- _ => destruct (take_cases _ _ _ _ _ _ Hmg Htk eq_refl Hq H0) as [[-> [-> ->]]|[-> Hc]] end.
    + split; [cbn; lia|]. intros a Hc; inversion Hc.
    + split; [cbn; lia|]. intros a Hc'; inversion Hc'; subst; cbn; lia.
  - rank_hyp.
    cbn [mg_ok] in Hmg. destruct Hmg as [-> _].
    split; [unfold hap, wk_of; cbn [wks]; lia|].
    intros a Hc'; inversion Hc'; subst; unfold hap, wk_of; cbn [wks mgr tkn]; lia.
  - cbn [mg_ok] in Hmg. destruct Hmg as [-> [Hc _]].
    pose proof (Hwk c) as Hwc. unfold wk_ok in Hwc. cbn [gotn] in Hwc.
    split; [cbn; lia|].
    intros a Hc'; inversion Hc'; subst; unfold hap, wk_of; cbn [wks]; lia.
  - rank_hyp.
    match goal with H0 : existsb _ cl = true |- _ => apply Hcl in H0 end.
    split; [unfold hap, wk_of; cbn [wks]; lia|].
    intros a Hc'; inversion Hc'; subst; cbn; lia.
  - rank_hyp.
    split; [unfold hap, wk_of; cbn [wks]; lia|].
    intros a Hc'; inversion Hc'; subst; unfold hap, wk_of; cbn [wks]; lia.
  - split; [cbn; lia|]. intros a Hc'; inversion Hc'; subst; cbn; lia.
  - split; [cbn; lia|]. intros a Hc'; inversion Hc'; subst; cbn; lia.
  - cbn [mg_ok] in Hmg. destruct Hmg as [Hp ->].
    split; [cbn; lia|]. intros a Hc'; inversion Hc'; subst; cbn; lia.
  - match goal with H0 : existsb _ cl = true |- _ => apply Hcls in H0 end. subst m.
    split; [cbn; lia|]. intros a Hc'; inversion Hc'; subst; cbn; lia.
Qed.

Definition Q (es : list event) (s : st) : Prop :=
  exists c, Inv s c /\ (forall ev, In ev es <-> hap s c ev) /\ NoDup_b es = true /\
            (forall a b, constr a b -> before es a b = true).

Lemma Q_init : Q [] init.
Proof.
  exists 0. split; [apply Inv_init|]. split; [|split; [reflexivity|intros; apply before_nil]].
  intros ev. cbn [In]. split; [contradiction|].
  destruct init_prod as [[Hp Hn]|[Hp Hn]];
    ev_cases ev; unfold hap, wk_of; rewrite ?Hp; unfold PipeW.init; cbn [wks mgr];
    rewrite ?nth_repeat'; cbn [sub spw pphase tkn mphase rank]; lia.
Qed.

Lemma Q_step pre s e s' : Q pre s -> step s e s' -> Q (pre ++ optl e) s'.
Proof.
  intros [c [HI [Hh [Hnd Hb]]]] Hs.
  exists (nextc e c). split; [eapply step_inv; eauto|].
  pose proof (step_hap _ _ _ _ HI Hs) as Hh'.
  destruct e as [e|]; cbn [optl].
  - destruct (step_pre _ _ _ _ HI Hs) as [Hnew Hpre].
    split; [|split].
    + intros ev. rewrite in_app_iff, Hh', Hh. cbn [In].
      split; (intros [H|H]; [left; auto|right]).
      * destruct H; [subst; auto|contradiction].
      * inversion H; auto.
    + apply NoDup_b_snoc; auto. rewrite Hh. auto.
    + intros a b Hc. apply before_snoc; auto.
      intros ->. apply Hh. apply Hpre. auto.
  - rewrite app_nil_r. split; [|split]; auto.
    intros ev. rewrite Hh', Hh. split; [auto|]. intros [H|H]; [auto|discriminate].
Qed.

Lemma run_Q es s : run init es s -> Q es s.
Proof.
  intros Hr. exact (run_inv_gen Q Q_step _ _ _ Hr [] Q_init).
Qed.

Lemma constr_trace_ok es :
  NoDup_b es = true -> (forall a b, constr a b -> before es a b = true) -> trace_ok njobs es = true.
Proof.
  intros Hnd Hb. unfold trace_ok.
  rewrite !andb_true_iff. repeat split; auto; try (apply Hb; constructor).
  apply forallb_forall. intros j Hj. apply in_seq in Hj. unfold job_ok.
  rewrite !andb_true_iff. repeat split; apply Hb; constructor; lia.
Qed.

Lemma checker_run es s : run init es s -> trace_ok njobs es = true.
Proof.
  intros Hr. destruct (run_Q _ _ Hr) as [c [_ [_ [Hnd Hb]]]]. apply constr_trace_ok; auto.
Qed.

End Proofs.

(* ================================================================== *)
(* the theorems of PipeWSpec.v                                          *)
(* ================================================================== *)
Theorem pw_order : pw_order_stmt.
Proof.
  intros num njobs fault s Hnum Hr. apply reach_inv in Hr; [|exact Hnum]. destruct Hr as [c HI].
  eapply order_inv; eauto.
Qed.

Theorem pw_owner : pw_owner_stmt.
Proof.
  intros num njobs fault s j Hnum Hr Hj. apply reach_inv in Hr; [|exact Hnum]. destruct Hr as [c HI].
  eapply owner_inv; eauto.
Qed.

Theorem pw_progress : pw_progress_stmt.
Proof.
  intros num njobs fault s Hnum Hr. apply reach_inv in Hr; [|exact Hnum]. destruct Hr as [c HI].
  eapply progress_inv; eauto.
Qed.

Theorem pw_terminates : pw_terminates_stmt.
Proof.
  intros num njobs fault Hnum. exists (measure njobs). intros s e s' _ Hs.
  eapply measure_decr; eauto.
Qed.

Theorem pw_checker : pw_checker_stmt.
Proof.
  intros num njobs fault s es Hnum Hr. eapply checker_run; eauto.
Qed.

(* ---- pw_noleak_stmt is FALSE as stated: after Close has returned a worker can still be parked in
   WkWait (its channel is closed, so its wake-up is enabled, but it has not been scheduled yet).
   Counterexample: num = 1, njobs = 1, no fault; the run
   enqueue 0, spawn 0, compress 0, take 0, recv 0, write 0, close 0, close-enqueue, take sentinel,
   close-offer, manager exit, close-done   leaves worker 0 in WkWait with prod = PrDone. *)
Definition s_cex : st :=
  mkst PrDone [] [WkWait] MgExited [CSentinel; CJob 0] [0] false [OwWorker].

Lemma reach_cex : reachable 1 1 (fun _ => false) s_cex.
Proof.
  eexists.
  eapply R_step; [eapply S_enqueue; [reflexivity|cbn; lia]|cbn].
  eapply R_step; [eapply S_spawn; reflexivity|cbn].
  eapply R_step; [eapply S_compress with (j := 0); reflexivity|cbn].
  eapply R_step; [eapply S_take; reflexivity|cbn].
  eapply R_step; [eapply S_recv with (j := 0); reflexivity|cbn].
  eapply R_step; [eapply S_write with (j := 0); reflexivity|cbn].
  eapply R_step; [eapply S_close with (j := 0); reflexivity|cbn].
  eapply R_step; [eapply S_close_enq; [reflexivity|cbn; lia]|cbn].
  eapply R_step; [eapply S_take; reflexivity|cbn].
  eapply R_step; [eapply S_close_offer; reflexivity|cbn].
  eapply R_step; [eapply S_exit; reflexivity|cbn].
  eapply R_step; [eapply S_close_done; reflexivity|cbn].
  apply R_nil.
Qed.

Theorem pw_noleak_false : ~ pw_noleak_stmt.
Proof.
  intros H. destruct (H 1 1 (fun _ => false) s_cex (le_n 1) reach_cex eq_refl) as [_ [_ Hw]].
  destruct (Hw 0 (le_n 1)) as [E|E]; discriminate E.
Qed.

(* the closest true statement: the manager has exited, nothing is queued, every job's channel is
   closed and every worker is past the hand-over -- so no worker is blocked: a worker still in
   WkWait has its wake-up (S_wake) enabled *)
Definition pw_noleak_fixed_stmt : Prop :=
  forall num njobs fault s, (1 <= num)%nat -> reachable num njobs fault s -> returned s ->
  mgr s = MgExited /\ queue s = [] /\
  forall j, (j < njobs)%nat -> is_closed s (CJob j) = true /\
    (wk_of s j = WkWoken \/ wk_of s j = WkDone \/ wk_of s j = WkWait).

Theorem pw_noleak_fixed : pw_noleak_fixed_stmt.
Proof.
  intros num njobs fault s Hnum Hr Hret. apply reach_inv in Hr; [|exact Hnum]. destruct Hr as [c HI].
  eapply noleak_inv; eauto.
Qed.

(* a worker parked in WkWait on a closed channel is not blocked *)
Lemma pw_noleak_wait_enabled num njobs fault s j :
  wk_of s j = WkWait -> is_closed s (CJob j) = true ->
  step num njobs fault s (Some (EvWkWoken (CJob j))) (set_wk s j WkWoken).
Proof. intros; apply S_wake; auto. Qed.

Print Assumptions pw_order.
Print Assumptions pw_owner.
Print Assumptions pw_progress.
Print Assumptions pw_noleak_false.
Print Assumptions pw_noleak_fixed.
Print Assumptions pw_terminates.
Print Assumptions pw_checker.
