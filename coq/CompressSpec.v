(* CompressSpec.v — what the block compressors must satisfy, stated against the block-format
   specification only (statements; the proofs are in CompressFastProofs.v / CompressHCProofs.v /
   Bound.v). *)
From LZ4V Require Import Base GenBlock BlockFormat CompressFast CompressFastTable CompressHC CompressHCTop.

Definition bytes_fn (get : Z -> Z) (n : Z) : Prop := forall i, 0 <= i < n -> 0 <= get i < 256.

(* the worst-case size of an encoding: |encode p| <= n + n/255 + 16 with n the decoded length *)
Definition encode_bound_stmt : Prop :=
  forall p, wf_parse p -> len (encode p) <= total_len p + total_len p / 255 + 16.

(* a positive result is a complete, strictly valid block for the whole source that fits *)
Definition good_block (src b : list Z) (dstlen : Z) : Prop :=
  exists p, b = encode p /\ wf_parse p /\ strict p = true /\ total_len p = len src /\
            expand_parse [] (len src) [] p = Some (rev src) /\ 0 < len b <= dstlen.

(* ---- fast compressor, ANY table behaviour ---- *)
Definition fast_sound_stmt : Prop :=
  forall get n (T : Type) tget tput (tb0 : T) dstlen b, 0 <= n -> bytes_fn get n ->
  compress_fast get n T tget tput tb0 dstlen = COk b -> good_block (sub get 0 n) b dstlen.
Definition fast_small_only_stmt : Prop :=
  forall get n (T : Type) tget tput (tb0 : T) dstlen, 0 <= n -> bytes_fn get n ->
  (compress_fast get n T tget tput tb0 dstlen = CZero \/ compress_fast get n T tget tput tb0 dstlen = CErr) ->
  dstlen < lz4block_CompressBlockBound n.
Definition fast_nohang_stmt : Prop :=
  forall get n (T : Type) tget tput (tb0 : T) dstlen, 0 <= n ->
  compress_fast get n T tget tput tb0 dstlen <> CHang.
(* ---- fast compressor, the concrete table ---- *)
Definition fast_nopanic_stmt : Prop :=
  forall src st dstlen, bytes src -> compress_fast_list src st dstlen <> CPanic.
Definition fast_state_indep_stmt : Prop :=
  forall src st1 st2 dstlen, compress_fast_list src st1 dstlen = compress_fast_list src st2 dstlen.

(* ---- HC compressor ---- *)
Definition hc_sound_stmt : Prop :=
  forall get n depth wfuel dstlen b, 0 <= n -> bytes_fn get n -> 0 <= depth ->
  compress_hc get n depth wfuel dstlen = COk b -> good_block (sub get 0 n) b dstlen.
Definition hc_small_only_stmt : Prop :=
  forall get n depth wfuel dstlen, 0 <= n -> bytes_fn get n -> 0 <= depth ->
  (compress_hc get n depth wfuel dstlen = CZero \/ compress_hc get n depth wfuel dstlen = CErr) ->
  dstlen < lz4block_CompressBlockBound n.
Definition hc_nopanic_stmt : Prop :=
  forall get n depth wfuel dstlen, compress_hc get n depth wfuel dstlen <> CPanic.
(* termination by counting tries: covers depth 0 and every depth up to 131072 (all nine named levels) *)
Definition hc_nohang_stmt : Prop :=
  forall get n depth wfuel dstlen, 0 <= n -> 0 <= depth <= 131072 -> 131072 < Z.of_nat wfuel ->
  compress_hc get n depth wfuel dstlen <> CHang.
