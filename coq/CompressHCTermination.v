(* CompressHCTermination.v — the HC model never hangs, for EVERY search depth.
   The chain walk terminates because it visits strictly decreasing positions inside the 64 KiB
   window, whatever the number of tries: the value held in chain slot k is 0 or lies strictly
   below some position p < si with p = k (mod 65536) (the position whose insertion wrote the
   slot), and a candidate next with si - 65536 < next < si can only share its slot with positions
   p <= next.  No axioms. *)
From Coq Require Import FMapPositive ZifyBool.
From LZ4V Require Import Base GenBlock BlockFormat BlockFormatProofs CompressFast CompressFastTable
  CompressHC CompressHCTop CompressSpec CompressHCProofs.

Ltac Zify.zify_post_hook ::= Z.div_mod_to_equations.

Lemma land_winMask p : Z.land p lz4block_winMask = p mod 65536.
Proof.
  change lz4block_winMask with (Z.ones 16). rewrite Z.land_ones by lia. reflexivity.
Qed.

(* chain table: slot q mod 65536 holds 0 or a value strictly below a position p < si of that slot *)
Definition cinv (si : Z) (cT : tbl) : Prop :=
  forall q, hfind cT (q mod 65536) <= 0 \/
            exists p, p < si /\ p mod 65536 = q mod 65536 /\ hfind cT (q mod 65536) < p.

Lemma cinv_empty si : cinv si (PositiveMap.empty Z).
Proof. intros q. left. unfold hfind. rewrite PositiveMap.gempty. lia. Qed.

Lemma cinv_mono si si' cT : si <= si' -> cinv si cT -> cinv si' cT.
Proof.
  intros Hle H q. destruct (H q) as [H0|(p & Hp & Hm & Hv)]; [left; exact H0|right].
  exists p. repeat split; try assumption. lia.
Qed.

(* inserting position p0: its slot receives a value that is 0 or below p0 *)
Lemma cinv_hadd p0 cT v : cinv p0 cT -> (v <= 0 \/ v < p0) ->
  cinv (p0 + 1) (hadd cT (Z.land p0 lz4block_winMask) v).
Proof.
  intros H Hv q. rewrite land_winMask. unfold hfind, hadd.
  destruct (Pos.eq_dec (Z.to_pos (q mod 65536 + 1)) (Z.to_pos (p0 mod 65536 + 1))) as [He|Hne].
  - rewrite He, PositiveMap.gss.
    apply Z2Pos.inj in He; [|lia|lia].
    destruct Hv as [Hv|Hv]; [left; exact Hv|right]. exists p0. repeat split; lia.
  - rewrite PositiveMap.gso by exact Hne.
    destruct (H q) as [H0|(p & Hp & Hm & Hlt)]; [left; exact H0|right].
    exists p. repeat split; try assumption. lia.
Qed.

Lemma tv_le_or_lt si v : tv si v -> v <= 0 \/ v < si.
Proof. unfold tv. lia. Qed.

(* ---- the walk: positions strictly decrease and stay inside the window ---- *)
Lemma walk_fuel_all get n : forall fuel cT next try si mLen offset,
  cinv si cT -> (next <= 0 \/ next < si) -> 0 < Z.of_nat fuel ->
  Z.min next (next - (si - 65536)) < Z.of_nat fuel ->
  walk get n fuel cT next try si mLen offset <> None.
Proof.
  induction fuel as [|f IH]; intros cT next try si mLen offset Hc Hlt Hf0 Hf; [lia|].
  cbn [walk]. unfold lz4block_winSize.
  destruct ((0 <? try) && (0 <? next) && (si - next <? 65536)) eqn:Ec; [|discriminate].
  assert (Hnxt : hfind cT (Z.land next lz4block_winMask) <= 0 \/
                 hfind cT (Z.land next lz4block_winMask) < next).
  { rewrite land_winMask. destruct (Hc next) as [H0|(p & Hp & Hm & Hv)]; [left; exact H0|right]. lia. }
  remember (hfind cT (Z.land next lz4block_winMask)) as nxt eqn:Enxt.
  assert (Hstep : (nxt <= 0 \/ nxt < si) /\ 0 < Z.of_nat f /\ Z.min nxt (nxt - (si - 65536)) < Z.of_nat f) by lia.
  destruct Hstep as (Hs1 & Hs2 & Hs3).
  destruct (get (next + mLen) =? get (si + mLen)).
  - match goal with |- context [if ?c then _ else _] => destruct c end; apply IH; assumption.
  - apply IH; assumption.
Qed.

Lemma insert_overlap_cinv get : forall cnt p m hT cT hT' cT',
  0 <= p -> tinv p hT -> cinv p cT ->
  insert_overlap get cnt p m hT cT = (hT', cT') ->
  tinv (p + Z.of_nat cnt) hT' /\ cinv (p + Z.of_nat cnt) cT'.
Proof.
  induction cnt as [|c IH]; intros p m hT cT hT' cT' Hp HhT HcT Hi; cbn [insert_overlap] in Hi.
  - injection Hi as <- <-. replace (p + Z.of_nat 0) with p by lia. split; assumption.
  - replace (p + Z.of_nat (S c)) with (p + 1 + Z.of_nat c) by lia.
    refine (IH (p + 1) _ _ _ hT' cT' _ _ _ Hi); [lia| |].
    + apply tinv_hadd; [eapply tinv_mono; [|exact HhT]; lia|unfold tv; lia].
    + apply cinv_hadd; [exact HcT|]. apply tv_le_or_lt. apply tinv_hfind. exact HhT.
Qed.

Lemma hloop_nohang_all get n depth0 wfuel : 65536 < Z.of_nat wfuel ->
  forall fuel si anchor hashT chainT acc,
  0 <= si -> anchor <= si -> tinv si hashT -> cinv si chainT ->
  0 < Z.of_nat fuel -> sn n - si < Z.of_nat fuel ->
  hloop get n depth0 wfuel fuel si anchor hashT chainT acc <> PHang.
Proof.
  intros Hw.
  induction fuel as [|f IH]; intros si anchor hashT chainT acc Hsi Hasi HhT HcT Hf0 Hf;
    cbn [hloop]; [lia|].
  destruct (sn n <=? si) eqn:Esn; [discriminate|].
  remember (lz4block_blockHashHC (load32 get si)) as h eqn:Eh.
  pose proof (tinv_hfind si hashT h HhT) as Hcand.
  destruct (walk get n wfuel chainT (hfind hashT h) (depth depth0) si 0 0)
    as [[mLen offset]|] eqn:Ew.
  2:{ exfalso. revert Ew. unfold tv in Hcand. apply walk_fuel_all; [exact HcT|lia|lia|lia]. }
  apply walk_mlen_nonneg in Ew; [|lia]. cbn [fst] in Ew.
  assert (HhT1 : tinv (si + 1) (hadd hashT h si)).
  { apply tinv_hadd; [eapply tinv_mono; [|exact HhT]; lia|unfold tv; lia]. }
  assert (HcT1 : cinv (si + 1) (hadd chainT (Z.land si lz4block_winMask) (hfind hashT h))).
  { apply cinv_hadd; [exact HcT|]. apply tv_le_or_lt. exact Hcand. }
  destruct (mLen =? 0) eqn:Em0.
  - assert (0 <= Z.shiftr (si - anchor) adaptSkipLogHC) by (apply Z.shiftr_nonneg; lia).
    apply IH; try lia.
    + eapply tinv_mono; [|exact HhT1]; lia.
    + eapply cinv_mono; [|exact HcT1]; lia.
  - match goal with |- context [insert_overlap ?g ?c ?p ?m ?a ?b] =>
      destruct (insert_overlap g c p m a b) as [hT' cT'] eqn:Eio end.
    unfold lz4block_winSize in Eio.
    remember (if si + 1 <? si + mLen - 65536 then si + mLen - 65536 else si + 1) as ws eqn:Ews.
    assert (Hws : si + 1 <= ws <= si + mLen) by (destruct (si + 1 <? si + mLen - 65536) eqn:E; lia).
    apply insert_overlap_cinv in Eio.
    + replace (ws + Z.of_nat (Z.to_nat (si + mLen - ws))) with (si + mLen) in Eio by lia.
      destruct Eio as [H1 H2]. apply IH; try assumption; lia.
    + lia.
    + eapply tinv_mono; [|exact HhT1]; lia.
    + eapply cinv_mono; [|exact HcT1]; lia.
Qed.

Theorem hc_nohang_all : forall get n depth wfuel dstlen,
  0 <= n -> 0 <= depth -> 65536 < Z.of_nat wfuel ->
  compress_hc get n depth wfuel dstlen <> CHang.
Proof.
  intros get n depth0 wfuel dstlen Hn Hd Hw. unfold compress_hc.
  destruct (parse_hc get n depth0 wfuel) as [| |ss anchor] eqn:Ep.
  - discriminate.
  - exfalso. revert Ep. unfold parse_hc. destruct (sn n <=? 0); [discriminate|].
    apply hloop_nohang_all; try lia.
    + apply tinv_empty.
    + apply cinv_empty.
    + unfold sn, lz4block_mfLimit. lia.
  - unfold finish_hc.
    destruct (ser_seqs dstlen 0 ss) as [di|]; [|discriminate].
    repeat match goal with |- context [if ?c then _ else _] => destruct c; try discriminate end.
Qed.

Theorem hc_nohang_list : forall src depth dstlen, 0 <= depth ->
  compress_hc_list src depth dstlen <> CHang.
Proof.
  intros src depth0 dstlen Hd. unfold compress_hc_list.
  apply hc_nohang_all; [apply len_nonneg|exact Hd|].
  rewrite Z2Nat.id; lia.
Qed.

Print Assumptions hc_nohang_all.
Print Assumptions hc_nohang_list.
Check hc_nohang_all.
Check hc_nohang_list.
