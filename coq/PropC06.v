(* C06 — Truncated frames are never presented as complete. *)
From LZ4V Require Import Base GenBlock GenStream GenLz4 XXH32 BlockFormat FrameSpec FrameImpl Writer Reader FrameTheoremsSpec ReaderProofs Lifecycle ReaderSpec2 ReaderProofs2.
(* every frame a Writer session can emit (any accepted options, modern; any writes and flushes), cut at
   EVERY position 1 <= k < len: reading ends with an error that is neither nil nor io.EOF, and the
   bytes delivered before it are a prefix of the content *)
Theorem C06_truncation : truncation2_stmt.   Proof. exact truncation2. Qed.
Print Assumptions C06_truncation.
(* the same through Read with any buffer size, by C02_read_eq_writeto *)
Theorem C06_read : reader_read_eq_writeto_stmt.  Proof. exact reader_read_eq_writeto. Qed.
Print Assumptions C06_read.

(* ---- legacy frames (no end mark): every cut that is not exactly on a block boundary ---- *)
From LZ4V Require Import LegacySpec LegacyProofs LegacyTruncSpec LegacyTruncProofs.
(* for every legacy session (unambiguous in the sense of C02_legacy_roundtrip) and every cut that is not
   a block boundary: WriteTo ends with an error that is neither nil nor io.EOF after a prefix ... *)
Theorem C06_legacy_truncation : legacy_truncation_stmt.  Proof. exact legacy_truncation. Qed.
Print Assumptions C06_legacy_truncation.
(* ... more precisely io.ErrUnexpectedEOF after exactly the complete blocks, Reader in the error state *)
Theorem C06_legacy_truncation_exact : legacy_truncation_exact_stmt.  Proof. exact legacy_truncation_exact. Qed.
Print Assumptions C06_legacy_truncation_exact.
(* the same through Read with any buffer size *)
Theorem C06_legacy_truncation_read : legacy_truncation_read_stmt.  Proof. exact legacy_truncation_read. Qed.
Print Assumptions C06_legacy_truncation_read.
(* the exclusion is exact: a cut ON a block boundary is a clean end after the complete blocks *)
Theorem C06_legacy_cut_on_boundary : legacy_cut_on_boundary_stmt.  Proof. exact legacy_cut_on_boundary. Qed.
Print Assumptions C06_legacy_cut_on_boundary.
Theorem C06_legacy_truncation_iff : legacy_truncation_iff_stmt.  Proof. exact legacy_truncation_iff. Qed.
Print Assumptions C06_legacy_truncation_iff.
(* without the side condition the statement is false (finding F28 again: a size word taken for the
   kernel trailer hides the cut) *)
Theorem C06_legacy_truncation_needs_unambiguous : ~ legacy_truncation_naive_stmt.  Proof. exact legacy_truncation_needs_unambiguous. Qed.
Print Assumptions C06_legacy_truncation_needs_unambiguous.
