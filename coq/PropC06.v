(* C06 — Truncated frames are never presented as complete. *)
From LZ4V Require Import Base GenBlock GenStream GenLz4 XXH32 BlockFormat FrameSpec FrameImpl Writer Reader FrameTheoremsSpec ReaderProofs Lifecycle ReaderSpec2 ReaderProofs2.
(* every frame a Writer session can emit (any accepted options, modern; any writes and flushes), cut at
   EVERY position 1 <= k < len: reading ends with an error that is neither nil nor io.EOF, and the
   bytes delivered before it are a prefix of the content *)
Theorem C06_truncation : truncation2_stmt.   Proof. exact truncation2. Qed.
Print Assumptions C06_truncation.
(* the same through Read with any buffer size, by C02_read_eq_writeto *)
Theorem C06_read : reader_read_eq_writeto_stmt.  Proof. exact reader_read_eq_writeto. Qed.
Print Assumptions C06_read.
