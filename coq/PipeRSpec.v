(* PipeRSpec.v — statements about the Reader pipeline LTS (C08). Proofs: PipeRProofs.v *)
From LZ4V Require Import Base PipeR.

(* order and completeness: the consumer receives the blocks 0,1,2,... in order, never a block at or
   after the first undecodable one; when everything has stopped it has received exactly the blocks
   before the first undecodable one and the reported result is a decoding error of an undecodable
   block if there is one, the source's verdict (io.EOF or its read error) otherwise *)
Definition pr_order_stmt : Prop :=
  forall num nblk bad s, (1 <= num)%nat -> reachable num nblk bad s ->
  exists k, delivered s = seq 0 k /\ (k <= first_bad bad 0 nblk)%nat /\
    (returned s -> k = first_bad bad 0 nblk /\
       (if Nat.eqb k nblk then result s = Some ErrSrc
        else exists j, result s = Some (ErrBlock j) /\ (j < nblk)%nat /\ bad j = true)).
(* the result is reported only after everything decodable before the failure was delivered, and
   the verdict of the source is never reported while a block is undecodable: covered above.
   Buffers: the collector reads a decoded buffer only while it owns it; a buffer reaches the pool
   only from the consumer, after the consumer was handed it; a worker never touches its buffer
   after the hand-over *)
Definition pr_owner_stmt : Prop :=
  forall num nblk bad s j, (1 <= num)%nat -> reachable num nblk bad s -> (j < nblk)%nat ->
  ((col s = ClGot j \/ col s = ClDeliver j) -> own_of s j = OwCollector /\ (wk_of s j = WkSent \/ wk_of s j = WkDone)) /\
  (own_of s j = OwPool -> In j (delivered s) /\ held s <> Some j /\ col s <> ClGot j /\ col s <> ClDeliver j) /\
  (own_of s j = OwConsumer -> held s = Some j /\ col s <> ClGot j /\ col s <> ClDeliver j) /\
  (own_of s j = OwWorker -> wk_of s j = WkOffer).
(* no deadlock: every reachable state is final or can step *)
Definition pr_progress_stmt : Prop :=
  forall num nblk bad s, (1 <= num)%nat -> reachable num nblk bad s ->
  final nblk s \/ exists e s', step num nblk bad s e s'.
(* every schedule terminates *)
Definition pr_terminates_stmt : Prop :=
  forall num nblk bad, (1 <= num)%nat ->
  exists m : st -> nat, forall s e s', reachable num nblk bad s -> step num nblk bad s e s' -> (m s' < m s)%nat.
(* once the Reader has reported the end or an error, the reading goroutine and the collector have
   exited, nothing is queued and no worker is blocked (a worker that has not exited yet has only
   its deferred release left, which is always enabled) *)
Definition pr_noleak_stmt : Prop :=
  forall num nblk bad s, (1 <= num)%nat -> reachable num nblk bad s -> returned s ->
  rdr s = RdDone /\ col s = ClDone /\ queue s = [] /\
  forall j, (j < nblk)%nat -> wk_of s j = WkNone \/ wk_of s j = WkSent \/ wk_of s j = WkDone.
Definition pr_noleak_enabled_stmt : Prop :=
  forall num nblk bad s j, wk_of s j = WkSent -> exists e s', step num nblk bad s e s'.
(* the checker applied to recorded traces accepts every (partial) run of the model *)
Definition pr_checker_stmt : Prop :=
  forall num nblk bad s es, (1 <= num)%nat -> run num nblk bad (init nblk) es s -> trace_ok nblk es = true.
