(* C12 — Assembly and portable block decoders are observationally equivalent. *)
From LZ4V Require Import Base BlockFormat DecodePortable DecodeAsm BlockTheoremsSpec BlockTheorems.
(* same success-or-error outcome, same length, same decoded bytes — even from destinations with
   different prior contents *)
Theorem C12 : equiv_stmt.  Proof. exact decoders_equiv. Qed.
Print Assumptions C12.

(* ==== with the portable side AS TRANSLATED from decode_other.go on this run (GenDecodeBody.v) ====
   the assembly decoder model and the translated portable decoder give the same outcome, length and bytes *)
From LZ4V Require Import GoT GenDecodeBody GenDecodeBodyProofs GenDecodeBodyCorollaries.
Theorem C12_asm_vs_translated_portable : forall src dstA dstB dict src_spare dst_spare dict_spare s0 fuel,
  bytes src -> sized src dstB dict -> length dstA = length dstB -> (length src + 65 <= fuel)%nat ->
  exists s', run_decodeBlock fuel dstB dst_spare src src_spare dict dict_spare s0 = Ret s'
    /\ match obs (decode_asm src dstA dict) with
       | Some (n, out) => decodeBlock_ret s' = n /\ firstn (Z.to_nat n) (mem_decodeBlock_dst s') = out
       | None => decodeBlock_ret s' = -2
       end.
Proof. exact C12_translated. Qed.
Print Assumptions C12_asm_vs_translated_portable.
