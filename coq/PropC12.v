(* C12 — Assembly and portable block decoders are observationally equivalent. *)
From LZ4V Require Import Base BlockFormat DecodePortable DecodeAsm BlockTheoremsSpec BlockTheorems.
(* same success-or-error outcome, same length, same decoded bytes — even from destinations with
   different prior contents *)
Theorem C12 : equiv_stmt.  Proof. exact decoders_equiv. Qed.
Print Assumptions C12.
