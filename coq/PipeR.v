(* PipeR.v — the concurrent Reader pipeline (internal/lz4stream/block.go Blocks.initR, reader.go
   Read / WriteTo in concurrent mode) as a labelled transition system whose every interleaving is
   quantified over.

   Roles:
   - the reading goroutine (rd): `for b.ErrorR() == nil { block.Read; recheck; blocks <- c; go worker }`,
     then the sentinel hand-shake (`blocks <- c; c <- nil; <-c`), `b.closeR(err)`, `close(data)`;
   - one worker per block that was read: decodes, then either sends the decoded buffer on its
     channel or latches the error and closes the channel; finally releases the block (deferred);
   - the collector (col): takes channels from the queue in order, receives the buffer (or sees the
     channel closed: from then on every block is skipped), hashes it, sends it on `data`, closes the
     block's channel; on the sentinel it closes the sentinel and exits;
   - the consumer (Reader.Read / WriteTo): receives from `data` until it is closed, then reports
     the latched error (io.EOF = clean end).
   The source yields nblk blocks and then an error (io.EOF or a read failure); bad j = block j does
   not decode (or fails its checksum).

   Every transition that corresponds to a hook call site of the instrumented code (verif tag)
   carries the event the hook records. *)
From LZ4V Require Import Base.

Inductive cid := CJob (j : nat) | CSentinel.
Definition cid_eqb (a b : cid) : bool :=
  match a, b with CJob i, CJob j => Nat.eqb i j | CSentinel, CSentinel => true | _, _ => false end.

Inductive rdst :=
  | RdCheck (j : nat) | RdRead (j : nat) | RdRecheck (j : nat) | RdEnq (j : nat) | RdSpawn (j : nat)
  | RdSentEnq | RdSentOffer | RdSentWait | RdLatch | RdCloseData | RdDone.
(* WkNone: not spawned; WkStart: spawned; WkRun: decoding; WkOffer: blocked sending its buffer;
   WkFail: decoding failed, about to latch; WkFailClose: about to close its channel;
   WkSent: buffer handed over / channel closed, deferred block release pending; WkDone: exited *)
Inductive wk := WkNone | WkStart | WkRun | WkOffer | WkFail | WkFailClose | WkSent | WkDone.
Inductive clst := ClIdle | ClTaken (c : cid) | ClGot (j : nat) | ClDeliver (j : nat) | ClClose (j : nat) | ClGotSent | ClDone.
Inductive cost := CoRecv | CoDone.
Inductive errv := ErrBlock (j : nat) | ErrSrc.
(* owner of block j's decoded buffer *)
Inductive owner := OwNone | OwWorker | OwCollector | OwConsumer | OwPool | OwDropped.

Inductive event :=
  | EvEnq (c : cid) | EvWkStart (c : cid) | EvWkDecoded (c : cid)
  | EvTake (c : cid) | EvRecv (c : cid) | EvDeliver (c : cid).

Record st := mkst {
  rdr : rdst;
  queue : list cid;            (* FIFO contents of `blocks` *)
  wks : list wk;
  col : clst;
  skip : bool;                 (* skipBlocks *)
  closedc : list cid;
  latch : option errv;         (* b.err *)
  delivered : list nat;        (* blocks received by the consumer, in order *)
  dataclosed : bool;
  cons : cost;
  result : option errv;        (* what the consumer reported *)
  held : option nat;           (* the buffer the consumer currently holds (r.data) *)
  own : list owner
}.

Section Pipe.
Variable num : nat.            (* capacity of `blocks` *)
Variable nblk : nat.           (* blocks the source yields before its read fails / ends *)
Variable bad : nat -> bool.

Definition init : st :=
  mkst (RdCheck 0) [] (repeat WkNone nblk) ClIdle false [] None [] false CoRecv None None (repeat OwNone nblk).

Definition wk_of (s : st) (j : nat) : wk := nth j (wks s) WkNone.
Definition own_of (s : st) (j : nat) : owner := nth j (own s) OwNone.
Fixpoint upd {A} (l : list A) (i : nat) (x : A) : list A :=
  match l, i with
  | [], _ => []
  | _ :: t, O => x :: t
  | h :: t, S k => h :: upd t k x
  end.
Definition is_closed (s : st) (c : cid) : bool := existsb (cid_eqb c) (closedc s).
Definition latch_or (l : option errv) (e : errv) : option errv := match l with None => Some e | _ => l end.
Definition release (o : list owner) (h : option nat) : list owner :=
  match h with None => o | Some j => upd o j OwPool end.

Definition set_rdr (s : st) (r : rdst) : st :=
  mkst r (queue s) (wks s) (col s) (skip s) (closedc s) (latch s) (delivered s) (dataclosed s) (cons s) (result s) (held s) (own s).
Definition set_wk (s : st) (j : nat) (w : wk) : st :=
  mkst (rdr s) (queue s) (upd (wks s) j w) (col s) (skip s) (closedc s) (latch s) (delivered s) (dataclosed s) (cons s) (result s) (held s) (own s).
Definition set_col (s : st) (c : clst) : st :=
  mkst (rdr s) (queue s) (wks s) c (skip s) (closedc s) (latch s) (delivered s) (dataclosed s) (cons s) (result s) (held s) (own s).

Inductive step : st -> option event -> st -> Prop :=
  (* ---- reading goroutine ---- *)
  | S_check_ok j s : rdr s = RdCheck j -> latch s = None -> step s None (set_rdr s (RdRead j))
  | S_check_err j s e : rdr s = RdCheck j -> latch s = Some e -> step s None (set_rdr s RdSentEnq)
  | S_read_ok j s : rdr s = RdRead j -> (j < nblk)%nat -> step s None (set_rdr s (RdRecheck j))
  | S_read_end j s : rdr s = RdRead j -> (nblk <= j)%nat -> step s None (set_rdr s RdSentEnq)
  | S_recheck_ok j s : rdr s = RdRecheck j -> latch s = None ->
      step s (Some (EvEnq (CJob j))) (set_rdr s (RdEnq j))
  | S_recheck_err j s e : rdr s = RdRecheck j -> latch s = Some e -> step s None (set_rdr s RdSentEnq)
  (* `blocks <- c` needs room in the queue *)
  | S_enqueue j s : rdr s = RdEnq j -> (length (queue s) < num)%nat ->
      step s None
        (mkst (RdSpawn j) (queue s ++ [CJob j]) (wks s) (col s) (skip s) (closedc s) (latch s) (delivered s) (dataclosed s) (cons s) (result s) (held s) (own s))
  | S_spawn j s : rdr s = RdSpawn j ->
      step s None
        (mkst (RdCheck (S j)) (queue s) (upd (wks s) j WkStart) (col s) (skip s) (closedc s) (latch s) (delivered s) (dataclosed s) (cons s) (result s) (held s) (own s))
  (* ---- workers ---- *)
  | S_wk_start j s : wk_of s j = WkStart -> step s (Some (EvWkStart (CJob j))) (set_wk s j WkRun)
  | S_wk_decode_ok j s : wk_of s j = WkRun -> bad j = false ->
      step s (Some (EvWkDecoded (CJob j)))
        (mkst (rdr s) (queue s) (upd (wks s) j WkOffer) (col s) (skip s) (closedc s) (latch s) (delivered s) (dataclosed s) (cons s) (result s) (held s) (upd (own s) j OwWorker))
  | S_wk_decode_bad j s : wk_of s j = WkRun -> bad j = true ->
      step s (Some (EvWkDecoded (CJob j))) (set_wk s j WkFail)
  | S_wk_latch j s : wk_of s j = WkFail ->
      step s None
        (mkst (rdr s) (queue s) (upd (wks s) j WkFailClose) (col s) (skip s) (closedc s) (latch_or (latch s) (ErrBlock j)) (delivered s) (dataclosed s) (cons s) (result s) (held s) (own s))
  | S_wk_close j s : wk_of s j = WkFailClose ->
      step s None
        (mkst (rdr s) (queue s) (upd (wks s) j WkSent) (col s) (skip s) (CJob j :: closedc s) (latch s) (delivered s) (dataclosed s) (cons s) (result s) (held s) (own s))
  | S_wk_exit j s : wk_of s j = WkSent -> step s None (set_wk s j WkDone)
  (* ---- collector ---- *)
  | S_take c q s : col s = ClIdle -> queue s = c :: q ->
      step s (Some (EvTake c))
        (mkst (rdr s) q (wks s) (ClTaken c) (skip s) (closedc s) (latch s) (delivered s) (dataclosed s) (cons s) (result s) (held s) (own s))
  (* rendezvous on the block's channel *)
  | S_recv j s : col s = ClTaken (CJob j) -> wk_of s j = WkOffer ->
      step s (Some (EvRecv (CJob j)))
        (mkst (rdr s) (queue s) (upd (wks s) j WkSent) (ClGot j) (skip s) (closedc s) (latch s) (delivered s) (dataclosed s) (cons s) (result s) (held s) (upd (own s) j OwCollector))
  (* the block's channel was closed by its failed worker: skip everything from now on *)
  | S_recv_closed j s : col s = ClTaken (CJob j) -> is_closed s (CJob j) = true ->
      step s (Some (EvRecv (CJob j)))
        (mkst (rdr s) (queue s) (wks s) ClIdle true (closedc s) (latch s) (delivered s) (dataclosed s) (cons s) (result s) (held s) (own s))
  | S_skip j s : col s = ClGot j -> skip s = true ->
      step s None
        (mkst (rdr s) (queue s) (wks s) ClIdle (skip s) (closedc s) (latch s) (delivered s) (dataclosed s) (cons s) (result s) (held s) (upd (own s) j OwDropped))
  (* the collector READS the buffer here (content checksum) *)
  | S_hash j s : col s = ClGot j -> skip s = false ->
      step s (Some (EvDeliver (CJob j))) (set_col s (ClDeliver j))
  (* rendezvous on `data`: the consumer releases the buffer it held and takes this one *)
  | S_deliver j s : col s = ClDeliver j -> cons s = CoRecv -> dataclosed s = false ->
      step s None
        (mkst (rdr s) (queue s) (wks s) (ClClose j) (skip s) (closedc s) (latch s) (delivered s ++ [j]) (dataclosed s) (cons s) (result s) (Some j)
              (upd (release (own s) (held s)) j OwConsumer))
  | S_col_close j s : col s = ClClose j ->
      step s None
        (mkst (rdr s) (queue s) (wks s) ClIdle (skip s) (CJob j :: closedc s) (latch s) (delivered s) (dataclosed s) (cons s) (result s) (held s) (own s))
  (* ---- the sentinel hand-shake ---- *)
  | S_sent_enq s : rdr s = RdSentEnq -> (length (queue s) < num)%nat ->
      step s None
        (mkst RdSentOffer (queue s ++ [CSentinel]) (wks s) (col s) (skip s) (closedc s) (latch s) (delivered s) (dataclosed s) (cons s) (result s) (held s) (own s))
  | S_sent_recv s : rdr s = RdSentOffer -> col s = ClTaken CSentinel ->
      step s (Some (EvRecv CSentinel))
        (mkst RdSentWait (queue s) (wks s) ClGotSent (skip s) (closedc s) (latch s) (delivered s) (dataclosed s) (cons s) (result s) (held s) (own s))
  | S_col_exit s : col s = ClGotSent ->
      step s None
        (mkst (rdr s) (queue s) (wks s) ClDone (skip s) (CSentinel :: closedc s) (latch s) (delivered s) (dataclosed s) (cons s) (result s) (held s) (own s))
  | S_sent_done s : rdr s = RdSentWait -> is_closed s CSentinel = true -> step s None (set_rdr s RdLatch)
  | S_latch s : rdr s = RdLatch ->
      step s None
        (mkst RdCloseData (queue s) (wks s) (col s) (skip s) (closedc s) (latch_or (latch s) ErrSrc) (delivered s) (dataclosed s) (cons s) (result s) (held s) (own s))
  | S_close_data s : rdr s = RdCloseData ->
      step s None
        (mkst RdDone (queue s) (wks s) (col s) (skip s) (closedc s) (latch s) (delivered s) true (cons s) (result s) (held s) (own s))
  (* ---- consumer: `data` closed: report the latched error, release the last buffer ---- *)
  | S_co_end s : cons s = CoRecv -> dataclosed s = true ->
      step s None
        (mkst (rdr s) (queue s) (wks s) (col s) (skip s) (closedc s) (latch s) (delivered s) (dataclosed s) CoDone (latch s) None (release (own s) (held s))).

Inductive run : st -> list event -> st -> Prop :=
  | R_nil s : run s [] s
  | R_step s e s1 es s2 : step s e s1 -> run s1 es s2 ->
      run s (match e with Some ev => ev :: es | None => es end) s2.

Definition reachable (s : st) : Prop := exists es, run init es s.

(* the Reader has reported the end of the stream or an error *)
Definition returned (s : st) : Prop := cons s = CoDone.
(* nothing can happen any more *)
Definition final (s : st) : Prop :=
  rdr s = RdDone /\ col s = ClDone /\ cons s = CoDone /\ queue s = [] /\
  forall j, (j < nblk)%nat -> wk_of s j = WkNone \/ wk_of s j = WkDone.

Fixpoint first_bad (k : nat) (n : nat) : nat :=   (* least j in [k, k+n) with bad j, else k+n *)
  match n with O => k | S m => if bad k then k else first_bad (S k) m end.
End Pipe.

(* ---- the checker applied to recorded traces (channels renumbered by order of enqueue) ---- *)
Fixpoint index_of (e : event -> bool) (l : list event) (i : nat) : option nat :=
  match l with [] => None | x :: r => if e x then Some i else index_of e r (S i) end.
Definition ev_eqb (a b : event) : bool :=
  match a, b with
  | EvEnq c, EvEnq d | EvWkStart c, EvWkStart d | EvWkDecoded c, EvWkDecoded d
  | EvTake c, EvTake d | EvRecv c, EvRecv d | EvDeliver c, EvDeliver d => cid_eqb c d
  | _, _ => false
  end.
Definition pos (l : list event) (e : event) : option nat := index_of (ev_eqb e) l 0.
Definition before (l : list event) (a b : event) : bool :=
  match pos l a, pos l b with
  | Some i, Some j => Nat.ltb i j
  | _, None => true
  | None, Some _ => false
  end.
(* a, if it happened, happened before b (if b happened) *)
Definition before_if (l : list event) (a b : event) : bool :=
  match pos l a with None => true | Some i => match pos l b with None => true | Some j => Nat.ltb i j end end.
Definition happened (l : list event) (a : event) : bool := match pos l a with None => false | Some _ => true end.
(* per block: enq < take < recv < deliver, enq < start < decoded, and a DELIVERED block was decoded
   before it was received; blocks are enqueued, taken, received and delivered in order (a block is
   delivered only after its predecessor was: no gaps); the sentinel is taken after every
   ENQUEUED block was taken and received (the reading goroutine may stop before the last block) and
   received after its take *)
Definition job_ok (l : list event) (j : nat) : bool :=
  let c := CJob j in
  before l (EvEnq c) (EvTake c) && before l (EvTake c) (EvRecv c) && before l (EvRecv c) (EvDeliver c)
  && before l (EvEnq c) (EvWkStart c) && before l (EvWkStart c) (EvWkDecoded c)
  && before l (EvWkDecoded c) (EvDeliver c)
  && before l (EvEnq c) (EvEnq (CJob (S j))) && before l (EvRecv c) (EvTake (CJob (S j)))
  && before_if l (EvDeliver c) (EvTake (CJob (S j))) && before l (EvDeliver c) (EvDeliver (CJob (S j)))
  && (negb (happened l (EvEnq c)) || (before l (EvTake c) (EvTake CSentinel) && before l (EvRecv c) (EvTake CSentinel))).
Fixpoint NoDup_b (l : list event) : bool :=
  match l with [] => true | x :: r => negb (existsb (ev_eqb x) r) && NoDup_b r end.
Definition trace_ok (nblk : nat) (l : list event) : bool :=
  forallb (job_ok l) (seq 0 nblk) && before l (EvTake CSentinel) (EvRecv CSentinel) && NoDup_b l.
