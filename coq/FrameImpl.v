(* FrameImpl.v — the frame-level encoding steps as internal/lz4stream writes them (frame.go,
   block.go), shared by the Writer and CompressingReader models.  Bit layouts, magics and the
   size-code table come from the translated source (GenStream.v / GenBlock.v). *)
From LZ4V Require Import Base GenBlock GenStream GenLz4 XXH32 BlockFormat CompressFast CompressFastTable CompressHC CompressHCTop.

(* canonical error classes, as the harness maps Go errors (errors.Is) *)
Inductive ecls := ENil | EEOF | EUEOF | EInjected | EBadFrame | EHdrSum | EBlkSum | EFrmSum | EBlkSize
  | EShort | EClosed | ENotApp | EBadLevel | EUnhandled | EWClosed | ECrDone | EOther.

(* buffer size selected by a block-size index: BlockSizeIndex.Get() (the pools hold buffers of
   exactly these sizes) = the size whose Index is the given one *)
Definition bsize_of_idx (i : Z) : Z :=
  if lz4block_Index lz4block_Block64Kb =? i then lz4block_Block64Kb
  else if lz4block_Index lz4block_Block256Kb =? i then lz4block_Block256Kb
  else if lz4block_Index lz4block_Block1Mb =? i then lz4block_Block1Mb
  else if lz4block_Index lz4block_Block4Mb =? i then lz4block_Block4Mb
  else if lz4block_Index lz4block_Block8Mb =? i then lz4block_Block8Mb
  else 0.

Record fopts := mkfo {
  fo_flags : Z;        (* DescriptorFlags: block size index, block checksum, content checksum, size bits as set by the options *)
  fo_csize : Z;        (* Descriptor.ContentSize *)
  fo_level : Z;        (* CompressionLevel *)
  fo_legacy : bool
}.

(* Frame.InitW: the flags the frame is written with *)
Definition initw_flags (o : fopts) : Z :=
  if fo_legacy o
  then lz4stream_DescriptorFlags_BlockSizeIndexSet (fo_flags o) (lz4block_Index lz4block_Block8Mb)
  else lz4stream_DescriptorFlags_BlockIndependenceSet (lz4stream_DescriptorFlags_VersionSet (fo_flags o) 1) true.
Definition magic_of (o : fopts) : Z := if fo_legacy o then lz4stream_frameMagicLegacy else lz4stream_frameMagic.

(* FrameDescriptor.Write: one write of magic [+ flags + size + checksum byte] *)
Definition header_bytes (o : fopts) : list Z :=
  let fl := initw_flags o in
  le32_bytes (magic_of o) ++
  (if fo_legacy o then []
   else let d := [fl mod 256; (fl / 256) mod 256] ++
                 (if lz4stream_DescriptorFlags_Size fl then le64_bytes (fo_csize o) else []) in
        d ++ [(Z.shiftr (checksum_zero d) 8) mod 256]).

(* block compressor selected by the level (stale table contents are irrelevant: fast_state_indep) *)
Definition compress_level (level : Z) (src : list Z) (dstlen : Z) : cres :=
  if level =? lz4block_Fast then compress_fast_list src (fun _ => 0) dstlen
  else compress_hc_list src level dstlen.

(* FrameDataBlock.Compress + Write: the (up to three) sink writes of one block *)
Definition block_writes (o : fopts) (src : list Z) : list (list Z) :=
  let fl := initw_flags o in
  let dstlen := if fo_legacy o then bsize_of_idx (lz4stream_DescriptorFlags_BlockSizeIndex fl) else len src in
  let '(word, data) :=
    match compress_level (fo_level o) src dstlen with
    | COk b => (lz4stream_DataBlockSize_sizeSet (lz4stream_DataBlockSize_UncompressedSet 0 false) (len b), b)
    | _ => (lz4stream_DataBlockSize_sizeSet (lz4stream_DataBlockSize_UncompressedSet 0 true) (len src), src)
    end in
  [le32_bytes word; data] ++
  (if lz4stream_DescriptorFlags_BlockChecksum fl && negb (fo_legacy o)
   then [le32_bytes (checksum_zero src)] else []).

(* Frame.CloseW: end mark (+ content checksum) in one write; nothing for legacy frames *)
Definition close_writes (o : fopts) (content : list Z) : list (list Z) :=
  if fo_legacy o then []
  else [[0; 0; 0; 0] ++ (if lz4stream_DescriptorFlags_ContentChecksum (initw_flags o)
                         then le32_bytes (xsum32 (xwrite xzero content)) else [])].
