(* FrameSpec.v — the LZ4 frame format (v1.6.x "LZ4 Frame format" and the legacy format) as a
   specification: a parser/validator over a byte list.  It shares nothing with the models of the
   Writer/Reader: its constants are written out, blocks are decoded with the block-format
   specification, checksums are the reference XXH32.

   Parameters (they name the two places where the implementation knowingly differs):
     dom    : which bytes a block checksum covers — Stored (the format) or Decoded (what the
              library computes and checks, finding F10);
     strict : true = every rule of the format (version 01, reserved bits zero, no dictionary id,
              declared content size equals the content); false = only what the Reader enforces. *)
From LZ4V Require Import Base XXH32 BlockFormat BlockExec.

Inductive bcdom := Stored | Decoded.

Definition u32le (l : list Z) : option (Z * list Z) :=
  match l with
  | a :: b :: c :: d :: r => Some (le32 a b c d, r)
  | _ => None
  end.
Definition u64le (l : list Z) : option (Z * list Z) :=
  match u32le l with
  | Some (lo, r) => match u32le r with Some (hi, r') => Some (lo + 4294967296 * hi, r') | None => None end
  | None => None
  end.

(* first n elements and the rest; None when shorter *)
Fixpoint splitn (n : Z) (l : list Z) (acc : list Z) {struct l} : option (list Z * list Z) :=
  if n <=? 0 then Some (rrev acc, l) else
  match l with [] => None | x :: r => splitn (n - 1) r (x :: acc) end.

Definition MAGIC : Z := 407708164.         (* 0x184D2204 *)
Definition MAGIC_LEGACY : Z := 407642370.  (* 0x184C2102 *)
Definition SKIP_LO : Z := 407710288.       (* 0x184D2A50 *)
Definition SKIP_HI : Z := 407710303.       (* 0x184D2A5F *)

Definition bit (x k : Z) : bool := Z.odd (x / 2 ^ k).

Definition block_max (code : Z) : option Z :=
  if code =? 4 then Some 65536 else if code =? 5 then Some 262144
  else if code =? 6 then Some 1048576 else if code =? 7 then Some 4194304 else None.

Record fdesc := mkfd { fd_indep : bool; fd_bc : bool; fd_cc : bool; fd_size : option Z; fd_max : Z }.

(* the frame descriptor after the magic: FLG BD [size] [dictid] HC *)
Definition parse_desc (strict : bool) (l : list Z) : option (fdesc * list Z) :=
  match l with
  | flg :: bd :: r0 =>
    let version := (flg / 64) mod 4 in
    if strict && (negb (version =? 1) || bit flg 1 || bit flg 0
                  || bit bd 7 || negb (bd mod 16 =? 0)) then None else
    match block_max ((bd / 16) mod 8) with
    | None => None
    | Some mx =>
      let has_size := bit flg 3 in
      match (if has_size then splitn 8 r0 [] else Some ([], r0)) with
      | None => None
      | Some (szb, r1) =>
        match r1 with
        | hc :: r2 =>
          if hc =? (xxh32_ref (flg :: bd :: szb) / 256) mod 256 then
            let sz := match u64le szb with Some (v, _) => Some v | None => None end in
            Some (mkfd (bit flg 5) (bit flg 4) (bit flg 2) (if has_size then sz else None) mx, r2)
          else None
        | [] => None
        end
      end
    end
  | _ => None
  end.

(* the last 64 KiB of the content produced so far (window of dependent blocks) *)
Definition window64k (content : list Z) : list Z :=
  let n := len content in
  if n <=? 65536 then content else skipn (Z.to_nat (n - 65536)) content.

(* blocks of a frame in the current format; [rcontent] = content so far, reversed per block list *)
Fixpoint spec_blocks (fuel : nat) (dom : bcdom) (strict : bool) (d : fdesc) (l : list Z) (content : list Z)
  : option (list Z * list Z) :=
  match fuel with O => None | S f =>
  match u32le l with
  | None => None
  | Some (w, r0) =>
    if w =? 0 then Some (content, r0)                       (* end mark *)
    else
      let raw := 2147483648 <=? w in
      let size := w mod 2147483648 in
      if fd_max d <? size then None else
      if strict && (size =? 0) then None else
      match splitn size r0 [] with
      | None => None
      | Some (stored, r1) =>
        let dict := if fd_indep d then [] else window64k content in
        match (if raw then Some stored else spec_decode_x stored dict (fd_max d)) with
        | None => None
        | Some dec =>
          match (if fd_bc d then
                   match u32le r1 with
                   | None => None
                   | Some (cs, r2) =>
                     if cs =? xxh32_ref (match dom with Stored => stored | Decoded => dec end)
                     then Some r2 else None
                   end
                 else Some r1) with
          | None => None
          | Some r2 => spec_blocks f dom strict d r2 (content ++ dec)
          end
        end
      end
  end end.

(* legacy frame body: size-prefixed compressed blocks until the input ends; a repeated legacy
   magic starts a concatenated frame; each block decodes to at most 8 MiB *)
Fixpoint spec_legacy (fuel : nat) (strict : bool) (l : list Z) (content : list Z) : option (list Z * list Z) :=
  match fuel with O => None | S f =>
  match l with
  | [] => Some (content, [])
  | _ =>
    match u32le l with
    | None => None
    | Some (w, r0) =>
      if w =? MAGIC_LEGACY then spec_legacy f strict r0 content
      else if negb strict && (2147483648 <=? w) then
        (* not part of the legacy format: the library stores an incompressible block raw and flags
           it in the size word (finding F17); accepted only by the non-strict reading *)
        match splitn (w mod 2147483648) r0 [] with
        | None => None
        | Some (stored, r1) => if 8388608 <? len stored then None else spec_legacy f strict r1 (content ++ stored)
        end
      else
        match splitn w r0 [] with
        | None => None
        | Some (stored, r1) =>
          match (match stored with [] => Some [] | _ => spec_decode_x stored [] 8388608 end) with
          | None => None
          | Some dec => spec_legacy f strict r1 (content ++ dec)
          end
        end
    end
  end end.

(* one frame, after any number of skippable frames: (content, rest of the input) *)
Fixpoint frame_spec_fuel (fuel : nat) (dom : bcdom) (strict : bool) (l : list Z)
  : option (list Z * list Z) :=
  match fuel with O => None | S f =>
  match u32le l with
  | None => None
  | Some (m, r0) =>
    if (SKIP_LO <=? m) && (m <=? SKIP_HI) then
      match u32le r0 with
      | None => None
      | Some (n, r1) => match splitn n r1 [] with None => None | Some (_, r2) => frame_spec_fuel f dom strict r2 end
      end
    else if m =? MAGIC_LEGACY then spec_legacy (S (length r0)) strict r0 []
    else if m =? MAGIC then
      match parse_desc strict r0 with
      | None => None
      | Some (d, r1) =>
        match spec_blocks (S (length r1)) dom strict d r1 [] with
        | None => None
        | Some (content, r2) =>
          match (if fd_cc d then
                   match u32le r2 with
                   | None => None
                   | Some (cs, r3) => if cs =? xxh32_ref content then Some r3 else None
                   end
                 else Some r2) with
          | None => None
          | Some r3 =>
            if strict && match fd_size d with Some s => negb (s =? len content) | None => false end
            then None else Some (content, r3)
          end
        end
      end
    else None
  end end.

Definition frame_spec (dom : bcdom) (strict : bool) (l : list Z) : option (list Z * Z) :=
  match frame_spec_fuel (S (length l)) dom strict l with
  | Some (content, rest) => Some (content, len l - len rest)
  | None => None
  end.

(* ---- the encoder side of the specification: what a frame for given options and blocks is ---- *)
Definition le32_of (x : Z) : list Z := le32_bytes x.
