(* ReaderProofs.v — the Reader model (Reader.v) against the frame specification (FrameSpec.v).
   Statements: FrameTheoremsSpec.v.

   Proved as stated:
     reader_total            : reader_total_stmt            (C07)
     reader_read_eq_writeto  : reader_read_eq_writeto_stmt
   Proved in a corrected form (the originals are refuted below):
     reader_sound_fixed / reader_sound_fixed_small          (C05)
     reader_complete_fixed / reader_complete_fixed_small
       added hypotheses: [not_legacy input] (the first magic number after any skippable frames is
       not the legacy magic) and [len out < 2^64] (resp. [len input < 2^42], which implies it):
       the streaming checksum model keeps the total length modulo 2^64.
       Dependent blocks are covered (the Reader's trimmed dictionary and the specification's 64 KiB
       window decode alike: decode_good_suffix, dict_update_good).
   Refutations / differences between Reader and specification, all on legacy frames:
     reader_sound_refuted     a size word equal to the bytes decoded so far ends the stream (Reader only)
     reader_complete_refuted  a zero size word at the start ends the stream (Reader), the specification reads on
     legacy_dependent_blocks  the Reader decodes legacy blocks against the preceding blocks
     legacy_oversize_rejected / legacy_oversize_accepted
                              the Reader bounds the STORED size of a legacy block by 8 MiB, the
                              specification the DECODED size: 8 MiB of literals is refused by the Reader *)
From Coq Require Import ZifyBool.
From LZ4V Require Import Base GenBlock GenStream GenLz4 XXH32 XXH32Proofs BlockFormat BlockExec BlockExecProofs
  FrameSpec FrameImpl Writer Reader HeaderProofs FrameTheoremsSpec.
From LZ4V Require BlockFormatProofs BlockTheorems.

Ltac Zify.zify_post_hook ::= Z.div_mod_to_equations.

Local Opaque checksum_zero xsum32 xwrite xxh32_ref spec_decode_x.

(* ====================================================================== *)
(* 1. sources without faults: read_full / read_u32 against splitn / u32le  *)
(* ====================================================================== *)

Lemma take_upto_spec l : forall n acc,
  take_upto n l acc = (rrev acc ++ firstn (Z.to_nat n) l, skipn (Z.to_nat n) l).
Proof.
  induction l as [|x l IH]; intros n acc; cbn [take_upto].
  - destruct (n <=? 0); rewrite firstn_nil, skipn_nil, app_nil_r; reflexivity.
  - destruct (n <=? 0) eqn:E.
    + replace (Z.to_nat n) with 0%nat by lia. cbn [firstn skipn]. rewrite app_nil_r. reflexivity.
    + rewrite IH. replace (Z.to_nat n) with (S (Z.to_nat (n - 1))) by lia.
      cbn [firstn skipn]. rewrite !rrev_rev. cbn [rev]. rewrite <- app_assoc. reflexivity.
Qed.

Lemma splitn_spec l : forall n acc,
  splitn n l acc = if len l <? n then None
                   else Some (rrev acc ++ firstn (Z.to_nat n) l, skipn (Z.to_nat n) l).
Proof.
  induction l as [|x l IH]; intros n acc; cbn [splitn].
  - change (len (@nil Z)) with 0. destruct (n <=? 0) eqn:E; destruct (0 <? n) eqn:E2; try lia; [|reflexivity].
    rewrite firstn_nil, skipn_nil, app_nil_r. reflexivity.
  - rewrite len_cons. pose proof (len_nonneg l) as Hl. destruct (n <=? 0) eqn:E.
    + destruct (1 + len l <? n) eqn:E2; [lia|].
      replace (Z.to_nat n) with 0%nat by lia. cbn [firstn skipn]. rewrite app_nil_r. reflexivity.
    + rewrite IH. replace (Z.to_nat n) with (S (Z.to_nat (n - 1))) by lia.
      cbn [firstn skipn]. rewrite !rrev_rev. cbn [rev]. rewrite <- app_assoc.
      destruct (len l <? n - 1) eqn:E1; destruct (1 + len l <? n) eqn:E2; try lia; reflexivity.
Qed.

Lemma splitn_some n l a b : splitn n l [] = Some (a, b) ->
  l = a ++ b /\ len a = Z.max 0 n /\ a = firstn (Z.to_nat n) l /\ b = skipn (Z.to_nat n) l.
Proof.
  rewrite splitn_spec. destruct (len l <? n) eqn:E; [discriminate|]. intros H. injection H as <- <-.
  cbn [rrev rev_append app]. rewrite firstn_skipn. split; [reflexivity|]. split; [|split; reflexivity].
  unfold len in *. rewrite firstn_length. lia.
Qed.

(* a source that never fails *)
Definition oksrc (s : source) : Prop := s_fail s = 0.

(* read_full on a fault-free source, any n >= 0 *)
Lemma read_full_spec s n : oksrc s -> 0 <= n ->
  match splitn n (s_rem s) [] with
  | Some (a, b) => exists s', read_full s n = (a, ENil, s') /\ s_rem s' = b /\ oksrc s'
                              /\ s_consumed s' = s_consumed s + n /\ len a = n
  | None => exists g e s', read_full s n = (g, e, s') /\ (e = EEOF \/ e = EUEOF) /\ oksrc s'
                          /\ s_consumed s' + len (s_rem s') = s_consumed s + len (s_rem s)
  end.
Proof.
  intros Hok Hn. unfold oksrc in Hok. rewrite splitn_spec. unfold read_full.
  destruct (n <=? 0) eqn:E0.
  { assert (n = 0) by lia. subst n. pose proof (len_nonneg (s_rem s)).
    destruct (len (s_rem s) <? 0) eqn:E; [lia|]. cbn [Z.to_nat firstn skipn rrev rev_append app].
    exists s. repeat split; try assumption; lia. }
  rewrite Hok. cbn [Z.ltb andb].
  replace (0 <? 0) with false by reflexivity. cbn [andb].
  destruct (s_rem s) as [|x l] eqn:El.
  { rewrite len_nil. destruct (0 <? n) eqn:E; [|lia].
    eexists _, _, _. split; [reflexivity|]. split; [left; reflexivity|]. split; [reflexivity|].
    cbn [s_consumed s_rem]. rewrite len_nil. lia. }
  rewrite take_upto_spec. cbn [rrev rev_append app].
  set (got := firstn (Z.to_nat n) (x :: l)). set (rest := skipn (Z.to_nat n) (x :: l)).
  assert (Hgot : len got = Z.min n (len (x :: l))).
  { unfold got, len. rewrite firstn_length. lia. }
  destruct (len (x :: l) <? n) eqn:E1.
  - destruct (len got =? n) eqn:E2; [lia|].
    eexists _, _, _. split; [reflexivity|]. split; [right; reflexivity|]. split; [reflexivity|].
    cbn [s_consumed s_rem].
    assert (len rest = 0). { unfold rest, len. rewrite skipn_length. unfold len in E1. lia. }
    lia.
  - destruct (len got =? n) eqn:E2; [|lia].
    eexists. split; [reflexivity|]. cbn [s_rem s_consumed]. repeat split; try lia. 
Qed.

Lemma u32le_some l w r : u32le l = Some (w, r) ->
  exists a b c d, l = a :: b :: c :: d :: r /\ w = le32 a b c d.
Proof.
  destruct l as [|a [|b [|c [|d r']]]]; cbn [u32le]; try discriminate.
  intros H. injection H as <- <-. eexists _, _, _, _. split; reflexivity.
Qed.

Lemma le32_range a b c d : is_byte a -> is_byte b -> is_byte c -> is_byte d -> 0 <= le32 a b c d < 4294967296.
Proof. unfold is_byte, le32. lia. Qed.

Lemma read_u32_spec s : oksrc s ->
  match u32le (s_rem s) with
  | Some (w, r) => exists s', read_u32 s = (w, ENil, s') /\ s_rem s' = r /\ oksrc s'
                              /\ s_consumed s' = s_consumed s + 4
  | None => exists x e s', read_u32 s = (x, e, s') /\ (e = EEOF \/ e = EUEOF) /\ oksrc s'
                          /\ s_consumed s' + len (s_rem s') = s_consumed s + len (s_rem s)
  end.
Proof.
  intros Hok. unfold read_u32. pose proof (read_full_spec s 4 Hok ltac:(lia)) as H.
  rewrite splitn_spec in H.
  destruct (s_rem s) as [|a [|b [|c [|d r]]]] eqn:El; cbn [u32le].
  1-4: (destruct (len _ <? 4) eqn:E in H; [|rewrite ?len_cons, ?len_nil in E; lia]);
       destruct H as (g & e & s' & -> & He & Hok' & Hc); eexists _, _, _; split; [reflexivity|];
       split; [exact He|]; split; assumption.
  destruct (len _ <? 4) eqn:E in H.
  { rewrite !len_cons in E. pose proof (len_nonneg r). lia. }
  destruct H as (s' & -> & Hr & Hok' & Hc & _).
  exists s'. cbn [Z.to_nat Pos.to_nat Pos.iter_op Nat.add firstn skipn rrev rev_append app] in *.
  split; [reflexivity|]. repeat split; assumption.
Qed.

Lemma bytes_cons_inv x l : bytes (x :: l) -> is_byte x /\ bytes l.
Proof. intros H. inversion H; subst. split; assumption. Qed.

Lemma u32le_bytes l w r : bytes l -> u32le l = Some (w, r) -> 0 <= w < 4294967296 /\ bytes r /\ len l = 4 + len r.
Proof.
  intros Hb H. apply u32le_some in H. destruct H as (a & b & c & d & -> & ->).
  apply bytes_cons_inv in Hb. destruct Hb as [Ha Hb].
  apply bytes_cons_inv in Hb. destruct Hb as [Hb0 Hb].
  apply bytes_cons_inv in Hb. destruct Hb as [Hc Hb].
  apply bytes_cons_inv in Hb. destruct Hb as [Hd Hb].
  split; [apply le32_range; assumption|]. split; [exact Hb|]. rewrite !len_cons. lia.
Qed.

Lemma splitn_bytes n l a b : bytes l -> splitn n l [] = Some (a, b) -> bytes a /\ bytes b /\ len l = len a + len b.
Proof.
  intros Hb H. apply splitn_some in H. destruct H as (-> & _ & _ & _).
  apply bytes_app in Hb. destruct Hb. rewrite len_app. repeat split; assumption.
Qed.

(* ====================================================================== *)
(* 2. bit fields: translated getters against the specification's tests    *)
(* ====================================================================== *)

Lemma getter_bit d0 d1 k : is_byte d0 -> is_byte d1 -> 0 <= k < 8 ->
  negb (Z.land (Z.shiftr (d0 + 256 * d1) k) 1 =? 0) = bit d0 k.
Proof.
  intros H0 H1 Hk. unfold bit, is_byte in *. rewrite Z.shiftr_div_pow2 by lia. rewrite land1.
  assert (Hp : 256 = 2 ^ k * 2 ^ (8 - k)).
  { rewrite <- Z.pow_add_r by lia. replace (k + (8 - k)) with 8 by lia. reflexivity. }
  assert (Hpk : 0 < 2 ^ k) by (apply Z.pow_pos_nonneg; lia).
  assert (He : (d0 + 256 * d1) / 2 ^ k = d0 / 2 ^ k + 2 ^ (8 - k) * d1).
  { rewrite Hp. replace (d0 + 2 ^ k * 2 ^ (8 - k) * d1) with (d0 + (2 ^ (8 - k) * d1) * 2 ^ k) by ring.
    rewrite Z.div_add by lia. reflexivity. }
  rewrite He.
  assert (H2 : 2 ^ (8 - k) = 2 * 2 ^ (8 - k - 1)).
  { rewrite <- Z.pow_succ_r by lia. f_equal. lia. }
  rewrite H2. replace (d0 / 2 ^ k + 2 * 2 ^ (8 - k - 1) * d1) with (d0 / 2 ^ k + (2 ^ (8 - k - 1) * d1) * 2) by ring.
  rewrite Z.mod_add by lia. rewrite Zmod_odd. destruct (Z.odd (d0 / 2 ^ k)); reflexivity.
Qed.

Lemma flags_cc d0 d1 : is_byte d0 -> is_byte d1 -> lz4stream_DescriptorFlags_ContentChecksum (d0 + 256 * d1) = bit d0 2.
Proof. intros. unfold lz4stream_DescriptorFlags_ContentChecksum. apply getter_bit; try assumption; lia. Qed.
Lemma flags_sz d0 d1 : is_byte d0 -> is_byte d1 -> lz4stream_DescriptorFlags_Size (d0 + 256 * d1) = bit d0 3.
Proof. intros. unfold lz4stream_DescriptorFlags_Size. apply getter_bit; try assumption; lia. Qed.
Lemma flags_bc d0 d1 : is_byte d0 -> is_byte d1 -> lz4stream_DescriptorFlags_BlockChecksum (d0 + 256 * d1) = bit d0 4.
Proof. intros. unfold lz4stream_DescriptorFlags_BlockChecksum. apply getter_bit; try assumption; lia. Qed.
Lemma flags_bi d0 d1 : is_byte d0 -> is_byte d1 -> lz4stream_DescriptorFlags_BlockIndependence (d0 + 256 * d1) = bit d0 5.
Proof. intros. unfold lz4stream_DescriptorFlags_BlockIndependence. apply getter_bit; try assumption; lia. Qed.

Lemma block_max_bsize v : 0 <= v < 8 ->
  block_max v = if lz4block_BlockSizeIndex_IsValid v then Some (bsize_of_idx v) else None.
Proof.
  intros Hv.
  assert (H : v = 0 \/ v = 1 \/ v = 2 \/ v = 3 \/ v = 4 \/ v = 5 \/ v = 6 \/ v = 7) by lia.
  destruct H as [->|[->|[->|[->|[->|[->|[->| ->]]]]]]]; reflexivity.
Qed.

Lemma dbs_size w : 0 <= w -> lz4stream_DataBlockSize_size w = w mod 2147483648.
Proof.
  intros Hw. unfold lz4stream_DataBlockSize_size. change 2147483647 with (Z.ones 31).
  rewrite Z.land_ones by lia. reflexivity.
Qed.
Lemma dbs_raw w : 0 <= w < 4294967296 -> lz4stream_DataBlockSize_Uncompressed w = (2147483648 <=? w).
Proof.
  intros Hw. unfold lz4stream_DataBlockSize_Uncompressed. rewrite Z.shiftr_div_pow2 by lia. rewrite land1.
  change (2 ^ 31) with 2147483648. lia.
Qed.

Lemma hc_eq desc : (Z.shiftr (checksum_zero desc) 8) mod 256 = (xxh32_ref desc / 256) mod 256.
Proof. rewrite oneshot_eq_ref. rewrite Z.shiftr_div_pow2 by lia. reflexivity. Qed.

(* ====================================================================== *)
(* 3. dictionaries: only the last 65535 bytes matter                      *)
(* ====================================================================== *)

Lemma byte_at_suffix rdk rpre rout o : o <= 65535 -> 65535 <= len rdk ->
  byte_at (rdk ++ rpre) rout o = byte_at rdk rout o.
Proof.
  intros Ho Hl. unfold byte_at. destruct (o <=? 0) eqn:E0; [reflexivity|].
  destruct (o <=? len rout) eqn:E1; [reflexivity|].
  apply nth_error_app1. unfold len in *. pose proof (Zle_0_nat (length rout)). lia.
Qed.

Lemma copy_match_suffix n : forall rdk rpre rout o, o <= 65535 -> 65535 <= len rdk ->
  copy_match n (rdk ++ rpre) rout o = copy_match n rdk rout o.
Proof.
  induction n as [|n IH]; intros rdk rpre rout o Ho Hl; cbn [copy_match]; [reflexivity|].
  rewrite byte_at_suffix by assumption. destruct (byte_at rdk rout o); [|reflexivity]. apply IH; assumption.
Qed.

Lemma sdec_suffix fuel : forall src rdk rpre rout cap, bytes src -> 65535 <= len rdk ->
  sdec fuel src (rdk ++ rpre) rout cap = sdec fuel src rdk rout cap.
Proof.
  induction fuel as [|f IH]; intros src rdk rpre rout cap Hb Hl; [reflexivity|].
  cbn [sdec]. destruct src as [|tok r0]; [reflexivity|].
  apply bytes_cons_inv in Hb. destruct Hb as [Htok Hb0]. unfold is_byte in Htok.
  destruct (read_len (tok / 16) r0) as [[ll r1]|] eqn:E1; [|reflexivity].
  apply read_len_bytes in E1; [|exact Hb0|apply Z.div_pos; lia]. destruct E1 as [Hll Hb1].
  destruct (len r1 <? ll); [reflexivity|].
  destruct (cap <? _); [reflexivity|].
  pose proof (bytes_skipn (Z.to_nat ll) r1 Hb1) as Hb2.
  destruct (skipn (Z.to_nat ll) r1) as [|o1 [|o2 r3]]; [reflexivity|reflexivity|].
  apply bytes_cons_inv in Hb2. destruct Hb2 as [Ho1 Hb2].
  apply bytes_cons_inv in Hb2. destruct Hb2 as [Ho2 Hb3]. unfold is_byte in Ho1, Ho2.
  destruct (o1 + 256 * o2 =? 0); [reflexivity|].
  destruct (read_len (tok mod 16) r3) as [[ml r4]|] eqn:E5; [|reflexivity].
  apply read_len_bytes in E5; [|exact Hb3|apply Z.mod_pos_bound; lia]. destruct E5 as [Hml Hb4].
  rewrite copy_match_suffix by (try assumption; lia).
  destruct (copy_match _ rdk _ _); [|reflexivity].
  destruct (cap <? _); [reflexivity|]. apply IH; assumption.
Qed.

Lemma decode_suffix src pre dk cap : bytes src -> 65535 <= len dk ->
  spec_decode_x src (pre ++ dk) cap = spec_decode_x src dk cap.
Proof.
  intros Hb Hl. rewrite !spec_decode_x_eq by assumption. unfold spec_decode.
  destruct src as [|b r]; [reflexivity|]. rewrite rev_app_distr.
  rewrite sdec_suffix; [reflexivity|assumption|]. unfold len in *. rewrite rev_length. exact Hl.
Qed.

(* a suffix of the content that is the whole content or holds at least 65535 bytes *)
Definition good_suffix (content dk : list Z) : Prop :=
  exists pre, content = pre ++ dk /\ (pre = [] \/ 65535 <= len dk).

Lemma decode_good_suffix src content dk cap : bytes src -> good_suffix content dk ->
  spec_decode_x src dk cap = spec_decode_x src content cap.
Proof.
  intros Hb (pre & -> & [->|Hl]); [reflexivity|]. symmetry. apply decode_suffix; assumption.
Qed.

Lemma window_good content : good_suffix content (window64k content).
Proof.
  unfold window64k. destruct (len content <=? 65536) eqn:E.
  - exists []. split; [reflexivity|left; reflexivity].
  - exists (firstn (Z.to_nat (len content - 65536)) content). rewrite firstn_skipn. split; [reflexivity|].
    right. unfold len in *. rewrite skipn_length. lia.
Qed.

(* the Reader's dictionary update keeps a good suffix *)
Lemma dict_update_good content dk d : good_suffix content dk ->
  good_suffix (content ++ d)
    ((if 131072 <? len dk + len d
      then skipn (Z.to_nat (len dk - Z.max 0 (65536 - len d))) dk else dk) ++ d).
Proof.
  intros (pre & -> & Hg). destruct (131072 <? len dk + len d) eqn:E.
  - set (k := Z.to_nat (len dk - Z.max 0 (65536 - len d))).
    exists (pre ++ firstn k dk). split.
    + rewrite <- !app_assoc. f_equal. rewrite app_assoc. rewrite firstn_skipn. reflexivity.
    + right. rewrite len_app. unfold len in *. rewrite skipn_length. lia.
  - exists pre. split; [rewrite app_assoc; reflexivity|].
    destruct Hg as [->|Hl]; [left; reflexivity|right]. rewrite len_app. pose proof (len_nonneg d). lia.
Qed.


(* the decoded block never exceeds the capacity *)
Lemma sdec_len fuel : forall src rdict rout cap r,
  sdec fuel src rdict rout cap = Some r -> len rout <= cap -> len r <= cap.
Proof.
  induction fuel as [|f IH]; intros src rdict rout cap r H Hl; [discriminate|].
  cbn [sdec] in H. destruct src as [|tok r0]; [injection H as <-; exact Hl|].
  destruct (read_len (tok / 16) r0) as [[ll r1]|]; [|discriminate].
  destruct (len r1 <? ll); [discriminate|].
  destruct (cap <? len (rev_append (firstn (Z.to_nat ll) r1) rout)) eqn:E1; [discriminate|].
  destruct (skipn (Z.to_nat ll) r1) as [|o1 [|o2 r3]]; [|discriminate|].
  { destruct (tok mod 16 =? 0); [|discriminate]. injection H as <-. lia. }
  destruct (o1 + 256 * o2 =? 0); [discriminate|].
  destruct (read_len (tok mod 16) r3) as [[ml r4]|]; [|discriminate].
  destruct (copy_match _ rdict _ _) as [rout2|]; [|discriminate].
  destruct (cap <? len rout2) eqn:E2; [discriminate|].
  apply IH in H; [exact H|lia].
Qed.

Lemma spec_decode_x_len src dict cap o : bytes src -> 0 <= cap ->
  spec_decode_x src dict cap = Some o -> len o <= cap.
Proof.
  intros Hb Hc H. rewrite spec_decode_x_eq in H by exact Hb. unfold spec_decode in H.
  destruct src as [|b r]; [discriminate|].
  destruct (sdec _ _ _ _ _) as [x|] eqn:E; [|discriminate]. cbn [option_map] in H. injection H as <-.
  apply sdec_len in E; [|rewrite len_nil; exact Hc]. unfold len in *. rewrite rev_length. exact E.
Qed.

Lemma bsize_of_idx_range i : 0 <= bsize_of_idx i <= 8388608.
Proof.
  unfold bsize_of_idx.
  destruct (_ =? i); [unfold lz4block_Block64Kb; lia|].
  destruct (_ =? i); [unfold lz4block_Block256Kb; lia|].
  destruct (_ =? i); [unfold lz4block_Block1Mb; lia|].
  destruct (_ =? i); [unfold lz4block_Block4Mb; lia|].
  destruct (_ =? i); [unfold lz4block_Block8Mb; lia|]. lia.
Qed.

(* ====================================================================== *)
(* 4. one block: r_read_block against one round of spec_blocks            *)
(* ====================================================================== *)

Definition fdesc_of (fl : Z) (sz : option Z) : fdesc :=
  mkfd (lz4stream_DescriptorFlags_BlockIndependence fl) (lz4stream_DescriptorFlags_BlockChecksum fl)
       (lz4stream_DescriptorFlags_ContentChecksum fl) sz
       (bsize_of_idx (lz4stream_DescriptorFlags_BlockSizeIndex fl)).

Record rinv (N : Z) (r : reader) (content : list Z) : Prop := mk_rinv {
  ri_magic : r_magic r = lz4stream_frameMagic;
  ri_ok : oksrc (r_src r);
  ri_cons : s_consumed (r_src r) + len (s_rem (r_src r)) = N;
  ri_bytes : bytes (s_rem (r_src r));
  ri_content : r_content r = if lz4stream_DescriptorFlags_ContentChecksum (r_flags r) then content else [];
  ri_dict : if lz4stream_DescriptorFlags_BlockIndependence (r_flags r) then r_dict r = []
            else good_suffix content (r_dict r)
}.

Lemma spec_blocks_S f dom strict d l content :
  spec_blocks (S f) dom strict d l content =
  match u32le l with
  | None => None
  | Some (w, r0) =>
    if w =? 0 then Some (content, r0)
    else
      let raw := 2147483648 <=? w in
      let size := w mod 2147483648 in
      if fd_max d <? size then None else
      if strict && (size =? 0) then None else
      match splitn size r0 [] with
      | None => None
      | Some (stored, r1) =>
        let dict := if fd_indep d then [] else window64k content in
        match (if raw then Some stored else spec_decode_x stored dict (fd_max d)) with
        | None => None
        | Some dec =>
          match (if fd_bc d then
                   match u32le r1 with
                   | None => None
                   | Some (cs, r2) =>
                     if cs =? xxh32_ref (match dom with Stored => stored | Decoded => dec end)
                     then Some r2 else None
                   end
                 else Some r1) with
          | None => None
          | Some r2 => spec_blocks f dom strict d r2 (content ++ dec)
          end
        end
      end
  end.
Proof. reflexivity. Qed.

Lemma unexpected_not e : (e = EEOF \/ e = EUEOF) -> unexpected e = EUEOF.
Proof. intros [->| ->]; reflexivity. Qed.


(* the reader after a block has been accepted *)
Definition r_accept (r : reader) (s3 : source) (d : list Z) : reader :=
  let content := if lz4stream_DescriptorFlags_ContentChecksum (r_flags r) then r_content r ++ d else r_content r in
  let dict :=
    if lz4stream_DescriptorFlags_BlockIndependence (r_flags r) then r_dict r
    else
      let dk := r_dict r in
      let dk := if 131072 <? len dk + len d
                then let keep := Z.max 0 (65536 - len d) in skipn (Z.to_nat (len dk - keep)) dk
                else dk in
      dk ++ d in
  mkr (r_state r) (r_serr r) (r_num r) s3 (r_magic r) (r_flags r) (r_csize r) content (r_data r) dict
      ((r_cum r + len d) mod 4294967296).

Lemma r_read_block_eq r : r_read_block r =
  let legacy := is_legacy r in
  let '(x0, e0, s0) := read_u32 (r_src r) in
  let '(x, e, s1) := if legacy then skip_legacy_magic (S (length (s_rem (r_src r)))) s0 x0 e0 else (x0, e0, s0) in
  let r1 := rset_src r s1 in
  match e with
  | ENil =>
    if (if legacy then x =? r_cum r else x =? 0) then (r1, EEOF, [])
    else
      let size := lz4stream_DataBlockSize_size x in
      if r_bsz r <? size then (r1, EBlkSize, [])
      else
        let '(stored, e2, s2) := read_full s1 size in
        match e2 with
        | ENil =>
          let '(cks, e3, s3) := if lz4stream_DescriptorFlags_BlockChecksum (r_flags r) then read_u32 s2 else (0, ENil, s2) in
          match e3 with
          | ENil =>
            let r2 := rset_src r s3 in
            let dec := if lz4stream_DataBlockSize_Uncompressed x then Some stored
                       else match stored with [] => Some [] | _ => spec_decode_x stored (r_dict r) (r_bsz r) end in
            match dec with
            | None => (r2, EShort, [])
            | Some d =>
              if lz4stream_DescriptorFlags_BlockChecksum (r_flags r) && negb (cks =? checksum_zero d) then (r2, EBlkSum, [])
              else (r_accept r s3 d, ENil, d)
            end
          | _ => (rset_src r s3, unexpected e3, [])
          end
        | _ => (rset_src r s2, unexpected e2, [])
        end
  | _ => (r1, if legacy then e else unexpected e, [])
  end.
Proof. reflexivity. Qed.

Lemma r_accept_src r s d : r_src (r_accept r s d) = s. Proof. reflexivity. Qed.
Lemma r_accept_flags r s d : r_flags (r_accept r s d) = r_flags r. Proof. reflexivity. Qed.
Lemma r_accept_magic r s d : r_magic (r_accept r s d) = r_magic r. Proof. reflexivity. Qed.
Lemma r_accept_state r s d : r_state (r_accept r s d) = r_state r. Proof. reflexivity. Qed.
Lemma r_accept_data r s d : r_data (r_accept r s d) = r_data r. Proof. reflexivity. Qed.
Lemma r_accept_content r s d : r_content (r_accept r s d) =
  if lz4stream_DescriptorFlags_ContentChecksum (r_flags r) then r_content r ++ d else r_content r.
Proof. reflexivity. Qed.
Lemma r_accept_dict r s d : r_dict (r_accept r s d) =
  if lz4stream_DescriptorFlags_BlockIndependence (r_flags r) then r_dict r
  else (if 131072 <? len (r_dict r) + len d
        then skipn (Z.to_nat (len (r_dict r) - Z.max 0 (65536 - len d))) (r_dict r) else r_dict r) ++ d.
Proof. reflexivity. Qed.
Global Opaque r_accept.

Lemma block_step N r content sz f r1 e dd :
  rinv N r content -> r_read_block r = (r1, e, dd) ->
  let d := fdesc_of (r_flags r) sz in
  let l := s_rem (r_src r) in
  (e = ENil -> spec_blocks (S f) Decoded false d l content
               = spec_blocks f Decoded false d (s_rem (r_src r1)) (content ++ dd)
               /\ rinv N r1 (content ++ dd) /\ r_flags r1 = r_flags r
               /\ len (s_rem (r_src r1)) + 4 <= len l /\ len dd <= 8388608)
  /\ (e = EEOF -> spec_blocks (S f) Decoded false d l content = Some (content, s_rem (r_src r1))
                  /\ rinv N r1 content /\ r_flags r1 = r_flags r)
  /\ (e <> ENil -> e <> EEOF -> spec_blocks (S f) Decoded false d l content = None).
Proof.
  intros [Hmag Hok Hcons Hbytes Hcont Hdict] H d l.
  rewrite spec_blocks_S. rewrite r_read_block_eq in H. cbv zeta in H.
  assert (Hleg : is_legacy r = false) by (unfold is_legacy; rewrite Hmag; reflexivity).
  rewrite Hleg in H.
  pose proof (read_u32_spec (r_src r) Hok) as Hu. fold l in Hu.
  destruct (u32le l) as [[w r0]|] eqn:Eu.
  2:{ destruct Hu as (x & e0 & s' & Hrd & He0 & Hok' & Hc'). rewrite Hrd in H.
      assert (Hne : e0 <> ENil) by (destruct He0; subst; discriminate).
      destruct e0; try (exfalso; apply Hne; reflexivity); injection H as <- <- <-;
      (split; [intros; discriminate|split; [intros; try discriminate|intros; reflexivity]]).
      all: destruct He0; discriminate. }
  destruct Hu as (s1 & Hrd & Hr1 & Hok1 & Hc1). rewrite Hrd in H. cbv beta iota in H.
  destruct (u32le_bytes l w r0 Hbytes Eu) as (Hw & Hb0 & Hl0).
  destruct (w =? 0) eqn:Ew0.
  { injection H as <- <- <-. split; [intros; discriminate|]. split; [|intros _ Hx; exfalso; apply Hx; reflexivity].
    intros _. cbn [rset_src r_src r_flags]. rewrite Hr1. split; [reflexivity|]. split; [|reflexivity].
    constructor; cbn [rset_src r_src r_flags r_magic r_content r_dict]; try assumption; rewrite Hr1; [|assumption]. unfold l in *. lia. }
  rewrite dbs_size in H by lia. cbv zeta.
  change (fd_max d) with (r_bsz r).
  destruct (r_bsz r <? w mod 2147483648) eqn:Ebs.
  { injection H as <- <- <-. split; [intros; discriminate|]. split; [intros; discriminate|reflexivity]. }
  cbn [andb].
  assert (Hsz : 0 <= w mod 2147483648) by lia.
  pose proof (read_full_spec s1 (w mod 2147483648) Hok1 Hsz) as Hf. rewrite Hr1 in Hf.
  destruct (splitn (w mod 2147483648) r0 []) as [[stored r1']|] eqn:Esp.
  2:{ destruct Hf as (g & e0 & s' & Hrd2 & He0 & Hok' & Hc'). rewrite Hrd2 in H.
      assert (Hne : e0 <> ENil) by (destruct He0; subst; discriminate).
      rewrite (unexpected_not _ He0) in H.
      destruct e0; try (exfalso; apply Hne; reflexivity); injection H as <- <- <-;
      (split; [intros; discriminate|split; [intros; discriminate|intros; reflexivity]]). }
  destruct Hf as (s2 & Hrd2 & Hr2 & Hok2 & Hc2 & Hlen). rewrite Hrd2 in H. cbv beta iota in H.
  destruct (splitn_bytes _ _ _ _ Hb0 Esp) as (Hbst & Hb1 & Hl1).
  rewrite dbs_raw in H by lia.
  change (fd_bc d) with (lz4stream_DescriptorFlags_BlockChecksum (r_flags r)).
  change (fd_indep d) with (lz4stream_DescriptorFlags_BlockIndependence (r_flags r)).
  (* decoding agrees *)
  set (decR := if 2147483648 <=? w then Some stored
               else match stored with [] => Some [] | _ :: _ => spec_decode_x stored (r_dict r) (r_bsz r) end) in H.
  set (decS := if 2147483648 <=? w then Some stored
               else spec_decode_x stored (if lz4stream_DescriptorFlags_BlockIndependence (r_flags r) then [] else window64k content) (r_bsz r)).
  assert (Hdec : decR = decS).
  { unfold decR, decS. destruct (2147483648 <=? w) eqn:Eraw; [reflexivity|].
    destruct stored as [|b st]; [rewrite len_nil in Hlen; lia|].
    destruct (lz4stream_DescriptorFlags_BlockIndependence (r_flags r)).
    - rewrite Hdict. reflexivity.
    - rewrite (decode_good_suffix _ content (r_dict r)) by assumption.
      rewrite (decode_good_suffix _ content (window64k content)) by (try assumption; apply window_good).
      reflexivity. }
  assert (Hdl : forall dec, decS = Some dec -> len dec <= 8388608).
  { intros dec. unfold decS. pose proof (bsize_of_idx_range (lz4stream_DescriptorFlags_BlockSizeIndex (r_flags r))) as Hbr.
    fold (r_bsz r) in Hbr. destruct (2147483648 <=? w).
    - intros Hx. injection Hx as <-. lia.
    - intros Hx. apply spec_decode_x_len in Hx; [lia|exact Hbst|lia]. }
  rewrite Hdec in H. clearbody decS. clear decR Hdec.
  (* the block checksum word *)
  destruct (lz4stream_DescriptorFlags_BlockChecksum (r_flags r)) eqn:Ebc.
  - pose proof (read_u32_spec s2 Hok2) as Hu2. rewrite Hr2 in Hu2.
    destruct (u32le r1') as [[cs r2']|] eqn:Eu2.
    2:{ destruct Hu2 as (x & e0 & s' & Hrd3 & He0 & Hok' & Hc'). rewrite Hrd3 in H.
        assert (Hne : e0 <> ENil) by (destruct He0; subst; discriminate).
        rewrite (unexpected_not _ He0) in H.
        destruct e0; try (exfalso; apply Hne; reflexivity); injection H as <- <- <-;
        (split; [intros; discriminate|split; [intros; discriminate|intros; destruct decS; reflexivity]]). }
    destruct Hu2 as (s3 & Hrd3 & Hr3 & Hok3 & Hc3). rewrite Hrd3 in H. cbv beta iota in H.
    destruct (u32le_bytes _ _ _ Hb1 Eu2) as (Hcs & Hb2 & Hl2).
    destruct decS as [dec|].
    2:{ injection H as <- <- <-. split; [intros; discriminate|split; [intros; discriminate|reflexivity]]. }
    cbn [andb] in H. rewrite oneshot_eq_ref in H.
    destruct (cs =? xxh32_ref dec) eqn:Ecs; cbn [negb] in H.
    2:{ injection H as <- <- <-. split; [intros; discriminate|split; [intros; discriminate|reflexivity]]. }
    injection H as <- <- <-. split; [|split; [intros; discriminate|intros Hx; exfalso; apply Hx; reflexivity]].
    intros _. rewrite r_accept_src, r_accept_flags. rewrite Hr3. split; [reflexivity|]. split; [|split; [reflexivity|split; [unfold l in *; lia|apply Hdl; reflexivity]]].
    constructor; rewrite ?r_accept_src, ?r_accept_flags, ?r_accept_magic, ?r_accept_content, ?r_accept_dict; try assumption.
    + rewrite Hr3. unfold l in *. lia.
    + rewrite Hr3. assumption.
    + rewrite Hcont. destruct (lz4stream_DescriptorFlags_ContentChecksum (r_flags r)); reflexivity.
    + destruct (lz4stream_DescriptorFlags_BlockIndependence (r_flags r)); [assumption|].
      apply dict_update_good. exact Hdict.
  - cbv beta iota in H.
    destruct decS as [dec|].
    2:{ injection H as <- <- <-. split; [intros; discriminate|split; [intros; discriminate|reflexivity]]. }
    cbn [andb] in H.
    injection H as <- <- <-. split; [|split; [intros; discriminate|intros Hx; exfalso; apply Hx; reflexivity]].
    intros _. rewrite r_accept_src, r_accept_flags. rewrite Hr2. split; [reflexivity|]. split; [|split; [reflexivity|split; [unfold l in *; lia|apply Hdl; reflexivity]]].
    constructor; rewrite ?r_accept_src, ?r_accept_flags, ?r_accept_magic, ?r_accept_content, ?r_accept_dict; try assumption.
    + rewrite Hr2. unfold l in *. lia.
    + rewrite Hr2. assumption.
    + rewrite Hcont. destruct (lz4stream_DescriptorFlags_ContentChecksum (r_flags r)); reflexivity.
    + destruct (lz4stream_DescriptorFlags_BlockIndependence (r_flags r)); [assumption|].
      apply dict_update_good. exact Hdict.
Qed.

(* ====================================================================== *)
(* 5. the block loop and the frame end                                    *)
(* ====================================================================== *)

Lemma r_read_block_fields r r1 e d : r_read_block r = (r1, e, d) ->
  r_state r1 = r_state r /\ r_serr r1 = r_serr r /\ r_data r1 = r_data r /\ r_magic r1 = r_magic r
  /\ r_flags r1 = r_flags r /\ r_num r1 = r_num r /\ r_csize r1 = r_csize r.
Proof.
  rewrite r_read_block_eq. cbv zeta.
  destruct (read_u32 (r_src r)) as [[x0 e0] s0].
  destruct (if is_legacy r then _ else _) as [[x e1] s1].
  destruct e1; try (intros H; injection H as <- <- <-; repeat split; reflexivity).
  destruct (if is_legacy r then _ else _); [intros H; injection H as <- <- <-; repeat split; reflexivity|].
  destruct (r_bsz r <? _); [intros H; injection H as <- <- <-; repeat split; reflexivity|].
  destruct (read_full s1 _) as [[stored e2] s2].
  destruct e2; try (intros H; injection H as <- <- <-; repeat split; reflexivity).
  destruct (if lz4stream_DescriptorFlags_BlockChecksum (r_flags r) then _ else _) as [[cks e3] s3].
  destruct e3; try (intros H; injection H as <- <- <-; repeat split; reflexivity).
  destruct (if lz4stream_DataBlockSize_Uncompressed x then _ else _) as [dd|];
    [|intros H; injection H as <- <- <-; repeat split; reflexivity].
  destruct (_ && _); intros H; injection H as <- <- <-; repeat split; reflexivity.
Qed.

Lemma r_writeto_loop_S f r out : r_writeto_loop (S f) r out =
  let '(r1, e, d) := r_read_block r in
  match e with
  | ENil => r_writeto_loop f r1 (out ++ d)
  | EEOF => let '(r2, e2) := r_close r1 in (r2, out, e2)
  | _ => (r1, out, e)
  end.
Proof. reflexivity. Qed.

Lemma loop_corr sz N k : forall n r content, rinv N r content -> (length (s_rem (r_src r)) < n)%nat ->
  match spec_blocks n Decoded false (fdesc_of (r_flags r) sz) (s_rem (r_src r)) content with
  | Some (content', rest) =>
      exists r1, r_writeto_loop (n + k) r content = (let '(r2, e2) := r_close r1 in (r2, content', e2))
                 /\ rinv N r1 content' /\ s_rem (r_src r1) = rest /\ r_flags r1 = r_flags r
                 /\ r_state r1 = r_state r /\ r_data r1 = r_data r
                 /\ len content' <= len content + 2097152 * len (s_rem (r_src r))
  | None => forall r' out' e, r_writeto_loop (n + k) r content = (r', out', e) -> e <> ENil
  end.
Proof.
  induction n as [|n IH]; intros r content Hinv Hfuel; [lia|].
  cbn [Nat.add]. rewrite r_writeto_loop_S.
  destruct (r_read_block r) as [[r1 e] dd] eqn:Erb.
  pose proof (block_step N r content sz n r1 e dd Hinv Erb) as (HA & HB & HC).
  destruct (r_read_block_fields _ _ _ _ Erb) as (Hst & _ & Hdat & _).
  assert (Hcase : e = ENil \/ e = EEOF \/ (e <> ENil /\ e <> EEOF)).
  { destruct e; try (left; reflexivity); try (right; left; reflexivity); right; right; split; discriminate. }
  destruct Hcase as [->|[->|[Hn1 Hn2]]].
  - destruct (HA eq_refl) as (Heq & Hinv1 & Hfl & Hdec & Hdl). rewrite Heq.
    assert (Hfuel1 : (length (s_rem (r_src r1)) < n)%nat) by (unfold len in Hdec; lia).
    specialize (IH r1 (content ++ dd) Hinv1 Hfuel1). rewrite Hfl in IH.
    destruct (spec_blocks n Decoded false _ _ _) as [[c' rest]|].
    + destruct IH as (r1' & Hloop & Hinv' & Hrest & Hfl' & Hst' & Hdat' & Hbd). exists r1'.
      split; [exact Hloop|]. split; [exact Hinv'|]. split; [exact Hrest|]. split; [exact Hfl'|].
      split; [congruence|]. split; [congruence|]. rewrite len_app in Hbd. lia.
    + exact IH.
  - destruct (HB eq_refl) as (Heq & Hinv1 & Hfl). rewrite Heq.
    exists r1. split; [reflexivity|]. split; [exact Hinv1|]. split; [reflexivity|]. split; [exact Hfl|].
    split; [assumption|]. split; [assumption|]. pose proof (len_nonneg (s_rem (r_src r))). lia.
  - rewrite (HC Hn1 Hn2). intros r' out' e' H.
    destruct e; try (exfalso; apply Hn1; reflexivity); try (exfalso; apply Hn2; reflexivity);
      injection H as <- <- <-; discriminate.
Qed.

Lemma xsum_content content : len content < 2 ^ 64 -> xsum32 (xwrite xzero content) = xxh32_ref content.
Proof.
  intros Hl. pose proof (stream_eq_ref [content] xzero [] repr_zero) as H.
  cbn [fold_left concat app] in H. rewrite app_nil_r in H. apply H. rewrite len_nil. lia.
Qed.

Lemma r_close_corr N r1 content : rinv N r1 content -> len content < 2 ^ 64 ->
  match (if lz4stream_DescriptorFlags_ContentChecksum (r_flags r1) then
           match u32le (s_rem (r_src r1)) with
           | None => None
           | Some (cs, r3) => if cs =? xxh32_ref content then Some r3 else None
           end
         else Some (s_rem (r_src r1))) with
  | Some r3 => exists r2, r_close r1 = (r2, ENil) /\ s_rem (r_src r2) = r3
                          /\ s_consumed (r_src r2) + len r3 = N /\ r_state r2 = r_state r1 /\ r_data r2 = r_data r1
  | None => exists r2 e, r_close r1 = (r2, e) /\ e <> ENil /\ e <> EOther
  end.
Proof.
  intros [Hmag Hok Hcons Hbytes Hcont Hdict] Hlen. unfold r_close.
  assert (Hleg : is_legacy r1 = false) by (unfold is_legacy; rewrite Hmag; reflexivity).
  rewrite Hleg. cbn [orb].
  destruct (lz4stream_DescriptorFlags_ContentChecksum (r_flags r1)) eqn:Ecc; cbn [negb].
  2:{ exists r1. repeat split; assumption. }
  pose proof (read_u32_spec (r_src r1) Hok) as Hu.
  destruct (u32le (s_rem (r_src r1))) as [[cs r3]|] eqn:Eu.
  - destruct Hu as (s' & Hrd & Hr & Hok' & Hc). rewrite Hrd. rewrite Hcont, xsum_content by assumption.
    destruct (u32le_bytes _ _ _ Hbytes Eu) as (_ & _ & Hl).
    destruct (cs =? xxh32_ref content).
    + eexists. split; [reflexivity|]. cbn [rset_src r_src r_state r_data]. repeat split; try assumption. lia.
    + eexists _, _. split; [reflexivity|]. split; discriminate.
  - destruct Hu as (x & e0 & s' & Hrd & He0 & _). rewrite Hrd.
    rewrite (unexpected_not _ He0).
    destruct He0 as [-> | ->]; eexists _, _; (split; [reflexivity|split; discriminate]).
Qed.

(* ====================================================================== *)
(* 6. the frame descriptor                                                *)
(* ====================================================================== *)

(* the modern branch of parse_headers, after the magic *)
Definition read_desc (s1 : source) (m : Z) : ecls * source * (Z * Z * Z) :=
  let '(b3, e3, s2) := read_full s1 3 in
  match e3 with
  | ENil =>
    let fl := nth 0 b3 0 + 256 * nth 1 b3 0 in
    if lz4stream_DescriptorFlags_Size fl then
      let '(b8, e8, s3) := read_full s2 8 in
      match e8 with
      | ENil =>
        let all := b3 ++ b8 in
        let csize := match FrameSpec_u64 (skipn 2 all) with Some v => v | None => 0 end in
        let cks := nth 10 all 0 in
        let desc := firstn 10 all in
        if cks =? (Z.shiftr (checksum_zero desc) 8) mod 256
        then if lz4block_BlockSizeIndex_IsValid (lz4stream_DescriptorFlags_BlockSizeIndex fl)
             then (ENil, s3, (m, fl, csize)) else (EBlkSize, s3, (m, fl, csize))
        else (EHdrSum, s3, (m, fl, csize))
      | _ => (unexpected e8, s3, (m, fl, 0))
      end
    else
      let cks := nth 2 b3 0 in
      if cks =? (Z.shiftr (checksum_zero (firstn 2 b3)) 8) mod 256
      then if lz4block_BlockSizeIndex_IsValid (lz4stream_DescriptorFlags_BlockSizeIndex fl)
           then (ENil, s2, (m, fl, 0)) else (EBlkSize, s2, (m, fl, 0))
      else (EHdrSum, s2, (m, fl, 0))
  | _ => (unexpected e3, s2, (m, 0, 0))
  end.

Lemma parse_desc_eq flg bd r0 : parse_desc false (flg :: bd :: r0) =
  match block_max ((bd / 16) mod 8) with
  | None => None
  | Some mx =>
    match (if bit flg 3 then splitn 8 r0 [] else Some ([], r0)) with
    | None => None
    | Some (szb, r1) =>
      match r1 with
      | hc :: r2 =>
        if hc =? (xxh32_ref (flg :: bd :: szb) / 256) mod 256 then
          Some (mkfd (bit flg 5) (bit flg 4) (bit flg 2)
                     (if bit flg 3 then match u64le szb with Some (v, _) => Some v | None => None end else None) mx, r2)
        else None
      | [] => None
      end
    end
  end.
Proof. reflexivity. Qed.

Lemma read_full_short s n : oksrc s -> 0 < n -> len (s_rem s) < n ->
  exists g e s', read_full s n = (g, e, s') /\ (e = EEOF \/ e = EUEOF).
Proof.
  intros Hok Hn Hl. pose proof (read_full_spec s n Hok ltac:(lia)) as H. rewrite splitn_spec in H.
  destruct (len (s_rem s) <? n) eqn:E; [|lia].
  destruct H as (g & e & s' & H & He & _). eexists _, _, _. split; [exact H|exact He].
Qed.

Lemma read_full_exact s n a b : oksrc s -> 0 < n -> s_rem s = a ++ b -> len a = n ->
  exists s', read_full s n = (a, ENil, s') /\ s_rem s' = b /\ oksrc s' /\ s_consumed s' = s_consumed s + n.
Proof.
  intros Hok Hn Hr Hl. subst n. pose proof (read_full_spec s (len a) Hok ltac:(lia)) as H. rewrite splitn_spec in H.
  rewrite Hr, len_app in H. pose proof (len_nonneg b).
  destruct (len a + len b <? len a) eqn:E; [lia|].
  rewrite BlockFormatProofs.firstn_len_app, BlockFormatProofs.skipn_len_app in H.
  cbn [rrev rev_append app] in H.
  destruct H as (s' & H & Hr' & Hok' & Hc & _). exists s'. repeat split; assumption.
Qed.

Lemma parse_desc_short l : (length l < 3)%nat -> parse_desc false l = None.
Proof.
  intros Hl. destruct l as [|flg [|bd [|x r]]]; try reflexivity; [|cbn [length] in Hl; lia].
  rewrite parse_desc_eq. destruct (block_max _); [|reflexivity]. destruct (bit flg 3); reflexivity.
Qed.

Lemma splitn_8_short x r : (length r < 7)%nat -> splitn 8 (x :: r) [] = None.
Proof. intros H. rewrite splitn_spec. rewrite len_cons. unfold len. destruct (_ <? 8) eqn:E; [reflexivity|lia]. Qed.

Lemma desc_corr s1 m e s3 m' fl cs : oksrc s1 -> bytes (s_rem s1) ->
  read_desc s1 m = (e, s3, (m', fl, cs)) ->
  (e = ENil -> (exists sz, parse_desc false (s_rem s1) = Some (fdesc_of fl sz, s_rem s3))
               /\ oksrc s3 /\ bytes (s_rem s3) /\ m' = m
               /\ s_consumed s3 + len (s_rem s3) = s_consumed s1 + len (s_rem s1)
               /\ (length (s_rem s3) <= length (s_rem s1))%nat)
  /\ (e <> ENil -> parse_desc false (s_rem s1) = None) /\ e <> EOther.
Proof.
  intros Hok Hb H. unfold read_desc in H.
  destruct (Z_lt_le_dec (len (s_rem s1)) 3) as [Hshort|Hlong].
  { destruct (read_full_short s1 3 Hok ltac:(lia) Hshort) as (g & e0 & s' & Hrd & He0). rewrite Hrd in H.
    rewrite parse_desc_short by (unfold len in Hshort; lia).
    rewrite (unexpected_not _ He0) in H.
    destruct He0 as [-> | ->]; injection H as <- <- <- <- <-;
      (split; [intros; discriminate|split; [reflexivity|discriminate]]). }
  destruct (s_rem s1) as [|flg [|bd [|x r]]] eqn:El; try (rewrite ?len_cons, ?len_nil in Hlong; lia).
  destruct (read_full_exact s1 3 [flg; bd; x] r Hok ltac:(lia) El eq_refl) as (s2 & Hrd & Hr2 & Hok2 & Hc2).
  rewrite Hrd in H. cbv beta iota in H. cbn [nth] in H.
  apply bytes_cons_inv in Hb. destruct Hb as [Hflg Hb].
  apply bytes_cons_inv in Hb. destruct Hb as [Hbd Hb].
  apply bytes_cons_inv in Hb. destruct Hb as [Hx Hb].
  rewrite parse_desc_eq.
  assert (Hbm : block_max ((bd / 16) mod 8) =
                if lz4block_BlockSizeIndex_IsValid (lz4stream_DescriptorFlags_BlockSizeIndex (flg + 256 * bd))
                then Some (bsize_of_idx (lz4stream_DescriptorFlags_BlockSizeIndex (flg + 256 * bd))) else None).
  { rewrite flags_bsi by assumption. apply block_max_bsize. unfold is_byte in Hbd. lia. }
  rewrite flags_sz in H by assumption.
  assert (Hfd : forall sz mx, mx = bsize_of_idx (lz4stream_DescriptorFlags_BlockSizeIndex (flg + 256 * bd)) ->
            mkfd (bit flg 5) (bit flg 4) (bit flg 2) sz mx = fdesc_of (flg + 256 * bd) sz).
  { intros sz mx ->. unfold fdesc_of. rewrite flags_bi, flags_bc, flags_cc by assumption. reflexivity. }
  destruct (bit flg 3) eqn:Esz.
  - (* size field present *)
    destruct (Z_lt_le_dec (len r) 8) as [Hshort|Hlong8].
    { rewrite <- Hr2 in Hshort.
      destruct (read_full_short s2 8 Hok2 ltac:(lia) Hshort) as (g & e0 & s' & Hrd8 & He0). rewrite Hrd8 in H.
      rewrite (unexpected_not _ He0) in H. rewrite Hr2 in Hshort.
      assert (Hsp : match splitn 8 (x :: r) [] with None => True | Some (_, r1) => r1 = [] end).
      { rewrite splitn_spec. destruct (_ <? 8); [exact I|]. cbn [rrev rev_append app].
        apply len_zero_nil. unfold len in *. rewrite skipn_length. cbn [length]. lia. }
      assert (Hnone : match block_max ((bd / 16) mod 8) with
                      | None => None
                      | Some mx => match splitn 8 (x :: r) [] with
                                   | None => None
                                   | Some (szb, r1) => match r1 with
                                       | hc :: r2 => if hc =? (xxh32_ref (flg :: bd :: szb) / 256) mod 256
                                                     then Some (mkfd (bit flg 5) (bit flg 4) (bit flg 2)
                                                                  (match u64le szb with Some (v, _) => Some v | None => None end) mx, r2)
                                                     else None
                                       | [] => None end end end = None).
      { destruct (block_max _); [|reflexivity]. destruct (splitn 8 (x :: r) []) as [[szb r1]|]; [|reflexivity].
        subst r1. reflexivity. }
      destruct He0 as [-> | ->]; injection H as <- <- <- <- <-;
        (split; [intros; discriminate|split; [intros _; exact Hnone|discriminate]]). }
    destruct r as [|a1 [|a2 [|a3 [|a4 [|a5 [|a6 [|a7 [|a8 r']]]]]]]]; try (rewrite ?len_cons, ?len_nil in Hlong8; lia).
    destruct (read_full_exact s2 8 [a1; a2; a3; a4; a5; a6; a7; a8] r' Hok2 ltac:(lia) Hr2 eq_refl)
      as (s3' & Hrd8 & Hr3 & Hok3 & Hc3).
    rewrite Hrd8 in H. cbv beta iota zeta in H. cbn [app nth firstn skipn] in H.
    change (splitn 8 (x :: a1 :: a2 :: a3 :: a4 :: a5 :: a6 :: a7 :: a8 :: r') [])
      with (Some ([x; a1; a2; a3; a4; a5; a6; a7], a8 :: r')).
    rewrite hc_eq in H. rewrite Hbm.
    assert (Hb' : bytes r') by (do 8 (apply bytes_cons_inv in Hb; destruct Hb as [_ Hb]); exact Hb).
    destruct (a8 =? _) eqn:Ehc.
    + destruct (lz4block_BlockSizeIndex_IsValid _) eqn:Ev; injection H as <- <- <- <- <-.
      * split; [|split; [intros Hx'; exfalso; apply Hx'; reflexivity|discriminate]].
        intros _. split; [eexists; rewrite Hfd by reflexivity; rewrite Hr3; reflexivity|].
        split; [assumption|]. split; [rewrite Hr3; assumption|]. split; [reflexivity|].
        split; [rewrite Hr3, Hc3, Hc2; rewrite !len_cons; lia|]. rewrite Hr3. cbn [length]. lia.
      * split; [intros; discriminate|split; [reflexivity|discriminate]].
    + injection H as <- <- <- <- <-.
      split; [intros; discriminate|split; [|discriminate]]. intros _. destruct (lz4block_BlockSizeIndex_IsValid _); reflexivity.
  - (* no size field *)
    cbn [firstn] in H. rewrite hc_eq in H. rewrite Hbm.
    destruct (x =? _) eqn:Ehc.
    + destruct (lz4block_BlockSizeIndex_IsValid _) eqn:Ev; injection H as <- <- <- <- <-.
      * split; [|split; [intros Hx'; exfalso; apply Hx'; reflexivity|discriminate]].
        intros _. split; [eexists; rewrite Hfd by reflexivity; rewrite Hr2; reflexivity|].
        split; [assumption|]. split; [rewrite Hr2; assumption|]. split; [reflexivity|].
        split; [rewrite Hr2, Hc2; rewrite !len_cons; lia|]. rewrite Hr2. cbn [length]. lia.
      * split; [intros; discriminate|split; [reflexivity|discriminate]].
    + injection H as <- <- <- <- <-.
      split; [intros; discriminate|split; [|discriminate]]. intros _. destruct (lz4block_BlockSizeIndex_IsValid _); reflexivity.
Qed.

(* ====================================================================== *)
(* 7. magic numbers and skippable frames                                  *)
(* ====================================================================== *)

(* the first magic number that is not one of a skippable frame *)
Fixpoint first_magic (fuel : nat) (l : list Z) : option Z :=
  match fuel with O => None | S f =>
  match u32le l with
  | None => None
  | Some (m, r0) =>
    if (SKIP_LO <=? m) && (m <=? SKIP_HI) then
      match u32le r0 with
      | None => None
      | Some (n, r1) => match splitn n r1 [] with None => None | Some (_, r2) => first_magic f r2 end
      end
    else Some m
  end end.
(* the input does not hold a legacy frame *)
Definition not_legacy (input : list Z) : Prop := first_magic (S (length input)) input <> Some MAGIC_LEGACY.

Definition spec_after_desc (dom : bcdom) (d : fdesc) (r1 : list Z) : option (list Z * list Z) :=
  match spec_blocks (S (length r1)) dom false d r1 [] with
  | None => None
  | Some (content, r2) =>
    match (if fd_cc d then
             match u32le r2 with
             | None => None
             | Some (cs, r3) => if cs =? xxh32_ref content then Some r3 else None
             end
           else Some r2) with
    | None => None
    | Some r3 => Some (content, r3)
    end
  end.

Lemma frame_spec_fuel_S f dom l : frame_spec_fuel (S f) dom false l =
  match u32le l with
  | None => None
  | Some (m, r0) =>
    if (SKIP_LO <=? m) && (m <=? SKIP_HI) then
      match u32le r0 with
      | None => None
      | Some (n, r1) => match splitn n r1 [] with None => None | Some (_, r2) => frame_spec_fuel f dom false r2 end
      end
    else if m =? MAGIC_LEGACY then spec_legacy (S (length r0)) false r0 []
    else if m =? MAGIC then
      match parse_desc false r0 with
      | None => None
      | Some (d, r1) => spec_after_desc dom d r1
      end
    else None
  end.
Proof.
  cbn [frame_spec_fuel]. destruct (u32le l) as [[m r0]|]; [|reflexivity].
  destruct (_ && _); [reflexivity|]. destruct (m =? MAGIC_LEGACY); [reflexivity|].
  destruct (m =? MAGIC); [|reflexivity]. destruct (parse_desc false r0) as [[d r1]|]; [|reflexivity].
  unfold spec_after_desc. destruct (spec_blocks _ _ _ _ _ _) as [[c r2]|]; [|reflexivity].
  destruct (if fd_cc d then _ else _); reflexivity.
Qed.

Definition legacy_flags : Z := lz4stream_DescriptorFlags_BlockSizeIndexSet 0 (lz4block_Index lz4block_Block8Mb).

Lemma parse_headers_S' f s : parse_headers (S f) s =
  let '(m, e, s1) := read_u32 s in
  match e with
  | ENil =>
    if (m =? lz4stream_frameMagic) || (m =? lz4stream_frameMagicLegacy) then
      if m =? lz4stream_frameMagicLegacy then (ENil, s1, (m, legacy_flags, 0))
      else read_desc s1 m
    else if Z.shiftr m 4 =? Z.shiftr lz4stream_frameSkipMagic 4 then
      let '(skip, e2, s2) := read_u32 s1 in
      match e2 with
      | ENil =>
        let '(got, rest) := take_upto skip (s_rem s2) [] in
        let s3 := mksrc rest (s_calls s2 + 1) (s_fail s2) (s_consumed s2 + len got) in
        if len got =? skip then parse_headers f s3 else (EUEOF, s3, (m, 0, 0))
      | _ => (unexpected e2, s2, (m, 0, 0))
      end
    else (EBadFrame, s1, (m, 0, 0))
  | _ => (e, s1, (0, 0, 0))
  end.
Proof. reflexivity. Qed.

Lemma hdr_corr dom : forall n s e s1 m fl cs, oksrc s -> bytes (s_rem s) ->
  parse_headers n s = (e, s1, (m, fl, cs)) ->
  (e = ENil -> oksrc s1 /\ bytes (s_rem s1)
     /\ s_consumed s1 + len (s_rem s1) = s_consumed s + len (s_rem s)
     /\ (length (s_rem s1) <= length (s_rem s))%nat
     /\ first_magic n (s_rem s) = Some m
     /\ (m = lz4stream_frameMagic \/ m = lz4stream_frameMagicLegacy)
     /\ (m = lz4stream_frameMagic -> exists sz,
           frame_spec_fuel n dom false (s_rem s) = spec_after_desc dom (fdesc_of fl sz) (s_rem s1))
     /\ (m = lz4stream_frameMagicLegacy -> fl = legacy_flags /\
           frame_spec_fuel n dom false (s_rem s) = spec_legacy (S (length (s_rem s1))) false (s_rem s1) []))
  /\ (e <> ENil -> frame_spec_fuel n dom false (s_rem s) = None)
  /\ ((length (s_rem s) < n)%nat -> e <> EOther).
Proof.
  induction n as [|n IH]; intros s e s1 m fl cs Hok Hb H.
  { cbn [parse_headers] in H. injection H as <- <- <- <- <-.
    split; [intros; discriminate|]. split; [reflexivity|]. intros Hl. lia. }
  rewrite parse_headers_S' in H. rewrite frame_spec_fuel_S. cbn [first_magic].
  pose proof (read_u32_spec s Hok) as Hu.
  destruct (u32le (s_rem s)) as [[w r0]|] eqn:Eu.
  2:{ destruct Hu as (x & e0 & s' & Hrd & He0 & _). rewrite Hrd in H.
      destruct He0 as [-> | ->]; injection H as <- <- <- <- <-;
        (split; [intros; discriminate|split; [reflexivity|intros; discriminate]]). }
  destruct Hu as (s1' & Hrd & Hr1 & Hok1 & Hc1). rewrite Hrd in H. cbv beta iota in H.
  destruct (u32le_bytes _ _ _ Hb Eu) as (Hw & Hb0 & Hl0).
  rewrite skip_test in H by lia.
  change 407710288 with SKIP_LO in H. change 407710303 with SKIP_HI in H.
  change lz4stream_frameMagic with MAGIC in *. change lz4stream_frameMagicLegacy with MAGIC_LEGACY in *.
  destruct (w =? MAGIC) eqn:Em; destruct (w =? MAGIC_LEGACY) eqn:El; cbn [orb] in H.
  - unfold MAGIC, MAGIC_LEGACY in *. lia.
  - (* current format *)
    assert (Hsk : (SKIP_LO <=? w) && (w <=? SKIP_HI) = false) by (unfold MAGIC, SKIP_LO, SKIP_HI in *; lia).
    rewrite Hsk. rewrite <- Hr1 in Hb0.
    pose proof (desc_corr s1' w e s1 m fl cs Hok1 Hb0 H) as (HA & HB & HC). rewrite Hr1 in *.
    split; [|split; [|intros; exact HC]].
    + intros He. destruct (HA He) as ((sz & Hpd) & Hok3 & Hb3 & -> & Hc3 & Hle3).
      split; [assumption|]. split; [assumption|]. split; [lia|]. split; [unfold len in Hl0; lia|]. split; [reflexivity|].
      split; [left; lia|]. split; [|intros; lia].
      intros _. exists sz. rewrite Hpd. reflexivity.
    + intros He. rewrite (HB He). reflexivity.
  - (* legacy *)
    assert (Hsk : (SKIP_LO <=? w) && (w <=? SKIP_HI) = false) by (unfold MAGIC_LEGACY, SKIP_LO, SKIP_HI in *; lia).
    rewrite Hsk. injection H as <- <- <- <- <-.
    split; [|split; [intros Hx; exfalso; apply Hx; reflexivity|intros; discriminate]].
    intros _. rewrite Hr1. split; [assumption|]. split; [assumption|]. split; [lia|]. split; [unfold len in Hl0; lia|]. split; [reflexivity|].
    split; [right; lia|]. split; [intros; lia|]. intros _. split; reflexivity.
  - destruct ((SKIP_LO <=? w) && (w <=? SKIP_HI)) eqn:Hsk.
    2:{ injection H as <- <- <- <- <-. split; [intros; discriminate|split; [reflexivity|intros; discriminate]]. }
    (* skippable frame *)
    pose proof (read_u32_spec s1' Hok1) as Hu2. rewrite Hr1 in Hu2.
    destruct (u32le r0) as [[skip r1]|] eqn:Eu2.
    2:{ destruct Hu2 as (x & e0 & s' & Hrd2 & He0 & _). rewrite Hrd2 in H. rewrite (unexpected_not _ He0) in H.
        destruct He0 as [-> | ->]; injection H as <- <- <- <- <-;
          (split; [intros; discriminate|split; [reflexivity|intros; discriminate]]). }
    destruct Hu2 as (s2 & Hrd2 & Hr2 & Hok2 & Hc2). rewrite Hrd2 in H. cbv beta iota in H.
    destruct (u32le_bytes _ _ _ Hb0 Eu2) as (Hskip & Hb1 & Hl1).
    rewrite take_upto_spec in H. cbn [rrev rev_append app] in H. rewrite Hr2 in H.
    rewrite splitn_spec.
    assert (Hgot : len (firstn (Z.to_nat skip) r1) = Z.min skip (len r1)).
    { unfold len. rewrite firstn_length. lia. }
    destruct (len r1 <? skip) eqn:Esh.
    { destruct (_ =? skip) eqn:E2 in H; [lia|]. injection H as <- <- <- <- <-.
      split; [intros; discriminate|split; [reflexivity|intros; discriminate]]. }
    destruct (_ =? skip) eqn:E2 in H; [|lia].
    set (s3 := mksrc _ _ _ _) in H.
    assert (Hok3 : oksrc s3) by (unfold oksrc, s3; cbn [s_fail]; exact Hok2).
    assert (Hb3 : bytes (s_rem s3)) by (unfold s3; cbn [s_rem]; apply bytes_skipn; exact Hb1).
    pose proof (IH s3 e s1 m fl cs Hok3 Hb3 H) as (HA & HB & HC).
    assert (Hlen3 : len (skipn (Z.to_nat skip) r1) = len r1 - skip).
    { unfold len in *. rewrite skipn_length. lia. }
    assert (Hc3 : s_consumed s3 = s_consumed s + 8 + skip).
    { unfold s3; cbn [s_consumed]. lia. }
    change (s_rem s3) with (skipn (Z.to_nat skip) r1) in HA, HB, HC.
    split; [|split; [exact HB|]].
    + intros He. destruct (HA He) as (H1 & H2 & H3 & H3' & H4 & H5 & H6 & H7).
      split; [assumption|]. split; [assumption|]. split; [lia|]. split; [unfold len in *; lia|]. split; [assumption|].
      split; [assumption|]. split; assumption.
    + intros Hl. apply HC. unfold len in *. lia.
Qed.

(* ====================================================================== *)
(* 8. WriteTo on a fresh reader: soundness and completeness               *)
(* ====================================================================== *)

Definition reader_after_init (s1 : source) (m fl cs : Z) : reader :=
  mkr lz4_readState ENil (if lz4stream_DescriptorFlags_BlockIndependence fl then 1 else 1) s1 m fl cs [] [] [] 0.

Lemma rstep_writeto_new input : rstep (new_reader (src_of input)) RWriteTo =
  let '(e, s1, (m, fl, cs)) := parse_headers (S (length input)) (src_of input) in
  match e with
  | ENil =>
    let '(r1', out, e') := r_writeto_loop (S (length input)) (reader_after_init s1 m fl cs) [] in
    (rst_next r1' e', RRes (len out) e' out)
  | _ => (rst_next (mkr lz4_newState ENil 1 s1 m (if m =? lz4stream_frameMagic then fl else 0) cs [] [] [] 0) e,
          RRes 0 e [])
  end.
Proof.
  unfold rstep, new_reader, r_init. cbn [r_state r_magic r_src r_flags r_csize r_num r_serr r_content r_data r_dict r_cum].
  change (lz4_newState =? lz4_closedState) with false. change (lz4_newState =? lz4_errorState) with false.
  change (lz4_newState =? lz4_newState) with true. change (0 <? 0) with false. cbv beta iota.
  change (s_rem (src_of input)) with input.
  destruct (parse_headers (S (length input)) (src_of input)) as [[e s1] [[m fl] cs]].
  destruct e; reflexivity.
Qed.

Lemma rinv_after_init s1 m fl cs N : m = lz4stream_frameMagic -> oksrc s1 -> bytes (s_rem s1) ->
  s_consumed s1 + len (s_rem s1) = N -> rinv N (reader_after_init s1 m fl cs) [].
Proof.
  intros -> Hok Hb Hc. constructor; cbn [reader_after_init r_magic r_src r_content r_flags r_dict]; try assumption.
  - reflexivity.
  - destruct (lz4stream_DescriptorFlags_ContentChecksum fl); reflexivity.
  - destruct (lz4stream_DescriptorFlags_BlockIndependence fl); [reflexivity|].
    exists []. split; [reflexivity|left; reflexivity].
Qed.

Lemma rst_next_nil_fields r : r_src (rst_next r ENil) = r_src r.
Proof. reflexivity. Qed.

Lemma writeto_master input : bytes input -> not_legacy input ->
  forall r' res, rstep (new_reader (src_of input)) RWriteTo = (r', res) ->
  match frame_spec_fuel (S (length input)) Decoded false input with
  | Some (content, rest) =>
      (forall n e out, res = RRes n e out -> out = content) /\
      (len content < 2 ^ 64 \/ len input < 2 ^ 42 ->
       res = RRes (len content) ENil content /\ s_consumed (r_src r') + len rest = len input
       /\ r_state r' = lz4_closedState)
  | None => forall n out, res = RRes n ENil out -> len out < 2 ^ 64 \/ len input < 2 ^ 42 -> False
  end.
Proof.
  intros Hb Hnl r' res H. rewrite rstep_writeto_new in H.
  destruct (parse_headers (S (length input)) (src_of input)) as [[e s1] [[m fl] cs]] eqn:Eph.
  assert (Hok0 : oksrc (src_of input)) by reflexivity.
  pose proof (hdr_corr Decoded _ _ _ _ _ _ _ Hok0 Hb Eph) as (HA & HB & _).
  change (s_rem (src_of input)) with input in *.
  assert (Hcase : e = ENil \/ e <> ENil) by (destruct e; try (left; reflexivity); right; discriminate).
  destruct Hcase as [-> | Hne].
  2:{ rewrite (HB Hne). intros n out Hres _.
      destruct e; try (apply Hne; reflexivity); injection H as <- <-; discriminate Hres. }
  destruct (HA eq_refl) as (Hok1 & Hb1 & Hc1 & Hle1 & Hfm & Hm & Hmod & _).
  assert (Hmm : m = lz4stream_frameMagic).
  { destruct Hm as [Hm|Hm]; [exact Hm|]. exfalso. apply Hnl. rewrite Hfm, Hm. reflexivity. }
  destruct (Hmod Hmm) as (sz & Hspec). rewrite Hspec. unfold spec_after_desc.
  change (s_consumed (src_of input)) with 0 in Hc1.
  pose proof (rinv_after_init s1 m fl cs (len input) Hmm Hok1 Hb1 ltac:(lia)) as Hinv.
  assert (Hk : exists k, (S (length input) = S (length (s_rem s1)) + k)%nat).
  { exists (length input - length (s_rem s1))%nat. lia. }
  destruct Hk as (k & Hk). rewrite Hk in H.
  pose proof (loop_corr sz (len input) k (S (length (s_rem s1))) _ _ Hinv ltac:(cbn [reader_after_init r_src]; lia)) as Hloop.
  change (r_flags (reader_after_init s1 m fl cs)) with fl in Hloop.
  change (r_src (reader_after_init s1 m fl cs)) with s1 in Hloop.
  destruct (spec_blocks (S (length (s_rem s1))) Decoded false (fdesc_of fl sz) (s_rem s1) []) as [[content r2]|].
  2:{ intros n out Hres _.
      destruct (r_writeto_loop _ _ _) as [[r1' out'] e'] eqn:El. specialize (Hloop _ _ _ eq_refl).
      injection H as <- <-. injection Hres as _ He _. apply Hloop. exact He. }
  destruct Hloop as (r1 & Hl & Hinv1 & Hrest & Hfl & Hst & Hdat & Hbd). rewrite Hl in H.
  change (fd_cc (fdesc_of fl sz)) with (lz4stream_DescriptorFlags_ContentChecksum fl).
  assert (Hlen' : len content < 2 ^ 64 \/ len input < 2 ^ 42 -> len content < 2 ^ 64).
  { intros [Hx|Hx]; [exact Hx|]. rewrite len_nil in Hbd. cbn [reader_after_init r_src] in Hbd.
    unfold len in *. lia. }
  destruct (r_close r1) as [r2' e2] eqn:Ecl.
  injection H as <- <-.
  assert (Hcl : len content < 2 ^ 64 ->
    match (if lz4stream_DescriptorFlags_ContentChecksum fl then
             match u32le r2 with
             | None => None
             | Some (cs, r3) => if cs =? xxh32_ref content then Some r3 else None
             end
           else Some r2) with
    | Some r3 => e2 = ENil /\ s_rem (r_src r2') = r3 /\ s_consumed (r_src r2') + len r3 = len input
                 /\ r_state r2' = lz4_readState
    | None => e2 <> ENil
    end).
  { intros Hlen. pose proof (r_close_corr _ _ _ Hinv1 Hlen) as Hc. rewrite Hfl, Hrest in Hc.
    destruct (if lz4stream_DescriptorFlags_ContentChecksum fl then _ else _) as [r3|].
    - destruct Hc as (r2'' & Hc & Hr3 & Hcons & Hst' & _). rewrite Ecl in Hc. injection Hc as <- ->.
      split; [reflexivity|]. split; [assumption|]. split; [assumption|]. rewrite Hst', Hst. reflexivity.
    - destruct Hc as (r2'' & e'' & Hc & Hne & _). rewrite Ecl in Hc. injection Hc as <- <-. exact Hne. }
  destruct (if lz4stream_DescriptorFlags_ContentChecksum fl then _ else _) as [r3|].
  - split; [intros n e out Hres; injection Hres as _ _ <-; reflexivity|].
    intros Hlen0. pose proof (Hlen' Hlen0) as Hlen. destruct (Hcl Hlen) as (-> & Hr3 & Hcons & Hst2).
    split; [reflexivity|]. rewrite rst_next_nil_fields. split; [assumption|].
    unfold rst_next. cbn [rset_state r_state]. rewrite Hst2. reflexivity.
  - intros n out Hres Hlen0. injection Hres as _ He Hout. subst out. apply (Hcl (Hlen' Hlen0)). exact He.
Qed.

(* C05, for inputs that do not hold a legacy frame and contents below 2^64 bytes *)
Theorem reader_sound_fixed : forall input r' n out, bytes input -> not_legacy input -> len out < 2 ^ 64 ->
  rstep (new_reader (src_of input)) RWriteTo = (r', RRes n ENil out) ->
  frame_spec Decoded false input = Some (out, s_consumed (r_src r')) /\ n = len out.
Proof.
  intros input r' n out Hb Hnl Hlen H.
  pose proof (writeto_master input Hb Hnl _ _ H) as M. unfold frame_spec.
  destruct (frame_spec_fuel (S (length input)) Decoded false input) as [[content rest]|].
  - destruct M as (M1 & M2). pose proof (M1 _ _ _ eq_refl) as <-.
    destruct (M2 (or_introl Hlen)) as (Hres & Hcons & _). injection Hres as ->.
    split; [|reflexivity]. f_equal. f_equal. lia.
  - exfalso. exact (M n out eq_refl (or_introl Hlen)).
Qed.

(* the same for inputs below 4 TiB (then the content is below 2^63 bytes) *)
Theorem reader_sound_fixed_small : forall input r' n out, bytes input -> not_legacy input -> len input < 2 ^ 42 ->
  rstep (new_reader (src_of input)) RWriteTo = (r', RRes n ENil out) ->
  frame_spec Decoded false input = Some (out, s_consumed (r_src r')) /\ n = len out.
Proof.
  intros input r' n out Hb Hnl Hlen H.
  pose proof (writeto_master input Hb Hnl _ _ H) as M. unfold frame_spec.
  destruct (frame_spec_fuel (S (length input)) Decoded false input) as [[content rest]|].
  - destruct M as (M1 & M2). pose proof (M1 _ _ _ eq_refl) as <-.
    destruct (M2 (or_intror Hlen)) as (Hres & Hcons & _). injection Hres as ->.
    split; [|reflexivity]. f_equal. f_equal. lia.
  - exfalso. exact (M n out eq_refl (or_intror Hlen)).
Qed.

(* completeness: what the specification accepts, the Reader delivers *)
Theorem reader_complete_fixed : forall input out k, bytes input -> not_legacy input -> len out < 2 ^ 64 ->
  frame_spec Decoded false input = Some (out, k) ->
  exists r', rstep (new_reader (src_of input)) RWriteTo = (r', RRes (len out) ENil out)
             /\ s_consumed (r_src r') = k /\ r_state r' = lz4_closedState.
Proof.
  intros input out k Hb Hnl Hlen H. unfold frame_spec in H.
  destruct (rstep (new_reader (src_of input)) RWriteTo) as [r' res] eqn:E.
  pose proof (writeto_master input Hb Hnl _ _ E) as M.
  destruct (frame_spec_fuel (S (length input)) Decoded false input) as [[content rest]|]; [|discriminate].
  injection H as -> <-. destruct M as (_ & M2). destruct (M2 (or_introl Hlen)) as (-> & Hcons & Hst).
  exists r'. split; [reflexivity|]. split; [lia|exact Hst].
Qed.

Theorem reader_complete_fixed_small : forall input out k, bytes input -> not_legacy input -> len input < 2 ^ 42 ->
  frame_spec Decoded false input = Some (out, k) ->
  exists r', rstep (new_reader (src_of input)) RWriteTo = (r', RRes (len out) ENil out)
             /\ s_consumed (r_src r') = k /\ r_state r' = lz4_closedState.
Proof.
  intros input out k Hb Hnl Hlen H. unfold frame_spec in H.
  destruct (rstep (new_reader (src_of input)) RWriteTo) as [r' res] eqn:E.
  pose proof (writeto_master input Hb Hnl _ _ E) as M.
  destruct (frame_spec_fuel (S (length input)) Decoded false input) as [[content rest]|]; [|discriminate].
  injection H as -> <-. destruct M as (_ & M2). destruct (M2 (or_intror Hlen)) as (-> & Hcons & Hst).
  exists r'. split; [reflexivity|]. split; [lia|exact Hst].
Qed.

(* the original statements do not hold for legacy frames *)
Definition legacy_cex1 : list Z := [2; 33; 76; 24; 2; 0; 0; 0; 16; 65; 1; 0; 0; 0].
(* a size word equal to the number of bytes decoded so far ends a legacy stream in the Reader
   (the `case cum` rule); the specification has no such rule *)
Theorem reader_sound_refuted : ~ reader_sound_stmt.
Proof.
  intros H.
  assert (Hb : bytes legacy_cex1) by (apply bytesb_bytes; reflexivity).
  destruct (rstep (new_reader (src_of legacy_cex1)) RWriteTo) as [r' res] eqn:E.
  assert (Hres : res = RRes 1 ENil [65]) by (vm_compute in E; injection E as _ <-; reflexivity).
  subst res. destruct (H legacy_cex1 r' 1 [65] Hb E) as [H1 _]. vm_compute in H1. discriminate H1.
Qed.
(* the Reader stops at a zero size word at the start of a legacy frame; the specification reads on *)
Definition legacy_cex2 : list Z := [2; 33; 76; 24; 0; 0; 0; 0; 0; 0; 0; 0].
Theorem reader_complete_refuted : ~ reader_complete_stmt.
Proof.
  intros H.
  assert (Hb : bytes legacy_cex2) by (apply bytesb_bytes; reflexivity).
  assert (Hs : frame_spec Decoded false legacy_cex2 = Some ([], 12)) by (vm_compute; reflexivity).
  destruct (H legacy_cex2 [] 12 Hb Hs) as (r' & H1 & H2 & _).
  vm_compute in H1. injection H1 as <-. vm_compute in H2. discriminate H2.
Qed.
(* legacy blocks are decoded against the preceding blocks by the Reader, independently by the specification *)
Definition legacy_cex3 : list Z := [2; 33; 76; 24; 6; 0; 0; 0; 80; 1; 2; 3; 4; 5; 3; 0; 0; 0; 0; 5; 0].
Example legacy_dependent_blocks :
  snd (rstep (new_reader (src_of legacy_cex3)) RWriteTo) = RRes 9 ENil [1; 2; 3; 4; 5; 1; 2; 3; 4]
  /\ frame_spec Decoded false legacy_cex3 = None.
Proof. split; vm_compute; reflexivity. Qed.

(* ====================================================================== *)
(* 9. totality: the fuel of every loop suffices                           *)
(* ====================================================================== *)

Lemma read_full_len_le s n g e s' : read_full s n = (g, e, s') -> (length (s_rem s') <= length (s_rem s))%nat.
Proof.
  unfold read_full. destruct (n <=? 0); [intros H; injection H as _ _ <-; lia|].
  destruct (_ && _); [intros H; injection H as _ _ <-; cbn [s_rem]; lia|].
  destruct (s_rem s) as [|x l] eqn:El; [intros H; injection H as _ _ <-; cbn [s_rem length]; lia|].
  rewrite take_upto_spec. cbn [rrev rev_append app].
  destruct (_ =? n); [|destruct (_ && _)]; intros H; injection H as _ _ <-; cbn [s_rem];
    rewrite skipn_length; lia.
Qed.

Lemma read_full_gen s n g e s' : oksrc s -> 0 <= n -> read_full s n = (g, e, s') ->
  e <> EOther /\ oksrc s' /\ (length (s_rem s') <= length (s_rem s))%nat
  /\ (e = ENil -> len (s_rem s') + n = len (s_rem s)).
Proof.
  intros Hok Hn H. pose proof (read_full_len_le _ _ _ _ _ H) as Hle.
  pose proof (read_full_spec s n Hok Hn) as Hs.
  destruct (splitn n (s_rem s) []) as [[a b]|] eqn:Esp.
  - destruct Hs as (s'' & Hrd & Hr & Hok' & _ & Hla). rewrite Hrd in H. injection H as <- <- <-.
    split; [discriminate|]. split; [assumption|]. split; [assumption|]. intros _.
    apply splitn_some in Esp. destruct Esp as (-> & _). rewrite Hr, len_app. lia.
  - destruct Hs as (g' & e' & s'' & Hrd & He & Hok' & _). rewrite Hrd in H. injection H as <- <- <-.
    split; [destruct He; subst; discriminate|]. split; [assumption|]. split; [assumption|].
    intros ->. destruct He; discriminate.
Qed.

Lemma read_u32_gen s x e s' : oksrc s -> read_u32 s = (x, e, s') ->
  e <> EOther /\ oksrc s' /\ (length (s_rem s') <= length (s_rem s))%nat
  /\ (e = ENil -> len (s_rem s') + 4 = len (s_rem s)).
Proof.
  intros Hok H. unfold read_u32 in H. destruct (read_full s 4) as [[b e0] s0] eqn:E.
  injection H as _ <- <-. apply (read_full_gen s 4 b); [assumption|lia|assumption].
Qed.

Lemma skip_legacy_gen f : forall s x e x' e' s', oksrc s -> e <> EOther ->
  skip_legacy_magic f s x e = (x', e', s') ->
  e' <> EOther /\ oksrc s' /\ (length (s_rem s') <= length (s_rem s))%nat /\ (e' = ENil -> e = ENil).
Proof.
  induction f as [|f IH]; intros s x e x' e' s' Hok He H; cbn [skip_legacy_magic] in H.
  { injection H as <- <- <-. repeat split; try assumption; try lia. intros ->; reflexivity. }
  destruct e; try (injection H as <- <- <-; repeat split; try assumption; try lia; intros; discriminate).
  destruct (x =? lz4stream_frameMagicLegacy).
  - destruct (read_u32 s) as [[x1 e1] s1] eqn:Er.
    destruct (read_u32_gen _ _ _ _ Hok Er) as (Hne1 & Hok1 & Hle1 & _).
    destruct (IH _ _ _ _ _ _ Hok1 Hne1 H) as (H1 & H2 & H3 & _).
    split; [assumption|]. split; [assumption|]. split; [lia|]. intros; reflexivity.
  - injection H as <- <- <-. repeat split; try assumption; try lia.
Qed.

Lemma dbs_size_nonneg x : 0 <= lz4stream_DataBlockSize_size x.
Proof. unfold lz4stream_DataBlockSize_size. apply Z.land_nonneg. right. lia. Qed.

Lemma unexpected_other e : e <> EOther -> unexpected e <> EOther.
Proof. destruct e; intros H; try discriminate; exact H. Qed.

Lemma r_read_block_total r r1 e d : oksrc (r_src r) -> r_read_block r = (r1, e, d) ->
  e <> EOther /\ oksrc (r_src r1)
  /\ (e = ENil -> (length (s_rem (r_src r1)) + 4 <= length (s_rem (r_src r)))%nat).
Proof.
  intros Hok. rewrite r_read_block_eq. cbv zeta.
  destruct (read_u32 (r_src r)) as [[x0 e0] s0] eqn:E0.
  destruct (read_u32_gen _ _ _ _ Hok E0) as (Hne0 & Hok0 & Hle0 & Hdec0).
  assert (Hsk : forall x e1 s1, (if is_legacy r then skip_legacy_magic (S (length (s_rem (r_src r)))) s0 x0 e0 else (x0, e0, s0)) = (x, e1, s1) ->
            e1 <> EOther /\ oksrc s1 /\ (e1 = ENil -> (length (s_rem s1) + 4 <= length (s_rem (r_src r)))%nat)).
  { intros x e1 s1 H. destruct (is_legacy r).
    - destruct (skip_legacy_gen _ _ _ _ _ _ _ Hok0 Hne0 H) as (H1 & H2 & H3 & H4).
      split; [assumption|]. split; [assumption|]. intros He. specialize (Hdec0 (H4 He)). unfold len in Hdec0. lia.
    - injection H as <- <- <-. split; [assumption|]. split; [assumption|].
      intros He. specialize (Hdec0 He). unfold len in Hdec0. lia. }
  destruct (if is_legacy r then _ else _) as [[x e1] s1]. destruct (Hsk _ _ _ eq_refl) as (Hne1 & Hok1 & Hdec1).
  clear Hsk.
  assert (Hun : (if is_legacy r then e1 else unexpected e1) <> EOther).
  { destruct (is_legacy r); [assumption|apply unexpected_other; assumption]. }
  destruct e1; try (intros H; injection H as <- <- <-; split; [exact Hun|split; [exact Hok1|intros Hx; try discriminate Hx]]).
  2-17: exfalso; revert Hx; destruct (is_legacy r); discriminate.
  cbv beta iota.
  clear Hun. destruct (if is_legacy r then x =? r_cum r else x =? 0); cbv beta iota;
    [intros H; injection H as <- <- <-; split; [discriminate|split; [exact Hok1|intros; discriminate]]|].
  destruct (r_bsz r <? _);
    [intros H; injection H as <- <- <-; split; [discriminate|split; [exact Hok1|intros; discriminate]]|].
  destruct (read_full s1 _) as [[stored e2] s2] eqn:E2.
  destruct (read_full_gen _ _ _ _ _ Hok1 (dbs_size_nonneg x) E2) as (Hne2 & Hok2 & Hle2 & _).
  destruct e2; try (intros H; injection H as <- <- <-;
                    split; [try discriminate; try exact Hne2|split; [exact Hok2|intros; discriminate]]).
  assert (Hbc : forall cks e3 s3, (if lz4stream_DescriptorFlags_BlockChecksum (r_flags r) then read_u32 s2 else (0, ENil, s2)) = (cks, e3, s3) ->
           e3 <> EOther /\ oksrc s3 /\ (length (s_rem s3) <= length (s_rem s2))%nat).
  { intros cks e3 s3 H. destruct (lz4stream_DescriptorFlags_BlockChecksum (r_flags r)).
    - destruct (read_u32_gen _ _ _ _ Hok2 H) as (H1 & H2 & H3 & _). repeat split; assumption.
    - injection H as <- <- <-. repeat split; try assumption; try discriminate. lia. }
  destruct (if lz4stream_DescriptorFlags_BlockChecksum (r_flags r) then _ else _) as [[cks e3] s3].
  destruct (Hbc _ _ _ eq_refl) as (Hne3 & Hok3 & Hle3). clear Hbc.
  destruct e3; try (intros H; injection H as <- <- <-;
                    split; [try discriminate; try exact Hne3|split; [exact Hok3|intros; discriminate]]).
  destruct (if lz4stream_DataBlockSize_Uncompressed x then _ else _) as [dd|];
    [|intros H; injection H as <- <- <-; split; [discriminate|split; [exact Hok3|intros; discriminate]]].
  destruct (_ && _); intros H; injection H as <- <- <-.
  - split; [discriminate|split; [exact Hok3|intros; discriminate]].
  - split; [discriminate|]. rewrite r_accept_src. split; [exact Hok3|]. intros _. specialize (Hdec1 eq_refl). lia.
Qed.

Lemma r_close_total r r2 e : oksrc (r_src r) -> r_close r = (r2, e) -> e <> EOther.
Proof.
  intros Hok. unfold r_close. destruct (_ || _); [intros H; injection H as _ <-; discriminate|].
  destruct (read_u32 (r_src r)) as [[c e0] s1] eqn:E0.
  destruct (read_u32_gen _ _ _ _ Hok E0) as (Hne0 & _).
  destruct e0; intros H; injection H as _ <-; try discriminate; try (exfalso; apply Hne0; reflexivity).
  destruct (c =? _); discriminate.
Qed.

Lemma writeto_loop_total : forall f r out r' out' e, oksrc (r_src r) -> (length (s_rem (r_src r)) < f)%nat ->
  r_writeto_loop f r out = (r', out', e) -> e <> EOther.
Proof.
  induction f as [|f IH]; intros r out r' out' e Hok Hf H; [lia|].
  rewrite r_writeto_loop_S in H. destruct (r_read_block r) as [[r1 e1] d] eqn:Erb.
  destruct (r_read_block_total _ _ _ _ Hok Erb) as (Hne & Hok1 & Hdec).
  destruct e1; try (injection H as _ _ <-; try discriminate; exact Hne).
  - apply (IH _ _ _ _ _ Hok1 ltac:(specialize (Hdec eq_refl); lia) H).
  - destruct (r_close r1) as [r2 e2] eqn:Ec. injection H as _ _ <-. apply (r_close_total _ _ _ Hok1 Ec).
Qed.

Lemma r_read_loop_S f r want out : r_read_loop (S f) r want out =
  if want <=? 0 then (r, out, ENil) else
  match r_data r with
  | [] =>
    let '(r1, e, d) := r_read_block r in
    match e with
    | ENil =>
      let '(now, later) := take_upto want d [] in
      r_read_loop f (rset_data r1 later) (want - len now) (out ++ now)
    | EEOF =>
      let '(r2, e2) := r_close r1 in
      (match e2 with ENil => rst_next (rset_data r2 []) ENil | _ => rset_data r2 [] end, out, match e2 with ENil => EEOF | _ => e2 end)
    | _ => (r1, out, e)
    end
  | d =>
    let '(now, later) := take_upto want d [] in
    r_read_loop f (rset_data r later) (want - len now) (out ++ now)
  end.
Proof. reflexivity. Qed.

Lemma skipn_nonnil_firstn (l : list Z) want : 0 < want -> skipn (Z.to_nat want) l <> [] ->
  len (firstn (Z.to_nat want) l) = want.
Proof.
  intros Hw Hs. unfold len. rewrite firstn_length.
  assert (Z.to_nat want < length l)%nat.
  { destruct (Nat.lt_ge_cases (Z.to_nat want) (length l)) as [Hlt|Hge]; [exact Hlt|].
    exfalso. apply Hs. apply skipn_all2. exact Hge. }
  lia.
Qed.

Lemma read_loop_total : forall f r want out r' out' e, oksrc (r_src r) ->
  ((want <= 0 /\ (0 < f)%nat) \/
   (length (s_rem (r_src r)) + (match r_data r with [] => 0 | _ => 1 end) < f)%nat) ->
  r_read_loop f r want out = (r', out', e) -> e <> EOther.
Proof.
  induction f as [|f IH]; intros r want out r' out' e Hok Hf H; [lia|].
  rewrite r_read_loop_S in H.
  destruct (want <=? 0) eqn:Ew; [injection H as _ _ <-; discriminate|].
  destruct Hf as [Hf|Hf]; [lia|].
  destruct (r_data r) as [|z dl] eqn:Ed.
  - destruct (r_read_block r) as [[r1 e1] d] eqn:Erb.
    destruct (r_read_block_total _ _ _ _ Hok Erb) as (Hne & Hok1 & Hdec).
    destruct e1; try (injection H as _ _ <-; try discriminate; exact Hne).
    + rewrite take_upto_spec in H. cbn [rrev rev_append app] in H.
      apply (IH (rset_data r1 _) _ _ _ _ _ Hok1) in H; [exact H|]. right.
      cbn [rset_data r_src r_data]. specialize (Hdec eq_refl). destruct (skipn _ d); lia.
    + destruct (r_close r1) as [r2 e2] eqn:Ec. pose proof (r_close_total _ _ _ Hok1 Ec) as Hc.
      injection H as _ _ <-. destruct e2; try discriminate. exact Hc.
  - rewrite take_upto_spec in H. cbn [rrev rev_append app] in H.
    apply (IH (rset_data r _) _ _ _ _ _ Hok) in H; [exact H|]. cbn [rset_data r_src r_data].
    destruct (skipn (Z.to_nat want) (z :: dl)) as [|y later] eqn:Es.
    + right. lia.
    + left. split; [|lia].
      rewrite skipn_nonnil_firstn; [lia|lia|]. rewrite Es. discriminate.
Qed.

Lemma rstep_read_new input n : rstep (new_reader (src_of input)) (RRead n) =
  let '(e, s1, (m, fl, cs)) := parse_headers (S (length input)) (src_of input) in
  match e with
  | ENil =>
    let '(r1', out, e') := r_read_loop (S (length input + 0)) (reader_after_init s1 m fl cs) n [] in
    (rst_check r1' e', RRes (len out) e' out)
  | _ => (rst_next (mkr lz4_newState ENil 1 s1 m (if m =? lz4stream_frameMagic then fl else 0) cs [] [] [] 0) e,
          RRes 0 e [])
  end.
Proof.
  unfold rstep, new_reader, r_init. cbn [r_state r_magic r_src r_flags r_csize r_num r_serr r_content r_data r_dict r_cum].
  change (lz4_newState =? lz4_closedState) with false. change (lz4_newState =? lz4_errorState) with false.
  change (lz4_newState =? lz4_readState) with false.
  change (lz4_newState =? lz4_newState) with true. change (0 <? 0) with false. cbv beta iota.
  change (s_rem (src_of input)) with input.
  destruct (parse_headers (S (length input)) (src_of input)) as [[e s1] [[m fl] cs]].
  destruct e; reflexivity.
Qed.

(* C07 *)
Theorem reader_total : reader_total_stmt.
Proof.
  intros input op r' res Hb H.
  assert (Hok0 : oksrc (src_of input)) by reflexivity.
  destruct op as [conc other|n| | |data].
  - unfold rstep, new_reader in H. cbn [r_state] in H.
    change (lz4_newState =? lz4_newState) with true in H. cbv iota in H.
    destruct other; [|destruct conc]; injection H as _ <-; discriminate.
  - rewrite rstep_read_new in H.
    destruct (parse_headers (S (length input)) (src_of input)) as [[e s1] [[m fl] cs]] eqn:Eph.
    pose proof (hdr_corr Decoded _ _ _ _ _ _ _ Hok0 Hb Eph) as (HA & _ & HC).
    change (s_rem (src_of input)) with input in *.
    specialize (HC ltac:(lia)).
    destruct e; try (injection H as _ <-; try discriminate; exact HC).
    destruct (HA eq_refl) as (Hok1 & _ & _ & Hle1 & _).
    destruct (r_read_loop _ _ _ _) as [[r1' out] e'] eqn:El. injection H as _ <-.
    apply (read_loop_total _ (reader_after_init s1 m fl cs) _ _ _ _ _ Hok1) in El; [exact El|]. right.
    cbn [reader_after_init r_src r_data]. lia.
  - rewrite rstep_writeto_new in H.
    destruct (parse_headers (S (length input)) (src_of input)) as [[e s1] [[m fl] cs]] eqn:Eph.
    pose proof (hdr_corr Decoded _ _ _ _ _ _ _ Hok0 Hb Eph) as (HA & _ & HC).
    change (s_rem (src_of input)) with input in *.
    specialize (HC ltac:(lia)).
    destruct e; try (injection H as _ <-; try discriminate; exact HC).
    destruct (HA eq_refl) as (Hok1 & _ & _ & Hle1 & _).
    destruct (r_writeto_loop _ _ _) as [[r1' out] e'] eqn:El. injection H as _ <-.
    apply (writeto_loop_total _ (reader_after_init s1 m fl cs) _ _ _ _ Hok1) in El; [exact El|].
    cbn [reader_after_init r_src]. lia.
  - unfold rstep in H. injection H as _ <-. exact I.
  - unfold rstep in H. injection H as _ <-. exact I.
Qed.

(* ====================================================================== *)
(* 10. Read with any positive buffer size delivers what WriteTo delivers   *)
(* ====================================================================== *)

Definition fin (e : ecls) : ecls := match e with ENil => EEOF | _ => e end.

(* a Read call in progress (want bytes still to fill, o already in the buffer), then further Reads *)
Definition rcont (n : Z) (U F : nat) (r : reader) (want : Z) (o acc : list Z) : reader * list Z * ecls :=
  let '(r1, out, e) := r_read_loop F r want o in
  match e with
  | ENil => read_until U (rst_check r1 e) n (acc ++ out)
  | _ => (rst_check r1 e, acc ++ out, e)
  end.

Definition Qprop (n : Z) (r1 : reader) (outW1 outW' : list Z) (eW : ecls) : Prop :=
  forall U F want o acc, acc ++ o = outW1 -> 0 < want -> want + len o = n ->
  (length (s_rem (r_src r1)) < F)%nat -> len outW' - len acc <= Z.of_nat U ->
  exists r'', rcont n U F r1 want o acc = (r'', outW', fin eW).

Lemma rset_data_nil r : r_data r = [] -> rset_data r [] = r.
Proof. destruct r. cbn. intros ->. reflexivity. Qed.

Lemma rst_check_nil r : rst_check r ENil = r.
Proof. unfold rst_check. destruct (r_state r =? lz4_errorState); reflexivity. Qed.

Lemma rstep_read_state3 r n : r_state r = lz4_readState ->
  rstep r (RRead n) =
  let '(r1, out, e) := r_read_loop (S (length (s_rem (r_src r)) + length (r_data r))) r n [] in
  (rst_check r1 e, RRes (len out) e out).
Proof. intros H. unfold rstep. rewrite H. reflexivity. Qed.

Lemma read_until_S f r n acc : read_until (S f) r n acc =
  match rstep r (RRead n) with
  | (r1, RRes _ ENil d) => read_until f r1 n (acc ++ d)
  | (r1, RRes _ e d) => (r1, acc ++ d, e)
  | (r1, _) => (r1, acc, EOther)
  end.
Proof. reflexivity. Qed.

Lemma read_until_rcont U r n acc : r_state r = lz4_readState ->
  read_until (S U) r n acc = rcont n U (S (length (s_rem (r_src r)) + length (r_data r))) r n [] acc.
Proof.
  intros H. rewrite read_until_S, rstep_read_state3 by exact H. unfold rcont.
  destruct (r_read_loop _ r n []) as [[r1 out] e]. destruct e; reflexivity.
Qed.

Lemma firstn_len_le (l : list Z) want : 0 <= want -> len (firstn (Z.to_nat want) l) <= want.
Proof. intros H. unfold len. rewrite firstn_length. lia. Qed.

Lemma firstn_short (l : list Z) want : len (firstn (Z.to_nat want) l) < want ->
  firstn (Z.to_nat want) l = l /\ skipn (Z.to_nat want) l = [].
Proof.
  intros H. unfold len in H. rewrite firstn_length in H.
  assert (Hl : (length l <= Z.to_nat want)%nat) by lia.
  split; [apply firstn_all2; exact Hl|apply skipn_all2; exact Hl].
Qed.

Lemma r_read_loop_pending f r want out : 0 < want -> r_data r <> [] ->
  r_read_loop (S f) r want out =
  let '(now, later) := take_upto want (r_data r) [] in
  r_read_loop f (rset_data r later) (want - len now) (out ++ now).
Proof.
  intros Hw Hd. rewrite r_read_loop_S. destruct (want <=? 0) eqn:E; [lia|].
  destruct (r_data r); [contradiction|reflexivity].
Qed.

Lemma r_read_loop_empty f r want out : 0 < want -> r_data r = [] ->
  r_read_loop (S f) r want out =
  let '(r1, e, d) := r_read_block r in
  match e with
  | ENil =>
    let '(now, later) := take_upto want d [] in
    r_read_loop f (rset_data r1 later) (want - len now) (out ++ now)
  | EEOF =>
    let '(r2, e2) := r_close r1 in
    (match e2 with ENil => rst_next (rset_data r2 []) ENil | _ => rset_data r2 [] end, out, match e2 with ENil => EEOF | _ => e2 end)
  | _ => (r1, out, e)
  end.
Proof.
  intros Hw Hd. rewrite r_read_loop_S. destruct (want <=? 0) eqn:E; [lia|]. rewrite Hd. reflexivity.
Qed.

Lemma rset_data_twice r a b : rset_data (rset_data r a) b = rset_data r b.
Proof. reflexivity. Qed.

Lemma r_read_loop_done f r out : r_read_loop (S f) r 0 out = (r, out, ENil).
Proof. reflexivity. Qed.

Lemma writeto_loop_mono : forall f r out r' out' e, r_writeto_loop f r out = (r', out', e) -> len out <= len out'.
Proof.
  induction f as [|f IH]; intros r out r' out' e H.
  { cbn [r_writeto_loop] in H. injection H as _ <- _. lia. }
  rewrite r_writeto_loop_S in H. destruct (r_read_block r) as [[r1 e1] d].
  destruct e1; try (injection H as _ <- _; lia).
  - apply IH in H. rewrite len_app in H. pose proof (len_nonneg d). lia.
  - destruct (r_close r1) as [r2 e2]. injection H as _ <- _. lia.
Qed.

Lemma drain n r1 outW1 outW' eW : 0 < n -> r_state r1 = lz4_readState -> r_data r1 = [] ->
  len outW1 <= len outW' -> Qprop n r1 outW1 outW' eW ->
  forall k p, (length p <= k)%nat -> forall acc U, acc ++ p = outW1 -> 1 + len outW' - len acc <= Z.of_nat U ->
  exists r'', read_until U (rset_data r1 p) n acc = (r'', outW', fin eW).
Proof.
  intros Hn Hst Hdat Hmono HQ.
  assert (Hbase : forall acc U, acc = outW1 -> 1 + len outW' - len acc <= Z.of_nat U ->
            exists r'', read_until U r1 n acc = (r'', outW', fin eW)).
  { intros acc U -> HU. destruct U as [|U]; [lia|].
    rewrite read_until_rcont by exact Hst. rewrite Hdat. cbn [length].
    apply HQ; try lia. { apply app_nil_r. } rewrite len_nil. lia. }
  induction k as [|k IH]; intros p Hp acc U Hacc HU.
  - destruct p; [|cbn [length] in Hp; lia]. rewrite rset_data_nil by exact Hdat.
    apply Hbase; [|exact HU]. rewrite app_nil_r in Hacc. exact Hacc.
  - destruct p as [|z p'] eqn:Ep.
    { rewrite rset_data_nil by exact Hdat. apply Hbase; [|exact HU]. rewrite app_nil_r in Hacc. exact Hacc. }
    rewrite <- Ep in *. assert (Hpne : p <> []) by (rewrite Ep; discriminate).
    assert (Hlacc : len acc + len p = len outW1) by (rewrite <- Hacc, len_app; reflexivity).
    assert (Hlp : 0 < len p) by (rewrite Ep, len_cons; pose proof (len_nonneg p'); lia).
    destruct U as [|U]; [lia|].
    assert (Hst' : r_state (rset_data r1 p) = lz4_readState) by exact Hst.
    rewrite read_until_S, rstep_read_state3 by exact Hst'.
    cbn [rset_data r_src r_data]. cbn [Nat.add]. rewrite r_read_loop_pending by (try exact Hn; exact Hpne).
    cbn [rset_data r_data]. rewrite take_upto_spec. cbn [rrev rev_append app]. rewrite rset_data_twice.
    set (now := firstn (Z.to_nat n) p). set (later := skipn (Z.to_nat n) p).
    assert (Hnl : now ++ later = p) by apply firstn_skipn.
    pose proof (firstn_len_le p n ltac:(lia)) as Hle. fold now in Hle.
    destruct (Z.eq_dec (len now) n) as [Heq|Hneq].
    + (* the buffer is full: this Read returns *)
      replace (n - len now) with 0 by lia.
      assert (HF : exists F', (length (s_rem (r_src r1)) + length p)%nat = S F').
      { exists (length (s_rem (r_src r1)) + length p - 1)%nat. unfold len in Hlp. lia. }
      destruct HF as (F' & ->). rewrite r_read_loop_done. rewrite rst_check_nil.
      apply (IH later).
      * assert (length now + length later = length p)%nat by (rewrite <- Hnl, app_length; reflexivity).
        unfold len in Heq. lia.
      * rewrite <- app_assoc, Hnl. exact Hacc.
      * rewrite len_app. lia.
    + (* the pending bytes are exhausted inside this Read: it goes on with the next block *)
      destruct (firstn_short p n ltac:(fold now; lia)) as (Hnow & Hlater). fold now in Hnow. fold later in Hlater.
      rewrite Hlater, Hnow. rewrite rset_data_nil by exact Hdat.
      pose proof (HQ U (length (s_rem (r_src r1)) + length p)%nat (n - len p) p acc Hacc) as HQ'.
      rewrite Hnow in Hle, Hneq.
      destruct HQ' as (r'' & HQ'); try lia. { unfold len in Hlp. lia. }
      exists r''. unfold rcont in HQ'.
      destruct (r_read_loop _ r1 (n - len p) p) as [[r1' out1] e1]. destruct e1; exact HQ'.
Qed.

Lemma read_eq_core n : 0 < n -> forall fW r outW rW outW' eW,
  r_writeto_loop fW r outW = (rW, outW', eW) -> eW <> EOther ->
  oksrc (r_src r) -> r_state r = lz4_readState -> r_data r = [] ->
  Qprop n r outW outW' eW.
Proof.
  intros Hn. induction fW as [|fW IH]; intros r outW rW outW' eW HW HeW Hok Hst Hdat.
  { cbn [r_writeto_loop] in HW. injection HW as _ _ <-. exfalso. apply HeW. reflexivity. }
  rewrite r_writeto_loop_S in HW.
  destruct (r_read_block r) as [[r1 e1] d] eqn:Erb.
  destruct (r_read_block_total _ _ _ _ Hok Erb) as (Hne1 & Hok1 & Hdec).
  destruct (r_read_block_fields _ _ _ _ Erb) as (Hst1 & _ & Hdat1 & _).
  rewrite Hst in Hst1. rewrite Hdat in Hdat1.
  intros U F want o acc Hacc Hw Hwn HF HU.
  destruct F as [|F]; [lia|]. unfold rcont.
  rewrite r_read_loop_empty by assumption. rewrite Erb.
  assert (Hcase : e1 = ENil \/ e1 = EEOF \/ (e1 <> ENil /\ e1 <> EEOF)).
  { destruct e1; try (left; reflexivity); try (right; left; reflexivity); right; right; split; discriminate. }
  destruct Hcase as [->|[->|[Hn1 Hn2]]].
  - (* a block *)
    specialize (Hdec eq_refl).
    pose proof (writeto_loop_mono _ _ _ _ _ _ HW) as Hmono.
    pose proof (IH _ _ _ _ _ HW HeW Hok1 Hst1 Hdat1) as HQ1.
    rewrite take_upto_spec. cbn [rrev rev_append app].
    set (now := firstn (Z.to_nat want) d). set (later := skipn (Z.to_nat want) d).
    assert (Hnl : now ++ later = d) by apply firstn_skipn.
    pose proof (firstn_len_le d want ltac:(lia)) as Hle. fold now in Hle.
    destruct (Z.eq_dec (len now) want) as [Heq|Hneq].
    + replace (want - len now) with 0 by lia.
      destruct F as [|F]; [lia|]. rewrite r_read_loop_done. rewrite rst_check_nil.
      apply (drain n r1 (outW ++ d) outW' eW Hn Hst1 Hdat1 Hmono HQ1 (length later) later (le_n _)).
      * rewrite <- !app_assoc. rewrite Hnl. rewrite app_assoc, Hacc. reflexivity.
      * rewrite !len_app. pose proof (len_nonneg o). lia.
    + destruct (firstn_short d want ltac:(fold now; lia)) as (Hnow & Hlater). fold now in Hnow. fold later in Hlater.
      rewrite Hlater, Hnow. rewrite rset_data_nil by exact Hdat1. rewrite Hnow in Hle, Hneq.
      apply (HQ1 U F (want - len d) (o ++ d) acc).
      * rewrite app_assoc, Hacc. reflexivity.
      * lia.
      * rewrite len_app. lia.
      * lia.
      * exact HU.
  - (* the end mark *)
    destruct (r_close r1) as [r2 e2]. injection HW as _ <- <-. rewrite Hacc.
    destruct e2; eexists; reflexivity.
  - (* an error *)
    assert (HW' : (r1, outW, e1) = (rW, outW', eW)).
    { destruct e1; try (exfalso; apply Hn1; reflexivity); try (exfalso; apply Hn2; reflexivity); exact HW. }
    injection HW' as _ <- <-. rewrite <- Hacc.
    destruct e1; try (exfalso; apply Hn1; reflexivity); try (exfalso; apply Hn2; reflexivity); eexists; reflexivity.
Qed.

Theorem reader_read_eq_writeto : reader_read_eq_writeto_stmt.
Proof.
  intros input n r' m e out Hb Hn H He.
  assert (Hok0 : oksrc (src_of input)) by reflexivity.
  rewrite rstep_writeto_new in H. cbn [Nat.add]. rewrite read_until_S. rewrite rstep_read_new.
  destruct (parse_headers (S (length input)) (src_of input)) as [[e0 s1] [[m0 fl] cs]] eqn:Eph.
  pose proof (hdr_corr Decoded _ _ _ _ _ _ _ Hok0 Hb Eph) as (HA & _ & _).
  change (s_rem (src_of input)) with input in *.
  assert (Hcase : e0 = ENil \/ e0 <> ENil) by (destruct e0; try (left; reflexivity); right; discriminate).
  destruct Hcase as [-> | Hne].
  2:{ destruct e0; try (exfalso; apply Hne; reflexivity); injection H as _ _ <- <-; eexists; reflexivity. }
  destruct (HA eq_refl) as (Hok1 & _ & _ & Hle1 & _).
  destruct (r_writeto_loop (S (length input)) (reader_after_init s1 m0 fl cs) []) as [[rW outW'] eW] eqn:EW.
  injection H as _ _ <- <-.
  pose proof (read_eq_core n Hn _ _ _ _ _ _ EW He Hok1 eq_refl eq_refl) as HQ.
  specialize (HQ (length input + S (length outW'))%nat (S (length input + 0)) n [] [] eq_refl Hn).
  destruct HQ as (r'' & HQ).
  - rewrite len_nil. lia.
  - cbn [reader_after_init r_src]. lia.
  - rewrite len_nil. unfold len. lia.
  - exists r''. unfold rcont in HQ. cbn [app] in HQ.
    destruct (r_read_loop _ _ n []) as [[r1' out1] e1]. destruct e1; exact HQ.
Qed.


(* ====================================================================== *)
(* 11. legacy frames: a further difference between Reader and specification *)
(* ====================================================================== *)
(* The Reader refuses a legacy block whose STORED size exceeds 8 MiB before reading it, the
   specification bounds the DECODED size: 8 MiB of literals (stored in 8 MiB + 32898 bytes, what
   a compressor emits for incompressible data) is accepted by the specification only. *)

Lemma u32le_le32_bytes m tl : 0 <= m < 4294967296 -> u32le (le32_bytes m ++ tl) = Some (m, tl).
Proof.
  intros Hm. unfold le32_bytes. cbn [app u32le]. f_equal. f_equal. apply le32_roundtrip. exact Hm.
Qed.

Lemma legacy_oversize_rejected w tail : 8388608 < w < 2147483648 -> w <> MAGIC_LEGACY ->
  snd (rstep (new_reader (src_of (le32_bytes MAGIC_LEGACY ++ le32_bytes w ++ tail))) RWriteTo)
  = RRes 0 EBlkSize [].
Proof.
  intros Hw Hnm. rewrite rstep_writeto_new. rewrite parse_headers_S'. unfold src_of.
  rewrite read_u32_word by (unfold MAGIC_LEGACY; lia). cbv beta iota.
  change (MAGIC_LEGACY =? lz4stream_frameMagic) with false.
  change (MAGIC_LEGACY =? lz4stream_frameMagicLegacy) with true. cbn [orb]. cbv iota.
  rewrite r_writeto_loop_S, r_read_block_eq. cbv zeta.
  change (is_legacy (reader_after_init _ MAGIC_LEGACY legacy_flags 0)) with true. cbv iota.
  cbn [reader_after_init r_src]. rewrite read_u32_word by lia.
  cbn [skip_legacy_magic].
  change lz4stream_frameMagicLegacy with MAGIC_LEGACY.
  destruct (w =? MAGIC_LEGACY) eqn:E1; [lia|].
  cbn [reader_after_init r_cum]. destruct (w =? 0) eqn:E2; [lia|].
  rewrite dbs_size by lia. rewrite Z.mod_small by lia.
  change (r_bsz _) with 8388608.
  destruct (8388608 <? w) eqn:E3; [|lia]. cbv beta iota zeta. reflexivity.
Qed.

Lemma spec_legacy_cons f strict a l content : spec_legacy (S f) strict (a :: l) content =
  match u32le (a :: l) with
  | None => None
  | Some (w, r0) =>
    if w =? MAGIC_LEGACY then spec_legacy f strict r0 content
    else if negb strict && (2147483648 <=? w) then
      match splitn (w mod 2147483648) r0 [] with
      | None => None
      | Some (stored, r1) => if 8388608 <? len stored then None else spec_legacy f strict r1 (content ++ stored)
      end
    else
      match splitn w r0 [] with
      | None => None
      | Some (stored, r1) =>
        match (match stored with [] => Some [] | _ => spec_decode_x stored [] 8388608 end) with
        | None => None
        | Some dec => spec_legacy f strict r1 (content ++ dec)
        end
      end
  end.
Proof. reflexivity. Qed.

Lemma len_ext v : 0 <= v -> len (ext v) = v / 255 + 1.
Proof.
  intros Hv. unfold ext. rewrite len_app. unfold len. rewrite repeat_length. cbn [length].
  rewrite Z2Nat.id by (apply Z.div_pos; lia). lia.
Qed.

Lemma legacy_oversize_accepted l : bytes l -> len l = 8388608 ->
  let blk := enc_last l in
  let input := le32_bytes MAGIC_LEGACY ++ le32_bytes (len blk) ++ blk in
  8388608 < len blk < 2147483648 /\ len blk <> MAGIC_LEGACY /\
  frame_spec Decoded false input = Some (l, len input).
Proof.
  intros Hb Hl blk input.
  assert (Hlb : len blk = 8421506).
  { unfold blk, enc_last. rewrite len_cons, len_app, Hl. unfold extl.
    change (8388608 <? 15) with false. cbv iota. rewrite len_ext by lia. reflexivity. }
  split; [lia|]. split; [unfold MAGIC_LEGACY; lia|].
  assert (Hbb : bytes blk) by (apply BlockTheorems.bytes_enc_last; exact Hb).
  unfold frame_spec. rewrite frame_spec_fuel_S. unfold input.
  rewrite u32le_le32_bytes by (unfold MAGIC_LEGACY; lia).
  change ((SKIP_LO <=? MAGIC_LEGACY) && (MAGIC_LEGACY <=? SKIP_HI)) with false. cbv iota.
  change (MAGIC_LEGACY =? MAGIC_LEGACY) with true. cbv iota.
  remember (length (le32_bytes (len blk) ++ blk)) as f0 eqn:Ef0.
  unfold le32_bytes at 1. cbn [app]. rewrite spec_legacy_cons.
  change (len blk mod 256 :: (len blk / 256) mod 256 :: (len blk / 65536) mod 256 :: (len blk / 16777216) mod 256 :: blk)
    with (le32_bytes (len blk) ++ blk).
  rewrite u32le_le32_bytes by lia.
  destruct (len blk =? MAGIC_LEGACY) eqn:E1; [unfold MAGIC_LEGACY in E1; lia|].
  cbn [negb andb]. destruct (2147483648 <=? len blk) eqn:E2; [lia|].
  rewrite splitn_spec. rewrite Z.ltb_irrefl. cbn [rrev rev_append app].
  rewrite BlockFormatProofs.firstn_len, BlockFormatProofs.skipn_len.
  assert (Hdec : match blk with [] => Some [] | _ :: _ => spec_decode_x blk [] 8388608 end = Some l).
  { rewrite spec_decode_x_eq by exact Hbb. unfold spec_decode, blk, enc_last.
    change (16 * nib (len l) :: extl (len l) ++ l) with (enc_last l).
    cbn [rev]. rewrite BlockFormatProofs.sdec_last. cbv zeta.
    rewrite rev_append_rev, app_nil_r.
    replace (len (rev l)) with (len l) by (unfold len; rewrite rev_length; reflexivity).
    rewrite Hl. rewrite Z.ltb_irrefl. cbn [option_map]. rewrite rev_involutive. reflexivity. }
  rewrite Hdec. cbn [app].
  assert (Hf0 : exists f1, f0 = S f1).
  { exists (pred f0). rewrite Ef0, app_length. cbn [le32_bytes length]. lia. }
  destruct Hf0 as (f1 & ->). cbn [spec_legacy]. f_equal. all: try (f_equal; rewrite len_nil; lia).
Qed.

Print Assumptions reader_sound_fixed.
Print Assumptions reader_complete_fixed.
Print Assumptions reader_sound_fixed_small.
Print Assumptions reader_complete_fixed_small.
Print Assumptions reader_total.
Print Assumptions reader_read_eq_writeto.
Print Assumptions reader_sound_refuted.
Print Assumptions reader_complete_refuted.
Print Assumptions legacy_oversize_rejected.
Print Assumptions legacy_oversize_accepted.

Check (reader_total : reader_total_stmt).
Check (reader_read_eq_writeto : reader_read_eq_writeto_stmt).
