(* Lz4cRoundtripSpec.v — C20: "compressing any file with the lz4c command and uncompressing the result
   restores the original bytes".  Proofs: Lz4cRoundtripProofs.v *)
From LZ4V Require Import Base GenBlock GenStream GenLz4 GenLz4c XXH32 BlockFormat FrameSpec FrameImpl Writer Reader FrameTheoremsSpec Lz4c Lz4cSpec.

(* one `lz4c uncompress z1 z2 ...` (a single Reader reused through Reset for all its arguments) over the
   outputs of one `lz4c compress <flags> f1 f2 ...` restores every file, with a nil error each *)
Definition lz4c_roundtrip_stmt : Prop :=
  forall fl files zs r0, valid_size (f_size fl) -> Forall bytes files -> Forall (fun f => len f < 2 ^ 64) files ->
  cmd_compress fl files = CmdOk zs ->
  r0 = new_reader (src_of []) ->
  cmd_uncompress r0 zs = map (fun f => (f, ENil)) files.

(* the same when the .lz4 files come from DIFFERENT compress commands (different flags, hence
   different block sizes and checksum settings), in any order: the reused Reader carries nothing
   over from one file to the next *)
Definition lz4c_roundtrip_mixed_stmt : Prop :=
  forall (jobs : list (cflags * list Z)) r0,
  Forall (fun j => valid_size (f_size (fst j)) /\ bytes (snd j) /\ len (snd j) < 2 ^ 64) jobs ->
  r0 = new_reader (src_of []) ->
  forall zs, Forall2 (fun j z => cmd_compress (fst j) [snd j] = CmdOk [z]) jobs zs ->
  cmd_uncompress r0 zs = map (fun j => (snd j, ENil)) jobs.

(* stdin/stdout *)
Definition lz4c_roundtrip_stdio_stmt : Prop :=
  forall fl data z, valid_size (f_size fl) -> bytes data -> len data < 2 ^ 64 ->
  cmd_compress_stdio fl data = CmdOk [z] ->
  cmd_uncompress (new_reader (src_of [])) [z] = [(data, ENil)].
