(* CompressFastTable.v — the concrete hash table of the fast compressor (type Compressor):
   65536 uint16 entries plus an in-use bitmap.  reset() clears ONLY the bitmap, so the entries
   keep whatever a previous use (or the pool) left in them: [stale] is that arbitrary content,
   [vals] the entries written during this call, [used] the bitmap. *)
From Coq Require Import FMapPositive.
From LZ4V Require Import Base GenBlock BlockFormat CompressFast.

Record ftable := mkft { vals : PositiveMap.t Z; used : PositiveMap.t unit; stale : Z -> Z }.

Definition fkey (h : Z) : positive := Z.to_pos (Z.land h (lz4block_htSize - 1) + 1).

(* func (c *Compressor) get(h uint32, si int) int *)
Definition ft_get (tb : ftable) (h si : Z) : Z :=
  let k := fkey h in
  let i := if PositiveMap.mem k (used tb)
           then match PositiveMap.find k (vals tb) with
                | Some v => v
                | None => stale tb (Z.land h (lz4block_htSize - 1)) mod 65536
                end
           else 0 in
  let i := i + Z.ldiff si lz4block_winMask in
  if si <=? i then i - lz4block_winSize else i.

(* func (c *Compressor) put(h uint32, si int) *)
Definition ft_put (tb : ftable) (h si : Z) : ftable :=
  let k := fkey h in
  mkft (PositiveMap.add k (si mod 65536) (vals tb)) (PositiveMap.add k tt (used tb)) (stale tb).

(* c.reset(): the bitmap is cleared, the entries stay *)
Definition ft_reset (st : Z -> Z) : ftable := mkft (PositiveMap.empty Z) (PositiveMap.empty unit) st.

(* source bytes held in a map for the executable instance *)
Definition src_map := PositiveMap.t Z.
Fixpoint load_src (l : list Z) (i : positive) (m : src_map) : src_map :=
  match l with [] => m | b :: r => load_src r (Pos.succ i) (PositiveMap.add i b m) end.
Definition src_get (m : src_map) (i : Z) : Z :=
  if i <? 0 then 0 else match PositiveMap.find (Z.to_pos (i + 1)) m with Some b => b | None => 0 end.

(* Compressor.CompressBlock(src, dst) with len(dst) = dstlen, on an object whose table holds [st] *)
Definition compress_fast_list (src : list Z) (st : Z -> Z) (dstlen : Z) : cres :=
  let m := load_src src 1%positive (PositiveMap.empty Z) in
  compress_fast (src_get m) (len src) ftable ft_get ft_put (ft_reset st) dstlen.
