(* C10 — Every emitted block is valid under the strict LZ4 block specification. *)
From LZ4V Require Import Base GenBlock BlockFormat CompressFast CompressFastTable CompressHC CompressHCTop BlockTheoremsSpec BlockTheorems.
(* for ANY destination size: a positive result parses back to a parse p with b = encode p that is
   well formed and strict (offsets 1..65535 inside the output, final literals-only sequence, last
   five bytes literals, last match at least 12 bytes before the end) and decodes to the source *)
Theorem C10_fast : forall st, contract_stmt (fun src dstlen => compress_fast_list src st dstlen).
Proof. exact fast_contract. Qed.
Print Assumptions C10_fast.
Theorem C10_hc : forall depth, 0 <= depth -> contract_stmt (fun src dstlen => compress_hc_list src depth dstlen).
Proof. exact hc_contract. Qed.
Print Assumptions C10_hc.
