(* C10 — Every emitted block is valid under the strict LZ4 block specification. *)
From LZ4V Require Import Base GenBlock BlockFormat CompressFast CompressFastTable CompressHC CompressHCTop BlockTheoremsSpec BlockTheorems.
(* for ANY destination size: a positive result parses back to a parse p with b = encode p that is
   well formed and strict (offsets 1..65535 inside the output, final literals-only sequence, last
   five bytes literals, last match at least 12 bytes before the end) and decodes to the source *)
Theorem C10_fast : forall st, contract_stmt (fun src dstlen => compress_fast_list src st dstlen).
Proof. exact fast_contract. Qed.
Print Assumptions C10_fast.
Theorem C10_hc : forall depth, 0 <= depth -> contract_stmt (fun src dstlen => compress_hc_list src depth dstlen).
Proof. exact hc_contract. Qed.
Print Assumptions C10_hc.

(* ---- the sequence-emission code of the translated fast compressor (GenCompressBodyLoop.v) ----
   from `if di >= len(dst)` to the end of "Encode match length part 2": for any state with literal length lL,
   reduced match length mL, offset off, anchor a and cursor di0, the code takes the error return EXACTLY when
   the sequence does not fit (the model's ser_seqs test), and otherwise leaves dst = ... ++ enc_seq s ++ ...
   with s = (src[a:a+lL], off, mL+4), di advanced by the encoded size and anchor = si (emit_ok): the bytes the
   code writes for a sequence are the block format's encoding of that sequence.  (`emit` is this segment of the
   generated function with its continuation left open; transcribed, see GenCompressBodyTie.v.) *)
From LZ4V Require Import GoT GenCompressBody GenCompressBodyProofs GenCompressBodyLoop.
Theorem C10_translated_sequence_emission :
  forall (src ssp : list Z) (dl dsp : Z), 0 <= dsp -> zlen src + dl + dsp < 2 ^ 61 -> 0 <= dl ->
  forall (fuel : nat) (K : stmt) (s : state) (M : list Z) (a lL off mL di0 si : Z),
    frame src ssp dl dsp s -> m_dst s = M -> zlen M = dl + dsp ->
    f_di s = di0 -> f_lLen s = lL -> f_mLen s = mL -> f_off s = off -> f_anchor s = a -> f_si s = si ->
    0 <= di0 -> 0 <= lL -> 0 <= mL < 2 ^ 61 -> 0 <= a -> a + lL <= zlen src -> 0 <= off < 65536 ->
    (Z.to_nat dl < fuel)%nat ->
    if dl <? di0 + seq_size (the_seq src a lL off mL)
    then err_exit (emit fuel K s)
    else exists s' : state, emit fuel K s = K s' /\ frame src ssp dl dsp s' /\ keeps s s' /\
                            emit_ok src M a lL off mL di0 si s'.
Proof. exact emit_exec. Qed.
Print Assumptions C10_translated_sequence_emission.

(* "match found" of the translated main loop — literal length, backward extension, forward extension, reduced
   match length, sequence emission — is the model's `fseq`: the error return exactly when the model's sequence
   does not fit, else dst = ... ++ enc_seq sq ++ ..., di advanced by its size, anchor = si = the model's end of
   match (found_ok).  The statement is GenCompressBodySearch.found_exec's, taken verbatim (it spells out the
   translated segment, some sixty lines). *)
From LZ4V Require Import GenCompressBodySearch.
Theorem C10_translated_match_found : ltac:(let t := type of found_exec in exact t).
Proof. exact found_exec. Qed.
Print Assumptions C10_translated_match_found.

(* with the equality of the whole translated method and the model (C11_translated_equals_model): every block the
   TRANSLATED fast compressor returns parses back strictly (translated_result: parse_block, wf_parse, strict) *)
From LZ4V Require Import GenCompressBodyMain GenCompressBodyCorollaries.
Theorem C10_translated_fast_strict : translated_contract_stmt.
Proof. exact translated_contract. Qed.
Print Assumptions C10_translated_fast_strict.
