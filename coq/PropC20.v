(* C20 — The lz4c command round-trips files and its flags do what they say. *)
From LZ4V Require Import Base GenBlock GenLz4c BlockFormat FrameSpec FrameImpl Writer Reader FrameTheoremsSpec Lz4c Lz4cSpec Lz4cProofs.
(* each flag feeds the option its usage text names, with the polarity the text states; the level
   switch is evaluated after the flags are parsed (facts regenerated from compress.go on every run) *)
Theorem C20_flags : lz4c_flags_stmt.       Proof. exact lz4c_flags. Qed.
Print Assumptions C20_flags.
Theorem C20_usage : lz4c_usage_stmt.       Proof. exact lz4c_usage. Qed.
Print Assumptions C20_usage.
Theorem C20_options : lz4c_opts_stmt.      Proof. exact lz4c_opts_ok. Qed.
Print Assumptions C20_options.
(* any number of files: every .lz4 file is the frame of its file for those options *)
Theorem C20_compress : lz4c_compress_stmt. Proof. exact lz4c_compress. Qed.
Print Assumptions C20_compress.
Theorem C20_stdio : lz4c_stdio_stmt.       Proof. exact lz4c_stdio. Qed.
Print Assumptions C20_stdio.
(* uncompressing restores the bytes: ONE `lz4c uncompress` (a single Reader reused through Reset for
   all its arguments) over the outputs of one compress command, over outputs of DIFFERENT compress
   commands (different flags) in any order, and through stdin/stdout *)
From LZ4V Require Import Lz4cRoundtripSpec Lz4cRoundtripProofs.
Theorem C20_roundtrip : lz4c_roundtrip_stmt.              Proof. exact lz4c_roundtrip. Qed.
Print Assumptions C20_roundtrip.
Theorem C20_roundtrip_mixed : lz4c_roundtrip_mixed_stmt.  Proof. exact lz4c_roundtrip_mixed. Qed.
Print Assumptions C20_roundtrip_mixed.
Theorem C20_roundtrip_stdio : lz4c_roundtrip_stdio_stmt.  Proof. exact lz4c_roundtrip_stdio. Qed.
Print Assumptions C20_roundtrip_stdio.
