(* BlockTheorems.v — proofs of the statements of BlockTheoremsSpec.v.  No axioms. *)
From Coq Require Import FMapPositive ZifyBool.
From LZ4V Require Import Base GenBlock BlockFormat BlockFormatProofs BlockExec BlockExecProofs
  DecodePortable DecodePortableProofs DecodeAsm DecodeAsmProofs
  CompressFast CompressFastTable CompressHC CompressHCTop CompressSpec Bound
  CompressFastProofs CompressHCProofs CompressHCTermination BlockTheoremsSpec.

Local Ltac Zify.zify_post_hook ::= Z.div_mod_to_equations.

(* ------------------------------------------------------------------------------------------ *)
(* decoders: exact / safe / independent / equivalent                                           *)
(* ------------------------------------------------------------------------------------------ *)

(* the shape shared by asm_refines_spec and portable_refines_spec *)
Definition refines (dec : decoder) : Prop :=
  forall src dst0 dict, bytes src ->
  match dec src dst0 dict, spec_decode_x src dict (len dst0) with
  | DOk n dst', Some out => n = len out /\ firstn (length out) dst' = out /\ length dst' = length dst0
  | DErr, None => True
  | _, _ => False
  end.

Lemma refines_exact dec : refines dec -> exact_stmt dec.
Proof.
  intros Href src dst0 dict Hb. specialize (Href src dst0 dict Hb).
  rewrite spec_decode_x_eq in Href by exact Hb.
  destruct (dec src dst0 dict) as [n dst'|]; destruct (spec_decode src dict (len dst0)) as [out|];
    cbn [obs obs_spec]; try contradiction; try reflexivity.
  destruct Href as (Hn & Hf & _). subst n. unfold len. rewrite Nat2Z.id. rewrite Hf. reflexivity.
Qed.

Lemma refines_safe dec : refines dec -> safe_stmt dec.
Proof.
  intros Href src dst0 dict n dst' Hb E. specialize (Href src dst0 dict Hb). rewrite E in Href.
  destruct (spec_decode_x src dict (len dst0)) as [out|]; [|contradiction].
  destruct Href as (Hn & Hf & Hl). split; [|exact Hl].
  apply (f_equal (@length Z)) in Hf. rewrite firstn_length in Hf. unfold len in *. lia.
Qed.

Theorem asm_exact : exact_stmt decode_asm.
Proof. apply refines_exact. exact asm_refines_spec. Qed.
Theorem portable_exact : exact_stmt decode_portable.
Proof. apply refines_exact. exact portable_refines_spec. Qed.

Theorem asm_safe : safe_stmt decode_asm.
Proof. apply refines_safe. exact asm_refines_spec. Qed.
Theorem portable_safe : safe_stmt decode_portable.
Proof. apply refines_safe. exact portable_refines_spec. Qed.

Lemma len_eq_of_length {A B} (a : list A) (b : list B) : length a = length b -> len a = len b.
Proof. unfold len. intros ->. reflexivity. Qed.

Lemma exact_independent dec : exact_stmt dec -> independent_stmt dec.
Proof.
  intros Hex src dstA dstB dict Hb El.
  rewrite (Hex src dstA dict Hb), (Hex src dstB dict Hb).
  rewrite (len_eq_of_length dstA dstB El). reflexivity.
Qed.

Theorem asm_independent : independent_stmt decode_asm.
Proof. apply exact_independent. exact asm_exact. Qed.
Theorem portable_independent' : independent_stmt decode_portable.
Proof. apply exact_independent. exact portable_exact. Qed.

Theorem decoders_equiv : equiv_stmt.
Proof.
  intros src dstA dstB dict Hb El.
  rewrite (asm_exact src dstA dict Hb), (portable_exact src dstB dict Hb).
  rewrite (len_eq_of_length dstA dstB El). reflexivity.
Qed.

(* ------------------------------------------------------------------------------------------ *)
(* the encoding of a well-formed parse is a byte string                                        *)
(* ------------------------------------------------------------------------------------------ *)

Lemma bytes_repeat255 k : bytes (repeat 255 k).
Proof. induction k as [|k IH]; cbn [repeat]; constructor; [unfold is_byte; lia|exact IH]. Qed.

Lemma bytes_ext v : 0 <= v -> bytes (ext v).
Proof.
  intros Hv. unfold ext. apply bytes_app. split; [apply bytes_repeat255|].
  constructor; [unfold is_byte; lia|constructor].
Qed.

Lemma bytes_extl v : 0 <= v -> bytes (extl v).
Proof.
  intros Hv. unfold extl. destruct (v <? 15) eqn:E; [constructor|]. apply bytes_ext. lia.
Qed.

Lemma bytes_enc_seq s : wf_seq s -> bytes (enc_seq s).
Proof.
  intros (Hb & Ho & Hm). unfold enc_seq.
  pose proof (len_nonneg (lits s)) as Hl.
  pose proof (nib_range (len (lits s)) Hl) as Hn1.
  pose proof (nib_range (mlen s - 4) ltac:(lia)) as Hn2.
  constructor; [unfold is_byte; lia|].
  apply bytes_app. split; [apply bytes_extl; lia|].
  apply bytes_app. split; [exact Hb|].
  apply bytes_app. split; [|apply bytes_extl; lia].
  constructor; [unfold is_byte; lia|]. constructor; [unfold is_byte; lia|constructor].
Qed.

Lemma bytes_enc_last l : bytes l -> bytes (enc_last l).
Proof.
  intros Hb. unfold enc_last. pose proof (len_nonneg l) as Hl.
  pose proof (nib_range (len l) Hl) as Hn.
  constructor; [unfold is_byte; lia|].
  apply bytes_app. split; [apply bytes_extl; lia|exact Hb].
Qed.

Lemma bytes_flat_enc ss : Forall wf_seq ss -> bytes (flat_map enc_seq ss).
Proof.
  induction 1 as [|s tl Hs _ IH]; cbn [flat_map]; [constructor|].
  apply bytes_app. split; [apply bytes_enc_seq; exact Hs|exact IH].
Qed.

Theorem encode_bytes : encode_bytes_stmt.
Proof.
  intros [ss last] (Hss & Hl). cbn [fst snd] in *. unfold encode. cbn [fst snd].
  apply bytes_app. split; [apply bytes_flat_enc; exact Hss|apply bytes_enc_last; exact Hl].
Qed.

(* ------------------------------------------------------------------------------------------ *)
(* parse_block inverts encode                                                                  *)
(* ------------------------------------------------------------------------------------------ *)

Lemma parse_block_seq f s rest acc : wf_seq s ->
  parse_block (S f) (enc_seq s ++ rest) acc = parse_block f rest (s :: acc).
Proof.
  intros (Hb & Ho & Hm).
  unfold enc_seq. cbn [app parse_block].
  pose proof (len_nonneg (lits s)) as Hl.
  rewrite tok_div, tok_mod by (apply nib_range; lia).
  rewrite <- !app_assoc.
  rewrite read_len_enc by lia.
  rewrite len_app.
  match goal with |- context [len (lits s) + len ?t <? len (lits s)] =>
    pose proof (len_nonneg t); replace (len (lits s) + len t <? len (lits s)) with false by lia end.
  rewrite firstn_len_app, skipn_len_app.
  cbn [app].
  rewrite off_le by lia.
  rewrite read_len_enc by lia.
  replace (mlen s - 4 + 4) with (mlen s) by lia.
  destruct s as [l o m]. reflexivity.
Qed.

Lemma parse_block_last f l acc : parse_block (S f) (enc_last l) acc = Some (rev acc, l).
Proof.
  unfold enc_last. cbn [parse_block].
  pose proof (len_nonneg l) as Hl.
  replace (16 * nib (len l)) with (16 * nib (len l) + 0) by lia.
  rewrite tok_div, tok_mod by lia.
  rewrite read_len_enc by lia.
  rewrite Z.ltb_irrefl.
  rewrite firstn_len, skipn_len. reflexivity.
Qed.

Lemma parse_block_encode : forall ss last f acc, Forall wf_seq ss -> (length ss < f)%nat ->
  parse_block f (encode (ss, last)) acc = Some (rev acc ++ ss, last).
Proof.
  induction ss as [|s ss IH]; intros last f acc Hwf Hf.
  - destruct f as [|f]; [cbn in Hf; lia|].
    unfold encode. cbn [fst snd flat_map app]. rewrite parse_block_last, app_nil_r. reflexivity.
  - destruct f as [|f]; [cbn in Hf; lia|].
    inversion Hwf as [|? ? Hs Hss]; subst.
    unfold encode. cbn [fst snd flat_map]. rewrite <- app_assoc.
    rewrite parse_block_seq by assumption.
    specialize (IH last f (s :: acc) Hss). unfold encode in IH. cbn [fst snd] in IH.
    rewrite IH by (cbn [length] in Hf; lia).
    cbn [rev]. rewrite <- app_assoc. reflexivity.
Qed.

Theorem parse_encode : parse_encode_stmt.
Proof.
  intros [ss last] (Hss & _). cbn [fst snd] in Hss.
  rewrite parse_block_encode; [reflexivity|exact Hss|].
  pose proof (encode_length ss last). lia.
Qed.

(* ------------------------------------------------------------------------------------------ *)
(* well-formed input is decoded to its meaning by both decoders                                 *)
(* ------------------------------------------------------------------------------------------ *)

Lemma exact_wellformed dec : exact_stmt dec -> wellformed_stmt dec.
Proof.
  intros Hex p dict dst0 r Hwf He.
  pose proof (Hex (encode p) dst0 dict (encode_bytes p Hwf)) as H.
  rewrite spec_decode_encode in H by exact Hwf. rewrite He in H. cbn [option_map obs_spec] in H.
  destruct (dec (encode p) dst0 dict) as [n dst'|]; cbn [obs] in H; [|discriminate].
  injection H as Hn Hf. subst n.
  exists dst'. split.
  - f_equal. unfold len. rewrite rev_length. reflexivity.
  - rewrite <- Hf. f_equal. unfold len. rewrite rev_length, Nat2Z.id. reflexivity.
Qed.

Theorem asm_wellformed : wellformed_stmt decode_asm.
Proof. apply exact_wellformed. exact asm_exact. Qed.
Theorem portable_wellformed : wellformed_stmt decode_portable.
Proof. apply exact_wellformed. exact portable_exact. Qed.

(* ------------------------------------------------------------------------------------------ *)
(* bridge: the source held in a map is the source list                                         *)
(* ------------------------------------------------------------------------------------------ *)

Lemma load_src_find l : forall i m k,
  PositiveMap.find k (load_src l i m) =
  if (Z.pos i <=? Z.pos k) && (Z.pos k <? Z.pos i + len l)
  then Some (nth (Z.to_nat (Z.pos k - Z.pos i)) l 0) else PositiveMap.find k m.
Proof.
  induction l as [|b r IH]; intros i m k; cbn [load_src].
  - rewrite len_nil. destruct ((Z.pos i <=? Z.pos k) && (Z.pos k <? Z.pos i + 0)) eqn:E; [lia|reflexivity].
  - rewrite IH, len_cons. pose proof (len_nonneg r) as Hr.
    rewrite Pos2Z.inj_succ.
    destruct (Pos.eq_dec k i) as [->|Hne].
    + destruct ((Z.succ (Z.pos i) <=? Z.pos i) && (Z.pos i <? Z.succ (Z.pos i) + len r)) eqn:E1; [lia|].
      destruct ((Z.pos i <=? Z.pos i) && (Z.pos i <? Z.pos i + (1 + len r))) eqn:E2; [|lia].
      rewrite PositiveMap.gss, Z.sub_diag. reflexivity.
    + assert (Hne' : Z.pos k <> Z.pos i) by (intros H; apply Hne; injection H as ->; reflexivity).
      destruct ((Z.succ (Z.pos i) <=? Z.pos k) && (Z.pos k <? Z.succ (Z.pos i) + len r)) eqn:E1;
      destruct ((Z.pos i <=? Z.pos k) && (Z.pos k <? Z.pos i + (1 + len r))) eqn:E2; try lia.
      * replace (Z.to_nat (Z.pos k - Z.pos i)) with (S (Z.to_nat (Z.pos k - Z.succ (Z.pos i)))) by lia.
        reflexivity.
      * rewrite PositiveMap.gso by exact Hne. reflexivity.
Qed.

Lemma src_get_load src i : 0 <= i < len src ->
  src_get (load_src src 1%positive (PositiveMap.empty Z)) i = nth (Z.to_nat i) src 0.
Proof.
  intros Hi. unfold src_get. destruct (i <? 0) eqn:E; [lia|].
  rewrite load_src_find.
  assert (Hp : Z.pos (Z.to_pos (i + 1)) = i + 1) by (apply Z2Pos.id; lia).
  rewrite Hp.
  destruct ((1 <=? i + 1) && (i + 1 <? 1 + len src)) eqn:E2; [|lia].
  f_equal. lia.
Qed.

Lemma sub_from_ext get : forall l a,
  (forall i, (i < length l)%nat -> get (a + Z.of_nat i) = nth i l 0) -> sub_from get a (length l) = l.
Proof.
  induction l as [|x l IH]; intros a H; cbn [length sub_from]; [reflexivity|].
  f_equal.
  - specialize (H O ltac:(cbn [length]; lia)). cbn [nth] in H. rewrite <- H. f_equal. lia.
  - apply IH. intros i Hi. specialize (H (S i) ltac:(cbn [length]; lia)). cbn [nth] in H.
    rewrite <- H. f_equal. lia.
Qed.

Lemma sub_load src :
  sub (src_get (load_src src 1%positive (PositiveMap.empty Z))) 0 (len src) = src.
Proof.
  unfold sub, len. rewrite Nat2Z.id. apply sub_from_ext.
  intros i Hi. rewrite src_get_load by (unfold len; lia). f_equal. lia.
Qed.

Lemma bytes_nth l i : bytes l -> (i < length l)%nat -> 0 <= nth i l 0 < 256.
Proof.
  intros Hb Hi. unfold bytes in Hb. rewrite Forall_forall in Hb.
  apply (Hb (nth i l 0)). apply nth_In. exact Hi.
Qed.

Lemma bytes_fn_load src : bytes src ->
  bytes_fn (src_get (load_src src 1%positive (PositiveMap.empty Z))) (len src).
Proof.
  intros Hb i Hi. rewrite src_get_load by exact Hi. apply bytes_nth; [exact Hb|]. unfold len in Hi. lia.
Qed.

(* ------------------------------------------------------------------------------------------ *)
(* compressors: contract and round trip                                                        *)
(* ------------------------------------------------------------------------------------------ *)

(* what a good block gives the contract *)
Lemma good_block_contract src b dstlen : good_block src b dstlen ->
  exists p, parse_block (S (length b)) b [] = Some p /\ b = encode p /\ wf_parse p /\
            strict p = true /\ spec_decode b [] (len src) = Some src /\ 0 < len b <= dstlen.
Proof.
  intros (p & Hb & Hwf & Hst & _ & Hex & Hfit). subst b.
  exists p. split; [apply parse_encode; exact Hwf|].
  split; [reflexivity|]. split; [exact Hwf|]. split; [exact Hst|]. split; [|exact Hfit].
  rewrite spec_decode_encode by exact Hwf. cbn [rev]. rewrite Hex. cbn [option_map].
  rewrite rev_involutive. reflexivity.
Qed.

(* the contract, together with the bound, gives the round trip through both decoders *)
Lemma contract_roundtrip compress : contract_stmt compress -> roundtrip_stmt compress.
Proof.
  intros Hc src dstlen dst0 Hb Hbound Hlen. specialize (Hc src dstlen Hb).
  destruct (compress src dstlen) as [| | | |b]; try contradiction; try lia.
  destruct Hc as (p & _ & Hbp & Hwf & _ & Hdec & Hfit).
  exists b. split; [reflexivity|]. split; [exact Hfit|].
  assert (Hbb : bytes b) by (rewrite Hbp; apply encode_bytes; exact Hwf).
  assert (Hl : len dst0 = len src) by (apply len_eq_of_length; exact Hlen).
  rewrite (asm_exact b dst0 [] Hbb), (portable_exact b dst0 [] Hbb), Hl, Hdec.
  cbn [obs_spec]. split; reflexivity.
Qed.

Theorem fast_contract : forall st, contract_stmt (fun src dstlen => compress_fast_list src st dstlen).
Proof.
  intros st src dstlen Hb. cbv beta.
  pose proof (bytes_fn_load src Hb) as Hfn.
  pose proof (len_nonneg src) as Hn.
  pose proof (fast_nopanic src st dstlen Hb) as Hnp.
  unfold compress_fast_list in *. cbv zeta in *.
  set (g := src_get (load_src src 1%positive (PositiveMap.empty Z))) in *.
  pose proof (fast_nohang g (len src) ftable ft_get ft_put (ft_reset st) dstlen Hn) as Hnh.
  pose proof (fast_small_only encode_bound g (len src) ftable ft_get ft_put (ft_reset st) dstlen Hn Hfn) as Hsm.
  pose proof (fast_sound g (len src) ftable ft_get ft_put (ft_reset st) dstlen) as Hso.
  destruct (compress_fast g (len src) ftable ft_get ft_put (ft_reset st) dstlen) as [| | | |b].
  - apply Hnp; reflexivity.
  - apply Hnh; reflexivity.
  - apply Hsm. right; reflexivity.
  - apply Hsm. left; reflexivity.
  - specialize (Hso b Hn Hfn eq_refl). subst g. rewrite sub_load in Hso.
    apply good_block_contract. exact Hso.
Qed.

Theorem fast_roundtrip : forall st, roundtrip_stmt (fun src dstlen => compress_fast_list src st dstlen).
Proof. intros st. apply contract_roundtrip. apply fast_contract. Qed.

Theorem hc_contract : forall depth, 0 <= depth ->
  contract_stmt (fun src dstlen => compress_hc_list src depth dstlen).
Proof.
  intros depth Hd src dstlen Hb. cbv beta.
  pose proof (bytes_fn_load src Hb) as Hfn.
  pose proof (len_nonneg src) as Hn.
  unfold compress_hc_list. cbv zeta.
  set (g := src_get (load_src src 1%positive (PositiveMap.empty Z))) in *.
  set (wf := Z.to_nat 131073).
  assert (Hwf : 65536 < Z.of_nat wf) by (subst wf; lia).
  pose proof (hc_nopanic g (len src) depth wf dstlen) as Hnp.
  pose proof (hc_nohang_all g (len src) depth wf dstlen Hn Hd Hwf) as Hnh.
  pose proof (hc_small_only encode_bound g (len src) depth wf dstlen Hn Hfn ltac:(lia)) as Hsm.
  pose proof (hc_sound g (len src) depth wf dstlen) as Hso.
  destruct (compress_hc g (len src) depth wf dstlen) as [| | | |b].
  - apply Hnp; reflexivity.
  - apply Hnh; reflexivity.
  - apply Hsm. right; reflexivity.
  - apply Hsm. left; reflexivity.
  - specialize (Hso b Hn Hfn ltac:(lia) eq_refl). subst g. rewrite sub_load in Hso.
    apply good_block_contract. exact Hso.
Qed.

Theorem hc_roundtrip : forall depth, 0 <= depth ->
  roundtrip_stmt (fun src dstlen => compress_hc_list src depth dstlen).
Proof. intros depth Hd. apply contract_roundtrip. apply hc_contract. exact Hd. Qed.

(* ------------------------------------------------------------------------------------------ *)
(* error clauses of the format                                                                 *)
(* ------------------------------------------------------------------------------------------ *)

(* reading a prefix of well-formed sequences *)
Lemma sdec_prefix : forall ss f rest rdict rout cap, Forall wf_seq ss ->
  sdec (length ss + f) (flat_map enc_seq ss ++ rest) rdict rout cap =
  match expand rdict cap rout ss with None => None | Some r => sdec f rest rdict r cap end.
Proof.
  induction ss as [|s ss IH]; intros f rest rdict rout cap Hwf.
  - reflexivity.
  - inversion Hwf as [|? ? Hs Hss]; subst.
    cbn [length Nat.add flat_map expand]. rewrite <- app_assoc.
    rewrite sdec_seq by exact Hs.
    destruct (exec_seq rdict cap rout s) as [r|]; [|reflexivity].
    apply IH. exact Hss.
Qed.

Lemma flat_enc_length ss : (length ss <= length (flat_map enc_seq ss))%nat.
Proof.
  induction ss as [|s ss IH]; cbn [flat_map length]; [lia|].
  rewrite app_length. unfold enc_seq at 1. cbn [length]. lia.
Qed.

(* spec_decode of [sequences ++ tail] with a non-empty tail *)
Lemma spec_decode_prefix ss tl dict cap : Forall wf_seq ss -> tl <> [] ->
  spec_decode (flat_map enc_seq ss ++ tl) dict cap =
  option_map (@rev Z)
    match expand (rev dict) cap [] ss with
    | None => None
    | Some r => sdec (S (length (flat_map enc_seq ss ++ tl)) - length ss) tl (rev dict) r cap
    end.
Proof.
  intros Hwf Htl. unfold spec_decode.
  destruct (flat_map enc_seq ss ++ tl) as [|b r0] eqn:E.
  - exfalso. apply app_eq_nil in E. destruct E as [_ E]. exact (Htl E).
  - rewrite <- E.
    pose proof (flat_enc_length ss) as Hl.
    assert (Hlen : (length ss <= length (flat_map enc_seq ss ++ tl))%nat) by (rewrite app_length; lia).
    replace (S (length (flat_map enc_seq ss ++ tl)))
      with (length ss + (S (length (flat_map enc_seq ss ++ tl)) - length ss))%nat at 1 by lia.
    rewrite sdec_prefix by exact Hwf. reflexivity.
Qed.

Lemma sdec_zero_off f s rest rdict rout cap : 4 <= mlen s -> off s = 0 ->
  sdec (S f) (enc_seq s ++ rest) rdict rout cap = None.
Proof.
  intros Hm Ho.
  unfold enc_seq. cbn [app sdec].
  pose proof (len_nonneg (lits s)) as Hl.
  rewrite tok_div, tok_mod by (apply nib_range; lia).
  rewrite <- !app_assoc.
  rewrite read_len_enc by lia.
  rewrite len_app.
  match goal with |- context [len (lits s) + len ?t <? len (lits s)] =>
    pose proof (len_nonneg t); replace (len (lits s) + len t <? len (lits s)) with false by lia end.
  rewrite firstn_len_app, skipn_len_app.
  destruct (cap <? len (rev_append (lits s) rout)) eqn:Ecap; [reflexivity|].
  cbn [app]. rewrite Ho. reflexivity.
Qed.

Theorem err_zero_offset : err_zero_offset_stmt.
Proof.
  intros ss s rest dict cap Hwf _ Hm Ho.
  rewrite spec_decode_prefix; [|exact Hwf|unfold enc_seq; discriminate].
  destruct (expand (rev dict) cap [] ss) as [r|]; [|reflexivity].
  pose proof (flat_enc_length ss) as Hl.
  match goal with |- context [sdec ?f _ _ _ _] =>
    assert (Hf : exists f', f = S f') end.
  { rewrite app_length. exists (length (flat_map enc_seq ss) + length (enc_seq s ++ rest) - length ss)%nat. lia. }
  destruct Hf as [f' ->]. rewrite sdec_zero_off by assumption. reflexivity.
Qed.

Lemma len_rev_append {A} (a b : list A) : len (rev_append a b) = len a + len b.
Proof. rewrite rev_append_rev, len_app. unfold len. rewrite rev_length. reflexivity. Qed.

Lemma exec_seq_before_dict rdict cap rout s : 4 <= mlen s ->
  len rout + len (lits s) + len rdict < off s -> exec_seq rdict cap rout s = None.
Proof.
  intros Hm Ho. unfold exec_seq.
  destruct (cap <? len (rev_append (lits s) rout)) eqn:Ecap; [reflexivity|].
  destruct (Z.to_nat (mlen s)) as [|k] eqn:Ek; [lia|].
  cbn [copy_match]. unfold byte_at.
  pose proof (len_rev_append (lits s) rout) as Hlr.
  pose proof (len_nonneg rout). pose proof (len_nonneg (lits s)). pose proof (len_nonneg rdict).
  destruct (off s <=? 0) eqn:E0; [lia|].
  destruct (off s <=? len (rev_append (lits s) rout)) eqn:E1; [lia|].
  replace (nth_error rdict (Z.to_nat (off s - 1 - len (rev_append (lits s) rout)))) with (@None Z);
    [reflexivity|].
  symmetry. apply nth_error_None. unfold len in *. lia.
Qed.

Theorem err_before_dict : err_before_dict_stmt.
Proof.
  intros ss s rest dict cap r Hwf Hs He Ho.
  rewrite spec_decode_prefix; [|exact Hwf|unfold enc_seq; discriminate].
  rewrite He.
  pose proof (flat_enc_length ss) as Hl.
  match goal with |- context [sdec ?f _ _ _ _] =>
    assert (Hf : exists f', f = S f') end.
  { rewrite app_length. exists (length (flat_map enc_seq ss) + length (enc_seq s ++ rest) - length ss)%nat. lia. }
  destruct Hf as [f' ->]. rewrite sdec_seq by exact Hs.
  rewrite exec_seq_before_dict; [reflexivity|destruct Hs as (_ & _ & Hm); exact Hm|].
  unfold len in *. rewrite rev_length. lia.
Qed.

(* the capacity only decides between failure and success: it never changes the output *)
Lemma exec_seq_cap rd c1 c2 rout s r1 r2 :
  exec_seq rd c1 rout s = Some r1 -> exec_seq rd c2 rout s = Some r2 -> r1 = r2.
Proof.
  unfold exec_seq. intros H1 H2.
  destruct (c1 <? len (rev_append (lits s) rout)); [discriminate|].
  destruct (c2 <? len (rev_append (lits s) rout)); [discriminate|].
  destruct (copy_match (Z.to_nat (mlen s)) rd (rev_append (lits s) rout) (off s)) as [x|]; [|discriminate].
  destruct (c1 <? len x); [discriminate|]. destruct (c2 <? len x); [discriminate|].
  congruence.
Qed.

Lemma expand_cap rd c1 c2 : forall ss rout r1 r2,
  expand rd c1 rout ss = Some r1 -> expand rd c2 rout ss = Some r2 -> r1 = r2.
Proof.
  induction ss as [|s ss IH]; intros rout r1 r2 H1 H2; cbn [expand] in *; [congruence|].
  destruct (exec_seq rd c1 rout s) as [x1|] eqn:E1; [|discriminate].
  destruct (exec_seq rd c2 rout s) as [x2|] eqn:E2; [|discriminate].
  pose proof (exec_seq_cap _ _ _ _ _ _ _ E1 E2) as ->.
  exact (IH _ _ _ H1 H2).
Qed.

Lemma expand_parse_cap rd c1 c2 rout p r1 r2 :
  expand_parse rd c1 rout p = Some r1 -> expand_parse rd c2 rout p = Some r2 -> r1 = r2 /\ len r1 <= c1.
Proof.
  unfold expand_parse. intros H1 H2.
  destruct (expand rd c1 rout (fst p)) as [x1|] eqn:E1; [|discriminate].
  destruct (expand rd c2 rout (fst p)) as [x2|] eqn:E2; [|discriminate].
  pose proof (expand_cap _ _ _ _ _ _ _ E1 E2) as ->. cbv zeta in *.
  destruct (c1 <? len (rev_append (snd p) x2)) eqn:L1; [discriminate|].
  destruct (c2 <? len (rev_append (snd p) x2)) eqn:L2; [discriminate|].
  injection H1 as <-. injection H2 as <-. split; [reflexivity|lia].
Qed.

Theorem err_overflow : err_overflow_stmt.
Proof.
  intros p dict cap cap' r Hwf He Hc.
  rewrite spec_decode_encode by exact Hwf.
  destruct (expand_parse (rev dict) cap [] p) as [r0|] eqn:E; [|reflexivity].
  destruct (expand_parse_cap _ _ _ _ _ _ _ E He) as [-> Hle]. lia.
Qed.

(* the block cut inside its final literals *)
Lemma truncate_encode ss last k : (k <= length last)%nat ->
  firstn (length (encode (ss, last)) - k) (encode (ss, last)) =
  flat_map enc_seq ss ++ (16 * nib (len last)) :: extl (len last) ++ firstn (length last - k) last.
Proof.
  intros Hk. unfold encode. cbn [fst snd].
  rewrite firstn_app. rewrite firstn_all2 by (rewrite app_length; unfold enc_last; cbn [length]; rewrite app_length; lia).
  f_equal. unfold enc_last. rewrite app_length. cbn [length]. rewrite app_length.
  replace (length (flat_map enc_seq ss) + S (length (extl (len last)) + length last) - k -
           length (flat_map enc_seq ss))%nat
    with (S (length (extl (len last)) + (length last - k)))%nat by lia.
  cbn [firstn]. f_equal. apply firstn_app_2.
Qed.

Lemma sdec_short_last f (l x : list Z) rdict rout cap : len x < len l ->
  sdec (S f) ((16 * nib (len l)) :: extl (len l) ++ x) rdict rout cap = None.
Proof.
  intros Hx. cbn [sdec].
  pose proof (len_nonneg l) as Hl.
  replace (16 * nib (len l)) with (16 * nib (len l) + 0) by lia.
  rewrite tok_div by lia.
  rewrite read_len_enc by lia.
  destruct (len x <? len l) eqn:E; [reflexivity|lia].
Qed.

Theorem err_truncated : err_truncated_stmt.
Proof.
  intros ss last k dict cap Hwf _ Hk.
  rewrite truncate_encode by lia.
  rewrite spec_decode_prefix; [|exact Hwf|discriminate].
  destruct (expand (rev dict) cap [] ss) as [r|]; [|reflexivity].
  pose proof (flat_enc_length ss) as Hl.
  match goal with |- context [sdec ?f _ _ _ _] =>
    assert (Hf : exists f', f = S f') end.
  { rewrite app_length. cbn [length].
    exists (length (flat_map enc_seq ss) +
            S (length (extl (len last) ++ firstn (length last - k) last)) - length ss)%nat. lia. }
  destruct Hf as [f' ->]. rewrite sdec_short_last; [reflexivity|].
  unfold len. rewrite firstn_length. lia.
Qed.

(* ------------------------------------------------------------------------------------------ *)
(* C14: the HC object carries no influence                                                     *)
(* ------------------------------------------------------------------------------------------ *)

(* CompressHC.parse_hc / compress_hc, but starting from given tables *)
Definition parse_hc_from (get : Z -> Z) (n depth0 : Z) (wfuel : nat) (hashT chainT : tbl) : pres :=
  if sn n <=? 0 then POk [] 0
  else hloop get n depth0 wfuel (Z.to_nat n + 1) 0 0 hashT chainT [].

Definition compress_hc_from (get : Z -> Z) (n depth0 : Z) (wfuel : nat) (hashT chainT : tbl)
  (dstlen : Z) : cres :=
  match parse_hc_from get n depth0 wfuel hashT chainT with
  | PPanic => CPanic
  | PHang => CHang
  | POk ss anchor => finish_hc n dstlen ss anchor (sub get anchor (n - anchor))
  end.

Lemma compress_hc_from_empty get n depth0 wfuel dstlen :
  compress_hc_from get n depth0 wfuel (PositiveMap.empty Z) (PositiveMap.empty Z) dstlen =
  compress_hc get n depth0 wfuel dstlen.
Proof. reflexivity. Qed.

(* CompressorHC.CompressBlock on an object: `if c.needsReset { zero both tables }; c.needsReset = true`,
   then the compression runs on the (possibly just zeroed) tables.  The tables left behind are
   irrelevant once needsReset is set; the tables the call started from are returned. *)
Definition compress_hc_obj (o : hc_obj) (src : list Z) (depth dstlen : Z) : cres * hc_obj :=
  let hashT := if ho_needs_reset o then PositiveMap.empty Z else ho_hash o in
  let chainT := if ho_needs_reset o then PositiveMap.empty Z else ho_chain o in
  let m := load_src src 1%positive (PositiveMap.empty Z) in
  (compress_hc_from (src_get m) (len src) depth (Z.to_nat 131073) hashT chainT dstlen,
   mk_hc_obj hashT chainT true).

Theorem hc_state_indep : forall o src depth dstlen, hc_reachable o ->
  fst (compress_hc_obj o src depth dstlen) = compress_hc_list src depth dstlen /\
  hc_reachable (snd (compress_hc_obj o src depth dstlen)).
Proof.
  intros o src depth dstlen Hr. unfold compress_hc_obj. cbv zeta. cbn [fst snd]. split.
  - unfold compress_hc_list. cbv zeta. rewrite <- compress_hc_from_empty.
    destruct Hr as [->|Hr].
    + unfold hc_fresh. cbn [ho_needs_reset ho_hash ho_chain]. reflexivity.
    + rewrite Hr. reflexivity.
  - right. reflexivity.
Qed.

(* ------------------------------------------------------------------------------------------ *)
Print Assumptions encode_bytes.
Print Assumptions parse_encode.
Print Assumptions asm_exact.
Print Assumptions portable_exact.
Print Assumptions asm_safe.
Print Assumptions portable_safe.
Print Assumptions asm_wellformed.
Print Assumptions portable_wellformed.
Print Assumptions asm_independent.
Print Assumptions portable_independent'.
Print Assumptions decoders_equiv.
Print Assumptions err_zero_offset.
Print Assumptions err_before_dict.
Print Assumptions err_overflow.
Print Assumptions err_truncated.
Print Assumptions fast_roundtrip.
Print Assumptions fast_contract.
Print Assumptions hc_roundtrip.
Print Assumptions hc_contract.
Print Assumptions hc_state_indep.

(* the statements are exactly those of BlockTheoremsSpec.v *)
Check (encode_bytes : encode_bytes_stmt).
Check (parse_encode : parse_encode_stmt).
Check (asm_exact : exact_stmt decode_asm).
Check (portable_exact : exact_stmt decode_portable).
Check (asm_safe : safe_stmt decode_asm).
Check (portable_safe : safe_stmt decode_portable).
Check (asm_wellformed : wellformed_stmt decode_asm).
Check (portable_wellformed : wellformed_stmt decode_portable).
Check (asm_independent : independent_stmt decode_asm).
Check (portable_independent' : independent_stmt decode_portable).
Check (decoders_equiv : equiv_stmt).
Check (err_zero_offset : err_zero_offset_stmt).
Check (err_before_dict : err_before_dict_stmt).
Check (err_overflow : err_overflow_stmt).
Check (err_truncated : err_truncated_stmt).
Check (fast_roundtrip : forall st, roundtrip_stmt (fun src dstlen => compress_fast_list src st dstlen)).
Check (fast_contract : forall st, contract_stmt (fun src dstlen => compress_fast_list src st dstlen)).
Check (hc_roundtrip : forall depth, 0 <= depth ->
         roundtrip_stmt (fun src dstlen => compress_hc_list src depth dstlen)).
Check (hc_contract : forall depth, 0 <= depth ->
         contract_stmt (fun src dstlen => compress_hc_list src depth dstlen)).
Check (hc_state_indep : forall o src depth dstlen, hc_reachable o ->
         fst (compress_hc_obj o src depth dstlen) = compress_hc_list src depth dstlen /\
         hc_reachable (snd (compress_hc_obj o src depth dstlen))).
