(* PipeWSpec.v — statements about the Writer pipeline LTS (C08, C14-concurrency). Proofs: PipeWProofs.v *)
From LZ4V Require Import Base PipeW.

Definition pw_order_stmt : Prop :=
  forall num njobs fault s, (1 <= num)%nat -> reachable num njobs fault s ->
  exists k, sink s = seq 0 k /\ (k <= first_fault fault 0 njobs)%nat /\
            (final njobs s -> k = first_fault fault 0 njobs /\ err s = negb (Nat.eqb k njobs)).
(* the manager reads a job's buffers only while its worker is blocked and the buffer not released;
   a buffer is released to the pool only by its finished worker *)
Definition pw_owner_stmt : Prop :=
  forall num njobs fault s j, (1 <= num)%nat -> reachable num njobs fault s -> (j < njobs)%nat ->
  (mgr s = MgGot (CJob j) -> wk_of s j = WkWait /\ nth j (own s) OwProducer = OwWorker) /\
  (nth j (own s) OwProducer = OwPool -> wk_of s j = WkDone) /\
  (nth j (own s) OwProducer = OwProducer -> wk_of s j = WkNone).
(* no deadlock: every reachable state is final or can step *)
Definition pw_progress_stmt : Prop :=
  forall num njobs fault s, (1 <= num)%nat -> reachable num njobs fault s ->
  final njobs s \/ exists e s', step num njobs fault s e s'.
(* every schedule terminates: a measure strictly decreases along every step *)
Definition pw_terminates_stmt : Prop :=
  forall num njobs fault, (1 <= num)%nat ->
  exists m : st -> nat, forall s e s', reachable num njobs fault s -> step num njobs fault s e s' -> (m s' < m s)%nat.
(* once Close has returned the manager has exited, nothing is queued and no worker is blocked:
   the remaining workers finish on their own *)
Definition pw_noleak_stmt : Prop :=
  forall num njobs fault s, (1 <= num)%nat -> reachable num njobs fault s -> returned s ->
  mgr s = MgExited /\ queue s = [] /\
  forall j, (j < njobs)%nat -> wk_of s j = WkWoken \/ wk_of s j = WkDone.
(* the checker applied to recorded traces accepts every (partial) run of the model *)
Definition pw_checker_stmt : Prop :=
  forall num njobs fault s es, (1 <= num)%nat -> run num njobs fault (init njobs) es s -> trace_ok njobs es = true.
