(* CReaderFaultSpec.v — C18: "an error from the source is passed through" (CompressingReader over a
   source whose k-th Read call fails, for every k). Proofs: CReaderFaultProofs.v *)
From LZ4V Require Import Base GenBlock BlockFormat FrameSpec FrameImpl Writer Reader CReader FrameTheoremsSpec ReaderSpec2.

Definition creader_fault_stmt : Prop :=
  forall os c data k sizes, bytes data -> 0 < k ->
  new_creader (mksrc data 0 k 0) os = (c, ENil) ->
  let '(c', rs, out) := run_creader c sizes in
  (* what was delivered is a prefix of THE frame of the source *)
  is_prefix out (frame_encode (c_fo c) data) /\
  (* every call returns nil, or the injected error, or io.EOF after the whole frame *)
  Forall (fun r => snd r = ENil \/ snd r = EInjected \/ (snd r = EEOF /\ out = frame_encode (c_fo c) data)) rs /\
  (* pass-through: once the source's failing call has been made, a Read has returned the injected
     error (run_creader stops at the first error, so it is the Read during which the call was made) *)
  (k <= s_calls (c_src c') -> exists n, In (n, EInjected) rs) /\
  (* and the reader never asks the source again after that *)
  s_calls (c_src c') <= k.
