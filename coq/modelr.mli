
val negb : bool -> bool

type nat =
| O
| S of nat



module Nat :
 sig
  val eqb : nat -> nat -> bool

  val leb : nat -> nat -> bool

  val ltb : nat -> nat -> bool
 end

val existsb : ('a1 -> bool) -> 'a1 list -> bool

val forallb : ('a1 -> bool) -> 'a1 list -> bool

val seq : nat -> nat -> nat list

type cid =
| CJob of nat
| CSentinel

val cid_eqb : cid -> cid -> bool

type event =
| EvEnq of cid
| EvWkStart of cid
| EvWkDecoded of cid
| EvTake of cid
| EvRecv of cid
| EvDeliver of cid

val index_of : (event -> bool) -> event list -> nat -> nat option

val ev_eqb : event -> event -> bool

val pos : event list -> event -> nat option

val before : event list -> event -> event -> bool

val before_if : event list -> event -> event -> bool

val happened : event list -> event -> bool

val job_ok : event list -> nat -> bool

val noDup_b : event list -> bool

val trace_ok : nat -> event list -> bool
