(* LegacySpec.v — statements about LEGACY frames (LegacyOption: magic 0x184C2102, no descriptor,
   8 MiB blocks, block = 4-byte size word + data, no end mark, no checksums; the stream ends with
   the source).  Proofs: LegacyProofs.v.

   The Reader, on a legacy frame, (1) skips every size word equal to the legacy magic and
   (2) takes a size word EQUAL TO THE NUMBER OF BYTES DECODED SO FAR (r_cum, a uint32) for the
   Linux-kernel trailer and reports a clean end of stream.  A Writer session whose k-th block has a
   size word equal to the number of content bytes written before it is therefore read back
   truncated, with a clean end (legacy_roundtrip_refuted).  [legacy_unambiguous] is the side
   condition, on the blocks the Writer model emits, under which the round trip holds
   (legacy_roundtrip), and it is exact: when it fails the Reader stops, cleanly, at the first
   ambiguous block (legacy_ambiguous_truncates). *)
From LZ4V Require Import Base GenBlock GenStream GenLz4 XXH32 BlockFormat BlockExec CompressFast FrameSpec FrameImpl
  Writer Reader FrameTheoremsSpec Lifecycle ReaderSpec2.

Definition legacy (o : fopts) : Prop := fo_legacy o = true.

Definition item_ok (i : item) : Prop := match i with IWrite d => bytes d | IFlush => True end.

(* ---------------------------------------------------------------------------------------- *)
(* 1. the round trip of ReaderSpec2.roundtrip_stmt, [modern o] replaced by [fo_legacy o = true] *)
(* ---------------------------------------------------------------------------------------- *)
Definition legacy_roundtrip_naive_stmt : Prop :=
  forall os o items n, opts_after os = Some o -> fo_legacy o = true ->
  Forall (fun i => match i with IWrite d => bytes d | IFlush => True end) items ->
  (fo_csize o <= 0 \/ fo_csize o = len (data_of items)) -> len (data_of items) < 2 ^ 64 -> 0 < n ->
  let w := fst (run_writer (new_writer s0) (WApply os :: map item_op items ++ [WClose]) s0) in
  let f := sink_bytes (w_sink w) in
  (exists r', rstep (new_reader (src_of f)) RWriteTo = (r', RRes (len (data_of items)) ENil (data_of items))
              /\ r_state r' = lz4_closedState /\ s_consumed (r_src r') = len f) /\
  (exists r'', read_until (S (length f) + S (length (data_of items))) (new_reader (src_of f)) n [] = (r'', data_of items, EEOF)).

(* the witness: LegacyOption(true); Write {1,2}; Flush; Write {3}; Close.
   The second block (token 0x10 + one literal) is 2 bytes long = the 2 bytes decoded before it. *)
Definition lw_os : list wopt := [OLegacy true].
Definition lw_items : list item := [IWrite [1; 2]; IFlush; IWrite [3]].
Definition lw_frame : list Z := [2; 33; 76; 24;  3; 0; 0; 0;  32; 1; 2;  2; 0; 0; 0;  16; 3].

(* what the two models do on the witness: every Writer call succeeds, the frame is lw_frame;
   WriteTo delivers 2 of the 3 bytes with a nil error, leaves the Reader closed having consumed
   15 of the 17 bytes; Read (buffer of n bytes, here 1 and 5) delivers the same 2 bytes then io.EOF *)
Definition legacy_witness_stmt : Prop :=
  opts_after lw_os = Some (mkfo 28676 0 0 true) /\
  (let '(w, res) := run_writer (new_writer s0) (WApply lw_os :: map item_op lw_items ++ [WClose]) s0 in
   res = [RE ENil; RNE 2 ENil; RE ENil; RNE 1 ENil; RE ENil] /\ sink_bytes (w_sink w) = lw_frame) /\
  data_of lw_items = [1; 2; 3] /\
  (exists r', rstep (new_reader (src_of lw_frame)) RWriteTo = (r', RRes 2 ENil [1; 2])
              /\ r_state r' = lz4_closedState /\ s_consumed (r_src r') = 15) /\
  (exists r1, read_until 100 (new_reader (src_of lw_frame)) 1 [] = (r1, [1; 2], EEOF)) /\
  (exists r5, read_until 100 (new_reader (src_of lw_frame)) 5 [] = (r5, [1; 2], EEOF)).

Definition legacy_roundtrip_refuted_stmt : Prop := ~ legacy_roundtrip_naive_stmt.

(* the same ambiguity with the session of the report: 22 bytes, Flush, 20 pairwise distinct bytes
   (fast level: token 0xF0, 0x05, 20 literals = 22 bytes) *)
Definition lw2_a : list Z := [1; 2; 3; 4; 5; 6; 7; 8; 9; 10; 11; 12; 13; 14; 15; 16; 17; 18; 19; 20; 21; 22].
Definition lw2_b : list Z := [101; 102; 103; 104; 105; 106; 107; 108; 109; 110; 111; 112; 113; 114; 115; 116; 117; 118; 119; 120].
Definition legacy_witness2_stmt : Prop :=
  let items := [IWrite lw2_a; IFlush; IWrite lw2_b] in
  let f := sink_bytes (w_sink (fst (run_writer (new_writer s0) (WApply lw_os :: map item_op items ++ [WClose]) s0))) in
  len f = 58 /\ data_of items = lw2_a ++ lw2_b /\
  exists r', rstep (new_reader (src_of f)) RWriteTo = (r', RRes 22 ENil lw2_a) /\ r_state r' = lz4_closedState.

(* ---------------------------------------------------------------------------------------- *)
(* 2. the side condition                                                                      *)
(* ---------------------------------------------------------------------------------------- *)

(* the size word of the block the Writer model emits for the chunk c, read back as a uint32 from
   the first of the block's sink writes *)
Definition block_word (o : fopts) (c : list Z) : Z := u32_of (hd [] (block_writes o c)).

(* [cum] = content bytes emitted before the first block of [blocks] (an unbounded integer; the
   Reader keeps it modulo 2^32) *)
Fixpoint unamb_from (o : fopts) (cum : Z) (blocks : list (list Z)) : bool :=
  match blocks with
  | [] => true
  | c :: r =>
    negb (block_word o c =? cum mod 4294967296) && negb (block_word o c =? lz4stream_frameMagicLegacy)
    && unamb_from o (cum + len c) r
  end.

(* over the blocks of a session: blocks_of is the list of chunks the Writer compresses
   (WriterProofs.writer_session: the sink holds frame_of_items, built from exactly these) *)
Definition legacy_unambiguous (o : fopts) (items : list item) : bool :=
  unamb_from o 0 (blocks_of (bsz_of o) items []).

(* the magic clause never fires for what the Writer emits (a compressed block is at most 8 MiB,
   a raw block has bit 31 set; the magic is 0x184C2102): only the running-total clause matters *)
Fixpoint cum_clash_free (o : fopts) (cum : Z) (blocks : list (list Z)) : bool :=
  match blocks with
  | [] => true
  | c :: r => negb (block_word o c =? cum mod 4294967296) && cum_clash_free o (cum + len c) r
  end.
Definition legacy_magic_clause_redundant_stmt : Prop :=
  forall os o items, opts_after os = Some o -> fo_legacy o = true -> Forall item_ok items ->
  legacy_unambiguous o items = cum_clash_free o 0 (blocks_of (bsz_of o) items []).

(* the size word in closed form: the compressed length, or 2^31 + the chunk length for a block
   stored raw (compression into the 8 MiB buffer failed) *)
Definition legacy_word_stmt : Prop :=
  forall os o c, opts_after os = Some o -> fo_legacy o = true -> bytes c -> c <> [] -> len c <= 8388608 ->
  block_word o c =
    match compress_level (fo_level o) c 8388608 with
    | COk b => len b
    | _ => 2147483648 + len c
    end.

(* ---------------------------------------------------------------------------------------- *)
(* 3. the legacy round trip                                                                   *)
(* ---------------------------------------------------------------------------------------- *)

(* Same conclusion as roundtrip_stmt.  No hypothesis on the configured size (legacy frames carry
   none) and NO bound on the content length: the Reader's counter and the side condition are both
   taken modulo 2^32, and legacy frames have no checksum whose model would need len < 2^64. *)
Definition legacy_roundtrip_stmt : Prop :=
  forall os o items n, opts_after os = Some o -> fo_legacy o = true ->
  Forall (fun i => match i with IWrite d => bytes d | IFlush => True end) items ->
  legacy_unambiguous o items = true -> 0 < n ->
  let w := fst (run_writer (new_writer s0) (WApply os :: map item_op items ++ [WClose]) s0) in
  let f := sink_bytes (w_sink w) in
  (exists r', rstep (new_reader (src_of f)) RWriteTo = (r', RRes (len (data_of items)) ENil (data_of items))
              /\ r_state r' = lz4_closedState /\ s_consumed (r_src r') = len f) /\
  (exists r'', read_until (S (length f) + S (length (data_of items))) (new_reader (src_of f)) n [] = (r'', data_of items, EEOF)).

(* the side condition is exact: when it fails, WriteTo and Read stop with a clean end having
   delivered a STRICT prefix of the data, without consuming the whole frame *)
Definition legacy_ambiguous_truncates_stmt : Prop :=
  forall os o items n, opts_after os = Some o -> fo_legacy o = true ->
  Forall (fun i => match i with IWrite d => bytes d | IFlush => True end) items ->
  legacy_unambiguous o items = false -> 0 < n ->
  let w := fst (run_writer (new_writer s0) (WApply os :: map item_op items ++ [WClose]) s0) in
  let f := sink_bytes (w_sink w) in
  exists out rest, data_of items = out ++ rest /\ rest <> [] /\
    (exists r', rstep (new_reader (src_of f)) RWriteTo = (r', RRes (len out) ENil out)
                /\ r_state r' = lz4_closedState /\ s_consumed (r_src r') < len f) /\
    (exists r'', read_until (S (length f) + S (length out)) (new_reader (src_of f)) n [] = (r'', out, EEOF)).

(* hence: the naive round trip holds for a session exactly when the session is unambiguous *)
Definition legacy_roundtrip_iff_stmt : Prop :=
  forall os o items, opts_after os = Some o -> fo_legacy o = true ->
  Forall (fun i => match i with IWrite d => bytes d | IFlush => True end) items ->
  let w := fst (run_writer (new_writer s0) (WApply os :: map item_op items ++ [WClose]) s0) in
  let f := sink_bytes (w_sink w) in
  (legacy_unambiguous o items = true <->
   exists r', rstep (new_reader (src_of f)) RWriteTo = (r', RRes (len (data_of items)) ENil (data_of items))).

(* ---------------------------------------------------------------------------------------- *)
(* 4. sessions that are unambiguous without looking at the compressor                         *)
(* ---------------------------------------------------------------------------------------- *)

(* a session that emits at most one block: in particular the empty session (frame = magic only)
   and any writes without Flush of at most 8 MiB in total *)
Definition legacy_one_block_stmt : Prop :=
  forall os o items, opts_after os = Some o -> fo_legacy o = true -> Forall item_ok items ->
  (length (blocks_of (bsz_of o) items []) <= 1)%nat -> legacy_unambiguous o items = true.

Definition legacy_small_noflush_stmt : Prop :=
  forall os o ds n, opts_after os = Some o -> fo_legacy o = true -> Forall bytes ds ->
  len (concat ds) <= 8388608 -> 0 < n ->
  let items := map IWrite ds in
  let w := fst (run_writer (new_writer s0) (WApply os :: map item_op items ++ [WClose]) s0) in
  let f := sink_bytes (w_sink w) in
  (exists r', rstep (new_reader (src_of f)) RWriteTo = (r', RRes (len (concat ds)) ENil (concat ds))
              /\ r_state r' = lz4_closedState /\ s_consumed (r_src r') = len f) /\
  (exists r'', read_until (S (length f) + S (length (concat ds))) (new_reader (src_of f)) n [] = (r'', concat ds, EEOF)).

(* the empty session: the frame is the 4 magic bytes and reads back as the empty stream *)
Definition legacy_empty_stmt : Prop :=
  forall os o, opts_after os = Some o -> fo_legacy o = true ->
  let w := fst (run_writer (new_writer s0) [WApply os; WClose] s0) in
  sink_bytes (w_sink w) = [2; 33; 76; 24] /\
  exists r', rstep (new_reader (src_of [2; 33; 76; 24])) RWriteTo = (r', RRes 0 ENil [])
             /\ r_state r' = lz4_closedState /\ s_consumed (r_src r') = 4.

(* ---------------------------------------------------------------------------------------- *)
(* 5. sessions WITHOUT Flush: where the ambiguity can arise                                   *)
(* ---------------------------------------------------------------------------------------- *)

(* Without Flush every block but the last holds 8 MiB, so the running total before block k
   (k = 0, 1, ...) is k * 2^23, i.e. (k mod 512) * 2^23 as a uint32.  A size word is either a
   compressed length in 1 .. 2^23 or 2^31 + (a raw length in 1 .. 2^23).  Hence exactly two clashes:
     k = 1   (mod 512) and the block compresses to exactly 8388608 bytes;
     k = 257 (mod 512) and the block is a full block stored raw (word 2^31 + 2^23 = 257 * 2^23). *)
Definition legacy_noflush_char_stmt : Prop :=
  forall os o ds, opts_after os = Some o -> fo_legacy o = true -> Forall bytes ds ->
  let blocks := blocks_of (bsz_of o) (map IWrite ds) [] in
  (legacy_unambiguous o (map IWrite ds) = true <->
   forall k c, nth_error blocks k = Some c ->
     ~ (Z.of_nat k mod 512 = 1 /\ block_word o c = 8388608) /\
     ~ (Z.of_nat k mod 512 = 257 /\ block_word o c = 2147483648 + 8388608)).

(* in particular, a stream with fewer than 258 blocks (at most 257 * 8 MiB = 2056 MiB of content)
   whose second block, if any, does not compress to exactly 8 MiB *)
Definition legacy_noflush_below_2056MiB_stmt : Prop :=
  forall os o ds n, opts_after os = Some o -> fo_legacy o = true -> Forall bytes ds -> 0 < n ->
  len (concat ds) <= 257 * 8388608 ->
  (forall c, nth_error (blocks_of (bsz_of o) (map IWrite ds) []) 1 = Some c -> block_word o c <> 8388608) ->
  let items := map IWrite ds in
  let w := fst (run_writer (new_writer s0) (WApply os :: map item_op items ++ [WClose]) s0) in
  let f := sink_bytes (w_sink w) in
  (exists r', rstep (new_reader (src_of f)) RWriteTo = (r', RRes (len (concat ds)) ENil (concat ds))
              /\ r_state r' = lz4_closedState /\ s_consumed (r_src r') = len f) /\
  (exists r'', read_until (S (length f) + S (length (concat ds))) (new_reader (src_of f)) n [] = (r'', concat ds, EEOF)).

(* and the failure that needs no Flush: when the data has more than 257 full blocks and the 258th
   (index 257: bytes 2155872256 .. 2164260863) cannot be compressed into 8 MiB, e.g. already
   compressed or random data, the Reader ends the stream cleanly after AT MOST 2155872256 bytes.
   (Reproduced on the Go code: 300 random 8 MiB blocks through LegacyOption -> WriteTo returns
   2155872256, nil.) *)
Definition legacy_incompressible_truncates_stmt : Prop :=
  forall os o ds c n, opts_after os = Some o -> fo_legacy o = true -> Forall bytes ds -> 0 < n ->
  nth_error (blocks_of (bsz_of o) (map IWrite ds) []) 257 = Some c -> len c = 8388608 ->
  (forall b, compress_level (fo_level o) c 8388608 <> COk b) ->
  let items := map IWrite ds in
  let w := fst (run_writer (new_writer s0) (WApply os :: map item_op items ++ [WClose]) s0) in
  let f := sink_bytes (w_sink w) in
  exists out rest, concat ds = out ++ rest /\ rest <> [] /\ len out <= 2155872256 /\
    (exists r', rstep (new_reader (src_of f)) RWriteTo = (r', RRes (len out) ENil out)
                /\ r_state r' = lz4_closedState /\ s_consumed (r_src r') < len f) /\
    (exists r'', read_until (S (length f) + S (length out)) (new_reader (src_of f)) n [] = (r'', out, EEOF)).
