(* BlockExec.v — an efficient executable form of the block-format specification (same meaning as
   BlockFormat.sdec, linear cost), used by the correspondence runs and as the independent decoder
   of the failing-input searches.  BlockExecProofs.v proves sdecx = sdec. *)
From LZ4V Require Import Base BlockFormat.

(* move n cells from the front of l onto acc (reversed); None when l is shorter than n *)
Fixpoint take_rev (l : list Z) (n : Z) (acc : list Z) {struct l} : option (list Z * list Z) :=
  if n <=? 0 then Some (acc, l) else
  match l with
  | [] => None
  | x :: r => take_rev r (n - 1) (x :: acc)
  end.

Fixpoint app_n (q : nat) (R rest : list Z) : list Z :=
  match q with O => rest | S k => R ++ app_n k R rest end.

(* copy m bytes at distance o; dlen = len rout, klen = len rdict.  The history is the virtual
   list rout ++ rdict (most recent first); it is only materialised when the match reaches into
   the dictionary. *)
Definition copy_fast (m : Z) (rdict rout : list Z) (klen dlen o : Z) : option (list Z) :=
  if o <=? 0 then None else
  if dlen + klen <? o then None else
  let V := if dlen <? o then rout ++ rdict else rout in
  if m <=? o then Some (firstn (Z.to_nat m) (skipn (Z.to_nat (o - m)) V) ++ rout)
  else let R := firstn (Z.to_nat o) V in
       let q := m / o in let r := m mod o in
       Some (skipn (Z.to_nat (o - r)) R ++ app_n (Z.to_nat q) R rout).

Fixpoint sdecx (fuel : nat) (src rdict rout : list Z) (klen di cap : Z) : option (list Z) :=
  match fuel with O => None | S f =>
  match src with
  | [] => Some rout
  | tok :: r0 =>
    match read_len (tok / 16) r0 with None => None | Some (ll, r1) =>
    if cap <? di + ll then None else
    match take_rev r1 ll rout with None => None | Some (rout1, r2) =>
    match r2 with
    | [] => if tok mod 16 =? 0 then Some rout1 else None
    | [_] => None
    | o1 :: o2 :: r3 =>
      let o := o1 + 256 * o2 in
      if o =? 0 then None else
      match read_len (tok mod 16) r3 with None => None | Some (ml, r4) =>
      let m := ml + 4 in
      if cap <? di + ll + m then None else
      match copy_fast m rdict rout1 klen (di + ll) o with None => None | Some rout2 =>
      sdecx f r4 rdict rout2 klen (di + ll + m) cap end end
    end end end end end.

Definition spec_decode_x (src dict : list Z) (cap : Z) : option (list Z) :=
  match src with
  | [] => None
  | _ => option_map (@rrev Z) (sdecx (S (length src)) src (rrev dict) [] (len dict) 0 cap)
  end.
