(* FrameEncodeProofs.v — C09: what the Writer emits is accepted by the strict frame specification
   (block checksums in the decoded domain), finding F10 as a refutation companion, and the
   content-size field of the emitted header.  Statements: FrameTheoremsSpec.v (encode_spec_stmt). *)
From Coq Require Import ZifyBool.
From LZ4V Require Import Base GenBlock GenStream GenLz4 XXH32 XXH32Proofs BlockFormat BlockFormatProofs
  BlockExec BlockExecProofs CompressFast CompressFastTable CompressHC CompressHCTop CompressSpec
  BlockTheoremsSpec BlockTheorems FrameSpec FrameImpl Writer Reader CReader FrameTheoremsSpec.

Ltac Zify.zify_post_hook ::= Z.div_mod_to_equations.

(* ------------------------------------------------------------------------------------------ *)
(* finite sweeps over the 16-bit flags word                                                    *)
(* ------------------------------------------------------------------------------------------ *)

Fixpoint zrange (n : nat) (start : Z) : list Z :=
  match n with O => [] | S k => start :: zrange k (start + 1) end.
Lemma in_zrange n : forall s f, s <= f < s + Z.of_nat n -> In f (zrange n s).
Proof.
  induction n as [|n IH]; intros s f Hf; [lia|].
  cbn [zrange]. destruct (Z.eq_dec s f) as [->|Hne]; [left; reflexivity|].
  right. apply IH. lia.
Qed.
Definition range16 : list Z := zrange (Z.to_nat 65536) 0.

Lemma in_range16 f : 0 <= f < 65536 -> In f range16.
Proof. intros Hf. unfold range16. apply in_zrange. lia. Qed.

Lemma sweep16 (P : Z -> bool) : forallb P range16 = true -> forall f, 0 <= f < 65536 -> P f = true.
Proof.
  intros H f Hf. rewrite forallb_forall in H. apply H. apply in_range16. exact Hf.
Qed.

(* reserved bits of the two descriptor bytes: FLG bits 0,1; BD bits 0-3 and 7 *)
Definition RESERVED : Z := 36611.
Definition reserved_clear (fl : Z) : Prop := Z.land fl RESERVED = 0.

Definition flags_of (f : Z) : Z :=
  lz4stream_DescriptorFlags_BlockIndependenceSet (lz4stream_DescriptorFlags_VersionSet f 1) true.

Definition hdr_check (f : Z) : bool :=
  let fl := flags_of f in
  let flg := fl mod 256 in let bd := (fl / 256) mod 256 in
  if (Z.land f RESERVED =? 0) && lz4block_BlockSizeIndex_IsValid (lz4stream_DescriptorFlags_BlockSizeIndex f) then
    ((flg / 64) mod 4 =? 1) && negb (bit flg 1) && negb (bit flg 0) && negb (bit bd 7) && (bd mod 16 =? 0)
    && (match block_max ((bd / 16) mod 8) with
        | Some mx => (mx =? bsize_of_idx (lz4stream_DescriptorFlags_BlockSizeIndex fl)) && (0 <? mx) && (mx <=? 4194304)
        | None => false end)
    && Bool.eqb (bit flg 3) (lz4stream_DescriptorFlags_Size fl)
    && bit flg 5
    && Bool.eqb (bit flg 4) (lz4stream_DescriptorFlags_BlockChecksum fl)
    && Bool.eqb (bit flg 2) (lz4stream_DescriptorFlags_ContentChecksum fl)
    && Bool.eqb (lz4stream_DescriptorFlags_Size fl) (lz4stream_DescriptorFlags_Size f)
  else true.

Lemma hdr_check_all : forallb hdr_check range16 = true.
Proof. vm_compute. reflexivity. Qed.

(* what the sweep gives for one flags word *)
Lemma hdr_facts f : 0 <= f < 65536 -> reserved_clear f ->
  lz4block_BlockSizeIndex_IsValid (lz4stream_DescriptorFlags_BlockSizeIndex f) = true ->
  let fl := flags_of f in
  let flg := fl mod 256 in let bd := (fl / 256) mod 256 in
  (flg / 64) mod 4 = 1 /\ bit flg 1 = false /\ bit flg 0 = false /\ bit bd 7 = false /\ bd mod 16 = 0 /\
  (exists mx, block_max ((bd / 16) mod 8) = Some mx /\
              mx = bsize_of_idx (lz4stream_DescriptorFlags_BlockSizeIndex fl) /\ 0 < mx <= 4194304) /\
  bit flg 3 = lz4stream_DescriptorFlags_Size fl /\ bit flg 5 = true /\
  bit flg 4 = lz4stream_DescriptorFlags_BlockChecksum fl /\
  bit flg 2 = lz4stream_DescriptorFlags_ContentChecksum fl /\
  lz4stream_DescriptorFlags_Size fl = lz4stream_DescriptorFlags_Size f.
Proof.
  intros Hf Hres Hval. pose proof (sweep16 hdr_check hdr_check_all f Hf) as H.
  unfold hdr_check in H. unfold reserved_clear in Hres. rewrite Hres, Hval in H.
  change ((0 =? 0) && true) with true in H. cbv iota zeta in H. cbv zeta.
  set (fl := flags_of f) in *. set (flg := fl mod 256) in *. set (bd := (fl / 256) mod 256) in *.
  destruct (block_max ((bd / 16) mod 8)) as [mx|] eqn:Emx.
  - repeat rewrite Bool.andb_true_iff in H. rewrite !Bool.eqb_true_iff in H. rewrite !Bool.negb_true_iff in H.
    destruct H as ((((((((((H1 & H2) & H3) & H4) & H5) & ((H6 & H6b) & H6c)) & H7) & H8) & H9) & H10) & H11).
    repeat split; try assumption; try lia.
    exists mx. repeat split; try reflexivity; lia.
  - rewrite !Bool.andb_false_r in H. cbn [andb] in H. discriminate H.
Qed.

(* ------------------------------------------------------------------------------------------ *)
(* words, bytes, lists                                                                         *)
(* ------------------------------------------------------------------------------------------ *)

Lemma le32_roundtrip m : 0 <= m < 4294967296 ->
  le32 (m mod 256) ((m / 256) mod 256) ((m / 65536) mod 256) ((m / 16777216) mod 256) = m.
Proof. intros Hm. unfold le32. lia. Qed.

Lemma u32le_le32_bytes m tl : 0 <= m < 4294967296 -> u32le (le32_bytes m ++ tl) = Some (m, tl).
Proof. intros Hm. unfold le32_bytes. cbn [app u32le]. rewrite le32_roundtrip by exact Hm. reflexivity. Qed.

Lemma len_le32_bytes m : len (le32_bytes m) = 4.
Proof. reflexivity. Qed.
Lemma len_le64_bytes m : len (le64_bytes m) = 8.
Proof. reflexivity. Qed.

Lemma u64le_le64_bytes m : 0 <= m < 18446744073709551616 -> u64le (le64_bytes m) = Some (m, []).
Proof.
  intros Hm. unfold u64le, le64_bytes.
  rewrite u32le_le32_bytes by lia.
  rewrite <- (app_nil_r (le32_bytes (m / 4294967296))).
  rewrite u32le_le32_bytes by lia. f_equal. f_equal. lia.
Qed.

Lemma splitn_le0 n l acc : n <= 0 -> splitn n l acc = Some (rrev acc, l).
Proof. intros Hn. destruct l as [|x l]; cbn [splitn]; destruct (n <=? 0) eqn:E; try reflexivity; lia. Qed.
Lemma splitn_cons n x l acc : 0 < n -> splitn n (x :: l) acc = splitn (n - 1) l (x :: acc).
Proof. intros Hn. cbn [splitn]. destruct (n <=? 0) eqn:E; [lia|reflexivity]. Qed.

Lemma splitn_app : forall (a b acc : list Z), splitn (len a) (a ++ b) acc = Some (rrev acc ++ a, b).
Proof.
  induction a as [|x a IH]; intros b acc.
  - rewrite len_nil, splitn_le0 by lia. rewrite app_nil_r. reflexivity.
  - cbn [app]. rewrite splitn_cons by (rewrite len_cons; pose proof (len_nonneg a); lia).
    replace (len (x :: a) - 1) with (len a) by (rewrite len_cons; lia).
    rewrite IH. rewrite !rrev_rev. cbn [rev]. rewrite <- app_assoc. reflexivity.
Qed.
Lemma splitn_app0 (a b : list Z) n : n = len a -> splitn n (a ++ b) [] = Some (a, b).
Proof. intros ->. rewrite splitn_app. reflexivity. Qed.

(* ---- the checksum is a 32-bit word ---- *)
Lemma lxor_range32 a b : 0 <= a < 4294967296 -> 0 <= b < 4294967296 -> 0 <= Z.lxor a b < 4294967296.
Proof.
  intros Ha Hb.
  assert (E : Z.lxor a b mod 2 ^ 32 = Z.lxor a b).
  { apply Z.bits_inj'. intros n Hn. destruct (Z.ltb_spec n 32) as [Hlt|Hge].
    - apply Z.mod_pow2_bits_low. lia.
    - rewrite Z.mod_pow2_bits_high by lia. rewrite Z.lxor_spec.
      rewrite <- (Z.mod_small a (2 ^ 32)) by (change (2 ^ 32) with 4294967296; lia).
      rewrite <- (Z.mod_small b (2 ^ 32)) by (change (2 ^ 32) with 4294967296; lia).
      rewrite !Z.mod_pow2_bits_high by lia. reflexivity. }
  rewrite <- E. change (2 ^ 32) with 4294967296. apply Z.mod_pos_bound. lia.
Qed.

Lemma avalanche_range h : 0 <= avalanche h < 4294967296.
Proof.
  unfold avalanche. cbv zeta.
  set (h4 := w32 _). assert (H4 : 0 <= h4 < 4294967296) by (subst h4; unfold w32; apply Z.mod_pos_bound; lia).
  apply lxor_range32; [exact H4|].
  rewrite Z.shiftr_div_pow2 by lia. change (2 ^ 16) with 65536. lia.
Qed.

Lemma xxh32_ref_range l : 0 <= xxh32_ref l < 4294967296.
Proof. unfold xxh32_ref, finish. cbv zeta. apply avalanche_range. Qed.

Lemma checksum_zero_range l : 0 <= checksum_zero l < 4294967296.
Proof. rewrite oneshot_eq_ref. apply xxh32_ref_range. Qed.

Lemma xsum_stream data : len data < 2 ^ 64 -> xsum32 (xwrite xzero data) = xxh32_ref data.
Proof.
  intros Hl. pose proof (stream_eq_ref [data] xzero [] repr_zero) as H.
  cbn [fold_left concat app] in H. rewrite app_nil_r in H. apply H. rewrite len_nil. lia.
Qed.

(* ---- the block size word ---- *)
Lemma land_ones31 x : Z.land x 2147483647 = x mod 2147483648.
Proof. change 2147483647 with (Z.ones 31). rewrite Z.land_ones by lia. reflexivity. Qed.

Lemma word_compressed n : 0 <= n < 2147483648 ->
  lz4stream_DataBlockSize_sizeSet (lz4stream_DataBlockSize_UncompressedSet 0 false) n = n.
Proof.
  intros Hn. unfold lz4stream_DataBlockSize_sizeSet, lz4stream_DataBlockSize_UncompressedSet. cbv zeta.
  change (Z.ldiff 0 2147483648) with 0. change (Z.ldiff 0 2147483647) with 0.
  rewrite Z.lor_0_l, land_ones31. lia.
Qed.

Lemma lor_bit31 n : 0 <= n < 2147483648 -> Z.lor 2147483648 n = 2147483648 + n.
Proof.
  intros Hn.
  assert (Hl : Z.land 2147483648 n = 0).
  { replace n with (Z.land n 2147483647) by (rewrite land_ones31; lia).
    rewrite Z.land_assoc, (Z.land_comm 2147483648 n), <- Z.land_assoc.
    change (Z.land 2147483648 2147483647) with 0. apply Z.land_0_r. }
  rewrite <- Z.lxor_lor by exact Hl. symmetry. apply Z.add_nocarry_lxor. exact Hl.
Qed.

Lemma word_raw n : 0 <= n < 2147483648 ->
  lz4stream_DataBlockSize_sizeSet (lz4stream_DataBlockSize_UncompressedSet 0 true) n = 2147483648 + n.
Proof.
  intros Hn. unfold lz4stream_DataBlockSize_sizeSet, lz4stream_DataBlockSize_UncompressedSet. cbv zeta.
  change (Z.lor (Z.ldiff 0 2147483648) 2147483648) with 2147483648.
  change (Z.ldiff 2147483648 2147483647) with 2147483648.
  rewrite land_ones31. replace (n mod 4294967296 mod 2147483648) with n by lia.
  apply lor_bit31. exact Hn.
Qed.

(* ------------------------------------------------------------------------------------------ *)
(* blocks: capacity monotonicity, the compressor contract, one block through the spec          *)
(* ------------------------------------------------------------------------------------------ *)

Lemma exec_seq_mono rd c1 c2 rout s r : c1 <= c2 ->
  exec_seq rd c1 rout s = Some r -> exec_seq rd c2 rout s = Some r.
Proof.
  unfold exec_seq. intros Hc H.
  destruct (c1 <? len (rev_append (lits s) rout)) eqn:E1; [discriminate|].
  destruct (c2 <? len (rev_append (lits s) rout)) eqn:E2; [lia|].
  destruct (copy_match (Z.to_nat (mlen s)) rd (rev_append (lits s) rout) (off s)) as [x|]; [|discriminate].
  destruct (c1 <? len x) eqn:E3; [discriminate|]. destruct (c2 <? len x) eqn:E4; [lia|]. exact H.
Qed.

Lemma expand_mono rd c1 c2 : c1 <= c2 -> forall ss rout r,
  expand rd c1 rout ss = Some r -> expand rd c2 rout ss = Some r.
Proof.
  intros Hc. induction ss as [|s ss IH]; intros rout r H; cbn [expand] in *; [exact H|].
  destruct (exec_seq rd c1 rout s) as [x|] eqn:E1; [|discriminate].
  rewrite (exec_seq_mono _ _ _ _ _ _ Hc E1). apply IH. exact H.
Qed.

Lemma expand_parse_mono rd c1 c2 rout p r : c1 <= c2 ->
  expand_parse rd c1 rout p = Some r -> expand_parse rd c2 rout p = Some r.
Proof.
  unfold expand_parse. intros Hc H.
  destruct (expand rd c1 rout (fst p)) as [x|] eqn:E1; [|discriminate].
  rewrite (expand_mono _ _ _ Hc _ _ _ E1). cbv zeta in *.
  destruct (c1 <? len (rev_append (snd p) x)) eqn:L1; [discriminate|].
  destruct (c2 <? len (rev_append (snd p) x)) eqn:L2; [lia|]. exact H.
Qed.

(* a larger capacity accepts the same block with the same output *)
Lemma spec_decode_cap_mono p dict c1 c2 out : wf_parse p -> c1 <= c2 ->
  spec_decode (encode p) dict c1 = Some out -> spec_decode (encode p) dict c2 = Some out.
Proof.
  intros Hwf Hc H. rewrite spec_decode_encode in * by exact Hwf.
  destruct (expand_parse (rev dict) c1 [] p) as [r|] eqn:E; [|discriminate].
  rewrite (expand_parse_mono _ _ _ _ _ _ Hc E). exact H.
Qed.

Lemma compress_level_contract level : (level = lz4block_Fast \/ 0 < level <= 131072) ->
  contract_stmt (compress_level level).
Proof.
  intros Hl src dstlen Hb. unfold compress_level.
  destruct (level =? lz4block_Fast) eqn:E.
  - exact (fast_contract (fun _ => 0) src dstlen Hb).
  - assert (Hd : 0 <= level <= 131072) by (destruct Hl as [Hl|Hl]; [unfold lz4block_Fast in *; lia|lia]).
    exact (hc_contract level (proj1 Hd) src dstlen Hb).
Qed.

(* the word and the payload of one block *)
Definition bw_word (o : fopts) (c : list Z) : Z :=
  match compress_level (fo_level o) c (len c) with
  | COk b => lz4stream_DataBlockSize_sizeSet (lz4stream_DataBlockSize_UncompressedSet 0 false) (len b)
  | _ => lz4stream_DataBlockSize_sizeSet (lz4stream_DataBlockSize_UncompressedSet 0 true) (len c)
  end.
Definition bw_payload (o : fopts) (c : list Z) : list Z :=
  match compress_level (fo_level o) c (len c) with COk b => b | _ => c end.

Lemma block_writes_modern o c : fo_legacy o = false ->
  concat (block_writes o c) =
  le32_bytes (bw_word o c) ++ bw_payload o c ++
  (if lz4stream_DescriptorFlags_BlockChecksum (initw_flags o) then le32_bytes (checksum_zero c) else []).
Proof.
  intros Hleg. unfold block_writes, bw_word, bw_payload. rewrite Hleg. cbv zeta.
  destruct (compress_level (fo_level o) c (len c)) as [| | | |b];
    destruct (lz4stream_DescriptorFlags_BlockChecksum (initw_flags o));
    cbn [andb negb concat app]; rewrite ?app_nil_r; reflexivity.
Qed.

(* what the spec needs of the word and payload of a block of at most mx <= 4 MiB bytes *)
Lemma bw_facts o c mx : bytes c -> c <> [] -> len c <= mx -> mx <= 4194304 ->
  (fo_level o = lz4block_Fast \/ 0 < fo_level o <= 131072) ->
  let w := bw_word o c in let s := bw_payload o c in
  0 < w < 4294967296 /\ w mod 2147483648 = len s /\ 0 < len s <= mx /\
  (if 2147483648 <=? w then Some s else spec_decode_x s [] mx) = Some c.
Proof.
  intros Hb Hne Hle Hmx Hlev. cbv zeta. unfold bw_word, bw_payload.
  assert (Hpos : 0 < len c).
  { destruct c as [|x c]; [congruence|]. rewrite len_cons. pose proof (len_nonneg c). lia. }
  pose proof (compress_level_contract (fo_level o) Hlev c (len c) Hb) as Hc.
  assert (Hraw : let w := lz4stream_DataBlockSize_sizeSet (lz4stream_DataBlockSize_UncompressedSet 0 true) (len c) in
                 0 < w < 4294967296 /\ w mod 2147483648 = len c /\ 0 < len c <= mx /\
                 (if 2147483648 <=? w then Some c else spec_decode_x c [] mx) = Some c).
  { cbv zeta. rewrite word_raw by lia.
    destruct (2147483648 <=? 2147483648 + len c) eqn:E; [|lia].
    repeat split; try lia. }
  destruct (compress_level (fo_level o) c (len c)) as [| | | |b]; try exact Hraw.
  destruct Hc as (p & _ & Hbp & Hwf & _ & Hdec & Hfit).
  rewrite word_compressed by lia.
  destruct (2147483648 <=? len b) eqn:E; [lia|].
  repeat split; try lia.
  assert (Hbb : bytes b) by (rewrite Hbp; apply encode_bytes; exact Hwf).
  rewrite spec_decode_x_eq by exact Hbb. rewrite Hbp in *.
  exact (spec_decode_cap_mono p [] (len c) mx c Hwf Hle Hdec).
Qed.

Lemma spec_blocks_S f dom strict d l content : spec_blocks (S f) dom strict d l content =
  match u32le l with
  | None => None
  | Some (w, r0) =>
    if w =? 0 then Some (content, r0)
    else
      let raw := 2147483648 <=? w in
      let size := w mod 2147483648 in
      if fd_max d <? size then None else
      if strict && (size =? 0) then None else
      match splitn size r0 [] with
      | None => None
      | Some (stored, r1) =>
        let dict := if fd_indep d then [] else window64k content in
        match (if raw then Some stored else spec_decode_x stored dict (fd_max d)) with
        | None => None
        | Some dec =>
          match (if fd_bc d then
                   match u32le r1 with
                   | None => None
                   | Some (cs, r2) =>
                     if cs =? xxh32_ref (match dom with Stored => stored | Decoded => dec end)
                     then Some r2 else None
                   end
                 else Some r1) with
          | None => None
          | Some r2 => spec_blocks f dom strict d r2 (content ++ dec)
          end
        end
      end
  end.
Proof. reflexivity. Qed.

(* one block, abstractly: size word w, stored bytes s, decoded bytes c *)
Lemma block_step_gen f strict d w s c rest content :
  fd_indep d = true -> 0 < w < 4294967296 -> w mod 2147483648 = len s -> 0 < len s <= fd_max d ->
  (if 2147483648 <=? w then Some s else spec_decode_x s [] (fd_max d)) = Some c ->
  spec_blocks (S f) Decoded strict d
    (le32_bytes w ++ s ++ (if fd_bc d then le32_bytes (checksum_zero c) else []) ++ rest) content
  = spec_blocks f Decoded strict d rest (content ++ c).
Proof.
  intros Hind Hw Hsz Hlen Hdec. rewrite spec_blocks_S.
  rewrite u32le_le32_bytes by lia.
  destruct (w =? 0) eqn:E0; [lia|]. cbv zeta. rewrite Hsz.
  destruct (fd_max d <? len s) eqn:E1; [lia|].
  destruct (len s =? 0) eqn:E2; [lia|]. rewrite Bool.andb_false_r.
  rewrite splitn_app0 by reflexivity. rewrite Hind, Hdec.
  destruct (fd_bc d).
  - rewrite u32le_le32_bytes by apply checksum_zero_range.
    rewrite oneshot_eq_ref, Z.eqb_refl. reflexivity.
  - reflexivity.
Qed.

(* the descriptor the header of options o announces *)
Definition desc_of_opts (o : fopts) : fdesc :=
  mkfd true (lz4stream_DescriptorFlags_BlockChecksum (initw_flags o))
       (lz4stream_DescriptorFlags_ContentChecksum (initw_flags o))
       (if lz4stream_DescriptorFlags_Size (initw_flags o) then Some (fo_csize o) else None)
       (bsz_of o).

(* PER-BLOCK LEMMA: the writes of one block (non-empty, at most the block size) are one step of the
   specification's block reader, which appends exactly the block's source bytes to the content *)
Lemma block_writes_step f strict o c rest content :
  fo_legacy o = false -> bytes c -> c <> [] -> len c <= bsz_of o -> bsz_of o <= 4194304 ->
  (fo_level o = lz4block_Fast \/ 0 < fo_level o <= 131072) ->
  spec_blocks (S f) Decoded strict (desc_of_opts o) (concat (block_writes o c) ++ rest) content
  = spec_blocks f Decoded strict (desc_of_opts o) rest (content ++ c).
Proof.
  intros Hleg Hb Hne Hle Hmx Hlev.
  rewrite block_writes_modern by exact Hleg.
  destruct (bw_facts o c (bsz_of o) Hb Hne Hle Hmx Hlev) as (Hw & Hsz & Hlen & Hdec).
  rewrite <- !app_assoc.
  apply (block_step_gen f strict (desc_of_opts o) (bw_word o c) (bw_payload o c) c rest content);
    try assumption; reflexivity.
Qed.

(* ------------------------------------------------------------------------------------------ *)
(* the header                                                                                  *)
(* ------------------------------------------------------------------------------------------ *)

Lemma hc_eq d : (Z.shiftr (checksum_zero d) 8) mod 256 = (xxh32_ref d / 256) mod 256.
Proof. rewrite oneshot_eq_ref, Z.shiftr_div_pow2 by lia. reflexivity. Qed.

(* a descriptor whose fixed bits are right, with its size field and checksum byte *)
Lemma parse_desc_gen flg bd mx cs rest :
  (flg / 64) mod 4 = 1 -> bit flg 1 = false -> bit flg 0 = false -> bit bd 7 = false -> bd mod 16 = 0 ->
  block_max ((bd / 16) mod 8) = Some mx -> 0 <= cs < 18446744073709551616 ->
  let szb := if bit flg 3 then le64_bytes cs else [] in
  parse_desc true (flg :: bd :: szb ++ [(xxh32_ref (flg :: bd :: szb) / 256) mod 256] ++ rest)
  = Some (mkfd (bit flg 5) (bit flg 4) (bit flg 2) (if bit flg 3 then Some cs else None) mx, rest).
Proof.
  intros Hv H1 H0 H7 Hlow Hmx Hcs. cbv zeta. unfold parse_desc.
  rewrite Hv, H1, H0, H7, Hlow, Hmx. change (1 =? 1) with true. change (0 =? 0) with true.
  cbn [negb orb andb].
  destruct (bit flg 3) eqn:E3.
  - rewrite (splitn_app0 (le64_bytes cs)) by reflexivity.
    cbn [app]. rewrite Z.eqb_refl. rewrite u64le_le64_bytes by exact Hcs. reflexivity.
  - cbn [app]. rewrite Z.eqb_refl. reflexivity.
Qed.

Definition opts_ok (o : fopts) : Prop :=
  fo_legacy o = false /\ 0 <= fo_flags o < 65536 /\ reserved_clear (fo_flags o) /\
  lz4block_BlockSizeIndex_IsValid (lz4stream_DescriptorFlags_BlockSizeIndex (fo_flags o)) = true /\
  0 <= fo_csize o < 18446744073709551616.

Lemma initw_flags_modern o : fo_legacy o = false -> initw_flags o = flags_of (fo_flags o).
Proof. intros H. unfold initw_flags, flags_of. rewrite H. reflexivity. Qed.

Lemma bsz_of_range o : opts_ok o -> 0 < bsz_of o <= 4194304.
Proof.
  intros (Hleg & Hf & Hres & Hval & Hcs).
  destruct (hdr_facts (fo_flags o) Hf Hres Hval) as (_ & _ & _ & _ & _ & (mx & _ & Hmx & Hr) & _).
  unfold bsz_of. rewrite initw_flags_modern by exact Hleg. rewrite <- Hmx. exact Hr.
Qed.

(* HEADER LEMMA: the header write is the magic followed by a descriptor that the strict
   specification parses to the descriptor of the options *)
Lemma header_parse o rest : opts_ok o ->
  exists hd, header_bytes o ++ rest = le32_bytes MAGIC ++ hd ++ rest /\
             parse_desc true (hd ++ rest) = Some (desc_of_opts o, rest).
Proof.
  intros (Hleg & Hf & Hres & Hval & Hcs).
  destruct (hdr_facts (fo_flags o) Hf Hres Hval)
    as (Hv & H1 & H0 & H7 & Hlow & (mx & Hbm & Hmx & Hr) & H3 & H5 & H4 & H2 & Hsz).
  unfold header_bytes, magic_of, desc_of_opts, bsz_of. rewrite Hleg. cbv zeta.
  rewrite (initw_flags_modern o Hleg).
  set (fl := flags_of (fo_flags o)) in *.
  set (flg := fl mod 256) in *. set (bd := (fl / 256) mod 256) in *.
  rewrite <- H3, <- H4, <- H2, <- Hmx.
  eexists. split.
  - rewrite <- app_assoc. reflexivity.
  - rewrite hc_eq. cbn [app]. rewrite <- app_assoc.
    pose proof (parse_desc_gen flg bd mx (fo_csize o) rest Hv H1 H0 H7 Hlow Hbm Hcs) as Hp.
    cbv zeta in Hp. rewrite H5 in Hp. exact Hp.
Qed.

(* ------------------------------------------------------------------------------------------ *)
(* the sequence of blocks                                                                      *)
(* ------------------------------------------------------------------------------------------ *)

Definition good_chunk (bsz : Z) (c : list Z) : Prop := bytes c /\ c <> [] /\ len c <= bsz.

Lemma chunks_spec bsz : 0 < bsz -> forall f data, (length data < f)%nat -> bytes data ->
  concat (chunks f bsz data) = data /\ Forall (good_chunk bsz) (chunks f bsz data).
Proof.
  intros Hb. induction f as [|f IH]; intros data Hf Hby; [lia|].
  cbn [chunks]. destruct data as [|x tl] eqn:Ed; [split; [reflexivity|constructor]|].
  rewrite <- Ed in *. assert (Hne : data <> []) by (rewrite Ed; discriminate).
  destruct (len data <=? bsz) eqn:E.
  - cbn [concat]. rewrite app_nil_r. split; [reflexivity|].
    constructor; [|constructor]. repeat split; [exact Hby|exact Hne|lia].
  - assert (Hlen : (Z.to_nat bsz <= length data)%nat) by (unfold len in E; lia).
    destruct (IH (skipn (Z.to_nat bsz) data)) as [Hc Hg].
    + rewrite skipn_length. lia.
    + apply bytes_skipn. exact Hby.
    + cbn [concat]. rewrite Hc. split; [apply firstn_skipn|].
      constructor; [|exact Hg].
      assert (Hfl : length (firstn (Z.to_nat bsz) data) = Z.to_nat bsz) by (apply firstn_length_le; exact Hlen).
      repeat split.
      * apply bytes_firstn. exact Hby.
      * intros Habs. rewrite Habs in Hfl. cbn [length] in Hfl. lia.
      * unfold len. rewrite Hfl. lia.
Qed.

Lemma blocks_length o : fo_legacy o = false -> forall cs,
  (length cs <= length (concat (flat_map (block_writes o) cs)))%nat.
Proof.
  intros Hleg. induction cs as [|c cs IH]; [cbn; lia|].
  cbn [flat_map]. rewrite concat_app, app_length, (block_writes_modern o c Hleg).
  rewrite app_length. unfold le32_bytes at 1. cbn [length]. lia.
Qed.

Lemma blocks_seq strict o : fo_legacy o = false -> bsz_of o <= 4194304 ->
  (fo_level o = lz4block_Fast \/ 0 < fo_level o <= 131072) ->
  forall cs fuel rest content, Forall (good_chunk (bsz_of o)) cs -> (length cs < fuel)%nat ->
  spec_blocks fuel Decoded strict (desc_of_opts o)
    (concat (flat_map (block_writes o) cs) ++ [0; 0; 0; 0] ++ rest) content
  = Some (content ++ concat cs, rest).
Proof.
  intros Hleg Hmx Hlev. induction cs as [|c cs IH]; intros fuel rest content Hg Hf.
  - destruct fuel as [|f]; [cbn [length] in Hf; lia|].
    cbn [flat_map concat app]. rewrite spec_blocks_S. cbn [u32le].
    change (le32 0 0 0 0) with 0. change (0 =? 0) with true. cbv iota.
    rewrite app_nil_r. reflexivity.
  - destruct fuel as [|f]; [cbn [length] in Hf; lia|].
    inversion Hg as [|? ? (Hb & Hne & Hle) Hgs]; subst.
    cbn [flat_map]. rewrite concat_app, <- app_assoc.
    rewrite (block_writes_step f strict o c _ content Hleg Hb Hne Hle Hmx Hlev).
    rewrite IH; [|exact Hgs|cbn [length] in Hf; lia].
    cbn [concat]. rewrite app_assoc. reflexivity.
Qed.

(* ------------------------------------------------------------------------------------------ *)
(* the whole frame                                                                             *)
(* ------------------------------------------------------------------------------------------ *)

Lemma frame_spec_fuel_S f dom strict l : frame_spec_fuel (S f) dom strict l =
  match u32le l with
  | None => None
  | Some (m, r0) =>
    if (SKIP_LO <=? m) && (m <=? SKIP_HI) then
      match u32le r0 with
      | None => None
      | Some (n, r1) => match splitn n r1 [] with None => None | Some (_, r2) => frame_spec_fuel f dom strict r2 end
      end
    else if m =? MAGIC_LEGACY then spec_legacy (S (length r0)) strict r0 []
    else if m =? MAGIC then
      match parse_desc strict r0 with
      | None => None
      | Some (d, r1) =>
        match spec_blocks (S (length r1)) dom strict d r1 [] with
        | None => None
        | Some (content, r2) =>
          match (if fd_cc d then
                   match u32le r2 with
                   | None => None
                   | Some (cs, r3) => if cs =? xxh32_ref content then Some r3 else None
                   end
                 else Some r2) with
          | None => None
          | Some r3 =>
            if strict && match fd_size d with Some s => negb (s =? len content) | None => false end
            then None else Some (content, r3)
          end
        end
      end
    else None
  end.
Proof. reflexivity. Qed.

Definition cc_tail (o : fopts) (data : list Z) : list Z :=
  if lz4stream_DescriptorFlags_ContentChecksum (initw_flags o) then le32_bytes (xsum32 (xwrite xzero data)) else [].

Lemma frame_encode_shape o data : fo_legacy o = false ->
  frame_encode o data =
  header_bytes o ++ concat (flat_map (block_writes o) (chunks (S (length data)) (bsz_of o) data))
  ++ [0; 0; 0; 0] ++ cc_tail o data.
Proof.
  intros Hleg. unfold frame_encode, frame_of_segments, close_writes, cc_tail. rewrite Hleg.
  cbn [flat_map concat]. rewrite !app_nil_r. reflexivity.
Qed.

Lemma close_writes_modern o data : fo_legacy o = false ->
  concat (close_writes o data) = [0; 0; 0; 0] ++ cc_tail o data.
Proof. intros Hleg. unfold close_writes, cc_tail. rewrite Hleg. cbn [concat]. rewrite app_nil_r. reflexivity. Qed.

(* C09 for an ARBITRARY list of blocks (each non-empty, bytes, at most the block size): the header,
   the writes of the blocks and the closing write form a frame the strict specification accepts,
   with the concatenation of the blocks as content *)
Theorem encode_spec_blocks : forall o blocks, opts_ok o -> Forall (good_chunk (bsz_of o)) blocks ->
  (lz4stream_DescriptorFlags_Size (fo_flags o) = true -> fo_csize o = len (concat blocks)) ->
  (fo_level o = lz4block_Fast \/ 0 < fo_level o <= 131072) -> len (concat blocks) < 2 ^ 64 ->
  let frame := header_bytes o ++ concat (flat_map (block_writes o) blocks)
               ++ concat (close_writes o (concat blocks)) in
  frame_spec Decoded true frame = Some (concat blocks, len frame).
Proof.
  intros o cs Hok Hgood Hsize Hlev Hlen. cbv zeta.
  pose proof (bsz_of_range o Hok) as Hbsz.
  pose proof Hok as (Hleg & Hf & Hres & Hval & Hcs).
  set (data := concat cs) in *.
  rewrite (close_writes_modern o data Hleg).
  set (rest := concat (flat_map (block_writes o) cs) ++ [0; 0; 0; 0] ++ cc_tail o data).
  destruct (header_parse o rest Hok) as (hd & Hshape & Hparse).
  rewrite Hshape. unfold frame_spec. rewrite frame_spec_fuel_S.
  rewrite u32le_le32_bytes by (unfold MAGIC; lia).
  change ((SKIP_LO <=? MAGIC) && (MAGIC <=? SKIP_HI)) with false.
  change (MAGIC =? MAGIC_LEGACY) with false. change (MAGIC =? MAGIC) with true. cbv iota.
  rewrite Hparse.
  assert (Hfuel : (length cs < S (length rest))%nat).
  { pose proof (blocks_length o Hleg cs) as Hl. subst rest. rewrite app_length. lia. }
  subst rest.
  rewrite (blocks_seq true o Hleg ltac:(lia) Hlev cs _ (cc_tail o data) [] Hgood Hfuel).
  cbn [app]. fold data.
  assert (Hcc : (if fd_cc (desc_of_opts o) then
                   match u32le (cc_tail o data) with
                   | None => None
                   | Some (c, r3) => if c =? xxh32_ref data then Some r3 else None
                   end
                 else Some (cc_tail o data)) = Some []).
  { unfold desc_of_opts, cc_tail. cbn [fd_cc].
    destruct (lz4stream_DescriptorFlags_ContentChecksum (initw_flags o)); [|reflexivity].
    rewrite xsum_stream by exact Hlen.
    rewrite <- (app_nil_r (le32_bytes (xxh32_ref data))).
    rewrite u32le_le32_bytes by apply xxh32_ref_range. rewrite Z.eqb_refl. reflexivity. }
  rewrite Hcc.
  assert (Hsz : match fd_size (desc_of_opts o) with Some s => negb (s =? len data) | None => false end = false).
  { unfold desc_of_opts. cbn [fd_size]. rewrite (initw_flags_modern o Hleg).
    destruct (hdr_facts (fo_flags o) Hf Hres Hval) as (_ & _ & _ & _ & _ & _ & _ & _ & _ & _ & Hs).
    rewrite Hs. destruct (lz4stream_DescriptorFlags_Size (fo_flags o)) eqn:E; [|reflexivity].
    rewrite (Hsize eq_refl), Z.eqb_refl. reflexivity. }
  rewrite Hsz. cbn [andb]. change (len (@nil Z)) with 0. rewrite Z.sub_0_r. reflexivity.
Qed.

(* C09, general form *)
Theorem encode_spec_gen : forall o data, opts_ok o -> bytes data ->
  (lz4stream_DescriptorFlags_Size (fo_flags o) = true -> fo_csize o = len data) ->
  (fo_level o = lz4block_Fast \/ 0 < fo_level o <= 131072) -> len data < 2 ^ 64 ->
  frame_spec Decoded true (frame_encode o data) = Some (data, len (frame_encode o data)).
Proof.
  intros o data Hok Hby Hsize Hlev Hlen.
  pose proof (bsz_of_range o Hok) as Hbsz.
  destruct (chunks_spec (bsz_of o) ltac:(lia) (S (length data)) data ltac:(lia) Hby) as [Hcat Hgood].
  unfold frame_encode, frame_of_segments. cbn [flat_map concat]. rewrite !app_nil_r.
  set (cs := chunks (S (length data)) (bsz_of o) data) in *.
  pose proof (encode_spec_blocks o cs Hok Hgood) as H. cbv zeta in H. rewrite Hcat in H.
  exact (H Hsize Hlev Hlen).
Qed.

(* C09 with the hypotheses of encode_spec_stmt plus the three it lacks (see the refutations below):
   reserved descriptor bits clear, Size flag set exactly when a positive size is configured, and
   fewer than 2^64 bytes of content *)
Theorem encode_spec_fixed :
  forall o data, modern o -> bytes data -> (fo_csize o = 0 \/ fo_csize o = len data) ->
  lz4block_BlockSizeIndex_IsValid (lz4stream_DescriptorFlags_BlockSizeIndex (fo_flags o)) = true ->
  0 <= fo_flags o < 65536 -> 0 <= fo_csize o < 18446744073709551616 ->
  (fo_level o = lz4block_Fast \/ 0 < fo_level o <= 131072) ->
  Z.land (fo_flags o) 36611 = 0 ->
  lz4stream_DescriptorFlags_Size (fo_flags o) = (0 <? fo_csize o) ->
  len data < 2 ^ 64 ->
  frame_spec Decoded true (frame_encode o data) = Some (data, len (frame_encode o data)).
Proof.
  intros o data Hmod Hby Hcsz Hval Hf Hcs Hlev Hres Hflag Hlen.
  apply encode_spec_gen; try assumption.
  - repeat split; try assumption; lia.
  - intros Hs. rewrite Hs in Hflag. lia.
Qed.

(* the statement as written is false: (1) a reserved bit set in the flags, (2) the Size flag set with
   a zero configured size *)
Theorem encode_spec_stmt_false_reserved : ~ encode_spec_stmt.
Proof.
  intros H. specialize (H (mkfo 28673 0 0 false) [1]).
  assert (Hb : bytes [1]) by (repeat constructor; unfold is_byte; lia).
  specialize (H eq_refl Hb (or_introl eq_refl) eq_refl ltac:(cbn [fo_flags]; lia) ltac:(cbn [fo_csize]; lia) (or_introl eq_refl)).
  vm_compute in H. discriminate H.
Qed.
Theorem encode_spec_stmt_false_size : ~ encode_spec_stmt.
Proof.
  intros H. specialize (H (mkfo 28680 0 0 false) [1]).
  assert (Hb : bytes [1]) by (repeat constructor; unfold is_byte; lia).
  specialize (H eq_refl Hb (or_introl eq_refl) eq_refl ltac:(cbn [fo_flags]; lia) ltac:(cbn [fo_csize]; lia) (or_introl eq_refl)).
  vm_compute in H. discriminate H.
Qed.

(* ------------------------------------------------------------------------------------------ *)
(* F10: with block checksums over the STORED bytes (the format) the emitted frame is rejected  *)
(* ------------------------------------------------------------------------------------------ *)

Definition f10_opts : fopts := mkfo 28692 0 0 false.   (* NewWriter defaults + BlockChecksumOption(true) *)
Definition f10_data : list Z := repeat 7 40.

Theorem encode_spec_stored_refuted : exists o data,
  (modern o /\ bytes data /\ (fo_csize o = 0 \/ fo_csize o = len data) /\
   lz4block_BlockSizeIndex_IsValid (lz4stream_DescriptorFlags_BlockSizeIndex (fo_flags o)) = true /\
   0 <= fo_flags o < 65536 /\ 0 <= fo_csize o < 18446744073709551616 /\
   (fo_level o = lz4block_Fast \/ 0 < fo_level o <= 131072) /\
   Z.land (fo_flags o) 36611 = 0 /\
   lz4stream_DescriptorFlags_Size (fo_flags o) = (0 <? fo_csize o) /\ len data < 2 ^ 64) /\
  opts_after [OBlockChecksum true] = Some o /\
  frame_spec Decoded true (frame_encode o data) = Some (data, len (frame_encode o data)) /\
  frame_spec Stored true (frame_encode o data) = None.
Proof.
  exists f10_opts, f10_data.
  assert (Hb : bytes f10_data) by (apply bytesb_bytes; vm_compute; reflexivity).
  split; [|split; [|split]].
  - split; [reflexivity|]. split; [exact Hb|]. split; [left; reflexivity|]. split; [reflexivity|].
    split; [cbn [f10_opts fo_flags]; lia|]. split; [cbn [f10_opts fo_csize]; lia|].
    split; [left; reflexivity|]. split; [reflexivity|]. split; [reflexivity|]. vm_compute. reflexivity.
  - vm_compute. reflexivity.
  - vm_compute. reflexivity.
  - vm_compute. reflexivity.
Qed.

(* ------------------------------------------------------------------------------------------ *)
(* the header carries the configured size                                                      *)
(* ------------------------------------------------------------------------------------------ *)

Lemma skipn4_le32 m (l : list Z) : skipn 4 (le32_bytes m ++ l) = l.
Proof. reflexivity. Qed.

(* the strict descriptor parser (version bits 01, reserved bits zero) accepts the emitted header;
   the size field is present exactly when the Size flag is set and holds the configured size *)
Theorem encode_spec_size : forall o data, opts_ok o ->
  exists d rest, parse_desc true (skipn 4 (frame_encode o data)) = Some (d, rest) /\
    d = desc_of_opts o /\
    fd_size d = (if lz4stream_DescriptorFlags_Size (fo_flags o) then Some (fo_csize o) else None) /\
    fd_max d = bsz_of o /\ fd_indep d = true.
Proof.
  intros o data Hok. pose proof Hok as (Hleg & Hf & Hres & Hval & Hcs).
  rewrite (frame_encode_shape o data Hleg).
  match goal with |- context [header_bytes o ++ ?r] => set (rest := r) end.
  destruct (header_parse o rest Hok) as (hd & Hshape & Hparse).
  rewrite Hshape, skipn4_le32. exists (desc_of_opts o), rest.
  split; [exact Hparse|]. split; [reflexivity|]. split; [|split; reflexivity].
  unfold desc_of_opts. cbn [fd_size]. rewrite (initw_flags_modern o Hleg).
  destruct (hdr_facts (fo_flags o) Hf Hres Hval) as (_ & _ & _ & _ & _ & _ & _ & _ & _ & _ & Hs).
  rewrite Hs. reflexivity.
Qed.

(* with the Size flag as SizeOption sets it: the field is present iff the configured size is positive *)
Corollary encode_spec_size_opt : forall o data, opts_ok o ->
  lz4stream_DescriptorFlags_Size (fo_flags o) = (0 <? fo_csize o) ->
  exists d rest, parse_desc true (skipn 4 (frame_encode o data)) = Some (d, rest) /\
    fd_size d = (if 0 <? fo_csize o then Some (fo_csize o) else None).
Proof.
  intros o data Hok Hflag. destruct (encode_spec_size o data Hok) as (d & rest & Hp & _ & Hs & _).
  exists d, rest. split; [exact Hp|]. rewrite Hs, Hflag. reflexivity.
Qed.

(* ------------------------------------------------------------------------------------------ *)
(* options as the Writer applies them satisfy the side conditions                              *)
(* ------------------------------------------------------------------------------------------ *)

Definition fl_ok (f : Z) : bool := (0 <=? f) && (f <? 65536) && (Z.land f RESERVED =? 0).
Lemma fl_ok_spec f : fl_ok f = true <-> 0 <= f < 65536 /\ reserved_clear f.
Proof. unfold fl_ok, reserved_clear. lia. Qed.

Definition BSI := lz4stream_DescriptorFlags_BlockSizeIndex.
Definition SZ := lz4stream_DescriptorFlags_Size.
(* a setter result keeps range and reserved bits; [sz] and [bi] are the expected Size flag and
   block-size index afterwards *)
Definition set_ok (f' : Z) (sz : bool) (bi : Z) : bool :=
  fl_ok f' && Bool.eqb (SZ f') sz && (BSI f' =? bi).
Lemma set_ok_spec f' sz bi : set_ok f' sz bi = true ->
  (0 <= f' < 65536 /\ reserved_clear f') /\ SZ f' = sz /\ BSI f' = bi.
Proof.
  unfold set_ok. rewrite !Bool.andb_true_iff, Bool.eqb_true_iff, fl_ok_spec. intros [[H1 H2] H3].
  split; [exact H1|]. split; [exact H2|]. lia.
Qed.

Definition set_check (f : Z) : bool :=
  if Z.land f RESERVED =? 0 then
    forallb (fun b =>
      set_ok (lz4stream_DescriptorFlags_BlockChecksumSet f b) (SZ f) (BSI f)
      && set_ok (lz4stream_DescriptorFlags_ContentChecksumSet f b) (SZ f) (BSI f)
      && set_ok (lz4stream_DescriptorFlags_SizeSet f b) b (BSI f)) [true; false]
    && forallb (fun i => set_ok (lz4stream_DescriptorFlags_BlockSizeIndexSet f i) (SZ f) i) [0; 3; 4; 5; 6; 7]
  else true.
Lemma set_check_all : forallb set_check range16 = true.
Proof. vm_compute. reflexivity. Qed.

Lemma set_facts f : 0 <= f < 65536 -> reserved_clear f ->
  (forall b, set_ok (lz4stream_DescriptorFlags_BlockChecksumSet f b) (SZ f) (BSI f) = true) /\
  (forall b, set_ok (lz4stream_DescriptorFlags_ContentChecksumSet f b) (SZ f) (BSI f) = true) /\
  (forall b, set_ok (lz4stream_DescriptorFlags_SizeSet f b) b (BSI f) = true) /\
  (forall i, In i [0; 3; 4; 5; 6; 7] -> set_ok (lz4stream_DescriptorFlags_BlockSizeIndexSet f i) (SZ f) i = true).
Proof.
  intros Hf Hres. pose proof (sweep16 set_check set_check_all f Hf) as H.
  unfold set_check in H. unfold reserved_clear in Hres. rewrite Hres in H.
  change (0 =? 0) with true in H. cbv iota in H.
  apply Bool.andb_true_iff in H. destruct H as [Hb Hi].
  rewrite forallb_forall in Hb, Hi.
  assert (HB : forall b : bool, In b [true; false]) by (intros [|]; cbn [In]; auto).
  repeat split.
  - intros b. specialize (Hb b (HB b)). repeat rewrite Bool.andb_true_iff in Hb. tauto.
  - intros b. specialize (Hb b (HB b)). repeat rewrite Bool.andb_true_iff in Hb. tauto.
  - intros b. specialize (Hb b (HB b)). repeat rewrite Bool.andb_true_iff in Hb. tauto.
  - exact Hi.
Qed.

(* what every option application preserves: flags in range with the reserved bits clear, the Size
   flag set exactly for a positive configured size, a block-size index of the current format, a
   named level *)
Definition opts_inv (fo : fopts) : Prop :=
  (0 <= fo_flags fo < 65536 /\ reserved_clear (fo_flags fo)) /\
  lz4stream_DescriptorFlags_Size (fo_flags fo) = (0 <? fo_csize fo) /\
  valid_level (fo_level fo) = true /\
  lz4block_BlockSizeIndex_IsValid (lz4stream_DescriptorFlags_BlockSizeIndex (fo_flags fo)) = true.

Lemma index_cases size : In (lz4block_Index size) [0; 3; 4; 5; 6; 7].
Proof.
  unfold lz4block_Index.
  repeat match goal with |- context [if ?c then _ else _] => destruct c end; cbn [In]; auto 10.
Qed.

Lemma apply_opt_inv w op w' e : opts_inv (w_opts w) -> apply_opt w op = (w', e) -> opts_inv (w_opts w').
Proof.
  intros ((Hf & Hres) & Hsz & Hlv & Hbv) H. unfold opts_inv.
  destruct (set_facts (fo_flags (w_opts w)) Hf Hres) as (Hbc & Hcc & Hss & Hbs).
  unfold SZ, BSI in *.
  unfold apply_opt in H. cbv zeta in H.
  destruct op as [size|b|b|n|l|n|b].
  - destruct (lz4block_BlockSizeIndex_IsValid (lz4block_Index size)) eqn:Ev.
    + injection H as <- _. cbn [w_opts fo_flags fo_csize fo_level].
      destruct (set_ok_spec _ _ _ (Hbs _ (index_cases size))) as (Hok & Hs & Hb). unfold SZ, BSI in *.
      split; [exact Hok|]. split; [rewrite Hs; exact Hsz|]. split; [exact Hlv|rewrite Hb; exact Ev].
    + injection H as <- _. exact (conj (conj Hf Hres) (conj Hsz (conj Hlv Hbv))).
  - injection H as <- _. cbn [w_opts fo_flags fo_csize fo_level].
    destruct (set_ok_spec _ _ _ (Hbc b)) as (Hok & Hs & Hb). unfold SZ, BSI in *.
    split; [exact Hok|]. split; [rewrite Hs; exact Hsz|]. split; [exact Hlv|rewrite Hb; exact Hbv].
  - injection H as <- _. cbn [w_opts fo_flags fo_csize fo_level].
    destruct (set_ok_spec _ _ _ (Hcc b)) as (Hok & Hs & Hb). unfold SZ, BSI in *.
    split; [exact Hok|]. split; [rewrite Hs; exact Hsz|]. split; [exact Hlv|rewrite Hb; exact Hbv].
  - injection H as <- _. cbn [w_opts fo_flags fo_csize fo_level].
    destruct (set_ok_spec _ _ _ (Hss (0 <? n))) as (Hok & Hs & Hb). unfold SZ, BSI in *.
    split; [exact Hok|]. split; [exact Hs|]. split; [exact Hlv|rewrite Hb; exact Hbv].
  - destruct (valid_level l) eqn:El.
    + injection H as <- _. cbn [w_opts fo_flags fo_csize fo_level]. exact (conj (conj Hf Hres) (conj Hsz (conj El Hbv))).
    + injection H as <- _. exact (conj (conj Hf Hres) (conj Hsz (conj Hlv Hbv))).
  - injection H as <- _. cbn [w_opts]. exact (conj (conj Hf Hres) (conj Hsz (conj Hlv Hbv))).
  - injection H as <- _. cbn [w_opts fo_flags fo_csize fo_level]. exact (conj (conj Hf Hres) (conj Hsz (conj Hlv Hbv))).
Qed.

Definition apply_all : writer -> list wopt -> writer * ecls :=
  fix go (w : writer) (os : list wopt) : writer * ecls :=
    match os with
    | [] => (w, ENil)
    | o :: r => let '(w1, e) := apply_opt w o in match e with ENil => go w1 r | _ => (w1, e) end
    end.

Lemma apply_all_inv : forall os w w' e, opts_inv (w_opts w) -> apply_all w os = (w', e) -> opts_inv (w_opts w').
Proof.
  induction os as [|o os IH]; intros w w' e Hinv H.
  - cbn [apply_all] in H. injection H as <- _. exact Hinv.
  - cbn [apply_all] in H. destruct (apply_opt w o) as [w1 e1] eqn:E1.
    pose proof (apply_opt_inv _ _ _ _ Hinv E1) as Hinv1.
    destruct e1; try (injection H as <- _; exact Hinv1).
    exact (IH _ _ _ Hinv1 H).
Qed.

Definition w_new0 : writer := mkw 2 ENil (mkfo 28676 0 0 false) 1 0 [] [] s0 [].

Lemma opts_after_apply os o : opts_after os = Some o ->
  exists w e, apply_all w_new0 os = (w, e) /\ o = w_opts w.
Proof.
  unfold opts_after. replace (new_writer s0) with w_new0 by (vm_compute; reflexivity).
  change (wstep w_new0 (WApply os) s0) with
    (let '(w1, e) := apply_all w_new0 os in (st_check w1 e, RE e)).
  destruct (apply_all w_new0 os) as [w1 e] eqn:E. intros H.
  exists w1, e. split; [reflexivity|].
  destruct e; try discriminate H. injection H as <-.
  unfold st_check. destruct (w_state w1 =? lz4_errorState); reflexivity.
Qed.

Theorem opts_after_inv os o : opts_after os = Some o -> opts_inv o.
Proof.
  intros H. destruct (opts_after_apply os o H) as (w & e & Ha & ->).
  apply (apply_all_inv os w_new0 w e); [|exact Ha].
  unfold opts_inv, w_new0, reserved_clear. cbn [w_opts fo_flags fo_csize fo_level].
  repeat split; try lia; reflexivity.
Qed.

Lemma valid_level_range l : valid_level l = true -> l = lz4block_Fast \/ 0 < l <= 131072.
Proof.
  unfold valid_level, lz4_Fast, lz4_Level1, lz4_Level2, lz4_Level3, lz4_Level4, lz4_Level5, lz4_Level6,
    lz4_Level7, lz4_Level8, lz4_Level9, lz4block_Fast. cbn [existsb]. lia.
Qed.

(* C09 for options as a Writer holds them after Apply: any option list accepted by a new Writer,
   non-legacy, and a configured size that is absent (SizeOption(n) with n <= 0 clears the flag) or
   right.  The block-size index is one of the current format's (opts_after_inv): the defaults set
   index 7 and BlockSizeOption only accepts the four sizes with index 4..7. *)
Theorem encode_spec_opts : forall os o data, opts_after os = Some o -> modern o -> bytes data ->
  (fo_csize o <= 0 \/ fo_csize o = len data) -> len data < 2 ^ 64 ->
  frame_spec Decoded true (frame_encode o data) = Some (data, len (frame_encode o data)).
Proof.
  intros os o data Hopt Hmod Hby Hcsz Hlen.
  destruct (opts_after_inv os o Hopt) as ((Hf & Hres) & Hflag & Hlv & Hval).
  pose proof (valid_level_range _ Hlv) as Hlev.
  destruct (lz4stream_DescriptorFlags_Size (fo_flags o)) eqn:Es.
  - (* flag set: the size is positive, hence equal to len data *)
    assert (Hpos : 0 < fo_csize o) by lia.
    apply encode_spec_gen; try assumption.
    + repeat split; try assumption; try lia.
    + intros _. lia.
  - (* flag clear: the size field is not written; its value is irrelevant *)
    set (o' := mkfo (fo_flags o) 0 (fo_level o) (fo_legacy o)).
    assert (He : frame_encode o data = frame_encode o' data).
    { unfold frame_encode, frame_of_segments, bsz_of, header_bytes, block_writes, close_writes, initw_flags, magic_of.
      subst o'. cbn [fo_flags fo_level fo_legacy fo_csize]. unfold modern in Hmod. rewrite Hmod.
      destruct (hdr_facts (fo_flags o) Hf Hres Hval) as (_ & _ & _ & _ & _ & _ & _ & _ & _ & _ & Hs).
      unfold flags_of in Hs. rewrite Hs, Es. reflexivity. }
    rewrite He. apply encode_spec_gen; try assumption.
    + subst o'. repeat split; cbn [fo_flags fo_level fo_legacy fo_csize]; try assumption; lia.
    + subst o'. cbn [fo_flags]. rewrite Es. discriminate.
Qed.

(* the size field of the header, for options as a Writer holds them *)
Theorem encode_spec_size_opts : forall os o data, opts_after os = Some o -> modern o ->
  lz4block_BlockSizeIndex_IsValid (lz4stream_DescriptorFlags_BlockSizeIndex (fo_flags o)) = true ->
  0 <= fo_csize o < 18446744073709551616 ->
  exists d rest, parse_desc true (skipn 4 (frame_encode o data)) = Some (d, rest) /\
    fd_size d = (if 0 <? fo_csize o then Some (fo_csize o) else None).
Proof.
  intros os o data Hopt Hmod Hval Hcs.
  destruct (opts_after_inv os o Hopt) as ((Hf & Hres) & Hflag & Hlv & Hbsi).
  apply encode_spec_size_opt; [|exact Hflag].
  repeat split; try assumption; lia.
Qed.

(* the earlier form of encode_spec_opts, with the (now redundant) block-size hypothesis *)
Corollary encode_spec_opts_bsi : forall os o data, opts_after os = Some o -> modern o -> bytes data ->
  lz4block_BlockSizeIndex_IsValid (lz4stream_DescriptorFlags_BlockSizeIndex (fo_flags o)) = true ->
  (fo_csize o <= 0 \/ fo_csize o = len data) -> len data < 2 ^ 64 ->
  frame_spec Decoded true (frame_encode o data) = Some (data, len (frame_encode o data)).
Proof. intros os o data Hopt Hmod Hby _ Hcsz Hlen. exact (encode_spec_opts os o data Hopt Hmod Hby Hcsz Hlen). Qed.

(* encode_spec_size_opts without the block-size hypothesis *)
Corollary encode_spec_size_opts_strong : forall os o data, opts_after os = Some o -> modern o ->
  0 <= fo_csize o < 18446744073709551616 ->
  exists d rest, parse_desc true (skipn 4 (frame_encode o data)) = Some (d, rest) /\
    fd_size d = (if 0 <? fo_csize o then Some (fo_csize o) else None).
Proof.
  intros os o data Hopt Hmod Hcs.
  destruct (opts_after_inv os o Hopt) as (_ & _ & _ & Hval).
  exact (encode_spec_size_opts os o data Hopt Hmod Hval Hcs).
Qed.

(* encode_spec_stmt itself (FrameTheoremsSpec.v) is FALSE: see encode_spec_stmt_false_reserved and
   encode_spec_stmt_false_size; encode_spec_fixed / encode_spec_gen / encode_spec_opts replace it. *)

Print Assumptions encode_spec_blocks.
Print Assumptions encode_spec_gen.
Print Assumptions encode_spec_fixed.
Print Assumptions encode_spec_opts.
Print Assumptions encode_spec_opts_bsi.
Print Assumptions encode_spec_size_opts_strong.
Print Assumptions encode_spec_stmt_false_reserved.
Print Assumptions encode_spec_stmt_false_size.
Print Assumptions encode_spec_stored_refuted.
Print Assumptions encode_spec_size.
Print Assumptions encode_spec_size_opt.
Print Assumptions encode_spec_size_opts.
Print Assumptions block_writes_step.
Print Assumptions header_parse.
Print Assumptions opts_after_inv.
