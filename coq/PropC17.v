(* C17 — Writer and Reader follow their lifecycle for every call sequence.
   Writer theorems (LifecycleProofs.v); the Reader lifecycle theorems are added from ReaderProofs. *)
From LZ4V Require Import Base GenBlock GenStream GenLz4 XXH32 BlockFormat FrameSpec FrameImpl Writer Reader FrameTheoremsSpec Lifecycle LifecycleProofs ReaderProofs ReaderSpec2 ReaderProofs2.
(* for EVERY sequence of calls (Apply, Write, ReadFrom, Flush, Close, Reset), misuse included, every
   call's result is the reference machine's (Lifecycle.v: four phases, no blocks, no buffers, no sink) *)
Theorem C17_writer_results : writer_refines_stmt.   Proof. exact writer_refines. Qed.
Print Assumptions C17_writer_results.
Theorem C17_writer_state : writer_abs_stmt.         Proof. exact writer_abs. Qed.
Print Assumptions C17_writer_state.
(* data accepted between a Reset and a Close is emitted exactly once, in call order, as one frame:
   whenever the reference machine has closed an epoch, the sink is a frame of the strict
   specification whose content is exactly the data accepted in that epoch *)
Theorem C17_writer_output : writer_epoch_output_stmt.  Proof. exact writer_epoch_output. Qed.
Print Assumptions C17_writer_output.
(* after Close (or a failure) no call but Reset emits anything: further writes fail without output,
   a second Close emits nothing *)
Theorem C17_writer_quiet : writer_quiet_stmt.       Proof. exact writer_quiet. Qed.
Print Assumptions C17_writer_quiet.
(* Reset makes the object indistinguishable from a new one with the same options, for every
   continuation: same results, same output *)
Theorem C17_writer_reset : writer_reset_stmt.       Proof. exact writer_reset. Qed.
Print Assumptions C17_writer_reset.
(* after Flush on a sequential Writer the sink holds a decodable prefix containing everything
   written so far (appending the end mark gives a frame of the specification) *)
Theorem C17_writer_flush : writer_flush_stmt.       Proof. exact writer_flush. Qed.
Print Assumptions C17_writer_flush.
(* ---- Reader ---- *)
(* after the end of the stream Read keeps returning io.EOF and WriteTo (0, nil), without consuming
   anything more of the source, whatever follows the frame *)
Theorem C17_reader_ended : reader_ended_stmt.            Proof. exact reader_ended. Qed.
Print Assumptions C17_reader_ended.
Theorem C17_reader_ended_read : reader_ended_read_stmt.  Proof. exact reader_ended_read. Qed.
Print Assumptions C17_reader_ended_read.
(* Reset makes the Reader indistinguishable from a new one with the same concurrency setting *)
Theorem C17_reader_reset : reader_reset_stmt.            Proof. exact reader_reset. Qed.
Print Assumptions C17_reader_reset.
(* no call hangs: totality of every Reader operation *)
Theorem C17_reader_total : reader_total_stmt.            Proof. exact reader_total. Qed.
Print Assumptions C17_reader_total.
