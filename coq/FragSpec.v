(* FragSpec.v — io.ReadFull over a source that fragments its reads arbitrarily (C15: "decoding results
   do not depend on how the source fragments its reads: single bytes, data returned together with
   io.EOF, zero-length reads"). *)
From LZ4V Require Import Base FrameImpl Writer Reader.

(* one Read call of an io.Reader over the remaining bytes [rem] into a buffer with room for [room]
   bytes, following the choice (k, with_eof) of the fragmentation plan:
   - nothing left: (0, io.EOF);
   - otherwise it delivers min(k, room, len rem) bytes (possibly 0: a zero-length read), and, if
     with_eof is set and these were the last bytes, returns io.EOF together with them *)
Definition frag_read (rem : list Z) (room : Z) (choice : nat * bool) : list Z * bool (* eof *) * list Z :=
  match rem with
  | [] => ([], true, [])
  | _ =>
    let n := Z.min (Z.min (Z.of_nat (fst choice)) room) (len rem) in
    let got := firstn (Z.to_nat n) rem in
    let rest := skipn (Z.to_nat n) rem in
    (got, match rest with [] => snd choice | _ => false end, rest)
  end.

(* io.ReadFull = io.ReadAtLeast(r, buf, len(buf)):
     for n < min && err == nil { nn, err = r.Read(buf[n:]); n += nn }
     if n >= min { err = nil } else if n > 0 && err == io.EOF { err = io.ErrUnexpectedEOF }
   When the plan is exhausted the source delivers everything that is asked (so a finite plan cannot
   stall ReadFull for ever). *)
Fixpoint frag_readfull (fuel : nat) (rem : list Z) (plan : list (nat * bool)) (want : Z) (acc : list Z)
  : list Z * ecls * list Z * list (nat * bool) :=
  match fuel with O => (acc, EOther, rem, plan) | S f =>
    if want <=? len acc then (acc, ENil, rem, plan) else
    let '(choice, plan') := match plan with [] => ((Z.to_nat want, false), []) | c :: p => (c, p) end in
    let '(got, eof, rem') := frag_read rem (want - len acc) choice in
    let acc' := acc ++ got in
    if eof then
      (acc', (if want <=? len acc' then ENil else match acc' with [] => EEOF | _ => EUEOF end), rem', plan')
    else frag_readfull f rem' plan' want acc'
  end.

(* what the Reader model uses: read_full on a fault-free plain source *)
Definition plain_readfull (rem : list Z) (want : Z) : list Z * ecls * list Z :=
  let '(b, e, s) := read_full (mksrc rem 0 0 0) want in (b, e, s_rem s).

(* fragmentation is irrelevant: for EVERY finite plan (with enough fuel) the bytes, the error class
   and the remaining stream are those of the unfragmented read *)
Definition frag_irrelevant_stmt : Prop :=
  forall rem plan want, 0 <= want ->
  let '(b, e, rem', _) := frag_readfull (S (length plan) + S (length rem)) rem plan want [] in
  (b, e, rem') = plain_readfull rem want.
