(* HeaderSpec.v — statements for C19 (frame header acceptance is exact). Proofs: HeaderProofs.v *)
From LZ4V Require Import Base GenBlock GenStream GenLz4 XXH32 FrameImpl Writer Reader.

Definition src_of (l : list Z) : source := mksrc l 0 0 0.
Definition hc_of (desc : list Z) : Z := (Z.shiftr (checksum_zero desc) 8) mod 256.

(* the header bytes after the magic: two descriptor bytes, the 8 size bytes iff the size bit (bit 3
   of the first byte) is set, the checksum byte, then anything *)
Definition header_input (d0 d1 : Z) (sz : list Z) (cs : Z) (rest : list Z) : list Z :=
  le32_bytes lz4stream_frameMagic ++ [d0; d1] ++ (if Z.odd (d0 / 8) then sz else []) ++ [cs] ++ rest.
Definition desc_of (d0 d1 : Z) (sz : list Z) : list Z := [d0; d1] ++ (if Z.odd (d0 / 8) then sz else []).

(* exactness: for EVERY descriptor, size field, checksum byte and continuation *)
Definition header_exact_stmt : Prop :=
  forall d0 d1 sz cs rest fuel, is_byte d0 -> is_byte d1 -> bytes sz -> length sz = 8%nat -> is_byte cs -> bytes rest ->
  let inp := header_input d0 d1 sz cs rest in
  let '(e, s', (m, fl, csize)) := parse_headers (S fuel) (src_of inp) in
  (if cs =? hc_of (desc_of d0 d1 sz)
   then if (4 <=? (d1 / 16) mod 8)   (* block-size codes 4..7 are the four defined values *)
        then e = ENil else e = EBlkSize
   else e = EHdrSum) /\
  (e = ENil -> m = lz4stream_frameMagic /\ fl = d0 + 256 * d1 /\ s_rem s' = rest /\
               csize = (if Z.odd (d0 / 8) then match FrameSpec_u64 sz with Some v => v | None => 0 end else 0)).

(* a first word that is neither a frame magic, the legacy magic nor one of the sixteen skippable
   magics is an invalid frame *)
Definition header_badmagic_stmt : Prop :=
  forall m rest fuel, 0 <= m < 4294967296 -> bytes rest ->
  m <> lz4stream_frameMagic -> m <> lz4stream_frameMagicLegacy -> ~ (407710288 <= m <= 407710303) ->
  fst (fst (parse_headers (S fuel) (src_of (le32_bytes m ++ rest)))) = EBadFrame.

(* exactly the sixteen skippable magics skip exactly the announced number of bytes *)
Definition header_skippable_stmt : Prop :=
  forall m n skipped rest fuel, 407710288 <= m <= 407710303 -> bytes skipped -> len skipped = n -> n < 4294967296 -> bytes rest ->
  parse_headers (S (S fuel)) (src_of (le32_bytes m ++ le32_bytes n ++ skipped ++ rest)) =
  let '(e, s', x) := parse_headers (S fuel) (src_of rest) in
  (e, mksrc (s_rem s') (s_calls s' + 3) (s_fail s') (s_consumed s' + 8 + n), x).

(* Size exposes the content size unchanged (as a Go int: two's complement of the 64-bit field) *)
Definition size_exposed_stmt : Prop :=
  forall r, (r_state r = lz4_readState \/ r_state r = lz4_closedState) ->
  snd (rstep r RSize) = RSz (if lz4stream_DescriptorFlags_Size (r_flags r)
                             then (if r_csize r <? 9223372036854775808 then r_csize r else r_csize r - 18446744073709551616) else 0).
