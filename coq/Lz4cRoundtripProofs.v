(* Lz4cRoundtripProofs.v — proofs of the statements of Lz4cRoundtripSpec.v (C20: lz4c compress then
   lz4c uncompress restores the files).  The three statements hold as written. *)
From Coq Require Import ZifyBool.
From LZ4V Require Import Base GenBlock GenStream GenLz4 GenLz4c XXH32 BlockFormat FrameSpec FrameImpl Writer Reader
  FrameTheoremsSpec Lifecycle ReaderSpec2 Lz4c Lz4cSpec Lz4cRoundtripSpec.
From LZ4V Require WriterProofs ReaderProofs ReaderProofs2 Lz4cProofs.

(* ====================================================================== *)
(* 1. one frame through WriteTo on a NEW reader                           *)
(* ====================================================================== *)

(* [z] is read back as [d] with a nil error by a new Reader *)
Definition good (z d : list Z) : Prop :=
  exists r', rstep (new_reader (src_of z)) RWriteTo = (r', RRes (len d) ENil d).

Lemma data_of_one d : data_of [IWrite d] = d.
Proof. change (data_of [IWrite d]) with (d ++ []). apply app_nil_r. Qed.

(* the frame of [data] for the options a Writer holds after Apply(os) is read back as [data] *)
Lemma frame_good os o data : opts_after os = Some o -> modern o -> bytes data ->
  fo_csize o <= 0 -> len data < 2 ^ 64 -> good (frame_encode o data) data.
Proof.
  intros Hopt Hmod Hb Hcs Hlen.
  assert (Hit : Forall (fun i => match i with IWrite d => bytes d | IFlush => True end) [IWrite data]).
  { constructor; [exact Hb|constructor]. }
  assert (Hlen' : len (data_of [IWrite data]) < 2 ^ 64) by (rewrite data_of_one; exact Hlen).
  assert (Hn : 0 < 1) by lia.
  pose proof (ReaderProofs2.roundtrip os o [IWrite data] 1 Hopt Hmod Hit (or_introl Hcs) Hlen' Hn) as Hrt.
  cbv zeta in Hrt.
  pose proof (WriterProofs.writer_session os [IWrite data] o Hopt Hit) as Hw.
  destruct (run_writer (new_writer s0) (WApply os :: map item_op [IWrite data] ++ [WClose]) s0) as [w res].
  cbn [fst] in Hrt. destruct Hw as (_ & Hsink & _).
  pose proof (WriterProofs.writer_chunking_opts os o [data] Hopt) as Hch.
  change (map IWrite [data]) with [IWrite data] in Hch.
  change (concat [data]) with (data ++ []) in Hch. rewrite app_nil_r in Hch.
  rewrite Hsink, Hch, data_of_one in Hrt.
  destruct Hrt as ((r' & Hr & _ & _) & _).
  exists r'. exact Hr.
Qed.

(* ====================================================================== *)
(* 2. WriteTo never changes a concurrency setting of 1                    *)
(* ====================================================================== *)

Lemma r_close_num r r2 e : r_close r = (r2, e) -> r_num r2 = r_num r.
Proof.
  unfold r_close. destruct (_ || _).
  - intros H. injection H as H1 _. subst r2. reflexivity.
  - destruct (read_u32 (r_src r)) as [[c e1] s1].
    destruct e1; intros H; injection H as H1 _; subst r2; reflexivity.
Qed.

Lemma writeto_loop_num : forall f r out r' out' e,
  r_writeto_loop f r out = (r', out', e) -> r_num r' = r_num r.
Proof.
  induction f as [|f IH]; intros r out r' out' e H; cbn [r_writeto_loop] in H.
  - injection H as H1 _ _. subst r'. reflexivity.
  - destruct (r_read_block r) as [[r1 e1] d] eqn:Eb.
    pose proof (ReaderProofs.r_read_block_fields r r1 e1 d Eb) as (_ & _ & _ & _ & _ & Hnum & _).
    destruct e1;
      try (injection H as H1 _ _; subst r'; exact Hnum).
    + (* ENil *) rewrite (IH _ _ _ _ _ H). exact Hnum.
    + (* EEOF *) destruct (r_close r1) as [r2 e2] eqn:Ec. injection H as H1 _ _. subst r'.
      rewrite (r_close_num _ _ _ Ec). exact Hnum.
Qed.

Lemma rst_next_num r e : r_num (rst_next r e) = r_num r.
Proof. destruct e; reflexivity. Qed.

Lemma r_init_num1 r r1 e : r_num r = 1 -> r_init r = (r1, e) -> r_num r1 = 1.
Proof.
  intros Hn. unfold r_init.
  destruct (if 0 <? r_magic r then (ENil, r_src r, (r_magic r, r_flags r, r_csize r))
            else parse_headers (S (length (s_rem (r_src r)))) (r_src r)) as [[e0 s1] [[m fl] cs]].
  rewrite Hn.
  destruct e0; intros H; injection H as H1 _; subst r1; cbn [r_num];
    try reflexivity; try exact Hn.
  destruct (lz4stream_DescriptorFlags_BlockIndependence fl); reflexivity.
Qed.

Lemma writeto_num1 r r' res : r_num r = 1 -> rstep r RWriteTo = (r', res) -> r_num r' = 1.
Proof.
  intros Hn H. apply (f_equal (fun p => r_num (fst p))) in H. cbn [fst] in H. rewrite <- H. clear H.
  unfold rstep.
  destruct (r_state r =? lz4_closedState); [exact Hn|].
  destruct (r_state r =? lz4_errorState); [exact Hn|].
  destruct (r_state r =? lz4_newState); [|exact Hn].
  destruct (r_init r) as [r1 e] eqn:Ei. pose proof (r_init_num1 r r1 e Hn Ei) as Hn1.
  destruct e; cbn [fst]; try (rewrite rst_next_num; exact Hn1).
  destruct (r_writeto_loop (S (length (s_rem (r_src r)))) (rset_data (rst_next r1 ENil) []) [])
    as [[r3 out] e3] eqn:El.
  cbn [fst]. rewrite rst_next_num.
  rewrite (writeto_loop_num _ _ _ _ _ _ El).
  change (r_num (rset_data (rst_next r1 ENil) [])) with (r_num (rst_next r1 ENil)).
  rewrite rst_next_num. exact Hn1.
Qed.

(* ====================================================================== *)
(* 3. the reused Reader: Reset then WriteTo is a new Reader's WriteTo     *)
(* ====================================================================== *)

(* for EVERY reader with the default concurrency (whatever it read before, in whatever state),
   Reset(z) then WriteTo returns what a new Reader over z returns, and the concurrency stays 1 *)
Lemma reset_writeto_new r z r2 res :
  r_num r = 1 -> rstep (fst (rstep r (RReset z))) RWriteTo = (r2, res) ->
  res = snd (rstep (new_reader (src_of z)) RWriteTo) /\ r_num r2 = 1.
Proof.
  intros Hn H.
  set (a := fst (rstep r (RReset z))) in *.
  assert (Ha : a = mkr lz4_newState ENil (r_num r) (mksrc z 0 0 0) 0 (r_flags r) 0 [] [] [] (r_cum r)) by reflexivity.
  assert (Hsim : ReaderProofs2.rsim a (new_reader (src_of z))).
  { rewrite Ha, Hn. unfold ReaderProofs2.rsim, new_reader, src_of.
    cbn [r_state r_serr r_num r_src r_magic r_csize r_content r_data r_dict].
    repeat split; try reflexivity. left. split; reflexivity. }
  destruct (ReaderProofs2.step_sim a (new_reader (src_of z)) RWriteTo (or_intror Hsim)) as [Hs _].
  rewrite H in Hs. cbn [snd] in Hs. split; [exact Hs|].
  apply (writeto_num1 a r2 res); [rewrite Ha; exact Hn|exact H].
Qed.

Lemma uncompress_good : forall zs ds, Forall2 good zs ds ->
  forall r, r_num r = 1 -> cmd_uncompress r zs = map (fun d => (d, ENil)) ds.
Proof.
  induction 1 as [|z d zs ds Hg _ IH]; intros r Hn; [reflexivity|].
  cbn [cmd_uncompress map].
  destruct (rstep r (RReset z)) as [r1 x] eqn:Er.
  assert (Hr1 : r1 = fst (rstep r (RReset z))) by (rewrite Er; reflexivity).
  destruct (rstep r1 RWriteTo) as [r2 res] eqn:Ew. rewrite Hr1 in Ew.
  destruct (reset_writeto_new r z r2 res Hn Ew) as [Hres Hn2].
  destruct Hg as (r' & Hr'). rewrite Hr' in Hres. cbn [snd] in Hres. subst res.
  rewrite (IH r2 Hn2). reflexivity.
Qed.

(* ====================================================================== *)
(* 4. what lz4c compress emits is good                                    *)
(* ====================================================================== *)

Lemma lz4c_opts_unfold fl : lz4c_opts fl = opts_after (options_of fl).
Proof. reflexivity. Qed.

Lemma lz4c_frame_good fl o d : valid_size (f_size fl) -> lz4c_opts fl = Some o ->
  bytes d -> len d < 2 ^ 64 -> good (frame_encode o d) d.
Proof.
  intros Hv Ho Hb Hl.
  destruct (Lz4cProofs.lz4c_opts_ok fl o Hv Ho) as (_ & _ & _ & _ & Hleg & Hcs).
  assert (Hcs0 : fo_csize o <= 0) by lia.
  assert (Hmod : modern o) by exact Hleg.
  rewrite lz4c_opts_unfold in Ho.
  exact (frame_good (options_of fl) o d Ho Hmod Hb Hcs0 Hl).
Qed.

Lemma lz4c_opts_some fl : valid_size (f_size fl) -> exists o, lz4c_opts fl = Some o.
Proof. intros Hv. eexists. apply (Lz4cProofs.lz4c_opts_explicit fl Hv). Qed.

Lemma new_reader_num s : r_num (new_reader s) = 1.
Proof. reflexivity. Qed.

Theorem lz4c_roundtrip : lz4c_roundtrip_stmt.
Proof.
  intros fl files zs r0 Hv Hb Hl Hc Hr0. subst r0.
  destruct (lz4c_opts_some fl Hv) as [o Ho].
  rewrite (Lz4cProofs.lz4c_compress fl files o Hv Hb Ho) in Hc. injection Hc as Hzs. subst zs.
  apply uncompress_good; [|apply new_reader_num].
  clear -Hv Ho Hb Hl.
  induction files as [|d files IH]; cbn [map]; [constructor|].
  inversion Hb as [|? ? Hbd Hbr]; subst. inversion Hl as [|? ? Hld Hlr]; subst.
  constructor; [|exact (IH Hbr Hlr)].
  exact (lz4c_frame_good fl o d Hv Ho Hbd Hld).
Qed.

Theorem lz4c_roundtrip_mixed : lz4c_roundtrip_mixed_stmt.
Proof.
  intros jobs r0 Hj Hr0 zs Hz. subst r0.
  rewrite <- (map_map snd (fun d : list Z => (d, ENil)) jobs).
  apply uncompress_good; [|apply new_reader_num].
  induction Hz as [|j z jobs zs Hc _ IH]; cbn [map]; [constructor|].
  inversion Hj as [|? ? Hj1 Hjr]; subst. destruct Hj1 as (Hv & Hb & Hl).
  constructor; [|exact (IH Hjr)].
  destruct (lz4c_opts_some (fst j) Hv) as [o Ho].
  assert (Hbs : Forall bytes [snd j]) by (constructor; [exact Hb|constructor]).
  rewrite (Lz4cProofs.lz4c_compress (fst j) [snd j] o Hv Hbs Ho) in Hc.
  cbn [map] in Hc. injection Hc as Hzz. subst z.
  exact (lz4c_frame_good (fst j) o (snd j) Hv Ho Hb Hl).
Qed.

Theorem lz4c_roundtrip_stdio : lz4c_roundtrip_stdio_stmt.
Proof.
  intros fl data z Hv Hb Hl Hc.
  destruct (lz4c_opts_some fl Hv) as [o Ho].
  rewrite (Lz4cProofs.lz4c_stdio fl data o Hv Hb Ho) in Hc. injection Hc as Hz. subst z.
  change [(data, ENil)] with (map (fun d : list Z => (d, ENil)) [data]).
  apply uncompress_good; [|apply new_reader_num].
  constructor; [|constructor].
  exact (lz4c_frame_good fl o data Hv Ho Hb Hl).
Qed.

Print Assumptions lz4c_roundtrip.
Print Assumptions lz4c_roundtrip_mixed.
Print Assumptions lz4c_roundtrip_stdio.
