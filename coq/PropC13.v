(* C13 — Checksums equal reference XXH32 for every input, chunking and length.
   This file holds only the property theorems; each is closed by an exact lemma. *)
From LZ4V Require Import Base GenXXH XXH32 XXH32Proofs.

(* one-shot checksum (headers, blocks) = reference, every byte string *)
Theorem C13_oneshot : forall l : list Z, checksum_zero l = xxh32_ref l.
Proof. exact oneshot_eq_ref. Qed.
Print Assumptions C13_oneshot.

(* incremental checksum (content) over ANY split into writes, empty writes included,
   every total length below 2^64 (in particular 2^32 and above) = reference *)
Theorem C13_stream : forall chunks : list (list Z), len (concat chunks) < 2 ^ 64 ->
  xsum32 (fold_left xwrite chunks xzero) = xxh32_ref (concat chunks).
Proof.
  intros cs H. apply (stream_eq_ref cs xzero []); [apply repr_zero|rewrite len_nil; lia].
Qed.
Print Assumptions C13_stream.

(* hence streaming = one-shot on the same bytes, whatever the chunking *)
Theorem C13_stream_oneshot : forall chunks, len (concat chunks) < 2 ^ 64 ->
  xsum32 (fold_left xwrite chunks xzero) = checksum_zero (concat chunks).
Proof. intros cs H. rewrite oneshot_eq_ref. apply C13_stream; exact H. Qed.
Print Assumptions C13_stream_oneshot.

(* the state after any history is a function of the concatenation only *)
Theorem C13_state : forall chunks, len (concat chunks) < 2 ^ 64 ->
  repr (fold_left xwrite chunks xzero) (concat chunks).
Proof. exact stream_state. Qed.
Print Assumptions C13_state.

(* non-vacuity: a concrete three-write history with an empty write, known value of "abc" *)
Example C13_nonvacuous :
  xsum32 (fold_left xwrite [[97]; []; [98; 99]] xzero) = 852579327 /\ xxh32_ref [97; 98; 99] = 852579327.
Proof. vm_compute. split; reflexivity. Qed.

(* the guard the tree was first found with (finding F5) is NOT equivalent *)
Theorem C13_truncated_guard_refuted : exists st, xsum32_g true st <> xsum32_g false st.
Proof. exists f5_state. exact truncated_guard_differs. Qed.
