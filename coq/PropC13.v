(* C13 — Checksums equal reference XXH32 for every input, chunking and length.
   This file holds only the property theorems; each is closed by an exact lemma. *)
From LZ4V Require Import Base GenXXH XXH32 XXH32Proofs.

(* one-shot checksum (headers, blocks) = reference, every byte string *)
Theorem C13_oneshot : forall l : list Z, checksum_zero l = xxh32_ref l.
Proof. exact oneshot_eq_ref. Qed.
Print Assumptions C13_oneshot.

(* incremental checksum (content) over ANY split into writes, empty writes included,
   every total length below 2^64 (in particular 2^32 and above) = reference *)
Theorem C13_stream : forall chunks : list (list Z), len (concat chunks) < 2 ^ 64 ->
  xsum32 (fold_left xwrite chunks xzero) = xxh32_ref (concat chunks).
Proof.
  intros cs H. apply (stream_eq_ref cs xzero []); [apply repr_zero|rewrite len_nil; lia].
Qed.
Print Assumptions C13_stream.

(* hence streaming = one-shot on the same bytes, whatever the chunking *)
Theorem C13_stream_oneshot : forall chunks, len (concat chunks) < 2 ^ 64 ->
  xsum32 (fold_left xwrite chunks xzero) = checksum_zero (concat chunks).
Proof. intros cs H. rewrite oneshot_eq_ref. apply C13_stream; exact H. Qed.
Print Assumptions C13_stream_oneshot.

(* the state after any history is a function of the concatenation only *)
Theorem C13_state : forall chunks, len (concat chunks) < 2 ^ 64 ->
  repr (fold_left xwrite chunks xzero) (concat chunks).
Proof. exact stream_state. Qed.
Print Assumptions C13_state.

(* non-vacuity: a concrete three-write history with an empty write, known value of "abc" *)
Example C13_nonvacuous :
  xsum32 (fold_left xwrite [[97]; []; [98; 99]] xzero) = 852579327 /\ xxh32_ref [97; 98; 99] = 852579327.
Proof. vm_compute. split; reflexivity. Qed.

(* the guard the tree was first found with (finding F5) is NOT equivalent *)
Theorem C13_truncated_guard_refuted : exists st, xsum32_g true st <> xsum32_g false st.
Proof. exists f5_state. exact truncated_guard_differs. Qed.
Print Assumptions C13_truncated_guard_refuted.

(* ==== the same property for the code AS TRANSLATED from internal/xxh32/xxh32zero.go on this run ====
   GenXXHBody.v is regenerated from the Go source by gen/body.go (statement by statement, over the Go
   semantics of GoT.v); the theorems below are about those translated functions, not about a hand model. *)
From LZ4V Require Import GoT GenXXHBody GenXXHBodySpec GenXXHBodyProofs.

(* checksumZeroGo: for every byte string shorter than 2^63 (any Go slice), any spare capacity of the
   argument slice, any prior contents of the frame, enough fuel: no panic, no hang, and the result is
   reference XXH32 *)
Theorem C13_translated_oneshot : forall (input spare : list Z) (s0 : state) (fuel : nat),
  len input < 2 ^ 63 -> (length input / 16 + 4 <= fuel)%nat ->
  exists s', xxh32_checksumZeroGo fuel (init_xxh32_checksumZeroGo_fresh input spare s0) = Ret s'
             /\ checksumZeroGo_ret0 s' = xxh32_ref input.
Proof. exact checksumZeroGo_ref. Qed.
Print Assumptions C13_translated_oneshot.

(* XXHZero.Write / Sum32, from the zero value of the struct: ANY split into writes (each a Go slice with
   any spare capacity), total below 2^64: every Write returns normally, Sum32 returns reference XXH32 of
   the concatenation *)
Theorem C13_translated_stream : forall (fuel : nat) (chunks : list (list Z * list Z)) (s0 : state),
  Forall (chunk_ok fuel) chunks -> (4 <= fuel)%nat ->
  len (concat (map fst chunks)) < 2 ^ 64 ->
  exists s1 s2,
    run_writes fuel chunks (zero_XXHZero s0) = Ret s1 /\
    xxh32_XXHZero_Sum32 fuel s1 = Ret s2 /\
    XXHZero_Sum32_ret0 s2 = xxh32_ref (concat (map fst chunks)).
Proof. exact stream_correct. Qed.
Print Assumptions C13_translated_stream.

(* one step: the translated Write refines the model's xwrite on every well-formed state, and Sum32 is an
   observation (it does not change the abstract state) *)
Theorem C13_translated_write : XXHZero_Write_correct_stmt.  Proof. exact XXHZero_Write_correct_ok. Qed.
Print Assumptions C13_translated_write.
Theorem C13_translated_sum32 : XXHZero_Sum32_correct_stmt.  Proof. exact XXHZero_Sum32_correct_ok. Qed.
Print Assumptions C13_translated_sum32.
Theorem C13_translated_reset : XXHZero_Reset_correct_stmt.  Proof. exact XXHZero_Reset_correct_ok. Qed.
Print Assumptions C13_translated_reset.
