(* GenCompressBodyCorollaries.v — what the equality `refines_all` (translated Compressor.CompressBlock =
   the hand model compress_fast_list) gives for the properties: the contract theorem of the model
   (BlockTheorems.fast_contract: round trip, strict validity, destination contract, no panic, no hang) and
   the independence of the stale table hold of the function AS TRANSLATED from block.go on this run. *)
From Coq Require Import ZArith List Lia Bool.
From LZ4V Require Import Base GoT GenBlock GenCompressBody BlockFormat CompressFast CompressFastTable
  CompressSpec CompressFastProofs BlockTheoremsSpec BlockTheorems GenCompressBodyProofs GenCompressBodyLoop GenCompressBodyMain.
Import ListNotations.
Open Scope Z_scope.

Lemma list_eqb_eq : forall a b, list_eqb a b = true -> a = b.
Proof.
  induction a as [|x a IH]; intros [|y b] H; cbn in H; try discriminate; [reflexivity|].
  apply andb_prop in H. destruct H as [H1 H2]. apply Z.eqb_eq in H1. subst y. f_equal. apply IH. exact H2.
Qed.

(* the result of the translated method, read off its final state *)
Definition translated_result (o : outcome state) (dst dst_spare : list Z) (src : list Z) : Prop :=
  match o with
  | Ret s' =>
    let n := Compressor_CompressBlock_ret0 s' in
    let e := Compressor_CompressBlock_ret1 s' in
    (e = 0 /\ exists b p, n = zlen b /\ 0 < n <= zlen dst /\
        mem_Compressor_CompressBlock_dst s' = b ++ skipn (length b) (dst ++ dst_spare) /\
        parse_block (S (length b)) b [] = Some p /\ b = encode p /\ wf_parse p /\ strict p = true /\
        spec_decode b [] (len src) = Some src)
    \/ (n = 0 /\ (e = 0 \/ e = 1) /\ zlen dst < GenBlock.lz4block_CompressBlockBound (zlen src))
  | _ => False
  end.

Definition translated_contract_stmt : Prop :=
  forall fuel table inUse src src_spare dst dst_spare,
    zlen table = 65536 -> Forall (fun v => 0 <= v < 65536) table ->
    zlen inUse = 2048 -> Forall (fun v => 0 <= v < 4294967296) inUse ->
    bytes src -> bytes src_spare -> bytes dst -> bytes dst_spare ->
    zlen src + zlen dst + zlen dst_spare < 2 ^ 61 ->
    (Z.to_nat (zlen src + zlen dst) + 2 <= fuel)%nat ->
    translated_result (run_translated fuel table inUse src src_spare dst dst_spare) dst dst_spare src.

Theorem translated_contract : translated_contract_stmt.
Proof.
  intros fuel table inUse src ssp dst dsp Ht Hft Hu Hfu Hs Hss Hd Hds Hsz Hfuel.
  pose proof (refines_all fuel table inUse src ssp dst dsp Ht Hft Hu Hfu Hs Hss Hd Hds Hsz Hfuel) as R.
  unfold refines_check in R.
  pose proof (fast_contract (fun h => znth table h) src (zlen dst) Hs) as C. cbv beta in C.
  unfold run_model in R.
  destruct (compress_fast_list src (fun h => znth table h) (zlen dst)) as [| | | |b] eqn:EM;
    destruct (run_translated fuel table inUse src ssp dst dsp) as [s'|s'|s'|s'|s'|] eqn:ET;
    cbn [agrees] in R; cbv iota beta in C; try discriminate; try contradiction; cbn [translated_result].
  - (* CErr *) apply andb_prop in R. destruct R as [R0 R1]. apply Z.eqb_eq in R0, R1.
    right. repeat split; [exact R0|right; exact R1|exact C].
  - (* CZero *) apply andb_prop in R. destruct R as [R0 R1]. apply Z.eqb_eq in R0, R1.
    right. repeat split; [exact R0|left; exact R1|exact C].
  - (* COk *) apply andb_prop in R. destruct R as [R01 R2]. apply andb_prop in R01. destruct R01 as [R0 R1].
    apply Z.eqb_eq in R0, R1. apply list_eqb_eq in R2.
    destruct C as (p & Hp & Hb & Hw & Hst & Hdec & Hlen).
    left. split; [exact R1|]. exists b, p. unfold len in Hlen. unfold zlen in *.
    split; [lia|]. split; [lia|]. split; [exact R2|]. split; [exact Hp|]. split; [exact Hb|].
    split; [exact Hw|]. split; [exact Hst|exact Hdec].
Qed.

(* the result does not depend on what the object's table held before the call: two objects with
   ARBITRARY (well-formed) table and bitmap contents return the same count, the same error and the same
   bytes in dst[:n] *)
Definition translated_state_indep_stmt : Prop :=
  forall fuel table1 inUse1 table2 inUse2 src src_spare dst dst_spare,
    zlen table1 = 65536 -> Forall (fun v => 0 <= v < 65536) table1 ->
    zlen inUse1 = 2048 -> Forall (fun v => 0 <= v < 4294967296) inUse1 ->
    zlen table2 = 65536 -> Forall (fun v => 0 <= v < 65536) table2 ->
    zlen inUse2 = 2048 -> Forall (fun v => 0 <= v < 4294967296) inUse2 ->
    bytes src -> bytes src_spare -> bytes dst -> bytes dst_spare ->
    zlen src + zlen dst + zlen dst_spare < 2 ^ 61 ->
    (Z.to_nat (zlen src + zlen dst) + 2 <= fuel)%nat ->
    agrees (run_model table1 src dst) (run_translated fuel table2 inUse2 src src_spare dst dst_spare) dst dst_spare = true.

Theorem translated_state_indep : translated_state_indep_stmt.
Proof.
  intros fuel t1 u1 t2 u2 src ssp dst dsp H1 H2 H3 H4 H5 H6 H7 H8 Hs Hss Hd Hds Hsz Hfuel.
  pose proof (refines_all fuel t2 u2 src ssp dst dsp H5 H6 H7 H8 Hs Hss Hd Hds Hsz Hfuel) as R.
  unfold refines_check in R. unfold run_model in *.
  rewrite (fast_state_indep src (fun h => znth t1 h) (fun h => znth t2 h) (zlen dst)). exact R.
Qed.
