(* LifecycleProofs.v — C17, Writer side: the concrete Writer model refines the reference machine of
   Lifecycle.v for EVERY sequence of calls (including misuse), by a simulation relation [R]. *)
From Coq Require Import ZifyBool.
From LZ4V Require Import Base GenBlock GenStream GenLz4 XXH32 BlockFormat BlockExec CompressFast
  FrameSpec FrameImpl Writer Reader CReader FrameTheoremsSpec WriterProofs FrameEncodeProofs FrameEncodeItems
  Lz4cProofs Lifecycle.

Ltac Zify.zify_post_hook ::= Z.div_mod_to_equations.

Ltac st_simp := cbn [lz4_writeState lz4_newState lz4_errorState lz4_closedState Z.eqb Pos.eqb orb andb].
Ltac st_simp_in H := cbn [lz4_writeState lz4_newState lz4_errorState lz4_closedState Z.eqb Pos.eqb orb andb] in H.

(* ------------------------------------------------------------------ *)
(* Part 1: small facts: w_num is only changed by Apply; options *)

Lemma w_block_num w src w' e : w_block w src = (w', e) -> w_num w' = w_num w.
Proof. unfold w_block. destruct (sink_writes _ _) as [s ok]. intros H; inversion H; reflexivity. Qed.

Lemma wwl_num : forall fuel w buf n w' n' e, w_write_loop fuel w buf n = (w', n', e) -> w_num w' = w_num w.
Proof.
  induction fuel as [|f IH]; intros w buf n w' n' e H; cbn [w_write_loop] in H.
  - inversion H; reflexivity.
  - destruct buf as [|x buf]; [inversion H; reflexivity|].
    destruct ((len (w_pend w) =? 0) && (w_bsz w <=? len (x :: buf))).
    + destruct (w_block w _) as [w1 e1] eqn:Eb. pose proof (w_block_num _ _ _ _ Eb) as Hn.
      destruct e1; try (inversion H; subst; exact Hn). rewrite <- Hn. eapply IH; exact H.
    + cbv zeta in H.
      destruct (len (w_pend (set_pend w _)) <? w_bsz w); [inversion H; reflexivity|].
      destruct (w_block (set_pend w _) _) as [w2 e2] eqn:Eb. pose proof (w_block_num _ _ _ _ Eb) as Hn.
      cbn [set_pend w_num] in Hn.
      destruct e2; try (inversion H; subst; exact Hn). rewrite <- Hn.
      change (w_num w2) with (w_num (set_pend w2 [])). eapply IH; exact H.
Qed.

Lemma rfl_num : forall fuel w data n w' n' e, w_readfrom_loop fuel w data n = (w', n', e) -> w_num w' = w_num w.
Proof.
  induction fuel as [|f IH]; intros w data n w' n' e H; cbn [w_readfrom_loop] in H.
  - inversion H; reflexivity.
  - destruct (w_bsz w <=? len data).
    + destruct (w_block w _) as [w1 e1] eqn:Eb. pose proof (w_block_num _ _ _ _ Eb) as Hn.
      destruct e1; try (inversion H; subst; exact Hn). rewrite <- Hn. eapply IH; exact H.
    + destruct data as [|x data]; [inversion H; reflexivity|].
      destruct (w_block w _) as [w1 e1] eqn:Eb. pose proof (w_block_num _ _ _ _ Eb) as Hn.
      inversion H; subst; exact Hn.
Qed.

Lemma w_init_serr w w1 e : w_init w = (w1, e) -> w_serr w1 = w_serr w.
Proof. unfold w_init. destruct (sink_write _ _) as [s ok]. intros H; inversion H; reflexivity. Qed.
Lemma w_init_num w w1 e : w_init w = (w1, e) -> w_num w1 = w_num w.
Proof. unfold w_init. destruct (sink_write _ _) as [s ok]. intros H; inversion H; reflexivity. Qed.
Lemma st_next_num w e : w_num (st_next w e) = w_num w.
Proof. destruct e; reflexivity. Qed.
Lemma st_check_num w e : w_num (st_check w e) = w_num w.
Proof. unfold st_check. destruct (w_state w =? lz4_errorState); [reflexivity|]. destruct e; reflexivity. Qed.
Lemma st_next_opts w e : w_opts (st_next w e) = w_opts w.
Proof. destruct e; reflexivity. Qed.
Lemma st_check_opts w e : w_opts (st_check w e) = w_opts w.
Proof. unfold st_check. destruct (w_state w =? lz4_errorState); [reflexivity|]. destruct e; reflexivity. Qed.

Lemma w_flush_write_num w w' e : w_state w = lz4_writeState -> w_flush w = (w', e) -> w_num w' = w_num w.
Proof.
  intros Hst H. rewrite w_flush_write in H by exact Hst.
  destruct (w_pend w) as [|x l] eqn:Ep; [inversion H; reflexivity|]. rewrite <- Ep in H.
  destruct (w_block w (w_pend w)) as [w1 e1] eqn:Eb. pose proof (w_block_num _ _ _ _ Eb) as Hn.
  destruct e1; inversion H; subst; cbn [set_pend w_num]; exact Hn.
Qed.

Lemma wstep_write_num w op w' r : w_state w = lz4_writeState -> wstep w op s0 = (w', r) -> op <> WReset ->
  w_num w' = w_num w.
Proof.
  intros Hst H Hop. destruct op as [os|buf|data| | |]; cbn [wstep] in H; try rewrite Hst in H; st_simp_in H.
  - inversion H; subst. apply st_check_num.
  - destruct (w_write_loop _ _ _ _) as [[w1 n1] e1] eqn:El. inversion H; subst. rewrite st_check_num.
    eapply wwl_num; exact El.
  - inversion H; reflexivity.
  - destruct (w_flush w) as [w1 e1] eqn:Ef. inversion H; subst. eapply w_flush_write_num; eassumption.
  - destruct (w_flush w) as [w1 e1] eqn:Ef. pose proof (w_flush_write_num _ _ _ Hst Ef) as Hn.
    destruct e1; try (inversion H; subst; exact Hn).
    destruct (sink_writes _ _) as [s ok]. inversion H; subst.
    destruct ok; cbn [st_next set_state set_sink w_num]; exact Hn.
  - contradiction.
Qed.

(* ------------------------------------------------------------------ *)
(* Part 2: options: apply_opts against a_apply, invariant *)

Definition blank (o : fopts) (num : Z) : writer := mkw lz4_newState ENil o num 0 [] [] (mksink [] 0 0) [].

Lemma apply_opt_abs w op w1 e : apply_opt w op = (w1, e) ->
  exists w1', apply_opt (blank (w_opts w) (w_num w)) op = (w1', e) /\ w_opts w1' = w_opts w1 /\ w_num w1' = w_num w1 /\
  w_state w1 = w_state w /\ w_serr w1 = w_serr w /\ w_sink w1 = w_sink w /\
  (e = ENil \/ e = EBlkSize \/ e = EBadLevel).
Proof.
  intros H. unfold apply_opt in *. cbv zeta in *. unfold blank at 1. cbn [w_opts w_num w_state w_serr w_bsz w_pend w_content w_sink w_old].
  destruct op as [size|b|b|n|l|n|b].
  - destruct (lz4block_BlockSizeIndex_IsValid _); inversion H; subst; eexists; (split; [reflexivity|]);
      cbn [w_opts w_num w_state w_serr w_sink blank]; repeat split; auto.
  - inversion H; subst; eexists; (split; [reflexivity|]); cbn [w_opts w_num w_state w_serr w_sink]; repeat split; auto.
  - inversion H; subst; eexists; (split; [reflexivity|]); cbn [w_opts w_num w_state w_serr w_sink]; repeat split; auto.
  - inversion H; subst; eexists; (split; [reflexivity|]); cbn [w_opts w_num w_state w_serr w_sink]; repeat split; auto.
  - destruct (valid_level l); inversion H; subst; eexists; (split; [reflexivity|]);
      cbn [w_opts w_num w_state w_serr w_sink blank]; repeat split; auto.
  - inversion H; subst; eexists; (split; [reflexivity|]); cbn [w_opts w_num w_state w_serr w_sink]; repeat split; auto.
  - inversion H; subst; eexists; (split; [reflexivity|]); cbn [w_opts w_num w_state w_serr w_sink]; repeat split; auto.
Qed.

Lemma apply_opts_abs : forall os w w1 e, apply_opts w os = (w1, e) ->
  a_apply (w_opts w) (w_num w) os = (w_opts w1, w_num w1, e) /\
  w_state w1 = w_state w /\ w_serr w1 = w_serr w /\ w_sink w1 = w_sink w /\
  (e = ENil \/ e = EBlkSize \/ e = EBadLevel) /\
  (opts_inv (w_opts w) -> opts_inv (w_opts w1)).
Proof.
  induction os as [|op os IH]; intros w w1 e H; cbn [apply_opts a_apply] in *.
  - inversion H; subst. split; [reflexivity|]. split; [reflexivity|]. split; [reflexivity|]. split; [reflexivity|].
    split; [left; reflexivity|]. intros Hi; exact Hi.
  - destruct (apply_opt w op) as [w2 e2] eqn:E2.
    destruct (apply_opt_abs _ _ _ _ E2) as (w2' & Ha & Ho & Hn & Hst & Hse & Hsk & He).
    fold (blank (w_opts w) (w_num w)). rewrite Ha.
    pose proof (fun Hi => apply_opt_inv _ _ _ _ Hi E2) as Hinv.
    destruct He as [He|[He|He]]; subst e2.
    + rewrite Ho, Hn. destruct (IH _ _ _ H) as (H1 & H2 & H3 & H4 & H5 & H6).
      split; [exact H1|]. split; [congruence|]. split; [congruence|]. split; [congruence|].
      split; [exact H5|]. intros Hi. apply H6, Hinv, Hi.
    + inversion H; subst. rewrite Ho, Hn. split; [reflexivity|]. split; [exact Hst|]. split; [exact Hse|].
      split; [exact Hsk|]. split; [right; left; reflexivity|exact Hinv].
    + inversion H; subst. rewrite Ho, Hn. split; [reflexivity|]. split; [exact Hst|]. split; [exact Hse|].
      split; [exact Hsk|]. split; [right; right; reflexivity|exact Hinv].
Qed.

Lemma reset_opts_inv o : opts_inv o -> opts_inv (a_reset_opts o).
Proof.
  intros ((Hf & Hres) & Hsz & Hlv & Hbv). unfold opts_inv, a_reset_opts. cbn [fo_flags fo_csize fo_level].
  destruct (set_facts (fo_flags o) Hf Hres) as (_ & _ & Hss & _).
  destruct (set_ok_spec _ _ _ (Hss false)) as (Hok & Hs & Hb). unfold SZ, BSI in *.
  split; [exact Hok|]. split; [rewrite Hs; reflexivity|]. split; [exact Hlv|rewrite Hb; exact Hbv].
Qed.

Lemma opts_inv_bsz o : opts_inv o -> 0 < bsz_of o.
Proof.
  intros (_ & _ & _ & Hbv). apply bsz_of_pos. unfold goodidx. rewrite bsi_bidx in Hbv.
  unfold lz4block_BlockSizeIndex_IsValid in Hbv.
  destruct (bidx (fo_flags o) =? 4) eqn:E4; [lia|]. destruct (bidx (fo_flags o) =? 5) eqn:E5; [lia|].
  destruct (bidx (fo_flags o) =? 6) eqn:E6; [lia|]. destruct (bidx (fo_flags o) =? 7) eqn:E7; [lia|].
  cbn in Hbv. discriminate Hbv.
Qed.

(* ------------------------------------------------------------------ *)
(* Part 3: the simulation relation *)

Definition small_chunk (bsz : Z) (c : list Z) : Prop := c <> [] /\ len c <= bsz.
Definition hdr_blocks (o : fopts) (blocks : list (list Z)) : list (list Z) :=
  [header_bytes o] ++ flat_map (block_writes o) blocks.

Definition open_inv (o : fopts) (w : writer) (acc : list Z) (blocks : list (list Z)) (pend : list Z) : Prop :=
  Inv 0 o w pend (addc o [] (concat blocks)) (hdr_blocks o blocks) /\
  concat blocks ++ pend = acc /\ len pend < bsz_of o /\ Forall (small_chunk (bsz_of o)) blocks.

Definition closed_inv (o : fopts) (w : writer) (acc : list Z) (blocks : list (list Z)) : Prop :=
  w_state w = lz4_closedState /\ w_serr w = EWClosed /\
  slist (w_sink w) = hdr_blocks o blocks ++ close_writes o (concat blocks) /\
  concat blocks = acc /\ Forall (small_chunk (bsz_of o)) blocks.

Definition R (w : writer) (a : awriter) : Prop :=
  w_opts w = a_opts a /\ w_num w = a_num a /\ opts_inv (a_opts a) /\
  match a_phase a with
  | AFresh => w_state w = lz4_newState /\ w_serr w = ENil /\ w_sink w = s0
  | AOpen => exists blocks pend, open_inv (a_opts a) w (a_acc a) blocks pend
  | AClosed => exists blocks, closed_inv (a_opts a) w (a_acc a) blocks
  | AFailed e => w_state w = lz4_errorState /\ w_serr w = e /\ e <> ENil
  end.

Definition Sim (w : writer) (a : awriter) (op : wop) : Prop :=
  snd (wstep w op s0) = snd (awstep a op) /\ R (fst (wstep w op s0)) (fst (awstep a op)).

Lemma R_reset w o n : w_opts w = o -> w_num w = n -> opts_inv o ->
  R (w_reset w s0 true) (mkaw AFresh (a_reset_opts o) n []).
Proof.
  intros Ho Hn Hi. unfold R. cbn [a_opts a_num a_phase w_reset w_opts w_num w_state w_serr w_sink].
  rewrite Ho. split; [reflexivity|]. split; [exact Hn|]. split; [apply reset_opts_inv; exact Hi|]. repeat split.
Qed.

(* item-wise block facts *)
Definition idata (i : item) : list Z := match i with IWrite d => d | IFlush => [] end.
Lemma item_blocks_facts bsz i pend : 0 < bsz -> len pend < bsz ->
  concat (fst (item_blocks bsz i pend)) ++ snd (item_blocks bsz i pend) = pend ++ idata i /\
  Forall (small_chunk bsz) (fst (item_blocks bsz i pend)).
Proof.
  intros Hb Hp. destruct i as [d|]; cbn [item_blocks idata fst snd].
  - split; [apply fullsW_concat; exact Hb|].
    pose proof (fullsW_full bsz (pend ++ d) Hb) as Hf. rewrite Forall_forall in *. intros c Hin.
    specialize (Hf c Hin). cbv beta in Hf. split; [intros ->; rewrite len_nil in Hf; lia|lia].
  - rewrite tail_block_concat. split; [reflexivity|].
    destruct pend as [|x l]; cbn [tail_block]; [constructor|]. constructor; [|constructor].
    split; [discriminate|lia].
Qed.

(* Write / Flush in AOpen *)
Lemma open_item o w acc blocks pend i : opts_inv o -> open_inv o w acc blocks pend ->
  snd (wstep w (item_op i) s0) = item_res i /\
  open_inv o (fst (wstep w (item_op i) s0)) (acc ++ idata i)
           (blocks ++ fst (item_blocks (bsz_of o) i pend)) (snd (item_blocks (bsz_of o) i pend)) /\
  w_num (fst (wstep w (item_op i) s0)) = w_num w.
Proof.
  intros Hi (HI & Hacc & Hp & Hsm). pose proof (opts_inv_bsz o Hi) as Hbz.
  destruct (wstep w (item_op i) s0) as [w1 r] eqn:E. cbn [fst snd].
  assert (Hnum : w_num w1 = w_num w).
  { eapply wstep_write_num; [apply HI|exact E|]. destruct i; discriminate. }
  destruct (step_item _ _ _ _ _ _ _ _ _ _ Hbz HI Hp E) as [(Hr & Hp1 & HI1)|(_ & p & q & _ & Hd)];
    [|exfalso; eapply SDead_not0; exact Hd].
  destruct (item_blocks_facts (bsz_of o) i pend Hbz Hp) as (Hcat & Hsm1).
  split; [exact Hr|]. split; [|exact Hnum]. unfold open_inv.
  split.
  { rewrite addc_app in HI1. unfold hdr_blocks in *. rewrite <- app_assoc in HI1.
    rewrite concat_app, flat_map_app. exact HI1. }
  split; [rewrite concat_app, <- app_assoc, Hcat, app_assoc, Hacc; reflexivity|].
  split; [exact Hp1|]. apply Forall_app. split; assumption.
Qed.

(* ------------------------------------------------------------------ *)
(* Part 4: one step, by phase *)

Lemma wclose_serr w w' : w_state w = lz4_writeState -> wstep w WClose s0 = (w', RE ENil) -> w_serr w' = EWClosed.
Proof.
  intros Hst H. cbn [wstep] in H. rewrite Hst in H. st_simp_in H.
  destruct (w_flush w) as [w1 e1]. destruct e1; try (inversion H; fail).
  destruct (sink_writes _ _) as [s ok]. destruct ok; inversion H; reflexivity.
Qed.

Lemma R_failed w e o n acc : w_opts w = o -> w_num w = n -> opts_inv o -> e <> ENil ->
  R (set_state w lz4_errorState e) (mkaw (AFailed e) o n acc).
Proof. intros Ho Hn Hi Hne. exact (conj Ho (conj Hn (conj Hi (conj eq_refl (conj eq_refl Hne))))). Qed.

Lemma sim_open w o n acc : R w (mkaw AOpen o n acc) -> forall op, Sim w (mkaw AOpen o n acc) op.
Proof.
  intros (Ho & Hn & Hi & blocks & pend & Hop) op. cbn [a_opts a_num a_acc a_phase] in *.
  pose proof Hop as (HI & Hacc & Hp & Hsm). pose proof HI as (Hst & _).
  pose proof (opts_inv_bsz o Hi) as Hbz.
  unfold Sim. destruct op as [os|buf|data| | |]; cbn [awstep a_phase a_opts a_num a_acc fst snd].
  - (* Apply *)
    cbn [wstep]. rewrite Hst. st_simp. unfold st_check. rewrite Hst. st_simp. cbn [fst snd].
    split; [reflexivity|]. apply R_failed; try assumption; discriminate.
  - (* Write *)
    destruct (open_item o w acc blocks pend (IWrite buf) Hi Hop) as (Hr & Hop1 & Hn1).
    cbn [item_op item_res idata] in *. split; [exact Hr|].
    unfold R. cbn [a_opts a_num a_phase a_acc]. pose proof Hop1 as ((_ & Ho1 & _) & _).
    split; [exact Ho1|]. split; [congruence|]. split; [exact Hi|]. eexists; eexists; exact Hop1.
  - (* ReadFrom *)
    cbn [wstep]. rewrite Hst. st_simp. cbn [fst snd]. split; [reflexivity|].
    apply R_failed; try assumption; discriminate.
  - (* Flush *)
    destruct (open_item o w acc blocks pend IFlush Hi Hop) as (Hr & Hop1 & Hn1).
    cbn [item_op item_res idata] in *. rewrite app_nil_r in Hop1. split; [exact Hr|].
    unfold R. cbn [a_opts a_num a_phase a_acc]. pose proof Hop1 as ((_ & Ho1 & _) & _).
    split; [exact Ho1|]. split; [congruence|]. split; [exact Hi|]. eexists; eexists; exact Hop1.
  - (* Close *)
    destruct (wstep w WClose s0) as [w' r] eqn:E. cbn [fst snd].
    pose proof (wclose_opts _ _ _ _ _ _ _ _ HI E) as Ho'.
    assert (Hn' : w_num w' = w_num w) by (eapply wstep_write_num; [exact Hst|exact E|discriminate]).
    destruct (wclose_alive _ _ _ _ _ _ _ _ _ HI E) as [(Hr & Hs & Hal)|(_ & p & q & _ & Hd)];
      [|exfalso; eapply SDead_not0; exact Hd].
    subst r. split; [reflexivity|].
    pose proof (wclose_serr _ _ Hst E) as Hse.
    unfold R. cbn [a_opts a_num a_phase a_acc].
    split; [exact Ho'|]. split; [congruence|]. split; [exact Hi|].
    exists (blocks ++ tail_block pend). unfold closed_inv.
    split; [exact Hs|]. split; [exact Hse|].
    destruct (item_blocks_facts (bsz_of o) IFlush pend Hbz Hp) as (_ & Hsm1). cbn [item_blocks fst] in Hsm1.
    split.
    { destruct Hal as (_ & Hl & _). rewrite Hl. rewrite addc_app, close_writes_addc, <- concat_app.
      unfold hdr_blocks. rewrite flat_map_app, <- !app_assoc. reflexivity. }
    split; [rewrite concat_app, tail_block_concat; exact Hacc|].
    apply Forall_app; split; assumption.
  - (* Reset *)
    cbn [wstep fst snd]. split; [reflexivity|]. apply R_reset; assumption.
Qed.

Lemma sim_closed w o n acc : R w (mkaw AClosed o n acc) -> forall op, Sim w (mkaw AClosed o n acc) op.
Proof.
  intros (Ho & Hn & Hi & blocks & Hcl) op. cbn [a_opts a_num a_acc a_phase] in *.
  pose proof Hcl as (Hst & Hse & Hsk & Hacc & Hsm).
  unfold Sim. destruct op as [os|buf|data| | |]; cbn [awstep a_phase a_opts a_num a_acc fst snd].
  - cbn [wstep]. rewrite Hst. st_simp. unfold st_check. rewrite Hst. st_simp. cbn [fst snd].
    split; [reflexivity|]. apply R_failed; try assumption; discriminate.
  - cbn [wstep]. rewrite Hst. st_simp. unfold st_check. rewrite Hst, Hse. st_simp. cbn [fst snd].
    split; [reflexivity|]. apply R_failed; try assumption; discriminate.
  - cbn [wstep]. rewrite Hst, Hse. st_simp. cbn [fst snd]. split; [reflexivity|].
    exact (conj Ho (conj Hn (conj Hi (ex_intro _ blocks Hcl)))).
  - cbn [wstep]. unfold w_flush. rewrite Hst. st_simp. cbn [fst snd]. split; [reflexivity|].
    exact (conj Ho (conj Hn (conj Hi (ex_intro _ blocks Hcl)))).
  - cbn [wstep]. rewrite Hst. st_simp. cbn [fst snd]. split; [reflexivity|].
    exact (conj Ho (conj Hn (conj Hi (ex_intro _ blocks Hcl)))).
  - cbn [wstep fst snd]. split; [reflexivity|]. apply R_reset; assumption.
Qed.

Lemma sim_failed w e o n acc : R w (mkaw (AFailed e) o n acc) -> forall op, Sim w (mkaw (AFailed e) o n acc) op.
Proof.
  intros HR op. pose proof HR as (Ho & Hn & Hi & Hst & Hse & Hne). cbn [a_opts a_num a_acc a_phase] in *.
  unfold Sim. destruct op as [os|buf|data| | |]; cbn [awstep a_phase a_opts a_num a_acc fst snd].
  - cbn [wstep]. rewrite Hst, Hse. st_simp. cbn [fst snd]. split; [reflexivity|exact HR].
  - cbn [wstep]. rewrite Hst, Hse. st_simp. unfold st_check. rewrite Hst. st_simp. cbn [fst snd].
    split; [reflexivity|exact HR].
  - cbn [wstep]. rewrite Hst, Hse. st_simp. cbn [fst snd]. split; [reflexivity|exact HR].
  - cbn [wstep]. unfold w_flush. rewrite Hst, Hse. st_simp. cbn [fst snd]. split; [reflexivity|exact HR].
  - cbn [wstep]. unfold w_flush. rewrite Hst, Hse. st_simp.
    destruct e; try (cbn [fst snd]; split; [reflexivity|exact HR]). contradiction Hne; reflexivity.
  - cbn [wstep fst snd]. split; [reflexivity|]. apply R_reset; assumption.
Qed.

(* the first data-path call of an epoch: Writer.init, then as in AOpen *)
Lemma fresh_init w o : 0 < bsz_of o -> w_state w = lz4_newState -> w_opts w = o -> w_sink w = s0 ->
  exists w1, w_init w = (w1, ENil) /\ open_inv o (st_next w1 ENil) [] [] [] /\ w_num (st_next w1 ENil) = w_num w /\
             w_serr (st_next w1 ENil) = w_serr w.
Proof.
  intros Hbz Hst Ho Hsk. destruct (w_init w) as [w1 e1] eqn:Ei.
  assert (Ha : SAlive 0 (w_sink w) []) by (rewrite Hsk; exact SAlive_s0).
  destruct (w_init_alive _ _ _ _ _ _ Hst Ho Ha Ei) as [[He HI]|[_ Hd]]; [|exfalso; eapply SDead_not0; exact Hd].
  subst e1. exists w1. split; [reflexivity|]. split.
  - unfold open_inv. cbn [concat app]. rewrite addc_nil. unfold hdr_blocks. cbn [flat_map app] in *.
    split; [exact HI|]. split; [reflexivity|]. split; [rewrite len_nil; exact Hbz|constructor].
  - rewrite st_next_num. split; [eapply w_init_num; exact Ei|].
    cbn [st_next set_state w_serr]. eapply w_init_serr; exact Ei.
Qed.

Lemma w_reset_apply_opts w : w_opts (w_reset w (w_sink w) false) = a_reset_opts (w_opts w).
Proof. reflexivity. Qed.

Lemma sim_fresh w o n acc : R w (mkaw AFresh o n acc) -> forall op, Sim w (mkaw AFresh o n acc) op.
Proof.
  intros HR op. pose proof HR as (Ho & Hn & Hi & Hst & Hse & Hsk). cbn [a_opts a_num a_acc a_phase] in *.
  pose proof (opts_inv_bsz o Hi) as Hbz.
  assert (Hwfc : is_wfc op -> Sim w (mkaw AFresh o n acc) op).
  { intros Hop. destruct (fresh_init w o Hbz Hst Ho Hsk) as (w1 & Hinit & Hopen & Hn1 & _).
    assert (HR1 : R (st_next w1 ENil) (mkaw AOpen o n [])).
    { pose proof Hopen as ((_ & Ho1 & _) & _).
      exact (conj Ho1 (conj (eq_trans Hn1 Hn) (conj Hi (ex_intro _ [] (ex_intro _ [] Hopen))))). }
    pose proof (sim_open _ _ _ _ HR1 op) as HS. unfold Sim in *.
    rewrite (wstep_first_ok w w1 op s0 Hop Hst Hinit).
    destruct op; try contradiction; exact HS. }
  destruct op as [os|buf|data| | |]; try (apply Hwfc; exact I).
  - (* Apply *)
    unfold Sim. rewrite wstep_apply_new by exact Hst.
    destruct (apply_opts (w_reset w (w_sink w) false) os) as [w1 e] eqn:Ea.
    destruct (apply_opts_abs _ _ _ _ Ea) as (Habs & Hst1 & Hse1 & Hsk1 & He & Hinv).
    rewrite w_reset_apply_opts in Habs, Hinv. cbn [w_reset w_num w_state w_serr w_sink] in Habs, Hst1, Hse1, Hsk1.
    rewrite Ho, Hn in Habs. rewrite Ho in Hinv. specialize (Hinv (reset_opts_inv o Hi)).
    cbn [awstep a_phase a_opts a_num]. rewrite Habs. cbn [fst snd].
    destruct He as [He|[He|He]]; subst e.
    + rewrite st_check_nil. split; [reflexivity|].
      exact (conj eq_refl (conj eq_refl (conj Hinv (conj Hst1 (conj Hse1 (eq_trans Hsk1 Hsk)))))).
    + unfold st_check. rewrite Hst1. st_simp. split; [reflexivity|].
      apply (R_failed w1 EBlkSize); [reflexivity|reflexivity|exact Hinv|discriminate].
    + unfold st_check. rewrite Hst1. st_simp. split; [reflexivity|].
      apply (R_failed w1 EBadLevel); [reflexivity|reflexivity|exact Hinv|discriminate].
  - (* ReadFrom *)
    destruct (fresh_init w o Hbz Hst Ho Hsk) as (w1 & Hinit & Hopen & Hn1 & _).
    destruct Hopen as (HI & _).
    unfold Sim. cbn [wstep]. rewrite Hst. st_simp. rewrite Hinit. cbv zeta iota.
    destruct (w_readfrom_loop (S (length data)) (st_next w1 ENil) data 0) as [[w3 n3] e3] eqn:El.
    destruct (w_readfrom_loop_ok o Hbz _ _ _ _ _ _ _ _ _ _ HI (Nat.lt_succ_diag_r _) El) as (He3 & Hn3 & HI3).
    subst e3. rewrite st_check_nil. cbn [awstep a_phase a_opts a_num fst snd].
    split; [f_equal; lia|].
    pose proof (rfl_num _ _ _ _ _ _ _ El) as Hnum.
    pose proof HI3 as (_ & Ho3 & _).
    pose proof (fullsW_concat (bsz_of o) data Hbz) as Hcat.
    pose proof (fullsW_full (bsz_of o) data Hbz) as Hfull.
    pose proof (fullsW_rest_small (bsz_of o) data Hbz) as Hrest.
    set (B := fst (fullsW (bsz_of o) data) ++ tail_block (snd (fullsW (bsz_of o) data))) in *.
    assert (HcB : concat B = data) by (unfold B; rewrite concat_app, tail_block_concat; exact Hcat).
    split; [exact Ho3|]. split; [cbn [a_num]; congruence|]. split; [exact Hi|].
    cbn [a_phase a_opts a_acc]. exists B, []. unfold open_inv.
    split; [rewrite HcB; unfold hdr_blocks in *; cbn [concat app flat_map] in HI3; rewrite addc_nil in HI3; exact HI3|].
    split; [rewrite app_nil_r; exact HcB|]. split; [rewrite len_nil; exact Hbz|].
    unfold B. apply Forall_app. split.
    + rewrite Forall_forall in *. intros c Hin. specialize (Hfull c Hin). cbv beta in Hfull.
      split; [intros ->; rewrite len_nil in Hfull; lia|lia].
    + destruct (snd (fullsW (bsz_of o) data)) as [|x l] eqn:Er; cbn [tail_block]; [constructor|].
      constructor; [|constructor]. split; [discriminate|lia].
  - (* Reset *)
    unfold Sim. cbn [wstep awstep a_phase a_opts a_num fst snd]. split; [reflexivity|]. apply R_reset; assumption.
Qed.

Theorem sim_step w a op : R w a -> Sim w a op.
Proof.
  destruct a as [ph o n acc]. destruct ph as [| | |e]; intros HR.
  - apply sim_fresh; exact HR.
  - apply sim_open; exact HR.
  - apply sim_closed; exact HR.
  - apply sim_failed; exact HR.
Qed.

Lemma sim_run ops : forall w a, R w a ->
  snd (run_writer w ops s0) = snd (run_awriter a ops) /\ R (fst (run_writer w ops s0)) (fst (run_awriter a ops)).
Proof.
  induction ops as [|op ops IH]; intros w a HR; cbn [run_writer run_awriter].
  - split; [reflexivity|exact HR].
  - destruct (sim_step w a op HR) as (Hr & HR1).
    destruct (wstep w op s0) as [w1 r1]. destruct (awstep a op) as [a1 r1']. cbn [fst snd] in *.
    destruct (IH w1 a1 HR1) as (Hrs & HR2).
    destruct (run_writer w1 ops s0) as [w2 rs]. destruct (run_awriter a1 ops) as [a2 rs']. cbn [fst snd] in *.
    split; [congruence|exact HR2].
Qed.

Lemma new_awriter_eq : new_awriter = mkaw AFresh (mkfo 28676 0 0 false) 1 [].
Proof. reflexivity. Qed.

Lemma R_new : R (new_writer s0) new_awriter.
Proof.
  rewrite new_awriter_eq, new_writer_eq. unfold R. cbn [a_opts a_num a_phase w_opts w_num w_state w_serr w_sink].
  split; [reflexivity|]. split; [reflexivity|]. split; [|repeat split].
  unfold opts_inv, reserved_clear. cbn [fo_flags fo_csize fo_level]. repeat split; try lia; reflexivity.
Qed.

Lemma R_reach ops : R (fst (run_writer (new_writer s0) ops s0)) (fst (run_awriter new_awriter ops)).
Proof. apply sim_run. exact R_new. Qed.

(* L1 *)
Theorem writer_refines : writer_refines_stmt.
Proof. intros ops _. apply sim_run. exact R_new. Qed.

(* the bytes hypothesis of L1 is not needed *)
Theorem writer_refines_all : forall ops,
  snd (run_writer (new_writer s0) ops s0) = snd (run_awriter new_awriter ops).
Proof. intros ops. apply sim_run. exact R_new. Qed.

Lemma R_phase w a : R w a -> abs_phase w = a_phase a.
Proof.
  intros (_ & _ & _ & H). unfold abs_phase. destruct (a_phase a) as [| | |e].
  - destruct H as (Hst & _). rewrite Hst. reflexivity.
  - destruct H as (b & p & (Hst & _) & _). rewrite Hst. reflexivity.
  - destruct H as (b & Hst & _). rewrite Hst. reflexivity.
  - destruct H as (Hst & Hse & _). rewrite Hst, Hse. reflexivity.
Qed.

(* L2 *)
Theorem writer_abs : writer_abs_stmt.
Proof.
  intros ops w a. pose proof (R_reach ops) as HR. fold w a in HR.
  split; [apply R_phase; exact HR|]. split; [right; exact I|].
  destruct HR as (Ho & Hn & _). split; assumption.
Qed.

(* L4 *)
Lemma R_state w a : R w a ->
  (w_state w = lz4_closedState -> exists b, closed_inv (a_opts a) w (a_acc a) b) /\
  (w_state w = lz4_errorState -> w_serr w <> ENil).
Proof.
  intros (_ & _ & _ & H). destruct (a_phase a) as [| | |e].
  - destruct H as (Hst & _). rewrite Hst. split; intros H0; discriminate H0.
  - destruct H as (b & p & (Hst & _) & _). rewrite Hst. split; intros H0; discriminate H0.
  - split; [intros _; exact H|]. destruct H as (b & Hst & _). rewrite Hst. intros H0; discriminate H0.
  - destruct H as (Hst & Hse & Hne). rewrite Hst, Hse. split; [intros H0; discriminate H0|intros _; exact Hne].
Qed.

Theorem writer_quiet : writer_quiet_stmt.
Proof.
  intros ops op Hop w Hstate. pose proof (R_reach ops) as HR. fold w in HR.
  destruct (R_state _ _ HR) as (Hc & He).
  destruct Hstate as [Hst|Hst].
  - destruct (Hc Hst) as (b & _ & Hse & _).
    destruct op as [os|buf|data| | |]; cbn [wstep]; try rewrite Hst; st_simp; cbn [fst]; try reflexivity.
    + apply f_equal. apply st_check_sink.
    + apply f_equal. apply st_check_sink.
    + unfold w_flush. rewrite Hst. st_simp. reflexivity.
    + contradiction Hop; reflexivity.
  - specialize (He Hst).
    destruct op as [os|buf|data| | |]; cbn [wstep]; try rewrite Hst; st_simp; cbn [fst]; try reflexivity.
    + apply f_equal. apply st_check_sink.
    + unfold w_flush. rewrite Hst. st_simp. reflexivity.
    + unfold w_flush. rewrite Hst. st_simp. destruct (w_serr w); try reflexivity. contradiction He; reflexivity.
    + contradiction Hop; reflexivity.
Qed.

(* ------------------------------------------------------------------ *)
(* Part 5: output of an epoch (L3) and Flush (L6) *)

Definition frame_of_blocks (o : fopts) (blocks : list (list Z)) : list Z :=
  header_bytes o ++ concat (flat_map (block_writes o) blocks) ++ concat (close_writes o (concat blocks)).

Lemma frame_of_blocks_csize o blocks : fo_legacy o = false ->
  lz4stream_DescriptorFlags_Size (initw_flags o) = false ->
  frame_of_blocks o blocks = frame_of_blocks (mkfo (fo_flags o) 0 (fo_level o) (fo_legacy o)) blocks /\
  bsz_of o = bsz_of (mkfo (fo_flags o) 0 (fo_level o) (fo_legacy o)).
Proof.
  intros Hleg Hs.
  unfold frame_of_blocks, bsz_of, header_bytes, block_writes, close_writes, magic_of.
  unfold initw_flags in *. cbn [fo_flags fo_level fo_legacy fo_csize]. rewrite Hleg in *. rewrite Hs. split; reflexivity.
Qed.

Theorem frame_blocks_spec o blocks : opts_inv o -> fo_legacy o = false ->
  Forall (good_chunk (bsz_of o)) blocks ->
  (fo_csize o <= 0 \/ fo_csize o = len (concat blocks)) -> len (concat blocks) < 2 ^ 64 ->
  frame_spec Decoded true (frame_of_blocks o blocks) = Some (concat blocks, len (frame_of_blocks o blocks)).
Proof.
  intros ((Hf & Hres) & Hflag & Hlv & Hval) Hmod Hgood Hcsz Hlen.
  pose proof (valid_level_range _ Hlv) as Hlev.
  destruct (lz4stream_DescriptorFlags_Size (fo_flags o)) eqn:Es.
  - apply (encode_spec_blocks o blocks); try assumption.
    + repeat split; try assumption; lia.
    + intros _. lia.
  - assert (Hsi : lz4stream_DescriptorFlags_Size (initw_flags o) = false).
    { rewrite (initw_flags_modern o Hmod).
      destruct (hdr_facts (fo_flags o) Hf Hres Hval) as (_ & _ & _ & _ & _ & _ & _ & _ & _ & _ & Hs).
      rewrite Hs. exact Es. }
    destruct (frame_of_blocks_csize o blocks Hmod Hsi) as (Hfr & Hbz). rewrite Hfr. rewrite Hbz in Hgood.
    apply (encode_spec_blocks (mkfo (fo_flags o) 0 (fo_level o) (fo_legacy o)) blocks); try assumption.
    + repeat split; cbn [fo_flags fo_level fo_legacy fo_csize]; try assumption; lia.
    + cbn [fo_flags]. rewrite Es. discriminate.
Qed.

Definition op_bytes (op : wop) : Prop := match op with WWrite d | WReadFrom d => bytes d | _ => True end.

Lemma awstep_bytes a op : op_bytes op -> bytes (a_acc a) -> bytes (a_acc (fst (awstep a op))).
Proof.
  intros Hop Ha. assert (Hnil : bytes []) by constructor.
  destruct a as [ph o n acc]. cbn [a_acc] in Ha.
  destruct ph as [| | |e]; destruct op as [os|d|d| | |]; cbn [awstep a_phase a_opts a_num a_acc fst op_bytes] in *;
    try assumption; try (apply bytes_app; split; assumption).
  destruct (a_apply (a_reset_opts o) n os) as [[o1 n1] e1]. destruct e1; exact Hnil.
Qed.

Lemma run_awriter_bytes ops : forall a, Forall op_bytes ops -> bytes (a_acc a) ->
  bytes (a_acc (fst (run_awriter a ops))).
Proof.
  induction ops as [|op ops IH]; intros a Hops Ha; cbn [run_awriter]; [exact Ha|].
  inversion Hops as [|? ? Hop Hr]; subst.
  pose proof (awstep_bytes a op Hop Ha) as H1. destruct (awstep a op) as [a1 r1]. cbn [fst] in H1.
  specialize (IH a1 Hr H1). destruct (run_awriter a1 ops) as [a2 rs]. exact IH.
Qed.

Lemma small_good bsz blocks : bytes (concat blocks) -> Forall (small_chunk bsz) blocks -> Forall (good_chunk bsz) blocks.
Proof.
  intros Hb Hs. apply bytes_concat_forall in Hb. rewrite Forall_forall in *. intros c Hin.
  destruct (Hs c Hin) as (H1 & H2). exact (conj (Hb c Hin) (conj H1 H2)).
Qed.

Lemma concat_hdr_blocks o blocks tail :
  concat (hdr_blocks o blocks ++ tail) = header_bytes o ++ concat (flat_map (block_writes o) blocks) ++ concat tail.
Proof. unfold hdr_blocks. rewrite !concat_app. cbn [concat]. rewrite app_nil_r, <- app_assoc. reflexivity. Qed.

(* L3 *)
Theorem writer_epoch_output : writer_epoch_output_stmt.
Proof.
  intros ops Hby w a Hph Hleg Hcs Hlen. pose proof (R_reach ops) as HR. fold w a in HR.
  assert (Hba : bytes (a_acc a)).
  { unfold a. apply run_awriter_bytes; [exact Hby|]. rewrite new_awriter_eq. constructor. }
  destruct HR as (Ho & Hn & Hi & H). rewrite Hph in H. destruct H as (blocks & Hst & Hse & Hsk & Hacc & Hsm).
  assert (Hfr : sink_bytes (w_sink w) = frame_of_blocks (a_opts a) blocks).
  { rewrite sink_bytes_slist, Hsk. apply concat_hdr_blocks. }
  rewrite Hfr, <- Hacc. rewrite <- Hacc in Hba, Hcs, Hlen.
  apply frame_blocks_spec; try assumption. apply small_good; assumption.
Qed.

(* Flush empties the buffer *)
Lemma flush_open w a : R w a -> a_phase a = AFresh \/ a_phase a = AOpen ->
  exists blocks, open_inv (a_opts a) (fst (wstep w WFlush s0)) (a_acc (fst (awstep a WFlush))) blocks [].
Proof.
  intros HR Hph. destruct a as [ph o n acc]. cbn [a_phase a_opts] in *.
  pose proof HR as (Ho & Hn & Hi & H). cbn [a_phase a_opts a_num a_acc] in *.
  pose proof (opts_inv_bsz o Hi) as Hbz.
  destruct Hph as [-> | ->]; cbn [awstep a_phase a_opts a_num a_acc fst].
  - destruct H as (Hst & Hse & Hsk).
    destruct (fresh_init w o Hbz Hst Ho Hsk) as (w1 & Hinit & Hopen & _).
    rewrite (wstep_first_ok w w1 WFlush s0 I Hst Hinit).
    destruct (open_item o _ _ _ _ IFlush Hi Hopen) as (_ & Hop1 & _).
    cbn [item_op idata item_blocks fst snd app] in Hop1. eexists; exact Hop1.
  - destruct H as (blocks & pend & Hopen).
    destruct (open_item o _ _ _ _ IFlush Hi Hopen) as (_ & Hop1 & _).
    cbn [item_op idata item_blocks fst snd] in Hop1. rewrite app_nil_r in Hop1. eexists; exact Hop1.
Qed.

Lemma run_writer_app a b : forall w, run_writer w (a ++ b) s0 =
  (fst (run_writer (fst (run_writer w a s0)) b s0), snd (run_writer w a s0) ++ snd (run_writer (fst (run_writer w a s0)) b s0)).
Proof.
  induction a as [|op a IH]; intros w; cbn [app run_writer].
  - cbn [fst snd app]. destruct (run_writer w b s0); reflexivity.
  - destruct (wstep w op s0) as [w1 r1]. rewrite IH.
    destruct (run_writer w1 a s0) as [w2 rs]. cbn [fst snd]. reflexivity.
Qed.
Lemma run_awriter_app a b : forall w, run_awriter w (a ++ b) =
  (fst (run_awriter (fst (run_awriter w a)) b), snd (run_awriter w a) ++ snd (run_awriter (fst (run_awriter w a)) b)).
Proof.
  induction a as [|op a IH]; intros w; cbn [app run_awriter].
  - cbn [fst snd app]. destruct (run_awriter w b); reflexivity.
  - destruct (awstep w op) as [w1 r1]. rewrite IH.
    destruct (run_awriter w1 a) as [w2 rs]. cbn [fst snd]. reflexivity.
Qed.

(* the reference machine on writes and flushes *)
Definition a_live (a : awriter) : Prop := a_phase a = AOpen \/ (a_phase a = AFresh /\ a_acc a = []).
Lemma a_items items : forall a, a_live a ->
  let a' := fst (run_awriter a (map item_op items)) in
  a_live a' /\ a_opts a' = a_opts a /\ a_acc a' = a_acc a ++ wdata items.
Proof.
  induction items as [|i items IH]; intros a Hl; cbn [map run_awriter wdata flat_map].
  - cbn [fst]. rewrite app_nil_r. repeat split; try reflexivity; exact Hl.
  - assert (H1 : a_live (fst (awstep a (item_op i))) /\ a_opts (fst (awstep a (item_op i))) = a_opts a /\
                 a_acc (fst (awstep a (item_op i))) = a_acc a ++ idata i).
    { destruct a as [ph o n acc]. unfold a_live in *. cbn [a_phase a_acc a_opts] in *.
      destruct Hl as [-> | [-> ->]]; destruct i as [d|]; cbn [item_op idata awstep a_phase a_opts a_num a_acc fst];
        rewrite ?app_nil_r; repeat split; auto. }
    destruct (awstep a (item_op i)) as [a1 r1]. cbn [fst] in H1. destruct H1 as (Hl1 & Ho1 & Ha1).
    specialize (IH a1 Hl1). destruct (run_awriter a1 (map item_op items)) as [a2 rs]. cbn [fst] in *.
    destruct IH as (Hl2 & Ho2 & Ha2). split; [exact Hl2|]. split; [congruence|].
    rewrite Ha2, Ha1, <- app_assoc. destruct i; reflexivity.
Qed.

Lemma opts_after_abs os o : opts_after os = Some o ->
  exists w1 a1, wstep (new_writer s0) (WApply os) s0 = (w1, RE ENil) /\ awstep new_awriter (WApply os) = (a1, RE ENil) /\
    R w1 a1 /\ a_opts a1 = o /\ a_phase a1 = AFresh /\ a_acc a1 = [].
Proof.
  unfold opts_after. intros H. destruct (sim_step _ _ (WApply os) R_new) as (Hr & HR).
  destruct (wstep (new_writer s0) (WApply os) s0) as [w1 r1]. destruct (awstep new_awriter (WApply os)) as [a1 r1'] eqn:Ea.
  cbn [fst snd] in *. subst r1'.
  destruct r1 as [| e |]; try discriminate H. destruct e; try discriminate H. inversion H as [Ho].
  exists w1, a1. split; [reflexivity|]. split; [reflexivity|]. split; [exact HR|].
  destruct HR as (Ho1 & _). split; [congruence|].
  rewrite new_awriter_eq in Ea. cbn [awstep a_phase a_opts a_num] in Ea.
  destruct (a_apply _ _ os) as [[o1 n1] e1]. destruct e1; inversion Ea; subst; split; reflexivity.
Qed.

(* L6 *)
Theorem writer_flush : writer_flush_stmt.
Proof.
  intros os o items Hopt Hmod Hit Hcs Hlen w.
  destruct (opts_after_abs os o Hopt) as (w1 & a1 & Hw1 & Ha1 & HR1 & Ho1 & Hph1 & Hacc1).
  assert (Hw : w = fst (wstep (fst (run_writer w1 (map item_op items) s0)) WFlush s0)).
  { unfold w. cbn [run_writer]. rewrite Hw1. rewrite run_writer_app.
    destruct (run_writer w1 (map item_op items) s0) as [w2 rs]. cbn [fst snd run_writer].
    destruct (wstep w2 WFlush s0) as [w3 r3]. reflexivity. }
  destruct (sim_run (map item_op items) w1 a1 HR1) as (_ & HR2).
  destruct (a_items items a1 (or_intror (conj Hph1 Hacc1))) as (Hl2 & Ho2 & Hacc2). cbv zeta in *.
  set (w2 := fst (run_writer w1 (map item_op items) s0)) in *.
  set (a2 := fst (run_awriter a1 (map item_op items))) in *.
  assert (Hph2 : a_phase a2 = AFresh \/ a_phase a2 = AOpen) by (destruct Hl2 as [H|[H _]]; auto).
  destruct (flush_open w2 a2 HR2 Hph2) as (blocks & Hop).
  rewrite <- Hw in Hop.
  assert (Hacc3 : a_acc (fst (awstep a2 WFlush)) = data_of items).
  { rewrite data_of_wdata. rewrite Hacc1 in Hacc2. cbn [app] in Hacc2. rewrite <- Hacc2.
    destruct a2 as [ph o2 n2 acc2]. unfold a_live in Hl2. cbn [a_phase a_acc] in *.
    destruct Hl2 as [-> | [-> ->]]; reflexivity. }
  rewrite Hacc3, Ho2, Ho1 in Hop. destruct Hop as (HI & Hcat & _ & Hsm). rewrite app_nil_r in Hcat.
  destruct HI as (_ & _ & _ & _ & _ & _ & Hsl & _).
  assert (Hfr : sink_bytes (w_sink w) ++ concat (close_writes o (data_of items)) = frame_of_blocks o blocks).
  { rewrite sink_bytes_slist, Hsl. rewrite <- Hcat. rewrite <- (app_nil_r (hdr_blocks o blocks)).
    rewrite concat_hdr_blocks. cbn [concat]. rewrite app_nil_r, <- app_assoc. reflexivity. }
  rewrite Hfr, <- Hcat. rewrite <- Hcat in Hcs, Hlen.
  assert (Hby : bytes (concat blocks)).
  { rewrite Hcat, data_of_wdata. clear -Hit. induction items as [|[d|] r IH]; cbn [wdata flat_map].
    - constructor.
    - inversion Hit; subst. apply bytes_app. split; [assumption|]. apply IH; assumption.
    - inversion Hit; subst. apply IH; assumption. }
  destruct HR1 as (_ & _ & Hi1 & _). rewrite Ho1 in Hi1.
  apply frame_blocks_spec; try assumption. apply small_good; assumption.
Qed.

(* ------------------------------------------------------------------ *)
(* Part 6: Reset (L5).  The list of earlier sinks [w_old] is never read. *)

Definition set_old (w : writer) (o : list sink) : writer :=
  mkw (w_state w) (w_serr w) (w_opts w) (w_num w) (w_bsz w) (w_pend w) (w_content w) (w_sink w) o.

Lemma w_block_old w o src : w_block (set_old w o) src = (set_old (fst (w_block w src)) o, snd (w_block w src)).
Proof.
  unfold w_block. cbn [set_old w_state w_serr w_opts w_num w_bsz w_pend w_content w_sink w_old].
  destruct (sink_writes _ _) as [s ok]. reflexivity.
Qed.

Lemma wwl_old o : forall fuel w buf n, w_write_loop fuel (set_old w o) buf n =
  (set_old (fst (fst (w_write_loop fuel w buf n))) o, snd (fst (w_write_loop fuel w buf n)), snd (w_write_loop fuel w buf n)).
Proof.
  induction fuel as [|f IH]; intros w buf n; cbn [w_write_loop]; [reflexivity|].
  destruct buf as [|x buf]; [reflexivity|].
  cbn [set_old w_pend w_bsz]. fold (set_old w o).
  destruct ((len (w_pend w) =? 0) && (w_bsz w <=? len (x :: buf))).
  - rewrite w_block_old. destruct (w_block w _) as [w1 e1]. cbn [fst snd].
    destruct e1; try reflexivity. apply IH.
  - cbv zeta.
    change (set_pend (set_old w o) (w_pend w ++ firstn (Z.to_nat (Z.min (w_bsz w - len (w_pend w)) (len (x :: buf)))) (x :: buf)))
      with (set_old (set_pend w (w_pend w ++ firstn (Z.to_nat (Z.min (w_bsz w - len (w_pend w)) (len (x :: buf)))) (x :: buf))) o).
    set (w1 := set_pend w _).
    change (w_pend (set_old w1 o)) with (w_pend w1).
    destruct (len (w_pend w1) <? w_bsz w); [reflexivity|].
    rewrite w_block_old. destruct (w_block w1 (w_pend w1)) as [w2 e2]. cbn [fst snd].
    destruct e2; try reflexivity.
    change (set_pend (set_old w2 o) []) with (set_old (set_pend w2 []) o). apply IH.
Qed.

Lemma rfl_old o : forall fuel w data n, w_readfrom_loop fuel (set_old w o) data n =
  (set_old (fst (fst (w_readfrom_loop fuel w data n))) o, snd (fst (w_readfrom_loop fuel w data n)),
   snd (w_readfrom_loop fuel w data n)).
Proof.
  induction fuel as [|f IH]; intros w data n; cbn [w_readfrom_loop]; [reflexivity|].
  cbn [set_old w_bsz]. fold (set_old w o).
  destruct (w_bsz w <=? len data).
  - rewrite w_block_old. destruct (w_block w _) as [w1 e1]. cbn [fst snd].
    destruct e1; try reflexivity. apply IH.
  - destruct data as [|x data]; [reflexivity|].
    rewrite w_block_old. destruct (w_block w _) as [w1 e1]. reflexivity.
Qed.

Lemma w_init_old w o : w_init (set_old w o) = (set_old (fst (w_init w)) o, snd (w_init w)).
Proof.
  unfold w_init. cbn [set_old w_state w_serr w_opts w_num w_bsz w_pend w_content w_sink w_old].
  destruct (sink_write _ _) as [s ok]. reflexivity.
Qed.
Lemma st_next_old w o e : st_next (set_old w o) e = set_old (st_next w e) o.
Proof. destruct e; reflexivity. Qed.
Lemma st_check_old w o e : st_check (set_old w o) e = set_old (st_check w e) o.
Proof. unfold st_check. cbn [set_old w_state]. destruct (w_state w =? lz4_errorState); [reflexivity|]. destruct e; reflexivity. Qed.

Definition fgo (w : writer) : writer * ecls :=
  match w_pend w with
  | [] => (w, ENil)
  | _ => let '(w1, e) := w_block w (w_pend w) in
         match e with ENil => (set_pend w1 [], ENil) | _ => (w1, e) end
  end.
Lemma w_flush_eq w : w_flush w =
  if w_state w =? lz4_writeState then fgo w
  else if w_state w =? lz4_errorState then (w, w_serr w)
  else if w_state w =? lz4_newState then
    let '(w1, e) := w_init w in
    let w2 := st_next w1 e in
    match e with ENil => fgo w2 | _ => (w2, e) end
  else (w, ENil).
Proof. reflexivity. Qed.
Lemma fgo_old w o : fgo (set_old w o) = (set_old (fst (fgo w)) o, snd (fgo w)).
Proof.
  unfold fgo. cbn [set_old w_pend]. fold (set_old w o). destruct (w_pend w) as [|x l]; [reflexivity|].
  rewrite w_block_old. destruct (w_block w (x :: l)) as [w1 e1]. cbn [fst snd]. destruct e1; reflexivity.
Qed.
Lemma w_flush_old w o : w_flush (set_old w o) = (set_old (fst (w_flush w)) o, snd (w_flush w)).
Proof.
  rewrite !w_flush_eq. cbn [set_old w_state w_serr]. fold (set_old w o).
  destruct (w_state w =? lz4_writeState); [apply fgo_old|].
  destruct (w_state w =? lz4_errorState); [reflexivity|].
  destruct (w_state w =? lz4_newState); [|reflexivity].
  rewrite w_init_old. destruct (w_init w) as [w1 e1]. cbn [fst snd]. cbv zeta. rewrite st_next_old.
  destruct e1; try reflexivity. apply fgo_old.
Qed.

Lemma apply_opt_old w o op : apply_opt (set_old w o) op = (set_old (fst (apply_opt w op)) o, snd (apply_opt w op)).
Proof.
  unfold apply_opt. cbv zeta. cbn [set_old w_state w_serr w_opts w_num w_bsz w_pend w_content w_sink w_old].
  destruct op as [size|b|b|n|l|n|b]; try reflexivity.
  - destruct (lz4block_BlockSizeIndex_IsValid _); reflexivity.
  - destruct (valid_level l); reflexivity.
Qed.
Lemma apply_opts_old o : forall os w, apply_opts (set_old w o) os = (set_old (fst (apply_opts w os)) o, snd (apply_opts w os)).
Proof.
  induction os as [|op os IH]; intros w; cbn [apply_opts]; [reflexivity|].
  rewrite apply_opt_old. destruct (apply_opt w op) as [w1 e1]. cbn [fst snd].
  destruct e1; try reflexivity. apply IH.
Qed.

Lemma wstep_apply_eq w os fresh : wstep w (WApply os) fresh =
  if w_state w =? lz4_newState then let '(w1, e) := apply_opts (w_reset w (w_sink w) false) os in (st_check w1 e, RE e)
  else if w_state w =? lz4_errorState then (w, RE (w_serr w))
  else (st_check w EClosed, RE EClosed).
Proof. reflexivity. Qed.

Lemma wstep_old w o op : op <> WReset ->
  wstep (set_old w o) op s0 = (set_old (fst (wstep w op s0)) o, snd (wstep w op s0)).
Proof.
  intros Hop. destruct op as [os|buf|data| | |].
  - rewrite !wstep_apply_eq. cbn [set_old w_state w_serr w_sink]. fold (set_old w o).
    destruct (w_state w =? lz4_newState).
    + change (w_reset (set_old w o) (w_sink w) false) with (set_old (w_reset w (w_sink w) false) o).
      rewrite apply_opts_old. destruct (apply_opts _ os) as [w1 e1]. cbn [fst snd]. rewrite st_check_old. reflexivity.
    + destruct (w_state w =? lz4_errorState); [reflexivity|]. rewrite st_check_old. reflexivity.
  - cbn [wstep]. cbn [set_old w_state w_serr]. fold (set_old w o).
    destruct (w_state w =? lz4_writeState).
    { rewrite wwl_old. destruct (w_write_loop _ w buf 0) as [[w1 n1] e1]. cbn [fst snd]. rewrite st_check_old. reflexivity. }
    destruct ((w_state w =? lz4_closedState) || (w_state w =? lz4_errorState)).
    { rewrite st_check_old. reflexivity. }
    destruct (w_state w =? lz4_newState); [|reflexivity].
    rewrite w_init_old. destruct (w_init w) as [w1 e1]. cbn [fst snd]. rewrite st_next_old.
    destruct e1; try (rewrite st_check_old; reflexivity).
    rewrite wwl_old. destruct (w_write_loop _ _ buf 0) as [[w2 n2] e2]. cbn [fst snd]. rewrite st_check_old. reflexivity.
  - cbn [wstep]. cbn [set_old w_state w_serr]. fold (set_old w o).
    destruct ((w_state w =? lz4_closedState) || (w_state w =? lz4_errorState)); [reflexivity|].
    destruct (w_state w =? lz4_newState); [|reflexivity].
    rewrite w_init_old. destruct (w_init w) as [w1 e1]. cbn [fst snd]. rewrite st_next_old.
    destruct e1; try reflexivity.
    rewrite rfl_old. destruct (w_readfrom_loop _ _ data 0) as [[w2 n2] e2]. cbn [fst snd]. rewrite st_check_old. reflexivity.
  - cbn [wstep]. rewrite w_flush_old. destruct (w_flush w) as [w1 e1]. reflexivity.
  - cbn [wstep]. cbn [set_old w_state]. fold (set_old w o).
    destruct (w_state w =? lz4_closedState); [reflexivity|].
    rewrite w_flush_old. destruct (w_flush w) as [w1 e1]. cbn [fst snd].
    destruct e1; try reflexivity.
    cbn [set_old w_sink w_opts w_content]. destruct (sink_writes _ _) as [s ok].
    destruct ok; reflexivity.
  - contradiction Hop; reflexivity.
Qed.

(* in newState the buffers are overwritten by Writer.init before they are read *)
Definition clean (w : writer) : writer :=
  mkw (w_state w) (w_serr w) (w_opts w) (w_num w) 0 [] [] (w_sink w) (w_old w).
Definition is_data_op (op : wop) : Prop :=
  match op with WWrite _ | WReadFrom _ | WFlush | WClose => True | _ => False end.

Lemma wstep_new_clean w op : w_state w = lz4_newState -> is_data_op op -> wstep (clean w) op s0 = wstep w op s0.
Proof.
  intros Hst Hop. destruct w as [st se o n b p c sk old]. cbn [w_state] in Hst. subst st. unfold clean.
  cbn [w_state w_serr w_opts w_num w_sink w_old].
  destruct op as [os|buf|data| | |]; try contradiction; reflexivity.
Qed.

Lemma quiet_step w op : w_state w = lz4_closedState \/ (w_state w = lz4_errorState /\ w_serr w <> ENil) ->
  op <> WReset -> w_sink (fst (wstep w op s0)) = w_sink w.
Proof.
  intros Hstate Hop. destruct Hstate as [Hst|[Hst He]].
  - destruct op as [os|buf|data| | |]; cbn [wstep]; try rewrite Hst; st_simp; cbn [fst]; try reflexivity.
    + apply st_check_sink.
    + apply st_check_sink.
    + unfold w_flush. rewrite Hst. st_simp. reflexivity.
    + contradiction Hop; reflexivity.
  - destruct op as [os|buf|data| | |]; cbn [wstep]; try rewrite Hst; st_simp; cbn [fst]; try reflexivity.
    + apply st_check_sink.
    + unfold w_flush. rewrite Hst. st_simp. reflexivity.
    + unfold w_flush. rewrite Hst. st_simp. destruct (w_serr w); try reflexivity. contradiction He; reflexivity.
    + contradiction Hop; reflexivity.
Qed.

Definition E (w1 w2 : writer) : Prop :=
  (exists a, R w1 a /\ R w2 a) /\ w_serr w1 = w_serr w2 /\ w_sink w1 = w_sink w2 /\
  (w_state w1 = lz4_writeState -> w_bsz w1 = w_bsz w2 /\ w_pend w1 = w_pend w2 /\ w_content w1 = w_content w2).

Lemma R_det w1 w2 a : R w1 a -> R w2 a ->
  w_state w1 = w_state w2 /\ w_opts w1 = w_opts w2 /\ w_num w1 = w_num w2 /\
  (a_phase a <> AOpen -> w_serr w1 = w_serr w2 /\ w_state w1 <> lz4_writeState) /\
  (a_phase a = AFresh -> w_sink w1 = w_sink w2).
Proof.
  intros (Ho1 & Hn1 & _ & H1) (Ho2 & Hn2 & _ & H2).
  split; [|split; [congruence|split; [congruence|]]]; destruct (a_phase a) as [| | |e].
  - destruct H1 as (? & _), H2 as (? & _); congruence.
  - destruct H1 as (? & ? & (? & _) & _), H2 as (? & ? & (? & _) & _); congruence.
  - destruct H1 as (? & ? & _), H2 as (? & ? & _); congruence.
  - destruct H1 as (? & _), H2 as (? & _); congruence.
  - destruct H1 as (Hs1 & He1 & Hk1), H2 as (Hs2 & He2 & Hk2).
    split; [intros _; split; [congruence|rewrite Hs1; discriminate]|intros _; congruence].
  - split; [intros H; contradiction H; reflexivity|intros H; discriminate H].
  - destruct H1 as (? & Hs1 & He1 & _), H2 as (? & Hs2 & He2 & _).
    split; [intros _; split; [congruence|rewrite Hs1; discriminate]|intros H; discriminate H].
  - destruct H1 as (Hs1 & He1 & _), H2 as (Hs2 & He2 & _).
    split; [intros _; split; [congruence|rewrite Hs1; discriminate]|intros H; discriminate H].
Qed.

Lemma oldeq_set_old w1 w2 : w_state w1 = w_state w2 -> w_serr w1 = w_serr w2 -> w_opts w1 = w_opts w2 ->
  w_num w1 = w_num w2 -> w_bsz w1 = w_bsz w2 -> w_pend w1 = w_pend w2 -> w_content w1 = w_content w2 ->
  w_sink w1 = w_sink w2 -> w2 = set_old w1 (w_old w2).
Proof.
  destruct w1 as [a1 b1 c1 d1 e1 f1 g1 h1 i1], w2 as [a2 b2 c2 d2 e2 f2 g2 h2 i2].
  cbn [w_state w_serr w_opts w_num w_bsz w_pend w_content w_sink w_old set_old].
  intros; subst; reflexivity.
Qed.

(* two Writers that differ only in [w_old] stay so *)
Lemma old_step w o op : op <> WReset ->
  let w1' := fst (wstep w op s0) in let w2' := fst (wstep (set_old w o) op s0) in
  w_serr w1' = w_serr w2' /\ w_sink w1' = w_sink w2' /\
  w_bsz w1' = w_bsz w2' /\ w_pend w1' = w_pend w2' /\ w_content w1' = w_content w2'.
Proof. intros Hop. cbv zeta. rewrite (wstep_old w o op Hop). cbn [fst set_old w_serr w_sink w_bsz w_pend w_content]. repeat split. Qed.

Lemma a_phase_after_quiet a op : a_phase a = AClosed \/ (exists e, a_phase a = AFailed e) -> op <> WReset ->
  a_phase (fst (awstep a op)) <> AOpen.
Proof.
  intros Hph Hop. destruct a as [ph o n acc]. cbn [a_phase] in Hph.
  destruct Hph as [-> | [e ->]]; destruct op; cbn [awstep a_phase fst]; try discriminate; contradiction Hop; reflexivity.
Qed.

Lemma wop_reset_dec (op : wop) : op = WReset \/ op <> WReset.
Proof. destruct op; try (right; discriminate). left; reflexivity. Qed.

Lemma E_step w1 w2 op : E w1 w2 ->
  snd (wstep w1 op s0) = snd (wstep w2 op s0) /\ E (fst (wstep w1 op s0)) (fst (wstep w2 op s0)).
Proof.
  intros ((a & HR1 & HR2) & Hse & Hsk & Hwr).
  destruct (sim_step w1 a op HR1) as (Hr1 & HR1'). destruct (sim_step w2 a op HR2) as (Hr2 & HR2').
  split; [congruence|].
  destruct (R_det _ _ _ HR1 HR2) as (Hst & Hopts & Hnum & Hnopen & _).
  destruct (R_det _ _ _ HR1' HR2') as (Hst' & _ & _ & Hnopen' & Hfresh').
  unfold E. split; [exists (fst (awstep a op)); split; assumption|].
  (* Reset: both are fresh *)
  destruct (wop_reset_dec op) as [-> | Hop].
  { cbn [wstep fst w_reset w_serr w_sink w_state]. split; [reflexivity|]. split; [reflexivity|]. intros H0; discriminate H0. }
  pose proof (R_phase _ _ HR1) as Hph. unfold abs_phase in Hph.
  destruct (w_state w1 =? lz4_newState) eqn:En.
  { (* AFresh *)
    assert (Hst1 : w_state w1 = lz4_newState) by lia. assert (Hst2 : w_state w2 = lz4_newState) by congruence.
    destruct op as [os|buf|data| | |]; try (contradiction Hop; reflexivity).
    - (* Apply: stays fresh or fails *)
      assert (Hph' : a_phase (fst (awstep a (WApply os))) <> AOpen).
      { destruct a as [ph o n acc]. cbn [a_phase] in Hph. subst ph. cbn [awstep a_phase].
        destruct (a_apply _ _ os) as [[o1 n1] e1]. destruct e1; cbn [fst a_phase]; discriminate. }
      destruct (Hnopen' Hph') as (Hse' & Hnw). split; [exact Hse'|]. split; [|intros H; contradiction].
      rewrite !wstep_apply_new by assumption.
      destruct (apply_opts (w_reset w1 _ false) os) as [w1a e1] eqn:E1.
      destruct (apply_opts (w_reset w2 _ false) os) as [w2a e2] eqn:E2.
      destruct (apply_opts_props _ _ _ _ E1) as (_ & Hk1 & _). destruct (apply_opts_props _ _ _ _ E2) as (_ & Hk2 & _).
      cbn [fst]. rewrite !st_check_sink, Hk1, Hk2. cbn [w_reset w_sink]. exact Hsk.
    - rewrite <- (wstep_new_clean w1 (WWrite buf) Hst1 I), <- (wstep_new_clean w2 (WWrite buf) Hst2 I).
      rewrite (oldeq_set_old (clean w1) (clean w2)); cbn [clean w_state w_serr w_opts w_num w_bsz w_pend w_content w_sink]; try assumption; try reflexivity.
      cbn [w_old]. destruct (old_step (clean w1) (w_old w2) (WWrite buf) Hop) as (H1 & H2 & H3 & H4 & H5). cbv zeta in *.
      split; [exact H1|]. split; [exact H2|]. intros _. repeat split; assumption.
    - rewrite <- (wstep_new_clean w1 (WReadFrom data) Hst1 I), <- (wstep_new_clean w2 (WReadFrom data) Hst2 I).
      rewrite (oldeq_set_old (clean w1) (clean w2)); cbn [clean w_state w_serr w_opts w_num w_bsz w_pend w_content w_sink]; try assumption; try reflexivity.
      cbn [w_old]. destruct (old_step (clean w1) (w_old w2) (WReadFrom data) Hop) as (H1 & H2 & H3 & H4 & H5). cbv zeta in *.
      split; [exact H1|]. split; [exact H2|]. intros _. repeat split; assumption.
    - rewrite <- (wstep_new_clean w1 WFlush Hst1 I), <- (wstep_new_clean w2 WFlush Hst2 I).
      rewrite (oldeq_set_old (clean w1) (clean w2)); cbn [clean w_state w_serr w_opts w_num w_bsz w_pend w_content w_sink]; try assumption; try reflexivity.
      cbn [w_old]. destruct (old_step (clean w1) (w_old w2) WFlush Hop) as (H1 & H2 & H3 & H4 & H5). cbv zeta in *.
      split; [exact H1|]. split; [exact H2|]. intros _. repeat split; assumption.
    - rewrite <- (wstep_new_clean w1 WClose Hst1 I), <- (wstep_new_clean w2 WClose Hst2 I).
      rewrite (oldeq_set_old (clean w1) (clean w2)); cbn [clean w_state w_serr w_opts w_num w_bsz w_pend w_content w_sink]; try assumption; try reflexivity.
      cbn [w_old]. destruct (old_step (clean w1) (w_old w2) WClose Hop) as (H1 & H2 & H3 & H4 & H5). cbv zeta in *.
      split; [exact H1|]. split; [exact H2|]. intros _. repeat split; assumption. }
  destruct (w_state w1 =? lz4_writeState) eqn:Ew.
  { (* AOpen: lock-step *)
    assert (Hst1 : w_state w1 = lz4_writeState) by lia. destruct (Hwr Hst1) as (Hb & Hp & Hc).
    rewrite (oldeq_set_old w1 w2) by assumption.
    destruct (old_step w1 (w_old w2) op Hop) as (H1 & H2 & H3 & H4 & H5). cbv zeta in *.
    split; [exact H1|]. split; [exact H2|]. intros _. repeat split; assumption. }
  (* AClosed / AFailed: nothing is written, the error is determined by the phase *)
  assert (Hq : a_phase a = AClosed \/ (exists e, a_phase a = AFailed e)).
  { destruct (w_state w1 =? lz4_closedState); [left; congruence|right; eexists; symmetry; exact Hph]. }
  pose proof (a_phase_after_quiet a op Hq Hop) as Hph'.
  destruct (Hnopen' Hph') as (Hse' & Hnw). split; [exact Hse'|]. split; [|intros H; contradiction].
  assert (Hq1 : w_state w1 = lz4_closedState \/ (w_state w1 = lz4_errorState /\ w_serr w1 <> ENil)).
  { destruct HR1 as (_ & _ & _ & H). destruct Hq as [Hc|[e He]]; rewrite ?Hc, ?He in H.
    - destruct H as (b & Hs & _). left; exact Hs.
    - destruct H as (Hs & Hser & Hne). right. split; [exact Hs|congruence]. }
  assert (Hq2 : w_state w2 = lz4_closedState \/ (w_state w2 = lz4_errorState /\ w_serr w2 <> ENil)).
  { rewrite <- Hst, <- Hse. exact Hq1. }
  rewrite (quiet_step w1 op Hq1 Hop), (quiet_step w2 op Hq2 Hop). exact Hsk.
Qed.

Lemma E_run ops : forall w1 w2, E w1 w2 ->
  snd (run_writer w1 ops s0) = snd (run_writer w2 ops s0) /\ E (fst (run_writer w1 ops s0)) (fst (run_writer w2 ops s0)).
Proof.
  induction ops as [|op ops IH]; intros w1 w2 HE; cbn [run_writer].
  - split; [reflexivity|exact HE].
  - destruct (E_step w1 w2 op HE) as (Hr & HE1).
    destruct (wstep w1 op s0) as [w1' r1]. destruct (wstep w2 op s0) as [w2' r2]. cbn [fst snd] in *.
    destruct (IH w1' w2' HE1) as (Hrs & HE2).
    destruct (run_writer w1' ops s0) as [w1'' rs1]. destruct (run_writer w2' ops s0) as [w2'' rs2]. cbn [fst snd] in *.
    split; [congruence|exact HE2].
Qed.

(* L5 *)
Theorem writer_reset : writer_reset_stmt.
Proof.
  intros ops ops' w a fresh.
  set (w0 := fst (run_writer (new_writer s0) ops s0)) in *.
  assert (Ha : a = fst (awstep (fst (run_awriter new_awriter ops)) WReset)).
  { unfold a. rewrite run_awriter_app. cbn [fst run_awriter].
    destruct (awstep (fst (run_awriter new_awriter ops)) WReset) as [a1 r1]. reflexivity. }
  pose proof (R_reach ops) as HR0. fold w0 in HR0.
  destruct (sim_step w0 _ WReset HR0) as (_ & HR). fold w in HR. rewrite <- Ha in HR.
  assert (Hfr : a_phase a = AFresh).
  { rewrite Ha. destruct (fst (run_awriter new_awriter ops)) as [ph o n acc]. destruct ph; reflexivity. }
  assert (HRf : R fresh a).
  { destruct HR as (_ & _ & Hi & _). unfold R. rewrite Hfr. unfold fresh. cbn [w_opts w_num w_state w_serr w_sink].
    split; [reflexivity|]. split; [reflexivity|]. split; [exact Hi|]. split; [reflexivity|]. split; reflexivity. }
  assert (HE : E w fresh).
  { split; [exists a; split; assumption|].
    pose proof HR as (_ & _ & _ & H). rewrite Hfr in H. destruct H as (Hst & Hse & Hsk).
    split; [exact Hse|]. split; [exact Hsk|]. rewrite Hst. intros H0; discriminate H0. }
  destruct (E_run ops' w fresh HE) as (Hres & _ & _ & Hsk & _).
  split; [exact Hres|]. rewrite Hsk. reflexivity.
Qed.

(* stronger form of L5: the whole sink (call pattern included) agrees, not only its bytes *)
Theorem writer_reset_sink : forall ops ops',
  let w := fst (wstep (fst (run_writer (new_writer s0) ops s0)) WReset s0) in
  let a := fst (run_awriter new_awriter (ops ++ [WReset])) in
  let fresh := mkw lz4_newState ENil (a_opts a) (a_num a) 0 [] [] s0 [] in
  E (fst (run_writer w ops' s0)) (fst (run_writer fresh ops' s0)).
Proof.
  intros ops ops' w a fresh.
  set (w0 := fst (run_writer (new_writer s0) ops s0)) in *.
  assert (Ha : a = fst (awstep (fst (run_awriter new_awriter ops)) WReset)).
  { unfold a. rewrite run_awriter_app. cbn [fst run_awriter].
    destruct (awstep (fst (run_awriter new_awriter ops)) WReset) as [a1 r1]. reflexivity. }
  pose proof (R_reach ops) as HR0. fold w0 in HR0.
  destruct (sim_step w0 _ WReset HR0) as (_ & HR). fold w in HR. rewrite <- Ha in HR.
  assert (Hfr : a_phase a = AFresh).
  { rewrite Ha. destruct (fst (run_awriter new_awriter ops)) as [ph o n acc]. destruct ph; reflexivity. }
  assert (HRf : R fresh a).
  { destruct HR as (_ & _ & Hi & _). unfold R. rewrite Hfr. unfold fresh. cbn [w_opts w_num w_state w_serr w_sink].
    split; [reflexivity|]. split; [reflexivity|]. split; [exact Hi|]. split; [reflexivity|]. split; reflexivity. }
  assert (HE : E w fresh).
  { split; [exists a; split; assumption|].
    pose proof HR as (_ & _ & _ & H). rewrite Hfr in H. destruct H as (Hst & Hse & Hsk).
    split; [exact Hse|]. split; [exact Hsk|]. rewrite Hst. intros H0; discriminate H0. }
  apply E_run. exact HE.
Qed.

Print Assumptions writer_refines.
Print Assumptions writer_abs.
Print Assumptions writer_quiet.
Print Assumptions writer_reset.
Print Assumptions writer_flush.
Print Assumptions writer_epoch_output.
