(* Lz4c.v — model of the lz4c command (cmd/lz4c/compress.go, uncompress.go) as a composition of
   the Writer and Reader models.  Which flag feeds which option, whether it is negated, where the
   level switch is evaluated and in which order the per-file loop calls the Writer are NOT written
   here: they come from GenLz4c.v, regenerated from compress.go on every run. *)
From LZ4V Require Import Base GenBlock GenStream GenLz4 GenLz4c XXH32 BlockFormat FrameImpl Writer Reader.

Record cflags := mkcf { f_size : Z;     (* -size, already converted to bytes by bytefmt.ToBytes *)
                        f_bc : bool;    (* -bc *)
                        f_sc : bool;    (* -sc *)
                        f_level : Z;    (* -l *)
                        f_conc : Z }.   (* -c *)
Definition default_flags : cflags := mkcf 4194304 false false 0 (-1).

(* the `switch level` of compress.go *)
Definition level_of (l : Z) : Z :=
  if l =? 1 then lz4_Level1 else if l =? 2 then lz4_Level2 else if l =? 3 then lz4_Level3
  else if l =? 4 then lz4_Level4 else if l =? 5 then lz4_Level5 else if l =? 6 then lz4_Level6
  else if l =? 7 then lz4_Level7 else if l =? 8 then lz4_Level8 else if l =? 9 then lz4_Level9 else lz4_Fast.

(* value of the flag a given option is wired to (codes of GenLz4c: 1 size, 2 bc, 3 sc, 4 l, 5 c) *)
Definition bool_flag (fl : cflags) (code : Z) : bool :=
  if code =? 2 then f_bc fl else if code =? 3 then f_sc fl else false.
Definition wired_bool (fl : cflags) (code : Z) (negated : bool) : bool :=
  if negated then negb (bool_flag fl code) else bool_flag fl code.

(* the option list handed to zw.Apply, in the order of the source *)
Definition options_of (fl : cflags) : list wopt :=
  [ OBlockChecksum (wired_bool fl lz4c_opt_BlockChecksumOption_flag lz4c_opt_BlockChecksumOption_negated);
    OBlockSize (if lz4c_opt_BlockSizeOption_flag =? 1 then f_size fl else 0);
    OChecksum (wired_bool fl lz4c_opt_ChecksumOption_flag lz4c_opt_ChecksumOption_negated);
    (* the level switch sees the parsed flag only when it is evaluated inside the handler *)
    OLevel (level_of (if lz4c_level_switch_in_handler && (lz4c_opt_CompressionLevelOption_flag =? 4) then f_level fl else 0));
    OConcurrency (if f_conc fl <=? 0 then 16 else f_conc fl) ].

Inductive cres := CmdOk (outs : list (list Z)) | CmdErr (done : list (list Z)) (e : ecls).

(* one file: the calls of the loop body on the Writer, in source order *)
Fixpoint file_calls (calls : list Z) (w : writer) (data : list Z) : writer * ecls :=
  match calls with
  | [] => (w, ENil)
  | c :: r =>
    let '(w1, e) :=
      if c =? 1 then (match data with [] => (w, ENil)      (* Apply(OnBlockDone) only when size > 0 *)
                      | _ => match wstep w (WApply []) (mksink [] 0 0) with (w1, RE e) => (w1, e) | (w1, _) => (w1, ENil) end end)
      else if c =? 2 then (fst (wstep w WReset (mksink [] 0 0)), ENil)
      else if c =? 3 then (match wstep w (WReadFrom data) (mksink [] 0 0) with (w1, RNE _ e) => (w1, e) | (w1, _) => (w1, ENil) end)
      else if c =? 4 then (match wstep w WClose (mksink [] 0 0) with (w1, RE e) => (w1, e) | (w1, _) => (w1, ENil) end)
      else (w, ENil) in
    match e with ENil => file_calls r w1 data | _ => (w1, e) end
  end.

Fixpoint files_loop (w : writer) (files : list (list Z)) (acc : list (list Z)) : cres :=
  match files with
  | [] => CmdOk (rev_append acc [])
  | d :: r =>
    let '(w1, e) := file_calls lz4c_loop_calls w d in
    match e with
    | ENil => files_loop w1 r (sink_bytes (w_sink w1) :: acc)
    | _ => CmdErr (rev_append acc []) e
    end
  end.

(* lz4c compress <flags> files... : the bytes of each .lz4 file *)
Definition cmd_compress (fl : cflags) (files : list (list Z)) : cres :=
  let w0 := new_writer (mksink [] 0 0) in
  match wstep w0 (WApply (options_of fl)) (mksink [] 0 0) with
  | (w1, RE ENil) => files_loop w1 files []
  | (_, RE e) => CmdErr [] e
  | _ => CmdErr [] EOther
  end.
(* stdin/stdout: Reset(os.Stdout); io.Copy(zw, os.Stdin); Close *)
Definition cmd_compress_stdio (fl : cflags) (data : list Z) : cres :=
  let w0 := new_writer (mksink [] 0 0) in
  match wstep w0 (WApply (options_of fl)) (mksink [] 0 0) with
  | (w1, RE ENil) =>
    let '(w2, e) := file_calls [2; 3; 4] w1 data in
    match e with ENil => CmdOk [sink_bytes (w_sink w2)] | _ => CmdErr [] e end
  | (_, RE e) => CmdErr [] e
  | _ => CmdErr [] EOther
  end.

(* lz4c uncompress: each file through a (reused) Reader's WriteTo (io.Copy(out, zr) uses WriteTo) *)
Fixpoint cmd_uncompress (r : reader) (zfiles : list (list Z)) : list (list Z * ecls) :=
  match zfiles with
  | [] => []
  | z :: tl =>
    let '(r1, _) := rstep r (RReset z) in
    match rstep r1 RWriteTo with
    | (r2, RRes _ e out) => (out, e) :: cmd_uncompress r2 tl
    | (r2, _) => ([], EOther) :: cmd_uncompress r2 tl
    end
  end.
