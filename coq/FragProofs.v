(* FragProofs.v — fragmentation of the source's reads is irrelevant to io.ReadFull (C15). *)
From LZ4V Require Import Base FrameImpl Writer Reader FragSpec.
From Coq Require Import ZifyBool.

(* take_upto in closed form *)
Lemma take_upto_firstn_skipn : forall l n acc,
  take_upto n l acc = (rev acc ++ firstn (Z.to_nat n) l, skipn (Z.to_nat n) l).
Proof.
  induction l as [|x r IH]; intros n acc; cbn [take_upto].
  - rewrite rrev_rev, firstn_nil, skipn_nil, app_nil_r. destruct (n <=? 0); reflexivity.
  - destruct (n <=? 0) eqn:Hn.
    + replace (Z.to_nat n) with O by lia. cbn [firstn skipn]. now rewrite rrev_rev, app_nil_r.
    + rewrite IH. replace (Z.to_nat n) with (S (Z.to_nat (n - 1))) by lia.
      cbn [firstn skipn rev]. now rewrite <- app_assoc.
Qed.

Lemma len_firstn_le {A} (n : nat) (l : list A) : (n <= length l)%nat -> len (firstn n l) = Z.of_nat n.
Proof. intros H. unfold len. rewrite firstn_length. lia. Qed.

Lemma skipn_skipn' {A} : forall (a b : nat) (l : list A), skipn a (skipn b l) = skipn (b + a) l.
Proof.
  intros a b; induction b as [|b IH]; intros l; [reflexivity|].
  destruct l as [|x l]; cbn [skipn Nat.add]; [now rewrite skipn_nil|apply IH].
Qed.

(* the unfragmented outcome, from an accumulator *)
Definition frag_spec (want : Z) (acc rem : list Z) : list Z * ecls * list Z :=
  let k := Z.to_nat (want - len acc) in
  let b := acc ++ firstn k rem in
  (b, (if want <=? len b then ENil else match b with [] => EEOF | _ => EUEOF end), skipn k rem).

Lemma frag_spec_step want acc rem n :
  (n <= Z.to_nat (want - len acc))%nat -> (n <= length rem)%nat ->
  frag_spec want (acc ++ firstn n rem) (skipn n rem) = frag_spec want acc rem.
Proof.
  intros Hk Hl. unfold frag_spec. cbn zeta.
  rewrite len_app, (len_firstn_le n rem Hl).
  set (k := Z.to_nat (want - len acc)) in *.
  replace (Z.to_nat (want - (len acc + Z.of_nat n))) with (k - n)%nat by lia.
  assert (Hb : (acc ++ firstn n rem) ++ firstn (k - n) (skipn n rem) = acc ++ firstn k rem).
  { rewrite <- app_assoc. f_equal.
    rewrite <- (firstn_skipn n rem) at 3.
    rewrite firstn_app, firstn_length, Nat.min_l by exact Hl.
    rewrite (firstn_all2 (n:=k)) by (rewrite firstn_length; lia). reflexivity. }
  rewrite Hb. f_equal.
  rewrite skipn_skipn'. f_equal. lia.
Qed.

Lemma frag_read_nonempty rem room c : rem <> [] ->
  frag_read rem room c =
  (let n := Z.to_nat (Z.min (Z.min (Z.of_nat (fst c)) room) (len rem)) in
   (firstn n rem, match skipn n rem with [] => snd c | _ => false end, skipn n rem)).
Proof. destruct rem; [congruence|reflexivity]. Qed.

Lemma frag_readfull_spec : forall fuel rem plan want acc,
  ((length plan + 2 <= fuel)%nat \/ ((want <= len acc \/ rem = []) /\ (1 <= fuel)%nat)) ->
  let '(b, e, rem', _) := frag_readfull fuel rem plan want acc in
  (b, e, rem') = frag_spec want acc rem.
Proof.
  induction fuel as [|f IH]; intros rem plan want acc Hfuel.
  { exfalso. lia. }
  cbn [frag_readfull].
  destruct (want <=? len acc) eqn:Hfull.
  { unfold frag_spec. cbn zeta. replace (Z.to_nat (want - len acc)) with O by lia.
    cbn [firstn skipn]. rewrite app_nil_r, Hfull. reflexivity. }
  destruct rem as [|x r].
  { (* empty stream: (0, EOF) whatever the plan says *)
    assert (Hfr : forall c, frag_read [] (want - len acc) c = ([], true, [])) by reflexivity.
    destruct plan as [|c p]; rewrite Hfr; unfold frag_spec; cbn zeta;
      rewrite firstn_nil, skipn_nil; reflexivity. }
  assert (Hplan : (length plan + 2 <= S f)%nat).
  { destruct Hfuel as [H|[[H|H] _]]; [exact H|lia|discriminate]. }
  clear Hfuel.
  assert (Hrem : x :: r <> []) by discriminate.
  remember (x :: r) as rem eqn:Erem. clear Erem x r.
  (* one read with an arbitrary choice *)
  assert (Hstep : forall c p,
     ((length p + 2 <= f)%nat \/
      ((fst c = Z.to_nat want) /\ snd c = false /\ (1 <= f)%nat)) ->
     let '(b, e, rem', _) :=
       (let '(got, eof, rem') := frag_read rem (want - len acc) c in
        let acc' := acc ++ got in
        if eof then
          (acc', (if want <=? len acc' then ENil else match acc' with [] => EEOF | _ => EUEOF end), rem', p)
        else frag_readfull f rem' p want acc') in
     (b, e, rem') = frag_spec want acc rem).
  { intros c p Hc.
    rewrite (frag_read_nonempty rem _ c Hrem). cbn zeta.
    set (n := Z.min (Z.min (Z.of_nat (fst c)) (want - len acc)) (len rem)).
    assert (Hn0 : 0 <= n) by (pose proof (len_nonneg rem); lia).
    assert (Hnk : (Z.to_nat n <= Z.to_nat (want - len acc))%nat) by lia.
    assert (Hnl : (Z.to_nat n <= length rem)%nat) by (unfold len in *; lia).
    pose proof (frag_spec_step want acc rem (Z.to_nat n) Hnk Hnl) as Hsp.
    destruct (skipn (Z.to_nat n) rem) as [|y rest] eqn:Hrest.
    - (* everything consumed *)
      destruct (snd c) eqn:Heof.
      + rewrite <- Hsp. unfold frag_spec. cbn zeta. rewrite firstn_nil, skipn_nil, app_nil_r. reflexivity.
      + specialize (IH [] p want (acc ++ firstn (Z.to_nat n) rem)).
        rewrite <- Hsp. apply IH.
        destruct Hc as [Hc|(_ & _ & Hc)]; [left; exact Hc|right; split; [right; reflexivity|exact Hc]].
    - specialize (IH (y :: rest) p want (acc ++ firstn (Z.to_nat n) rem)).
      rewrite <- Hsp. apply IH.
      destruct Hc as [Hc|(Hc1 & _ & Hc)]; [left; exact Hc|].
      right. split; [|exact Hc]. left.
      (* plan exhausted: the source delivered all that was asked; it had more than that *)
      assert (Hlen : (Z.to_nat n < length rem)%nat).
      { destruct (Nat.lt_ge_cases (Z.to_nat n) (length rem)) as [Hlt|Hge]; [exact Hlt|].
        rewrite skipn_all2 in Hrest by exact Hge. discriminate. }
      rewrite len_app, (len_firstn_le _ _ Hnl).
      unfold len in *. lia. }
  destruct plan as [|c p].
  - apply (Hstep (Z.to_nat want, false) []).
    right. cbn [fst snd length] in *. repeat split; lia.
  - apply (Hstep c p). left. cbn [length] in Hplan. lia.
Qed.

Lemma plain_readfull_spec rem want : 0 <= want -> plain_readfull rem want = frag_spec want [] rem.
Proof.
  intros Hw. unfold plain_readfull, read_full, frag_spec. cbn [s_rem s_calls s_fail s_consumed].
  cbn zeta. change (len (@nil Z)) with 0. rewrite Z.sub_0_r. cbn [app].
  destruct (want <=? 0) eqn:Hw0.
  { replace (Z.to_nat want) with O by lia. cbn [firstn skipn]. change (len (@nil Z)) with 0.
    rewrite Hw0. reflexivity. }
  change (0 <? 0) with false. cbn [andb].
  destruct rem as [|x r].
  { rewrite firstn_nil, skipn_nil. change (len (@nil Z)) with 0. rewrite Hw0. reflexivity. }
  rewrite take_upto_firstn_skipn. cbn [rev app].
  set (rem := x :: r).
  assert (Hle : len (firstn (Z.to_nat want) rem) <= want).
  { unfold len. rewrite firstn_length. lia. }
  destruct (len (firstn (Z.to_nat want) rem) =? want) eqn:Heq; cbn [s_rem].
  - replace (want <=? len (firstn (Z.to_nat want) rem)) with true by lia. reflexivity.
  - replace (want <=? len (firstn (Z.to_nat want) rem)) with false by lia.
    destruct (firstn (Z.to_nat want) rem) eqn:Hf; [|reflexivity].
    exfalso. subst rem. replace (Z.to_nat want) with (S (Z.to_nat (want - 1))) in Hf by lia.
    cbn [firstn] in Hf. discriminate.
Qed.

Theorem frag_irrelevant : frag_irrelevant_stmt.
Proof.
  unfold frag_irrelevant_stmt. intros rem plan want Hw.
  pose proof (frag_readfull_spec (S (length plan) + S (length rem)) rem plan want []) as H.
  destruct (frag_readfull (S (length plan) + S (length rem)) rem plan want []) as [[[b e] rem'] p'].
  rewrite plain_readfull_spec by exact Hw. apply H. left. lia.
Qed.

Print Assumptions frag_irrelevant.
