(* GoT.v — support library for the Go function bodies translated by /verif/gen (gen/body.go).

   Hand-written, stdlib only, no axioms.  Three parts:
     1. integers: every Go integer is a Z, wrapped by its static type;
     2. memory: byte/word arrays are [list Z], slices and pointers-to-array are [slice] records
        pointing into a location; Go's bounds checks are the [*_ok] booleans;
     3. control: statements are [state -> outcome]; combinators and the lemmas used to reason
        about translated code (loop invariant rule, fuel monotonicity, seq/guard laws).

   The generated files (GenXXHBody.v, GenDecodeBody.v) instantiate [state], [loc], [ld], [stl]. *)
From Coq Require Import ZArith List Lia Bool Arith.
Import ListNotations.
Open Scope Z_scope.

(* ------------------------------------------------------------------------------------------ *)
(* 1. Integers                                                                                *)
(* ------------------------------------------------------------------------------------------ *)

(* unsigned wrap-around: x mod 2^w (numerals written out: convertible with Base.w8 .. w64) *)
Definition wu8  (x : Z) : Z := x mod 256.
Definition wu16 (x : Z) : Z := x mod 65536.
Definition wu32 (x : Z) : Z := x mod 4294967296.
Definition wu64 (x : Z) : Z := x mod 18446744073709551616.

(* signed: two's complement reinterpretation of the low w bits *)
Definition swrap (w x : Z) : Z := (x + 2 ^ (w - 1)) mod 2 ^ w - 2 ^ (w - 1).
Definition wi8  (x : Z) : Z := (x + 128) mod 256 - 128.
Definition wi16 (x : Z) : Z := (x + 32768) mod 65536 - 32768.
Definition wi32 (x : Z) : Z := (x + 2147483648) mod 4294967296 - 2147483648.
Definition wi64 (x : Z) : Z := (x + 9223372036854775808) mod 18446744073709551616 - 9223372036854775808.

Lemma wi8_swrap x : wi8 x = swrap 8 x.   Proof. reflexivity. Qed.
Lemma wi16_swrap x : wi16 x = swrap 16 x. Proof. reflexivity. Qed.
Lemma wi32_swrap x : wi32 x = swrap 32 x. Proof. reflexivity. Qed.
Lemma wi64_swrap x : wi64 x = swrap 64 x. Proof. reflexivity. Qed.

Lemma wu8_range x : 0 <= wu8 x < 256.   Proof. apply Z.mod_pos_bound; lia. Qed.
Lemma wu16_range x : 0 <= wu16 x < 65536. Proof. apply Z.mod_pos_bound; lia. Qed.
Lemma wu32_range x : 0 <= wu32 x < 4294967296. Proof. apply Z.mod_pos_bound; lia. Qed.
Lemma wu64_range x : 0 <= wu64 x < 18446744073709551616. Proof. apply Z.mod_pos_bound; lia. Qed.
Lemma wu8_id x : 0 <= x < 256 -> wu8 x = x.   Proof. apply Z.mod_small. Qed.
Lemma wu16_id x : 0 <= x < 65536 -> wu16 x = x. Proof. apply Z.mod_small. Qed.
Lemma wu32_id x : 0 <= x < 4294967296 -> wu32 x = x. Proof. apply Z.mod_small. Qed.
Lemma wu64_id x : 0 <= x < 18446744073709551616 -> wu64 x = x. Proof. apply Z.mod_small. Qed.
Lemma wi64_range x : - 9223372036854775808 <= wi64 x < 9223372036854775808.
Proof.
  unfold wi64.
  pose proof (Z.mod_pos_bound (x + 9223372036854775808) 18446744073709551616 ltac:(lia)). lia.
Qed.
Lemma wi64_id x : - 9223372036854775808 <= x < 9223372036854775808 -> wi64 x = x.
Proof. intros H. unfold wi64. rewrite Z.mod_small; lia. Qed.
Lemma wi32_id x : - 2147483648 <= x < 2147483648 -> wi32 x = x.
Proof. intros H. unfold wi32. rewrite Z.mod_small; lia. Qed.

(* ------------------------------------------------------------------------------------------ *)
(* 2. Memory                                                                                  *)
(* ------------------------------------------------------------------------------------------ *)

Definition zlen (l : list Z) : Z := Z.of_nat (length l).
Definition znth (l : list Z) (i : Z) : Z := nth (Z.to_nat i) l 0.
(* l[off : off+n] *)
Definition zsub (l : list Z) (off n : Z) : list Z := firstn (Z.to_nat n) (skipn (Z.to_nat off) l).
(* l with d written at offset off (same length when off + |d| <= |l|) *)
Definition zsplice (l : list Z) (off : Z) (d : list Z) : list Z :=
  firstn (Z.to_nat off) l ++ d ++ skipn (Z.to_nat off + length d) l.
Definition zupd (l : list Z) (i v : Z) : list Z := zsplice l i [v].

Lemma nth_firstn_lt {A} n : forall (l : list A) i d, (i < n)%nat -> nth i (firstn n l) d = nth i l d.
Proof.
  induction n as [|n IH]; intros l i d Hi; [lia|].
  destruct l as [|x l]; [reflexivity|]. destruct i as [|i]; [reflexivity|].
  cbn [firstn nth]. apply IH. lia.
Qed.
Lemma nth_skipn_add {A} n : forall (l : list A) i d, nth i (skipn n l) d = nth (n + i) l d.
Proof.
  induction n as [|n IH]; intros l i d; [reflexivity|].
  destruct l as [|x l]; [destruct i; reflexivity|]. cbn [skipn Nat.add nth]. apply IH.
Qed.

Lemma zlen_nonneg l : 0 <= zlen l.
Proof. unfold zlen; lia. Qed.
Lemma zlen_app a b : zlen (a ++ b) = zlen a + zlen b.
Proof. unfold zlen; rewrite app_length; lia. Qed.
Lemma zsub_length l off n : 0 <= off -> 0 <= n -> off + n <= zlen l -> zlen (zsub l off n) = n.
Proof.
  unfold zsub, zlen; intros. rewrite firstn_length, skipn_length. lia.
Qed.
Lemma zsplice_length l off d : 0 <= off -> off + zlen d <= zlen l -> zlen (zsplice l off d) = zlen l.
Proof.
  unfold zsplice, zlen; intros. rewrite !app_length, firstn_length, skipn_length. lia.
Qed.
Lemma zupd_length l i v : 0 <= i < zlen l -> zlen (zupd l i v) = zlen l.
Proof. intros; unfold zupd; apply zsplice_length; unfold zlen in *; cbn [length]; lia. Qed.
Lemma zsplice_nil l off : zsplice l off [] = l.
Proof. unfold zsplice; cbn [length app]. rewrite Nat.add_0_r. apply firstn_skipn. Qed.
Lemma znth_zsplice_in l off d i :
  0 <= off -> off + zlen d <= zlen l -> off <= i < off + zlen d -> znth (zsplice l off d) i = znth d (i - off).
Proof.
  unfold zsplice, znth, zlen; intros Ho Hl Hi.
  rewrite app_nth2; rewrite firstn_length; [|lia].
  rewrite app_nth1 by lia. f_equal. lia.
Qed.
Lemma znth_zsplice_out l off d i :
  0 <= off -> off + zlen d <= zlen l -> 0 <= i -> (i < off \/ off + zlen d <= i) -> znth (zsplice l off d) i = znth l i.
Proof.
  unfold zsplice, znth, zlen; intros Ho Hl Hi0 Hi.
  destruct Hi as [Hi|Hi].
  - rewrite app_nth1 by (rewrite firstn_length; lia). apply nth_firstn_lt. lia.
  - rewrite app_nth2; rewrite firstn_length; [|lia].
    rewrite app_nth2 by lia. rewrite nth_skipn_add. f_equal. lia.
Qed.
Lemma znth_zsub l off n i : 0 <= off -> 0 <= i < n -> znth (zsub l off n) i = znth l (off + i).
Proof.
  unfold zsub, znth; intros. rewrite nth_firstn_lt by lia. rewrite nth_skipn_add. f_equal. lia.
Qed.

(* A slice value, also used for pointers to arrays (s_len = s_cap = array length, s_nil = nil
   pointer).  [s_off] is the index of element 0 in the location's list. *)
Record slice (loc : Type) : Type := mkslice {
  s_nil : bool; s_loc : loc; s_off : Z; s_len : Z; s_cap : Z }.
Arguments mkslice {loc}.
Arguments s_nil {loc}.
Arguments s_loc {loc}.
Arguments s_off {loc}.
Arguments s_len {loc}.
Arguments s_cap {loc}.

Section Slices.
  Context {loc : Type}.
  Notation slice := (slice loc).

  (* the nil slice / nil pointer ([d]: any location, never dereferenced) *)
  Definition sl_nilv (d : loc) : slice := mkslice true d 0 0 0.
  (* &array, array[:] for an array of n elements stored at location l *)
  Definition sl_array (l : loc) (n : Z) : slice := mkslice false l 0 n n.

  (* x[a:b:c]; the translator writes x[a:] as a, len x, cap x and x[a:b] as a, b, cap x.
     Go panics unless 0 <= a <= b <= c <= cap x.  A nil slice stays nil. *)
  Definition sl_slice (x : slice) (a b c : Z) : slice :=
    mkslice (s_nil x) (s_loc x) (s_off x + a) (b - a) (c - a).
  Definition sl_slice_ok (x : slice) (a b c : Z) : bool :=
    (0 <=? a) && (a <=? b) && (b <=? c) && (c <=? s_cap x).
  (* x[i] *)
  Definition sl_idx_ok (x : slice) (i : Z) : bool := (0 <=? i) && (i <? s_len x).
  (* index into an array of n elements *)
  Definition arr_idx_ok (n i : Z) : bool := (0 <=? i) && (i <? n).
  (* copy(d, x) copies min (len d) (len x) elements *)
  Definition sl_copy_n (d x : slice) : Z := Z.min (s_len d) (s_len x).
  (* binary.LittleEndian.Uint16/Uint32 start with  _ = b[1] / _ = b[3] *)
  Definition sl_le16_ok (x : slice) : bool := 2 <=? s_len x.
  Definition sl_le32_ok (x : slice) : bool := 4 <=? s_len x.

  (* a slice is well formed w.r.t. the list stored at its location *)
  Definition sl_wf (x : slice) (mem : list Z) : Prop :=
    0 <= s_off x /\ 0 <= s_len x <= s_cap x /\ s_off x + s_cap x <= zlen mem.

  Section Mem.
    Context {state : Type}.
    Variable ld : loc -> state -> list Z.
    Variable stl : loc -> list Z -> state -> state.

    Definition sl_get (x : slice) (i : Z) (s : state) : Z := znth (ld (s_loc x) s) (s_off x + i).
    Definition sl_set (x : slice) (i v : Z) (s : state) : state :=
      stl (s_loc x) (zupd (ld (s_loc x) s) (s_off x + i) v) s.
    (* the elements x[0:len x] *)
    Definition sl_data (x : slice) (s : state) : list Z := zsub (ld (s_loc x) s) (s_off x) (s_len x).
    (* memmove: the source is read before the destination is written *)
    Definition sl_copy (d x : slice) (s : state) : state :=
      stl (s_loc d)
          (zsplice (ld (s_loc d) s) (s_off d) (zsub (ld (s_loc x) s) (s_off x) (sl_copy_n d x))) s.
    Definition sl_le16 (x : slice) (s : state) : Z :=
      sl_get x 0 s + 256 * sl_get x 1 s.
    Definition sl_le32 (x : slice) (s : state) : Z :=
      sl_get x 0 s + 256 * sl_get x 1 s + 65536 * sl_get x 2 s + 16777216 * sl_get x 3 s.
  End Mem.
End Slices.

(* ------------------------------------------------------------------------------------------ *)
(* 3. Control                                                                                 *)
(* ------------------------------------------------------------------------------------------ *)

Inductive outcome (state : Type) : Type :=
| Fall (s : state)   (* normal completion *)
| Brk (s : state)    (* break *)
| Cont (s : state)   (* continue *)
| Ret (s : state)    (* return (results are in the state) *)
| Pan (s : state)    (* run-time panic; s = state before the panicking statement *)
| Hang.              (* out of fuel *)
Arguments Fall {state}.
Arguments Brk {state}.
Arguments Cont {state}.
Arguments Ret {state}.
Arguments Pan {state}.
Arguments Hang {state}.

Section Control.
  Context {state : Type}.
  Notation outcome := (outcome state).
  Definition stmt : Type := state -> outcome.

  Definition skip : stmt := fun s => Fall s.
  Definition brk : stmt := fun s => Brk s.
  Definition cont : stmt := fun s => Cont s.
  Definition ret : stmt := fun s => Ret s.
  (* assignment-like statements *)
  Definition upd (f : state -> state) : stmt := fun s => Fall (f s).
  (* return e: store the results, then return *)
  Definition ret_with (f : state -> state) : stmt := fun s => Ret (f s).

  Definition seq (a b : stmt) : stmt :=
    fun s => match a s with Fall s' => b s' | o => o end.
  (* run-time check: panic unless g holds *)
  Definition guard (g : state -> bool) (k : stmt) : stmt :=
    fun s => if g s then k s else Pan s.
  Definition ite (c : state -> bool) (a b : stmt) : stmt :=
    fun s => if c s then a s else b s.

  (* for ; cond; post { body }.  break leaves the loop, continue runs post. *)
  Fixpoint loop (fuel : nat) (cond : state -> bool) (body post : stmt) (s : state) : outcome :=
    match fuel with
    | O => Hang
    | S f =>
      if cond s then
        match body s with
        | Fall s1 | Cont s1 =>
          match post s1 with
          | Fall s2 => loop f cond body post s2
          | o => o
          end
        | Brk s1 => Fall s1
        | o => o
        end
      else Fall s
    end.

  (* switch: an unlabelled break inside a case leaves the switch *)
  Definition catch_brk (k : stmt) : stmt :=
    fun s => match k s with Brk s' => Fall s' | o => o end.
  (* call of a translated function: its return is the caller's normal completion *)
  Definition call (callee : stmt) : stmt :=
    fun s => match callee s with Ret s' | Fall s' => Fall s' | o => o end.
  (* defer func() { if recover() != nil { h } }() in front of k *)
  Definition recover_with (h : state -> state) (k : stmt) : stmt :=
    fun s => match k s with Pan s' => Ret (h s') | o => o end.

  (* ---- laws ---- *)
  Lemma seq_assoc a b c s : seq (seq a b) c s = seq a (seq b c) s.
  Proof. unfold seq. destruct (a s); reflexivity. Qed.
  Lemma seq_skip_l a s : seq skip a s = a s.
  Proof. reflexivity. Qed.
  Lemma seq_skip_r a s : seq a skip s = a s.
  Proof. unfold seq, skip. destruct (a s); reflexivity. Qed.
  Lemma seq_upd f k s : seq (upd f) k s = k (f s).
  Proof. reflexivity. Qed.
  Lemma seq_Fall a b s s' : a s = Fall s' -> seq a b s = b s'.
  Proof. unfold seq; intros ->; reflexivity. Qed.
  Lemma guard_true k s : guard (fun _ => true) k s = k s.
  Proof. reflexivity. Qed.
  Lemma guard_ok g k s : g s = true -> guard g k s = k s.
  Proof. unfold guard; intros ->; reflexivity. Qed.
  Lemma guard_fail g k s : g s = false -> guard g k s = Pan s.
  Proof. unfold guard; intros ->; reflexivity. Qed.
  Lemma ite_true c a b s : c s = true -> ite c a b s = a s.
  Proof. unfold ite; intros ->; reflexivity. Qed.
  Lemma ite_false c a b s : c s = false -> ite c a b s = b s.
  Proof. unfold ite; intros ->; reflexivity. Qed.

  (* stepping through a sequence whose head is a conditional / a check *)
  Lemma seq_ite c a b k s : seq (ite c a b) k s = if c s then seq a k s else seq b k s.
  Proof. unfold seq, ite. destruct (c s); reflexivity. Qed.
  Lemma seq_guard g a k s : seq (guard g a) k s = if g s then seq a k s else Pan s.
  Proof. unfold seq, guard. destruct (g s); reflexivity. Qed.
  Lemma seq_ret_with f k s : seq (ret_with f) k s = Ret (f s).
  Proof. reflexivity. Qed.
  Lemma seq_loop_exit f cond body post k s :
    cond s = false -> seq (loop (S f) cond body post) k s = k s.
  Proof. unfold seq; cbn [loop]; intros ->; reflexivity. Qed.

  Lemma loop_unfold f cond body post s :
    loop (S f) cond body post s =
    if cond s then
      match body s with
      | Fall s1 | Cont s1 => match post s1 with Fall s2 => loop f cond body post s2 | o => o end
      | Brk s1 => Fall s1
      | o => o
      end
    else Fall s.
  Proof. reflexivity. Qed.
  Lemma loop_exit f cond body post s : cond s = false -> loop (S f) cond body post s = Fall s.
  Proof. cbn [loop]; intros ->; reflexivity. Qed.

  (* Invariant rule.  [Q] is the post-condition on the loop's outcome (take [Q Hang := False] to
     obtain termination); [mu] is the variant, which must fit in the fuel.  One iteration from a
     state satisfying [Inv] and [cond] either re-establishes [Inv] with a smaller variant, or
     leaves the loop (break / return / panic) in an outcome satisfying [Q]; it never hangs. *)
  Lemma loop_inv (Inv : state -> Prop) (Q : outcome -> Prop) (mu : state -> nat) cond body post :
    (forall s, Inv s -> cond s = false -> Q (Fall s)) ->
    (forall s, Inv s -> cond s = true ->
       match body s with
       | Fall s1 | Cont s1 =>
         match post s1 with
         | Fall s2 => Inv s2 /\ (mu s2 < mu s)%nat
         | Hang => False
         | o => Q o
         end
       | Brk s1 => Q (Fall s1)
       | Hang => False
       | o => Q o
       end) ->
    forall fuel s, Inv s -> (mu s < fuel)%nat -> Q (loop fuel cond body post s).
  Proof.
    intros Hexit Hstep fuel; induction fuel as [|f IH]; intros s Hinv Hmu; [lia|].
    cbn [loop]. destruct (cond s) eqn:Ec; [|apply Hexit; assumption].
    specialize (Hstep s Hinv Ec).
    destruct (body s) as [s1|s1|s1|s1|s1|]; try assumption; try contradiction.
    - destruct (post s1) as [s2|s2|s2|s2|s2|]; try assumption; try contradiction.
      destruct Hstep as [Hi Hm]. apply IH; [assumption|lia].
    - destruct (post s1) as [s2|s2|s2|s2|s2|]; try assumption; try contradiction.
      destruct Hstep as [Hi Hm]. apply IH; [assumption|lia].
  Qed.

  (* The same rule in the shape "does not hang, and ends in Inv /\ ~cond or in Q". *)
  Lemma loop_inv_total (Inv : state -> Prop) (Q : outcome -> Prop) (mu : state -> nat) cond body post :
    (forall s, Inv s -> cond s = true ->
       match body s with
       | Fall s1 | Cont s1 =>
         match post s1 with
         | Fall s2 => Inv s2 /\ (mu s2 < mu s)%nat
         | Hang => False
         | o => Q o
         end
       | Brk s1 => Q (Fall s1)
       | Hang => False
       | o => Q o
       end) ->
    forall fuel s, Inv s -> (mu s < fuel)%nat ->
      loop fuel cond body post s <> Hang /\
      ((exists s', loop fuel cond body post s = Fall s' /\ Inv s' /\ cond s' = false)
       \/ Q (loop fuel cond body post s)).
  Proof.
    intros Hstep fuel s Hinv Hmu.
    apply (loop_inv Inv
             (fun o => o <> Hang /\ ((exists s', o = Fall s' /\ Inv s' /\ cond s' = false) \/ Q o))
             mu cond body post); try assumption.
    - intros s0 Hi Hc. split; [discriminate|]. left; exists s0; auto.
    - intros s0 Hi Hc. specialize (Hstep s0 Hi Hc).
      destruct (body s0) as [s1|s1|s1|s1|s1|]; try contradiction.
      + destruct (post s1) as [s2|s2|s2|s2|s2|]; try contradiction; try assumption;
          (split; [discriminate|right; assumption]).
      + split; [discriminate|right; assumption].
      + destruct (post s1) as [s2|s2|s2|s2|s2|]; try contradiction; try assumption;
          (split; [discriminate|right; assumption]).
      + split; [discriminate|right; assumption].
      + split; [discriminate|right; assumption].
  Qed.

  (* More fuel does not change a run that did not hang. *)
  Lemma loop_fuel_mono cond body post :
    forall f s, loop f cond body post s <> Hang ->
    forall f', (f <= f')%nat -> loop f' cond body post s = loop f cond body post s.
  Proof.
    induction f as [|f IH]; intros s Hn f' Hle; [cbn in Hn; congruence|].
    destruct f' as [|f']; [lia|].
    cbn [loop] in *. destruct (cond s); [|reflexivity].
    destruct (body s) as [s1|s1|s1|s1|s1|]; try reflexivity.
    - destruct (post s1) as [s2|s2|s2|s2|s2|]; try reflexivity. apply IH; [assumption|lia].
    - destruct (post s1) as [s2|s2|s2|s2|s2|]; try reflexivity. apply IH; [assumption|lia].
  Qed.
End Control.

Declare Scope got_scope.
Delimit Scope got_scope with got.
Notation "a ;; b" := (seq a b) (at level 90, right associativity) : got_scope.

(* ------------------------------------------------------------------------------------------ *)
(* 4. Symbolic execution                                                                      *)
(* ------------------------------------------------------------------------------------------ *)
(* Step through translated code by REWRITING with the laws above, not by conversion: a goal
   [(a ;; b ;; c ;; ...) s = ...] changed by cbn/simpl into [(c ;; ...) s' = ...] makes the kernel
   compare two right-nested [seq] chains at Qed, which is exponential in their length.
   [got_step] performs one step (assignment, return, skip) by rewriting; the generated files
   provide <prefix>_steps := repeat (got_step; <prefix>_state_simpl).  Conditionals, guards,
   loops and calls are stepped explicitly: seq_ite, seq_guard, seq_loop_exit, loop_inv,
   seq_call_Ret ... *)
Section Stepping.
  Context {state : Type}.
  Implicit Types (s : state) (k a : @stmt state).
  Lemma upd_eq f s : upd f s = Fall (f s).
  Proof. reflexivity. Qed.
  Lemma ret_with_eq f s : ret_with f s = Ret (f s).
  Proof. reflexivity. Qed.
  Lemma seq_ret k s : seq ret k s = Ret s.
  Proof. reflexivity. Qed.
  Lemma seq_brk k s : seq brk k s = Brk s.
  Proof. reflexivity. Qed.
  Lemma seq_cont k s : seq cont k s = Cont s.
  Proof. reflexivity. Qed.
  Lemma seq_call_Ret c k s s' : c s = Ret s' -> seq (call c) k s = k s'.
  Proof. unfold seq, call; intros ->; reflexivity. Qed.
  Lemma seq_call_Fall c k s s' : c s = Fall s' -> seq (call c) k s = k s'.
  Proof. unfold seq, call; intros ->; reflexivity. Qed.
  Lemma call_Ret c s s' : c s = Ret s' -> call c s = Fall s'.
  Proof. unfold call; intros ->; reflexivity. Qed.
  Lemma call_Fall c s s' : c s = Fall s' -> call c s = Fall s'.
  Proof. unfold call; intros ->; reflexivity. Qed.
  Lemma seq_Pan a k s s' : a s = Pan s' -> seq a k s = Pan s'.
  Proof. unfold seq; intros ->; reflexivity. Qed.
  Lemma seq_Ret a k s s' : a s = Ret s' -> seq a k s = Ret s'.
  Proof. unfold seq; intros ->; reflexivity. Qed.
  Lemma recover_with_Ret h k s s' : k s = Ret s' -> recover_with h k s = Ret s'.
  Proof. unfold recover_with; intros ->; reflexivity. Qed.
  Lemma recover_with_Pan h k s s' : k s = Pan s' -> recover_with h k s = Ret (h s').
  Proof. unfold recover_with; intros ->; reflexivity. Qed.
  Lemma catch_brk_Brk k s s' : k s = Brk s' -> catch_brk k s = Fall s'.
  Proof. unfold catch_brk; intros ->; reflexivity. Qed.
  Lemma catch_brk_Fall k s s' : k s = Fall s' -> catch_brk k s = Fall s'.
  Proof. unfold catch_brk; intros ->; reflexivity. Qed.
End Stepping.

Ltac got_step :=
  first [ rewrite seq_upd | rewrite seq_ret_with | rewrite seq_skip_l | rewrite seq_ret
        | rewrite seq_brk | rewrite seq_cont | rewrite upd_eq | rewrite ret_with_eq ].

(* ------------------------------------------------------------------------------------------ *)
(* 5. Additions for the fast block compressor (GenCompressBody.v)                             *)
(* ------------------------------------------------------------------------------------------ *)
(* Appended; nothing above this line changed.  See notes/translator3_report.md. *)

(* [N]T{}: the zero value of an array of n elements (n written as a Z literal by the translator) *)
Definition zeros (n : Z) : list Z := repeat 0 (Z.to_nat n).
Lemma zlen_zeros n : 0 <= n -> zlen (zeros n) = n.
Proof. intros; unfold zlen, zeros; rewrite repeat_length; lia. Qed.
Lemma znth_zeros n i : znth (zeros n) i = 0.
Proof.
  unfold znth, zeros. generalize (Z.to_nat i) as k. induction (Z.to_nat n) as [|m IH]; intros [|k]; cbn; auto.
Qed.

(* math/bits.TrailingZeros64: the number of trailing zero bits of x; 64 for x = 0.
   (x is a uint64 value: 0 <= x < 2^64, so the positive case is at most 63.) *)
Fixpoint pos_ctz (p : positive) : Z :=
  match p with xO q => Z.succ (pos_ctz q) | _ => 0 end.
Definition ctz64 (x : Z) : Z := match x with Zpos p => pos_ctz p | _ => 64 end.

Lemma pos_ctz_nonneg p : 0 <= pos_ctz p.
Proof. induction p; cbn [pos_ctz]; lia. Qed.
(* the defining property: 2^(ctz) divides x and the bit at that position is set *)
Lemma pos_ctz_spec p : exists q, Zpos p = (2 * q + 1) * 2 ^ pos_ctz p /\ 0 <= q.
Proof.
  induction p as [p _|p [q [IH Hq]]|].
  - exists (Zpos p). cbn [pos_ctz]. rewrite Z.pow_0_r. split; lia.
  - exists q. cbn [pos_ctz]. rewrite Z.pow_succ_r by apply pos_ctz_nonneg.
    split; [|assumption]. rewrite Pos2Z.inj_xO, IH. ring.
  - exists 0. cbn [pos_ctz]. split; [reflexivity|lia].
Qed.
Lemma ctz64_spec x : 0 < x -> exists q, x = (2 * q + 1) * 2 ^ ctz64 x /\ 0 <= q.
Proof. destruct x as [|p|p]; try lia. intros _. apply pos_ctz_spec. Qed.

(* binary.LittleEndian.Uint64 starts with  _ = b[7] *)
Definition sl_le64_ok {loc : Type} (x : slice loc) : bool := 8 <=? s_len x.
Section Mem64.
  Context {loc state : Type}.
  Variable ld : loc -> state -> list Z.
  Definition sl_le64 (x : slice loc) (s : state) : Z :=
    sl_get ld x 0 s + 256 * sl_get ld x 1 s + 65536 * sl_get ld x 2 s + 16777216 * sl_get ld x 3 s
    + 4294967296 * sl_get ld x 4 s + 1099511627776 * sl_get ld x 5 s
    + 281474976710656 * sl_get ld x 6 s + 72057594037927936 * sl_get ld x 7 s.
End Mem64.

Section Control2.
  Context {state : Type}.
  Implicit Types (s : state) (k : @stmt state).

  (* Forward  goto L  where L labels a statement at the top level of the function body.
     The translator emits the statements from L to the end of the function as a definition of
     their own, k; reaching L by falling through is  ... ;; k  and  goto L  is  jump k : run k and
     then leave the function (k is the complete remaining continuation of the body, so whatever
     encloses the goto — loops, ifs, switches — is abandoned, which is what Ret does). *)
  Definition jump k : @stmt state :=
    fun s => match k s with Fall s' => Ret s' | o => o end.

  (* Tuple assignment  a[i], b[j] = x, y : operands and right-hand sides are evaluated first (in s),
     then the stores happen left to right.  When a later store can panic for a reason of its own,
     the panic happens after the earlier stores took effect: [part s] is the state then. *)
  Definition guard_part (g : state -> bool) (part : state -> state) k : @stmt state :=
    fun s => if g s then k s else Pan (part s).

  Lemma jump_Fall k s s' : k s = Fall s' -> jump k s = Ret s'.
  Proof. unfold jump; intros ->; reflexivity. Qed.
  Lemma jump_Ret k s s' : k s = Ret s' -> jump k s = Ret s'.
  Proof. unfold jump; intros ->; reflexivity. Qed.
  Lemma jump_Pan k s s' : k s = Pan s' -> jump k s = Pan s'.
  Proof. unfold jump; intros ->; reflexivity. Qed.
  (* nothing after a goto is executed *)
  Lemma seq_jump k k' s : seq (jump k) k' s = jump k s.
  Proof. unfold seq, jump. destruct (k s); reflexivity. Qed.
  Lemma guard_part_ok g part k s : g s = true -> guard_part g part k s = k s.
  Proof. unfold guard_part; intros ->; reflexivity. Qed.
  Lemma guard_part_fail g part k s : g s = false -> guard_part g part k s = Pan (part s).
  Proof. unfold guard_part; intros ->; reflexivity. Qed.
  Lemma seq_guard_part g part a k s :
    seq (guard_part g part a) k s = if g s then seq a k s else Pan (part s).
  Proof. unfold seq, guard_part. destruct (g s); reflexivity. Qed.
End Control2.
