(* LegacyFrameSpecProofs.v — proofs of LegacyFrameSpecSpec.v (C09 for legacy frames): the frame
   specification FrameSpec.frame_spec, which shares nothing with the Reader model, decodes every
   frame a legacy Writer session emits to the bytes written. *)
From Coq Require Import ZifyBool.
From LZ4V Require Import Base GenBlock GenStream GenLz4 XXH32 BlockFormat BlockExec CompressFast
  FrameSpec FrameImpl Writer Reader FrameTheoremsSpec Lifecycle ReaderSpec2 LegacySpec LegacyProofs
  LegacyTruncSpec LegacyFrameSpecSpec.
From LZ4V Require BlockFormatProofs BlockExecProofs WriterProofs FrameEncodeProofs ReaderProofs.

Ltac Zify.zify_post_hook ::= Z.div_mod_to_equations.
Local Opaque spec_decode_x.

(* ====================================================================== *)
(* 1. one chunk                                                            *)
(* ====================================================================== *)

Lemma stored_compressed_word o c : level_ok (fo_level o) -> good8 c ->
  stored_compressed o c = negb (2147483648 <=? lg_word o c).
Proof.
  intros Hlev Hg. pose proof (good8_pos c Hg) as Hpos. unfold stored_compressed, lg_word.
  destruct (compress_level (fo_level o) c 8388608) as [| | | |b] eqn:E;
    try (destruct (2147483648 <=? 2147483648 + len c) eqn:E2; [reflexivity|lia]).
  destruct Hg as (Hb & _ & _).
  destruct (legacy_compressed_block _ _ _ [] Hlev Hb (proj2 Hpos) E) as (_ & Hfit & _).
  destruct (2147483648 <=? len b) eqn:E2; [lia|reflexivity].
Qed.

(* ====================================================================== *)
(* 2. spec_legacy over the blocks of a session                             *)
(* ====================================================================== *)

Lemma spec_legacy_S f strict a l content : spec_legacy (S f) strict (a :: l) content =
  match u32le (a :: l) with
  | None => None
  | Some (w, r0) =>
    if w =? MAGIC_LEGACY then spec_legacy f strict r0 content
    else if negb strict && (2147483648 <=? w) then
      match splitn (w mod 2147483648) r0 [] with
      | None => None
      | Some (stored, r1) => if 8388608 <? len stored then None else spec_legacy f strict r1 (content ++ stored)
      end
    else
      match splitn w r0 [] with
      | None => None
      | Some (stored, r1) =>
        match (match stored with [] => Some [] | _ => spec_decode_x stored [] 8388608 end) with
        | None => None
        | Some dec => spec_legacy f strict r1 (content ++ dec)
        end
      end
  end.
Proof. reflexivity. Qed.

Lemma le32_bytes_cons w tl : exists a l, le32_bytes w ++ tl = a :: l.
Proof. unfold le32_bytes. cbn [app]. eexists _, _. reflexivity. Qed.

(* one emitted block through spec_legacy: strict or not when it is compressed, non-strict when raw *)
Lemma spec_legacy_block o c strict f rest content : fo_legacy o = true -> level_ok (fo_level o) -> good8 c ->
  (strict = true -> stored_compressed o c = true) ->
  spec_legacy (S f) strict (lbody o (c :: rest)) content = spec_legacy f strict (lbody o rest) (content ++ c).
Proof.
  intros Hl Hlev Hg Hstrict. rewrite lbody_cons by assumption.
  pose proof (lg_facts o c Hlev Hg) as Hfacts. cbv zeta in Hfacts.
  destruct Hfacts as (Hw & Hnm & Hsz & Hls & _ & Hdec). specialize (Hdec []).
  rewrite (stored_compressed_word o c Hlev Hg) in Hstrict.
  destruct (le32_bytes_cons (lg_word o c) (lg_payload o c ++ lbody o rest)) as (a & l & E). rewrite E.
  rewrite spec_legacy_S. rewrite <- E. clear E a l.
  rewrite FrameEncodeProofs.u32le_le32_bytes by lia.
  destruct (lg_word o c =? MAGIC_LEGACY) eqn:Em; [lia|].
  destruct (2147483648 <=? lg_word o c) eqn:Eraw.
  - (* raw: only the non-strict reading *)
    destruct strict; [specialize (Hstrict eq_refl); discriminate|]. cbn [negb andb].
    rewrite Hsz. rewrite FrameEncodeProofs.splitn_app0 by reflexivity.
    destruct (8388608 <? len (lg_payload o c)) eqn:E8; [lia|]. injection Hdec as ->. reflexivity.
  - rewrite Bool.andb_false_r.
    assert (Hwl : lg_word o c = len (lg_payload o c)) by lia. rewrite Hwl.
    rewrite FrameEncodeProofs.splitn_app0 by reflexivity. rewrite Hdec. reflexivity.
Qed.

Lemma spec_legacy_blocks o strict : fo_legacy o = true -> level_ok (fo_level o) ->
  forall blocks f content, Forall good8 blocks -> (length blocks < f)%nat ->
  (strict = true -> forallb (stored_compressed o) blocks = true) ->
  spec_legacy f strict (lbody o blocks) content = Some (content ++ concat blocks, []).
Proof.
  intros Hl Hlev. induction blocks as [|c bs IH]; intros f content Hg Hf Hstrict.
  - destruct f as [|f]; [cbn [length] in Hf; lia|]. cbn [concat]. rewrite app_nil_r. reflexivity.
  - destruct f as [|f]; [cbn [length] in Hf; lia|]. inversion Hg as [|? ? Hgc Hgbs]; subst.
    rewrite spec_legacy_block; try assumption.
    + rewrite IH; [cbn [concat]; rewrite app_assoc; reflexivity|exact Hgbs|cbn [length] in Hf; lia|].
      intros Hs. specialize (Hstrict Hs). cbn [forallb] in Hstrict. apply Bool.andb_true_iff in Hstrict. exact (proj2 Hstrict).
    + intros Hs. specialize (Hstrict Hs). cbn [forallb] in Hstrict. apply Bool.andb_true_iff in Hstrict. exact (proj1 Hstrict).
Qed.

(* the strict reading on a raw block, when fewer than 2^31 bytes follow *)
Lemma spec_legacy_strict_raw o : fo_legacy o = true -> level_ok (fo_level o) ->
  forall blocks f content, Forall good8 blocks -> forallb (stored_compressed o) blocks = false ->
  len (lbody o blocks) < 2147483648 -> spec_legacy f true (lbody o blocks) content = None.
Proof.
  intros Hl Hlev. induction blocks as [|c bs IH]; intros f content Hg Hraw Hlen; [discriminate|].
  destruct f as [|f]; [reflexivity|]. inversion Hg as [|? ? Hgc Hgbs]; subst.
  cbn [forallb] in Hraw. destruct (stored_compressed o c) eqn:Ec.
  - rewrite spec_legacy_block by (try assumption; intros _; exact Ec).
    apply IH; [exact Hgbs|exact Hraw|]. rewrite lbody_cons in Hlen by assumption. rewrite !len_app in Hlen.
    pose proof (len_nonneg (lg_payload o c)). pose proof (len_nonneg (le32_bytes (lg_word o c))). lia.
  - rewrite lbody_cons in * by assumption.
    pose proof (lg_facts o c Hlev Hgc) as Hfacts. cbv zeta in Hfacts. destruct Hfacts as (Hw & Hnm & _).
    rewrite (stored_compressed_word o c Hlev Hgc) in Ec.
    destruct (le32_bytes_cons (lg_word o c) (lg_payload o c ++ lbody o bs)) as (a & l & E). rewrite E.
    rewrite spec_legacy_S. rewrite <- E. clear E a l.
    rewrite FrameEncodeProofs.u32le_le32_bytes by lia.
    destruct (lg_word o c =? MAGIC_LEGACY) eqn:Em; [lia|]. cbn [negb andb].
    rewrite ReaderProofs.splitn_spec.
    rewrite !len_app, FrameEncodeProofs.len_le32_bytes in Hlen.
    destruct (len (lg_payload o c ++ lbody o bs) <? lg_word o c) eqn:E2; [reflexivity|].
    rewrite len_app in E2. pose proof (len_nonneg (lg_payload o c)). pose proof (len_nonneg (lbody o bs)). lia.
Qed.

(* ====================================================================== *)
(* 3. the whole frame                                                      *)
(* ====================================================================== *)

Lemma frame_spec_lframe dom strict o blocks :
  frame_spec dom strict (lframe o blocks) =
  match spec_legacy (S (length (lbody o blocks))) strict (lbody o blocks) [] with
  | Some (content, rest) => Some (content, len (lframe o blocks) - len rest)
  | None => None
  end.
Proof.
  unfold frame_spec. rewrite FrameEncodeProofs.frame_spec_fuel_S. unfold lframe at 1.
  rewrite FrameEncodeProofs.u32le_le32_bytes by (unfold MAGIC_LEGACY; lia).
  change ((SKIP_LO <=? MAGIC_LEGACY) && (MAGIC_LEGACY <=? SKIP_HI)) with false.
  change (MAGIC_LEGACY =? MAGIC_LEGACY) with true. cbv beta iota. reflexivity.
Qed.

Lemma frame_spec_lframe_ok dom strict o blocks : fo_legacy o = true -> level_ok (fo_level o) -> Forall good8 blocks ->
  (strict = true -> forallb (stored_compressed o) blocks = true) ->
  frame_spec dom strict (lframe o blocks) = Some (concat blocks, len (lframe o blocks)).
Proof.
  intros Hl Hlev Hg Hs. rewrite frame_spec_lframe.
  rewrite (spec_legacy_blocks o strict Hl Hlev blocks _ [] Hg); [| |exact Hs].
  - cbn [app]. rewrite len_nil, Z.sub_0_r. reflexivity.
  - pose proof (lbody_blocks_le o Hl Hlev blocks Hg) as H. unfold len in H. lia.
Qed.

(* ====================================================================== *)
(* 4. sessions                                                             *)
(* ====================================================================== *)

Lemma session_ctx os o items : opts_after os = Some o -> fo_legacy o = true -> Forall item_ok items ->
  session_frame_of os items = lframe o (sblocks items) /\ level_ok (fo_level o) /\ Forall good8 (sblocks items) /\
  blocks_of (bsz_of o) items [] = sblocks items.
Proof.
  intros Hopt Hl Hit. split; [exact (session_frame os o items Hopt Hl Hit)|].
  split; [exact (opts_level_ok os o Hopt)|]. split; [exact (sblocks_good items Hit)|].
  rewrite bsz_of_legacy by exact Hl. reflexivity.
Qed.

Theorem legacy_encode_spec : legacy_encode_spec_stmt.
Proof.
  intros os o items dom Hopt Hl Hit f.
  destruct (session_ctx os o items Hopt Hl Hit) as (Hf & Hlev & Hg & _). subst f. rewrite Hf.
  rewrite <- sblocks_data. apply frame_spec_lframe_ok; try assumption. discriminate.
Qed.
Print Assumptions legacy_encode_spec.

Theorem legacy_encode_spec_strict : legacy_encode_spec_strict_stmt.
Proof.
  intros os o items dom Hopt Hl Hit Hall f.
  destruct (session_ctx os o items Hopt Hl Hit) as (Hf & Hlev & Hg & Hb). subst f. rewrite Hf.
  unfold legacy_all_compressed in Hall. rewrite Hb in Hall.
  rewrite <- sblocks_data. apply frame_spec_lframe_ok; try assumption. intros _. exact Hall.
Qed.
Print Assumptions legacy_encode_spec_strict.

Theorem legacy_raw_only_large : legacy_raw_only_large_stmt.
Proof.
  intros os o c Hopt Hb Hraw. pose proof (opts_level_ok os o Hopt) as Hlev.
  pose proof (FrameEncodeProofs.compress_level_contract (fo_level o) Hlev c 8388608 Hb) as Hc.
  unfold stored_compressed in Hraw.
  assert (Hbound : 8388608 < lz4block_CompressBlockBound (len c)).
  { destruct (compress_level (fo_level o) c 8388608); try exact Hc; try contradiction. discriminate. }
  split; [exact Hbound|]. unfold lz4block_CompressBlockBound in Hbound.
  pose proof (len_nonneg c). rewrite Z.quot_div_nonneg in Hbound by lia. lia.
Qed.
Print Assumptions legacy_raw_only_large.

Theorem legacy_encode_spec_strict_small : legacy_encode_spec_strict_small_stmt.
Proof.
  intros os o items dom Hopt Hl Hit Hsmall. apply (legacy_encode_spec_strict os o items dom Hopt Hl Hit).
  destruct (session_ctx os o items Hopt Hl Hit) as (_ & _ & Hg & Hb).
  unfold legacy_all_compressed. rewrite Hb in *. apply forallb_forall. intros c Hc.
  rewrite Forall_forall in Hsmall, Hg. specialize (Hsmall c Hc). destruct (Hg c Hc) as (Hbc & _).
  destruct (stored_compressed o c) eqn:E; [reflexivity|].
  destruct (legacy_raw_only_large os o c Hopt Hbc E) as (_ & Hbig). lia.
Qed.
Print Assumptions legacy_encode_spec_strict_small.

Lemma len_in_concat (c : list Z) blocks : In c blocks -> len c <= len (concat blocks).
Proof.
  induction blocks as [|b bs IH]; intros H; [contradiction|]. cbn [concat]. rewrite len_app.
  destruct H as [->|H]; [pose proof (len_nonneg (concat bs)); lia|]. specialize (IH H). pose proof (len_nonneg b). lia.
Qed.

Theorem legacy_encode_spec_strict_small_data : legacy_encode_spec_strict_small_data_stmt.
Proof.
  intros os o items dom Hopt Hl Hit Hlen. apply (legacy_encode_spec_strict_small os o items dom Hopt Hl Hit).
  destruct (session_ctx os o items Hopt Hl Hit) as (_ & _ & _ & Hb). rewrite Hb.
  apply Forall_forall. intros c Hc. pose proof (len_in_concat c _ Hc) as H. rewrite sblocks_data in H. lia.
Qed.
Print Assumptions legacy_encode_spec_strict_small_data.

Theorem legacy_strict_rejects_raw : legacy_strict_rejects_raw_stmt.
Proof.
  intros os o items dom Hopt Hl Hit Hraw f.
  destruct (session_ctx os o items Hopt Hl Hit) as (Hf & Hlev & Hg & Hb). subst f. rewrite Hf.
  unfold legacy_all_compressed in Hraw. rewrite Hb in Hraw. intros Hlen.
  rewrite frame_spec_lframe. rewrite (spec_legacy_strict_raw o Hl Hlev _ _ [] Hg Hraw); [reflexivity|].
  unfold lframe in Hlen. rewrite len_app in Hlen. pose proof (len_nonneg (le32_bytes MAGIC_LEGACY)). lia.
Qed.
Print Assumptions legacy_strict_rejects_raw.

Theorem legacy_strict_iff : legacy_strict_iff_stmt.
Proof.
  intros os o items dom Hopt Hl Hit f Hlen. split.
  - intros H. destruct (legacy_all_compressed o items) eqn:E; [reflexivity|].
    pose proof (legacy_strict_rejects_raw os o items dom Hopt Hl Hit E Hlen) as Hn. fold f in Hn. congruence.
  - intros H. exact (legacy_encode_spec_strict os o items dom Hopt Hl Hit H).
Qed.
Print Assumptions legacy_strict_iff.

Theorem legacy_frame_shape : legacy_frame_shape_stmt.
Proof.
  intros os o items Hopt Hl Hit f blocks.
  destruct (session_ctx os o items Hopt Hl Hit) as (Hf & Hlev & Hg & Hb). subst f blocks. rewrite Hf, Hb.
  split; [reflexivity|]. split; [reflexivity|]. split; [apply sblocks_data|].
  split; [apply bytes_lframe; assumption|].
  apply Forall_forall. intros c Hc. rewrite Forall_forall in Hg. pose proof (Hg c Hc) as Hgc.
  destruct Hgc as (Hbc & Hne & Hle). split; [exact Hbc|]. split; [exact Hne|]. split; [exact Hle|].
  exists (lg_word o c), (lg_payload o c). split; [apply block_writes_legacy; try assumption; exact (Hg c Hc)|].
  pose proof (lg_facts o c Hlev (Hg c Hc)) as Hfacts. cbv zeta in Hfacts.
  destruct Hfacts as (Hw & Hnm & Hsz & Hls & Hbs & Hdec). specialize (Hdec []).
  repeat (split; [assumption|]).
  destruct (2147483648 <=? lg_word o c).
  - injection Hdec as ->. reflexivity.
  - destruct (lg_payload o c) as [|x s] eqn:Es; [unfold len in Hls; cbn [length] in Hls; lia|].
    split; [|exact Hdec]. rewrite <- BlockExecProofs.spec_decode_x_eq by exact Hbs. exact Hdec.
Qed.
Print Assumptions legacy_frame_shape.

(* ====================================================================== *)
(* 5. witnesses                                                            *)
(* ====================================================================== *)

Theorem legacy_raw_flag_witness : legacy_raw_flag_witness_stmt.
Proof.
  split; [vm_compute; reflexivity|]. split; [vm_compute; reflexivity|]. eexists. vm_compute. reflexivity.
Qed.
Print Assumptions legacy_raw_flag_witness.

Theorem legacy_spec_decodes_ambiguous : legacy_spec_decodes_ambiguous_stmt.
Proof. split; [vm_compute; reflexivity|]. split; vm_compute; reflexivity. Qed.
Print Assumptions legacy_spec_decodes_ambiguous.

Theorem legacy_small_sessions : legacy_small_sessions_stmt.
Proof. repeat split; vm_compute; reflexivity. Qed.
Print Assumptions legacy_small_sessions.
