(* GenCompressBodyMain.v — the main loop of the translated Compressor.CompressBlock against the model:
   iter_exec (one iteration = one unfolding of ploop, CompressFastProofs.ploop_S), CompressBlock_shape (the
   generated function IS prelude ;; loop BODY ;; lastLiterals, by reflexivity), loop_exec (the whole loop, by
   induction on the model's fuel), refines_long (sources longer than 14 bytes) and
   refines_all : refines_stmt  — the translated method equals compress_fast_list for ALL inputs.
   The loop body is written as  search fuel (FOUNDP fuel (emit fuel (KT fuel)))  with the DEFINED search/emit of
   GenCompressBodyLoop.v and the notations FOUNDP (GenCompressBodySearch.v) and KT (below, copied from
   GenCompressBody.v): the lemmas apply on syntactically equal terms, nothing is folded. *)
From Coq Require Import ZArith List Lia Bool FMapPositive.
From LZ4V Require Import Base GoT GenBlock GenCompressBody BlockFormat CompressFast CompressFastTable
  Bound CompressFastProofs BlockTheorems GenCompressBodyProofs GenCompressBodyLoop GenCompressBodySearch.
Import ListNotations.
Open Scope Z_scope.
Open Scope got_scope.

(* the end of the loop body (block.go:250-255): if si >= sn { break }; h = blockHash(...src[si-2:]); c.put(h, si-2) *)
Notation KT fuel := (
    ite (fun s => ((Compressor_CompressBlock_sn s) <=? (Compressor_CompressBlock_si s))) (
      brk) skip ;;
    guard (fun s => (sl_slice_ok (Compressor_CompressBlock_src s) (wi64 ((Compressor_CompressBlock_si s) - 2)) (s_len (Compressor_CompressBlock_src s)) (s_cap (Compressor_CompressBlock_src s)) && sl_le64_ok (sl_slice (Compressor_CompressBlock_src s) (wi64 ((Compressor_CompressBlock_si s) - 2)) (s_len (Compressor_CompressBlock_src s)) (s_cap (Compressor_CompressBlock_src s))))) (
    upd (fun s => (set_Compressor_CompressBlock_h (lz4block_blockHash (le64 (sl_slice (Compressor_CompressBlock_src s) (wi64 ((Compressor_CompressBlock_si s) - 2)) (s_len (Compressor_CompressBlock_src s)) (s_cap (Compressor_CompressBlock_src s))) s)) s))) ;;
    upd (fun s => set_Compressor_put_h (Compressor_CompressBlock_h s) (set_Compressor_put_si (wi64 ((Compressor_CompressBlock_si s) - 2)) s)) ;;
    call (lz4block_Compressor_put fuel)) (only parsing).

Notation BODY fuel := (search fuel (FOUNDP fuel (emit fuel (KT fuel)))) (only parsing).

Section Iter.
Variables (src ssp : list Z) (dl dsp : Z) (get : Z -> Z).
Let n := zlen src.
Hypothesis Hget : forall i, 0 <= i < n -> get i = znth src i.
Hypothesis Hbytes : forall i, 0 <= i < n -> 0 <= get i < 256.
Hypothesis Hsmall : n + dl + dsp < 2 ^ 61.
Hypothesis Hdsp : 0 <= dsp.
Hypothesis Hdl : 0 <= dl.

(* what one iteration leaves behind when a sequence was emitted *)
Definition emitted (M : list Z) (di0 : Z) (sq : BlockFormat.seq) (send : Z) (s s' : state) : Prop :=
  frame src ssp dl dsp s' /\ m_dst s' = img M di0 (enc_seq sq) /\ f_di s' = di0 + seq_size sq /\
  f_anchor s' = send /\ f_si s' = send /\ f_sn s' = f_sn s /\ f_notc s' = f_notc s.

Definition iter_post (fuel : nat) (s : state) (M : list Z) (si a di0 : Z) (tb : ftable) : Prop :=
  match pstep get ftable ft_get ft_put si a tb with
  | SPanic _ => exists s', BODY fuel s = Pan s'
  | SSkip _ si' tb' =>
    exists s', BODY fuel s = Cont s' /\ frame src ssp dl dsp s' /\ keepsS s s' /\ f_si s' = si' /\
               table_rel (mem_Compressor_table s') (mem_Compressor_inUse s') tb'
  | SFound _ p r tb' =>
    forall F, enough n F (p + 4) ->
    let sq := fst (fseq get n F a p r) in
    let send := snd (fseq get n F a p r) in
    if dl <? di0 + seq_size sq then err_exit (BODY fuel s)
    else exists s', emitted M di0 sq send s s' /\
         if sn n <=? send
         then BODY fuel s = Brk s' /\ table_rel (mem_Compressor_table s') (mem_Compressor_inUse s') tb'
         else BODY fuel s = Fall s' /\
              table_rel (mem_Compressor_table s') (mem_Compressor_inUse s')
                        (ft_put tb' (GenBlock.lz4block_blockHash (load64 get (send - 2))) (send - 2))
  end.

Theorem iter_exec fuel s M si a di0 tb :
  frame src ssp dl dsp s -> f_si s = si -> f_anchor s = a -> f_sn s = n - 14 ->
  f_di s = di0 -> m_dst s = M -> zlen M = dl + dsp ->
  table_rel (mem_Compressor_table s) (mem_Compressor_inUse s) tb ->
  0 <= a <= si -> si < n - 14 -> 0 <= di0 ->
  (Z.to_nat n < fuel)%nat -> (Z.to_nat dl < fuel)%nat ->
  iter_post fuel s M si a di0 tb.
Proof.
  intros Fs Ss As SNs Ds Ms HM Hrel Ha Hsi Hdi0 Hfuel Hfuel2.
  change (2 ^ 61) with 2305843009213693952 in *.
  pose proof (zlen_nonneg src) as Hn0. fold n in Hn0.
  pose proof (search_exec src ssp dl dsp get Hget ltac:(fold n; lia) fuel
                (FOUNDP fuel (emit fuel (KT fuel))) s si a tb Fs Ss As Hrel Ha ltac:(fold n; lia)) as SE.
  unfold search_post in SE. unfold iter_post.
  destruct (pstep get ftable ft_get ft_put si a tb) as [|p r tb'|si' tb'] eqn:EP.
  - exact SE.
  - intros F HF. cbv zeta.
    destruct SE as (s1 & E1 & F1 & KS1 & Si1 & Of1 & Rel1).
    rewrite E1. clear E1.
    destruct (pstep_found get ftable ft_get ft_put si a tb p r tb' EP) as (Hp & w & Hacc & _).
    destruct (accept_true get p r w Hacc) as (Hoff & Hr & _).
    destruct KS1 as (q1 & q2 & q3 & q4 & q5).
    assert (A1 : f_anchor s1 = a) by congruence.
    assert (SN1 : f_sn s1 = n - 14) by congruence.
    assert (D1 : f_di s1 = di0) by congruence.
    assert (M1 : m_dst s1 = M) by congruence.
    pose proof (found_exec src ssp dl dsp get Hget Hbytes Hsmall Hdsp Hdl fuel (KT fuel) s1 M p a (p - r) di0 F
                  F1 Si1 A1 Of1 SN1 D1 M1 HM ltac:(lia) ltac:(fold n; lia) ltac:(lia) ltac:(lia) Hdi0
                  Hfuel Hfuel2 HF) as FE.
    cbv zeta in FE. replace (p - (p - r)) with r in FE by lia. fold n in FE.
    destruct (dl <? di0 + seq_size (fst (fseq get n F a p r))); [exact FE|].
    destruct FE as (s2 & E2 & ((G1a & G1b & G1c) & G2 & G3 & G4 & G5 & G6 & G7 & G8 & G9)).
    rewrite E2. clear E2.
    set (send := snd (fseq get n F a p r)) in *.
    assert (SN2 : f_sn s2 = n - 14) by congruence.
    assert (Hsend : p + 4 <= send).
    { unfold send, fseq. cbv zeta. cbn [snd]. change lz4block_minMatch with 4.
      destruct (fwd_spec get n (p - r) F (p + 4)) as (H1 & _). exact H1. }
    destruct (sn n <=? send) eqn:Eb.
    + exists s2. split; [unfold emitted; repeat split; try assumption; congruence|].
      split.
      * rewrite seq_ite; lz4block_state_simpl. rewrite SN2, G5.
        replace (n - 14 <=? send) with true by (symmetry; exact Eb).
        rewrite seq_brk. reflexivity.
      * rewrite G8, G9. exact Rel1.
    + apply Z.leb_gt in Eb. unfold sn in Eb. change lz4block_mfLimit with 14 in Eb. fold n in Eb.
      destruct Rel1 as (Hlt & Hlu & Hent).
      eexists. split.
      2:{ split.
          - rewrite seq_ite; lz4block_state_simpl. rewrite SN2, G5.
            replace (n - 14 <=? send) with false by (symmetry; apply Z.leb_gt; lia).
            stp. rewrite seq_guard; lz4block_state_simpl. rewrite G1a, G5. cbn [s_len s_cap].
            rewrite (wi64_id (send - 2)) by lia.
            match goal with |- context [if ?g then _ else Pan _] => replace g with true end.
            2:{ unfold sl_slice_ok, sl_le64_ok, sl_slice; cbn [s_len s_cap]. fold n.
                pose proof (zlen_nonneg ssp). btrue. }
            stp. rewrite G1a, G5. cbn [s_len s_cap]. rewrite (wi64_id (send - 2)) by lia.
            rewrite (le64_load64 src ssp get Hget s2 (send - 2) G1b) by (fold n; lia).
            match goal with |- call _ ?S = _ => set (S3 := S) end.
            assert (H1 : 0 <= Compressor_put_h S3) by (subst S3; lz4block_state_simpl; apply bh_nonneg).
            assert (H2 : zlen (mem_Compressor_table S3) = 65536) by (subst S3; lz4block_state_simpl; congruence).
            assert (H3 : zlen (mem_Compressor_inUse S3) = 2048) by (subst S3; lz4block_state_simpl; congruence).
            rewrite (call_Fall _ _ _ (put_exec fuel S3 H1 H2 H3)). subst S3. lz4block_state_simpl. reflexivity.
          - lz4block_state_simpl. rewrite G8, G9.
            apply put_refines; [exact (conj Hlt (conj Hlu Hent))|apply bh_nonneg]. }
      unfold emitted, frame. lz4block_state_simpl.
      split; [exact (conj G1a (conj G1b G1c))|]. repeat split; try assumption; congruence.
  - exact SE.
Qed.

End Iter.

(* ------------------------------------------------------------------------------------------ *)
(* The generated function IS  prelude ;; loop (BODY) ;; lastLiterals  — checked by conversion   *)
(* ------------------------------------------------------------------------------------------ *)
Lemma CompressBlock_shape fuel :
  lz4block_Compressor_CompressBlock fuel =
  (
  call (lz4block_Compressor_reset fuel) ;;
  upd (fun s => (set_Compressor_CompressBlock_isNotCompressible ((s_len (Compressor_CompressBlock_dst s)) <? (lz4block_CompressBlockBound (s_len (Compressor_CompressBlock_src s)))) s)) ;;
  upd (fun s => (set_Compressor_CompressBlock_anchor 0 (set_Compressor_CompressBlock_di 0 (set_Compressor_CompressBlock_si 0 s)))) ;;
  upd (fun s => (set_Compressor_CompressBlock_sn (wi64 ((s_len (Compressor_CompressBlock_src s)) - 14)) s)) ;;
  ite (fun s => ((Compressor_CompressBlock_sn s) <=? 0)) (
    jump (lz4block_Compressor_CompressBlock_at_lastLiterals fuel)) skip ;;
  loop fuel (fun s => ((Compressor_CompressBlock_si s) <? (Compressor_CompressBlock_sn s))) (BODY fuel) skip ;;
  lz4block_Compressor_CompressBlock_at_lastLiterals fuel).
Proof. reflexivity. Qed.

(* ------------------------------------------------------------------------------------------ *)
(* The whole loop                                                                             *)
(* ------------------------------------------------------------------------------------------ *)
Lemma ser_seqs_app dl : forall l1 di l2,
  ser_seqs dl di (l1 ++ l2) = match ser_seqs dl di l1 with None => None | Some d => ser_seqs dl d l2 end.
Proof.
  induction l1 as [|x l1 IH]; intros di l2; cbn [app ser_seqs]; [reflexivity|].
  destruct (dl <? di + seq_size x); [reflexivity|apply IH].
Qed.

Lemma ser_seqs_le dl : forall l di d, ser_seqs dl di l = Some d -> di <= dl -> d <= dl.
Proof.
  induction l as [|x l IH]; intros di d H Hle; cbn [ser_seqs] in H; [injection H as <-; exact Hle|].
  destruct (dl <? di + seq_size x) eqn:E; [discriminate H|]. apply Z.ltb_ge in E. eapply IH; eassumption.
Qed.

Lemma ploop_prefix get n : forall F si a tb acc ss a',
  ploop get n ftable ft_get ft_put F si a tb acc = POk ss a' -> exists more, ss = rev acc ++ more.
Proof.
  induction F as [|f IH]; intros si a tb acc ss a' H; [discriminate H|].
  rewrite ploop_S in H. destruct (sn n <=? si).
  - inversion H; subst. exists []. rewrite app_nil_r. apply rev_append_nil.
  - destruct (pstep get ftable ft_get ft_put si a tb) as [|p r tb'|si' tb']; [discriminate H| |].
    + cbv zeta in H. destruct (sn n <=? snd (fseq get n f a p r)).
      * inversion H; subst. exists [fst (fseq get n f a p r)]. rewrite rev_append_rev. reflexivity.
      * apply IH in H. destruct H as (more & ->). cbn [rev]. rewrite <- app_assoc.
        exists ([fst (fseq get n f a p r)] ++ more). reflexivity.
    + apply IH in H. exact H.
Qed.

Ltac rw_body E :=
  match goal with |- context [match ?X with Fall _ => _ | Brk _ => _ | Cont _ => _ | Ret _ => _ | Pan _ => _ | Hang => _ end] =>
    match type of E with _ = ?R =>
      let H := fresh "Hb" in assert (H : X = R) by exact E; rewrite H; clear H end end.

Section Loop.
Variables (src ssp : list Z) (dl dsp : Z) (get : Z -> Z) (D0 : list Z) (notc : bool).
Let n := zlen src.
Hypothesis Hget : forall i, 0 <= i < n -> get i = znth src i.
Hypothesis Hbytes : forall i, 0 <= i < n -> 0 <= get i < 256.
Hypothesis Hsmall : n + dl + dsp < 2 ^ 61.
Hypothesis Hdsp : 0 <= dsp.
Hypothesis Hdl : 0 <= dl.
Hypothesis HD0 : zlen D0 = dl + dsp.

Definition inv (s : state) (si a : Z) (tb : ftable) (acc : list BlockFormat.seq) : Prop :=
  frame src ssp dl dsp s /\ f_si s = si /\ f_anchor s = a /\ f_sn s = n - 14 /\ f_notc s = notc /\
  table_rel (mem_Compressor_table s) (mem_Compressor_inUse s) tb /\
  ser_seqs dl 0 (rev acc) = Some (f_di s) /\
  m_dst s = img D0 0 (flat_map enc_seq (rev acc)) /\ 0 <= a <= si /\ a <= n.

Definition loop_post (ss : list BlockFormat.seq) (a' : Z) (o : outcome state) : Prop :=
  match ser_seqs dl 0 ss with
  | None => err_exit o
  | Some dif =>
    exists t, o = Fall t /\ frame src ssp dl dsp t /\ f_anchor t = a' /\ f_di t = dif /\
              m_dst t = img D0 0 (flat_map enc_seq ss) /\ f_notc t = notc /\ f_sn t = n - 14 /\ 0 <= a' <= n
  end.

Theorem loop_exec fuel : (Z.to_nat n < fuel)%nat -> (Z.to_nat dl < fuel)%nat ->
  forall F fl s si a tb acc ss a',
  inv s si a tb acc ->
  ploop get n ftable ft_get ft_put F si a tb acc = POk ss a' ->
  (Z.to_nat (n - si) <= F)%nat -> (F <= fl)%nat ->
  loop_post ss a'
    (loop fl (fun s => ((Compressor_CompressBlock_si s) <? (Compressor_CompressBlock_sn s))) (BODY fuel) skip s).
Proof.
  intros Hfuel Hfuel2. change (2 ^ 61) with 2305843009213693952 in *.
  pose proof (zlen_nonneg src) as Hn0. fold n in Hn0.
  induction F as [|f IH]; intros fl s si a tb acc ss a' Hinv HR HF Hfl; [discriminate HR|].
  destruct Hinv as (Fs & Ss & As & SNs & Ns & Rel & Hser & Hm & Ha & Han).
  destruct fl as [|fl']; [lia|].
  rewrite ploop_S in HR. rewrite loop_unfold. cbv beta. rewrite Ss, SNs.
  unfold sn in HR. change lz4block_mfLimit with 14 in HR. fold n in HR.
  destruct (n - 14 <=? si) eqn:Ec.
  - (* the loop ends here *)
    apply Z.leb_le in Ec. replace (si <? n - 14) with false by (symmetry; apply Z.ltb_ge; lia).
    injection HR as <- <-. rewrite rev_append_nil. unfold loop_post. rewrite Hser.
    exists s. repeat split; try assumption; try apply Fs; lia.
  - apply Z.leb_gt in Ec. replace (si <? n - 14) with true by (symmetry; apply Z.ltb_lt; lia).
    pose proof (ser_seqs_some dl (rev acc) 0 (f_di s) Hser) as Hdi. rewrite Z.add_0_l in Hdi.
    change (len (flat_map enc_seq (rev acc))) with (zlen (flat_map enc_seq (rev acc))) in Hdi.
    set (E := flat_map enc_seq (rev acc)) in *.
    assert (Hdi0 : 0 <= f_di s) by (rewrite Hdi; apply zlen_nonneg).
    assert (Hdle : f_di s <= dl) by (eapply ser_seqs_le; [exact Hser|exact Hdl]).
    assert (HM : zlen (m_dst s) = dl + dsp) by (rewrite Hm; rewrite img_len; [exact HD0|lia|lia]).
    pose proof (iter_exec src ssp dl dsp get Hget Hbytes Hsmall Hdsp Hdl fuel s (m_dst s) si a (f_di s) tb
                  Fs Ss As SNs eq_refl eq_refl HM Rel Ha ltac:(fold n; lia) Hdi0 Hfuel Hfuel2) as IT.
    unfold iter_post in IT. fold n in IT.
    destruct (pstep get ftable ft_get ft_put si a tb) as [|p r tb'|si' tb'] eqn:EP.
    + discriminate HR.
    + (* a candidate was confirmed *)
      cbv zeta in HR.
      destruct (pstep_found get ftable ft_get ft_put si a tb p r tb' EP) as (Hp & _).
      specialize (IT f ltac:(unfold enough; lia)). cbv zeta in IT.
      unfold sn in IT. change lz4block_mfLimit with 14 in IT. fold n in IT.
      set (sq := fst (fseq get n f a p r)) in *. set (send := snd (fseq get n f a p r)) in *.
      assert (Hsend : p + 4 <= send).
      { unfold send, fseq. cbv zeta. cbn [snd]. change lz4block_minMatch with 4.
        destruct (fwd_spec get n (p - r) f (p + 4)) as (H1 & _). exact H1. }
      assert (Hsendn : send <= n).
      { unfold send, fseq. cbv zeta. cbn [snd]. change lz4block_minMatch with 4.
        destruct (fwd_spec get n (p - r) f (p + 4)) as (_ & H2 & _).
        unfold sn in H2. change lz4block_mfLimit with 14 in H2. lia. }
      destruct (dl <? f_di s + seq_size sq) eqn:Efit.
      * (* it does not fit: the error return; the model's sequence list fails in ser_seqs *)
        destruct IT as (s' & Eo & R0 & R1). rw_body Eo.
        assert (Hss : exists more, ss = rev acc ++ sq :: more).
        { destruct (n - 14 <=? send).
          - inversion HR; subst. exists []. rewrite rev_append_rev. reflexivity.
          - apply ploop_prefix in HR. destruct HR as (more & ->). exists more. cbn [rev]. rewrite <- app_assoc. reflexivity. }
        destruct Hss as (more & ->). unfold loop_post. rewrite ser_seqs_app, Hser. cbn [ser_seqs]. rewrite Efit.
        exists s'. repeat split; assumption.
      * destruct IT as (s' & (E1 & E2 & E3 & E4 & E5 & E6 & E7) & IT2).
        assert (Hser' : ser_seqs dl 0 (rev (sq :: acc)) = Some (f_di s')).
        { cbn [rev]. rewrite ser_seqs_app, Hser. cbn [ser_seqs]. rewrite Efit. rewrite E3. reflexivity. }
        assert (Hm' : m_dst s' = img D0 0 (flat_map enc_seq (rev (sq :: acc)))).
        { rewrite E2, Hm. cbn [rev]. rewrite flat_map_app. cbn [flat_map]. rewrite app_nil_r. fold E.
          rewrite Hdi. replace (zlen E) with (0 + zlen E) at 1 by lia. apply img_img; [lia|].
          apply Z.ltb_ge in Efit. unfold seq_size in Efit.
          change (len (enc_seq sq)) with (zlen (enc_seq sq)) in Efit. lia. }
        destruct (n - 14 <=? send) eqn:Eb.
        -- (* break *)
           destruct IT2 as (Eo & Rel'). rw_body Eo.
           assert (Hss : ss = rev (sq :: acc) /\ a' = send)
             by (inversion HR; split; [rewrite rev_append_rev; reflexivity|reflexivity]).
           destruct Hss as [-> ->]. unfold loop_post. rewrite Hser'.
           exists s'. repeat split; try assumption; try apply E1; try congruence; lia.
        -- (* next iteration *)
           destruct IT2 as (Eo & Rel'). rw_body Eo. unfold skip.
           apply Z.leb_gt in Eb.
           eapply (IH fl' s'); cycle 1; [exact HR|lia|lia|].
           unfold inv. split; [exact E1|]. split; [exact E5|]. split; [exact E4|]. split; [congruence|].
           split; [congruence|]. split; [exact Rel'|]. split; [exact Hser'|]. split; [exact Hm'|]. split; lia.
    + (* no candidate: continue *)
      destruct IT as (s' & Eo & F' & (q1 & q2 & q3 & q4 & q5) & Si' & Rel'). rw_body Eo. unfold skip.
      pose proof (pstep_skip get ftable ft_get ft_put si a tb si' tb' ltac:(lia) EP) as Hsk.
      eapply (IH fl' s'); cycle 1; [exact HR|lia|lia|].
      unfold inv. split; [exact F'|]. split; [exact Si'|]. split; [congruence|]. split; [congruence|].
      split; [congruence|]. split; [exact Rel'|]. split; [rewrite q2; exact Hser|]. split; [rewrite q3; exact Hm|]. split; lia.
Qed.

End Loop.

(* ------------------------------------------------------------------------------------------ *)
(* refines_stmt for long sources, and for all sources                                         *)
(* ------------------------------------------------------------------------------------------ *)
Lemma final_mem (D0 E L : list Z) : zlen E + zlen L <= zlen D0 ->
  ztake (zlen E) (img D0 0 E) ++ L ++ zdrop (zlen E + zlen L) (img D0 0 E) = (E ++ L) ++ skipn (length (E ++ L)) D0.
Proof.
  intros Hle. pose proof (zlen_nonneg E). pose proof (zlen_nonneg L).
  transitivity (zsplice (img D0 0 E) (0 + zlen E) L).
  - unfold zsplice, ztake, zdrop. rewrite Z.add_0_l. repeat f_equal. unfold zlen. lia.
  - rewrite img_splice by lia. unfold img, ztake, zdrop. cbn [firstn app]. change (Z.to_nat 0) with 0%nat.
    cbn [firstn app]. rewrite Z.add_0_l. unfold zlen. rewrite Nat2Z.id. rewrite <- app_assoc. reflexivity.
Qed.

Lemma zlen_enc_last l : zlen (enc_last l) = 1 + zlen (extl (zlen l)) + zlen l.
Proof.
  unfold enc_last. change (len l) with (zlen l).
  change (zlen (?x :: ?r)) with (Z.of_nat (S (length r))). rewrite app_length. unfold zlen. lia.
Qed.

Theorem refines_long : refines_long_stmt.
Proof.
  unfold refines_long_stmt.
  intros fuel table inUse src ssp dst dsp Hlong Ht Htr Hu Hur Hbs Hbss Hbd Hbds Hsz Hfuel.
  change (2 ^ 61) with 2305843009213693952 in *.
  pose proof (zlen_nonneg src) as Hn0. pose proof (zlen_nonneg dst) as Hd0. pose proof (zlen_nonneg dsp) as Hp0.
  unfold refines_check, run_model, run_translated, compress_fast_list. cbv zeta.
  set (get := src_get (load_src src 1%positive (PositiveMap.empty Z))).
  change (len src) with (zlen src). set (n := zlen src) in *.
  assert (Hget : forall i, 0 <= i < n -> get i = znth src i)
    by (intros i Hi; unfold get; rewrite src_get_load by exact Hi; reflexivity).
  assert (Hbytes : forall i, 0 <= i < n -> 0 <= get i < 256).
  { intros i Hi. rewrite Hget by exact Hi. unfold znth. apply bytes_nth; [exact Hbs|]. unfold n, zlen in Hi. lia. }
  unfold compress_fast, parse_fast.
  replace (sn n <=? 0) with false by (symmetry; apply Z.leb_gt; unfold sn; change lz4block_mfLimit with 14; lia).
  set (tb0 := ft_reset (fun h => znth table h)).
  destruct (ploop get n ftable ft_get ft_put (Z.to_nat n + 1) 0 0 tb0 []) as [| |ss a'] eqn:EP.
  { exfalso. revert EP. apply ploop_nopanic; [lia|lia|apply ft_reset_inv]. }
  { exfalso. revert EP. apply ploop_nohang; [lia|lia|unfold sn; change lz4block_mfLimit with 14; lia]. }
  (* ---- the translated side: abstract the initial state ---- *)
  set (dl := zlen dst) in *. set (dp := zlen dsp) in *. set (D0 := dst ++ dsp).
  assert (HD0 : zlen D0 = dl + dp) by (unfold D0; apply zlen_app).
  match goal with |- agrees _ (_ ?S) _ _ = true => set (s0 := S) end.
  assert (F0 : frame src ssp dl dp s0 /\ m_dst s0 = D0 /\ mem_Compressor_table s0 = table) by (repeat split; reflexivity).
  clearbody s0. destruct F0 as ((A1 & A2 & A3) & A4 & A5).
  rewrite CompressBlock_shape.
  rewrite (seq_call_Fall _ _ _ _ (reset_exec _ _)).
  stp. rewrite A1, A3. cbn [s_len]. fold n. fold dl.
  rewrite seq_ite; lz4block_state_simpl. rewrite (wi64_id (n - 14)) by lia.
  replace (n - 14 <=? 0) with false by (symmetry; apply Z.leb_gt; lia).
  rewrite seq_skip_l.
  set (notc := dl <? GenCompressBody.lz4block_CompressBlockBound n).
  match goal with |- agrees _ (GoT.seq _ _ ?S) _ _ = true => set (s1 := S) end.
  assert (I1 : inv src ssp dl dp D0 notc s1 0 0 tb0 []).
  { subst s1. unfold inv, frame. lz4block_state_simpl. rewrite A1, A2, A3, A4, A5.
    split; [repeat split; reflexivity|]. repeat (split; [reflexivity|]).
    split; [apply reset_refines; exact Ht|]. split; [reflexivity|]. split; [symmetry; apply img_nil|]. lia. }
  clearbody s1.
  pose proof (loop_exec src ssp dl dp get D0 notc Hget Hbytes ltac:(fold n; lia) Hp0 Hd0 HD0 fuel
                ltac:(fold n; lia) ltac:(lia) (Z.to_nat n + 1)%nat fuel s1 0 0 tb0 [] ss a' I1 EP
                ltac:(fold n; lia) ltac:(lia)) as LE.
  unfold loop_post in LE.
  destruct (ser_seqs dl 0 ss) as [dif|] eqn:ES.
  - (* every sequence fits: the epilogue decides *)
    destruct LE as (t & EL & (T1 & T2 & T3) & At & Dt & Mt & Nt & SNt & Ha').
    match goal with |- agrees _ (GoT.seq ?L _ _) _ _ = true =>
      assert (EL' : L s1 = Fall t) by exact EL end.
    rewrite (seq_Fall _ _ _ _ EL'). clear EL EL'.
    set (E := flat_map enc_seq ss) in *.
    pose proof (ser_seqs_some dl ss 0 dif ES) as Hdif. rewrite Z.add_0_l in Hdif.
    change (len (flat_map enc_seq ss)) with (zlen E) in Hdif.
    assert (Hdifle : dif <= dl) by (eapply ser_seqs_le; [exact ES|exact Hd0]).
    pose proof (zlen_nonneg E) as HE0.
    assert (HMt : zlen (m_dst t) = dl + dp) by (rewrite Mt; rewrite img_len; [exact HD0|lia|lia]).
    pose proof (tail_exec src ssp dl dp a' notc ltac:(fold n; lia) Hp0 ltac:(fold n; change (2 ^ 61) with 2305843009213693952; lia) fuel t (m_dst t) dif
                  (conj T1 (conj T2 T3)) eq_refl HMt At Dt Nt ltac:(lia) ltac:(lia)) as TE.
    rewrite (finish_fast_tail n dl ss a' _ dif ES).
    unfold ret_sat in TE. destruct (lz4block_Compressor_CompressBlock_at_lastLiterals fuel t) as [x|x|x|s'|x|]; try contradiction.
    unfold tail_post in TE. unfold tail_model. cbv zeta in *. fold n in TE.
    rewrite <- (CompressBlockBound_eq n) by (change (2 ^ 61) with 2305843009213693952; lia). fold notc.
    change (len (extl (n - a'))) with (zlen (extl (n - a'))).
    destruct (notc && (a' =? 0)); [destruct TE as [R0 R1]; cbn [agrees]; rewrite R0, R1; reflexivity|].
    destruct (dl <=? dif); [destruct TE as [R0 R1]; cbn [agrees]; rewrite R0, R1; reflexivity|].
    destruct (dl <? dif + (1 + zlen (extl (n - a')))); [destruct TE as [R0 R1]; cbn [agrees]; rewrite R0, R1; reflexivity|].
    destruct (notc && (a' <=? dif + (1 + zlen (extl (n - a'))))); [destruct TE as [R0 R1]; cbn [agrees]; rewrite R0, R1; reflexivity|].
    destruct (dl <? dif + (1 + zlen (extl (n - a'))) + (n - a')) eqn:Elast; [destruct TE as [R0 R1]; cbn [agrees]; rewrite R0, R1; reflexivity|].
    apply Z.ltb_ge in Elast.
    destruct TE as (R0 & R1 & Rm). cbn [agrees]. rewrite R0, R1, Rm, Mt.
    unfold encode. cbn [fst snd]. fold E.
    rewrite (sub_zsub src get a' (n - a') Hget) by (fold n; lia).
    pose proof (zsub_src src [] a' ltac:(fold n; lia)) as Hz. rewrite app_nil_r in Hz. fold n in Hz. rewrite Hz.
    set (L := enc_last (zdrop a' src)).
    assert (HzL : zlen L = 1 + zlen (extl (n - a')) + (n - a')).
    { unfold L. rewrite zlen_enc_last. rewrite zlen_zdrop by (fold n; lia). fold n. reflexivity. }
    rewrite Hdif.
    replace (zlen E + (1 + zlen (extl (n - a'))) + (n - a')) with (zlen E + zlen L) by lia.
    rewrite final_mem by lia.
    rewrite list_eqb_refl. rewrite zlen_app.
    replace (zlen E + zlen L =? zlen E + zlen L) with true by (symmetry; apply Z.eqb_refl). reflexivity.
  - (* a sequence does not fit: the error return *)
    destruct LE as (s' & EL & R0 & R1).
    match goal with |- agrees _ (GoT.seq ?L _ _) _ _ = true =>
      assert (EL' : L s1 = Ret s') by exact EL end.
    rewrite (seq_Ret _ _ _ _ EL').
    unfold finish_fast. rewrite ES. cbn [agrees]. rewrite R0, R1. reflexivity.
Qed.

Theorem refines_all : refines_stmt.
Proof. exact (refines_partial refines_long). Qed.
