(* C02 — Frame round-trip under every option combination, chunking and entry point. *)
From LZ4V Require Import Base GenBlock GenStream GenLz4 XXH32 BlockFormat FrameSpec FrameImpl Writer Reader FrameTheoremsSpec
  WriterProofs FrameEncodeProofs FrameEncodeItems ReaderProofs Lifecycle ReaderSpec2 ReaderProofs2.
(* every option list the Writer accepts (modern frames), every split of the input into Write calls
   with Flush calls anywhere: what the Writer has emitted once Close returns is decoded by the Reader,
   through WriteTo and through Read with ANY positive buffer size, to exactly the input followed by
   a clean end of stream (Reader in the closed state, the whole frame consumed) *)
Theorem C02_roundtrip : roundtrip_stmt.        Proof. exact roundtrip. Qed.
Print Assumptions C02_roundtrip.
(* Writer side alone: every call succeeds and the sink is a frame of the strict specification *)
Theorem C02_writer : forall os o items, opts_after os = Some o -> modern o ->
  Forall (fun i => match i with IWrite d => bytes d | IFlush => True end) items ->
  (fo_csize o <= 0 \/ fo_csize o = len (data_of items)) -> len (data_of items) < 2 ^ 64 ->
  let '(w, res) := run_writer (new_writer s0) (WApply os :: map item_op items ++ [WClose]) s0 in
  res = RE ENil :: map item_res items ++ [RE ENil] /\
  frame_spec Decoded true (sink_bytes (w_sink w)) = Some (data_of items, len (sink_bytes (w_sink w))).
Proof. exact sessions_meet_spec. Qed.
Print Assumptions C02_writer.
(* a single ReadFrom emits the same frame as any split into Writes *)
Theorem C02_readfrom : writer_readfrom_stmt.   Proof. exact writer_readfrom. Qed.
Print Assumptions C02_readfrom.
(* Read with any positive buffer size delivers exactly what WriteTo delivers, on every input *)
Theorem C02_read_eq_writeto : reader_read_eq_writeto_stmt.  Proof. exact reader_read_eq_writeto. Qed.
Print Assumptions C02_read_eq_writeto.

(* ---- legacy frames (LegacyOption) ---- *)
From LZ4V Require Import LegacySpec LegacyProofs.
(* the round trip with `modern o` replaced by `fo_legacy o = true` is FALSE (finding F28): the Reader
   takes a block-size word equal to the number of bytes decoded so far for the Linux-kernel trailer.
   Witness: Write [1;2]; Flush; Write [3]; Close — replayed on the Go code with identical bytes *)
Theorem C02_legacy_roundtrip_refuted : ~ legacy_roundtrip_naive_stmt.  Proof. exact legacy_roundtrip_refuted. Qed.
Print Assumptions C02_legacy_roundtrip_refuted.
(* the legacy round trip under the computable side condition legacy_unambiguous (no emitted size word
   equals the running total mod 2^32), for every accepted option list, every level, raw blocks, any
   length (also beyond 2^32) ... *)
Theorem C02_legacy_roundtrip : legacy_roundtrip_stmt.  Proof. exact legacy_roundtrip. Qed.
Print Assumptions C02_legacy_roundtrip.
(* ... and the side condition is exact: the session is unambiguous iff WriteTo returns all the data *)
Theorem C02_legacy_roundtrip_iff : legacy_roundtrip_iff_stmt.  Proof. exact legacy_roundtrip_iff. Qed.
Print Assumptions C02_legacy_roundtrip_iff.
(* sessions that are unambiguous by construction: at most 8 MiB written without Flush *)
Theorem C02_legacy_small_noflush : legacy_small_noflush_stmt.  Proof. exact legacy_small_noflush. Qed.
Print Assumptions C02_legacy_small_noflush.
(* without Flush, up to 2056 MiB, if the second block does not compress to exactly 8 MiB *)
Theorem C02_legacy_noflush_below_2056MiB : legacy_noflush_below_2056MiB_stmt.  Proof. exact legacy_noflush_below_2056MiB. Qed.
Print Assumptions C02_legacy_noflush_below_2056MiB.
(* the second manifestation of F28, no Flush needed: data with more than 257 full blocks whose 258th
   block is incompressible (stored raw: size word 2^31 + 2^23 = the running total) is cut short *)
Theorem C02_legacy_incompressible_truncates : legacy_incompressible_truncates_stmt.  Proof. exact legacy_incompressible_truncates. Qed.
Print Assumptions C02_legacy_incompressible_truncates.
