(* C02 — Frame round-trip under every option combination, chunking and entry point. *)
From LZ4V Require Import Base GenBlock GenStream GenLz4 XXH32 BlockFormat FrameSpec FrameImpl Writer Reader FrameTheoremsSpec WriterProofs FrameEncodeProofs FrameEncodeItems.
(* Writer side, every option list the Writer accepts, every split into Write calls with Flush calls
   anywhere: every call succeeds, the Writer ends closed, and the emitted bytes are a frame of the
   specification whose content is exactly the input *)
Theorem C02_writer : forall os o items, opts_after os = Some o -> modern o ->
  Forall (fun i => match i with IWrite d => bytes d | IFlush => True end) items ->
  (fo_csize o <= 0 \/ fo_csize o = len (data_of items)) -> len (data_of items) < 2 ^ 64 ->
  let '(w, res) := run_writer (new_writer s0) (WApply os :: map item_op items ++ [WClose]) s0 in
  res = RE ENil :: map item_res items ++ [RE ENil] /\
  frame_spec Decoded true (sink_bytes (w_sink w)) = Some (data_of items, len (sink_bytes (w_sink w))).
Proof. exact sessions_meet_spec. Qed.
Print Assumptions C02_writer.
(* a single ReadFrom emits the same frame as any split into Writes *)
Theorem C02_readfrom : writer_readfrom_stmt.  Proof. exact writer_readfrom. Qed.
Print Assumptions C02_readfrom.
