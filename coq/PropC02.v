(* C02 — Frame round-trip under every option combination, chunking and entry point. *)
From LZ4V Require Import Base GenBlock GenStream GenLz4 XXH32 BlockFormat FrameSpec FrameImpl Writer Reader FrameTheoremsSpec
  WriterProofs FrameEncodeProofs FrameEncodeItems ReaderProofs Lifecycle ReaderSpec2 ReaderProofs2.
(* every option list the Writer accepts (modern frames), every split of the input into Write calls
   with Flush calls anywhere: what the Writer has emitted once Close returns is decoded by the Reader,
   through WriteTo and through Read with ANY positive buffer size, to exactly the input followed by
   a clean end of stream (Reader in the closed state, the whole frame consumed) *)
Theorem C02_roundtrip : roundtrip_stmt.        Proof. exact roundtrip. Qed.
Print Assumptions C02_roundtrip.
(* Writer side alone: every call succeeds and the sink is a frame of the strict specification *)
Theorem C02_writer : forall os o items, opts_after os = Some o -> modern o ->
  Forall (fun i => match i with IWrite d => bytes d | IFlush => True end) items ->
  (fo_csize o <= 0 \/ fo_csize o = len (data_of items)) -> len (data_of items) < 2 ^ 64 ->
  let '(w, res) := run_writer (new_writer s0) (WApply os :: map item_op items ++ [WClose]) s0 in
  res = RE ENil :: map item_res items ++ [RE ENil] /\
  frame_spec Decoded true (sink_bytes (w_sink w)) = Some (data_of items, len (sink_bytes (w_sink w))).
Proof. exact sessions_meet_spec. Qed.
Print Assumptions C02_writer.
(* a single ReadFrom emits the same frame as any split into Writes *)
Theorem C02_readfrom : writer_readfrom_stmt.   Proof. exact writer_readfrom. Qed.
Print Assumptions C02_readfrom.
(* Read with any positive buffer size delivers exactly what WriteTo delivers, on every input *)
Theorem C02_read_eq_writeto : reader_read_eq_writeto_stmt.  Proof. exact reader_read_eq_writeto. Qed.
Print Assumptions C02_read_eq_writeto.
