(* GenDecodeBodyProofs.v — the TRANSLATED portable block decoder (GenDecodeBody.lz4block_decodeBlock,
   generated from internal/lz4block/decode_other.go) refines the hand-written model
   DecodePortable.decode_portable: same result, same bytes in dst[0:len(dst)] (including the junk the
   wide copies leave beyond the returned count), nothing written beyond len(dst), src and dict untouched,
   never a panic that escapes, never out of fuel.

   Structure: GenDecodeBodyDecomp.v names the pieces of the generated body (checked by reflexivity);
   here one lemma per piece (token, literal-length loop, bounds-checked literal copy, shortcut 1/2,
   match-length loop, dictionary part, doubling loop, final copy), stated as a post-condition on the
   piece's outcome, then the loop invariant (Inv) and the function.  Stepping is by rewriting (GoT.v
   section 4), never by cbn on the whole goal. *)
From Coq Require Import ZArith List Lia Bool Arith ZifyBool.
From LZ4V Require Import Base GoT GenDecodeBody BlockFormat BlockExec DecodePortable DecodePortableProofs GenDecodeBodyDecomp.
Import ListNotations.
Open Scope Z_scope.
Open Scope got_scope.


(* ---------------- list lemmas ---------------- *)
Lemma overwrite_firstn k : forall s r : list Z, (length r <= k)%nat -> overwrite (firstn k s) r = overwrite s r.
Proof.
  intros s r H. rewrite !overwrite_eq. rewrite firstn_firstn. replace (Nat.min (length r) k) with (length r) by lia.
  f_equal. rewrite firstn_length. destruct (Nat.le_gt_cases (length s) k) as [Hs|Hs].
  - replace (Nat.min k (length s)) with (length s) by lia. reflexivity.
  - replace (Nat.min k (length s)) with k by lia. rewrite !skipn_all2 by lia. reflexivity.
Qed.

Lemma overwrite_short (d B : list Z) : (length d <= length B)%nat -> overwrite d B = d ++ skipn (length d) B.
Proof. intros H. rewrite overwrite_eq. rewrite firstn_all2 by lia. reflexivity. Qed.

Lemma zsplice_zip (A B C d : list Z) off : len A = off -> (length d <= length B)%nat ->
  zsplice (A ++ B ++ C) off d = A ++ overwrite d B ++ C.
Proof.
  intros HA Hd. unfold zsplice. assert (E : Z.to_nat off = length A) by (unfold len in HA; lia). rewrite E.
  rewrite firstn_app, Nat.sub_diag, firstn_all. cbn [firstn]. rewrite app_nil_r. f_equal.
  rewrite overwrite_short by exact Hd. rewrite <- app_assoc. f_equal.
  rewrite skipn_app. rewrite skipn_all2 by lia. cbn [app].
  replace (length A + length d - length A)%nat with (length d) by lia.
  rewrite skipn_app. f_equal. replace (length d - length B)%nat with O by lia. reflexivity.
Qed.

Lemma zsub_app1 (a b : list Z) off n : 0 <= off -> 0 <= n -> off + n <= len a ->
  zsub (a ++ b) off n = firstn (Z.to_nat n) (skipn (Z.to_nat off) a).
Proof.
  intros H0 Hn H. unfold zsub. rewrite skipn_app, firstn_app. rewrite skipn_length.
  replace (Z.to_nat n - (length a - Z.to_nat off))%nat with O by (unfold len in H; lia).
  cbn [firstn]. apply app_nil_r.
Qed.

Lemma zsub_length' (l : list Z) off n : 0 <= off -> 0 <= n -> off + n <= len l -> length (zsub l off n) = Z.to_nat n.
Proof. intros. unfold zsub. rewrite firstn_length, skipn_length. unfold len in *. lia. Qed.


Lemma overwrite_firstn_min m (s r : list Z) : (length s <= m)%nat ->
  overwrite (firstn (Nat.min (length r) m) s) r = overwrite s r.
Proof.
  intros H. destruct (Nat.le_gt_cases (length r) m) as [Hr|Hr].
  - replace (Nat.min (length r) m) with (length r) by lia. apply overwrite_firstn. lia.
  - replace (Nat.min (length r) m) with m by lia. rewrite firstn_all2 by lia. reflexivity.
Qed.

Lemma window18_eq rout rest o : 0 < o <= len rout -> len rout - o + 18 <= len rout + len rest ->
  firstn 18 (skipn (Z.to_nat (len rout - o)) (rev rout ++ rest)) = window18 rout rest o.
Proof.
  intros Ho Hl. unfold window18. rewrite rrev_rev.
  rewrite skipn_app, rev_length. replace (Z.to_nat (len rout - o) - length rout)%nat with O by (unfold len; lia).
  cbn [skipn]. rewrite skipn_rev. replace (length rout - Z.to_nat (len rout - o))%nat with (Z.to_nat o) by (unfold len in *; lia).
  rewrite firstn_app, rev_length, firstn_length.
  replace (Nat.min (Z.to_nat o) (length rout)) with (Z.to_nat o) by (unfold len in *; lia).
  destruct (Z_le_gt_dec 18 o) as [H18|H18].
  - replace (Z.min o 18) with 18 by lia. replace (18 - Z.to_nat o)%nat with O by lia.
    change (Z.to_nat (18 - 18)) with O. rewrite !firstn_O, !app_nil_r.
    rewrite firstn_rev, firstn_length. replace (Nat.min (Z.to_nat o) (length rout) - 18)%nat with (Z.to_nat (o - 18)) by (unfold len in *; lia).
    rewrite skipn_firstn_comm. f_equal. f_equal. lia.
  - replace (Z.min o 18) with o by lia. rewrite Z.sub_diag. cbn [Z.to_nat skipn].
    rewrite firstn_all2 by (rewrite rev_length, firstn_length; unfold len in *; lia).
    f_equal. f_equal. lia.
Qed.

Lemma read_ext_shift k : forall s acc, read_ext s (acc + k) =
  match read_ext s acc with Some (v, r) => Some (v + k, r) | None => None end.
Proof.
  induction s as [|x s IH]; intros acc; cbn [read_ext]; [reflexivity|].
  destruct (x =? 255).
  - replace (acc + k + 255) with (acc + 255 + k) by lia. apply IH.
  - f_equal. f_equal. lia.
Qed.
Lemma read_ext_len : forall l acc v r, read_ext l acc = Some (v, r) -> len r < len l.
Proof.
  induction l as [|x l IH]; intros acc v0 r0 H; cbn [read_ext] in H; [discriminate|].
  rewrite len_cons. destruct (x =? 255); [apply IH in H; lia|]. inversion H; subst. lia.
Qed.

Lemma cyc_add_mult q : forall (P : list Z) k, cyc (q * length P + k) P P = cyc (q * length P) P P ++ cyc k P P.
Proof.
  induction q as [|q IH]; intros P k; [reflexivity|].
  cbn [Nat.mul]. rewrite <- !Nat.add_assoc.
  pose proof (cyc_app P (q * length P + k) [] P) as H1. rewrite app_nil_r in H1. rewrite H1.
  pose proof (cyc_app P (q * length P) [] P) as H2. rewrite app_nil_r in H2.
  rewrite H2. rewrite !cyc_nil_cur. rewrite IH. rewrite app_assoc. reflexivity.
Qed.

Lemma dbl_step (P E0 : list Z) (n L q : nat) : P <> [] -> n = (q * length P)%nat -> (n <= L)%nat -> length E0 = L ->
  let E1 := overwrite (cyc n P P) E0 in let cnt := Nat.min (L - n) n in
  firstn n E1 ++ overwrite (firstn cnt E1) (skipn n E1) = overwrite (cyc (Nat.min (2 * n) L) P P) E0.
Proof.
  intros HP Hn HnL HL E1 cnt.
  assert (Hc : length (cyc n P P) = n) by (apply cyc_length, HP).
  assert (HE1 : E1 = cyc n P P ++ skipn n E0).
  { unfold E1. rewrite overwrite_short by lia. rewrite Hc. reflexivity. }
  assert (Hf : firstn n E1 = cyc n P P).
  { rewrite HE1. rewrite firstn_app, Hc, Nat.sub_diag. cbn [firstn]. rewrite app_nil_r. apply firstn_all2. lia. }
  assert (Hs : skipn n E1 = skipn n E0).
  { rewrite HE1. rewrite skipn_app, Hc, Nat.sub_diag. cbn [skipn]. rewrite skipn_all2 by lia. reflexivity. }
  assert (Hfc : firstn cnt E1 = cyc cnt P P).
  { replace (firstn cnt E1) with (firstn cnt (firstn n E1)) by (rewrite firstn_firstn; f_equal; unfold cnt; lia).
    rewrite Hf. apply firstn_cyc. unfold cnt; lia. }
  rewrite Hf, Hs, Hfc.
  assert (Hcc : length (cyc cnt P P) = cnt) by (apply cyc_length, HP).
  rewrite overwrite_short by (rewrite skipn_length; unfold cnt in *; lia). rewrite Hcc.
  replace (Nat.min (2 * n) L) with (n + cnt)%nat by (unfold cnt; lia).
  rewrite overwrite_short by (rewrite cyc_length by exact HP; unfold cnt; lia).
  rewrite cyc_length by exact HP. rewrite Hn at 3. rewrite cyc_add_mult. rewrite <- Hn.
  rewrite <- app_assoc. f_equal. f_equal. rewrite <- skipn_add. f_equal. 
Qed.

Lemma fin_step (P E0 : list Z) (N p r q L : nat) : P <> [] -> length E0 = L -> p = (q * length P)%nat ->
  (r <= length P)%nat -> (r <= N)%nat -> (p <= N)%nat -> (N <= L)%nat -> (p + r <= L)%nat ->
  let E1 := overwrite (cyc N P P) E0 in
  firstn p E1 ++ overwrite (firstn r E1) (skipn p E1) = overwrite (cyc (Nat.max N (p + r)) P P) E0.
Proof.
  intros HP HL Hp Hr HrN HpN HNL HprL E1.
  assert (Hc : forall k, length (cyc k P P) = k) by (intros k; apply cyc_length, HP).
  assert (HE1 : E1 = cyc N P P ++ skipn N E0).
  { unfold E1. rewrite overwrite_short by (rewrite Hc; lia). rewrite Hc. reflexivity. }
  assert (HcN : cyc N P P = cyc p P P ++ cyc (N - p) P P).
  { replace N with (p + (N - p))%nat at 1 by lia. rewrite Hp at 1. rewrite cyc_add_mult, <- Hp. reflexivity. }
  assert (Hfr : firstn r E1 = cyc r P P).
  { rewrite HE1, firstn_app, Hc. replace (r - N)%nat with O by lia. cbn [firstn]. rewrite app_nil_r. apply firstn_cyc. exact HrN. }
  assert (Hfp : firstn p E1 = cyc p P P).
  { rewrite HE1, firstn_app, Hc. replace (p - N)%nat with O by lia. cbn [firstn]. rewrite app_nil_r. apply firstn_cyc. exact HpN. }
  assert (Hsp : skipn p E1 = cyc (N - p) P P ++ skipn N E0).
  { rewrite HE1, HcN. rewrite <- app_assoc. rewrite skipn_app, Hc, Nat.sub_diag. cbn [skipn].
    rewrite skipn_all2 by (rewrite Hc; lia). reflexivity. }
  rewrite Hfr, Hfp, Hsp.
  rewrite overwrite_short by (rewrite Hc, app_length, Hc, skipn_length; lia). rewrite Hc.
  destruct (Nat.le_gt_cases (p + r) N) as [Hle|Hgt].
  - replace (Nat.max N (p + r)) with N by lia. fold E1. rewrite HE1, HcN.
    rewrite skipn_app, Hc. replace (r - (N - p))%nat with O by lia. cbn [skipn].
    rewrite <- !app_assoc. f_equal. rewrite app_assoc. f_equal.
    rewrite <- (firstn_skipn r (cyc (N - p) P P)) at 2. f_equal. rewrite firstn_cyc by lia. reflexivity.
  - replace (Nat.max N (p + r)) with (p + r)%nat by lia.
    rewrite overwrite_short by (rewrite Hc; lia). rewrite Hc.
    rewrite Hp at 3. rewrite cyc_add_mult, <- Hp. rewrite <- app_assoc. f_equal. f_equal.
    rewrite skipn_app, Hc. rewrite (skipn_all2 (cyc (N - p) P P)) by (rewrite Hc; lia). cbn [app].
    rewrite <- skipn_add. f_equal. lia.
Qed.

Lemma firstn_skipn_rev (l : list Z) (m o : nat) : (m <= o)%nat -> (o <= length l)%nat ->
  firstn m (skipn (length l - o) (rev l)) = rev (firstn m (skipn (o - m) l)).
Proof.
  intros Hm Ho. rewrite skipn_rev. replace (length l - (length l - o))%nat with o by lia.
  rewrite firstn_rev, firstn_length. replace (Nat.min o (length l) - m)%nat with (o - m)%nat by lia.
  rewrite skipn_firstn_comm. f_equal. f_equal. lia.
Qed.

Lemma overwrite_app_same (P c t : list Z) : overwrite (P ++ c) (P ++ t) = P ++ overwrite c t.
Proof. induction P as [|x P IH]; [reflexivity|]. cbn [app overwrite]. now rewrite IH. Qed.

Lemma overwrite_cyc_app (P t : list Z) (M : nat) : (length P <= M)%nat ->
  overwrite (cyc M P P) (P ++ t) = P ++ overwrite (cyc (M - length P) P P) t.
Proof.
  intros H. replace M with (length P + (M - length P))%nat at 1 by lia.
  pose proof (cyc_app P (M - length P) [] P) as H1. rewrite app_nil_r in H1. rewrite H1, cyc_nil_cur.
  apply overwrite_app_same.
Qed.

Lemma decode_portable_nonempty src dst0 dict : src <> [] ->
  decode_portable src dst0 dict = dec_p dict (len dict) (len dst0) (S (length src)) src [] dst0 0.
Proof. intros H. destruct src; [congruence|reflexivity]. Qed.

Section Refine.
Variables src dst0 dict src_spare dst_spare dict_spare : list Z.
Hypothesis Hbytes : bytes src.
Let dl := len dst0.
Let sl := len src.
Let kl := len dict.
Hypothesis Hsl : sl < 4611686018427387904.
Hypothesis Hdl : dl < 4611686018427387904.
Hypothesis Hkl : kl < 4611686018427387904.
Let RES := decode_portable src dst0 dict.

Definition sdst := mkslice false L_decodeBlock_dst 0 dl dl.
Definition ssrc := mkslice false L_decodeBlock_src 0 sl sl.
Definition sdict := mkslice false L_decodeBlock_dict 0 kl (kl + zlen dict_spare).
Record frame (s : state) : Prop := mkframe {
  fr_dst : decodeBlock_dst s = sdst; fr_src : decodeBlock_src s = ssrc; fr_dict : decodeBlock_dict s = sdict;
  fr_msrc : mem_decodeBlock_src s = src ++ src_spare; fr_mdict : mem_decodeBlock_dict s = dict ++ dict_spare;
  fr_mdst : exists D, mem_decodeBlock_dst s = D ++ dst_spare /\ len D = dl }.

Definition ERR (s : state) := frame s /\ RES = DErr.
Definition ERRR (s : state) := frame s /\ decodeBlock_ret s = -2 /\ RES = DErr.
Definition post (PF PB PC : state -> Prop) (o : outcome state) := match o with
 | Fall s => PF s | Brk s => PB s | Cont s => PC s | Ret s => ERRR s | Pan s => ERR s | Hang => False end.


Local Ltac Zify.zify_post_hook ::= Z.div_mod_to_equations.
Lemma wi64_neg x : 0 <= x < 18446744073709551616 -> (wi64 x <? 0) = (9223372036854775808 <=? x).
Proof. intros H. unfold wi64. lia. Qed.
Lemma two62 : 2^62 = 4611686018427387904. Proof. reflexivity. Qed.

Ltac fr_rw F := rewrite ?(fr_dst _ F), ?(fr_src _ F), ?(fr_dict _ F), ?(fr_msrc _ F), ?(fr_mdict _ F).
Ltac sl_unf := unfold sget, sset, scopy, le16; unfold sl_le16; unfold sl_get, sl_copy, sl_copy_n, sl_slice, sl_slice_ok, sl_idx_ok, sl_le16_ok,
   sdst, ssrc, sdict; cbn [s_nil s_loc s_off s_len s_cap]; lz4block_state_simpl.
Ltac st_in H :=
  cbn [ld stl
       mem_u16_p set_mem_u16_p mem_decodeBlock_dst set_mem_decodeBlock_dst mem_decodeBlock_src set_mem_decodeBlock_src mem_decodeBlock_dict set_mem_decodeBlock_dict
       u16_p set_u16_p u16_ret0 set_u16_ret0 decodeBlock_dst set_decodeBlock_dst decodeBlock_src set_decodeBlock_src
       decodeBlock_dict set_decodeBlock_dict decodeBlock_ret set_decodeBlock_ret decodeBlock_si set_decodeBlock_si decodeBlock_di set_decodeBlock_di
       decodeBlock_b set_decodeBlock_b decodeBlock_lLen set_decodeBlock_lLen decodeBlock_mLen set_decodeBlock_mLen decodeBlock_offset set_decodeBlock_offset
       decodeBlock_i set_decodeBlock_i decodeBlock_end set_decodeBlock_end decodeBlock_x set_decodeBlock_x decodeBlock_mLen_1 set_decodeBlock_mLen_1
       decodeBlock_offset_1 set_decodeBlock_offset_1 decodeBlock_x_1 set_decodeBlock_x_1 decodeBlock_fromDict set_decodeBlock_fromDict decodeBlock_n set_decodeBlock_n
       decodeBlock_expanded set_decodeBlock_expanded decodeBlock_bytesToCopy set_decodeBlock_bytesToCopy decodeBlock_n_1 set_decodeBlock_n_1] in H.
Ltac ite_step := first [rewrite seq_ite | unfold ite at 1]; lz4block_state_simpl.
Ltac stp F := lz4block_state_simpl; fr_rw F; sl_unf; fr_rw F; unfold sdst, ssrc, sdict; cbn [s_nil s_loc s_off s_len s_cap].

Lemma znth_app1 a b i : 0 <= i < len a -> znth (a ++ b) i = znth a i.
Proof. intros H. unfold znth. apply app_nth1. unfold len in H. lia. Qed.

Lemma shiftr4 b : Z.shiftr b 4 = b / 16.
Proof. rewrite Z.shiftr_div_pow2 by lia. reflexivity. Qed.
Lemma land15 b : Z.land b 15 = b mod 16.
Proof. change 15 with (Z.ones 4). rewrite Z.land_ones by lia. reflexivity. Qed.

Lemma tok_spec k s PF PB PC : frame s -> 0 <= decodeBlock_si s < sl ->
  post PF PB PC (k (set_decodeBlock_lLen (znth src (decodeBlock_si s) / 16)
                    (set_decodeBlock_si (decodeBlock_si s + 1) (set_decodeBlock_b (znth src (decodeBlock_si s)) s)))) ->
  post PF PB PC (p_tok k s).
Proof.
  intros F Hsi H. unfold p_tok.
  rewrite seq_guard. stp F.
  replace ((0 <=? decodeBlock_si s) && (decodeBlock_si s <? sl)) with true by lia.
  lz4block_steps. stp F.
  match goal with |- post _ _ _ (k ?b) => match type of H with post _ _ _ (k ?a) => replace b with a; [exact H|] end end.
  rewrite Z.add_0_l, wu64_id by lia. rewrite shiftr4, znth_app1 by (fold sl; lia). reflexivity.
Qed.

Lemma skipn_znth (l : list Z) i : 0 <= i < len l -> skipn (Z.to_nat i) l = znth l i :: skipn (Z.to_nat (i + 1)) l.
Proof.
  intros H. unfold znth. replace (Z.to_nat (i + 1)) with (S (Z.to_nat i)) by lia.
  assert (Hn : (Z.to_nat i < length l)%nat) by (unfold len in H; lia).
  clear H. revert Hn. generalize (Z.to_nat i). intros n. revert l. induction n as [|n IH]; intros l Hn.
  - destruct l; [cbn in Hn; lia|reflexivity].
  - destruct l as [|x l]; [cbn in Hn; lia|]. cbn [skipn nth]. apply IH. cbn in Hn. lia.
Qed.

Definition sk (i : Z) : list Z := skipn (Z.to_nat i) src.

Lemma frame_set_x v s : frame s -> frame (set_decodeBlock_x v s).
Proof. intros [F1 F2 F3 F4 F5 F6]. constructor; assumption. Qed.
Lemma frame_set_lLen v s : frame s -> frame (set_decodeBlock_lLen v s).
Proof. intros [F1 F2 F3 F4 F5 F6]. constructor; assumption. Qed.
Lemma frame_set_si v s : frame s -> frame (set_decodeBlock_si v s).
Proof. intros [F1 F2 F3 F4 F5 F6]. constructor; assumption. Qed.
Lemma frame_set_ret v s : frame s -> frame (set_decodeBlock_ret v s).
Proof. intros [F1 F2 F3 F4 F5 F6]. constructor; assumption. Qed.

Definition post_litloop (s : state) (o : outcome state) : Prop :=
  match o with
  | Fall s' => exists v si' x', read_ext (sk (decodeBlock_si s)) (decodeBlock_lLen s) = Some (v, sk si') /\
       decodeBlock_si s < si' <= sl /\ decodeBlock_lLen s <= v < 9223372036854775808 /\
       s' = set_decodeBlock_si si' (set_decodeBlock_lLen v (set_decodeBlock_x x' s))
  | Ret s' => frame s' /\ decodeBlock_ret s' = -2 /\
       forall v r, read_ext (sk (decodeBlock_si s)) (decodeBlock_lLen s) = Some (v, r) -> 9223372036854775808 <= v
  | Pan s' => frame s' /\ read_ext (sk (decodeBlock_si s)) (decodeBlock_lLen s) = None
  | _ => False
  end.

Lemma litloop_spec fuel s : frame s -> 0 <= decodeBlock_si s <= sl -> 0 <= decodeBlock_lLen s < 9223372036854775808 ->
  (Z.to_nat (sl - decodeBlock_si s) < fuel)%nat ->
  post_litloop s (p_litloop fuel s).
Proof.
  intros F Hsi Hl Hfuel. unfold p_litloop.
  pose (Inv := fun s1 : state => exists si1 acc1 x1,
     s1 = set_decodeBlock_si si1 (set_decodeBlock_lLen acc1 (set_decodeBlock_x x1 s)) /\
     decodeBlock_si s <= si1 <= sl /\ decodeBlock_lLen s <= acc1 < 9223372036854775808 /\
     read_ext (sk (decodeBlock_si s)) (decodeBlock_lLen s) = read_ext (sk si1) acc1).
  apply (loop_inv Inv (post_litloop s) (fun s1 => Z.to_nat (sl - decodeBlock_si s1))).
  - intros s1 _ Hc. discriminate Hc.
  - intros s1 (si1 & acc1 & x1 & -> & Hsi1 & Hacc1 & Hre) _.
    assert (F1 : frame (set_decodeBlock_si si1 (set_decodeBlock_lLen acc1 (set_decodeBlock_x x1 s))))
      by (apply frame_set_si, frame_set_lLen, frame_set_x, F).
    unfold p_litloop_body. rewrite seq_guard. stp F.
    destruct ((0 <=? si1) && (si1 <? sl)) eqn:Eg.
    + lz4block_steps. stp F. rewrite Z.add_0_l, znth_app1 by (fold sl; lia).
      assert (Hx : 0 <= znth src si1 < 256).
      { unfold znth. apply (proj1 (Forall_forall _ _) Hbytes). apply nth_In. unfold sl, len in *. lia. }
      rewrite (wu64_id (acc1 + _)) by lia.
      assert (Hsk : sk si1 = znth src si1 :: sk (si1 + 1)) by (apply skipn_znth; fold sl; lia).
      rewrite seq_ite. lz4block_state_simpl.
      rewrite wi64_neg by lia.
      destruct (9223372036854775808 <=? acc1 + znth src si1) eqn:Ew.
      * rewrite seq_ret_with. cbn [post_litloop]. split; [apply frame_set_ret, frame_set_lLen, frame_set_x, F1|].
        split; [reflexivity|]. intros v r Hv. rewrite Hre, Hsk in Hv. cbn [read_ext] in Hv.
        assert (Hbig : 9223372036854775808 <= acc1 + znth src si1) by lia.
        destruct (znth src si1 =? 255) eqn:E255.
        -- apply read_ext_ok in Hv; [lia|]. apply bytes_skipn, Hbytes.
        -- inversion Hv; subst. lia.
      * rewrite seq_skip_l. lz4block_steps. rewrite wu64_id by lia.
        unfold ite. lz4block_state_simpl.
        destruct (znth src si1 =? 255) eqn:E255; cbn [negb].
        -- unfold skip. lz4block_state_simpl. split.
           ++ exists (si1 + 1), (acc1 + znth src si1), (znth src si1). split; [reflexivity|].
              split; [lia|]. split; [|].
              { lia. }
              rewrite Hre, Hsk. cbn [read_ext]. rewrite E255. replace (acc1 + 255) with (acc1 + znth src si1) by lia. reflexivity.
           ++ lia.
        -- unfold brk. cbn [post_litloop]. exists (acc1 + znth src si1), (si1 + 1), (znth src si1).
           split; [rewrite Hre, Hsk; cbn [read_ext]; rewrite E255; reflexivity|].
           split; [lia|]. split; [|reflexivity].
           lia.
    + cbn [post_litloop]. split; [exact F1|]. rewrite Hre. assert (si1 = sl) by lia. subst si1.
      unfold sk, sl, len. rewrite Nat2Z.id, skipn_all. reflexivity.
  - exists (decodeBlock_si s), (decodeBlock_lLen s), (decodeBlock_x s). split; [destruct s; reflexivity|].
    split; [lia|]. split; [lia|reflexivity].
  - exact Hfuel.
Qed.

Lemma frame_set_x_1 v s : frame s -> frame (set_decodeBlock_x_1 v s).
Proof. intros [F1 F2 F3 F4 F5 F6]. constructor; assumption. Qed.
Lemma frame_set_mLen_1 v s : frame s -> frame (set_decodeBlock_mLen_1 v s).
Proof. intros [F1 F2 F3 F4 F5 F6]. constructor; assumption. Qed.

Definition post_mloop (s : state) (o : outcome state) : Prop :=
  match o with
  | Fall s' => exists v si' x', read_ext (sk (decodeBlock_si s)) (decodeBlock_mLen_1 s) = Some (v, sk si') /\
       decodeBlock_si s < si' <= sl /\ decodeBlock_mLen_1 s <= v < 9223372036854775808 /\
       s' = set_decodeBlock_si si' (set_decodeBlock_mLen_1 v (set_decodeBlock_x_1 x' s))
  | Ret s' => frame s' /\ decodeBlock_ret s' = -2 /\
       forall v r, read_ext (sk (decodeBlock_si s)) (decodeBlock_mLen_1 s) = Some (v, r) -> 9223372036854775808 <= v
  | Pan s' => frame s' /\ read_ext (sk (decodeBlock_si s)) (decodeBlock_mLen_1 s) = None
  | _ => False
  end.

Lemma mloop_spec fuel s : frame s -> 0 <= decodeBlock_si s <= sl -> 0 <= decodeBlock_mLen_1 s < 9223372036854775808 ->
  (Z.to_nat (sl - decodeBlock_si s) < fuel)%nat ->
  post_mloop s (loop fuel (fun _ => true) m_loop_body skip s).
Proof.
  intros F Hsi Hl Hfuel.
  pose (Inv := fun s1 : state => exists si1 acc1 x1,
     s1 = set_decodeBlock_si si1 (set_decodeBlock_mLen_1 acc1 (set_decodeBlock_x_1 x1 s)) /\
     decodeBlock_si s <= si1 <= sl /\ decodeBlock_mLen_1 s <= acc1 < 9223372036854775808 /\
     read_ext (sk (decodeBlock_si s)) (decodeBlock_mLen_1 s) = read_ext (sk si1) acc1).
  apply (loop_inv Inv (post_mloop s) (fun s1 => Z.to_nat (sl - decodeBlock_si s1))).
  - intros s1 _ Hc. discriminate Hc.
  - intros s1 (si1 & acc1 & x1 & -> & Hsi1 & Hacc1 & Hre) _.
    assert (F1 : frame (set_decodeBlock_si si1 (set_decodeBlock_mLen_1 acc1 (set_decodeBlock_x_1 x1 s))))
      by (apply frame_set_si, frame_set_mLen_1, frame_set_x_1, F).
    unfold m_loop_body. rewrite seq_guard. stp F.
    destruct ((0 <=? si1) && (si1 <? sl)) eqn:Eg.
    + lz4block_steps. stp F. rewrite Z.add_0_l, znth_app1 by (fold sl; lia).
      assert (Hx : 0 <= znth src si1 < 256).
      { unfold znth. apply (proj1 (Forall_forall _ _) Hbytes). apply nth_In. unfold sl, len in *. lia. }
      rewrite (wu64_id (acc1 + _)) by lia.
      assert (Hsk : sk si1 = znth src si1 :: sk (si1 + 1)) by (apply skipn_znth; fold sl; lia).
      rewrite seq_ite. lz4block_state_simpl.
      rewrite wi64_neg by lia.
      destruct (9223372036854775808 <=? acc1 + znth src si1) eqn:Ew.
      * rewrite seq_ret_with. cbn [post_mloop]. split; [apply frame_set_ret, frame_set_mLen_1, frame_set_x_1, F1|].
        split; [reflexivity|]. intros v r Hv. rewrite Hre, Hsk in Hv. cbn [read_ext] in Hv.
        assert (Hbig : 9223372036854775808 <= acc1 + znth src si1) by lia.
        destruct (znth src si1 =? 255) eqn:E255.
        -- apply read_ext_ok in Hv; [lia|]. apply bytes_skipn, Hbytes.
        -- inversion Hv; subst. lia.
      * rewrite seq_skip_l. lz4block_steps. rewrite wu64_id by lia.
        unfold ite. lz4block_state_simpl.
        destruct (znth src si1 =? 255) eqn:E255; cbn [negb].
        -- unfold skip. lz4block_state_simpl. split.
           ++ exists (si1 + 1), (acc1 + znth src si1), (znth src si1). split; [reflexivity|].
              split; [lia|]. split; [|].
              { lia. }
              rewrite Hre, Hsk. cbn [read_ext]. rewrite E255. replace (acc1 + 255) with (acc1 + znth src si1) by lia. reflexivity.
           ++ lia.
        -- unfold brk. cbn [post_mloop]. exists (acc1 + znth src si1), (si1 + 1), (znth src si1).
           split; [rewrite Hre, Hsk; cbn [read_ext]; rewrite E255; reflexivity|].
           split; [lia|]. split; [|reflexivity].
           lia.
    + cbn [post_mloop]. split; [exact F1|]. rewrite Hre. assert (si1 = sl) by lia. subst si1.
      unfold sk, sl, len. rewrite Nat2Z.id, skipn_all. reflexivity.
  - exists (decodeBlock_si s), (decodeBlock_mLen_1 s), (decodeBlock_x_1 s). split; [destruct s; reflexivity|].
    split; [lia|]. split; [lia|reflexivity].
  - exact Hfuel.
Qed.

Lemma frame_ext s s' : frame s ->
  decodeBlock_dst s' = decodeBlock_dst s -> decodeBlock_src s' = decodeBlock_src s -> decodeBlock_dict s' = decodeBlock_dict s ->
  mem_decodeBlock_src s' = mem_decodeBlock_src s -> mem_decodeBlock_dict s' = mem_decodeBlock_dict s ->
  (exists D, mem_decodeBlock_dst s' = D ++ dst_spare /\ len D = dl) -> frame s'.
Proof. intros [F1 F2 F3 F4 F5 F6] E1 E2 E3 E4 E5 E6. constructor; congruence. Qed.
Lemma frame_ext' s s' : frame s ->
  decodeBlock_dst s' = decodeBlock_dst s -> decodeBlock_src s' = decodeBlock_src s -> decodeBlock_dict s' = decodeBlock_dict s ->
  mem_decodeBlock_src s' = mem_decodeBlock_src s -> mem_decodeBlock_dict s' = mem_decodeBlock_dict s ->
  mem_decodeBlock_dst s' = mem_decodeBlock_dst s -> frame s'.
Proof. intros F E1 E2 E3 E4 E5 E6. apply (frame_ext s s' F); try assumption. rewrite E6. apply (fr_mdst _ F). Qed.

Definition zip (s : state) (rout rest : list Z) : Prop :=
  mem_decodeBlock_dst s = rev rout ++ rest ++ dst_spare /\ decodeBlock_di s = len rout /\ len rout + len rest = dl.

Lemma sk_len i : 0 <= i <= sl -> len (sk i) = sl - i.
Proof. intros H. unfold sk, len, sl, len in *. rewrite skipn_length. lia. Qed.

Definition post_litcopy (s : state) (rout rest : list Z) (o : outcome state) : Prop :=
  let ll := decodeBlock_lLen s in let si := decodeBlock_si s in
  match o with
  | Fall s2 => frame s2 /\ decodeBlock_b s2 = decodeBlock_b s /\ decodeBlock_si s2 = si + ll /\ si + ll <= sl /\ ll <= len rest /\
       zip s2 (rev (firstn (Z.to_nat ll) (sk si)) ++ rout) (skipn (Z.to_nat ll) rest)
  | Pan s2 => frame s2 /\ (sl - si < ll \/ len rest < ll)
  | _ => False end.

Lemma litcopy_spec s rout rest : frame s -> zip s rout rest -> 0 <= decodeBlock_si s <= sl ->
  0 <= decodeBlock_lLen s < 9223372036854775808 -> post_litcopy s rout rest (p_litcopy s).
Proof.
  intros F (Zm & Zd & Zl) Hsi Hll. unfold p_litcopy.
  pose proof (len_nonneg rout) as Hr. pose proof (len_nonneg rest) as Ht.
  rewrite seq_guard. stp F. rewrite Zd.
  rewrite !wu64_id by lia.
  match goal with |- post_litcopy _ _ _ (if ?c then _ else _) => destruct c eqn:Eg end.
  - lz4block_steps. stp F. rewrite Zm, Zd. rewrite !wu64_id by lia. rewrite !Z.add_0_l.
    replace (len rout + decodeBlock_lLen s - len rout) with (decodeBlock_lLen s) by lia.
    replace (decodeBlock_si s + decodeBlock_lLen s - decodeBlock_si s) with (decodeBlock_lLen s) by lia.
    rewrite Z.min_id.
    rewrite zsub_app1 by (fold sl; lia). fold (sk (decodeBlock_si s)).
    set (data := firstn (Z.to_nat (decodeBlock_lLen s)) (sk (decodeBlock_si s))).
    assert (Hdata : length data = Z.to_nat (decodeBlock_lLen s)).
    { subst data. rewrite firstn_length. pose proof (sk_len (decodeBlock_si s) Hsi) as Hk. unfold len in Hk. lia. }
    rewrite zsplice_zip; [|rewrite len_rev; reflexivity|unfold len in *; lia].
    rewrite overwrite_short by (unfold len in *; lia). rewrite Hdata.
    cbn [post_litcopy]. lz4block_state_simpl.
    split.
    { apply (frame_ext _ _ F); try reflexivity. lz4block_state_simpl.
      exists (rev rout ++ data ++ skipn (Z.to_nat (decodeBlock_lLen s)) rest). rewrite <- !app_assoc. split; [reflexivity|].
      rewrite !len_app, len_rev. unfold len in *. rewrite skipn_length. lia. }
    split; [reflexivity|]. split; [reflexivity|]. split; [lia|]. split; [lia|].
    unfold zip. lz4block_state_simpl. split.
    + rewrite rev_app_distr, rev_involutive, <- !app_assoc. reflexivity.
    + split.
      * rewrite len_app, len_rev. fold data. unfold len in *. lia.
      * rewrite len_app, len_rev. fold data. unfold len in *. rewrite skipn_length. lia.
  - cbn [post_litcopy]. split; [exact F|]. lia.
Qed.

Definition post_lits (f : nat) (b si1 : Z) (o : outcome state) : Prop :=
  match o with
  | Fall s2 => frame s2 /\ decodeBlock_b s2 = b /\ si1 <= decodeBlock_si s2 <= sl /\
       ((exists rout2 rest2, zip s2 rout2 rest2 /\
           RES = general_p dict dl f (b mod 16) (sk (decodeBlock_si s2)) rout2 rest2 (decodeBlock_di s2))
        \/ (dl < decodeBlock_di s2 < 4611686018427387920 /\ RES = DErr /\ decodeBlock_si s2 + 2 <= sl))
  | Cont s2 => frame s2 /\ si1 < decodeBlock_si s2 <= sl /\
       exists r t, zip s2 r t /\ RES = dec_p dict kl dl f (sk (decodeBlock_si s2)) r t (decodeBlock_di s2)
  | Ret s2 => ERRR s2 | Pan s2 => ERR s2 | _ => False end.

Lemma u16_eq fuel s : sl_le16_ok (u16_p s) = true ->
  lz4block_u16 fuel s = Ret (set_u16_ret0 (le16 (u16_p s) s) s).
Proof. intros H. unfold lz4block_u16. rewrite guard_ok by exact H. reflexivity. Qed.

Lemma src_byte i : 0 <= i < sl -> 0 <= znth src i < 256.
Proof.
  intros H. unfold znth. apply (proj1 (Forall_forall _ _) Hbytes). apply nth_In. unfold sl, len in *. lia.
Qed.

Lemma sc_spec fuel f s rout rest : frame s -> zip s rout rest ->
  0 <= decodeBlock_b s < 256 -> decodeBlock_lLen s = decodeBlock_b s / 16 -> 0 < decodeBlock_lLen s < 15 ->
  0 <= decodeBlock_si s -> decodeBlock_si s + 16 < sl ->
  RES = match take_rev (overwrite (firstn 16 (sk (decodeBlock_si s))) rest) (decodeBlock_lLen s) rout with
        | None => DErr
        | Some (rout2, rest2) => sc2_p dict dl f (decodeBlock_b s mod 16) (skipn (Z.to_nat (decodeBlock_lLen s)) (sk (decodeBlock_si s)))
                                   rout2 rest2 (decodeBlock_di s + decodeBlock_lLen s)
        end ->
  post_lits f (decodeBlock_b s) (decodeBlock_si s) (p_sc fuel s).
Proof.
  intros F (Zm & Zd & Zl) Hb HlL Hl Hsi0 Hsi HR.
  pose proof (len_nonneg rout) as Hr. pose proof (len_nonneg rest) as Ht.
  set (si := decodeBlock_si s) in *. set (ll := decodeBlock_lLen s) in *. set (b := decodeBlock_b s) in *.
  set (rest1 := overwrite (firstn 16 (sk si)) rest) in *.
  assert (Hsk16 : length (firstn 16 (sk si)) = 16%nat).
  { rewrite firstn_length. pose proof (sk_len si ltac:(lia)) as Hk. unfold len in Hk. lia. }
  assert (Hrest1 : len rest1 = len rest) by (unfold len, rest1; rewrite overwrite_length; reflexivity).
  rewrite take_rev_spec in HR. rewrite Hrest1 in HR.
  unfold p_sc. rewrite seq_guard. stp F. rewrite Zd. fold si.
  rewrite !wu64_id by lia.
  replace ((0 <=? len rout) && (len rout <=? dl) && (dl <=? dl) && (dl <=? dl) && ((0 <=? si) && (si <=? si + 16) && (si + 16 <=? sl) && (sl <=? sl))) with true by lia.
  lz4block_steps. stp F. rewrite Zm, Zd. fold si ll b. rewrite !Z.add_0_l. rewrite !wu64_id by lia.
  replace (si + 16 - si) with 16 by lia.
  rewrite zsub_app1 by (fold sl; lia). fold (sk si).
  replace (Z.to_nat (Z.min (dl - len rout) 16)) with (Nat.min (length rest) 16) by (unfold len in *; lia).
  rewrite <- (firstn_firstn (sk si)).
  rewrite zsplice_zip; [|rewrite len_rev; reflexivity|rewrite firstn_length; lia].
  rewrite overwrite_firstn by lia. fold rest1.
  rewrite land15. unfold ite at 1. lz4block_state_simpl.
  (* facts about the source *)
  set (si2 := si + ll).
  assert (Hsk2 : skipn (Z.to_nat ll) (sk si) = sk si2).
  { unfold sk, si2. rewrite <- skipn_add. f_equal. lia. }
  assert (Hsk2' : sk si2 = znth src si2 :: znth src (si2 + 1) :: sk (si2 + 2)).
  { unfold sk. rewrite (skipn_znth src si2) by (fold sl; lia). rewrite (skipn_znth src (si2 + 1)) by (fold sl; lia).
    replace (si2 + 1 + 1) with (si2 + 2) by lia. reflexivity. }
  rewrite Hsk2 in HR.
  (* good / bad *)
  assert (Hcase : (ll <= len rest /\ exists rout2 rest2, rev rout2 ++ rest2 = rev rout ++ rest1 /\ len rout2 = len rout + ll /\
                      len rout2 + len rest2 = dl /\ RES = sc2_p dict dl f (b mod 16) (sk si2) rout2 rest2 (len rout + ll)) \/
                  (len rest < ll /\ RES = DErr)).
  { destruct (len rest <? ll) eqn:E; [right; split; [lia|exact HR]|left]. split; [lia|].
    rewrite Zd in HR.
    eexists _, _. split; [|split; [|split; [|exact HR]]].
    - rewrite rev_app_distr, rev_involutive, <- app_assoc, firstn_skipn. reflexivity.
    - rewrite len_app, len_rev. unfold len in *. rewrite firstn_length. lia.
    - rewrite len_app, len_rev. unfold len in *. rewrite firstn_length, skipn_length. lia. }
  clear HR.
  assert (Fmem : exists D, rev rout ++ rest1 ++ dst_spare = D ++ dst_spare /\ len D = dl).
  { exists (rev rout ++ rest1). rewrite <- app_assoc. split; [reflexivity|]. rewrite len_app, len_rev. lia. }
  destruct (b mod 16 <? 15) eqn:Em.
  2:{ (* no shortcut 2 *)
    unfold skip. cbn [post_lits]. lz4block_state_simpl. fold si ll b.
    split; [apply (frame_ext _ _ F); try reflexivity; exact Fmem|].
    split; [reflexivity|]. split; [lia|].
    destruct Hcase as [(Hle & rout2 & rest2 & Hz & Hl2 & Hl3 & HR)|(Hlt & HR)].
    - left. exists rout2, rest2. split.
      + unfold zip. lz4block_state_simpl. rewrite ?wu64_id by lia. split; [|split; [symmetry; exact Hl2|exact Hl3]].
        rewrite app_assoc, <- Hz, <- app_assoc. reflexivity.
      + rewrite ?wu64_id by lia. fold si2. unfold sc2_p in HR. rewrite Em in HR. exact HR.
    - right. rewrite ?wu64_id by lia. split; [lia|]. split; [exact HR|lia]. }
  (* shortcut 2 attempt *)
  unfold p_sc2. lz4block_steps. rewrite seq_guard. stp F. fold si ll b.
  rewrite !wu64_id by lia. fold si2.
  replace ((0 <=? si2) && (si2 <=? sl) && (sl <=? sl) && (sl <=? sl)) with true by lia.
  lz4block_steps. stp F.
  erewrite seq_call_Ret; [|apply u16_eq; lz4block_state_simpl; sl_unf; lia].
  lz4block_steps. stp F. rewrite Z.add_0_l.
  rewrite !znth_app1 by (fold sl; lia).
  pose proof (src_byte si2 ltac:(lia)) as Ho1. pose proof (src_byte (si2 + 1) ltac:(lia)) as Ho2.
  set (off := znth src (si2 + 0) + 256 * znth src (si2 + 1)).
  assert (Hoff : off = znth src si2 + 256 * znth src (si2 + 1)) by (unfold off; rewrite Z.add_0_r; reflexivity).
  assert (Hoffr : 0 <= off < 65536) by lia.
  ite_step. fold si ll b.
  set (di2 := len rout + ll).
  set (mL := b mod 16 + 4).
  assert (HmL : 4 <= mL < 19) by (unfold mL; lia).
  (* the state reached when the shortcut is not taken *)
  match goal with |- post_lits _ _ _ (if _ then _ else skip ?S) => set (S3 := S) end.
  assert (Hfall : forall S, frame S -> decodeBlock_b S = b -> decodeBlock_si S = si2 -> decodeBlock_di S = di2 ->
     mem_decodeBlock_dst S = rev rout ++ rest1 ++ dst_spare ->
     (mL <=? off) && (off <? di2) && (di2 - off + 18 <=? dl) && (di2 + mL <=? dl) = false ->
     post_lits f b si (Fall S)).
  { intros S FS HSb HSsi HSdi HSm Hno. cbn [post_lits]. rewrite HSb, HSsi, HSdi.
    split; [exact FS|].
    split; [reflexivity|]. split; [unfold si2; lia|].
    destruct Hcase as [(Hle & rout2 & rest2 & Hz & Hl2 & Hl3 & HR)|(Hlt & HR)].
    - left. exists rout2, rest2. split.
      + unfold zip. rewrite HSm, HSdi. split; [|split; [symmetry; exact Hl2|exact Hl3]].
        rewrite app_assoc, <- Hz, <- app_assoc. reflexivity.
      + unfold sc2_p in HR. rewrite Em, Hsk2' in HR. cbv zeta in HR. rewrite <- Hoff in HR. fold mL di2 in HR.
        rewrite Hno in HR.
        rewrite Hsk2'. exact HR.
    - right. split; [unfold di2; lia|]. split; [exact HR|unfold si2 in *; lia]. }
  subst S3.
  rewrite ?wu64_id by lia. fold mL. fold di2.
  destruct ((mL <=? off) && (off <? di2)) eqn:Ec1.
  2:{ apply Hfall; [apply (frame_ext _ _ F); try reflexivity; exact Fmem|reflexivity|reflexivity|reflexivity|reflexivity|lia]. }
  lz4block_steps. fold si ll b. fold mL di2.
  rewrite (wu64_id (di2 - off)) by lia. rewrite (wu64_id (di2 - off + 18)) by lia.
  ite_step. fold mL di2. rewrite (fr_dst _ F). unfold sdst. cbn [s_len].
  rewrite (wu64_id dl) by lia. rewrite (wu64_id (di2 + mL)) by lia.
  destruct ((di2 - off + 18 <=? dl) && (di2 + mL <=? dl)) eqn:Ec2.
  2:{ apply Hfall; [apply (frame_ext _ _ F); try reflexivity; exact Fmem|reflexivity|reflexivity|reflexivity|reflexivity|lia]. }
  (* shortcut 2 taken *)
  destruct Hcase as [(Hle & rout2 & rest2 & Hz & Hl2 & Hl3 & HR)|(Hlt & HR)]; [|unfold di2 in *; lia].
  unfold sc2_p in HR. rewrite Em, Hsk2' in HR. cbv zeta in HR. rewrite <- Hoff in HR. fold mL di2 in HR.
  replace ((mL <=? off) && (off <? di2) && (di2 - off + 18 <=? dl) && (di2 + mL <=? dl)) with true in HR by lia.
  unfold p_sc2b. rewrite seq_guard. stp F. fold di2.
  replace ((0 <=? di2) && (di2 <=? dl) && (dl <=? dl) && (dl <=? dl) && ((0 <=? di2 - off) && (di2 - off <=? di2 - off + 18) && (di2 - off + 18 <=? dl) && (dl <=? dl))) with true by lia.
  lz4block_steps. stp F. fold di2 mL si2. rewrite !Z.add_0_l.
  replace (di2 - off + 18 - (di2 - off)) with 18 by lia.
  rewrite (app_assoc (rev rout) rest1 dst_spare), <- Hz.
  assert (Hdi2 : di2 = len rout2) by (unfold di2; lia).
  pose proof (len_nonneg rest2) as Ht2.
  rewrite zsub_app1 by (rewrite ?len_app, ?len_rev; lia).
  replace (Z.to_nat (Z.min (dl - di2) 18)) with (Nat.min (length rest2) 18) by (unfold len in *; lia).
  rewrite <- (firstn_firstn (skipn _ _)). replace (di2 - off) with (len rout2 - off) by lia.
  rewrite window18_eq by lia. rewrite <- app_assoc.
  rewrite zsplice_zip; [|rewrite len_rev; lia|rewrite firstn_length; lia].
  rewrite overwrite_firstn by lia.
  set (X := overwrite (window18 rout2 rest2 off) rest2) in *.
  assert (HX : len X = len rest2) by (unfold X, len; rewrite overwrite_length; reflexivity).
  rewrite take_rev_spec, HX in HR. replace (len rest2 <? mL) with false in HR by lia.
  rewrite !wu64_id by lia.
  unfold cont. cbn [post_lits]. lz4block_state_simpl. fold si.
  split.
  { apply (frame_ext _ _ F); try reflexivity. lz4block_state_simpl.
    exists (rev rout2 ++ X). rewrite <- app_assoc. split; [reflexivity|]. rewrite len_app, len_rev. lia. }
  split; [unfold si2; lia|].
  eexists _, _. split; [|exact HR].
  unfold zip. lz4block_state_simpl. split; [|split].
  - rewrite rev_app_distr, rev_involutive, <- !app_assoc. rewrite (app_assoc (firstn _ X)), firstn_skipn. reflexivity.
  - rewrite len_app, len_rev. unfold len in *. rewrite firstn_length. lia.
  - rewrite len_app, len_rev. unfold len in *. rewrite firstn_length, skipn_length. lia.
Qed.

Lemma lits_spec fuel f s rout rest : frame s -> zip s rout rest ->
  0 <= decodeBlock_b s < 256 -> decodeBlock_lLen s = decodeBlock_b s / 16 ->
  1 <= decodeBlock_si s <= sl -> (Z.to_nat (sl - decodeBlock_si s) < fuel)%nat ->
  RES = dec_p dict kl dl (S f) (decodeBlock_b s :: sk (decodeBlock_si s)) rout rest (decodeBlock_di s) ->
  post_lits f (decodeBlock_b s) (decodeBlock_si s) (p_lits fuel s).
Proof.
  intros F Z Hb HlL Hsi Hfuel HR.
  pose proof Z as (Zm & Zd & Zl).
  pose proof (len_nonneg rout) as Hr. pose proof (len_nonneg rest) as Ht.
  unfold kl in HR. rewrite dec_p_unfold in HR. cbv zeta in HR. rewrite <- HlL in HR.
  assert (Hl : 0 <= decodeBlock_lLen s <= 15) by lia.
  unfold p_lits. unfold ite at 1.
  destruct (0 <? decodeBlock_lLen s) eqn:E0.
  2:{ replace (decodeBlock_lLen s =? 0) with true in HR by lia.
      unfold skip. cbn [post_lits]. split; [exact F|]. split; [reflexivity|]. split; [lia|].
      left. exists rout, rest. split; [exact Z|exact HR]. }
  replace (decodeBlock_lLen s =? 0) with false in HR by lia.
  pose proof (sk_len (decodeBlock_si s) ltac:(lia)) as Hskl.
  rewrite longer_than_spec in HR.
  unfold catch_brk. unfold ite at 1. fr_rw F. unfold ssrc. cbn [s_len].
  rewrite (wu64_id sl) by lia. rewrite (wu64_id (decodeBlock_si s + 16)) by lia.
  replace (16 <? length (sk (decodeBlock_si s)))%nat with (decodeBlock_si s + 16 <? sl) in HR by (unfold len in Hskl; lia).
  destruct ((decodeBlock_lLen s <? 15) && (decodeBlock_si s + 16 <? sl)) eqn:Esc.
  { (* shortcut *)
    pose proof (sc_spec fuel f s rout rest F Z Hb HlL ltac:(lia) ltac:(lia) ltac:(lia) HR) as H.
    destruct (p_sc fuel s); cbn [post_lits] in H |- *; try exact H; contradiction. }
  unfold read_len in HR.
  unfold ite at 1.
  destruct (decodeBlock_lLen s =? 15) eqn:E15.
  - (* extension loop, then the copy *)
    pose proof (litloop_spec fuel s F ltac:(lia) ltac:(lia) Hfuel) as HL.
    unfold GoT.seq at 1.
    destruct (p_litloop fuel s) as [s1|s1|s1|s1|s1|]; cbn [post_litloop] in HL; try contradiction.
    + destruct HL as (v & si' & x' & Hre & Hsi' & Hv & ->).
      replace (decodeBlock_lLen s) with 15 in Hre by lia. rewrite Hre in HR.
      set (s1 := set_decodeBlock_si si' (set_decodeBlock_lLen v (set_decodeBlock_x x' s))).
      assert (F1 : frame s1) by (apply frame_set_si, frame_set_lLen, frame_set_x, F).
      pose proof (litcopy_spec s1 rout rest F1 Z ltac:(unfold s1; lz4block_state_simpl; lia) ltac:(unfold s1; lz4block_state_simpl; lia)) as HC.
      destruct (p_litcopy s1) as [s2|s2|s2|s2|s2|]; cbn [post_litcopy] in HC; try contradiction.
      * unfold s1 in HC. st_in HC. destruct HC as (F2 & Hb2 & Hsi2 & Hle1 & Hle2 & Z2).
        pose proof (sk_len si' ltac:(lia)) as Hsk'.
        rewrite !take_rev_spec in HR. replace (len (sk si') <? v) with false in HR by lia.
        replace (len rest <? v) with false in HR by lia.
        cbn [post_lits]. split; [exact F2|]. split; [exact Hb2|]. split; [lia|].
        left. eexists _, _. split; [exact Z2|]. rewrite HR. rewrite Hsi2. f_equal.
        -- unfold sk. rewrite <- skipn_add. f_equal. lia.
        -- destruct Z2 as (_ & Zd2 & _). rewrite Zd2, len_app, len_rev. unfold len in *. rewrite firstn_length. lia.
      * unfold s1 in HC. st_in HC. destruct HC as (F2 & Hbad).
        cbn [post_lits]. split; [exact F2|]. rewrite HR.
        pose proof (sk_len si' ltac:(lia)) as Hsk'.
        rewrite !take_rev_spec. destruct (len (sk si') <? v) eqn:E1; [reflexivity|].
        replace (len rest <? v) with true by lia. reflexivity.
    + destruct HL as (F1 & Hret & Hbig). cbn [post_lits]. split; [exact F1|]. split; [exact Hret|].
      rewrite HR. replace (decodeBlock_lLen s) with 15 in Hbig by lia.
      destruct (read_ext (sk (decodeBlock_si s)) 15) as [[v r]|] eqn:Ere; [|reflexivity].
      specialize (Hbig v r eq_refl).
      pose proof (read_ext_ok _ _ _ _ (bytes_skipn _ _ Hbytes) Ere) as [_ Hbr].
      rewrite take_rev_spec.
      assert (len r <= sl).
      { clear - Ere Hskl Hsi. assert (G : forall l acc v r, read_ext l acc = Some (v, r) -> len r <= len l).
        { induction l as [|x l IH]; intros acc v0 r0 H; cbn [read_ext] in H; [discriminate|].
          rewrite len_cons. destruct (x =? 255); [apply IH in H; lia|]. inversion H; subst. lia. }
        apply G in Ere. lia. }
      replace (len r <? v) with true by lia. reflexivity.
    + destruct HL as (F1 & Hnone). cbn [post_lits]. split; [exact F1|]. rewrite HR.
      replace (decodeBlock_lLen s) with 15 in Hnone by lia. rewrite Hnone. reflexivity.
  - (* plain copy *)
    pose proof (litcopy_spec s rout rest F Z ltac:(lia) ltac:(lia)) as HC.
    destruct (p_litcopy s) as [s2|s2|s2|s2|s2|]; cbn [post_litcopy] in HC; try contradiction.
    + destruct HC as (F2 & Hb2 & Hsi2 & Hle1 & Hle2 & Z2).
      rewrite !take_rev_spec in HR. replace (len (sk (decodeBlock_si s)) <? decodeBlock_lLen s) with false in HR by lia.
      replace (len rest <? decodeBlock_lLen s) with false in HR by lia.
      cbn [post_lits]. split; [exact F2|]. split; [exact Hb2|]. split; [lia|].
      left. eexists _, _. split; [exact Z2|]. rewrite HR. rewrite Hsi2. f_equal.
      * unfold sk. rewrite <- skipn_add. f_equal. lia.
      * destruct Z2 as (_ & Zd2 & _). rewrite Zd2, len_app, len_rev. unfold len in *. rewrite firstn_length. lia.
    + destruct HC as (F2 & Hbad).
      cbn [post_lits]. split; [exact F2|]. rewrite HR.
      rewrite !take_rev_spec. destruct (len (sk (decodeBlock_si s)) <? decodeBlock_lLen s) eqn:E1; [reflexivity|].
      replace (len rest <? decodeBlock_lLen s) with true by lia. reflexivity.
Qed.

(* ---------------- the doubling loop ---------------- *)
Definition dbl_loop (fuel : nat) : stmt :=
  loop fuel (fun s => ((decodeBlock_n_1 s) <=? (wu64 ((decodeBlock_bytesToCopy s) + (decodeBlock_offset_1 s))))) m_dbl_body m_dbl_post.

Definition post_dbl (s : state) (A E0 : list Z) (o lim : Z) (o' : outcome state) : Prop :=
  let L := len E0 in let P := firstn (Z.to_nat o) E0 in let NL := dbl_last 64 o lim in
  match o' with
  | Fall s' => exists E1, s' = set_decodeBlock_n_1 (2 * NL) (set_mem_decodeBlock_dst (A ++ E1 ++ dst_spare) s) /\
       NL <= L /\ lim < 2 * NL /\ NL <= lim /\ length E1 = length E0 /\
       (o <= L -> E1 = overwrite (cyc (Z.to_nat (Z.min (2 * NL) L)) P P) E0)
  | Pan s' => frame s' /\ L < lim
  | _ => False end.

Lemma set_n1_mem_idem a b c d s :
  set_decodeBlock_n_1 a (set_mem_decodeBlock_dst b (set_decodeBlock_n_1 c (set_mem_decodeBlock_dst d s))) =
  set_decodeBlock_n_1 a (set_mem_decodeBlock_dst b s).
Proof. destruct s; reflexivity. Qed.

Lemma dbl_spec fuel s A E0 e o btc : frame s ->
  decodeBlock_expanded s = mkslice false L_decodeBlock_dst e (dl - e) (dl - e) -> 0 <= e <= dl ->
  len A = e -> len E0 = dl - e -> mem_decodeBlock_dst s = A ++ E0 ++ dst_spare ->
  decodeBlock_offset_1 s = o -> 0 < o < 65536 -> decodeBlock_bytesToCopy s = btc -> 0 <= btc < 9223372036854775808 ->
  decodeBlock_n_1 s = o -> (65 <= fuel)%nat ->
  post_dbl s A E0 o (btc + o) (dbl_loop fuel s).
Proof.
  intros F Hexp He HA HE0 Hm Ho Hor Hbtc Hbtcr Hn Hfuel.
  set (L := len E0). set (P := firstn (Z.to_nat o) E0). set (lim := btc + o). set (NL := dbl_last 64 o lim).
  pose (Inv := fun s1 : state => exists n1 E1 (fk q : nat),
     s1 = set_decodeBlock_n_1 n1 (set_mem_decodeBlock_dst (A ++ E1 ++ dst_spare) s) /\
     length E1 = length E0 /\ 0 < n1 /\ Z.to_nat n1 = (q * Z.to_nat o)%nat /\
     (o <= L -> E1 = overwrite (cyc (Z.to_nat (Z.min n1 L)) P P) E0) /\
     (n1 <= lim -> NL = dbl_last fk n1 lim /\ lim < n1 * 2 ^ Z.of_nat fk) /\
     (lim < n1 -> n1 = 2 * NL /\ NL <= L /\ NL <= lim)).
  unfold dbl_loop.
  apply (loop_inv Inv (post_dbl s A E0 o lim) (fun s1 => Z.to_nat (64 - Z.log2 (decodeBlock_n_1 s1)))).
  - (* exit *)
    intros s1 (n1 & E1 & fk & q & -> & HlE & Hn1 & Hq & HE1 & Hle & Hgt). lz4block_state_simpl. rewrite Ho, Hbtc.
    rewrite wu64_id by lia. fold lim. intros Hc. apply Z.leb_gt in Hc.
    destruct (Hgt Hc) as (E2 & HNL1 & HNL2).
    cbn [post_dbl]. fold L P lim NL. exists E1. rewrite <- E2. split; [reflexivity|]. split; [exact HNL1|].
    split; [lia|]. split; [exact HNL2|]. split; [exact HlE|exact HE1].
  - (* step *)
    intros s1 (n1 & E1 & fk & q & -> & HlE & Hn1 & Hq & HE1 & Hle & Hgt). lz4block_state_simpl. rewrite Ho, Hbtc.
    rewrite wu64_id by lia. fold lim. intros Hc. apply Z.leb_le in Hc.
    destruct (Hle Hc) as (HNL & Hfk).
    unfold m_dbl_body. unfold guard. lz4block_state_simpl. rewrite Hexp. sl_unf.
    assert (HL : L = dl - e) by exact HE0.
    destruct ((0 <=? n1) && (n1 <=? dl - e) && (dl - e <=? dl - e) && (dl - e <=? dl - e) && ((0 <=? 0) && (0 <=? n1) && (n1 <=? dl - e) && (dl - e <=? dl - e))) eqn:Eg.
    2:{ cbn [post_dbl]. fold L lim. split; [|lia].
        apply (frame_ext _ _ F); try reflexivity. lz4block_state_simpl.
        exists (A ++ E1). rewrite <- app_assoc. split; [reflexivity|]. rewrite len_app. unfold len in *. lia. }
    assert (Hn1L : n1 <= L) by lia.
    assert (HoL : o <= L).
    { destruct q as [|q]; [lia|]. assert (Z.to_nat o <= Z.to_nat n1)%nat by (rewrite Hq; cbn [Nat.mul]; lia). lia. }
    specialize (HE1 HoL).
    rewrite upd_eq. lz4block_state_simpl. rewrite Hexp. cbn [s_loc s_off s_len s_cap]. lz4block_state_simpl.
    unfold m_dbl_post. rewrite upd_eq. lz4block_state_simpl.
    rewrite set_n1_mem_idem.
    assert (HP : P <> []).
    { intros E. apply (f_equal (@length Z)) in E. unfold P in E. rewrite firstn_length in E. cbn [length] in E. unfold L, len in *. lia. }
    assert (HPl : length P = Z.to_nat o) by (unfold P; rewrite firstn_length; unfold L, len in *; lia).
    (* the new contents *)
    set (cnt := Z.min (dl - e - n1) (n1 - 0)).
    assert (Hnew : zsplice (A ++ E1 ++ dst_spare) (e + n1) (zsub (A ++ E1 ++ dst_spare) (e + 0) cnt) =
                   A ++ overwrite (cyc (Z.to_nat (Z.min (n1 * 2) L)) P P) E0 ++ dst_spare).
    { rewrite Z.add_0_r.
      replace (zsub (A ++ E1 ++ dst_spare) e cnt) with (firstn (Z.to_nat cnt) E1).
      2:{ unfold zsub. replace (Z.to_nat e) with (length A) by (unfold len in HA; lia).
          rewrite skipn_app, skipn_all, Nat.sub_diag. cbn [skipn app]. rewrite firstn_app.
          replace (Z.to_nat cnt - length E1)%nat with O by (unfold cnt, L, len in *; lia). cbn [firstn]. rewrite app_nil_r. reflexivity. }
      rewrite <- (firstn_skipn (Z.to_nat n1) E1) at 1. rewrite <- !app_assoc. rewrite (app_assoc A).
      rewrite zsplice_zip.
      2:{ rewrite len_app. unfold len in *. rewrite firstn_length. lia. }
      2:{ rewrite firstn_length, skipn_length. unfold cnt, L, len in *. lia. }
      rewrite <- app_assoc. f_equal. rewrite app_assoc. f_equal.
      rewrite HE1. replace (Z.min n1 L) with n1 by lia.
      pose proof (dbl_step P E0 (Z.to_nat n1) (Z.to_nat L) q HP) as HS. cbv zeta in HS.
      replace (Z.to_nat cnt) with (Nat.min (Z.to_nat L - Z.to_nat n1) (Z.to_nat n1)) by (unfold cnt; lia).
      rewrite HS; [|rewrite HPl; exact Hq|lia|unfold L, len; lia].
      f_equal. f_equal. lia. }
    rewrite Hnew. clear Hnew.
    assert (Hw : wu64 (n1 * 2) = n1 * 2) by (apply wu64_id; lia). rewrite Hw.
    split.
    + (* invariant *)
      exists (n1 * 2), (overwrite (cyc (Z.to_nat (Z.min (n1 * 2) L)) P P) E0), (pred fk), (2 * q)%nat.
      split; [reflexivity|]. split; [apply overwrite_length|]. split; [lia|]. split; [lia|].
      split; [intros _; reflexivity|]. split.
      * intros Hc2. destruct fk as [|fk]; [cbn in Hfk; lia|]. cbn [pred]. split.
        -- rewrite HNL. cbn [dbl_last]. replace (2 * n1 <=? lim) with true by lia. f_equal. lia.
        -- rewrite Nat2Z.inj_succ, Z.pow_succ_r in Hfk by lia. lia.
      * intros Hc2. assert (HNLn : NL = n1).
        { rewrite HNL. destruct fk as [|fk]; [reflexivity|]. cbn [dbl_last]. replace (2 * n1 <=? lim) with false by lia. reflexivity. }
        rewrite HNLn. split; [lia|]. split; [exact Hn1L|exact Hc].
    + lz4block_state_simpl. rewrite (Z.mul_comm n1 2), Z.log2_double by lia.
      assert (Z.log2 n1 < 64). { apply Z.log2_lt_pow2; [lia|]. change (2 ^ 64) with 18446744073709551616. lia. }
      pose proof (Z.log2_nonneg n1). lia.
  - (* initially *)
    exists o, E0, 64%nat, 1%nat. split; [rewrite <- Hn, <- Hm; destruct s; reflexivity|].
    split; [reflexivity|]. split; [lia|]. split; [lia|]. split.
    + intros HoL. replace (Z.min o L) with o by lia. rewrite cyc_small by (unfold P; rewrite firstn_length; unfold L, len in *; lia).
      unfold P. rewrite firstn_firstn, Nat.min_id. rewrite overwrite_short by (rewrite firstn_length; lia).
      rewrite firstn_length. replace (Nat.min (Z.to_nat o) (length E0)) with (Z.to_nat o) by (unfold L, len in *; lia).
      symmetry. apply firstn_skipn.
    + split; [intros _; split; [reflexivity|]|intros Hc; unfold lim in Hc; lia].
      change (2 ^ Z.of_nat 64) with 18446744073709551616. unfold lim. lia.
  - lz4block_state_simpl. rewrite Hn. pose proof (Z.log2_nonneg o). lia.
Qed.

(* ---------------- the dictionary part of a match ---------------- *)
Definition post_dict (s : state) (rout rest : list Z) (o : outcome state) : Prop :=
  let off := decodeBlock_offset_1 s in let mLen := decodeBlock_mLen_1 s in
  let ph := phase1 dict kl rout rest (len rout) (len rest) off mLen in
  match o with
  | Fall s' => frame s' /\ decodeBlock_si s' = decodeBlock_si s /\ decodeBlock_offset_1 s' = off /\
      exists r1 t1 mLen1, ph = Some (r1, t1, mLen1, len t1) /\ zip s' r1 t1 /\ decodeBlock_mLen_1 s' = mLen1 /\
         0 < mLen1 <= mLen /\ off <= len r1 /\ len r1 + mLen1 = len rout + mLen
  | Cont s' => frame s' /\ decodeBlock_si s' = decodeBlock_si s /\
      exists r1 t1, ph = Some (r1, t1, 0, len t1) /\ zip s' r1 t1 /\ len r1 = len rout + mLen
  | Pan s' => frame s' /\ ph = None
  | _ => False end.

Lemma dict_spec s rout rest : frame s -> zip s rout rest ->
  0 < decodeBlock_offset_1 s < 65536 -> 0 < decodeBlock_mLen_1 s < 9223372036854775808 ->
  post_dict s rout rest (m_dict s).
Proof.
  intros F (Zm & Zd & Zl) Hoff HmL.
  pose proof (len_nonneg rout) as Hr. pose proof (len_nonneg rest) as Ht. pose proof (len_nonneg dict) as Hk. fold kl in Hk.
  set (off := decodeBlock_offset_1 s) in *. set (mLen := decodeBlock_mLen_1 s) in *.
  unfold m_dict. unfold ite at 1. rewrite Zd. fold off.
  unfold post_dict. fold off mLen. cbv zeta. unfold phase1.
  destruct (len rout <? off) eqn:E0.
  2:{ unfold skip. split; [exact F|]. split; [reflexivity|]. split; [reflexivity|].
      exists rout, rest, mLen. split; [reflexivity|]. split; [split; [exact Zm|split; [exact Zd|exact Zl]]|].
      split; [reflexivity|]. lia. }
  set (need := off - len rout).
  rewrite seq_guard. stp F. rewrite Zd. fold off kl.
  rewrite (wu64_id kl) by lia. rewrite (wu64_id (kl + len rout)) by lia.
  destruct (kl <? need) eqn:E1.
  { (* the slice start is beyond len(dict) *)
    replace (_ && _ && _ && _) with false; [split; [exact F|reflexivity]|].
    unfold wu64. unfold need in E1. lia. }
  assert (Ha : wu64 (kl + len rout - off) = kl - need) by (rewrite wu64_id; unfold need in *; lia).
  rewrite Ha.
  replace ((0 <=? kl - need) && (kl - need <=? kl) && (kl <=? kl + zlen dict_spare) && (kl + zlen dict_spare <=? kl + zlen dict_spare)) with true
    by (pose proof (zlen_nonneg dict_spare); unfold need in *; lia).
  lz4block_steps. rewrite seq_guard. stp F. rewrite Zd. fold mLen off kl.
  rewrite (wu64_id (len rout + mLen)) by lia.
  destruct (len rest <? mLen) eqn:E2.
  { replace (_ && _ && _ && _) with false by lia. split; [|reflexivity].
    apply (frame_ext' _ _ F); reflexivity. }
  replace ((0 <=? len rout) && (len rout <=? len rout + mLen) && (len rout + mLen <=? dl) && (dl <=? dl)) with true by lia.
  lz4block_steps. stp F. rewrite Zm, Zd. fold mLen off kl. rewrite !Z.add_0_l.
  rewrite (wu64_id kl) by lia. rewrite (wu64_id (kl + len rout)) by lia. rewrite !Ha.
  rewrite (wu64_id (len rout + mLen)) by lia.
  replace (len rout + mLen - len rout) with mLen by lia.
  replace (kl - (kl - need)) with need by lia.
  set (n := Z.min mLen need).
  rewrite (wu64_id n) by (unfold n, need in *; lia).
  rewrite (wu64_id (len rout + n)) by (unfold n, need in *; lia).
  rewrite (wu64_id (mLen - n)) by (unfold n, need in *; lia).
  rewrite zsub_app1 by (fold kl; unfold n, need in *; lia).
  set (from := firstn (Z.to_nat n) (skipn (Z.to_nat (kl - need)) dict)).
  assert (Hfrom : length from = Z.to_nat n).
  { unfold from. rewrite firstn_length, skipn_length. unfold n, need, kl, len in *. lia. }
  rewrite zsplice_zip; [|rewrite len_rev; reflexivity|unfold n, need, len in *; lia].
  set (X := overwrite from rest).
  assert (HX : len X = len rest) by (unfold X, len; rewrite overwrite_length; reflexivity).
  rewrite take_rev_spec. fold X. rewrite HX. replace (len rest <? n) with false by (unfold n, need in *; lia).
  assert (FX : frame (set_mem_decodeBlock_dst (rev rout ++ X ++ dst_spare) s)).
  { apply (frame_ext _ _ F); try reflexivity. lz4block_state_simpl. exists (rev rout ++ X). rewrite <- app_assoc.
    split; [reflexivity|]. rewrite len_app, len_rev. lia. }
  assert (HZ : forall S, mem_decodeBlock_dst S = rev rout ++ X ++ dst_spare -> decodeBlock_di S = len rout + n ->
     zip S (rev (firstn (Z.to_nat n) X) ++ rout) (skipn (Z.to_nat n) X)).
  { intros S HS1 HS2. unfold zip. split; [|split].
    - rewrite HS1, rev_app_distr, rev_involutive, <- !app_assoc. rewrite (app_assoc (firstn _ X)), firstn_skipn. reflexivity.
    - rewrite HS2, len_app, len_rev. unfold len in *. rewrite firstn_length. unfold n, need in *. lia.
    - rewrite len_app, len_rev. unfold len in *. rewrite firstn_length, skipn_length. unfold n, need in *. lia. }
  assert (Hlr1 : len (rev (firstn (Z.to_nat n) X) ++ rout) = len rout + n).
  { rewrite len_app, len_rev. unfold len in *. rewrite firstn_length. unfold n, need in *. lia. }
  assert (Hlt1 : len (skipn (Z.to_nat n) X) = len rest - n).
  { unfold len in *. rewrite skipn_length. unfold n, need in *. lia. }
  unfold ite. lz4block_state_simpl.
  destruct (mLen - n =? 0) eqn:E3.
  - unfold cont. split; [apply (frame_ext' _ _ FX); reflexivity|]. split; [reflexivity|].
    eexists _, _. split; [|split; [apply HZ; reflexivity|]].
    + rewrite Hlt1. replace (mLen - n) with 0 by lia. reflexivity.
    + rewrite Hlr1. lia.
  - unfold skip. split; [apply (frame_ext' _ _ FX); reflexivity|]. split; [reflexivity|]. split; [reflexivity|].
    eexists _, _, _. split; [rewrite Hlt1; reflexivity|]. split; [apply HZ; reflexivity|].
    split; [reflexivity|]. rewrite Hlr1. unfold n, need in *. lia.
Qed.

(* ---------------- the part of a match copied from the output ---------------- *)
Definition post_ph2 (s : state) (r1 t1 : list Z) (o : outcome state) : Prop :=
  let off := decodeBlock_offset_1 s in let mLen1 := decodeBlock_mLen_1 s in
  let ph := phase2 r1 t1 (len t1) off mLen1 in
  match o with
  | Fall s' => frame s' /\ decodeBlock_si s' = decodeBlock_si s /\ exists r t, ph = Some (r, t) /\ zip s' r t
  | Pan s' => frame s' /\ ph = None
  | _ => False end.

Lemma ph2_spec fuel s r1 t1 : frame s -> zip s r1 t1 ->
  0 < decodeBlock_offset_1 s < 65536 -> 0 < decodeBlock_mLen_1 s < 9223372036854775808 ->
  decodeBlock_offset_1 s <= len r1 -> (65 <= fuel)%nat ->
  post_ph2 s r1 t1 (m_exp (m_dbl fuel ;; m_fin) s).
Proof.
  intros F (Zm & Zd & Zl) Hoff HmL Hoffr Hfuel.
  pose proof (len_nonneg r1) as Hr. pose proof (len_nonneg t1) as Ht.
  set (off := decodeBlock_offset_1 s) in *. set (mLen := decodeBlock_mLen_1 s) in *.
  unfold post_ph2. fold off mLen. cbv zeta. unfold phase2. replace (mLen =? 0) with false by lia.
  unfold m_exp. rewrite seq_guard. stp F. rewrite Zd. fold off.
  rewrite (wu64_id (len r1 - off)) by lia.
  set (e := len r1 - off).
  replace ((0 <=? e) && (e <=? dl) && (dl <=? dl) && (dl <=? dl)) with true by (unfold e; lia).
  lz4block_steps. stp F. rewrite Zd. fold off. rewrite (wu64_id (len r1 - off)) by lia. fold e. rewrite Z.add_0_l.
  set (S1 := set_decodeBlock_expanded _ s).
  assert (F1 : frame S1) by (apply (frame_ext' _ _ F); reflexivity).
  assert (Hexp : decodeBlock_expanded S1 = mkslice false L_decodeBlock_dst e (dl - e) (dl - e)) by reflexivity.
  (* the final copy, common to both cases *)
  unfold m_dbl. rewrite seq_ite. change (decodeBlock_offset_1 S1) with off. change (decodeBlock_mLen_1 S1) with mLen.
  destruct (off <? mLen) eqn:Eo.
  2:{ (* no overlap *)
    rewrite seq_skip_l. unfold m_fin. unfold guard. stp F1. rewrite Hexp. cbn [s_cap s_len s_off s_loc].
    change (decodeBlock_di S1) with (decodeBlock_di s). change (decodeBlock_mLen_1 S1) with mLen. rewrite Zd.
    rewrite (wu64_id (len r1 + mLen)) by lia.
    destruct (len t1 <? mLen) eqn:E1.
    { replace (_ && _) with false by lia. split; [exact F1|reflexivity]. }
    replace (_ && _) with true by (unfold e; lia).
    rewrite upd_eq. stp F1. rewrite Hexp. cbn [s_cap s_len s_off s_loc]. lz4block_state_simpl.
    change (decodeBlock_di S1) with (decodeBlock_di s). change (decodeBlock_mLen_1 S1) with mLen. rewrite Zd.
    change (mem_decodeBlock_dst S1) with (mem_decodeBlock_dst s). rewrite Zm.
    rewrite (wu64_id (len r1 + mLen)) by lia. rewrite !Z.add_0_r.
    replace (len r1 + mLen - len r1) with mLen by lia. rewrite Z.sub_0_r, Z.min_id.
    rewrite (wu64_id mLen) by lia. rewrite (wu64_id (len r1 + mLen)) by lia.
    rewrite !Z.add_0_l.
    rewrite zsub_app1 by (rewrite ?len_rev; unfold e; lia).
    replace (Z.to_nat e) with (length r1 - Z.to_nat off)%nat by (unfold e, len in *; lia).
    rewrite firstn_skipn_rev by (unfold len in *; lia).
    rewrite rrev_rev.
    replace (Z.to_nat off - Z.to_nat mLen)%nat with (Z.to_nat (off - mLen)) by lia.
    set (from := rev (firstn (Z.to_nat mLen) (skipn (Z.to_nat (off - mLen)) r1))).
    assert (Hfrom : length from = Z.to_nat mLen).
    { unfold from. rewrite rev_length, firstn_length, skipn_length. unfold len in *. lia. }
    rewrite zsplice_zip; [|rewrite len_rev; reflexivity|unfold len in *; lia].
    set (X := overwrite from t1).
    assert (HX : len X = len t1) by (unfold X, len; rewrite overwrite_length; reflexivity).
    rewrite take_rev_spec. fold X. rewrite HX. rewrite E1.
    split.
    { apply (frame_ext _ _ F); try reflexivity. lz4block_state_simpl. exists (rev r1 ++ X). rewrite <- app_assoc.
      split; [reflexivity|]. rewrite len_app, len_rev. lia. }
    split; [reflexivity|]. eexists _, _. split; [reflexivity|].
    unfold zip. lz4block_state_simpl. split; [|split].
    - rewrite rev_app_distr, rev_involutive, <- !app_assoc. rewrite (app_assoc (firstn _ X)), firstn_skipn. reflexivity.
    - rewrite len_app, len_rev. unfold len in *. rewrite firstn_length. lia.
    - rewrite len_app, len_rev. unfold len in *. rewrite firstn_length, skipn_length. lia. }
  (* the doubling copy *)
  subst S1.
  rewrite !seq_assoc. rewrite seq_guard. lz4block_state_simpl. fold off.
  replace (negb (off =? 0)) with true by lia.
  repeat (rewrite ?seq_assoc; got_step; lz4block_state_simpl). rewrite ?seq_assoc. fold off mLen.
  set (btc := off * (mLen / off)).
  assert (Hbtc : 0 < btc <= mLen /\ mLen - btc = mLen mod off /\ 0 <= mLen mod off < off) by (unfold btc; lia).
  rewrite (wu64_id btc) by lia.
  match goal with |- context [GoT.seq (loop fuel ?c m_dbl_body m_dbl_post) ?k ?S] =>
    set (S2 := S); change (loop fuel c m_dbl_body m_dbl_post) with (dbl_loop fuel) end.
  assert (F2 : frame S2) by (apply (frame_ext' _ _ F); reflexivity).
  set (A := firstn (Z.to_nat e) (rev r1)).
  set (P := skipn (Z.to_nat e) (rev r1)).
  assert (HAP : rev r1 = A ++ P) by (symmetry; apply firstn_skipn).
  assert (HlA : len A = e) by (unfold A, len; rewrite firstn_length, rev_length; unfold e, len in *; lia).
  assert (HlP : length P = Z.to_nat off) by (unfold P; rewrite skipn_length, rev_length; unfold e, len in *; lia).
  assert (HPm : P = rev (firstn (Z.to_nat off) r1)).
  { unfold P. rewrite skipn_rev. f_equal. f_equal. unfold e, len in *. lia. }
  set (E0 := P ++ t1).
  assert (HlE0 : len E0 = dl - e) by (unfold E0; rewrite len_app; unfold len in *; unfold e, len in *; lia).
  assert (Hmem2 : mem_decodeBlock_dst S2 = A ++ E0 ++ dst_spare).
  { change (mem_decodeBlock_dst S2) with (mem_decodeBlock_dst s). rewrite Zm, HAP. unfold E0. rewrite <- !app_assoc. reflexivity. }
  assert (HPE : firstn (Z.to_nat off) E0 = P).
  { unfold E0. rewrite firstn_app, <- HlP, Nat.sub_diag, firstn_all. cbn [firstn]. apply app_nil_r. }
  pose proof (dbl_spec fuel S2 A E0 e off btc F2 Hexp ltac:(unfold e; lia) HlA HlE0 Hmem2 eq_refl Hoff eq_refl ltac:(lia) eq_refl Hfuel) as HD.
  unfold GoT.seq at 1.
  destruct (dbl_loop fuel S2) as [s3|s3|s3|s3|s3|]; cbn [post_dbl] in HD; try contradiction.
  2:{ destruct HD as (F3 & Hlt). split; [exact F3|]. rewrite HlE0 in Hlt.
      replace (len t1 <? mLen) with true by (unfold e in *; lia). reflexivity. }
  rewrite HPE in HD. set (NL := dbl_last 64 off (btc + off)) in *.
  destruct HD as (E1 & -> & HNL1 & HNL2 & HNL3 & HlE1 & HE1). rewrite HlE0 in HNL1, HE1.
  specialize (HE1 ltac:(unfold e; lia)).
  subst S2. repeat (rewrite ?seq_assoc; got_step; lz4block_state_simpl). rewrite Zd. fold mLen.
  rewrite (wu64_id (len r1 + btc)) by lia. rewrite (wu64_id (mLen - btc)) by lia.
  unfold m_fin. unfold guard. lz4block_state_simpl. fr_rw F. sl_unf.
  rewrite (wu64_id (len r1 + btc + (mLen - btc))) by lia.
  replace (len r1 + btc + (mLen - btc)) with (len r1 + mLen) by lia.
  destruct (len t1 <? mLen) eqn:E1t.
  { replace (_ && _) with false by lia. split; [|reflexivity].
    apply (frame_ext _ _ F); try reflexivity. lz4block_state_simpl. exists (A ++ E1). rewrite <- app_assoc.
    split; [reflexivity|]. rewrite len_app. unfold len in *. lia. }
  replace (_ && _) with true by (unfold e in *; lia).
  rewrite upd_eq. lz4block_state_simpl. fr_rw F. sl_unf. rewrite !Z.add_0_l, !Z.add_0_r, !Z.sub_0_r.
  rewrite (wu64_id (len r1 + btc + (mLen - btc))) by lia.
  replace (len r1 + btc + (mLen - btc) - (len r1 + btc)) with (mLen - btc) by lia. rewrite Z.min_id.
  rewrite (wu64_id (mLen - btc)) by lia.
  rewrite (wu64_id (len r1 + btc + (mLen - btc))) by lia.
  rewrite rrev_rev, <- HPm.
  set (X := overwrite (cyc (Z.to_nat (Z.min (Z.max (2 * NL - off) mLen) (len t1))) P P) t1).
  assert (HX : len X = len t1) by (unfold X, len; rewrite overwrite_length; reflexivity).
  assert (HP : P <> []).
  { intros E. apply (f_equal (@length Z)) in E. rewrite HlP in E. cbn [length] in E. lia. }
  assert (HlE0n : length E0 = Z.to_nat (dl - e)) by (unfold len in HlE0; lia).
  assert (Hnew : zsplice (A ++ E1 ++ dst_spare) (len r1 + btc) (zsub (A ++ E1 ++ dst_spare) e (mLen - btc)) =
                 rev r1 ++ X ++ dst_spare).
  { replace (zsub (A ++ E1 ++ dst_spare) e (mLen - btc)) with (firstn (Z.to_nat (mLen - btc)) E1).
    2:{ unfold zsub. replace (Z.to_nat e) with (length A) by (unfold len in HlA; lia).
        rewrite skipn_app, skipn_all, Nat.sub_diag. cbn [skipn app]. rewrite firstn_app.
        replace (Z.to_nat (mLen - btc) - length E1)%nat with O by (unfold e in *; lia). cbn [firstn]. rewrite app_nil_r. reflexivity. }
    set (p := Z.to_nat (off + btc)).
    rewrite <- (firstn_skipn p E1) at 1. rewrite <- !app_assoc. rewrite (app_assoc A).
    rewrite zsplice_zip.
    2:{ rewrite len_app. unfold len in *. rewrite firstn_length. unfold p, e in *. lia. }
    2:{ rewrite firstn_length, skipn_length. unfold p, e in *. lia. }
    rewrite <- app_assoc. rewrite HAP. rewrite <- app_assoc. f_equal. rewrite (app_assoc (firstn p E1)).
    rewrite HE1.
    pose proof (fin_step P E0 (Z.to_nat (Z.min (2 * NL) (dl - e))) p (Z.to_nat (mLen - btc)) (Z.to_nat (1 + mLen / off)) (Z.to_nat (dl - e)) HP HlE0n) as HS.
    cbv zeta in HS. rewrite HS.
    - unfold E0. rewrite overwrite_cyc_app by (unfold p, e in *; lia). rewrite <- app_assoc. f_equal. f_equal.
      unfold X. f_equal. f_equal. rewrite HlP. unfold p.
      assert (Hde : dl - e = off + len t1) by (unfold e; lia). rewrite Hde.
      clear - Hbtc HmL Hoff E1t Ht HNL2. lia.
    - unfold p. rewrite HlP. replace (off + btc) with ((1 + mLen / off) * off) by (unfold btc; ring).
      rewrite Z2Nat.inj_mul; [reflexivity| |lia]. pose proof (Z.div_pos mLen off ltac:(lia) ltac:(lia)). lia.
    - lia.
    - unfold e in *. lia.
    - unfold p, e in *. lia.
    - lia.
    - unfold p, e in *. lia. }
  rewrite Hnew. clear Hnew.
  rewrite take_rev_spec. fold X. rewrite HX, E1t.
  split.
  { apply (frame_ext _ _ F); try reflexivity. lz4block_state_simpl. exists (rev r1 ++ X). rewrite <- app_assoc.
    split; [reflexivity|]. rewrite len_app, len_rev. lia. }
  split; [reflexivity|]. eexists _, _. split; [reflexivity|].
  unfold zip. lz4block_state_simpl. split; [|split].
  - rewrite rev_app_distr, rev_involutive, <- !app_assoc. rewrite (app_assoc (firstn _ X)), firstn_skipn. reflexivity.
  - rewrite len_app, len_rev. unfold len in *. rewrite firstn_length. lia.
  - rewrite len_app, len_rev. unfold len in *. rewrite firstn_length, skipn_length. lia.
Qed.

(* ---------------- the whole match copy ---------------- *)
Definition post_copy (s : state) (rout rest : list Z) (o : outcome state) : Prop :=
  let cm := copy_match_p dict kl rout rest (len rout) (len rest) (decodeBlock_offset_1 s) (decodeBlock_mLen_1 s) in
  match o with
  | Fall s' | Cont s' => frame s' /\ decodeBlock_si s' = decodeBlock_si s /\
      exists r t, cm = Some (r, t) /\ zip s' r t /\ len r = len rout + decodeBlock_mLen_1 s
  | Pan s' => frame s' /\ cm = None
  | _ => False end.

Lemma copy_spec fuel s rout rest : frame s -> zip s rout rest ->
  0 < decodeBlock_offset_1 s < 65536 -> 0 < decodeBlock_mLen_1 s < 9223372036854775808 -> (65 <= fuel)%nat ->
  post_copy s rout rest ((m_dict ;; m_exp (m_dbl fuel ;; m_fin)) s).
Proof.
  intros F Z Hoff HmL Hfuel. unfold post_copy. cbv zeta. rewrite copy_match_p_unfold.
  pose proof (dict_spec s rout rest F Z Hoff HmL) as HD. unfold post_dict in HD. cbv zeta in HD.
  unfold GoT.seq at 1.
  destruct (m_dict s) as [s1|s1|s1|s1|s1|]; try contradiction.
  - destruct HD as (F1 & Hsi1 & Hoff1 & r1 & t1 & mLen1 & Hph & Z1 & HmL1 & HmLr & Hor & Hlen).
    rewrite Hph.
    pose proof (ph2_spec fuel s1 r1 t1 F1 Z1 ltac:(rewrite Hoff1; exact Hoff) ltac:(rewrite HmL1; lia) ltac:(rewrite Hoff1; exact Hor) Hfuel) as H2.
    unfold post_ph2 in H2. cbv zeta in H2. rewrite Hoff1, HmL1 in H2.
    pose proof (phase2_ok r1 t1 (decodeBlock_offset_1 s) mLen1 ltac:(lia) ltac:(lia)) as Hok.
    destruct (m_exp (m_dbl fuel;; m_fin) s1) as [s2|s2|s2|s2|s2|]; try contradiction.
    + destruct H2 as (F2 & Hsi2 & r & t0 & Hp2 & Z2). rewrite Hp2 in Hok |- *. destruct Hok as (_ & Hr & _).
      split; [exact F2|]. split; [congruence|]. exists r, t0. split; [reflexivity|]. split; [exact Z2|].
      rewrite Hr, len_mres by lia. lia.
    + destruct H2 as (F2 & Hp2). rewrite Hp2. split; [exact F2|reflexivity].
  - destruct HD as (F1 & Hsi1 & r1 & t1 & Hph & Z1 & Hlen). rewrite Hph. unfold phase2. cbn [Z.eqb].
    split; [exact F1|]. split; [exact Hsi1|]. exists r1, t1. split; [reflexivity|]. split; [exact Z1|exact Hlen].
  - destruct HD as (F1 & Hph). rewrite Hph. split; [exact F1|reflexivity].
Qed.

(* ---------------- from `mLen := b & 0xF` to the end of the loop body ---------------- *)
Definition post_match (f : nat) (si0 : Z) (o : outcome state) : Prop :=
  match o with
  | Fall s' | Cont s' => frame s' /\ si0 < decodeBlock_si s' <= sl /\
       exists r t, zip s' r t /\ RES = dec_p dict kl dl f (sk (decodeBlock_si s')) r t (decodeBlock_di s')
  | Brk s' => frame s' /\ 0 <= decodeBlock_di s' <= dl /\
       RES = DOk (decodeBlock_di s') (firstn (Z.to_nat dl) (mem_decodeBlock_dst s'))
  | Ret s' => ERRR s' | Pan s' => ERR s' | Hang => False end.

Lemma match_spec fuel f s rout rest : frame s -> zip s rout rest ->
  0 <= decodeBlock_b s < 256 -> 0 <= decodeBlock_si s <= sl ->
  (Z.to_nat (sl - decodeBlock_si s) < fuel)%nat -> (65 <= fuel)%nat ->
  RES = general_p dict dl f (decodeBlock_b s mod 16) (sk (decodeBlock_si s)) rout rest (decodeBlock_di s) ->
  post_match f (decodeBlock_si s) (p_match fuel s).
Proof.
  intros F HZ Hb Hsi Hfuel Hfuel2 HR.
  pose proof HZ as (Zm & Zd & Zl).
  pose proof (len_nonneg rout) as Hr. pose proof (len_nonneg rest) as Ht.
  set (si := decodeBlock_si s) in *. set (mnib := decodeBlock_b s mod 16) in *.
  assert (Hmn : 0 <= mnib < 16) by (unfold mnib; lia).
  unfold general_p in HR.
  unfold p_match, m_A. lz4block_steps. rewrite land15. fold mnib si.
  rewrite seq_ite. stp F. fold si. rewrite (wu64_id sl) by lia.
  destruct ((si =? sl) && (mnib =? 0)) eqn:Eend.
  { (* the block ends here *)
    rewrite seq_brk. cbn [post_match]. lz4block_state_simpl.
    split; [apply (frame_ext' _ _ F); reflexivity|]. rewrite Zd. split; [lia|].
    rewrite HR. replace (sk si) with (@nil Z) by (unfold sk, sl, len in *; rewrite skipn_all2 by lia; reflexivity).
    replace (mnib =? 0) with true by lia. rewrite Zd. f_equal. rewrite rev_append_rev, Zm.
    rewrite app_assoc, firstn_app. rewrite firstn_all2 by (rewrite app_length, rev_length; unfold len in *; lia).
    replace (Z.to_nat dl - length (rev rout ++ rest))%nat with O by (rewrite app_length, rev_length; unfold len in *; lia).
    cbn [firstn]. rewrite app_nil_r. reflexivity. }
  ite_step. fr_rw F. unfold ssrc. cbn [s_len]. fold si. rewrite (wu64_id sl) by lia.
  destruct (sl <=? si) eqn:Ege.
  { rewrite seq_ret_with. cbn [post_match]. split; [apply (frame_ext' _ _ F); reflexivity|]. split; [reflexivity|].
    rewrite HR. replace (sk si) with (@nil Z) by (unfold sk, sl, len in *; rewrite skipn_all2 by lia; reflexivity).
    replace (mnib =? 0) with false by lia. reflexivity. }
  rewrite seq_skip_l. rewrite seq_guard. stp F. fold si.
  replace ((0 <=? si) && (si <=? sl) && (sl <=? sl) && (sl <=? sl)) with true by lia.
  lz4block_steps. stp F. fold si mnib.
  (* u16 *)
  destruct (sl - si <? 2) eqn:E2.
  { unfold GoT.seq at 1. unfold call, lz4block_u16, guard. lz4block_state_simpl. sl_unf.
    replace (2 <=? sl - si) with false by lia. cbn [post_match]. split; [apply (frame_ext' _ _ F); reflexivity|].
    assert (Hsk1 : sk si = [znth src si]).
    { unfold sk. rewrite (skipn_znth src si) by (fold sl; lia). rewrite skipn_all2 by (unfold sl, len in *; lia). reflexivity. }
    rewrite HR, Hsk1. reflexivity. }
  erewrite seq_call_Ret; [|apply u16_eq; lz4block_state_simpl; sl_unf; lia].
  lz4block_steps. stp F. rewrite Z.add_0_l. rewrite !znth_app1 by (fold sl; lia).
  assert (Hsk : sk si = znth src si :: znth src (si + 1) :: sk (si + 2)).
  { unfold sk. rewrite (skipn_znth src si) by (fold sl; lia). rewrite (skipn_znth src (si + 1)) by (fold sl; lia).
    replace (si + 1 + 1) with (si + 2) by lia. reflexivity. }
  rewrite Hsk in HR. cbv zeta in HR.
  pose proof (src_byte si ltac:(lia)) as Ho1. pose proof (src_byte (si + 1) ltac:(lia)) as Ho2.
  rewrite Z.add_0_r.
  set (off := znth src si + 256 * znth src (si + 1)) in *.
  rewrite seq_ite. lz4block_state_simpl.
  destruct (off =? 0) eqn:Eoff.
  { rewrite seq_ret_with. cbn [post_match]. split; [apply (frame_ext' _ _ F); reflexivity|]. split; [reflexivity|exact HR]. }
  rewrite seq_skip_l. lz4block_steps. fold si mnib. rewrite (wu64_id (si + 2)) by lia. rewrite (wu64_id (mnib + 4)) by lia.
  rewrite Zd in HR. replace (dl - len rout) with (len rest) in HR by lia.
  (* the state after the length has been read *)
  assert (Hcopy : forall S ml si', frame S -> zip S rout rest -> decodeBlock_offset_1 S = off -> decodeBlock_mLen_1 S = ml + 4 ->
            0 <= ml < 9223372036854775804 -> decodeBlock_si S = si' -> si + 2 <= si' <= sl ->
            read_len mnib (sk (si + 2)) = Some (ml, sk si') ->
            post_match f si ((m_dict;; m_exp (m_dbl fuel;; m_fin)) S)).
  { intros S ml si' FS ZS HSo HSm Hml HSsi Hsi' Hrl.
    rewrite Hrl in HR.
    pose proof (copy_spec fuel S rout rest FS ZS ltac:(rewrite HSo; lia) ltac:(rewrite HSm; lia) Hfuel2) as HC.
    unfold post_copy in HC. cbv zeta in HC. rewrite HSo, HSm in HC. unfold kl in HC.
    destruct ((m_dict;; m_exp (m_dbl fuel;; m_fin)) S) as [s2|s2|s2|s2|s2|]; try contradiction.
    - destruct HC as (F2 & Hsi2 & r & t0 & Hcm & Z2 & Hlr). rewrite Hcm in HR. cbn [post_match].
      split; [exact F2|]. split; [lia|]. exists r, t0. split; [exact Z2|]. rewrite HR, Hsi2, HSsi.
      destruct Z2 as (_ & Zd2 & _). rewrite Zd2, Hlr. reflexivity.
    - destruct HC as (F2 & Hsi2 & r & t0 & Hcm & Z2 & Hlr). rewrite Hcm in HR. cbn [post_match].
      split; [exact F2|]. split; [lia|]. exists r, t0. split; [exact Z2|]. rewrite HR, Hsi2, HSsi.
      destruct Z2 as (_ & Zd2 & _). rewrite Zd2, Hlr. reflexivity.
    - destruct HC as (F2 & Hcm). rewrite Hcm in HR. cbn [post_match]. split; [exact F2|exact HR]. }
  unfold m_loop. rewrite seq_ite. lz4block_state_simpl.
  destruct (mnib + 4 =? 19) eqn:E19.
  2:{ rewrite seq_skip_l. apply (Hcopy _ mnib (si + 2)); try reflexivity; try lia.
      - apply (frame_ext' _ _ F); reflexivity.
      - exact HZ.
      - unfold read_len. replace (mnib =? 15) with false by lia. reflexivity. }
  (* extension loop *)
  match goal with |- post_match _ _ (GoT.seq _ _ ?S) => set (S1 := S) end.
  assert (F1 : frame S1) by (apply (frame_ext' _ _ F); reflexivity).
  pose proof (mloop_spec fuel S1 F1 ltac:(unfold S1; lz4block_state_simpl; fold si; lia) ltac:(unfold S1; lz4block_state_simpl; lia)
                ltac:(unfold S1; lz4block_state_simpl; fold si; lia)) as HL.
  unfold GoT.seq at 1.
  destruct (loop fuel (fun _ : state => true) m_loop_body skip S1) as [s1|s1|s1|s1|s1|]; cbn [post_mloop] in HL; try contradiction.
  - destruct HL as (v & si' & x' & Hre & Hsi' & Hv & ->).
    unfold S1 in Hre, Hsi', Hv. st_in Hre. st_in Hsi'. st_in Hv. fold si in Hre, Hsi'.
    replace (mnib + 4) with (15 + 4) in Hre by lia. rewrite read_ext_shift in Hre.
    destruct (read_ext (sk (si + 2)) 15) as [[ml r]|] eqn:Ere; [|discriminate].
    inversion Hre; subst v r. 
    apply (Hcopy _ ml si'); try reflexivity; try lia; try exact HZ; try (apply (frame_ext' _ _ F); reflexivity).
    unfold read_len. replace (mnib =? 15) with true by lia. exact Ere.
  - destruct HL as (Fs & Hret & Hbig). cbn [post_match]. split; [exact Fs|]. split; [exact Hret|].
    unfold S1 in Hbig. st_in Hbig. fold si in Hbig. rewrite HR.
    unfold read_len. replace (mnib =? 15) with true by lia.
    destruct (read_ext (sk (si + 2)) 15) as [[ml r]|] eqn:Ere; [|reflexivity].
    specialize (Hbig (ml + 4) r). replace (mnib + 4) with (15 + 4) in Hbig by lia. rewrite read_ext_shift, Ere in Hbig.
    specialize (Hbig eq_refl).
    pose proof (copy_match_p_ok dict rout rest off (ml + 4) ltac:(lia) ltac:(lia)) as Hok.
    destruct (copy_match_p dict (len dict) rout rest (len rout) (len rest) off (ml + 4)) as [[r0 t0]|]; [|reflexivity].
    destruct Hok as (_ & Hle & _). lia.
  - destruct HL as (Fs & Hnone). cbn [post_match]. split; [exact Fs|].
    unfold S1 in Hnone. st_in Hnone. fold si in Hnone. rewrite HR.
    unfold read_len. replace (mnib =? 15) with true by lia.
    replace (mnib + 4) with (15 + 4) in Hnone by lia. rewrite read_ext_shift in Hnone.
    destruct (read_ext (sk (si + 2)) 15) as [[ml r]|]; [discriminate|reflexivity].
Qed.

(* ---------------- di beyond len(dst) after the first shortcut: every continuation fails ---------------- *)
Definition post_bad (o : outcome state) : Prop :=
  match o with Ret s' => frame s' /\ decodeBlock_ret s' = -2 | Pan s' => frame s' | _ => False end.

Lemma bad_copy fuel s : frame s -> dl < decodeBlock_di s < 4611686018427387920 ->
  0 < decodeBlock_offset_1 s < 65536 -> 0 < decodeBlock_mLen_1 s < 9223372036854775808 -> (65 <= fuel)%nat ->
  post_bad ((m_dict ;; m_exp (m_dbl fuel ;; m_fin)) s).
Proof.
  intros F Hdi Hoff HmL Hfuel.
  set (di := decodeBlock_di s) in *. set (off := decodeBlock_offset_1 s) in *. set (mLen := decodeBlock_mLen_1 s) in *.
  pose proof (len_nonneg dst0) as Hdl0. fold dl in Hdl0.
  assert (Hex : forall S, frame S -> decodeBlock_di S = di -> decodeBlock_offset_1 S = off -> decodeBlock_mLen_1 S = mLen ->
             off <= di -> post_bad (m_exp (m_dbl fuel ;; m_fin) S)).
  { intros S FS HSd HSo HSm Hge.
    unfold m_exp. rewrite seq_guard. stp FS. rewrite HSd, HSo. rewrite (wu64_id (di - off)) by lia.
    set (e := di - off).
    destruct ((0 <=? e) && (e <=? dl) && (dl <=? dl) && (dl <=? dl)) eqn:Eg; [|exact FS].
    lz4block_steps. stp FS. rewrite HSd, HSo. rewrite (wu64_id (di - off)) by lia. fold e. rewrite Z.add_0_l.
    set (S1 := set_decodeBlock_expanded _ S).
    assert (F1 : frame S1) by (apply (frame_ext' _ _ FS); reflexivity).
    assert (Hexp : decodeBlock_expanded S1 = mkslice false L_decodeBlock_dst e (dl - e) (dl - e)) by reflexivity.
    unfold m_dbl. rewrite seq_ite. change (decodeBlock_offset_1 S1) with (decodeBlock_offset_1 S).
    change (decodeBlock_mLen_1 S1) with (decodeBlock_mLen_1 S). rewrite HSo, HSm.
    destruct (off <? mLen) eqn:Eo.
    2:{ rewrite seq_skip_l. unfold m_fin. unfold guard. stp F1.
        change (decodeBlock_di S1) with (decodeBlock_di S). change (decodeBlock_mLen_1 S1) with (decodeBlock_mLen_1 S).
        rewrite HSd, HSm. rewrite (wu64_id (di + mLen)) by lia.
        replace ((0 <=? di) && (di <=? di + mLen) && (di + mLen <=? dl) && (dl <=? dl)) with false by lia.
        cbn [andb]. exact F1. }
    subst S1.
    rewrite !seq_assoc. rewrite seq_guard. lz4block_state_simpl. rewrite HSo.
    replace (negb (off =? 0)) with true by lia.
    repeat (rewrite ?seq_assoc; got_step; lz4block_state_simpl). rewrite ?seq_assoc. rewrite HSo, HSm.
    set (btc := off * (mLen / off)).
    assert (Hbtc : 0 < btc <= mLen) by (unfold btc; lia).
    rewrite (wu64_id btc) by lia.
    match goal with |- context [GoT.seq (loop fuel ?c m_dbl_body m_dbl_post) ?k ?S'] =>
      set (S2 := S'); change (loop fuel c m_dbl_body m_dbl_post) with (dbl_loop fuel) end.
    assert (F2 : frame S2) by (apply (frame_ext' _ _ FS); reflexivity).
    destruct (fr_mdst _ FS) as (D & HD & HlD).
    set (A := firstn (Z.to_nat e) D). set (E0 := skipn (Z.to_nat e) D).
    assert (HlA : len A = e) by (unfold A, len; rewrite firstn_length; unfold len in *; lia).
    assert (HlE0 : len E0 = dl - e) by (unfold E0, len; rewrite skipn_length; unfold len in *; lia).
    assert (Hmem2 : mem_decodeBlock_dst S2 = A ++ E0 ++ dst_spare).
    { change (mem_decodeBlock_dst S2) with (mem_decodeBlock_dst S). rewrite HD. unfold A, E0. rewrite app_assoc, firstn_skipn. reflexivity. }
    pose proof (dbl_spec fuel S2 A E0 e off btc F2 Hexp ltac:(lia) HlA HlE0 Hmem2 HSo Hoff eq_refl ltac:(lia) eq_refl Hfuel) as HDB.
    unfold GoT.seq at 1.
    destruct (dbl_loop fuel S2) as [s3|s3|s3|s3|s3|]; cbn [post_dbl] in HDB; try contradiction.
    2:{ destruct HDB as (F3 & _). exact F3. }
    destruct HDB as (E1 & -> & _ & _ & _ & HlE1 & _).
    subst S2. repeat (rewrite ?seq_assoc; got_step; lz4block_state_simpl). rewrite HSd, HSm.
    rewrite (wu64_id (di + btc)) by lia. rewrite (wu64_id (mLen - btc)) by lia.
    unfold m_fin. unfold guard. lz4block_state_simpl. fr_rw FS. sl_unf.
    rewrite (wu64_id (di + btc + (mLen - btc))) by lia.
    replace ((0 <=? di + btc) && (di + btc <=? di + btc + (mLen - btc)) && (di + btc + (mLen - btc) <=? dl) && (dl <=? dl)) with false by lia.
    cbn [andb].
    apply (frame_ext _ _ FS); try reflexivity. lz4block_state_simpl. exists (A ++ E1). rewrite <- app_assoc.
    split; [reflexivity|]. rewrite len_app. unfold len in *. lia. }
  unfold m_dict. rewrite seq_ite. fold di off.
  destruct (di <? off) eqn:E0.
  2:{ rewrite seq_skip_l. apply Hex; try reflexivity; [exact F|lia]. }
  rewrite !seq_assoc. rewrite seq_guard.
  match goal with |- post_bad (if ?c then _ else _) => destruct c; [|exact F] end.
  repeat (rewrite ?seq_assoc; got_step; lz4block_state_simpl). rewrite ?seq_assoc.
  rewrite seq_guard. stp F. fold di mLen. rewrite (wu64_id (di + mLen)) by lia.
  replace ((0 <=? di) && (di <=? di + mLen) && (di + mLen <=? dl) && (dl <=? dl)) with false by lia.
  apply (frame_ext' _ _ F); reflexivity.
Qed.

Lemma match_bad fuel s : frame s -> dl < decodeBlock_di s < 4611686018427387920 ->
  0 <= decodeBlock_b s < 256 -> 0 <= decodeBlock_si s -> decodeBlock_si s + 2 <= sl ->
  (Z.to_nat (sl - decodeBlock_si s) < fuel)%nat -> (65 <= fuel)%nat ->
  post_bad (p_match fuel s).
Proof.
  intros F Hdi Hb Hsi0 Hsi Hfuel Hfuel2.
  set (si := decodeBlock_si s) in *. set (mnib := decodeBlock_b s mod 16) in *.
  assert (Hmn : 0 <= mnib < 16) by (unfold mnib; lia).
  unfold p_match, m_A. lz4block_steps. rewrite land15. fold mnib si.
  rewrite seq_ite. stp F. fold si. rewrite (wu64_id sl) by lia.
  replace ((si =? sl) && (mnib =? 0)) with false by lia.
  ite_step. fr_rw F. unfold ssrc. cbn [s_len]. fold si. rewrite (wu64_id sl) by lia.
  replace (sl <=? si) with false by lia.
  rewrite seq_skip_l. rewrite seq_guard. stp F. fold si.
  replace ((0 <=? si) && (si <=? sl) && (sl <=? sl) && (sl <=? sl)) with true by lia.
  lz4block_steps. stp F. fold si mnib.
  erewrite seq_call_Ret; [|apply u16_eq; lz4block_state_simpl; sl_unf; lia].
  lz4block_steps. stp F. rewrite Z.add_0_l. rewrite !znth_app1 by (fold sl; lia).
  pose proof (src_byte si ltac:(lia)) as Ho1. pose proof (src_byte (si + 1) ltac:(lia)) as Ho2.
  rewrite Z.add_0_r.
  set (off := znth src si + 256 * znth src (si + 1)) in *.
  rewrite seq_ite. lz4block_state_simpl.
  destruct (off =? 0) eqn:Eoff.
  { rewrite seq_ret_with. cbn [post_bad]. split; [apply (frame_ext' _ _ F); reflexivity|reflexivity]. }
  rewrite seq_skip_l. lz4block_steps. fold si mnib. rewrite (wu64_id (si + 2)) by lia. rewrite (wu64_id (mnib + 4)) by lia.
  unfold m_loop. rewrite seq_ite. lz4block_state_simpl.
  destruct (mnib + 4 =? 19) eqn:E19.
  2:{ rewrite seq_skip_l. apply bad_copy; try exact Hfuel2; lz4block_state_simpl; try lia.
      apply (frame_ext' _ _ F); reflexivity. }
  match goal with |- post_bad (GoT.seq _ _ ?S) => set (S1 := S) end.
  assert (F1 : frame S1) by (apply (frame_ext' _ _ F); reflexivity).
  pose proof (mloop_spec fuel S1 F1 ltac:(unfold S1; lz4block_state_simpl; fold si; lia) ltac:(unfold S1; lz4block_state_simpl; lia)
                ltac:(unfold S1; lz4block_state_simpl; fold si; lia)) as HL.
  unfold GoT.seq at 1.
  destruct (loop fuel (fun _ : state => true) m_loop_body skip S1) as [s1|s1|s1|s1|s1|]; cbn [post_mloop] in HL; try contradiction.
  - destruct HL as (v & si' & x' & Hre & Hsi' & Hv & ->).
    unfold S1 in Hv. st_in Hv.
    apply bad_copy; try exact Hfuel2; unfold S1; lz4block_state_simpl; try lia.
    apply (frame_ext' _ _ F); reflexivity.
  - destruct HL as (Fs & Hret & _). cbn [post_bad]. split; [exact Fs|exact Hret].
  - destruct HL as (Fs & _). exact Fs.
Qed.

(* ---------------- the main loop ---------------- *)
Definition Inv (s : state) : Prop :=
  frame s /\ 0 <= decodeBlock_si s <= sl /\
  exists rout rest f, zip s rout rest /\ (Z.to_nat (sl - decodeBlock_si s) < f)%nat /\
     RES = dec_p dict kl dl f (sk (decodeBlock_si s)) rout rest (decodeBlock_di s).

Definition Qmain (o : outcome state) : Prop :=
  match o with
  | Fall s' => frame s' /\ 0 <= decodeBlock_di s' <= dl /\
       RES = DOk (decodeBlock_di s') (firstn (Z.to_nat dl) (mem_decodeBlock_dst s'))
  | Ret s' => ERRR s' | Pan s' => ERR s' | _ => False end.

Lemma body_spec fuel s : Inv s -> decodeBlock_si s < sl -> (Z.to_nat (sl - decodeBlock_si s) < fuel)%nat -> (65 <= fuel)%nat ->
  post (fun s1 => Inv s1 /\ decodeBlock_si s < decodeBlock_si s1) (fun s1 => Qmain (Fall s1))
       (fun s1 => Inv s1 /\ decodeBlock_si s < decodeBlock_si s1) (p_body fuel s).
Proof.
  intros (F & Hsi & rout & rest & f & HZ & Hf & HR) Hlt Hfuel Hfuel2.
  unfold p_body. apply tok_spec; [exact F|lia|].
  set (si := decodeBlock_si s) in *. set (b := znth src si).
  pose proof (src_byte si ltac:(lia)) as Hb. fold b in Hb.
  set (S1 := set_decodeBlock_lLen _ _).
  assert (F1 : frame S1) by (apply (frame_ext' _ _ F); reflexivity).
  assert (Z1 : zip S1 rout rest) by exact HZ.
  destruct f as [|f]; [lia|].
  assert (Hsk : sk si = b :: sk (si + 1)) by (apply skipn_znth; fold sl; lia).
  rewrite Hsk in HR.
  pose proof (lits_spec fuel f S1 rout rest F1 Z1 Hb eq_refl ltac:(unfold S1; lz4block_state_simpl; lia)
                ltac:(unfold S1; lz4block_state_simpl; lia) HR) as HL.
  change (decodeBlock_b S1) with b in HL. change (decodeBlock_si S1) with (si + 1) in HL.
  unfold GoT.seq at 1.
  destruct (p_lits fuel S1) as [s2|s2|s2|s2|s2|]; cbn [post_lits] in HL; try contradiction.
  - destruct HL as (F2 & Hb2 & Hsi2 & [(r2 & t2 & Z2 & HR2)|(Hbad & HRe & Hsi2')]).
    + pose proof (match_spec fuel f s2 r2 t2 F2 Z2 ltac:(rewrite Hb2; exact Hb) ltac:(lia) ltac:(lia) Hfuel2
                    ltac:(rewrite Hb2; exact HR2)) as HM.
      destruct (p_match fuel s2) as [s3|s3|s3|s3|s3|]; cbn [post_match post] in HM |- *; try contradiction; try exact HM.
      * destruct HM as (F3 & Hsi3 & r3 & t3 & Z3 & HR3). split; [|lia]. split; [exact F3|]. split; [lia|].
        exists r3, t3, f. split; [exact Z3|]. split; [lia|exact HR3].
      * destruct HM as (F3 & Hsi3 & r3 & t3 & Z3 & HR3). split; [|lia]. split; [exact F3|]. split; [lia|].
        exists r3, t3, f. split; [exact Z3|]. split; [lia|exact HR3].
    + pose proof (match_bad fuel s2 F2 Hbad ltac:(rewrite Hb2; exact Hb) ltac:(lia) Hsi2' ltac:(lia) Hfuel2) as HM.
      destruct (p_match fuel s2) as [s3|s3|s3|s3|s3|]; cbn [post_bad post] in HM |- *; try contradiction.
      * destruct HM as (F3 & Hret). split; [exact F3|]. split; [exact Hret|exact HRe].
      * split; [exact HM|exact HRe].
  - cbn [post]. destruct HL as (F2 & Hsi2 & r2 & t2 & Z2 & HR2). split; [|lia]. split; [exact F2|]. split; [lia|].
    exists r2, t2, f. split; [exact Z2|]. split; [lia|exact HR2].
  - exact HL.
  - exact HL.
Qed.

Lemma main_spec fuel s : Inv s -> (Z.to_nat (sl - decodeBlock_si s) < fuel)%nat -> (65 <= fuel)%nat ->
  Qmain (p_main fuel s).
Proof.
  intros HI Hfuel Hfuel2. unfold p_main.
  apply (loop_inv (fun s1 => Inv s1 /\ decodeBlock_si s <= decodeBlock_si s1) Qmain (fun s1 => Z.to_nat (sl - decodeBlock_si s1))).
  - intros s1 ((F & Hsi & rout & rest & f & HZ & Hf & HR) & _) Hc. cbv beta in Hc. rewrite (fr_src _ F) in Hc. unfold ssrc in Hc. cbn [s_len] in Hc.
    assert (Hsl0 : 0 <= sl) by apply len_nonneg. rewrite (wu64_id sl) in Hc by lia.
    cbn [Qmain]. destruct HZ as (Zm & Zd & Zl).
    pose proof (len_nonneg rout) as Hr. pose proof (len_nonneg rest) as Ht.
    split; [exact F|]. split; [lia|].
    rewrite HR. replace (sk (decodeBlock_si s1)) with (@nil Z) by (unfold sk, sl, len in *; rewrite skipn_all2 by lia; reflexivity).
    destruct f as [|f]; [lia|]. cbn [dec_p]. f_equal. rewrite rev_append_rev, Zm.
    rewrite app_assoc, firstn_app. rewrite firstn_all2 by (rewrite app_length, rev_length; unfold len in *; lia).
    replace (Z.to_nat dl - length (rev rout ++ rest))%nat with O by (rewrite app_length, rev_length; unfold len in *; lia).
    cbn [firstn]. rewrite app_nil_r. reflexivity.
  - intros s1 (HI1 & Hle) Hc. pose proof HI1 as (F & Hsi & _). cbv beta in Hc. rewrite (fr_src _ F) in Hc. unfold ssrc in Hc. cbn [s_len] in Hc.
    assert (Hsl0 : 0 <= sl) by apply len_nonneg. rewrite (wu64_id sl) in Hc by lia.
    pose proof (body_spec fuel s1 HI1 ltac:(lia) ltac:(lia) Hfuel2) as HB.
    destruct (p_body fuel s1) as [s2|s2|s2|s2|s2|]; cbn [post] in HB; try contradiction; try exact HB.
    + unfold skip. destruct HB as (HI2 & Hlt). destruct HI2 as (F2 & Hsi2 & HI2). split; [split; [split; [exact F2|split; [exact Hsi2|exact HI2]]|lia]|lia].
    + unfold skip. destruct HB as (HI2 & Hlt). destruct HI2 as (F2 & Hsi2 & HI2). split; [split; [split; [exact F2|split; [exact Hsi2|exact HI2]]|lia]|lia].
  - split; [exact HI|lia].
  - exact Hfuel.
Qed.

(* ---------------- the function ---------------- *)
Theorem decodeBlock_sim fuel s0 : (length src < fuel)%nat -> (65 <= fuel)%nat ->
  exists s', lz4block_decodeBlock fuel (init_lz4block_decodeBlock_fresh dst0 dst_spare src src_spare dict dict_spare s0) = Ret s'
    /\ match decode_portable src dst0 dict with
       | DOk n d => decodeBlock_ret s' = n /\ firstn (length dst0) (mem_decodeBlock_dst s') = d
       | DErr => decodeBlock_ret s' = -2
       end
    /\ length (mem_decodeBlock_dst s') = (length dst0 + length dst_spare)%nat
    /\ skipn (length dst0) (mem_decodeBlock_dst s') = dst_spare
    /\ mem_decodeBlock_src s' = src ++ src_spare /\ mem_decodeBlock_dict s' = dict ++ dict_spare.
Proof.
  intros Hfuel Hfuel2. rewrite decodeBlock_decomp. unfold p_all, init_lz4block_decodeBlock_fresh.
  fold RES.
  assert (Hdl0 : 0 <= dl) by apply len_nonneg. assert (Hsl0 : 0 <= sl) by apply len_nonneg.
  pose proof (zlen_nonneg dst_spare) as Hsp1. pose proof (zlen_nonneg src_spare) as Hsp2.
  assert (Hfin : forall s', frame s' -> length (mem_decodeBlock_dst s') = (length dst0 + length dst_spare)%nat
      /\ skipn (length dst0) (mem_decodeBlock_dst s') = dst_spare
      /\ mem_decodeBlock_src s' = src ++ src_spare /\ mem_decodeBlock_dict s' = dict ++ dict_spare).
  { intros s' [F1 F2 F3 F4 F5 (D & HD & HlD)]. split; [rewrite HD, app_length; unfold dl, len in *; lia|]. split; [|split; assumption].
    rewrite HD. rewrite skipn_app. replace (length dst0 - length D)%nat with O by (unfold dl, len in *; lia).
    rewrite skipn_all2 by (unfold dl, len in *; lia). reflexivity. }
  rewrite seq_guard. lz4block_state_simpl. sl_unf. change (zlen dst0) with dl.
  replace ((0 <=? 0) && (0 <=? dl) && (dl <=? dl) && (dl <=? dl + zlen dst_spare)) with true by lia.
  lz4block_steps. rewrite seq_guard. lz4block_state_simpl. sl_unf. change (zlen src) with sl.
  replace ((0 <=? 0) && (0 <=? sl) && (sl <=? sl) && (sl <=? sl + zlen src_spare)) with true by lia.
  lz4block_steps. sl_unf. change (zlen src) with sl. change (zlen dst0) with dl. change (zlen dict) with kl.
  rewrite !Z.sub_0_r, !Z.add_0_l. fold sdst ssrc sdict.
  match goal with |- context [GoT.seq _ _ ?S] => set (S0 := S) end.
  assert (F0 : frame S0).
  { constructor; try reflexivity. unfold S0. lz4block_state_simpl. exists dst0. split; reflexivity. }
  rewrite seq_ite. unfold S0 at 1. lz4block_state_simpl. unfold ssrc at 1. cbn [s_len].
  destruct (sl =? 0) eqn:Es.
  { rewrite seq_ret_with. eexists. split; [reflexivity|].
    assert (E : src = []) by (apply len_zero_nil; fold sl; lia).
    assert (HRE : RES = DErr) by (unfold RES; rewrite E; reflexivity). rewrite HRE.
    split; [reflexivity|]. apply Hfin. apply (frame_ext' _ _ F0); reflexivity. }
  rewrite seq_skip_l. unfold recover_with, p_inner. rewrite seq_upd.
  set (S1 := set_decodeBlock_di 0 (set_decodeBlock_si 0 S0)).
  assert (F1 : frame S1) by (apply (frame_ext' _ _ F0); reflexivity).
  assert (I1 : Inv S1).
  { split; [exact F1|]. split; [unfold S1; lz4block_state_simpl; lia|].
    exists [], dst0, (S (length src)). split; [|split].
    - unfold zip, S1, S0. lz4block_state_simpl. split; [reflexivity|]. split; [reflexivity|]. rewrite len_nil. reflexivity.
    - unfold S1. lz4block_state_simpl. unfold sl, len. lia.
    - unfold S1. lz4block_state_simpl. unfold sk. cbn [Z.to_nat skipn]. unfold RES.
      apply decode_portable_nonempty. intros E. unfold sl in Es. rewrite E in Es. cbn in Es. discriminate. }
  pose proof (main_spec fuel S1 I1 ltac:(unfold S1; lz4block_state_simpl; unfold sl, len; lia) Hfuel2) as HM.
  unfold GoT.seq at 1.
  destruct (p_main fuel S1) as [s2|s2|s2|s2|s2|]; cbn [Qmain] in HM; try contradiction.
  - destruct HM as (F2 & Hdi & HR). rewrite ret_with_eq. eexists. split; [reflexivity|]. rewrite HR.
    split; [|apply Hfin; apply (frame_ext' _ _ F2); reflexivity].
    lz4block_state_simpl. split; [apply wi64_id; lia|]. f_equal. unfold dl, len. lia.
  - destruct HM as (F2 & Hret & HR). eexists. split; [reflexivity|]. rewrite HR. split; [exact Hret|apply Hfin, F2].
  - destruct HM as (F2 & HR). eexists. split; [reflexivity|]. rewrite HR. split; [reflexivity|].
    apply Hfin. apply (frame_ext' _ _ F2); reflexivity.
Qed.
End Refine.

(* ------------------------------------------------------------------------------------------ *)
(* The theorem, closed                                                                         *)
(* ------------------------------------------------------------------------------------------ *)
Theorem decodeBlock_refines : forall (src dst0 dict src_spare dst_spare dict_spare : list Z) (s0 : state) (fuel : nat),
  bytes src -> len src < 2^62 -> len dst0 < 2^62 -> len dict < 2^62 ->
  (length src < fuel)%nat -> (65 <= fuel)%nat ->
  exists s', lz4block_decodeBlock fuel (init_lz4block_decodeBlock_fresh dst0 dst_spare src src_spare dict dict_spare s0) = Ret s'
    /\ match decode_portable src dst0 dict with
       | DOk n d => decodeBlock_ret s' = n /\ firstn (length dst0) (mem_decodeBlock_dst s') = d
       | DErr => decodeBlock_ret s' = -2
       end
    /\ length (mem_decodeBlock_dst s') = (length dst0 + length dst_spare)%nat
    /\ skipn (length dst0) (mem_decodeBlock_dst s') = dst_spare
    /\ mem_decodeBlock_src s' = src ++ src_spare /\ mem_decodeBlock_dict s' = dict ++ dict_spare.
Proof.
  intros src dst0 dict src_spare dst_spare dict_spare s0 fuel Hb Hs Hd Hk Hf1 Hf2.
  rewrite two62 in Hs, Hd, Hk.
  apply decodeBlock_sim; assumption.
Qed.

(* the same with the single fuel bound of the task statement *)
Corollary decodeBlock_refines_fuel : forall (src dst0 dict src_spare dst_spare dict_spare : list Z) (s0 : state) (fuel : nat),
  bytes src -> len src < 2^62 -> len dst0 < 2^62 -> len dict < 2^62 ->
  (length src + 65 <= fuel)%nat ->
  exists s', lz4block_decodeBlock fuel (init_lz4block_decodeBlock_fresh dst0 dst_spare src src_spare dict dict_spare s0) = Ret s'
    /\ match decode_portable src dst0 dict with
       | DOk n d => decodeBlock_ret s' = n /\ firstn (length dst0) (mem_decodeBlock_dst s') = d
       | DErr => decodeBlock_ret s' = -2
       end
    /\ length (mem_decodeBlock_dst s') = (length dst0 + length dst_spare)%nat
    /\ skipn (length dst0) (mem_decodeBlock_dst s') = dst_spare
    /\ mem_decodeBlock_src s' = src ++ src_spare /\ mem_decodeBlock_dict s' = dict ++ dict_spare.
Proof. intros. apply decodeBlock_refines; try assumption; lia. Qed.

Print Assumptions decodeBlock_refines.
