(* HeaderProofs.v — proofs of the statements of HeaderSpec.v (C19: frame header acceptance is exact). *)
From Coq Require Import ZifyBool.
From LZ4V Require Import Base GenBlock GenStream GenLz4 XXH32 FrameImpl Writer Reader HeaderSpec.

Ltac Zify.zify_post_hook ::= Z.div_mod_to_equations.

(* ---------- words and bytes ---------- *)

Lemma le32_roundtrip m : 0 <= m < 4294967296 ->
  le32 (m mod 256) ((m / 256) mod 256) ((m / 65536) mod 256) ((m / 16777216) mod 256) = m.
Proof. intros Hm. unfold le32. lia. Qed.

Lemma u32_of_le32_bytes m tl : 0 <= m < 4294967296 -> u32_of (le32_bytes m ++ tl) = m.
Proof. intros Hm. unfold u32_of, le32_bytes. cbn [app nth]. apply le32_roundtrip; exact Hm. Qed.

Lemma shiftr3 x : Z.shiftr x 3 = x / 8.
Proof. rewrite Z.shiftr_div_pow2 by lia. reflexivity. Qed.
Lemma shiftr4 x : Z.shiftr x 4 = x / 16.
Proof. rewrite Z.shiftr_div_pow2 by lia. reflexivity. Qed.
Lemma shiftr12 x : Z.shiftr x 12 = x / 4096.
Proof. rewrite Z.shiftr_div_pow2 by lia. reflexivity. Qed.
Lemma land1 x : Z.land x 1 = x mod 2.
Proof. change 1 with (Z.ones 1) at 1. rewrite Z.land_ones by lia. reflexivity. Qed.
Lemma land7 x : Z.land x 7 = x mod 8.
Proof. change 7 with (Z.ones 3). rewrite Z.land_ones by lia. reflexivity. Qed.

(* the Size getter on the 16-bit flags word is bit 3 of the first descriptor byte *)
Lemma flags_size d0 d1 : is_byte d0 -> is_byte d1 ->
  lz4stream_DescriptorFlags_Size (d0 + 256 * d1) = Z.odd (d0 / 8).
Proof.
  intros H0 H1. unfold is_byte in *. unfold lz4stream_DescriptorFlags_Size.
  rewrite shiftr3, land1.
  pose proof (Zmod_odd (d0 / 8)) as Ho.
  assert (He : ((d0 + 256 * d1) / 8) mod 2 = (d0 / 8) mod 2) by lia.
  rewrite He. destruct (Z.odd (d0 / 8)); rewrite Ho; reflexivity.
Qed.

(* the BlockSizeIndex getter is bits 4..6 of the second descriptor byte *)
Lemma flags_bsi d0 d1 : is_byte d0 -> is_byte d1 ->
  lz4stream_DescriptorFlags_BlockSizeIndex (d0 + 256 * d1) = (d1 / 16) mod 8.
Proof.
  intros H0 H1. unfold is_byte in *. unfold lz4stream_DescriptorFlags_BlockSizeIndex.
  rewrite shiftr12, land7. lia.
Qed.

Lemma bsi_valid v : 0 <= v < 8 -> lz4block_BlockSizeIndex_IsValid v = (4 <=? v).
Proof.
  intros Hv. unfold lz4block_BlockSizeIndex_IsValid.
  destruct (v =? 4) eqn:E4; destruct (v =? 5) eqn:E5; destruct (v =? 6) eqn:E6; destruct (v =? 7) eqn:E7;
    cbn [orb]; lia.
Qed.

Lemma flags_bsi_valid d0 d1 : is_byte d0 -> is_byte d1 ->
  lz4block_BlockSizeIndex_IsValid (lz4stream_DescriptorFlags_BlockSizeIndex (d0 + 256 * d1)) = (4 <=? (d1 / 16) mod 8).
Proof.
  intros H0 H1. rewrite flags_bsi by assumption. apply bsi_valid. unfold is_byte in *. lia.
Qed.

(* ---------- reads on explicit prefixes ---------- *)

Lemma take_upto_le0 n l acc : n <= 0 -> take_upto n l acc = (rrev acc, l).
Proof. intros Hn. destruct l as [|x l]; cbn [take_upto]; destruct (n <=? 0) eqn:E; try reflexivity; lia. Qed.

Lemma take_upto_cons n x l acc : 0 < n -> take_upto n (x :: l) acc = take_upto (n - 1) l (x :: acc).
Proof. intros Hn. cbn [take_upto]. destruct (n <=? 0) eqn:E; [lia|reflexivity]. Qed.

Lemma read_full_3 x y z r c k :
  read_full (mksrc (x :: y :: z :: r) c 0 k) 3 = ([x; y; z], ENil, mksrc r (c + 1) 0 (k + 3)).
Proof.
  unfold read_full. cbn [s_rem s_calls s_fail s_consumed].
  rewrite !take_upto_cons by lia. rewrite take_upto_le0 by lia. reflexivity.
Qed.
Lemma read_full_4 x y z t r c k :
  read_full (mksrc (x :: y :: z :: t :: r) c 0 k) 4 = ([x; y; z; t], ENil, mksrc r (c + 1) 0 (k + 4)).
Proof.
  unfold read_full. cbn [s_rem s_calls s_fail s_consumed].
  rewrite !take_upto_cons by lia. rewrite take_upto_le0 by lia. reflexivity.
Qed.
Lemma read_full_8 a b c' d e f g h r c k :
  read_full (mksrc (a :: b :: c' :: d :: e :: f :: g :: h :: r) c 0 k) 8
  = ([a; b; c'; d; e; f; g; h], ENil, mksrc r (c + 1) 0 (k + 8)).
Proof.
  unfold read_full. cbn [s_rem s_calls s_fail s_consumed].
  rewrite !take_upto_cons by lia. rewrite take_upto_le0 by lia. reflexivity.
Qed.

Lemma read_u32_word m tl c k : 0 <= m < 4294967296 ->
  read_u32 (mksrc (le32_bytes m ++ tl) c 0 k) = (m, ENil, mksrc tl (c + 1) 0 (k + 4)).
Proof.
  intros Hm. unfold read_u32. unfold le32_bytes at 1. cbn [app]. rewrite read_full_4.
  pose proof (u32_of_le32_bytes m [] Hm) as Hu. unfold le32_bytes in Hu. cbn [app] in Hu. rewrite Hu. reflexivity.
Qed.

Lemma parse_headers_S f s : parse_headers (S f) s =
  let '(m, e, s1) := read_u32 s in
  match e with
  | ENil =>
    if (m =? lz4stream_frameMagic) || (m =? lz4stream_frameMagicLegacy) then
      if m =? lz4stream_frameMagicLegacy then
        (ENil, s1, (m, lz4stream_DescriptorFlags_BlockSizeIndexSet 0 (lz4block_Index lz4block_Block8Mb), 0))
      else
        let '(b3, e3, s2) := read_full s1 3 in
        match e3 with
        | ENil =>
          let fl := nth 0 b3 0 + 256 * nth 1 b3 0 in
          if lz4stream_DescriptorFlags_Size fl then
            let '(b8, e8, s3) := read_full s2 8 in
            match e8 with
            | ENil =>
              let all := b3 ++ b8 in
              let csize := match FrameSpec_u64 (skipn 2 all) with Some v => v | None => 0 end in
              let cks := nth 10 all 0 in
              let desc := firstn 10 all in
              if cks =? (Z.shiftr (checksum_zero desc) 8) mod 256
              then if lz4block_BlockSizeIndex_IsValid (lz4stream_DescriptorFlags_BlockSizeIndex fl)
                   then (ENil, s3, (m, fl, csize)) else (EBlkSize, s3, (m, fl, csize))
              else (EHdrSum, s3, (m, fl, csize))
            | _ => (unexpected e8, s3, (m, fl, 0))
            end
          else
            let cks := nth 2 b3 0 in
            if cks =? (Z.shiftr (checksum_zero (firstn 2 b3)) 8) mod 256
            then if lz4block_BlockSizeIndex_IsValid (lz4stream_DescriptorFlags_BlockSizeIndex fl)
                 then (ENil, s2, (m, fl, 0)) else (EBlkSize, s2, (m, fl, 0))
            else (EHdrSum, s2, (m, fl, 0))
        | _ => (unexpected e3, s2, (m, 0, 0))
        end
    else if Z.shiftr m 4 =? Z.shiftr lz4stream_frameSkipMagic 4 then
      let '(skip, e2, s2) := read_u32 s1 in
      match e2 with
      | ENil =>
        let '(got, rest) := take_upto skip (s_rem s2) [] in
        let s3 := mksrc rest (s_calls s2 + 1) (s_fail s2) (s_consumed s2 + len got) in
        if len got =? skip then parse_headers f s3 else (EUEOF, s3, (m, 0, 0))
      | _ => (unexpected e2, s2, (m, 0, 0))
      end
    else (EBadFrame, s1, (m, 0, 0))
  | _ => (e, s1, (0, 0, 0))
  end.
Proof. reflexivity. Qed.

(* ---------- header_exact ---------- *)

Lemma magic_range : 0 <= lz4stream_frameMagic < 4294967296.
Proof. unfold lz4stream_frameMagic. lia. Qed.

Lemma ph_nosize d0 d1 sz cs rest fuel : is_byte d0 -> is_byte d1 -> Z.odd (d0 / 8) = false ->
  parse_headers (S fuel) (src_of (header_input d0 d1 sz cs rest)) =
  let fl := d0 + 256 * d1 in
  let s2 := mksrc rest (0 + 1 + 1) 0 (0 + 4 + 3) in
  if cs =? hc_of (desc_of d0 d1 sz)
  then if 4 <=? (d1 / 16) mod 8
       then (ENil, s2, (lz4stream_frameMagic, fl, 0)) else (EBlkSize, s2, (lz4stream_frameMagic, fl, 0))
  else (EHdrSum, s2, (lz4stream_frameMagic, fl, 0)).
Proof.
  intros H0 H1 Hodd. unfold header_input, desc_of, src_of, hc_of. rewrite Hodd.
  rewrite parse_headers_S. rewrite (read_u32_word _ _ _ _ magic_range).
  cbv beta iota. rewrite Z.eqb_refl. cbn [orb].
  change (lz4stream_frameMagic =? lz4stream_frameMagicLegacy) with false. cbv iota.
  cbn [app]. rewrite read_full_3. cbv beta iota zeta. cbn [nth firstn].
  rewrite (flags_size d0 d1 H0 H1), Hodd. cbv iota.
  rewrite (flags_bsi_valid d0 d1 H0 H1). reflexivity.
Qed.

Lemma ph_size d0 d1 a b c d e f g h cs rest fuel : is_byte d0 -> is_byte d1 -> Z.odd (d0 / 8) = true ->
  parse_headers (S fuel) (src_of (header_input d0 d1 [a; b; c; d; e; f; g; h] cs rest)) =
  let fl := d0 + 256 * d1 in
  let csize := le32 a b c d + 4294967296 * le32 e f g h in
  let s3 := mksrc rest (0 + 1 + 1 + 1) 0 (0 + 4 + 3 + 8) in
  if cs =? hc_of (desc_of d0 d1 [a; b; c; d; e; f; g; h])
  then if 4 <=? (d1 / 16) mod 8
       then (ENil, s3, (lz4stream_frameMagic, fl, csize)) else (EBlkSize, s3, (lz4stream_frameMagic, fl, csize))
  else (EHdrSum, s3, (lz4stream_frameMagic, fl, csize)).
Proof.
  intros H0 H1 Hodd. unfold header_input, desc_of, src_of, hc_of. rewrite Hodd.
  rewrite parse_headers_S. rewrite (read_u32_word _ _ _ _ magic_range).
  cbv beta iota. rewrite Z.eqb_refl. cbn [orb].
  change (lz4stream_frameMagic =? lz4stream_frameMagicLegacy) with false. cbv iota.
  cbn [app]. rewrite read_full_3. cbv beta iota zeta. cbn [nth].
  rewrite (flags_size d0 d1 H0 H1), Hodd. cbv iota.
  rewrite read_full_8. cbv beta iota zeta. cbn [app nth firstn skipn FrameSpec_u64].
  rewrite (flags_bsi_valid d0 d1 H0 H1). reflexivity.
Qed.

Theorem header_exact : header_exact_stmt.
Proof.
  unfold header_exact_stmt.
  intros d0 d1 sz cs rest fuel H0 H1 Hsz Hlen Hcs Hrest.
  destruct sz as [|a [|b [|c [|d [|e [|f [|g [|h [|x sz]]]]]]]]]; cbn [length] in Hlen; try discriminate Hlen.
  cbv zeta.
  destruct (Z.odd (d0 / 8)) eqn:Hodd.
  - rewrite (ph_size d0 d1 a b c d e f g h cs rest fuel H0 H1 Hodd). cbv zeta.
    destruct (cs =? hc_of (desc_of d0 d1 [a; b; c; d; e; f; g; h])) eqn:Hck.
    + destruct (4 <=? (d1 / 16) mod 8) eqn:Hbs.
      * split; [reflexivity|]. intros _. cbn [s_rem FrameSpec_u64]. repeat split; reflexivity.
      * split; [reflexivity|]. intros Habs; discriminate Habs.
    + split; [reflexivity|]. intros Habs; discriminate Habs.
  - rewrite (ph_nosize d0 d1 _ cs rest fuel H0 H1 Hodd). cbv zeta.
    destruct (cs =? hc_of (desc_of d0 d1 [a; b; c; d; e; f; g; h])) eqn:Hck.
    + destruct (4 <=? (d1 / 16) mod 8) eqn:Hbs.
      * split; [reflexivity|]. intros _. cbn [s_rem]. repeat split; reflexivity.
      * split; [reflexivity|]. intros Habs; discriminate Habs.
    + split; [reflexivity|]. intros Habs; discriminate Habs.
Qed.

(* ---------- header_badmagic ---------- *)

Lemma skip_test m : 0 <= m ->
  (Z.shiftr m 4 =? Z.shiftr lz4stream_frameSkipMagic 4) = ((407710288 <=? m) && (m <=? 407710303)).
Proof.
  intros Hm. rewrite !shiftr4. unfold lz4stream_frameSkipMagic.
  change (407710288 / 16) with 25481893. lia.
Qed.

Theorem header_badmagic : header_badmagic_stmt.
Proof.
  unfold header_badmagic_stmt.
  intros m rest fuel Hm Hrest Hnm Hnl Hns.
  unfold src_of. rewrite parse_headers_S. rewrite (read_u32_word _ _ _ _ Hm). cbv beta iota.
  destruct (m =? lz4stream_frameMagic) eqn:E1; [lia|].
  destruct (m =? lz4stream_frameMagicLegacy) eqn:E2; [lia|].
  cbn [orb]. rewrite skip_test by lia.
  destruct ((407710288 <=? m) && (m <=? 407710303)) eqn:E3; [lia|].
  reflexivity.
Qed.

(* ---------- header_skippable ---------- *)

Definition shift (dc dk : Z) (s : source) : source :=
  mksrc (s_rem s) (s_calls s + dc) (s_fail s) (s_consumed s + dk).

Lemma mksrc_eq r c c' fl k k' : c = c' -> k = k' -> mksrc r c fl k = mksrc r c' fl k'.
Proof. intros -> ->. reflexivity. Qed.

(* without fault injection, reads do not depend on the call and consumed counters *)
Lemma read_full_shift dc dk s n : s_fail s = 0 ->
  read_full (shift dc dk s) n =
  let '(b, e, s1) := read_full s n in (b, e, shift dc dk s1).
Proof.
  destruct s as [r c fl k]. cbn [s_fail]. intros ->.
  unfold read_full, shift. cbn [s_rem s_calls s_fail s_consumed].
  destruct (n <=? 0) eqn:En; [reflexivity|].
  change (0 <? 0) with false. cbn [andb].
  destruct r as [|x r]; [cbn [s_rem s_calls s_fail s_consumed]; f_equal; apply mksrc_eq; lia|].
  destruct (take_upto n (x :: r) []) as [got rest] eqn:Et.
  cbn [s_rem s_calls s_fail s_consumed].
  destruct (len got =? n) eqn:Eg; cbn [s_rem s_calls s_fail s_consumed]; (f_equal; apply mksrc_eq; lia).
Qed.

Lemma read_full_fail s n : s_fail (snd (read_full s n)) = s_fail s.
Proof.
  unfold read_full.
  destruct (n <=? 0); [reflexivity|].
  destruct ((0 <? s_fail s) && (s_fail s <=? s_calls s + 1)); [reflexivity|].
  destruct (s_rem s) as [|x r]; [reflexivity|].
  destruct (take_upto n (x :: r) []) as [got rest].
  destruct (len got =? n); [reflexivity|].
  destruct ((0 <? s_fail s) && (s_fail s <=? s_calls s + 1 + 1)); reflexivity.
Qed.

Lemma read_u32_shift dc dk s : s_fail s = 0 ->
  read_u32 (shift dc dk s) = let '(x, e, s1) := read_u32 s in (x, e, shift dc dk s1).
Proof.
  intros Hf. unfold read_u32. rewrite (read_full_shift dc dk s 4 Hf).
  destruct (read_full s 4) as [[b e] s1]. reflexivity.
Qed.

Lemma read_u32_fail s : s_fail (snd (read_u32 s)) = s_fail s.
Proof.
  unfold read_u32. pose proof (read_full_fail s 4) as H.
  destruct (read_full s 4) as [[b e] s1]. exact H.
Qed.

Lemma parse_headers_shift dc dk fuel : forall s, s_fail s = 0 ->
  parse_headers fuel (shift dc dk s) =
  let '(e, s', x) := parse_headers fuel s in (e, shift dc dk s', x).
Proof.
  induction fuel as [|f IH]; intros s Hf; [reflexivity|].
  rewrite !parse_headers_S.
  rewrite (read_u32_shift dc dk s Hf).
  pose proof (read_u32_fail s) as Hf1. rewrite Hf in Hf1.
  destruct (read_u32 s) as [[m e] s1]. cbn [snd] in Hf1.
  destruct e; try reflexivity.
  destruct ((m =? lz4stream_frameMagic) || (m =? lz4stream_frameMagicLegacy)).
  - destruct (m =? lz4stream_frameMagicLegacy); [reflexivity|].
    rewrite (read_full_shift dc dk s1 3 Hf1).
    pose proof (read_full_fail s1 3) as Hf2. rewrite Hf1 in Hf2.
    destruct (read_full s1 3) as [[b3 e3] s2]. cbn [snd] in Hf2.
    destruct e3; try reflexivity.
    cbv zeta.
    destruct (lz4stream_DescriptorFlags_Size (nth 0 b3 0 + 256 * nth 1 b3 0)).
    + rewrite (read_full_shift dc dk s2 8 Hf2).
      destruct (read_full s2 8) as [[b8 e8] s3].
      destruct e8; try reflexivity.
      destruct (nth 10 (b3 ++ b8) 0 =? Z.shiftr (checksum_zero (firstn 10 (b3 ++ b8))) 8 mod 256); [|reflexivity].
      destruct (lz4block_BlockSizeIndex_IsValid
                  (lz4stream_DescriptorFlags_BlockSizeIndex (nth 0 b3 0 + 256 * nth 1 b3 0))); reflexivity.
    + destruct (nth 2 b3 0 =? Z.shiftr (checksum_zero (firstn 2 b3)) 8 mod 256); [|reflexivity].
      destruct (lz4block_BlockSizeIndex_IsValid
                  (lz4stream_DescriptorFlags_BlockSizeIndex (nth 0 b3 0 + 256 * nth 1 b3 0))); reflexivity.
  - destruct (Z.shiftr m 4 =? Z.shiftr lz4stream_frameSkipMagic 4); [|reflexivity].
    rewrite (read_u32_shift dc dk s1 Hf1).
    pose proof (read_u32_fail s1) as Hf2. rewrite Hf1 in Hf2.
    destruct (read_u32 s1) as [[skip e2] s2]. cbn [snd] in Hf2.
    destruct e2; try reflexivity.
    unfold shift at 1 2 3 4. cbn [s_rem s_calls s_fail s_consumed].
    destruct (take_upto skip (s_rem s2) []) as [got rest].
    cbv zeta.
    replace (mksrc rest (s_calls s2 + dc + 1) (s_fail s2) (s_consumed s2 + dk + len got))
      with (shift dc dk (mksrc rest (s_calls s2 + 1) (s_fail s2) (s_consumed s2 + len got)))
      by (unfold shift; cbn [s_rem s_calls s_fail s_consumed]; apply mksrc_eq; lia).
    destruct (len got =? skip); [|reflexivity].
    apply IH. exact Hf2.
Qed.

Lemma take_upto_app : forall (a b acc : list Z), take_upto (len a) (a ++ b) acc = (rrev acc ++ a, b).
Proof.
  induction a as [|x a IH]; intros b acc.
  - rewrite len_nil, take_upto_le0 by lia. rewrite app_nil_r. reflexivity.
  - cbn [app]. rewrite take_upto_cons by (rewrite len_cons; pose proof (len_nonneg a); lia).
    replace (len (x :: a) - 1) with (len a) by (rewrite len_cons; lia).
    rewrite IH. rewrite !rrev_rev. cbn [rev]. rewrite <- app_assoc. reflexivity.
Qed.

Theorem header_skippable : header_skippable_stmt.
Proof.
  unfold header_skippable_stmt.
  intros m n skipped rest fuel Hm Hsk Hlen Hn Hrest.
  assert (Hn0 : 0 <= n) by (rewrite <- Hlen; apply len_nonneg).
  unfold src_of. rewrite (parse_headers_S (S fuel)).
  rewrite read_u32_word by lia. cbv beta iota.
  destruct (m =? lz4stream_frameMagic) eqn:E1; [unfold lz4stream_frameMagic in E1; lia|].
  destruct (m =? lz4stream_frameMagicLegacy) eqn:E2; [unfold lz4stream_frameMagicLegacy in E2; lia|].
  cbn [orb]. rewrite skip_test by lia.
  destruct ((407710288 <=? m) && (m <=? 407710303)) eqn:E3; [|lia].
  rewrite read_u32_word by lia. cbv beta iota. cbn [s_rem s_calls s_fail s_consumed].
  rewrite <- Hlen. rewrite take_upto_app. cbn [rrev rev_append app]. cbv zeta.
  rewrite Z.eqb_refl.
  pose proof (parse_headers_shift 3 (8 + len skipped) (S fuel) (mksrc rest 0 0 0) eq_refl) as Hs.
  unfold shift at 1 in Hs. cbn [s_rem s_calls s_fail s_consumed] in Hs.
  replace (mksrc rest (0 + 1 + 1 + 1) 0 (0 + 4 + 4 + len skipped)) with (mksrc rest (0 + 3) 0 (0 + (8 + len skipped)))
    by (apply mksrc_eq; lia).
  rewrite Hs.
  destruct (parse_headers (S fuel) (mksrc rest 0 0 0)) as [[e s'] x].
  unfold shift. f_equal. f_equal. apply mksrc_eq; lia.
Qed.

(* ---------- size_exposed ---------- *)

Theorem size_exposed : size_exposed_stmt.
Proof.
  unfold size_exposed_stmt. intros r Hst.
  unfold rstep. cbn [snd].
  destruct Hst as [Hst|Hst]; rewrite Hst; reflexivity.
Qed.

Print Assumptions header_exact.
Print Assumptions header_badmagic.
Print Assumptions header_skippable.
Print Assumptions size_exposed.
