(* GenBodyDemo.v — how to reason about the translated bodies (GenXXHBody.v): two small theorems
   in the intended shape  f fuel (init ... s0) = Ret/Fall s' /\ result s' = ...,  proved by
   rewriting-based symbolic execution (GoT.v section 4).  Also a regression test that this proof
   style stays cheap (the whole file checks in about a second). *)
From Coq Require Import ZArith List Lia Bool.
From LZ4V Require Import GoT GenXXHBody.
Import ListNotations.
Open Scope Z_scope.
Open Scope got_scope.

(* XXHZero.Reset: for every fuel and every prior state whose v array has 4 elements *)
Lemma Reset_spec fuel s0 a b c d :
  mem_XXHZero_v s0 = [a; b; c; d] ->
  exists s', xxh32_XXHZero_Reset fuel s0 = Fall s'
    /\ mem_XXHZero_v s' = [606290984; 2246822519; 0; 1640531535]
    /\ XXHZero_totalLen s' = 0 /\ XXHZero_bufused s' = 0
    /\ mem_XXHZero_buf s' = mem_XXHZero_buf s0.
Proof.
  intros Hv. eexists. split.
  - unfold xxh32_XXHZero_Reset. xxh32_steps. reflexivity.
  - unfold sset, sl_set, sl_array. xxh32_state_simpl. cbn [s_loc s_off].
    xxh32_state_simpl. rewrite Hv. repeat split; reflexivity.
Qed.

(* checksumZeroGo on the empty input: any spare capacity, any prior state, any fuel >= 1 *)
Lemma checksumZeroGo_empty spare s0 fuel : (1 <= fuel)%nat ->
  exists s', xxh32_checksumZeroGo fuel (init_xxh32_checksumZeroGo_fresh [] spare s0) = Ret s'
             /\ checksumZeroGo_ret0 s' = 46947589.
Proof.
  intros Hf. destruct fuel as [|f]; [lia|].
  eexists. split.
  - unfold xxh32_checksumZeroGo, init_xxh32_checksumZeroGo_fresh.
    xxh32_steps.
    rewrite seq_ite; xxh32_state_simpl. change (s_len _ <? 16) with true. cbv iota.
    xxh32_steps.
    rewrite seq_loop_exit by (xxh32_state_simpl; reflexivity).
    rewrite seq_loop_exit by (xxh32_state_simpl; reflexivity).
    xxh32_steps.
    reflexivity.
  - xxh32_state_simpl. vm_compute. reflexivity.
Qed.

(* The loop rule on a toy state (i, acc):  for ; i < n; i++ { acc += 2 }  *)
Section LoopDemo.
  Variable n : Z.
  Let st := (Z * Z)%type.
  Definition toy (fuel : nat) : @GoT.stmt st :=
    loop fuel (fun s => fst s <? n) (upd (fun s => (fst s, snd s + 2))) (upd (fun s => (fst s + 1, snd s))).
  Lemma toy_spec fuel : 0 <= n -> (Z.to_nat n < fuel)%nat ->
    toy fuel (0, 0) = Fall (n, 2 * n).
  Proof.
    intros Hn Hf.
    pose (Inv := fun s : st => 0 <= fst s <= n /\ snd s = 2 * fst s).
    apply (loop_inv Inv (fun o => o = Fall (n, 2 * n)) (fun s => Z.to_nat (n - fst s))).
    - intros [i a] [Hi Ha] Hc. cbn [fst snd] in *. apply Z.ltb_ge in Hc.
      assert (i = n) by lia. subst. reflexivity.
    - intros [i a] [Hi Ha] Hc. cbn [fst snd] in *. apply Z.ltb_lt in Hc.
      cbn [upd fst snd]. unfold Inv; cbn [fst snd]. split; [lia|]. lia.
    - unfold Inv; cbn; lia.
    - cbn [fst]. rewrite Z.sub_0_r. exact Hf.
  Qed.
End LoopDemo.
