(* DecodeAsm.v — model of internal/lz4block/decode_amd64.s (Go assembly, amd64).

   Same zipper as DecodePortable.v.  Pointer comparisons of the assembly are modelled on offsets,
   which is exact under the address-space assumption ADDR_OK: every buffer lies in [2^16, 2^63)
   (no pointer arithmetic wraps, all JC branches are dead).  The one practical exception — a nil
   destination, base address 0 — is finding F2 (repaired: the short-output test is now computed
   from DI and cannot wrap).  Wide moves (16-byte literal move, 8+8+2-byte match move, 3x16-byte
   literal move, 16-byte interior match move) are performed literally on [rest]; runtime.memmove
   and the byte loop are exact copies.  Result codes -1/-2/-3 are all DErr. *)
From LZ4V Require Import Base GenBlock BlockFormat BlockExec DecodePortable.

(* the n bytes dst[i:i+n] (i = di - offset) as they are now: history, then current rest *)
Definition window (n : Z) (rout rest : list Z) (offset : Z) : list Z :=
  let k := Z.min offset n in
  rrev (firstn (Z.to_nat k) (skipn (Z.to_nat (offset - k)) rout)) ++ firstn (Z.to_nat (n - k)) rest.

Section Decode.
Variable rdict : list Z.    (* the dictionary, reversed *)
Variable klen : Z.          (* len(dict) *)
Variable dstlen : Z.

(* match_len_loop_pre .. loopcheck: returns the zipper after the match and the remaining source *)
Definition match_a (s rout rest : list Z) (di mnib offset : Z)
  : option (list Z * list Z * list Z * Z) :=
  match read_len mnib s with
  | None => None                                           (* err_short_buf *)
  | Some (ml, s') =>
    let m := ml + lz4block_minMatch in
    if dstlen <? di + m then None                          (* err_short_buf *)
    else if (di <=? offset) || (offset <=? m) then
      (* from the dictionary and/or overlapping: memmove of disjoint ranges and the byte loop
         are exact; beyond the dictionary: err_short_dict *)
      match copy_fast m rdict rout klen di offset with
      | None => None
      | Some rout' => Some (s', rout', skipn (Z.to_nat m) rest, di + m)
      end
    else
      (* copy_interior_match: m < offset <= di *)
      if (m <=? 16) && (16 <=? dstlen - di) then
        match take_rev (overwrite (window 16 rout rest offset) rest) m rout with
        | None => None
        | Some (rout', rest') => Some (s', rout', rest', di + m)
        end
      else
        match copy_fast m rdict rout klen di offset with
        | None => None
        | Some rout' => Some (s', rout', skipn (Z.to_nat m) rest, di + m)
        end
  end.

Fixpoint dec_a (fuel : nat) (s rout rest : list Z) (di : Z) : dres :=
  match fuel with O => DErr | S f =>
  match s with
  | [] => DOk di (rev_append rout rest)                    (* loopcheck fails; end: CX = 0 *)
  | tok :: s1 =>
    let lit := tok / 16 in
    let mnib := tok mod 16 in
    if negb (lit =? 15) && (di + 32 <? dstlen) && longer_than 16 s1 then
      (* shortcut: 16-byte move on behalf of 0..14 literals *)
      match take_rev (overwrite (firstn 16 s1) rest) lit rout with
      | None => DErr
      | Some (rout2, rest2) =>
        let di2 := di + lit in
        match skipn (Z.to_nat lit) s1 with
        | o1 :: o2 :: s3 =>
          let offset := o1 + 256 * o2 in
          if offset =? 0 then DErr                         (* err_corrupt *)
          else if (mnib =? 15) || (offset <? 8) || (di2 <? offset) then
            match match_a s3 rout2 rest2 di2 mnib offset with
            | None => DErr
            | Some (s4, rout3, rest3, di3) => dec_a f s4 rout3 rest3 di3
            end
          else
            (* 8+8+2-byte moves: with offset >= 8 this is the format's own 18-byte copy *)
            let P := rrev (firstn (Z.to_nat offset) rout2) in
            match take_rev (overwrite (cyc 18 P P) rest2) (mnib + lz4block_minMatch) rout2 with
            | None => DErr
            | Some (rout3, rest3) => dec_a f s3 rout3 rest3 (di2 + mnib + lz4block_minMatch)
            end
        | _ => DErr                                        (* unreachable: more than 16 bytes left *)
        end
      end
    else
      match (if lit =? 15 then read_ext s1 15 else Some (lit, s1)) with
      | None => DErr                                       (* err_short_buf in lit_len_loop *)
      | Some (ll, s2) =>
        if dstlen <? di + ll then DErr else
        (* copy_literal: 3x16-byte moves when at most 48 literals and 48 bytes are left on both sides *)
        let wide := (ll <=? 48) && (48 <=? dstlen - di) && longer_than 47 s2 in
        match take_rev s2 ll [] with
        | None => DErr                                     (* literals run past the source *)
        | Some (_, s3) =>
          let rest1 := overwrite (if wide then firstn 48 s2 else firstn (Z.to_nat ll) s2) rest in
          match take_rev rest1 ll rout with
          | None => DErr
          | Some (rout2, rest2) =>
            let di2 := di + ll in
            match s3 with
            | [] => if mnib =? 0 then DOk di2 (rev_append rout2 rest2) else DErr   (* end: CX must be 0 *)
            | [_] => DErr
            | o1 :: o2 :: s4 =>
              let offset := o1 + 256 * o2 in
              if offset =? 0 then DErr else
              match match_a s4 rout2 rest2 di2 mnib offset with
              | None => DErr
              | Some (s5, rout3, rest3, di3) => dec_a f s5 rout3 rest3 di3
              end
            end
          end
        end
      end
  end end.
End Decode.

Definition decode_asm (src dst0 dict : list Z) : dres :=
  match src with
  | [] => DErr
  | _ => dec_a (rrev dict) (len dict) (len dst0) (S (length src)) src [] dst0 0
  end.
