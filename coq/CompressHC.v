(* CompressHC.v — model of the method CompressorHC.CompressBlock in internal/lz4block/block.go
   (as repaired: the destination's capacity is clipped to its length on entry, finding F3).

   hashTable / chainTable are finite maps with default 0 (the code zeroes both tables before every
   use after the first, so a call always starts from all-zero tables: the object carries no state
   that can influence the output).  Panics (out-of-range destination writes) are recovered by the
   code into the error result: CErr. *)
From Coq Require Import FMapPositive.
From LZ4V Require Import Base GenBlock BlockFormat CompressFast.

Definition tbl := PositiveMap.t Z.
Definition hfind (m : tbl) (k : Z) : Z :=
  match PositiveMap.find (Z.to_pos (k + 1)) m with Some v => v | None => 0 end.
Definition hadd (m : tbl) (k v : Z) : tbl := PositiveMap.add (Z.to_pos (k + 1)) v m.

Section HC.
Variable get : Z -> Z.
Variable n : Z.
Variable depth0 : Z.                 (* the CompressionLevel argument, 0 <= depth0 < 2^32 *)
Variable wfuel : nat.                (* fuel of the chain walk *)

Local Notation sn := (sn n).
Local Notation load32 := (load32 get).
Local Notation eq_run := (eq_run get).

Definition depth : Z := if depth0 =? 0 then lz4block_winSize else depth0.
Definition adaptSkipLogHC := lz4block_CompressorHC_CompressBlock_adaptSkipLog.

(* `for ml < sn-si { x := load64(next+ml) ^ load64(si+ml); if x == 0 { ml += 8 } else { ml += tz>>3; break } }` *)
Fixpoint hc_ml (fuel : nat) (next si ml : Z) : Z :=
  match fuel with O => ml | S f =>
    if ml <? sn - si then
      let k := eq_run 8 (next + ml) (si + ml) in
      if k =? 8 then hc_ml f next si (ml + 8) else ml + k
    else ml
  end.

(* the chain walk: best (mLen, offset); None = out of fuel *)
Fixpoint walk (fuel : nat) (chainT : tbl) (next try si mLen offset : Z) : option (Z * Z) :=
  match fuel with O => None | S f =>
    if (0 <? try) && (0 <? next) && (si - next <? lz4block_winSize) then
      let nxt := hfind chainT (Z.land next lz4block_winMask) in
      if get (next + mLen) =? get (si + mLen) then
        let ml := hc_ml (Z.to_nat ((sn - si) / 8 + 1)) next si 0 in
        if (ml <? lz4block_minMatch) || (ml <=? mLen) then walk f chainT nxt (try - 1) si mLen offset
        else walk f chainT nxt (try - 1) si ml (si - next)
      else walk f chainT nxt (try - 1) si mLen offset
    else Some (mLen, offset)
  end.

(* insert the positions covered by the match: rolling 4-byte window exactly as the code keeps it *)
Fixpoint insert_overlap (cnt : nat) (p m : Z) (hashT chainT : tbl) : tbl * tbl :=
  match cnt with O => (hashT, chainT) | S c =>
    let m := Z.lor (Z.shiftr m 8) ((get (p + 3) * 16777216) mod 4294967296) in
    let h := lz4block_blockHashHC m in
    let chainT := hadd chainT (Z.land p lz4block_winMask) (hfind hashT h) in
    let hashT := hadd hashT h p in
    insert_overlap c (p + 1) m hashT chainT
  end.

Fixpoint hloop (fuel : nat) (si anchor : Z) (hashT chainT : tbl) (acc : list seq) : pres :=
  match fuel with O => PHang | S f =>
  if sn <=? si then POk (rev_append acc []) anchor else
  let m := load32 si in
  let h := lz4block_blockHashHC m in
  match walk wfuel chainT (hfind hashT h) depth si 0 0 with
  | None => PHang
  | Some (mLen, offset) =>
    let chainT := hadd chainT (Z.land si lz4block_winMask) (hfind hashT h) in
    let hashT := hadd hashT h si in
    if mLen =? 0 then hloop f (si + 1 + Z.shiftr (si - anchor) adaptSkipLogHC) anchor hashT chainT acc
    else
      let ws := si + mLen - lz4block_winSize in
      let winStart := if si + 1 <? ws then ws else si + 1 in
      let '(hashT, chainT) := insert_overlap (Z.to_nat (si + mLen - winStart)) winStart m hashT chainT in
      let s := mkseq (sub get anchor (si - anchor)) offset mLen in
      hloop f (si + mLen) (si + mLen) hashT chainT (s :: acc)
  end
  end.

Definition parse_hc : pres :=
  if sn <=? 0 then POk [] 0
  else hloop (Z.to_nat n + 1) 0 0 (PositiveMap.empty Z) (PositiveMap.empty Z) [].

(* the end of the function; [entered] = the main loop was entered (sn > 0): the first
   "incompressible" exit sits before the lastLiterals label and is skipped by the goto *)
Definition finish_hc (dstlen : Z) (ss : list seq) (anchor : Z) (last : list Z) : cres :=
  let notc := dstlen <? lz4block_CompressBlockBound n in
  match ser_seqs dstlen 0 ss with
  | None => CErr
  | Some di =>
    if (0 <? sn) && notc && (anchor =? 0) then CZero
    else
      let lLen := n - anchor in
      let hdr := 1 + len (extl lLen) in
      if dstlen <? di + hdr then CErr
      else if notc && (anchor <=? di + hdr) then CZero
      else if dstlen <? di + hdr + lLen then CErr
      else COk (encode (ss, last))
  end.

Definition compress_hc (dstlen : Z) : cres :=
  match parse_hc with
  | PPanic => CPanic
  | PHang => CHang
  | POk ss anchor => finish_hc dstlen ss anchor (sub get anchor (n - anchor))
  end.
End HC.
