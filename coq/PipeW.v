(* PipeW.v — the concurrent Writer pipeline (writer.go write(), internal/lz4stream/block.go
   Blocks.initW / Blocks.close) as a labelled transition system whose every interleaving is
   quantified over.

   Roles: the producer (the goroutine calling Write / Flush / Close: it submits jobs 0..n-1 and
   then performs the closing hand-shake), one worker per job, the manager (the goroutine started
   by initW that writes blocks in submission order), the queue (`Blocks`, a buffered channel of
   capacity num holding per-job channels), per-job unbuffered channels.  A job's data buffer has an
   owner (producer -> worker -> pool); the manager may only read it while its worker is blocked
   waiting for the channel to be closed.  fault j = the sink fails while writing job j.

   Every transition that corresponds to a hook call site of the instrumented code (verif tag)
   carries the event the hook records; `events` of a run is what a trace of the real code looks
   like, and `trace_ok` is the checker applied to recorded traces. *)
From LZ4V Require Import Base.

Inductive cid := CJob (j : nat) | CSentinel.
Definition cid_eqb (a b : cid) : bool :=
  match a, b with CJob i, CJob j => Nat.eqb i j | CSentinel, CSentinel => true | _, _ => false end.

Inductive wk := WkNone | WkStart | WkOffer | WkWait | WkWoken | WkDone.
(* WkNone: not spawned; WkStart: spawned; WkOffer: compressed, blocked sending its block;
   WkWait: block handed over, blocked until its channel is closed; WkWoken: running handler /
   releasing buffers; WkDone: exited *)
Inductive mg := MgIdle | MgTaken (c : cid) | MgGot (c : cid) | MgClosing (c : cid) | MgExited.
Inductive pr := PrSubmit (j : nat) | PrSubmitted (j : nat) | PrCloseEnq | PrCloseOffer | PrCloseWait | PrDone.
Inductive owner := OwProducer | OwWorker | OwPool.

Inductive event :=
  | EvEnqueue (c : cid) | EvSubmitted (c : cid) | EvWkStart (c : cid) | EvWkOffer (c : cid)
  | EvMgrTake (c : cid) | EvMgrRecv (c : cid) | EvMgrClose (c : cid) | EvMgrExit
  | EvWkWoken (c : cid) | EvWkDone (c : cid)
  | EvCloseEnqueue | EvCloseOffer | EvCloseDone.

Record st := mkst {
  prod : pr;
  queue : list cid;            (* FIFO contents of Blocks *)
  wks : list wk;               (* worker j *)
  mgr : mg;
  closedc : list cid;          (* channels that have been closed *)
  sink : list nat;             (* jobs written to the underlying writer, in order *)
  err : bool;                  (* b.err <> nil *)
  own : list owner             (* owner of job j's data buffer *)
}.

Section Pipe.
Variable num : nat.            (* capacity of Blocks: the concurrency level, >= 2 *)
Variable njobs : nat.
Variable fault : nat -> bool.

Definition init : st :=
  mkst (match njobs with O => PrCloseEnq | _ => PrSubmit 0 end) [] (repeat WkNone njobs) MgIdle [] [] false (repeat OwProducer njobs).

Definition wk_of (s : st) (j : nat) : wk := nth j (wks s) WkNone.
Fixpoint upd {A} (l : list A) (i : nat) (x : A) : list A :=
  match l, i with
  | [], _ => []
  | _ :: t, O => x :: t
  | h :: t, S k => h :: upd t k x
  end.
Definition set_wk (s : st) (j : nat) (w : wk) : st :=
  mkst (prod s) (queue s) (upd (wks s) j w) (mgr s) (closedc s) (sink s) (err s) (own s).
Definition is_closed (s : st) (c : cid) : bool := existsb (cid_eqb c) (closedc s).

(* one step: the new state and the hook event it records (None: no call site there) *)
Inductive step : st -> option event -> st -> Prop :=
  (* producer: `Blocks <- c` needs room in the queue; then the worker is spawned *)
  | S_enqueue j s : prod s = PrSubmit j -> (length (queue s) < num)%nat ->
      step s (Some (EvEnqueue (CJob j)))
        (mkst (PrSubmitted j) (queue s ++ [CJob j]) (wks s) (mgr s) (closedc s) (sink s) (err s) (upd (own s) j OwWorker))
  | S_spawn j s : prod s = PrSubmitted j ->
      step s (Some (EvSubmitted (CJob j)))
        (mkst (if Nat.ltb (S j) njobs then PrSubmit (S j) else PrCloseEnq) (queue s) (upd (wks s) j WkStart) (mgr s) (closedc s) (sink s) (err s) (own s))
  (* worker: compress, then offer the block on its channel *)
  | S_compress j s : wk_of s j = WkStart ->
      step s (Some (EvWkOffer (CJob j))) (set_wk s j WkOffer)
  (* manager: take the next channel from the queue *)
  | S_take c q s : mgr s = MgIdle -> queue s = c :: q ->
      step s (Some (EvMgrTake c)) (mkst (prod s) q (wks s) (MgTaken c) (closedc s) (sink s) (err s) (own s))
  (* rendezvous on the job's channel: the manager receives the block *)
  | S_recv j s : mgr s = MgTaken (CJob j) -> wk_of s j = WkOffer ->
      step s (Some (EvMgrRecv (CJob j))) (mkst (prod s) (queue s) (upd (wks s) j WkWait) (MgGot (CJob j)) (closedc s) (sink s) (err s) (own s))
  (* the manager writes the block unless an earlier write failed; it READS the job's buffers here *)
  | S_write j s : mgr s = MgGot (CJob j) ->
      step s None
        (mkst (prod s) (queue s) (wks s) (MgClosing (CJob j)) (closedc s)
              (if err s || fault j then sink s else sink s ++ [j]) (err s || fault j) (own s))
  | S_close j s : mgr s = MgClosing (CJob j) ->
      step s (Some (EvMgrClose (CJob j))) (mkst (prod s) (queue s) (wks s) MgIdle (CJob j :: closedc s) (sink s) (err s) (own s))
  (* worker woken by the close; then handler, block release, Put(data) *)
  | S_wake j s : wk_of s j = WkWait -> is_closed s (CJob j) = true ->
      step s (Some (EvWkWoken (CJob j))) (set_wk s j WkWoken)
  | S_release j s : wk_of s j = WkWoken ->
      step s (Some (EvWkDone (CJob j)))
        (mkst (prod s) (queue s) (upd (wks s) j WkDone) (mgr s) (closedc s) (sink s) (err s) (upd (own s) j OwPool))
  (* Close: the sentinel hand-shake *)
  | S_close_enq s : prod s = PrCloseEnq -> (length (queue s) < num)%nat ->
      step s (Some EvCloseEnqueue) (mkst PrCloseOffer (queue s ++ [CSentinel]) (wks s) (mgr s) (closedc s) (sink s) (err s) (own s))
  | S_close_offer s : prod s = PrCloseOffer -> mgr s = MgTaken CSentinel ->
      step s (Some EvCloseOffer) (mkst PrCloseWait (queue s) (wks s) (MgGot CSentinel) (closedc s) (sink s) (err s) (own s))
  | S_exit s : mgr s = MgGot CSentinel ->
      step s (Some EvMgrExit) (mkst (prod s) (queue s) (wks s) MgExited (CSentinel :: closedc s) (sink s) (err s) (own s))
  | S_close_done s : prod s = PrCloseWait -> is_closed s CSentinel = true ->
      step s (Some EvCloseDone) (mkst PrDone (queue s) (wks s) (mgr s) (closedc s) (sink s) (err s) (own s)).

Inductive run : st -> list event -> st -> Prop :=
  | R_nil s : run s [] s
  | R_step s e s1 es s2 : step s e s1 -> run s1 es s2 ->
      run s (match e with Some ev => ev :: es | None => es end) s2.

Definition reachable (s : st) : Prop := exists es, run init es s.

(* Close has returned *)
Definition returned (s : st) : Prop := prod s = PrDone.
(* nothing can happen any more *)
Definition final (s : st) : Prop :=
  prod s = PrDone /\ mgr s = MgExited /\ queue s = [] /\ forall j, (j < njobs)%nat -> wk_of s j = WkDone.

(* jobs written = the submission-order prefix up to the first failing one *)
Fixpoint first_fault (k : nat) (n : nat) : nat :=   (* least j in [k, k+n) with fault j, else k+n *)
  match n with O => k | S m => if fault k then k else first_fault (S k) m end.
End Pipe.

(* ---- the checker applied to recorded traces (events renumbered by first appearance) ---- *)
(* necessary conditions every run satisfies; stated on the event list alone *)
Fixpoint index_of (e : event -> bool) (l : list event) (i : nat) : option nat :=
  match l with [] => None | x :: r => if e x then Some i else index_of e r (S i) end.
Definition ev_eqb (a b : event) : bool :=
  match a, b with
  | EvEnqueue c, EvEnqueue d | EvSubmitted c, EvSubmitted d | EvWkStart c, EvWkStart d | EvWkOffer c, EvWkOffer d
  | EvMgrTake c, EvMgrTake d | EvMgrRecv c, EvMgrRecv d | EvMgrClose c, EvMgrClose d
  | EvWkWoken c, EvWkWoken d | EvWkDone c, EvWkDone d => cid_eqb c d
  | EvMgrExit, EvMgrExit | EvCloseEnqueue, EvCloseEnqueue | EvCloseOffer, EvCloseOffer | EvCloseDone, EvCloseDone => true
  | _, _ => false
  end.
Definition pos (l : list event) (e : event) : option nat := index_of (ev_eqb e) l 0.
Definition before (l : list event) (a b : event) : bool :=
  match pos l a, pos l b with
  | Some i, Some j => Nat.ltb i j
  | _, None => true          (* b did not happen (yet) *)
  | None, Some _ => false    (* b happened without a *)
  end.
(* per job: enqueue < take < recv < close < woken < done, offer < recv; manager handles jobs in
   submission order; the sentinel comes after every job's close; the producer's Close returns
   after the manager has exited *)
Definition job_ok (l : list event) (j : nat) : bool :=
  let c := CJob j in
  before l (EvEnqueue c) (EvMgrTake c) && before l (EvMgrTake c) (EvMgrRecv c) && before l (EvWkOffer c) (EvMgrRecv c)
  && before l (EvMgrRecv c) (EvMgrClose c) && before l (EvMgrClose c) (EvWkWoken c) && before l (EvWkWoken c) (EvWkDone c)
  && before l (EvEnqueue c) (EvSubmitted c)
  && before l (EvMgrClose c) (EvMgrTake (CJob (S j))) && before l (EvEnqueue c) (EvEnqueue (CJob (S j)))
  && before l (EvMgrClose c) EvMgrExit && before l (EvEnqueue c) EvCloseEnqueue.
Fixpoint NoDup_b (l : list event) : bool :=
  match l with [] => true | x :: r => negb (existsb (ev_eqb x) r) && NoDup_b r end.
Definition trace_ok (njobs : nat) (l : list event) : bool :=
  forallb (job_ok l) (seq 0 njobs)
  && before l EvCloseEnqueue EvCloseOffer && before l EvCloseOffer EvMgrExit && before l EvMgrExit EvCloseDone
  && NoDup_b l.
