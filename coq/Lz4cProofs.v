(* Lz4cProofs.v — proofs of the lz4c statements of Lz4cSpec.v (C20). *)
From Coq Require Import ZifyBool.
From LZ4V Require Import Base GenBlock GenStream GenLz4 GenLz4c XXH32 BlockFormat FrameSpec FrameImpl Writer Reader
  FrameTheoremsSpec WriterProofs Lz4c Lz4cSpec.

Theorem lz4c_flags : lz4c_flags_stmt.
Proof. intros fl. reflexivity. Qed.

Theorem lz4c_usage : lz4c_usage_stmt.
Proof. repeat split. Qed.

(* ------------------------------------------------------------------ *)
(* the options after Apply(options_of fl) *)

Lemma level_of_valid l : valid_level (level_of l) = true.
Proof. unfold level_of. repeat match goal with |- context [if ?c then _ else _] => destruct c end; reflexivity. Qed.

Definition lz4c_fl (fl : cflags) : Z :=
  lz4stream_DescriptorFlags_ContentChecksumSet
    (lz4stream_DescriptorFlags_BlockSizeIndexSet
       (lz4stream_DescriptorFlags_BlockChecksumSet 28676 (f_bc fl)) (lz4block_Index (f_size fl)))
    (negb (f_sc fl)).

Lemma lz4c_opts_explicit fl : valid_size (f_size fl) ->
  lz4c_opts fl = Some (mkfo (lz4c_fl fl) 0 (level_of (f_level fl)) false).
Proof.
  intros Hv. unfold lz4c_opts, opts_after. rewrite lz4c_flags.
  rewrite wstep_apply_new by reflexivity.
  change (w_reset (new_writer s0) (w_sink (new_writer s0)) false) with (new_writer s0).
  rewrite new_writer_eq. unfold lz4c_fl.
  pose proof (level_of_valid (f_level fl)) as Hlv. set (lv := level_of (f_level fl)) in *.
  assert (Hsz : lz4block_BlockSizeIndex_IsValid (lz4block_Index (f_size fl)) = true).
  { destruct Hv as [H|[H|[H|H]]]; rewrite H; reflexivity. }
  cbn [apply_opts apply_opt w_opts fo_flags fo_csize fo_level fo_legacy w_state w_serr w_num w_bsz w_pend w_content w_sink w_old].
  rewrite Hsz. cbn [w_opts fo_flags fo_csize fo_level fo_legacy w_state w_serr w_num w_bsz w_pend w_content w_sink w_old].
  rewrite Hlv. cbn [w_opts fo_flags fo_csize fo_level fo_legacy w_state w_serr w_num w_bsz w_pend w_content w_sink w_old].
  rewrite st_check_nil. reflexivity.
Qed.

Lemma lz4c_fl_cases fl : valid_size (f_size fl) ->
  exists (b c : bool) (s : Z), f_bc fl = b /\ f_sc fl = c /\ f_size fl = s /\
    (s = 65536 \/ s = 262144 \/ s = 1048576 \/ s = 4194304).
Proof. intros Hv. exists (f_bc fl), (f_sc fl), (f_size fl). repeat split; exact Hv. Qed.

Theorem lz4c_opts_ok : lz4c_opts_stmt.
Proof.
  intros fl o Hv Ho. rewrite (lz4c_opts_explicit fl Hv) in Ho. inversion Ho; subst o; clear Ho.
  unfold bsz_of, initw_flags, lz4c_fl. cbn [fo_flags fo_csize fo_level fo_legacy].
  destruct (f_bc fl), (f_sc fl); destruct Hv as [H|[H|[H|H]]]; rewrite H; repeat split; reflexivity.
Qed.

(* lz4c never sets a content size: the options are a fixed point of the option change of Reset *)
Lemma lz4c_fl_nosize fl : valid_size (f_size fl) -> lz4stream_DescriptorFlags_SizeSet (lz4c_fl fl) false = lz4c_fl fl.
Proof.
  intros Hv. unfold lz4c_fl. destruct (f_bc fl), (f_sc fl); destruct Hv as [H|[H|[H|H]]]; rewrite H; reflexivity.
Qed.

Definition reset_fixed (o : fopts) : Prop :=
  mkfo (lz4stream_DescriptorFlags_SizeSet (fo_flags o) false) 0 (fo_level o) (fo_legacy o) = o.

Lemma lz4c_opts_facts fl o : valid_size (f_size fl) -> lz4c_opts fl = Some o -> reset_fixed o /\ 0 < bsz_of o.
Proof.
  intros Hv Ho. split.
  - rewrite (lz4c_opts_explicit fl Hv) in Ho. inversion Ho; subst o. unfold reset_fixed.
    cbn [fo_flags fo_csize fo_level fo_legacy]. rewrite (lz4c_fl_nosize fl Hv). reflexivity.
  - destruct (apply_ok _ o Ho s0 s0) as (wa & _ & _ & _ & _ & Hbz). exact Hbz.
Qed.

(* ------------------------------------------------------------------ *)
(* ReadFrom; Close on any Writer in newState with an empty fault-free sink *)

Lemma w_block_opts w src w' e : w_block w src = (w', e) -> w_opts w' = w_opts w.
Proof. unfold w_block. destruct (sink_writes _ _) as [s ok]. intros H; inversion H; reflexivity. Qed.

Lemma wclose_opts o w pend content outc fresh w' r : Inv 0 o w pend content outc ->
  wstep w WClose fresh = (w', r) -> w_opts w' = o.
Proof.
  intros HI H. pose proof HI as (Hst & Ho & _). cbn [wstep] in H. rewrite Hst in H.
  change (lz4_writeState =? lz4_closedState) with false in H. cbv iota in H.
  destruct (w_flush w) as [w1 e1] eqn:Ef.
  assert (Ho1 : w_opts w1 = o).
  { rewrite w_flush_write in Ef by exact Hst. destruct (w_pend w) as [|x l] eqn:Ep.
    - inversion Ef; subst w1 e1; exact Ho.
    - rewrite <- Ep in Ef. destruct (w_block w (w_pend w)) as [w2 e2] eqn:Eb.
      pose proof (w_block_opts _ _ _ _ Eb) as Hb. destruct e2; inversion Ef; subst w1 e1; cbn [set_pend w_opts]; congruence. }
  destruct e1; try (inversion H; subst w' r; exact Ho1).
  destruct (sink_writes _ _) as [s ok]. inversion H; subst w' r.
  destruct ok; cbn [st_next set_state set_sink w_opts]; exact Ho1.
Qed.

Lemma SAlive_s0 : SAlive 0 (mksink [] 0 0) [].
Proof. unfold SAlive, slist. cbn [sk_fail sk_chunks sk_calls rev]. change (len (@nil (list Z))) with 0. repeat split; lia. Qed.

Lemma readfrom_close o w data fresh : 0 < bsz_of o ->
  w_state w = lz4_newState -> w_opts w = o -> w_sink w = mksink [] 0 0 ->
  exists w2 w4, wstep w (WReadFrom data) fresh = (w2, RNE (len data) ENil) /\
                wstep w2 WClose fresh = (w4, RE ENil) /\
                w_opts w4 = o /\ w_state w4 = lz4_closedState /\ sink_bytes (w_sink w4) = frame_encode o data.
Proof.
  intros Hbz Hst Ho Hsk.
  assert (Ha : SAlive 0 (w_sink w) []) by (rewrite Hsk; exact SAlive_s0).
  destruct (wstep w (WReadFrom data) fresh) as [w2 r2] eqn:E2.
  cbn [wstep] in E2. rewrite Hst in E2.
  change (lz4_newState =? lz4_closedState) with false in E2. change (lz4_newState =? lz4_errorState) with false in E2.
  change (lz4_newState =? lz4_newState) with true in E2. cbn [orb] in E2. cbv iota in E2.
  destruct (w_init w) as [w1 e1] eqn:Ei.
  destruct (w_init_alive _ _ _ _ _ _ Hst Ho Ha Ei) as [[He HI]|[_ Hd]]; [|exfalso; eapply SDead_not0; exact Hd].
  subst e1. cbv zeta iota in E2.
  destruct (w_readfrom_loop (S (length data)) (st_next w1 ENil) data 0) as [[w3 n3] e3] eqn:El.
  destruct (w_readfrom_loop_ok o Hbz _ _ _ _ _ _ _ _ _ _ HI (Nat.lt_succ_diag_r _) El) as (He3 & Hn3 & HI3).
  subst e3. rewrite st_check_nil in E2. inversion E2; subst w2 r2; clear E2.
  destruct (wstep w3 WClose fresh) as [w4 r4] eqn:E4.
  pose proof (wclose_opts _ _ _ _ _ _ _ _ HI3 E4) as Ho4.
  destruct (wclose_alive _ _ _ _ _ _ _ _ _ HI3 E4) as [(Hr & Hs & Hal)|(_ & p & q & _ & Hd)];
    [|exfalso; eapply SDead_not0; exact Hd].
  subst r4 n3. exists w3, w4. split; [reflexivity|]. split; [exact E4|]. split; [exact Ho4|]. split; [exact Hs|].
  destruct Hal as (_ & Hl & _). rewrite sink_bytes_slist, Hl.
  cbn [tail_block flat_map concat app]. rewrite !addc_nil, close_writes_addc.
  unfold frame_encode, frame_of_segments. cbn [flat_map concat]. rewrite !app_nil_r.
  rewrite (chunks_fulls _ Hbz data (length data) (le_n _)).
  rewrite !concat_app. reflexivity.
Qed.

(* ------------------------------------------------------------------ *)
(* one file of the loop *)

Lemma reset_props o w fresh keep : reset_fixed o -> w_opts w = o ->
  w_state (w_reset w fresh keep) = lz4_newState /\ w_opts (w_reset w fresh keep) = o /\ w_sink (w_reset w fresh keep) = fresh.
Proof. intros Hf Ho. unfold w_reset. cbn [w_state w_opts w_sink]. rewrite Ho. repeat split; try reflexivity. exact Hf. Qed.

Lemma apply_nil o w fresh : reset_fixed o -> w_state w = lz4_newState -> w_opts w = o ->
  exists w1, wstep w (WApply []) fresh = (w1, RE ENil) /\ w_state w1 = lz4_newState /\ w_opts w1 = o /\ w_sink w1 = w_sink w.
Proof.
  intros Hf Hst Ho. rewrite wstep_apply_new by exact Hst. cbn [apply_opts]. rewrite st_check_nil.
  destruct (reset_props o w (w_sink w) false Hf Ho) as (H1 & H2 & H3).
  eexists. split; [reflexivity|]. split; [exact H1|split; [exact H2|exact H3]].
Qed.

Lemma file_calls_stdio o w data : reset_fixed o -> 0 < bsz_of o -> w_opts w = o ->
  exists w', file_calls [2; 3; 4] w data = (w', ENil) /\ w_opts w' = o /\ sink_bytes (w_sink w') = frame_encode o data.
Proof.
  intros Hf Hbz Ho. cbn [file_calls Z.eqb Pos.eqb].
  change (fst (wstep w WReset (mksink [] 0 0))) with (w_reset w (mksink [] 0 0) true).
  destruct (reset_props o w (mksink [] 0 0) true Hf Ho) as (H1 & H2 & H3).
  destruct (readfrom_close o _ data (mksink [] 0 0) Hbz H1 H2 H3) as (w2 & w4 & E2 & E4 & Ho4 & _ & Hb).
  rewrite E2. cbv iota. rewrite E4. cbv iota.
  exists w4. split; [reflexivity|]. split; assumption.
Qed.

Lemma file_calls_loop o w data : reset_fixed o -> 0 < bsz_of o -> w_opts w = o ->
  exists w', file_calls lz4c_loop_calls w data = (w', ENil) /\ w_opts w' = o /\ sink_bytes (w_sink w') = frame_encode o data.
Proof.
  intros Hf Hbz Ho. unfold lz4c_loop_calls.
  cbn [file_calls Z.eqb Pos.eqb].
  change (fst (wstep w WReset (mksink [] 0 0))) with (w_reset w (mksink [] 0 0) true).
  destruct (reset_props o w (mksink [] 0 0) true Hf Ho) as (H1 & H2 & H3).
  set (wr := w_reset w (mksink [] 0 0) true) in *.
  assert (Hstep : exists wa, (match data with
                   | [] => (wr, ENil)
                   | _ => match wstep wr (WApply []) (mksink [] 0 0) with (wx, RE e) => (wx, e) | (wy, _) => (wy, ENil) end
                   end) = (wa, ENil) /\ w_opts wa = o).
  { destruct data as [|x l]; [exists wr; split; [reflexivity|exact H2]|].
    destruct (apply_nil o wr (mksink [] 0 0) Hf H1 H2) as (w1 & E1 & _ & Ho1 & _).
    rewrite E1. exists w1. split; [reflexivity|exact Ho1]. }
  destruct Hstep as (wa & Estep & Hoa).
  change (match data with
          | [] => (wr, ENil)
          | _ :: _ => match wstep wr (WApply []) (mksink [] 0 0) with (wx, RE e) => (wx, e) | (wy, _) => (wy, ENil) end
          end) with
         (match data with
          | [] => (wr, ENil)
          | _ => match wstep wr (WApply []) (mksink [] 0 0) with (wx, RE e) => (wx, e) | (wy, _) => (wy, ENil) end
          end).
  rewrite Estep. cbv iota.
  destruct (file_calls_stdio o wa data Hf Hbz Hoa) as (w' & E & Ho' & Hb).
  cbn [file_calls Z.eqb Pos.eqb] in E. rewrite E.
  exists w'. split; [reflexivity|split; assumption].
Qed.

Lemma files_loop_ok o : reset_fixed o -> 0 < bsz_of o -> forall files w acc, w_opts w = o ->
  files_loop w files acc = CmdOk (rev acc ++ map (frame_encode o) files).
Proof.
  intros Hf Hbz. induction files as [|d r IH]; intros w acc Ho; cbn [files_loop map].
  - rewrite rev_append_rev. reflexivity.
  - destruct (file_calls_loop o w d Hf Hbz Ho) as (w' & E & Ho' & Hb). rewrite E.
    rewrite (IH w' _ Ho'). cbn [rev]. rewrite Hb, <- app_assoc. reflexivity.
Qed.

Theorem lz4c_compress : lz4c_compress_stmt.
Proof.
  intros fl files o Hv _ Hopt. destruct (lz4c_opts_facts fl o Hv Hopt) as [Hf Hbz].
  unfold cmd_compress.
  destruct (apply_ok _ o Hopt (mksink [] 0 0) (mksink [] 0 0)) as (wa & Hstep & _ & Ho & _ & _).
  rewrite Hstep. apply (files_loop_ok o Hf Hbz files wa [] Ho).
Qed.

Theorem lz4c_stdio : lz4c_stdio_stmt.
Proof.
  intros fl data o Hv _ Hopt. destruct (lz4c_opts_facts fl o Hv Hopt) as [Hf Hbz].
  unfold cmd_compress_stdio.
  destruct (apply_ok _ o Hopt (mksink [] 0 0) (mksink [] 0 0)) as (wa & Hstep & _ & Ho & _ & _).
  rewrite Hstep. destruct (file_calls_stdio o wa data Hf Hbz Ho) as (w' & E & _ & Hb).
  rewrite E, Hb. reflexivity.
Qed.

Print Assumptions lz4c_flags.
Print Assumptions lz4c_usage.
Print Assumptions lz4c_opts_ok.
Print Assumptions lz4c_stdio.
Print Assumptions lz4c_compress.
