(* BlockFormatProofs.v — round trip of the block-format specification:
   reading the encoding of a well-formed parse yields the parse's meaning. *)
From LZ4V Require Import Base BlockFormat.

Lemma read_ext_repeat k r rest acc : r <> 255 ->
  read_ext (repeat 255 k ++ r :: rest) acc = Some (acc + 255 * Z.of_nat k + r, rest).
Proof.
  revert acc; induction k as [|k IH]; intros acc Hr; cbn [repeat app read_ext].
  - destruct (r =? 255) eqn:E; [lia|]. f_equal. f_equal. lia.
  - change (255 =? 255) with true. cbn iota. rewrite IH by assumption. f_equal. f_equal. lia.
Qed.

Lemma read_ext_ext v rest acc : 0 <= v ->
  read_ext (ext v ++ rest) acc = Some (acc + v, rest).
Proof.
  intros Hv. unfold ext. rewrite <- app_assoc. cbn [app].
  rewrite read_ext_repeat.
  - f_equal. f_equal. rewrite Z2Nat.id by (apply Z.div_pos; lia).
    pose proof (Z.div_mod v 255 ltac:(lia)). lia.
  - pose proof (Z.mod_pos_bound v 255 ltac:(lia)). lia.
Qed.

Lemma read_len_enc v rest : 0 <= v -> read_len (nib v) (extl v ++ rest) = Some (v, rest).
Proof.
  intros Hv. unfold read_len, nib, extl.
  destruct (v <? 15) eqn:E.
  - destruct (v =? 15) eqn:E2; [lia|]. reflexivity.
  - change (15 =? 15) with true. cbn iota. rewrite read_ext_ext by lia. f_equal. f_equal. lia.
Qed.

Lemma nib_range v : 0 <= v -> 0 <= nib v <= 15.
Proof. unfold nib; destruct (v <? 15) eqn:E; lia. Qed.

Lemma tok_div a b : 0 <= b <= 15 -> (16 * a + b) / 16 = a.
Proof. intros. rewrite Z.mul_comm, Z.div_add_l by lia. rewrite Z.div_small; lia. Qed.
Lemma tok_mod a b : 0 <= b <= 15 -> (16 * a + b) mod 16 = b.
Proof. intros. rewrite Z.add_comm, Z.mul_comm, Z.mod_add by lia. apply Z.mod_small; lia. Qed.

Lemma firstn_len_app {A} (a b : list A) : firstn (Z.to_nat (len a)) (a ++ b) = a.
Proof. unfold len. rewrite Nat2Z.id. rewrite firstn_app, Nat.sub_diag, firstn_all. cbn. apply app_nil_r. Qed.
Lemma skipn_len_app {A} (a b : list A) : skipn (Z.to_nat (len a)) (a ++ b) = b.
Proof. unfold len. rewrite Nat2Z.id. rewrite skipn_app, Nat.sub_diag, skipn_all. reflexivity. Qed.
Lemma firstn_len {A} (l : list A) : firstn (Z.to_nat (len l)) l = l.
Proof. unfold len. rewrite Nat2Z.id. apply firstn_all. Qed.
Lemma skipn_len {A} (l : list A) : skipn (Z.to_nat (len l)) l = [].
Proof. unfold len. rewrite Nat2Z.id. apply skipn_all. Qed.

Lemma off_le o : 1 <= o <= 65535 -> (o mod 256) + 256 * (o / 256) = o.
Proof. intros. pose proof (Z.div_mod o 256 ltac:(lia)). lia. Qed.

(* one sequence followed by more input *)
Lemma sdec_seq f s rest rdict rout cap : wf_seq s ->
  sdec (S f) (enc_seq s ++ rest) rdict rout cap =
  match exec_seq rdict cap rout s with None => None | Some r => sdec f rest rdict r cap end.
Proof.
  intros (Hb & Ho & Hm).
  unfold enc_seq. cbn [app sdec].
  pose proof (len_nonneg (lits s)) as Hl.
  rewrite tok_div, tok_mod by (apply nib_range; lia).
  rewrite <- !app_assoc.
  rewrite read_len_enc by lia.
  rewrite len_app.
  match goal with |- context [len (lits s) + len ?t <? len (lits s)] =>
    pose proof (len_nonneg t); replace (len (lits s) + len t <? len (lits s)) with false by lia end.
  rewrite firstn_len_app, skipn_len_app.
  unfold exec_seq.
  destruct (cap <? len (rev_append (lits s) rout)) eqn:Ecap; [reflexivity|].
  cbn [app].
  rewrite off_le by lia.
  destruct (off s =? 0) eqn:E0; [lia|].
  rewrite read_len_enc by lia.
  replace (mlen s - 4 + 4) with (mlen s) by lia.
  destruct (copy_match (Z.to_nat (mlen s)) rdict (rev_append (lits s) rout) (off s)); [|reflexivity].
  destruct (cap <? len l); reflexivity.
Qed.

Lemma sdec_last f l rdict rout cap :
  sdec (S f) (enc_last l) rdict rout cap =
  let r' := rev_append l rout in if cap <? len r' then None else Some r'.
Proof.
  unfold enc_last. cbn [sdec].
  pose proof (len_nonneg l) as Hl.
  replace (16 * nib (len l)) with (16 * nib (len l) + 0) by lia.
  rewrite tok_div, tok_mod by lia.
  rewrite read_len_enc by lia.
  rewrite Z.ltb_irrefl.
  rewrite firstn_len, skipn_len. cbn zeta.
  destruct (cap <? len (rev_append l rout)); reflexivity.
Qed.

Theorem sdec_encode : forall ss last f rdict rout cap,
  Forall wf_seq ss -> (length ss < f)%nat ->
  sdec f (encode (ss, last)) rdict rout cap = expand_parse rdict cap rout (ss, last).
Proof.
  induction ss as [|s ss IH]; intros last f rdict rout cap Hwf Hf.
  - destruct f as [|f]; [cbn in Hf; lia|].
    unfold encode, expand_parse. cbn [fst snd flat_map app expand]. apply sdec_last.
  - destruct f as [|f]; [cbn in Hf; lia|].
    inversion Hwf as [|? ? Hs Hss]; subst.
    unfold encode. cbn [fst snd flat_map]. rewrite <- app_assoc.
    rewrite sdec_seq by assumption.
    unfold expand_parse. cbn [fst snd expand].
    destruct (exec_seq rdict cap rout s) as [r|]; [|reflexivity].
    specialize (IH last f rdict r cap Hss). unfold encode, expand_parse in IH. cbn [fst snd] in IH.
    apply IH. cbn [length] in Hf. lia.
Qed.

(* an encoding is never empty and is longer than the number of sequences *)
Lemma encode_length ss last : (length ss < length (encode (ss, last)))%nat.
Proof.
  unfold encode. cbn [fst snd]. induction ss as [|s ss IH].
  - cbn. lia.
  - cbn [flat_map]. rewrite <- app_assoc. unfold enc_seq at 1. cbn [app length].
    rewrite app_length. cbn [length]. apply -> Nat.succ_lt_mono.
    eapply Nat.lt_le_trans; [exact IH|]. rewrite !app_length. lia.
Qed.

Theorem spec_decode_encode : forall p dict cap, wf_parse p ->
  spec_decode (encode p) dict cap = option_map (@rev Z) (expand_parse (rev dict) cap [] p).
Proof.
  intros [ss last] dict cap [Hwf _]. unfold spec_decode.
  pose proof (encode_length ss last) as Hl.
  destruct (encode (ss, last)) as [|b r] eqn:E; [cbn in Hl; lia|].
  rewrite <- E. rewrite sdec_encode; [reflexivity|exact Hwf|].
  rewrite E. lia.
Qed.
