(* BlockExecProofs.v — the efficient executable form (BlockExec) means the same as the
   specification (BlockFormat): copy_fast = copy_match, sdecx = sdec, spec_decode_x = spec_decode.

   Hypotheses that were needed (and why):
   - copy_fast_spec needs 0 < m (NOT 0 <= m).  For m = 0, copy_match copies nothing and never
     looks at the offset, so it answers Some rout for ANY o, while copy_fast first rejects
     o <= 0 and o > len rout + len rdict.  Concrete: copy_fast 0 [] [] 0 0 0 = None but
     copy_match 0 [] [] 0 = Some [] (see copy_fast_m0_differs below).  For every m > 0 the two
     agree on all inputs.
   - sdecx_sdec needs [bytes src].  With non-byte cells read_len can return a negative length;
     ml = -4 gives m = 0 and hits the difference above (see sdecx_sdec_needs_bytes below), and a
     negative literal length would break the di = len rout bookkeeping.  With byte input
     ll >= 0 and m = ml + 4 >= 4.  No condition relating cap and len rout is needed.
   - spec_decode_x_eq needs [bytes src] only; 0 <= cap is not needed. *)
From Coq Require Import ZifyBool.
From LZ4V Require Import Base BlockFormat BlockFormatProofs BlockExec.

(* ---------- list facts ---------- *)
Lemma nth_error_skipn {A} a : forall (l : list A) k, nth_error (skipn a l) k = nth_error l (a + k).
Proof.
  induction a as [|a IH]; intros l k; [reflexivity|].
  destruct l as [|x l]; [cbn [skipn Nat.add]; now destruct k|].
  cbn [skipn Nat.add nth_error]. apply IH.
Qed.

Lemma firstn_S_nth_error {A} k : forall (l : list A) b,
  nth_error l k = Some b -> firstn (S k) l = firstn k l ++ [b].
Proof.
  induction k as [|k IH]; intros l b Hn; destruct l as [|x l]; cbn [nth_error] in Hn; try discriminate.
  - injection Hn as ->. reflexivity.
  - cbn [firstn app]. f_equal. change (firstn (S k) l = firstn k l ++ [b]). apply IH. exact Hn.
Qed.

Lemma app_n_comm q R : forall rest, app_n q R (R ++ rest) = R ++ app_n q R rest.
Proof.
  induction q as [|q IH]; intros rest; cbn [app_n]; [reflexivity|].
  rewrite IH. reflexivity.
Qed.

(* ---------- copy_match, in nat ---------- *)
Lemma byte_at_hist rdict rout o : (1 <= o)%nat ->
  byte_at rdict rout (Z.of_nat o) = nth_error (rout ++ rdict) (o - 1).
Proof.
  intros Ho. unfold byte_at, len.
  destruct (Z.of_nat o <=? 0) eqn:E0; [lia|].
  destruct (Z.of_nat o <=? Z.of_nat (length rout)) eqn:E1.
  - rewrite nth_error_app1 by lia. f_equal. lia.
  - rewrite nth_error_app2 by lia. f_equal. lia.
Qed.

Lemma copy_match_add a : forall b rdict rout o,
  copy_match (a + b) rdict rout o =
  match copy_match a rdict rout o with None => None | Some r => copy_match b rdict r o end.
Proof.
  induction a as [|a IH]; intros b rdict rout o; cbn [Nat.add copy_match]; [reflexivity|].
  destruct (byte_at rdict rout o) as [x|]; [apply IH|reflexivity].
Qed.

Lemma copy_match_len n : forall rdict rout o r,
  copy_match n rdict rout o = Some r -> len r = len rout + Z.of_nat n.
Proof.
  induction n as [|n IH]; intros rdict rout o r Hc; cbn [copy_match] in Hc.
  - injection Hc as <-. lia.
  - destruct (byte_at rdict rout o) as [x|]; [|discriminate].
    apply IH in Hc. rewrite len_cons in Hc. lia.
Qed.

(* a non-overlapping match is a block of the history rout ++ rdict *)
Lemma copy_match_block n : forall rdict rout o,
  (n <= o)%nat -> (o <= length (rout ++ rdict))%nat ->
  copy_match n rdict rout (Z.of_nat o) = Some (firstn n (skipn (o - n) (rout ++ rdict)) ++ rout).
Proof.
  induction n as [|n IH]; intros rdict rout o Hn Ho; cbn [copy_match]; [reflexivity|].
  rewrite byte_at_hist by lia.
  destruct (nth_error (rout ++ rdict) (o - 1)) as [b|] eqn:Eb.
  2:{ apply nth_error_None in Eb. lia. }
  rewrite IH.
  - f_equal.
    replace (o - n)%nat with (S (o - S n)) by lia.
    cbn [app skipn].
    rewrite (firstn_S_nth_error n _ b).
    + rewrite <- app_assoc. reflexivity.
    + rewrite nth_error_skipn. replace (o - S n + n)%nat with (o - 1)%nat by lia. exact Eb.
  - lia.
  - cbn [app length]. lia.
Qed.

(* q whole rounds of o bytes each *)
Lemma copy_match_rounds q : forall rdict rout o,
  (1 <= o)%nat -> (o <= length (rout ++ rdict))%nat ->
  copy_match (q * o) rdict rout (Z.of_nat o) =
  Some (app_n q (firstn o (rout ++ rdict)) rout).
Proof.
  induction q as [|q IH]; intros rdict rout o H1 Ho; [reflexivity|].
  cbn [Nat.mul app_n]. rewrite copy_match_add.
  rewrite copy_match_block by lia.
  rewrite Nat.sub_diag. cbn [skipn].
  set (R := firstn o (rout ++ rdict)).
  assert (HR : length R = o) by (unfold R; rewrite firstn_length; lia).
  rewrite IH.
  - rewrite <- app_assoc. rewrite firstn_app, HR, Nat.sub_diag. cbn [firstn].
    rewrite app_nil_r. rewrite <- HR at 1. rewrite firstn_all.
    rewrite app_n_comm. reflexivity.
  - lia.
  - rewrite !app_length. lia.
Qed.

(* q >= 1 rounds then a remainder r < o *)
Lemma copy_match_overlap q r rdict rout o :
  (1 <= q)%nat -> (r < o)%nat -> (o <= length (rout ++ rdict))%nat ->
  copy_match (q * o + r) rdict rout (Z.of_nat o) =
  Some (skipn (o - r) (firstn o (rout ++ rdict)) ++ app_n q (firstn o (rout ++ rdict)) rout).
Proof.
  intros Hq Hr Ho. rewrite copy_match_add. rewrite copy_match_rounds by lia.
  set (R := firstn o (rout ++ rdict)).
  assert (HR : length R = o) by (unfold R; rewrite firstn_length; lia).
  destruct q as [|q]; [lia|]. cbn [app_n].
  set (X := app_n q R rout).
  rewrite copy_match_block.
  - f_equal. f_equal. rewrite <- app_assoc.
    rewrite skipn_app. replace (o - r - length R)%nat with 0%nat by lia. cbn [skipn].
    rewrite firstn_app, skipn_length.
    replace (r - (length R - (o - r)))%nat with 0%nat by lia. cbn [firstn]. rewrite app_nil_r.
    apply firstn_all2. rewrite skipn_length. lia.
  - lia.
  - rewrite !app_length. lia.
Qed.

(* ---------- copy_fast = copy_match ---------- *)
(* FALSE for m = 0 with an offset outside the history: *)
Example copy_fast_m0_differs :
  copy_fast 0 [] [] (len (@nil Z)) (len (@nil Z)) 0 = None /\ copy_match (Z.to_nat 0) [] [] 0 = Some [].
Proof. split; reflexivity. Qed.

(* when o stays inside rout, the blocks taken from rout and from rout ++ rdict coincide *)
Lemma block_app_l {A} (rout rdict : list A) n k :
  (k + n <= length rout)%nat ->
  firstn n (skipn k (rout ++ rdict)) = firstn n (skipn k rout).
Proof.
  intros H. rewrite skipn_app, firstn_app, skipn_length.
  replace (n - (length rout - k))%nat with 0%nat by lia. cbn [firstn]. apply app_nil_r.
Qed.

Lemma copy_fast_spec : forall m rdict rout o,
  0 < m -> copy_fast m rdict rout (len rdict) (len rout) o = copy_match (Z.to_nat m) rdict rout o.
Proof.
  intros m rdict rout o Hm. unfold copy_fast.
  destruct (Z.to_nat m) as [|k] eqn:Ek; [lia|].
  destruct (o <=? 0) eqn:E0.
  { cbn [copy_match]. unfold byte_at. rewrite E0. reflexivity. }
  destruct (len rout + len rdict <? o) eqn:E1.
  { cbn [copy_match]. unfold byte_at. rewrite E0.
    destruct (o <=? len rout) eqn:E2; [pose proof (len_nonneg rdict); lia|].
    assert (Hn : nth_error rdict (Z.to_nat (o - 1 - len rout)) = None)
      by (apply nth_error_None; unfold len in *; lia).
    rewrite Hn. reflexivity. }
  rewrite <- Ek. clear k Ek.
  assert (Ho : exists o', o = Z.of_nat o') by (exists (Z.to_nat o); lia).
  destruct Ho as [o' ->].
  assert (Hlen : (o' <= length (rout ++ rdict))%nat) by (rewrite app_length; unfold len in *; lia).
  rewrite Nat2Z.id.
  set (V := if len rout <? Z.of_nat o' then rout ++ rdict else rout).
  destruct (m <=? Z.of_nat o') eqn:E2.
  - (* block copy *)
    rewrite copy_match_block by lia.
    replace (Z.to_nat (Z.of_nat o' - m)) with (o' - Z.to_nat m)%nat by lia.
    f_equal. f_equal. unfold V.
    destruct (len rout <? Z.of_nat o') eqn:E3; [reflexivity|].
    symmetry. apply block_app_l. unfold len in *. lia.
  - (* overlapping copy *)
    assert (HV : firstn o' V = firstn o' (rout ++ rdict)).
    { unfold V. destruct (len rout <? Z.of_nat o') eqn:E3; [reflexivity|].
      symmetry. apply (block_app_l rout rdict o' 0). unfold len in *. lia. }
    rewrite HV.
    assert (Hq : 0 < m / Z.of_nat o') by (apply Z.div_str_pos; lia).
    pose proof (Z.mod_pos_bound m (Z.of_nat o') ltac:(lia)) as Hr.
    pose proof (Z.div_mod m (Z.of_nat o') ltac:(lia)) as Hdm.
    replace (Z.to_nat m)
      with (Z.to_nat (m / Z.of_nat o') * o' + Z.to_nat (m mod Z.of_nat o'))%nat by nia.
    rewrite copy_match_overlap by lia.
    replace (Z.to_nat (Z.of_nat o' - m mod Z.of_nat o'))
      with (o' - Z.to_nat (m mod Z.of_nat o'))%nat by lia.
    reflexivity.
Qed.

(* ---------- take_rev ---------- *)
Lemma take_rev_spec l : forall n acc, 0 <= n ->
  take_rev l n acc =
  if len l <? n then None
  else Some (rev_append (firstn (Z.to_nat n) l) acc, skipn (Z.to_nat n) l).
Proof.
  induction l as [|x l IH]; intros n acc Hn; cbn [take_rev].
  - destruct (n <=? 0) eqn:E0.
    + assert (n = 0) by lia. subst n. reflexivity.
    + rewrite len_nil. destruct (0 <? n) eqn:E1; [reflexivity|lia].
  - destruct (n <=? 0) eqn:E0.
    + assert (n = 0) by lia. subst n. rewrite len_cons.
      pose proof (len_nonneg l). destruct (1 + len l <? 0) eqn:E1; [lia|]. reflexivity.
    + rewrite IH by lia. rewrite len_cons.
      replace (Z.to_nat n) with (S (Z.to_nat (n - 1))) by lia.
      cbn [firstn skipn rev_append].
      destruct (len l <? n - 1) eqn:E1; destruct (1 + len l <? n) eqn:E2; try lia; reflexivity.
Qed.

(* ---------- byte input gives non-negative lengths ---------- *)
Lemma read_ext_bytes src : forall acc v r, bytes src ->
  read_ext src acc = Some (v, r) -> acc <= v /\ bytes r.
Proof.
  induction src as [|x src IH]; intros acc v r Hb Hr; cbn [read_ext] in Hr; [discriminate|].
  inversion Hb as [|? ? Hx Hb']; subst. unfold is_byte in Hx.
  destruct (x =? 255) eqn:E.
  - apply IH in Hr; [|exact Hb']. split; [lia|apply Hr].
  - injection Hr as <- <-. split; [lia|exact Hb'].
Qed.

Lemma read_len_bytes nibble src v r : bytes src -> 0 <= nibble ->
  read_len nibble src = Some (v, r) -> 0 <= v /\ bytes r.
Proof.
  intros Hb Hn Hr. unfold read_len in Hr. destruct (nibble =? 15) eqn:E.
  - apply read_ext_bytes in Hr; [|exact Hb]. split; [lia|apply Hr].
  - injection Hr as <- <-. split; [lia|exact Hb].
Qed.

(* ---------- sdecx = sdec ---------- *)
(* FALSE without [bytes src]: extension byte -19 makes ml = -4, m = 0, offset 5 is outside
   the (empty) history; sdec copies nothing and succeeds, sdecx rejects the offset. *)
Example sdecx_sdec_needs_bytes :
  sdecx 2 [15; 5; 0; -19] [] [] (len (@nil Z)) (len (@nil Z)) 10 = None /\
  sdec 2 [15; 5; 0; -19] [] [] 10 = Some [].
Proof. split; reflexivity. Qed.

Theorem sdecx_sdec : forall fuel src rdict rout cap, bytes src ->
  sdecx fuel src rdict rout (len rdict) (len rout) cap = sdec fuel src rdict rout cap.
Proof.
  induction fuel as [|f IH]; intros src rdict rout cap Hb; [reflexivity|].
  cbn [sdecx sdec].
  destruct src as [|tok r0]; [reflexivity|].
  inversion Hb as [|? ? Htok Hb0]; subst. unfold is_byte in Htok.
  destruct (read_len (tok / 16) r0) as [[ll r1]|] eqn:E1; [|reflexivity].
  apply read_len_bytes in E1; [|exact Hb0|apply Z.div_pos; lia].
  destruct E1 as [Hll Hb1].
  rewrite take_rev_spec by exact Hll.
  destruct (len r1 <? ll) eqn:E2.
  { destruct (cap <? len rout + ll); reflexivity. }
  set (rout1 := rev_append (firstn (Z.to_nat ll) r1) rout).
  assert (Hl1 : len rout1 = len rout + ll).
  { unfold rout1. rewrite rev_append_rev, len_app. unfold len in *.
    rewrite rev_length, firstn_length. lia. }
  rewrite <- Hl1.
  destruct (cap <? len rout1) eqn:E3; [reflexivity|].
  pose proof (bytes_skipn (Z.to_nat ll) r1 Hb1) as Hb2.
  destruct (skipn (Z.to_nat ll) r1) as [|o1 [|o2 r3]]; [reflexivity|reflexivity|].
  destruct (o1 + 256 * o2 =? 0) eqn:E4; [reflexivity|].
  inversion Hb2 as [|? ? _ Hb2']; subst. inversion Hb2' as [|? ? _ Hb3]; subst.
  destruct (read_len (tok mod 16) r3) as [[ml r4]|] eqn:E5; [|reflexivity].
  apply read_len_bytes in E5; [|exact Hb3|apply Z.mod_pos_bound; lia].
  destruct E5 as [Hml Hb4].
  rewrite copy_fast_spec by lia.
  destruct (copy_match (Z.to_nat (ml + 4)) rdict rout1 (o1 + 256 * o2)) as [rout2|] eqn:E6.
  - apply copy_match_len in E6. rewrite Z2Nat.id in E6 by lia.
    rewrite <- E6.
    destruct (cap <? len rout2); [reflexivity|]. apply IH. exact Hb4.
  - destruct (cap <? len rout1 + (ml + 4)); reflexivity.
Qed.

(* ---------- spec_decode_x = spec_decode ---------- *)
Theorem spec_decode_x_eq : forall src dict cap, bytes src ->
  spec_decode_x src dict cap = spec_decode src dict cap.
Proof.
  intros src dict cap Hb. unfold spec_decode_x, spec_decode.
  destruct src as [|b r]; [reflexivity|].
  rewrite rrev_rev.
  replace (len dict) with (len (rev dict)) by (unfold len; rewrite rev_length; reflexivity).
  change 0 with (len (@nil Z)).
  rewrite sdecx_sdec by exact Hb.
  destruct (sdec (S (length (b :: r))) (b :: r) (rev dict) [] cap) as [x|]; [|reflexivity].
  cbn [option_map]. rewrite rrev_rev. reflexivity.
Qed.

Print Assumptions copy_fast_spec.
Print Assumptions sdecx_sdec.
Print Assumptions spec_decode_x_eq.
